(* C03: the library never panics.

   Panic is produced only by the model's partial Go primitives (sub, bslice,
   at_, the make-length guards, dec_int64 on NaN, the nil-dereference markers
   of the parser).  This file proves that none of them is reachable. *)
From Coq Require Import List ZArith Bool Lia.
From JM Require Import Base.Outcome Base.Bytes Base.GoInt Base.Utf8 Num.Dec Num.Flt
  Json.Value Json.JsonPrint Model.Ast Model.Compare Model.NumberFns Model.Slice
  Model.StringFns Model.Array Model.Functions Model.Eval
  Proofs.SliceProofs Proofs.Utf8Theory.
Import ListNotations.
Open Scope Z_scope.

(* ------------------------------------------------------------------ *)
(* no-panic, and its rules                                             *)
(* ------------------------------------------------------------------ *)

Definition nopanic {A} (o : outcome A) : Prop := is_panic o = false.

Lemma np_ok {A} (a : A) : nopanic (Ok a). Proof. reflexivity. Qed.
Lemma np_err {A} e : nopanic (@Err A e). Proof. reflexivity. Qed.
Lemma np_unm {A} : nopanic (@Unmodelled A). Proof. reflexivity. Qed.
Lemma np_fuel {A} : nopanic (@OutOfFuel A). Proof. reflexivity. Qed.

Lemma np_bind {A B} (o : outcome A) (f : A -> outcome B) :
  nopanic o -> (forall a, o = Ok a -> nopanic (f a)) -> nopanic (bind o f).
Proof. destruct o; cbn; intros H K; auto; discriminate. Qed.

Lemma np_bind' {A B} (o : outcome A) (f : A -> outcome B) :
  nopanic o -> (forall a, nopanic (f a)) -> nopanic (bind o f).
Proof. intros; apply np_bind; auto. Qed.

(* syntactic closing of goals whose head is visible after case analysis *)
Ltac np_step :=
  match goal with
  | |- nopanic (Ok _) => reflexivity
  | |- nopanic (Err _) => reflexivity
  | |- nopanic Unmodelled => reflexivity
  | |- nopanic OutOfFuel => reflexivity
  | |- nopanic (bind _ _) => apply np_bind; [|intros ? ?]
  | |- nopanic (match ?x with _ => _ end) => destruct x eqn:?
  | |- nopanic (let '(_, _) := ?x in _) => destruct x eqn:?
  end.
Ltac np := repeat np_step; try reflexivity; auto.

(* ------------------------------------------------------------------ *)
(* NumberFns                                                           *)
(* ------------------------------------------------------------------ *)

Lemma np_decimal_to_int d : nopanic (decimal_to_int d).
Proof.
  unfold decimal_to_int. destruct d as [n c e|n|]; cbn [is_nan is_inf dec_is_integral orb negb];
    try reflexivity.
  - destruct (if 0 <=? e then true else if e <? -80 then c =? 0 else c mod pow10 (- e) =? 0);
      cbn [orb negb]; [|reflexivity].
    unfold dec_int64. np.
Qed.

Lemma np_to_int v : nopanic (to_int v).
Proof.
  unfold to_int. destruct v as [| | |n| | |]; try reflexivity.
  destruct n as [t|d|sg f|k z].
  - destruct (parse_int64 t); [reflexivity|]. destruct (parse_dec t); [apply np_decimal_to_int|reflexivity].
  - apply np_decimal_to_int.
  - np.
  - np.
Qed.

Lemma np_int_arg v : nopanic (int_arg v).
Proof. unfold int_arg. apply np_bind; [apply np_to_int|]. intros [[i isnum] ok] _. np. Qed.

Lemma np_trap d : nopanic (trap d). Proof. unfold trap; np. Qed.
Lemma np_ftrap o : nopanic (ftrap o). Proof. unfold ftrap; np. Qed.
Lemma np_arith fop dop x y : nopanic (arith fop dop x y).
Proof. unfold arith. np; first [apply np_ftrap | apply np_trap]. Qed.
Lemma np_integer_divide x y : nopanic (integer_divide x y).
Proof. unfold integer_divide. np; apply np_ftrap. Qed.
Lemma np_modulo x y : nopanic (modulo x y).
Proof. unfold modulo. np; first [apply np_ftrap | apply np_trap]. Qed.
Lemma np_num1 fop dop v : nopanic (num1 fop dop v). Proof. unfold num1; np. Qed.

Lemma np_sum_loop l : forall total special finite, nopanic (sum_loop l total special finite).
Proof.
  induction l as [|v l IH]; intros total special finite; cbn [sum_loop]; [reflexivity|].
  destruct (to_decimal v); [|reflexivity]. cbv zeta. destruct (finite && is_fin d); apply IH.
Qed.
Lemma np_sum v : nopanic (sum v).
Proof.
  unfold sum. destruct v; try reflexivity.
  apply np_bind; [apply np_sum_loop|intros [[total special] finite] _; apply np_trap].
Qed.
Lemma np_avg v : nopanic (avg v).
Proof.
  unfold avg. destruct v as [| | | |l| |]; try reflexivity. destruct l; [reflexivity|].
  apply np_bind; [apply np_sum_loop|intros [[total special] finite] _; apply np_trap].
Qed.

Lemma np_binop op l r : nopanic (binop_eval op l r).
Proof.
  destruct op; cbn [binop_eval]; try reflexivity; unfold add, subtract, multiply, divide;
    first [apply np_arith | apply np_integer_divide | apply np_modulo].
Qed.

(* ------------------------------------------------------------------ *)
(* Array, Functions, Compare, JsonPrint                                *)
(* ------------------------------------------------------------------ *)

Lemma np_sort_array v : nopanic (sort_array v).
Proof. unfold sort_array. np. Qed.

Lemma np_extreme_str gt l : forall best, nopanic (extreme_str gt best l).
Proof. induction l as [|v l IH]; intros best; cbn [extreme_str]; [reflexivity|]. destruct v; try reflexivity. apply IH. Qed.
Lemma np_extreme_dec gt l : forall best, nopanic (extreme_dec gt best l).
Proof. induction l as [|v l IH]; intros best; cbn [extreme_dec]; [reflexivity|]. destruct (to_decimal v); [apply IH|reflexivity]. Qed.
Lemma np_array_extreme gt v : nopanic (array_extreme gt v).
Proof.
  unfold array_extreme. destruct v as [| | | |l| |]; try reflexivity. destruct l as [|x r]; [reflexivity|].
  destruct x; try (destruct (to_decimal _); [|reflexivity]);
    (apply np_bind; [first [apply np_extreme_str | apply np_extreme_dec]|intros; reflexivity]).
Qed.

Lemma np_jnum n : nopanic (jnum n). Proof. unfold jnum; np. Qed.

Lemma np_jprint : forall v, nopanic (jprint v).
Proof.
  fix IH 1. intros v. destruct v as [|b|s|n|l|m|t]; cbn [jprint]; try reflexivity.
  - destruct b; reflexivity.
  - apply np_jnum.
  - apply np_bind; [|intros; reflexivity].
    induction l as [|x r IHr]; [reflexivity|].
    apply np_bind; [apply IH|intros]. apply np_bind; [apply IHr|intros; reflexivity].
  - apply np_bind; [|intros; reflexivity].
    induction m as [|[k x] r IHr]; [reflexivity|].
    apply np_bind; [apply IH|intros]. apply np_bind; [apply IHr|intros; reflexivity].
Qed.

Lemma np_to_string v : nopanic (to_string v).
Proof. unfold to_string. destruct v; try reflexivity; (apply np_bind; [apply np_jprint|intros; reflexivity]). Qed.

Lemma np_from_items_loop l : forall acc, nopanic (from_items_loop l acc).
Proof.
  induction l as [|v l IH]; intros acc; cbn [from_items_loop]; [reflexivity|].
  destruct v as [| | | |ia| |]; try reflexivity.
  destruct ia as [|k [|x [|y ia]]]; try reflexivity. destruct k; try reflexivity. apply IH.
Qed.
Lemma np_from_items v : nopanic (from_items v).
Proof. unfold from_items. destruct v; try reflexivity. destruct (forallb is_arr _); [|reflexivity]. apply np_bind; [apply np_from_items_loop|intros; reflexivity]. Qed.

Lemma np_call1 f a : nopanic (call1 f a).
Proof.
  destruct f; cbn [call1]; try reflexivity;
    first [ apply np_num1 | apply np_avg | apply np_sum | apply np_from_items | apply np_to_string
          | apply np_sort_array | apply np_array_extreme | idtac ].
  all: try (unfold items, keys, length_, lower, upper, reverse, type_name, values,
            trim_space, trim_space_left, trim_space_right, str_arg; np).
Qed.

(* ------------------------------------------------------------------ *)
(* StringFns                                                           *)
(* ------------------------------------------------------------------ *)

Lemma blen_nonneg s : 0 <= blen s. Proof. unfold blen; lia. Qed.

Lemma decode_rune_nil_size : snd (decode_rune []) = 0. Proof. reflexivity. Qed.

Lemma blen_skipn_decode s r sz : decode_rune s = (r, sz) -> (sz =? 0) = false ->
  1 <= sz /\ blen (skipn (Z.to_nat sz) s) = blen s - sz.
Proof.
  intros D Hz. destruct s as [|b0 t]; [cbn in D; inversion D; subst; discriminate|].
  pose proof (decode_rune_size (b0 :: t) ltac:(discriminate)) as Hs. rewrite D in Hs. cbn [snd] in Hs.
  split; [lia|]. unfold blen. rewrite skipn_length. lia.
Qed.

Lemma rune_offset_range : forall k s n m, rune_offset k s n = Some m -> n <= m <= n + blen s.
Proof.
  induction k as [|k IH]; intros s n m H; cbn [rune_offset] in H.
  - inversion H; subst. pose proof (blen_nonneg s). lia.
  - destruct (decode_rune s) as [r sz] eqn:D. destruct (sz =? 0) eqn:Hz; [discriminate|].
    destruct (blen_skipn_decode s r sz D Hz) as [H1 H2]. apply IH in H. lia.
Qed.

Lemma rune_offset_clamp_range : forall k s n, n <= rune_offset_clamp k s n <= n + blen s.
Proof.
  induction k as [|k IH]; intros s n; cbn [rune_offset_clamp]; pose proof (blen_nonneg s) as Hs.
  - lia.
  - destruct (decode_rune s) as [r sz] eqn:D. destruct (sz =? 0) eqn:Hz; [lia|].
    destruct (blen_skipn_decode s r sz D Hz) as [H1 H2].
    specialize (IH (skipn (Z.to_nat sz) s) (n + sz)). lia.
Qed.

Lemma start_offset_range s i m : start_offset s i = Some m -> 0 <= m <= blen s.
Proof.
  unfold start_offset. pose proof (blen_nonneg s).
  destruct (i <? 0); [intros E; inversion E; lia|].
  destruct (i >? blen s); [discriminate|]. intros E. apply rune_offset_range in E. lia.
Qed.

Lemma bslice_ok s i j : 0 <= i -> i <= j -> j <= blen s -> nopanic (bslice s i j).
Proof.
  intros. unfold bslice. rewrite (leb_true 0 i), (leb_true i j), (leb_true j (blen s)) by lia. reflexivity.
Qed.

Lemma np_str_arg v : nopanic (str_arg v). Proof. destruct v; reflexivity. Qed.

Lemma np_find_from last a b c : nopanic (find_from last a b c).
Proof.
  unfold find_from. apply np_bind; [apply np_str_arg|intros s _]. apply np_bind; [apply np_str_arg|intros p _].
  apply np_bind; [apply np_int_arg|intros i _].
  destruct (is_nil s || is_nil p); [reflexivity|].
  destruct (start_offset s i) as [m|] eqn:E; [|reflexivity].
  apply start_offset_range in E.
  apply np_bind; [apply bslice_ok; lia|intros t _]. np.
Qed.

Lemma np_find_between last a b c d : nopanic (find_between last a b c d).
Proof.
  unfold find_between. apply np_bind; [apply np_str_arg|intros s _]. apply np_bind; [apply np_str_arg|intros p _].
  apply np_bind; [apply np_to_int|intros [[i isnum] ok] _].
  apply np_bind.
  { destruct ok; [reflexivity|]. destruct (negb isnum); [reflexivity|].
    apply np_bind; [apply np_to_int|intros [[x fnum] y] _]. np. }
  intros i' _.
  apply np_bind; [apply np_int_arg|intros j _].
  destruct (is_nil s || is_nil p); [reflexivity|].
  destruct (start_offset s i') as [m|] eqn:E; [|reflexivity].
  apply start_offset_range in E.
  destruct (j <? 0); [reflexivity|].
  set (j' := if j >? blen s then blen s else rune_offset_clamp (Z.to_nat j) s 0).
  assert (Hj : j' <= blen s).
  { subst j'. destruct (j >? blen s); [lia|]. pose proof (rune_offset_clamp_range (Z.to_nat j) s 0). lia. }
  destruct (m >? j') eqn:G; [reflexivity|].
  assert (m <= j') by (rewrite Z.gtb_ltb in G; apply Z.ltb_ge in G; lia).
  apply np_bind; [apply bslice_ok; lia|intros t _]. np.
Qed.

Lemma np_join_loop sep l : nopanic (join_loop sep l).
Proof.
  induction l as [|v l IH]; cbn [join_loop]; [reflexivity|].
  apply np_bind; [apply np_str_arg|intros]. apply np_bind; [apply IH|intros; reflexivity].
Qed.
Lemma np_join a b : nopanic (join a b).
Proof.
  unfold join. destruct b; try reflexivity. apply np_bind; [apply np_str_arg|intros s _].
  destruct l; [reflexivity|]. apply np_bind; [apply np_str_arg|intros].
  apply np_bind; [apply np_join_loop|intros; reflexivity].
Qed.

Lemma np_pad left a w p : nopanic (pad left a w p).
Proof.
  unfold pad. apply np_bind; [apply np_str_arg|intros s _].
  apply np_bind; [destruct p; [apply np_str_arg|reflexivity]|intros q _].
  apply np_bind; [apply np_int_arg|intros n _]. np.
Qed.

Lemma np_contains x y : nopanic (contains x y). Proof. unfold contains; np. Qed.

Lemma np_call2 f a b : nopanic (call2 f a b).
Proof.
  destruct f; cbn [call2]; first [apply np_contains | apply np_join | apply np_pad | idtac].
  all: unfold ends_with, starts_with, find_first, find_last, split, trim, trim_left, trim_right.
  all: (apply np_bind; [apply np_str_arg|intros s _]); (apply np_bind; [apply np_str_arg|intros p _]); np.
Qed.

Lemma np_call3 f a b c : nopanic (call3 f a b c).
Proof.
  destruct f; cbn [call3]; first [apply np_find_from | apply np_pad | idtac].
  - unfold replace. repeat (apply np_bind; [apply np_str_arg|intros ? _]). reflexivity.
  - unfold split_count. repeat (apply np_bind; [apply np_str_arg|intros ? _]).
    apply np_bind; [apply np_int_arg|intros n _]. np.
Qed.

Lemma np_call4 f a b c d : nopanic (call4 f a b c d).
Proof.
  destruct f; cbn [call4]; first [apply np_find_between | idtac].
  unfold replace_count. repeat (apply np_bind; [apply np_str_arg|intros ? _]).
  apply np_bind; [apply np_int_arg|intros n _]. destruct (n <? 0); reflexivity.
Qed.

(* ------------------------------------------------------------------ *)
(* Slice                                                               *)
(* ------------------------------------------------------------------ *)

Ltac norem t := lazymatch t with context [Z.rem] => fail | _ => idtac end.
Ltac zb :=
  repeat match goal with
  | H : context [?a <? ?b] |- _ => norem a; norem b; destruct (Z.ltb_spec a b)
  | H : context [?a >=? ?b] |- _ => norem a; norem b; rewrite (Z.geb_leb a b) in H
  | H : context [?a >? ?b] |- _ => norem a; norem b; rewrite (Z.gtb_ltb a b) in H
  | H : context [?a <=? ?b] |- _ => norem a; norem b; destruct (Z.leb_spec a b)
  end.

Lemma norm1_range L start stop i j : 0 <= L ->
  norm1 L start stop false = BRange i j -> 0 <= i /\ i <= j /\ j <= L.
Proof.
  intros HL. unfold norm1. cbn [negb andb]. intros H. zb; cbn [negb andb] in H; try discriminate;
    zb; try discriminate; inversion H; subst; lia.
Qed.

(* slice(), step 1: the clamping makes the Go slice expression in range for every length *)
Lemma np_slice v start stop : nopanic (slice v start stop).
Proof.
  unfold slice. destruct v as [| |s| |a| |]; try reflexivity.
  - destruct (norm1 _ _ _ true); reflexivity.
  - destruct (norm1 (zlen a) start stop false) as [|i j] eqn:E; [reflexivity|].
    apply norm1_range in E; [|apply zlen_nonneg].
    apply np_bind; [|intros; reflexivity].
    unfold sub. rewrite (leb_true 0 i), (leb_true i j), (leb_true j (zlen a)) by lia. reflexivity.
Qed.

Lemma norm_step_pos_range L start stop step i n : 0 <= L -> 0 < step ->
  norm_step L start stop step = Some (i, n) ->
  0 <= i < L /\ exists c, 0 < c /\ i + c <= L /\ n = ceilq c step.
Proof.
  intros HL Hs. unfold norm_step. rewrite (gtb_true step 0) by lia. intros H.
  zb; try discriminate; zb; try discriminate; inversion H; subst;
    (split; [lia|]); eexists; (split; [|split; [|reflexivity]]); lia.
Qed.

Lemma norm_step_nonpos_range L start stop step i n : 0 <= L -> step <= 0 ->
  norm_step L start stop step = Some (i, n) ->
  0 <= i < L /\ exists c, 0 < c <= i + 1 /\ n = ceilq c (wrap64 (step * -1)).
Proof.
  intros HL Hs. unfold norm_step. rewrite (gtb_false step 0) by lia. intros H.
  zb; try discriminate; zb; try discriminate; inversion H; subst;
    (split; [lia|]); eexists; (split; [|reflexivity]); lia.
Qed.

Lemma ceilq_zero c : 0 < c -> ceilq c 0 = 1.
Proof.
  intros H. unfold ceilq. rewrite Z.rem_0_r_ext, Z.quot_0_r_ext by reflexivity.
  rewrite (gtb_true c 0) by lia. reflexivity.
Qed.

(* sliceStep() on an array: needs the array to be a Go slice (len <= MaxInt) and the step a
   non-zero Go int (a zero step divides by zero) *)
Lemma np_slice_step_arr a start stop step :
  zlen a <= MaxInt -> MinInt <= step <= MaxInt -> step <> 0 ->
  nopanic (slice_step (VArr a) start stop step).
Proof.
  intros HL Hstep Hnz. pose proof (zlen_nonneg a) as H0. unfold slice_step.
  destruct (norm_step (zlen a) start stop step) as [[i n]|] eqn:E; [|reflexivity].
  rewrite (proj2 (Z.eqb_neq step 0) Hnz).
  assert (G : 0 <= n <= MaxInt /\ Forall (fun x => 0 <= x < zlen a) (prog (Z.to_nat n) i step)).
  { destruct (Z_lt_le_dec 0 step) as [Hp|Hn].
    - apply norm_step_pos_range in E; [|lia|lia]. destruct E as [Hi [c [Hc [Hic ->]]]].
      pose proof (ceilq_spec c step Hc Hp) as [[Q1 Q2] Q3].
      split; [lia|]. apply prog_range. intros _. rewrite Z2Nat.id by lia. split; [lia|]. nia.
    - apply norm_step_nonpos_range in E; [|lia|lia]. destruct E as [Hi [c [Hc ->]]].
      destruct (Z.eq_dec step MinInt) as [->|Hne].
      + rewrite wrap64_neg_MinInt, ceilq_MinInt by lia.
        split; [unfold MaxInt; lia|]. cbn [Z.to_nat Pos.to_nat Pos.iter_op Nat.add prog].
        repeat constructor; lia.
      + rewrite wrap64_id by (unfold MinInt, MaxInt in *; lia).
        pose proof (ceilq_spec c (step * -1) ltac:(lia) ltac:(lia)) as [[Q1 Q2] Q3].
        split; [lia|]. apply prog_range. intros _. rewrite Z2Nat.id by lia. split; [lia|]. nia. }
  destruct G as [[G1 G2] G3].
  rewrite (ltb_false n 0), (gtb_false n MaxInt) by lia. cbn [orb].
  rewrite (pick_prog a VNull HL _ _ _ G3). reflexivity.
Qed.

Lemma np_slice_step_other v start stop step : step <> 0 ->
  match v with VArr _ => False | _ => True end -> nopanic (slice_step v start stop step).
Proof.
  intros Hnz. destruct v; try contradiction; intros _; try reflexivity.
  unfold slice_step. destruct (norm_step _ _ _ _) as [[i n]|]; [|reflexivity].
  rewrite (proj2 (Z.eqb_neq step 0) Hnz). destruct (step >? 0); reflexivity.
Qed.

(* what sliceStep needs from its operand *)
Definition arr_fits (v : value) : Prop := match v with VArr a => zlen a <= MaxInt | _ => True end.

Lemma np_slice_step v start stop step :
  arr_fits v -> MinInt <= step <= MaxInt -> step <> 0 -> nopanic (slice_step v start stop step).
Proof.
  intros Hv Hs Hnz. destruct v; try (apply np_slice_step_other; [exact Hnz | exact I]).
  apply np_slice_step_arr; assumption.
Qed.

(* ------------------------------------------------------------------ *)
(* Eval: the helpers with a callback are panic-free when the callback  *)
(* is panic-free on every element it is applied to                     *)
(* ------------------------------------------------------------------ *)

Section Callbacks.
  Variable ev : value -> outcome value.

  Definition np_on (l : list value) : Prop := forall v, In v l -> nopanic (ev v).

  Lemma np_on_cons v l : np_on (v :: l) -> nopanic (ev v) /\ np_on l.
  Proof. intros H; split; [apply H; left; reflexivity|intros x Hx; apply H; right; exact Hx]. Qed.

  Lemma np_project_list l : np_on l -> nopanic (project_list ev l).
  Proof.
    induction l as [|v l IH]; intros H; cbn [project_list]; [reflexivity|].
    apply np_on_cons in H as [H1 H2].
    apply np_bind; [exact H1|intros]. apply np_bind; [apply IH, H2|intros; reflexivity].
  Qed.

  Lemma np_mapM l : np_on l -> nopanic (mapM ev l).
  Proof.
    induction l as [|v l IH]; intros H; cbn [mapM]; [reflexivity|].
    apply np_on_cons in H as [H1 H2].
    apply np_bind; [exact H1|intros]. apply np_bind; [apply IH, H2|intros; reflexivity].
  Qed.

  Lemma np_str_keys l : np_on l -> nopanic (str_keys ev l).
  Proof.
    induction l as [|v l IH]; intros H; cbn [str_keys]; [reflexivity|].
    apply np_on_cons in H as [H1 H2].
    apply np_bind; [exact H1|intros k _]. destruct k; try reflexivity.
    apply np_bind; [apply IH, H2|intros; reflexivity].
  Qed.

  Lemma np_num_keys l : np_on l -> nopanic (num_keys ev l).
  Proof.
    induction l as [|v l IH]; intros H; cbn [num_keys]; [reflexivity|].
    apply np_on_cons in H as [H1 H2].
    apply np_bind; [exact H1|intros k _]. destruct (to_decimal k); try reflexivity.
    apply np_bind; [apply IH, H2|intros; reflexivity].
  Qed.

  Lemma np_keys_for a0 rest : np_on (a0 :: rest) -> nopanic (keys_for ev a0 rest).
  Proof.
    intros H. apply np_on_cons in H as [H1 H2]. unfold keys_for.
    apply np_bind; [exact H1|intros first _].
    destruct first; try (destruct (to_decimal _); [|reflexivity]);
      (apply np_bind; [first [apply np_str_keys, H2 | apply np_num_keys, H2]|intros; reflexivity]).
  Qed.

  (* the key list is never empty, so keys[0] is in range *)
  Lemma keys_for_nonempty a0 rest ks : keys_for ev a0 rest = Ok ks ->
    match ks with KStr [] | KNum [] => False | _ => True end.
  Proof.
    unfold keys_for. destruct (ev a0) as [first| | | |]; cbn [bind]; try discriminate.
    destruct first; try (destruct (to_decimal _); [|discriminate]);
      match goal with |- context [bind ?o _] => destruct o end; cbn [bind]; try discriminate;
      intros E; inversion E; exact I.
  Qed.

  Lemma np_sort_array_by v : np_on (match v with VArr a => a | _ => [] end) -> nopanic (sort_array_by ev v).
  Proof.
    intros H. unfold sort_array_by. destruct v as [| | | |a| |]; try reflexivity.
    destruct a as [|a0 rest]; [reflexivity|].
    apply np_bind; [apply np_keys_for, H|intros ks _]. destruct ks; reflexivity.
  Qed.

  Lemma np_array_extreme_by gt v : np_on (match v with VArr a => a | _ => [] end) ->
    nopanic (array_extreme_by ev gt v).
  Proof.
    intros H. unfold array_extreme_by. destruct v as [| | | |a| |]; try reflexivity.
    destruct a as [|a0 rest]; [reflexivity|].
    apply np_bind; [apply np_keys_for, H|intros ks E]. apply keys_for_nonempty in E.
    destruct ks as [[|k0 ss]|[|k0 ds]]; try contradiction; reflexivity.
  Qed.

  Lemma np_group_loop l : np_on l -> forall acc, nopanic (group_loop ev l acc).
  Proof.
    induction l as [|v l IH]; intros H acc; cbn [group_loop]; [reflexivity|].
    apply np_on_cons in H as [H1 H2].
    apply np_bind; [exact H1|intros k _]. destruct k; try reflexivity. apply IH, H2.
  Qed.

  Lemma np_group_by v : np_on (match v with VArr a => a | _ => [] end) -> nopanic (group_by ev v).
  Proof.
    intros H. unfold group_by. destruct v as [| | | |a| |]; try reflexivity.
    destruct a as [|a0 rest]; [reflexivity|].
    apply np_bind; [apply np_group_loop, H|intros; reflexivity].
  Qed.
End Callbacks.

Lemma np_filter_list pred l : np_on pred l -> nopanic (filter_list pred l).
Proof.
  induction l as [|v l IH]; intros H; cbn [filter_list]; [reflexivity|].
  apply np_on_cons in H as [H1 H2].
  apply np_bind; [exact H1|intros]. apply np_bind; [apply IH, H2|intros; reflexivity].
Qed.

Lemma np_filter_project_list pred ev l :
  (forall v, In v l -> nopanic (pred v) /\ (forall f, pred v = Ok f -> is_true f = true -> nopanic (ev v))) ->
  nopanic (filter_project_list pred ev l).
Proof.
  induction l as [|v l IH]; intros H; cbn [filter_project_list]; [reflexivity|].
  destruct (H v (or_introl eq_refl)) as [H1 H2].
  assert (H3 : nopanic (filter_project_list pred ev l)) by (apply IH; intros x Hx; apply H; right; exact Hx).
  apply np_bind; [exact H1|intros f Ef]. destruct (is_true f) eqn:T; [|exact H3].
  apply np_bind; [eapply H2; eauto|intros]. apply np_bind; [exact H3|intros; reflexivity].
Qed.

(* ------------------------------------------------------------------ *)
(* induction on nodes (nested lists)                                   *)
(* ------------------------------------------------------------------ *)

Definition children (n : node) : list node :=
  match n with
  | NCall1 _ a | NNot a | NNegate a | NAssertNumber a | NFilterCurrent a | NFlatten a
  | NFlattenAndProjectCurrent a | NIndex a _ | NObjectValues a | NProjectArrayCurrent a
  | NProjectObjectCurrent a | NPruneArray a | NSelectArraySingleCurrent a
  | NSelectObjectSingleCurrent _ a | NSlice a _ _ | NSliceStep a _ _ _ => [a]
  | NCall2 _ a b | NCallBy _ a b | NMap a b | NBin _ a b | NAnd a b | NOr a b | NFilter a b
  | NFilterAndProjectCurrent a b | NFlattenAndProject a b | NPipe a b | NProjectArray a b
  | NProjectObject a b | NSelectArraySingle a b | NSelectObjectSingle a _ b => [a; b]
  | NCall3 _ a b c | NFilterAndProject a b c => [a; b; c]
  | NCall4 _ a b c d => [a; b; c; d]
  | NCallVar _ args | NSelectArrayCurrent args => args
  | NSelectArray c fields => c :: fields
  | NDefine vars child => child :: map snd vars
  | NSelectObject c fields => c :: map snd fields
  | NSelectObjectCurrent fields => map snd fields
  | _ => []
  end.

Lemma node_ind_children (P : node -> Prop) :
  (forall n, Forall P (children n) -> P n) -> forall n, P n.
Proof.
  intros H. fix IH 1. intros n. apply H.
  destruct n; cbn [children]; repeat (constructor; try apply IH).
  - induction args as [|a r IHr]; constructor; [apply IH|exact IHr].
  - induction vars as [|[k e] r IHr]; cbn [map snd]; constructor; [apply IH|exact IHr].
  - induction fields as [|a r IHr]; constructor; [apply IH|exact IHr].
  - induction fields as [|a r IHr]; constructor; [apply IH|exact IHr].
  - induction fields as [|[k e] r IHr]; cbn [map snd]; constructor; [apply IH|exact IHr].
  - induction fields as [|[k e] r IHr]; cbn [map snd]; constructor; [apply IH|exact IHr].
Qed.

(* ------------------------------------------------------------------ *)
(* the two hypotheses of the evaluator theorem                         *)
(* ------------------------------------------------------------------ *)

(* Static: what Go's types and the parser guarantee about a node.
   - the step of a slice node is a Go int (the field has type int) and is not zero
     (parser.index rejects a zero step with EInvalidSliceStep; sliceStep() would
     divide by it);
   - zip has at least one argument (functionVarArg). *)
Fixpoint node_ok (n : node) : bool :=
  match n with
  | NCall1 _ a | NNot a | NNegate a | NAssertNumber a | NFilterCurrent a | NFlatten a
  | NFlattenAndProjectCurrent a | NIndex a _ | NObjectValues a | NProjectArrayCurrent a
  | NProjectObjectCurrent a | NPruneArray a | NSelectArraySingleCurrent a
  | NSelectObjectSingleCurrent _ a | NSlice a _ _ => node_ok a
  | NSliceStep a _ _ step => in_int step && negb (step =? 0) && node_ok a
  | NSliceStepCurrent _ _ step => in_int step && negb (step =? 0)
  | NCall2 _ a b | NCallBy _ a b | NMap a b | NBin _ a b | NAnd a b | NOr a b | NFilter a b
  | NFilterAndProjectCurrent a b | NFlattenAndProject a b | NPipe a b | NProjectArray a b
  | NProjectObject a b | NSelectArraySingle a b | NSelectObjectSingle a _ b => node_ok a && node_ok b
  | NCall3 _ a b c | NFilterAndProject a b c => node_ok a && node_ok b && node_ok c
  | NCall4 _ a b c d => node_ok a && node_ok b && node_ok c && node_ok d
  | NCallVar f args =>
    negb (match f, args with FZip, [] => true | _, _ => false end) && forallb node_ok args
  | NSelectArrayCurrent args => forallb node_ok args
  | NSelectArray c fields => node_ok c && forallb node_ok fields
  | NDefine vars child => node_ok child && forallb (fun kv => node_ok (snd kv)) vars
  | NSelectObject c fields => node_ok c && forallb (fun kv => node_ok (snd kv)) fields
  | NSelectObjectCurrent fields => forallb (fun kv => node_ok (snd kv)) fields
  | _ => true
  end.

(* Dynamic: the model's lists are mathematical lists of any length, but a Go
   slice has len <= MaxInt, and the model does not represent the failure of
   Go's allocator.  [sites root n cur vars] says that, in the evaluation of n,
   every array that reaches sliceStep() has a Go-representable length, and
   that some array passed to zip() has at most 2^62 elements (which holds for
   every []any that fits in a 64-bit address space).  It says nothing else:
   it is a conjunction of length bounds on arrays computed by sub-evaluations. *)
Section AllP.
  Context {A : Type} (P : A -> Prop).
  Fixpoint allP (l : list A) : Prop := match l with [] => True | a :: r => P a /\ allP r end.
End AllP.
Definition on_ok {A} (o : outcome A) (P : A -> Prop) : Prop := match o with Ok a => P a | _ => True end.
Definition each (l : list value) (P : value -> Prop) : Prop := forall v, In v l -> P v.
Definition elems (v : value) : list value := match v with VArr a => a | _ => [] end.
Definition ovals (v : value) : list value := match v with VObj m => map snd m | _ => [] end.
Definition flat1 (v : value) : list value :=
  match v with
  | VArr a => flat_map (fun x => match x with VArr va => va | _ => [x] end) a
  | _ => []
  end.
Definition small62 (v : value) : Prop :=
  match v with VArr c => zlen c <= 4611686018427387904 | _ => True end.

(* the loops of evaluate that are local fixpoints in Model/Eval.v, named *)
Definition eval_binds (root cur : value) (vars : env) :=
  fix go (l : list (bytes * node)) : outcome (list (bytes * value)) :=
    match l with
    | [] => Ok []
    | (name, e) :: r => do x <- eval root e cur vars; do fr <- go r; Ok ((name, x) :: fr)
    end.
Definition eval_fields (root x : value) (vars : env) :=
  fix go (l : list node) : outcome (list value) :=
    match l with
    | [] => Ok []
    | f :: r => do y <- eval root f x vars; do ys <- go r; Ok (y :: ys)
    end.
Definition eval_kfields (root x : value) (vars : env) :=
  fix go (l : list (bytes * node)) : outcome (list (bytes * value)) :=
    match l with
    | [] => Ok []
    | (k, f) :: r => do y <- eval root f x vars; do ys <- go r; Ok ((k, y) :: ys)
    end.
Definition eval_merge (root cur : value) (vars : env) :=
  fix go (l : list node) (acc : list (bytes * value)) : outcome value :=
    match l with
    | [] => Ok (VObj acc)
    | a :: r =>
      do x <- eval root a cur vars;
      match x with
      | VObj m => go r (fold_left (fun acc kv => assoc_set (fst kv) (snd kv) acc) m acc)
      | _ => Err EInvalidType
      end
    end.
Definition eval_not_null (root cur : value) (vars : env) :=
  fix go (l : list node) : outcome value :=
    match l with
    | [] => Ok VNull
    | a :: r => do x <- eval root a cur vars; if is_null x then go r else Ok x
    end.
Definition eval_zip_cols (root cur : value) (vars : env) :=
  fix go (l : list node) : outcome (list (list value)) :=
    match l with
    | [] => Ok []
    | a :: r =>
      do x <- eval root a cur vars;
      match x with
      | VArr c => do cs <- go r; Ok (c :: cs)
      | _ => Err EInvalidType
      end
    end.

Section Sites.
  Variable root : value.

  Fixpoint sites (n : node) (cur : value) (vars : env) {struct n} : Prop :=
    match n with
    | NCall1 _ a | NNot a | NNegate a | NAssertNumber a | NFlatten a | NIndex a _ | NObjectValues a
    | NPruneArray a | NSlice a _ _ | NSelectArraySingleCurrent a | NSelectObjectSingleCurrent _ a =>
      sites a cur vars
    | NCall2 _ a b | NBin _ a b => sites a cur vars /\ sites b cur vars
    | NCall3 _ a b c => sites a cur vars /\ sites b cur vars /\ sites c cur vars
    | NCall4 _ a b c d => sites a cur vars /\ sites b cur vars /\ sites c cur vars /\ sites d cur vars
    | NCallBy _ a e | NMap e a | NFilter a e =>
      sites a cur vars /\ on_ok (eval root a cur vars) (fun x => each (elems x) (fun v => sites e v vars))
    | NCallVar f args =>
      allP (fun a => sites a cur vars) args /\
      match f with
      | FZip => exists a, In a args /\ on_ok (eval root a cur vars) small62
      | _ => True
      end
    | NAnd l r =>
      sites l cur vars /\ on_ok (eval root l cur vars) (fun x => is_true x = true -> sites r cur vars)
    | NOr l r =>
      sites l cur vars /\ on_ok (eval root l cur vars) (fun x => is_true x = false -> sites r cur vars)
    | NDefine bindings child =>
      allP (fun kv => let '(_, e) := kv in sites e cur vars) bindings /\
      on_ok (eval_binds root cur vars bindings) (fun frame => sites child cur (frame :: vars))
    | NFilterCurrent f | NProjectArrayCurrent f => each (elems cur) (fun v => sites f v vars)
    | NFilterAndProject l f r =>
      sites l cur vars /\
      on_ok (eval root l cur vars) (fun x => each (elems x) (fun v =>
        sites f v vars /\ on_ok (eval root f v vars) (fun fv => is_true fv = true -> sites r v vars)))
    | NFilterAndProjectCurrent f r =>
      each (elems cur) (fun v =>
        sites f v vars /\ on_ok (eval root f v vars) (fun fv => is_true fv = true -> sites r v vars))
    | NFlattenAndProject l r =>
      sites l cur vars /\ on_ok (eval root l cur vars) (fun x => each (flat1 x) (fun v => sites r v vars))
    | NFlattenAndProjectCurrent c => each (flat1 cur) (fun v => sites c v vars)
    | NPipe l r => sites l cur vars /\ on_ok (eval root l cur vars) (fun x => sites r x vars)
    | NProjectArray l r =>
      sites l cur vars /\
      on_ok (eval root l cur vars) (fun x =>
        match x with
        | VStr _ => if is_slice_node l then sites r x vars else True
        | _ => each (elems x) (fun v => sites r v vars)
        end)
    | NProjectObject l r =>
      sites l cur vars /\ on_ok (eval root l cur vars) (fun x => each (ovals x) (fun v => sites r v vars))
    | NProjectObjectCurrent c => each (ovals cur) (fun v => sites c v vars)
    | NSelectArray c fields =>
      sites c cur vars /\
      on_ok (eval root c cur vars) (fun x => if is_null x then True else allP (fun f => sites f x vars) fields)
    | NSelectArrayCurrent fields => if is_null cur then True else allP (fun f => sites f cur vars) fields
    | NSelectArraySingle c f | NSelectObjectSingle c _ f =>
      sites c cur vars /\ on_ok (eval root c cur vars) (fun x => if is_null x then True else sites f x vars)
    | NSelectObject c fields =>
      sites c cur vars /\
      on_ok (eval root c cur vars) (fun x => if is_null x then True else allP (fun kv => let '(_, f) := kv in sites f x vars) fields)
    | NSelectObjectCurrent fields =>
      if is_null cur then True else allP (fun kv => let '(_, f) := kv in sites f cur vars) fields
    | NSliceStep c _ _ _ => sites c cur vars /\ on_ok (eval root c cur vars) arr_fits
    | NSliceStepCurrent _ _ _ => arr_fits cur
    | _ => True
    end.
End Sites.

(* ------------------------------------------------------------------ *)
(* the evaluator                                                       *)
(* ------------------------------------------------------------------ *)

Section EvalNoPanic.
  Variable root : value.

  Lemma np_eval_binds cur vars l :
    allP (fun kv => let '(_, e) := kv in nopanic (eval root e cur vars)) l ->
    nopanic (eval_binds root cur vars l).
  Proof.
    induction l as [|[k e] r IH]; cbn [allP eval_binds]; [reflexivity|]. intros [H1 H2].
    apply np_bind; [exact H1|intros]. apply np_bind; [apply IH, H2|intros; reflexivity].
  Qed.

  Lemma np_eval_fields x vars l :
    allP (fun f => nopanic (eval root f x vars)) l -> nopanic (eval_fields root x vars l).
  Proof.
    induction l as [|e r IH]; cbn [allP eval_fields]; [reflexivity|]. intros [H1 H2].
    apply np_bind; [exact H1|intros]. apply np_bind; [apply IH, H2|intros; reflexivity].
  Qed.

  Lemma np_eval_kfields x vars l :
    allP (fun kv => let '(_, f) := kv in nopanic (eval root f x vars)) l ->
    nopanic (eval_kfields root x vars l).
  Proof.
    induction l as [|[k e] r IH]; cbn [allP eval_kfields]; [reflexivity|]. intros [H1 H2].
    apply np_bind; [exact H1|intros]. apply np_bind; [apply IH, H2|intros; reflexivity].
  Qed.

  Lemma np_eval_merge cur vars l :
    allP (fun a => nopanic (eval root a cur vars)) l -> forall acc, nopanic (eval_merge root cur vars l acc).
  Proof.
    induction l as [|e r IH]; cbn [allP eval_merge]; [reflexivity|]. intros [H1 H2] acc.
    apply np_bind; [exact H1|intros x _]. destruct x; try reflexivity. apply IH, H2.
  Qed.

  Lemma np_eval_not_null cur vars l :
    allP (fun a => nopanic (eval root a cur vars)) l -> nopanic (eval_not_null root cur vars l).
  Proof.
    induction l as [|e r IH]; cbn [allP eval_not_null]; [reflexivity|]. intros [H1 H2].
    apply np_bind; [exact H1|intros x _]. destruct (is_null x); [apply IH, H2|reflexivity].
  Qed.

  Lemma np_eval_zip_cols cur vars l :
    allP (fun a => nopanic (eval root a cur vars)) l -> nopanic (eval_zip_cols root cur vars l).
  Proof.
    induction l as [|e r IH]; cbn [allP eval_zip_cols]; [reflexivity|]. intros [H1 H2].
    apply np_bind; [exact H1|intros x _]. destruct x; try reflexivity.
    apply np_bind; [apply IH, H2|intros; reflexivity].
  Qed.

  Lemma zip_cols_in cur vars : forall l cols, eval_zip_cols root cur vars l = Ok cols ->
    forall a, In a l -> exists c, eval root a cur vars = Ok (VArr c) /\ In c cols.
  Proof.
    induction l as [|e r IH]; intros cols H a Ha; [destruct Ha|]. cbn [eval_zip_cols] in H.
    destruct (eval root e cur vars) as [x| | | |] eqn:E; cbn [bind] in H; try discriminate.
    destruct x; try discriminate.
    destruct (eval_zip_cols root cur vars r) as [cs| | | |] eqn:E2; cbn [bind] in H; try discriminate.
    inversion H; subst. destruct Ha as [->|Ha].
    - eexists; split; [exact E|left; reflexivity].
    - destruct (IH cs eq_refl a Ha) as [c [H1 H2]]. exists c; split; [exact H1|right; exact H2].
  Qed.

  Lemma fold_min_le (cols : list (list value)) : forall m,
    fold_left (fun m c => Z.min m (zlen c)) cols m <= m /\
    forall c, In c cols -> fold_left (fun m c => Z.min m (zlen c)) cols m <= zlen c.
  Proof.
    induction cols as [|c0 r IH]; intros m; cbn [fold_left]; [split; [lia|intros c []]|].
    destruct (IH (Z.min m (zlen c0))) as [H1 H2]. split; [lia|].
    intros c [->|Hc]; [lia|apply H2, Hc].
  Qed.
End EvalNoPanic.

Ltac split_hyps :=
  repeat match goal with
  | H : _ && _ = true |- _ => apply andb_true_iff in H; destruct H
  | H : _ /\ _ |- _ => destruct H
  | H : Forall _ (_ :: _) |- _ => apply Forall_cons_iff in H; destruct H
  | H : Forall _ [] |- _ => clear H
  end.

Ltac ev_child :=
  match goal with
  | IH : node_ok ?a = true -> _ |- nopanic (eval _ ?a _ _) => apply IH; assumption
  end.
Ltac use_ih :=
  match goal with
  | IH : node_ok ?a = true -> _ |- nopanic (eval _ ?a _ _) => apply IH; [assumption|]
  end.
Ltac bind_child :=
  apply np_bind;
  [ev_child | let x := fresh "x" in let E := fresh "E" in intros x E; try rewrite E in *; cbn [on_ok] in * ].

Definition IHP (root : value) (c : node) : Prop :=
  node_ok c = true -> forall cur vars, sites root c cur vars -> nopanic (eval root c cur vars).

Lemma allP_nodes root x vars (l : list node) :
  Forall (IHP root) l -> forallb node_ok l = true -> allP (fun a => sites root a x vars) l ->
  allP (fun a => nopanic (eval root a x vars)) l.
Proof.
  induction l as [|a r IH]; cbn [forallb allP]; [auto|]. intros F Hb [S1 S2].
  apply Forall_cons_iff in F as [F1 F2]. apply andb_true_iff in Hb as [B1 B2].
  split; [apply F1; assumption|apply IH; assumption].
Qed.

Lemma allP_knodes root x vars (l : list (bytes * node)) :
  Forall (IHP root) (map snd l) -> forallb (fun kv => node_ok (snd kv)) l = true ->
  allP (fun kv => let '(_, f) := kv in sites root f x vars) l ->
  allP (fun kv => let '(_, f) := kv in nopanic (eval root f x vars)) l.
Proof.
  induction l as [|[k a] r IH]; cbn [forallb allP map snd]; [auto|]. intros F Hb [S1 S2].
  apply Forall_cons_iff in F as [F1 F2]. apply andb_true_iff in Hb as [B1 B2].
  split; [apply F1; assumption|apply IH; assumption].
Qed.

Ltac on_elems :=
  match goal with
  | IH : node_ok ?e = true -> _, Hs : each ?l _ |- np_on (fun v => eval _ ?e v _) _ =>
    let v := fresh "v" in let Hv := fresh "Hv" in
    intros v Hv; apply IH; [assumption|apply Hs, Hv]
  end.

Ltac filter_project_tac Hs :=
  let v := fresh "v" in let Hv := fresh "Hv" in let S1 := fresh "S1" in let S2 := fresh "S2" in
  let fv := fresh "fv" in let Ef := fresh "Ef" in let T := fresh "T" in
  intros v Hv; destruct (Hs v Hv) as [S1 S2]; split;
  [use_ih; assumption
  |intros fv Ef T; cbv beta in Ef; rewrite Ef in S2; cbn [on_ok] in S2; use_ih; apply S2, T].

Theorem eval_np root : forall n, node_ok n = true ->
  forall cur vars, sites root n cur vars -> nopanic (eval root n cur vars).
Proof.
  induction n as [n IH] using node_ind_children. intros Hok cur vars Hs.
  fold (IHP root) in IH.
  destruct n; cbn [children] in IH; cbn [node_ok] in Hok; cbn [sites] in Hs; cbn [eval]; split_hyps.
  all: unfold IHP in * |-.
  all: try reflexivity.
  all: try solve [repeat bind_child; first [apply np_call1 | apply np_call2 | apply np_call3 | apply np_call4
                  | apply np_binop | apply np_slice | reflexivity]].
  - (* NCallBy *)
    bind_child. destruct f; first [apply np_group_by | apply np_array_extreme_by | apply np_sort_array_by]; on_elems.
  - (* NMap *)
    bind_child. unfold map_array. destruct x; try reflexivity.
    apply np_bind; [apply np_mapM; on_elems|intros; reflexivity].
  - (* NCallVar *)
    destruct f.
    + apply (np_eval_merge root cur vars), allP_nodes; assumption.
    + apply (np_eval_not_null root cur vars), allP_nodes; assumption.
    + apply np_bind; [apply (np_eval_zip_cols root cur vars), allP_nodes; assumption|].
      intros cols E. cbv zeta.
      match goal with Hz : exists _, _ |- _ => destruct Hz as [a [Ha Hsm]] end.
      destruct (zip_cols_in root cur vars args cols E a Ha) as [c [Ec Hc]].
      rewrite Ec in Hsm. cbn [on_ok small62] in Hsm.
      destruct (fold_min_le cols MaxInt) as [_ Hf]. specialize (Hf c Hc).
      rewrite gtb_false by lia. reflexivity.
  - (* NAnd *)
    bind_child. destruct (is_true x) eqn:T; cbn [negb]; [|reflexivity]. use_ih. auto.
  - (* NOr *)
    bind_child. destruct (is_true x) eqn:T; cbn [negb]; [reflexivity|]. use_ih. auto.
  - (* NVariable *)
    destruct (env_get name vars); reflexivity.
  - (* NDefine *)
    change (nopanic (do frame <- eval_binds root cur vars vars0; eval root n cur (frame :: vars))).
    apply np_bind; [apply np_eval_binds, allP_knodes; assumption|].
    intros frame E. rewrite E in *. cbn [on_ok] in *. use_ih. assumption.
  - (* NFilter *)
    bind_child. unfold filter_array. destruct x; try reflexivity.
    apply np_bind; [apply np_filter_list; on_elems|intros; reflexivity].
  - (* NFilterCurrent *)
    unfold filter_array. destruct cur; try reflexivity.
    apply np_bind; [apply np_filter_list; on_elems|intros; reflexivity].
  - (* NFilterAndProject *)
    bind_child. unfold filter_and_project. destruct x; try reflexivity.
    apply np_bind; [apply np_filter_project_list|intros; reflexivity].
    match goal with Hs : each _ _ |- _ => filter_project_tac Hs end.
  - (* NFilterAndProjectCurrent *)
    unfold filter_and_project. destruct cur; try reflexivity.
    apply np_bind; [apply np_filter_project_list|intros; reflexivity].
    match goal with Hs : each _ _ |- _ => filter_project_tac Hs end.
  - (* NFlattenAndProject *)
    bind_child. unfold flatten_and_project. destruct x; try reflexivity.
    apply np_bind; [apply np_project_list; on_elems|intros; reflexivity].
  - (* NFlattenAndProjectCurrent *)
    unfold flatten_and_project. destruct cur; try reflexivity.
    apply np_bind; [apply np_project_list; on_elems|intros; reflexivity].
  - (* NPipe *)
    bind_child. use_ih. assumption.
  - (* NProjectArray *)
    bind_child. destruct x; cbn [project_array]; try reflexivity.
    + destruct (is_slice_node n1); [use_ih; assumption|reflexivity].
    + apply np_bind; [apply np_project_list; on_elems|intros; reflexivity].
  - (* NProjectArrayCurrent *)
    unfold project_array. destruct cur; try reflexivity.
    apply np_bind; [apply np_project_list; on_elems|intros; reflexivity].
  - (* NProjectObject *)
    bind_child. unfold project_object. destruct x; try reflexivity.
    apply np_bind; [apply np_project_list; on_elems|intros; reflexivity].
  - (* NProjectObjectCurrent *)
    unfold project_object. destruct cur; try reflexivity.
    apply np_bind; [apply np_project_list; on_elems|intros; reflexivity].
  - (* NSelectArray *)
    bind_child. destruct (is_null x); [reflexivity|].
    apply np_bind; [|intros; reflexivity]. apply (np_eval_fields root x vars), allP_nodes; assumption.
  - (* NSelectArrayCurrent *)
    destruct (is_null cur); [reflexivity|].
    apply np_bind; [|intros; reflexivity]. apply (np_eval_fields root cur vars), allP_nodes; assumption.
  - (* NSelectArraySingle *)
    bind_child. destruct (is_null x); [reflexivity|]. apply np_bind; [use_ih; assumption|intros; reflexivity].
  - (* NSelectObject *)
    bind_child. destruct (is_null x); [reflexivity|].
    apply np_bind; [|intros; reflexivity]. apply (np_eval_kfields root x vars), allP_knodes; assumption.
  - (* NSelectObjectCurrent *)
    destruct (is_null cur); [reflexivity|].
    apply np_bind; [|intros; reflexivity]. apply (np_eval_kfields root cur vars), allP_knodes; assumption.
  - (* NSelectObjectSingle *)
    bind_child. destruct (is_null x); [reflexivity|]. apply np_bind; [use_ih; assumption|intros; reflexivity].
  - (* NSliceStep *)
    bind_child. apply np_slice_step; [assumption| |apply Z.eqb_neq, negb_true_iff; assumption].
    unfold in_int in *. split_hyps. split; apply Z.leb_le; assumption.
  - (* NSliceStepCurrent *)
    apply np_slice_step; [assumption| |apply Z.eqb_neq, negb_true_iff; assumption].
    unfold in_int in *. split_hyps. split; apply Z.leb_le; assumption.
Qed.

(* evaluator: no panic, under the two hypotheses explained above *)
Theorem eval_no_panic : forall root n cur vars,
  node_ok n = true -> sites root n cur vars -> is_panic (eval root n cur vars) = false.
Proof. intros. apply eval_np; assumption. Qed.

(* ---- why the hypotheses are there ---- *)

(* zip() with no argument: the evaluator does make([]any, MaxInt).  The parser
   never builds this node (functionVarArg parses at least one argument). *)
Lemma eval_zip_no_args_refuted :
  exists root n cur vars, is_panic (eval root n cur vars) = true.
Proof. exists VNull, (NCallVar FZip []), VNull, []. reflexivity. Qed.

(* a slice step that is not a Go int: an artefact of the field being a Z in
   the model; no Go value corresponds to it *)
Lemma eval_step_not_int_refuted :
  exists root n cur vars, is_panic (eval root n cur vars) = true.
Proof.
  exists VNull, (NSliceStepCurrent 5 (-100) (-18446744073709551614)),
    (VArr [VNull; VNull; VNull; VNull; VNull; VNull]), [].
  vm_compute. reflexivity.
Qed.

(* mathematical lists longer than a Go slice can be: the model then reports
   the make() guard of sliceStep / zip.  No Go execution corresponds to it. *)
Lemma slice_step_oversize_refuted :
  exists a, is_panic (slice_step (VArr a) 0 two63 1) = true.
Proof.
  exists (repeat VNull (Z.to_nat two63)). unfold slice_step.
  replace (zlen (repeat VNull (Z.to_nat two63))) with two63
    by (unfold zlen; rewrite repeat_length, Z2Nat.id; [reflexivity|unfold two63; lia]).
  generalize (repeat VNull (Z.to_nat two63)). intros a. reflexivity.
Qed.

Lemma zip_oversize_refuted :
  exists a, is_panic (eval VNull (NCallVar FZip [NCurrent]) (VArr a) []) = true.
Proof.
  exists (repeat VNull (Z.to_nat two63)). cbn [eval bind fold_left].
  replace (zlen (repeat VNull (Z.to_nat two63))) with two63
    by (unfold zlen; rewrite repeat_length, Z2Nat.id; [reflexivity|unfold two63; lia]).
  reflexivity.
Qed.

(* a zero step: the Go code divides by zero in sliceStep() as soon as the clamped
   range is not empty, and so does the model.  The parser rejects a zero step
   (EInvalidSliceStep), which is what node_ok records, so this is not reachable
   through Compile/Search. *)
Lemma slice_step_zero_model_remark :
  slice_step (VArr [VNull]) 0 (-5) 0 = Panic PDivZero.
Proof. reflexivity. Qed.

Lemma eval_step_zero_refuted :
  exists root n cur vars, is_panic (eval root n cur vars) = true.
Proof.
  exists VNull, (NSliceStepCurrent 0 (-5) 0), (VArr [VNull]), []. vm_compute. reflexivity.
Qed.

(* ------------------------------------------------------------------ *)
(* the parser                                                          *)
(* ------------------------------------------------------------------ *)
From JM Require Import Json.JsonText Model.Token Model.Lexer Model.Literals Model.Parser Model.Api.

(* postconditions: the outcome is not a panic, and a value satisfies Q *)
Definition post {A} (Q : A -> Prop) (o : outcome A) : Prop :=
  match o with Ok a => Q a | Panic _ => False | _ => True end.

Lemma post_bind {A B} (Q' : A -> Prop) (Q : B -> Prop) (o : outcome A) (f : A -> outcome B) :
  post Q' o -> (forall a, Q' a -> post Q (f a)) -> post Q (bind o f).
Proof. destruct o; cbn; auto. Qed.
Lemma post_np {A} (Q : A -> Prop) o : post Q o -> nopanic o.
Proof. destruct o; cbn; intros; try reflexivity; contradiction. Qed.
Lemma post_imp {A} (Q Q' : A -> Prop) o : post Q o -> (forall a, Q a -> Q' a) -> post Q' o.
Proof. destruct o; cbn; auto. Qed.

Definition any {A} (_ : A) : Prop := True.

Lemma pull_post l : post any (pull l).
Proof. destruct l as [|[t|e|] r]; cbn; exact I. Qed.
Lemma advance_post st : post any (advance st).
Proof. unfold advance. eapply post_bind; [apply pull_post|]. intros [t r] _. exact I. Qed.
Lemma advance2_post st : post any (advance2 st).
Proof.
  unfold advance2. eapply post_bind; [apply pull_post|]. intros [t r] _.
  eapply post_bind; [apply pull_post|]. intros [t2 r2] _. exact I.
Qed.

Definition sel_tok (t : ttype) : bool :=
  match t with TArrayWildcard | TDot | TFilter | TObjectWildcard | TOpenSqBrace => true | _ => false end.
Definition opt_ok (o : option node) : Prop := match o with Some n => node_ok n = true | None => True end.
Definition Qsome (r : option node * pst) : Prop :=
  match fst r with Some n => node_ok n = true | None => False end.
Definition Qnode (r : node * pst) : Prop := node_ok (fst r) = true.

(* the invariant of the two mutually recursive entry points *)
Definition RInv (rec : pcall -> pst -> outcome (option node * pst)) : Prop :=
  (forall prec st, post Qsome (rec (CExpr prec) st)) /\
  (forall n prec st, node_ok n = true -> post Qsome (rec (CCont (Some n) prec) st)) /\
  (forall prec st, sel_tok (ct st) = true -> precedence (ct st) >? prec = true ->
     post Qsome (rec (CCont None prec) st)).

Lemma atoi_int s z : atoi s = Some z -> in_int z = true.
Proof.
  unfold atoi. destruct (match s with 45 :: r => (true, r) | _ => (false, s) end) as [neg d].
  destruct (take_digits d 0 0) as [[v n] r]. destruct r; [|discriminate].
  destruct (n =? 0); [discriminate|].
  destruct (in_int (if neg then - v else v)) eqn:E; [|discriminate]. intros H; inversion H; subst. exact E.
Qed.

Lemma json_literal_post tok : post (fun n => node_ok n = true) (parse_json_literal tok).
Proof.
  unfold parse_json_literal. destruct (unescape_backticks (inner tok)); [exact I|].
  destruct (json_parse _) as [x|]; [|exact I]. destruct x as [| | |n| | |]; cbn; try reflexivity; try exact I.
  destruct n; cbn; try reflexivity; exact I.
Qed.

Lemma quoted_post tok : post any (parse_quoted_identifier tok).
Proof. unfold parse_quoted_identifier. destruct (quoted_unescape _ _); exact I. Qed.

(* ---- function table ---- *)
Definition arity_ok (ap : argparser) (l : list node) : Prop :=
  match ap with
  | AP1 => length l = 1%nat
  | AP1to2 => length l = 1%nat \/ length l = 2%nat
  | AP2 | AP2Exp | AP2Map => length l = 2%nat
  | AP2to3 => length l = 2%nat \/ length l = 3%nat
  | AP2to4 => length l = 2%nat \/ length l = 3%nat \/ length l = 4%nat
  | AP3to4 => length l = 3%nat \/ length l = 4%nat
  | APVar => l <> []
  end.
Definition pair_ok (ap : argparser) (fb : fbuild) : bool :=
  match ap, fb with
  | AP1, B1 _ | AP1to2, B1or2 _ _ | AP2, B2 _ | AP2Exp, BBy _ | AP2Map, BMap
  | AP2to3, B2or3 _ _ | AP2to4, B2to4 _ _ _ | AP3to4, B3or4 _ _ | APVar, BVar _ => true
  | _, _ => false
  end.

Lemma table_pairs_ok : forallb (fun e => pair_ok (fst (snd e)) (snd (snd e))) function_table = true.
Proof. reflexivity. Qed.

Lemma assoc_in {A} (k : bytes) (m : list (bytes * A)) v : assoc k m = Some v -> exists k', In (k', v) m.
Proof.
  induction m as [|[k' v'] r IH]; cbn [assoc]; [discriminate|].
  destruct (beqb k k'); [intros E; inversion E; subst; eexists; left; reflexivity|].
  intros E. destruct (IH E) as [k'' H]. exists k''. right. exact H.
Qed.

Lemma table_lookup_ok name ap fb : assoc name function_table = Some (ap, fb) -> pair_ok ap fb = true.
Proof.
  intros E. apply assoc_in in E as [k H].
  pose proof table_pairs_ok as T. rewrite forallb_forall in T. exact (T _ H).
Qed.

Lemma build_ok ap fb args :
  pair_ok ap fb = true -> arity_ok ap args -> forallb node_ok args = true ->
  exists n, build fb args = Some n /\ node_ok n = true.
Proof.
  intros P A F.
  destruct ap, fb; try discriminate P; cbn [arity_ok] in A;
    try (destruct args as [|a1 [|a2 [|a3 [|a4 [|a5 args]]]]]; cbn [length] in A;
         try (exfalso; lia); cbn [build]; eexists; (split; [reflexivity|]);
         cbn [node_ok forallb] in *; rewrite ?andb_true_iff in *; tauto).
  (* APVar / BVar *)
  cbn [build]. eexists; split; [reflexivity|]. cbn [node_ok]. rewrite F, andb_true_r.
  destruct f; try reflexivity. destruct args; [contradiction|reflexivity].
Qed.

Lemma post_ok {A} (Q : A -> Prop) a : Q a -> post Q (Ok a).
Proof. exact (fun H => H). Qed.

Lemma forallb_assoc_set (k : bytes) (n : node) m :
  node_ok n = true -> forallb (fun kv => node_ok (snd kv)) m = true ->
  forallb (fun kv => node_ok (snd kv)) (assoc_set k n m) = true.
Proof.
  intros Hn. induction m as [|[k' v'] r IH]; cbn [assoc_set forallb snd]; intros H.
  - rewrite Hn. reflexivity.
  - apply andb_true_iff in H as [H1 H2]. destruct (beqb k k'); cbn [forallb snd].
    + rewrite Hn, H2. reflexivity.
    + rewrite H1, IH by assumption. reflexivity.
Qed.

Lemma forallb_snoc (l : list node) n :
  forallb node_ok l = true -> node_ok n = true -> forallb node_ok (l ++ [n]) = true.
Proof. intros H1 H2. rewrite forallb_app, H1. cbn. rewrite H2. reflexivity. Qed.

Lemma mk_slice_ok child start stop step :
  opt_ok child -> in_int step = true -> (step =? 0) = false ->
  node_ok (mk_slice child start stop step) = true.
Proof.
  intros Hc Hs Hz. unfold mk_slice. destruct child as [c|]; cbn [opt_ok] in Hc;
    destruct (step =? 1); cbn [node_ok]; rewrite ?Hs, ?Hz, ?Hc; reflexivity.
Qed.

Ltac okk :=
  lazymatch goal with
  | |- post _ (Ok _) => unfold post; unfold Qnode; cbv beta; cbn [fst]
  | _ => fail "not an Ok"
  end.
Ltac adv :=
  first [ eapply post_bind; [apply advance_post | intros ? _]
        | eapply post_bind; [apply advance2_post | intros ? _] ].

(* parser.index *)
Lemma index_post child st : opt_ok child -> post (fun r => node_ok (fst (fst r)) = true) (index child st).
Proof.
  intros Hc. unfold index.
  eapply post_bind with (Q' := fun r1 => match r1 with inl (n, _) => node_ok n = true | Datatypes.inr _ => True end).
  { destruct (is (ct st) TIntegerLiteral).
    - destruct (atoi (tval (curr st))) as [start|]; [|exact I].
      destruct (is (nt st) TCloseSqBrace).
      + adv. okk. destruct child as [c|]; [exact Hc|]. destruct (_ && _); reflexivity.
      + destruct (is (nt st) TColon); [|exact I]. adv. exact I.
    - destruct (is (ct st) TColon); [|exact I]. adv. exact I. }
  intros [[n st']|[[have_start start] st1]] H1; [exact H1|].
  eapply post_bind with (Q' := fun r2 => match r2 with inl (n, _) => node_ok n = true | Datatypes.inr _ => True end).
  { destruct (is (ct st1) TIntegerLiteral).
    - destruct (atoi (tval (curr st1))) as [stop|]; [|exact I].
      destruct (is (nt st1) TCloseSqBrace).
      + adv. okk. apply mk_slice_ok; [exact Hc|reflexivity|reflexivity].
      + destruct (is (nt st1) TColon); [|exact I]. adv. exact I.
    - destruct (is (ct st1) TCloseSqBrace).
      + adv. okk. apply mk_slice_ok; [exact Hc|reflexivity|reflexivity].
      + destruct (is (ct st1) TColon); [|exact I]. adv. exact I. }
  intros [[n st']|[[have_stop stop] st2]] H2; [exact H2|].
  destruct (is (ct st2) TIntegerLiteral).
  - destruct (negb (is (nt st2) TCloseSqBrace)); [exact I|].
    destruct (atoi (tval (curr st2))) as [step|] eqn:A; [|exact I].
    destruct (step =? 0) eqn:Z0; [exact I|]. adv. okk. cbn [fst].
    apply mk_slice_ok; [exact Hc| |exact Z0]. eapply atoi_int; eauto.
  - destruct (is (ct st2) TCloseSqBrace); [|exact I]. adv. okk.
    apply mk_slice_ok; [exact Hc|reflexivity|reflexivity].
Qed.

Section ParserCore.
  Variable rec : pcall -> pst -> outcome (option node * pst).
  Variable fuel' : nat.
  Hypothesis Hrec : RInv rec.

  Lemma expr_post prec st : post Qnode (expr rec prec st).
  Proof.
    unfold expr. eapply post_bind; [apply (proj1 Hrec)|].
    intros [[n|] st'] H; unfold Qsome in H; cbn [fst] in H; [exact H|contradiction].
  Qed.

  Lemma projection_post prec st : post (fun r => opt_ok (fst r)) (projection rec prec st).
  Proof.
    unfold projection.
    destruct (ct st) eqn:C; try exact I;
      (destruct (_ >? prec) eqn:G; [|exact I]);
      (eapply post_imp; [apply (proj2 (proj2 Hrec)); rewrite C; first [reflexivity|exact G]|]);
      (intros [[n|] st'] H; unfold Qsome in H; cbn [fst] in *; [exact H|exact I]).
  Qed.

  Ltac ex := eapply post_bind; [apply expr_post | intros [? ?] ?; unfold Qnode in *; cbn [fst] in *; cbv beta iota].
  Ltac pj := eapply post_bind; [apply projection_post | intros [[?|] ?] ?; cbn [fst opt_ok] in *; cbv beta iota].

  Lemma filter_post st : post Qnode (filter rec st).
  Proof.
    unfold filter. ex. destruct (negb _); [exact I|]. adv. okk. assumption.
  Qed.

  Lemma select_array_loop_post : forall k child fields st,
    opt_ok child -> forallb node_ok fields = true ->
    post Qnode (select_array_loop rec k child fields st).
  Proof.
    induction k as [|k IH]; intros child fields st Hc Hf; cbn [select_array_loop]; [exact I|].
    ex. destruct (ct p) eqn:C; try exact I.
    - adv. destruct fields as [|f0 fr].
      + destruct child as [c|]; okk; cbn [node_ok opt_ok] in *; rewrite ?Hc; cbn [andb]; assumption.
      + assert (F : forallb node_ok ((f0 :: fr) ++ [n]) = true) by (apply forallb_snoc; assumption).
        destruct child as [c|]; okk; cbn [node_ok opt_ok] in *; rewrite ?Hc; cbn [andb]; exact F.
    - adv. apply IH; [exact Hc|apply forallb_snoc; assumption].
  Qed.

  Lemma select_array_post child st : opt_ok child -> post Qnode (select_array rec fuel' child st).
  Proof. intros. apply select_array_loop_post; [assumption|reflexivity]. Qed.

  Lemma select_object_loop_post : forall k child fields st,
    opt_ok child -> forallb (fun kv => node_ok (snd kv)) fields = true ->
    post Qnode (select_object_loop rec k child fields st).
  Proof.
    induction k as [|k IH]; intros child fields st Hc Hf; cbn [select_object_loop]; [exact I|].
    eapply post_bind with (Q' := any).
    { destruct (ct st); try exact I. apply quoted_post. }
    intros key _. destruct (negb _); [exact I|]. adv. ex.
    destruct (ct p) eqn:C; try exact I.
    - adv. destruct fields as [|f0 fr].
      + destruct child as [c|]; okk; cbn [node_ok opt_ok] in *; rewrite ?Hc; cbn [andb]; assumption.
      + assert (F : forallb (fun kv => node_ok (snd kv)) (assoc_set key n (f0 :: fr)) = true)
          by (apply forallb_assoc_set; assumption).
        destruct child as [c|]; okk; cbn [node_ok opt_ok] in *; rewrite ?Hc; cbn [andb]; exact F.
    - adv. apply IH; [exact Hc|apply forallb_assoc_set; assumption].
  Qed.

  Lemma select_object_post child st : opt_ok child -> post Qnode (select_object rec fuel' child st).
  Proof. intros. apply select_object_loop_post; [assumption|reflexivity]. Qed.

  Lemma let_loop_post : forall k vars st,
    forallb (fun kv => node_ok (snd kv)) vars = true ->
    post (fun r => forallb (fun kv => node_ok (snd kv)) (fst r) = true) (let_loop rec k vars st).
  Proof.
    induction k as [|k IH]; intros vars st Hf; cbn [let_loop]; [exact I|].
    destruct (negb _); [exact I|]. destruct (negb _); [exact I|]. adv. ex.
    destruct (is (ct p) TIn).
    - adv. okk. cbn [fst]. apply forallb_assoc_set; assumption.
    - destruct (negb _); [exact I|]. adv. apply IH. apply forallb_assoc_set; assumption.
  Qed.

  Lemma let_post st : post Qnode (let_ rec fuel' st).
  Proof.
    unfold let_. eapply post_bind; [apply let_loop_post; reflexivity|].
    intros [vars st'] Hv. cbn [fst] in Hv. cbv beta iota. ex.
    okk. unfold Qnode. cbn [fst node_ok]. rewrite Hv. rewrite andb_true_r. assumption.
  Qed.

  Lemma var_args_loop_post : forall k acc st,
    forallb node_ok acc = true ->
    post (fun r => forallb node_ok (fst r) = true /\ fst r <> []) (var_args_loop rec k acc st).
  Proof.
    induction k as [|k IH]; intros acc st Hf; cbn [var_args_loop]; [exact I|].
    ex. destruct (is (ct p) TComma).
    - adv. apply IH. apply forallb_snoc; assumption.
    - destruct (is (ct p) TCloseParen); [|exact I]. adv. okk. cbn [fst].
      split; [apply forallb_snoc; assumption|]. destruct acc; discriminate.
  Qed.

  Lemma check_not_close_post name st : post any (check_not_close name st).
  Proof. unfold check_not_close. destruct (is _ _); exact I. Qed.
  Lemma end_args_post name st : post any (end_args name st).
  Proof. unfold end_args. destruct (is _ _); [exact I|]. destruct (negb _); [exact I|]. apply advance_post. Qed.
  Lemma need_comma_post name st : post any (need_comma name st).
  Proof. unfold need_comma. destruct (is _ _); [exact I|]. destruct (negb _); [exact I|]. apply advance_post. Qed.
  Lemma opt_more_post st : post any (opt_more st).
  Proof.
    unfold opt_more. destruct (is _ _); [adv; exact I|]. destruct (negb _); [exact I|]. adv. exact I.
  Qed.

  Ltac ea := eapply post_bind; [apply end_args_post | intros ? _].
  Ltac nc := eapply post_bind; [apply need_comma_post | intros ? _].
  Ltac om := eapply post_bind; [apply opt_more_post | intros [[|] ?] _; cbv beta iota; cbn [negb]].
  Ltac fin := okk; cbn [fst forallb arity_ok length]; rewrite ?andb_true_iff; auto 10.

  Lemma parse_args_post ap name st :
    post (fun r => forallb node_ok (fst r) = true /\ arity_ok ap (fst r)) (parse_args rec fuel' ap name st).
  Proof.
    unfold parse_args. eapply post_bind; [apply check_not_close_post|intros _ _].
    destruct ap.
    - ex. ea. fin.
    - ex. om; [|fin]. ex. ea. fin.
    - ex. nc. ex. ea. fin.
    - ex. destruct (is _ _); [exact I|]. destruct (negb _); [exact I|]. destruct (negb _); [exact I|].
      adv. ex. ea. fin.
    - destruct (negb _); [exact I|]. adv. ex. nc. ex. ea. fin.
    - ex. nc. ex. om; [|fin]. ex. ea. fin.
    - ex. nc. ex. om; [|fin]. ex. om; [|fin]. ex. ea. fin.
    - ex. nc. ex. nc. ex. om; [|fin]. ex. ea. fin.
    - eapply post_imp; [apply var_args_loop_post; reflexivity|]. intros [l st'] [H1 H2]. cbn [fst] in *. auto.
  Qed.

  Lemma function_post st : post Qnode (function rec fuel' st).
  Proof.
    unfold function. adv.
    destruct (assoc (tval (curr st)) function_table) as [[ap fb]|] eqn:T; [|exact I].
    eapply post_bind; [apply parse_args_post|]. intros [args st'] [H1 H2]. cbn [fst] in *. cbv beta iota.
    destruct (build_ok ap fb args (table_lookup_ok _ _ _ T) H2 H1) as [n [B N]]. rewrite B.
    okk. exact N.
  Qed.

  Lemma wrap_slice_projection_post n project st :
    node_ok n = true -> post Qnode (wrap_slice_projection rec n project st).
  Proof.
    intros Hn. unfold wrap_slice_projection. destruct project; [|okk; exact Hn].
    pj; okk; unfold Qnode; cbn [fst node_ok]; rewrite Hn; [assumption|reflexivity].
  Qed.
End ParserCore.

Section ParserCore2.
  Variable rec : pcall -> pst -> outcome (option node * pst).
  Variable fuel' : nat.
  Hypothesis Hrec : RInv rec.

  Ltac ex := eapply post_bind; [apply (expr_post rec Hrec) | intros [? ?] ?; unfold Qnode in *; cbn [fst] in *; cbv beta iota].
  Ltac pj := eapply post_bind; [apply (projection_post rec Hrec) | intros [[?|] ?] ?; cbn [fst opt_ok] in *; cbv beta iota].
  Ltac done_ok := okk; cbn [node_ok]; rewrite ?andb_true_iff; auto.

  Lemma primary_post st : post Qnode (primary rec fuel' st).
  Proof.
    unfold primary. destruct (ct st) eqn:C; try exact I.
    - (* TOpenBrace *) adv. apply select_object_post; [exact Hrec|exact I].
    - (* TOpenParen *) adv. ex. destruct (negb _); [exact I|]. adv. done_ok.
    - (* TOpenSqBrace *)
      adv. destruct (_ || _).
      + eapply post_bind; [apply (index_post None); exact I|]. intros [[n project] st'] Hn. cbn [fst] in Hn.
        cbv beta iota. apply wrap_slice_projection_post; assumption.
      + apply select_array_post; [exact Hrec|exact I].
    - (* TAdd *) adv. ex. done_ok.
    - (* TArrayWildcard *) adv. pj; done_ok.
    - (* TAsterisk *) adv. pj; done_ok.
    - (* TFilter *)
      adv. eapply post_bind; [apply (filter_post rec Hrec)|]. intros [f st'] Hf. unfold Qnode in Hf. cbn [fst] in Hf.
      cbv beta iota. pj; done_ok.
    - (* TFlatten *) adv. pj; done_ok.
    - (* TLet *) adv. apply let_post; exact Hrec.
    - (* TNot *) adv. ex. done_ok.
    - (* TSubtract *) adv. ex. done_ok.
    - (* TCurrent *) adv. done_ok.
    - (* TJSONLiteral *)
      eapply post_bind; [apply json_literal_post|]. intros n Hn. adv. done_ok.
    - (* TQuotedIdentifier *)
      eapply post_bind; [apply quoted_post|]. intros v _. adv. done_ok.
    - (* TRoot *) adv. done_ok.
    - (* TUnquotedIdentifier *)
      destruct (is (nt st) TOpenParen); [apply function_post; exact Hrec|]. adv. done_ok.
    - (* TStringLiteral *) adv. okk. reflexivity.
    - (* TVariable *) adv. done_ok.
  Qed.
End ParserCore2.

Section ParserCore3.
  Variable rec : pcall -> pst -> outcome (option node * pst).
  Variable fuel' : nat.
  Hypothesis Hrec : RInv rec.

  Ltac ex := eapply post_bind; [apply (expr_post rec Hrec) | intros [? ?] ?; unfold Qnode in *; cbn [fst] in *; cbv beta iota].
  Ltac pj := eapply post_bind; [apply (projection_post rec Hrec) | intros [[?|] ?] ?; cbn [fst opt_ok] in *; cbv beta iota].
  Ltac done_ok := okk; cbn [node_ok opt_ok] in *; rewrite ?andb_true_iff; auto.

  Definition Qstep (st : pst) (r : option (node * pst)) : Prop :=
    match r with Some (n', _) => node_ok n' = true | None => sel_tok (ct st) = false end.

  Lemma cont_step_post node newPrec st :
    opt_ok node -> (node = None -> sel_tok (ct st) = true) ->
    post (Qstep st) (cont_step rec fuel' node newPrec st).
  Proof.
    intros Hn Hsel. unfold cont_step, Qstep. destruct (ct st) eqn:C; cbn [bin_of].
    all: try solve [okk; reflexivity].
    all: try solve [adv; ex; destruct node as [l|]; [done_ok|discriminate (Hsel eq_refl)]].
    all: try solve [adv; pj; destruct node as [l|]; done_ok].
    - (* TOpenSqBrace *)
      adv. eapply post_bind; [apply (index_post node); exact Hn|]. intros [[n project] st'] Hi. cbn [fst] in Hi.
      cbv beta iota. eapply post_bind; [apply wrap_slice_projection_post; assumption|].
      intros [n' st''] Hw. exact Hw.
    - (* TDot *)
      assert (Hc : opt_ok (Some match node with Some n => n | None => NCurrent end))
        by (destruct node; [exact Hn|reflexivity]).
      destruct (nt st); try exact I.
      + adv. eapply post_bind; [apply select_object_post; [exact Hrec|exact Hc]|]. intros [n' st'] Hw. exact Hw.
      + adv. eapply post_bind; [apply select_array_post; [exact Hrec|exact Hc]|]. intros [n' st'] Hw. exact Hw.
      + adv. okk. cbn [node_ok]. cbn [opt_ok] in Hc. rewrite Hc. reflexivity.
      + adv. ex. destruct node as [l|]; done_ok.
      + adv. ex. destruct node as [l|]; done_ok.
    - (* TFilter *)
      adv. eapply post_bind; [apply (filter_post rec Hrec)|]. intros [f st'] Hf. unfold Qnode in Hf. cbn [fst] in Hf.
      cbv beta iota. pj; destruct node as [l|]; done_ok.
  Qed.

  Lemma run_body_inv : RInv (run_body rec fuel').
  Proof.
    destruct Hrec as [R1 [R2 R3]]. split; [|split].
    - intros prec st. cbn [run_body].
      eapply post_bind; [apply primary_post; exact Hrec|]. intros [n st'] Hn. apply R2. exact Hn.
    - intros n prec st Hn. cbn [run_body]. cbv zeta.
      destruct (_ >? prec); [|exact Hn].
      eapply post_bind; [apply (cont_step_post (Some n)); [exact Hn|discriminate]|].
      intros [[n' st']|] H; [apply R2; exact H|exact Hn].
    - intros prec st Hs Hp. cbn [run_body]. cbv zeta. rewrite Hp.
      eapply post_bind; [apply (cont_step_post None); [exact I|intros _; exact Hs]|].
      intros [[n' st']|] H; [apply R2; exact H|]. unfold Qstep in H. congruence.
  Qed.
End ParserCore3.

Lemma run_inv : forall fuel, RInv (run fuel).
Proof.
  induction fuel as [|f IH].
  - split; [|split]; intros; exact I.
  - cbn [run]. apply run_body_inv. exact IH.
Qed.

Lemma parse_items_post fuel items : post (fun n => node_ok n = true) (parse_items fuel items).
Proof.
  unfold parse_items. eapply post_bind; [apply pull_post|]. intros [t1 r1] _.
  eapply post_bind; [apply pull_post|]. intros [t2 r2] _. cbv zeta.
  eapply post_bind; [apply (proj1 (run_inv fuel))|].
  intros [[n|] st'] H; unfold Qsome in H; cbn [fst] in H; [|contradiction].
  destruct (negb _); [exact I|exact H].
Qed.

Lemma parse_post s : post (fun n => node_ok n = true) (parse s).
Proof. apply parse_items_post. Qed.

(* parser: no byte string makes it panic *)
Theorem parse_no_panic : forall s, is_panic (parse s) = false.
Proof. intros s. exact (post_np _ _ (parse_post s)). Qed.

(* and its output satisfies the static hypothesis of the evaluator theorem *)
Theorem parse_node_ok : forall s n, parse s = Ok n -> node_ok n = true.
Proof. intros s n E. pose proof (parse_post s) as H. rewrite E in H. exact H. Qed.

(* ------------------------------------------------------------------ *)
(* the public API                                                      *)
(* ------------------------------------------------------------------ *)

Theorem compile_no_panic : forall expr, compile_result expr <> RPanic.
Proof.
  intros expr. unfold compile_result, lift_parse. pose proof (parse_no_panic expr) as H.
  destruct (parse expr); try discriminate; cbn in H; discriminate.
Qed.

Theorem expression_search_no_panic : forall n data,
  node_ok n = true -> sites data n data [] -> expression_search n data <> RPanic.
Proof.
  intros n data Hn Hs. unfold expression_search, lift_eval, evaluate.
  pose proof (eval_no_panic data n data [] Hn Hs) as H.
  destruct (eval data n data []); try discriminate; cbn in H; discriminate.
Qed.

Theorem search_no_panic : forall expr data,
  (forall n, parse expr = Ok n -> sites data n data []) -> search expr data <> RPanic.
Proof.
  intros expr data Hs. unfold search, lift_parse. pose proof (parse_no_panic expr) as H.
  destruct (parse expr) as [n| | | |] eqn:E; try discriminate; try (cbn in H; discriminate).
  apply expression_search_no_panic; [eapply parse_node_ok; exact E|apply Hs; reflexivity].
Qed.

(* ------------------------------------------------------------------ *)
(* a fragment where the length hypothesis is vacuous: expressions      *)
(* without a stepped slice and without zip                             *)
(* ------------------------------------------------------------------ *)

Fixpoint plain (n : node) : bool :=
  match n with
  | NCall1 _ a | NNot a | NNegate a | NAssertNumber a | NFilterCurrent a | NFlatten a
  | NFlattenAndProjectCurrent a | NIndex a _ | NObjectValues a | NProjectArrayCurrent a
  | NProjectObjectCurrent a | NPruneArray a | NSelectArraySingleCurrent a
  | NSelectObjectSingleCurrent _ a | NSlice a _ _ => plain a
  | NSliceStep _ _ _ _ | NSliceStepCurrent _ _ _ => false
  | NCall2 _ a b | NCallBy _ a b | NMap a b | NBin _ a b | NAnd a b | NOr a b | NFilter a b
  | NFilterAndProjectCurrent a b | NFlattenAndProject a b | NPipe a b | NProjectArray a b
  | NProjectObject a b | NSelectArraySingle a b | NSelectObjectSingle a _ b => plain a && plain b
  | NCall3 _ a b c | NFilterAndProject a b c => plain a && plain b && plain c
  | NCall4 _ a b c d => plain a && plain b && plain c && plain d
  | NCallVar f args => negb (match f with FZip => true | _ => false end) && forallb plain args
  | NSelectArrayCurrent args => forallb plain args
  | NSelectArray c fields => plain c && forallb plain fields
  | NDefine vars child => plain child && forallb (fun kv => plain (snd kv)) vars
  | NSelectObject c fields => plain c && forallb (fun kv => plain (snd kv)) fields
  | NSelectObjectCurrent fields => forallb (fun kv => plain (snd kv)) fields
  | _ => true
  end.

Lemma on_ok_intro {A} (o : outcome A) (P : A -> Prop) : (forall a, P a) -> on_ok o P.
Proof. destruct o; cbn; auto. Qed.

Definition PLP (root : value) (c : node) : Prop :=
  plain c = true -> node_ok c = true /\ forall cur vars, sites root c cur vars.

Lemma plain_nodes root (l : list node) :
  Forall (PLP root) l -> forallb plain l = true ->
  forallb node_ok l = true /\ forall x vars, allP (fun a => sites root a x vars) l.
Proof.
  induction l as [|a r IH]; cbn [forallb allP]; [auto|]. intros F Hb.
  apply Forall_cons_iff in F as [F1 F2]. apply andb_true_iff in Hb as [B1 B2].
  destruct (F1 B1) as [N1 S1]. destruct (IH F2 B2) as [N2 S2]. rewrite N1, N2. auto.
Qed.

Lemma plain_knodes root (l : list (bytes * node)) :
  Forall (PLP root) (map snd l) -> forallb (fun kv => plain (snd kv)) l = true ->
  forallb (fun kv => node_ok (snd kv)) l = true /\
  forall x vars, allP (fun kv => let '(_, f) := kv in sites root f x vars) l.
Proof.
  induction l as [|[k a] r IH]; cbn [forallb allP map snd]; [auto|]. intros F Hb.
  apply Forall_cons_iff in F as [F1 F2]. apply andb_true_iff in Hb as [B1 B2].
  destruct (F1 B1) as [N1 S1]. destruct (IH F2 B2) as [N2 S2]. rewrite N1, N2. auto.
Qed.

Ltac plain_hyps :=
  repeat match goal with
  | H : _ && _ = true |- _ => apply andb_true_iff in H; destruct H
  | H : Forall _ (_ :: _) |- _ => apply Forall_cons_iff in H; destruct H
  | H : Forall _ [] |- _ => clear H
  | H : PLP _ ?a, P : plain ?a = true |- _ => destruct (H P); clear H
  | H : Forall _ ?l, P : forallb plain ?l = true |- _ => destruct (plain_nodes _ _ H P); clear H
  | H : Forall _ (map snd ?l), P : forallb _ ?l = true |- _ => destruct (plain_knodes _ _ H P); clear H
  end.

Ltac sites_auto :=
  repeat match goal with
  | |- _ /\ _ => split
  | |- True => exact I
  | |- on_ok _ _ => apply on_ok_intro; intros
  | |- each _ _ => intros ? ?
  | |- if ?c then _ else _ => destruct c
  | |- match ?x with _ => _ end => destruct x
  | |- _ => solve [auto]
  end.

Lemma plain_ok root : forall n, PLP root n.
Proof.
  induction n as [n IH] using node_ind_children. intros Hp.
  destruct n; cbn [children] in IH; cbn [plain] in Hp; try discriminate Hp;
    try match goal with f : fnvar |- _ => destruct f; try discriminate Hp end; plain_hyps;
    (split; [cbn [node_ok]; rewrite ?andb_true_iff; auto 10|intros cur0 vars1; cbn [sites]; sites_auto]).
Qed.

(* without stepped slices and zip, no hypothesis on lengths is needed *)
Corollary eval_no_panic_plain : forall root n cur vars,
  plain n = true -> is_panic (eval root n cur vars) = false.
Proof. intros root n cur vars Hp. destruct (plain_ok root n Hp) as [H1 H2]. apply eval_no_panic; auto. Qed.

Corollary search_no_panic_plain : forall expr data,
  (forall n, parse expr = Ok n -> plain n = true) -> search expr data <> RPanic.
Proof.
  intros expr data Hp. apply search_no_panic. intros n E.
  destruct (plain_ok data n (Hp n E)) as [_ H]. apply H.
Qed.

Print Assumptions search_no_panic.
Print Assumptions expression_search_no_panic.
Print Assumptions compile_no_panic.
Print Assumptions parse_node_ok.
Print Assumptions eval_no_panic_plain.
Print Assumptions eval_no_panic.
Print Assumptions parse_no_panic.
