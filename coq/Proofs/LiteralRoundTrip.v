(* C16: every Unicode string can be written literally and decodes to itself.
   Raw string literals, quoted identifiers, surrogate-pair escapes and JSON
   (backtick) literals, through the whole lexer/parser pipeline of the model. *)
From Coq Require Import List ZArith Bool Lia.
From JM Require Import Base.Outcome Base.Bytes Base.Utf8 Num.Dec Json.Value Json.JsonText Json.JsonPrint
  Model.Token Model.Lexer Model.Ast Model.Literals Model.Parser Model.Functions Model.Eval
  Spec.Unparse Proofs.Utf8Theory.
Import ListNotations.
Open Scope Z_scope.

(* ================================================================== *)
(* Generic facts                                                       *)
(* ================================================================== *)

(* case analysis of a byte against the literal patterns used in the model's
   matches (a Z pattern compiles to a nested match on positives) *)
Ltac zcase b :=
  destruct b as [|?p|?p]; try reflexivity; try lia;
  repeat (match goal with p : positive |- _ => destruct p as [p|p|]; try reflexivity; try lia end).

Lemma inner_delim d body : inner (d :: body ++ [d]) = body.
Proof. unfold inner. cbn [tl]. apply removelast_last. Qed.

Lemma take_all (s : bytes) n : n = Z.of_nat (length s) -> take n s = s.
Proof. intros ->. unfold take. rewrite Nat2Z.id. apply firstn_all. Qed.

Lemma drop_all (s : bytes) n : n = Z.of_nat (length s) -> drop n s = [].
Proof. intros ->. unfold drop. rewrite Nat2Z.id. apply skipn_all. Qed.

Lemma drop_app (e t : bytes) n : n = Z.of_nat (length e) -> drop n (e ++ t) = t.
Proof. intros ->. unfold drop. rewrite Nat2Z.id. apply skipn_len_app. Qed.

(* ================================================================== *)
(* decodeRune on an encoded scalar                                     *)
(* ================================================================== *)

Lemma dr_shape c e r : enc_shape c e -> dr (e ++ r) = Ok (c, Z.of_nat (length e)).
Proof.
  intros Sh. unfold dr. rewrite (decode_shape c e r Sh).
  pose proof (enc_shape_length c e Sh) as L.
  destruct (Z.eqb_spec (Z.of_nat (length e)) 0); [lia|].
  destruct Sh; cbn [length] in *; unfold RuneError; ztests; try reflexivity.
Qed.

Lemma dr_enc c r : scalar_ok c = true -> dr (encode_rune c ++ r) = Ok (c, Z.of_nat (length (encode_rune c))).
Proof. intros H. apply dr_shape, encode_rune_shape, H. Qed.

Lemma dr_ascii b r : 0 <= b < 128 -> dr (b :: r) = Ok (b, 1).
Proof. intros H. apply (dr_shape b [b] r). apply ES1, H. Qed.

Lemma encode_rune_ascii b : 0 <= b < 128 -> encode_rune b = [b].
Proof.
  intros H. unfold encode_rune, scalar_ok, is_surrogate. ztests. reflexivity.
Qed.

Lemma scalar_ascii b : 0 <= b < 128 -> scalar_ok b = true.
Proof. intros H. unfold scalar_ok, is_surrogate. ztests; try reflexivity. Qed.

(* ================================================================== *)
(* Escaped bodies and scan_delim                                       *)
(* ================================================================== *)

(* a sequence of plain code points (never a backslash, and satisfying okp) and
   of backslash + code point pairs (the code point satisfying oke) *)
Inductive gbody (okp oke : Z -> Prop) : bytes -> Prop :=
| GB_nil : gbody okp oke []
| GB_plain c b : scalar_ok c = true -> okp c -> c <> 92 -> gbody okp oke b ->
    gbody okp oke (encode_rune c ++ b)
| GB_esc c b : scalar_ok c = true -> oke c -> gbody okp oke b -> gbody okp oke (92 :: encode_rune c ++ b).

Lemma gbody_mono (p1 e1 p2 e2 : Z -> Prop) s :
  (forall c, p1 c -> p2 c) -> (forall c, e1 c -> e2 c) -> gbody p1 e1 s -> gbody p2 e2 s.
Proof. intros Hp He. induction 1; constructor; auto. Qed.

Lemma GB_byte (okp oke : Z -> Prop) x b : 0 <= x < 128 -> okp x -> x <> 92 -> gbody okp oke b -> gbody okp oke (x :: b).
Proof.
  intros H H1 H2 Hb. change (x :: b) with ([x] ++ b). rewrite <- (encode_rune_ascii x H).
  apply GB_plain; auto using scalar_ascii.
Qed.

Lemma GB_esc_byte (okp oke : Z -> Prop) x b : 0 <= x < 128 -> oke x -> gbody okp oke b -> gbody okp oke (92 :: x :: b).
Proof.
  intros H H1 Hb. change (92 :: x :: b) with (92 :: [x] ++ b). rewrite <- (encode_rune_ascii x H).
  apply GB_esc; auto using scalar_ascii.
Qed.

Lemma gbody_app (okp oke : Z -> Prop) a b : gbody okp oke a -> gbody okp oke b -> gbody okp oke (a ++ b).
Proof.
  induction 1; intros Hb; cbn [app]; [assumption| |].
  - rewrite <- app_assoc. apply GB_plain; auto.
  - rewrite <- app_assoc. apply GB_esc; auto.
Qed.

(* the text between two delimiters: no unescaped delimiter, every backslash
   followed by a complete code point *)
Definition ebody (delim : Z) : bytes -> Prop := gbody (fun c => c <> delim) (fun _ => True).

Lemma scan_delim_body delim : 0 <= delim < 128 -> delim <> 92 ->
  forall body, ebody delim body ->
  forall fuel n rest, (length body < fuel)%nat ->
  scan_delim fuel delim (body ++ delim :: rest) n = Ok (n + Z.of_nat (length body) + 1).
Proof.
  intros Hd Hd92. induction 1 as [|c b Hc Hcd Hc92 Hb IH|c b Hc _ Hb IH]; intros fuel n rest Hf.
  - destruct fuel as [|f]; [cbn in Hf; lia|]. cbn [app scan_delim length].
    rewrite dr_ascii by assumption. cbn [bind]. rewrite Z.eqb_refl. f_equal. lia.
  - destruct fuel as [|f]; [lia|]. cbn [scan_delim].
    rewrite <- app_assoc, dr_enc by assumption. cbn [bind].
    pose proof (encode_rune_length c Hc) as L.
    rewrite app_length in *.
    destruct (Z.eqb_spec c delim); [congruence|].
    destruct (Z.eqb_spec c 92); [congruence|].
    rewrite drop_app by reflexivity. rewrite IH by lia. f_equal. lia.
  - destruct fuel as [|f]; [cbn in Hf; lia|]. cbn [scan_delim app].
    rewrite dr_ascii by lia. cbn [bind].
    destruct (Z.eqb_spec 92 delim); [congruence|]. cbn [Z.eqb Pos.eqb].
    change (drop 1 (92 :: (encode_rune c ++ b) ++ delim :: rest)) with ((encode_rune c ++ b) ++ delim :: rest).
    rewrite <- app_assoc, dr_enc by assumption. cbn [bind].
    pose proof (encode_rune_length c Hc) as L.
    cbn [length] in *. rewrite app_length in *.
    rewrite drop_app by reflexivity. rewrite IH by lia. f_equal. lia.
Qed.

(* a delimited token spanning the whole input *)
Lemma lex_next_delimited t delim body :
  0 <= delim < 128 -> delim <> 92 -> ebody delim body ->
  (forall s, lex_next (delim :: s) = delimited t delim (delim :: s) 1) ->
  lex_next (delim :: body ++ [delim]) = Ok (Tok t (delim :: body ++ [delim]), []).
Proof.
  intros Hd Hd92 Hb Hl. rewrite Hl. unfold delimited.
  change (drop 1 (delim :: body ++ [delim])) with (body ++ [delim]).
  rewrite (scan_delim_body delim Hd Hd92 body Hb) by (cbn [length]; rewrite app_length; lia).
  cbn [bind]. unfold mk.
  rewrite take_all, drop_all; [reflexivity| |];
    cbn [length]; rewrite app_length; cbn [length]; lia.
Qed.

Lemma lex_next_first b s :
  0 <= b < 128 -> is_ws b = false ->
  skip_ws (S (length (b :: s))) (b :: s) = Ok (Some (b, 1, b :: s)).
Proof.
  intros Hb Hw. cbn [skip_ws]. rewrite dr_ascii by assumption. cbn [bind]. rewrite Hw. reflexivity.
Qed.

Lemma lex_next_39 s : lex_next (39 :: s) = delimited TStringLiteral 39 (39 :: s) 1.
Proof. unfold lex_next. rewrite lex_next_first by (try reflexivity; lia). reflexivity. Qed.
Lemma lex_next_34 s : lex_next (34 :: s) = delimited TQuotedIdentifier 34 (34 :: s) 1.
Proof. unfold lex_next. rewrite lex_next_first by (try reflexivity; lia). reflexivity. Qed.
Lemma lex_next_96 s : lex_next (96 :: s) = delimited TJSONLiteral 96 (96 :: s) 1.
Proof. unfold lex_next. rewrite lex_next_first by (try reflexivity; lia). reflexivity. Qed.

Lemma lex_all_single t v : t <> TEnd -> v <> [] ->
  lex_next v = Ok (Tok t v, []) ->
  lex_all v = [ITok (Tok t v); ITok (Tok TEnd [])].
Proof.
  intros Ht Hv H. unfold lex_all. destruct v as [|b v]; [congruence|].
  cbn [length lex_all_f]. rewrite H. cbn [ttyp].
  destruct t; try congruence; reflexivity.
Qed.

(* ================================================================== *)
(* The parser on a one-token expression                                *)
(* ================================================================== *)

Lemma parse_fuel_ge s : exists k, parse_fuel s = S (S (S (S k))).
Proof. unfold parse_fuel. exists (4 * length s + 12)%nat. lia. Qed.

Lemma parse_items_string k v :
  parse_items (S (S k)) [ITok (Tok TStringLiteral v); ITok (Tok TEnd [])] = Ok (parse_string_literal v).
Proof. reflexivity. Qed.

Lemma parse_items_quoted k v s : parse_quoted_identifier v = Ok s ->
  parse_items (S (S k)) [ITok (Tok TQuotedIdentifier v); ITok (Tok TEnd [])] = Ok (NField s).
Proof.
  intros H. unfold parse_items. cbn [pull bind run run_body primary ct curr ttyp tval].
  rewrite H. reflexivity.
Qed.

Lemma parse_items_json k v n : parse_json_literal v = Ok n ->
  parse_items (S (S k)) [ITok (Tok TJSONLiteral v); ITok (Tok TEnd [])] = Ok n.
Proof.
  intros H. unfold parse_items. cbn [pull bind run run_body primary ct curr ttyp tval].
  rewrite H. reflexivity.
Qed.

(* ================================================================== *)
(* A. raw string literals                                              *)
(* ================================================================== *)

Lemma raw_unescape_eq b r :
  raw_unescape (b :: r) =
  if b =? 92 then
    match r with
    | [] => [92]
    | c :: r' => (if c =? 39 then [39] else if c =? 92 then [92] else [92; c]) ++ raw_unescape r'
    end
  else b :: raw_unescape r.
Proof. destruct r; zcase b. Qed.

Lemma rescape_app a b : rescape (a ++ b) = rescape a ++ rescape b.
Proof. induction a as [|x a IH]; [reflexivity|]. cbn [app rescape]. now rewrite IH, app_assoc. Qed.

Lemma raw_unescape_rescape : forall s, raw_unescape (rescape s) = s.
Proof.
  induction s as [|b s IH]; [reflexivity|]. cbn [rescape].
  destruct (Z.eqb_spec b 39) as [->|H39].
  { cbn [app]. rewrite raw_unescape_eq. cbn [Z.eqb Pos.eqb app]. now rewrite IH. }
  destruct (Z.eqb_spec b 92) as [->|H92].
  { cbn [app]. rewrite raw_unescape_eq. cbn [Z.eqb Pos.eqb app]. now rewrite IH. }
  cbn [app]. rewrite raw_unescape_eq. destruct (Z.eqb_spec b 92); [congruence|]. now rewrite IH.
Qed.

Lemma raw_preserves_other_escapes : forall c, c <> 39 -> c <> 92 -> raw_unescape [92; c] = [92; c].
Proof.
  intros c H1 H2. rewrite raw_unescape_eq. cbn [Z.eqb Pos.eqb].
  destruct (Z.eqb_spec c 39); [congruence|]. destruct (Z.eqb_spec c 92); [congruence|]. reflexivity.
Qed.

(* a backslash that ends the literal is kept *)
Lemma raw_trailing_backslash : raw_unescape [92] = [92].
Proof. reflexivity. Qed.

Lemma rescape_enc c : scalar_ok c = true -> c <> 39 -> c <> 92 -> rescape (encode_rune c) = encode_rune c.
Proof.
  intros Hc H1 H2. destruct (encode_rune_shape c Hc); cbn [rescape app]; ztests; reflexivity.
Qed.

Lemma ebody_rescape : forall cs, scalars cs -> ebody 39 (rescape (encode_all cs)).
Proof.
  unfold ebody. induction cs as [|c cs IH]; intros H; [constructor|].
  apply scalars_cons in H as [Hc Hcs]. rewrite encode_all_cons, rescape_app.
  destruct (Z.eq_dec c 39) as [->|H39]. { apply GB_esc_byte; [lia|auto|auto]. }
  destruct (Z.eq_dec c 92) as [->|H92]. { apply GB_esc_byte; [lia|auto|auto]. }
  rewrite rescape_enc by assumption. apply GB_plain; auto.
Qed.

Theorem lex_raw_string : forall cs, scalars cs -> let s := encode_all cs in
  lex_all (39 :: rescape s ++ [39]) = [ITok (Tok TStringLiteral (39 :: rescape s ++ [39])); ITok (Tok TEnd [])].
Proof.
  intros cs H s. apply lex_all_single; try discriminate.
  apply lex_next_delimited; try lia; [apply ebody_rescape, H | apply lex_next_39].
Qed.

Theorem parse_raw_string : forall cs, scalars cs -> let s := encode_all cs in
  parse (39 :: rescape s ++ [39]) = Ok (NString s).
Proof.
  intros cs H s. unfold parse. pose proof (lex_raw_string cs H) as L. cbv zeta in L. fold s in L. rewrite L.
  destruct (parse_fuel_ge (39 :: rescape s ++ [39])) as [k ->].
  rewrite parse_items_string. unfold parse_string_literal.
  now rewrite inner_delim, raw_unescape_rescape.
Qed.


(* ================================================================== *)
(* B. quoted identifiers                                               *)
(* ================================================================== *)

Lemma hexchar_range d : 0 <= d < 16 ->
  (48 <= hexchar d <= 57 \/ 97 <= hexchar d <= 102).
Proof. intros H. unfold hexchar. destruct (Z.ltb_spec d 10); lia. Qed.

Lemma hexd_hexchar d : 0 <= d < 16 -> hexd (hexchar d) = Some d.
Proof.
  intros H. unfold hexd, hexchar.
  destruct (Z.ltb_spec d 10); ztests; f_equal; lia.
Qed.

Lemma hex4q_u00 b r : 0 <= b < 256 ->
  hex4q (48 :: 48 :: hexchar (b / 16) :: hexchar (b mod 16) :: r) = Some b.
Proof.
  intros H. unfold hex4q.
  rewrite (hexd_hexchar (b / 16)) by (Z.div_mod_to_equations; lia).
  rewrite (hexd_hexchar (b mod 16)) by (Z.div_mod_to_equations; lia).
  change (hexd 48) with (Some 0). cbv beta iota. f_equal. Z.div_mod_to_equations; lia.
Qed.

Lemma quoted_unescape_plain f b r : b <> 92 ->
  quoted_unescape (S f) (b :: r) = option_map (cons b) (quoted_unescape f r).
Proof. intros H. zcase b. Qed.

Lemma qescape_app a b : qescape (a ++ b) = qescape a ++ qescape b.
Proof. induction a as [|x a IH]; [reflexivity|]. cbn [app qescape]. now rewrite IH, app_assoc. Qed.

Lemma qescape_length s : (length s <= length (qescape s))%nat.
Proof.
  induction s as [|b s IH]; [apply le_n|]. cbn [qescape]. rewrite app_length. cbn [length].
  match goal with |- (_ <= length ?x + _)%nat => assert (1 <= length x)%nat end; [|lia].
  repeat match goal with |- context[if ?c then _ else _] => destruct c end; cbn [length u00]; lia.
Qed.

Lemma quoted_unescape_qescape_nonneg : forall s fuel, Forall (fun b => 0 <= b) s -> (length s < fuel)%nat ->
  quoted_unescape fuel (qescape s) = Some s.
Proof.
  induction s as [|b s IH]; intros fuel Hb Hf; (destruct fuel as [|f]; [cbn in Hf; lia|]); [reflexivity|].
  inversion Hb as [|? ? Hb0 Hbs]; subst. cbn [length] in Hf.
  assert (IH' := IH f Hbs ltac:(lia)). clear IH.
  cbn [qescape].
  destruct (Z.eqb_spec b 34) as [->|?]. { cbn [app quoted_unescape Z.eqb Pos.eqb]. now rewrite IH'. }
  destruct (Z.eqb_spec b 92) as [->|?]. { cbn [app quoted_unescape Z.eqb Pos.eqb]. now rewrite IH'. }
  destruct (Z.eqb_spec b 10) as [->|?]. { cbn [app quoted_unescape Z.eqb Pos.eqb]. now rewrite IH'. }
  destruct (Z.eqb_spec b 13) as [->|?]. { cbn [app quoted_unescape Z.eqb Pos.eqb]. now rewrite IH'. }
  destruct (Z.eqb_spec b 9) as [->|?]. { cbn [app quoted_unescape Z.eqb Pos.eqb]. now rewrite IH'. }
  destruct (Z.eqb_spec b 8) as [->|?]. { cbn [app quoted_unescape Z.eqb Pos.eqb]. now rewrite IH'. }
  destruct (Z.eqb_spec b 12) as [->|?]. { cbn [app quoted_unescape Z.eqb Pos.eqb]. now rewrite IH'. }
  destruct (Z.ltb_spec b 32).
  - unfold u00. cbn [app quoted_unescape Z.eqb Pos.eqb].
    rewrite hex4q_u00 by lia.
    replace (is_surrogate b) with false by (unfold is_surrogate; ztests; reflexivity).
    cbn [skipn]. rewrite IH'. rewrite encode_rune_ascii by lia. reflexivity.
  - cbn [app]. rewrite quoted_unescape_plain by assumption. now rewrite IH'.
Qed.

Lemma bytes_ok_nonneg s : bytes_ok s = true -> Forall (fun b => 0 <= b) s.
Proof.
  induction s as [|b s IH]; intros H; constructor; unfold bytes_ok in *; cbn [forallb] in H;
    apply andb_true_iff in H as [H1 H2]; [unfold byte_ok in H1; b2p; lia|auto].
Qed.

Lemma quoted_unescape_qescape : forall s fuel, bytes_ok s = true -> (length s < fuel)%nat ->
  quoted_unescape fuel (qescape s) = Some s.
Proof. intros s fuel H. apply quoted_unescape_qescape_nonneg, bytes_ok_nonneg, H. Qed.

Lemma enc_shape_nonneg c e : enc_shape c e -> Forall (fun b => 0 <= b) e.
Proof. destruct 1; repeat constructor; lia. Qed.

Lemma encode_all_nonneg cs : scalars cs -> Forall (fun b => 0 <= b) (encode_all cs).
Proof.
  induction cs as [|c cs IH]; intros H; [constructor|].
  apply scalars_cons in H as [Hc Hcs]. rewrite encode_all_cons. apply Forall_app. split; auto.
  eapply enc_shape_nonneg, encode_rune_shape, Hc.
Qed.

Lemma parse_quoted_identifier_qescape s : Forall (fun b => 0 <= b) s ->
  parse_quoted_identifier (34 :: qescape s ++ [34]) = Ok s.
Proof.
  intros H. unfold parse_quoted_identifier. rewrite inner_delim.
  rewrite quoted_unescape_qescape_nonneg; [reflexivity|assumption|].
  pose proof (qescape_length s). cbn [length]. rewrite app_length. cbn [length]. lia.
Qed.

(* the escapes written by qescape: shape of the escaped text *)
Definition q_plain (c : Z) : Prop := c <> 34.
Definition q_esc (c : Z) : Prop := 0 <= c < 128 /\ c <> 96.

Lemma qescape_enc_hi c : scalar_ok c = true -> 128 <= c -> qescape (encode_rune c) = encode_rune c.
Proof.
  intros Hc H. destruct (encode_rune_shape c Hc); cbn [qescape app]; ztests; reflexivity.
Qed.

Lemma gbody_qescape_rune c b : scalar_ok c = true -> gbody q_plain q_esc b ->
  gbody q_plain q_esc (qescape (encode_rune c) ++ b).
Proof.
  intros Hc Hb.
  destruct (Z.ltb_spec c 128) as [Hlo|Hhi].
  2:{ rewrite qescape_enc_hi by assumption. apply GB_plain; auto; unfold q_plain; lia. }
  assert (H0 : 0 <= c) by (unfold scalar_ok in Hc; b2p; lia).
  rewrite encode_rune_ascii by lia. cbn [qescape]. rewrite app_nil_r.
  assert (E : forall x, 0 <= x < 128 -> x <> 96 -> gbody q_plain q_esc ([92; x] ++ b)).
  { intros x Hx Hx'. cbn [app]. apply GB_esc_byte; unfold q_esc; auto. }
  destruct (Z.eqb_spec c 34). { apply E; lia. }
  destruct (Z.eqb_spec c 92). { apply E; lia. }
  destruct (Z.eqb_spec c 10). { apply E; lia. }
  destruct (Z.eqb_spec c 13). { apply E; lia. }
  destruct (Z.eqb_spec c 9). { apply E; lia. }
  destruct (Z.eqb_spec c 8). { apply E; lia. }
  destruct (Z.eqb_spec c 12). { apply E; lia. }
  destruct (Z.ltb_spec c 32).
  - unfold u00. cbn [app].
    pose proof (hexchar_range (c / 16) ltac:(Z.div_mod_to_equations; lia)).
    pose proof (hexchar_range (c mod 16) ltac:(Z.div_mod_to_equations; lia)).
    apply GB_esc_byte; [lia|unfold q_esc; lia|].
    repeat (apply GB_byte; [lia|unfold q_plain; lia|lia|]). assumption.
  - cbn [app]. apply GB_byte; unfold q_plain; auto; lia.
Qed.

Lemma gbody_qescape : forall cs, scalars cs -> gbody q_plain q_esc (qescape (encode_all cs)).
Proof.
  induction cs as [|c cs IH]; intros H; [constructor|].
  apply scalars_cons in H as [Hc Hcs]. rewrite encode_all_cons, qescape_app.
  apply gbody_qescape_rune; auto.
Qed.

Lemma ebody_qescape cs : scalars cs -> ebody 34 (qescape (encode_all cs)).
Proof.
  intros H. eapply gbody_mono; [| |apply gbody_qescape, H]; unfold q_plain; auto.
Qed.

Theorem lex_quoted_identifier : forall cs, scalars cs -> let s := encode_all cs in
  lex_all (34 :: qescape s ++ [34]) = [ITok (Tok TQuotedIdentifier (34 :: qescape s ++ [34])); ITok (Tok TEnd [])].
Proof.
  intros cs H s. apply lex_all_single; try discriminate.
  apply lex_next_delimited; try lia; [apply ebody_qescape, H | apply lex_next_34].
Qed.

Theorem parse_quoted_identifier_roundtrip : forall cs, scalars cs -> let s := encode_all cs in
  parse (34 :: qescape s ++ [34]) = Ok (NField s).
Proof.
  intros cs H s. unfold parse.
  pose proof (lex_quoted_identifier cs H) as L. cbv zeta in L. fold s in L. rewrite L.
  destruct (parse_fuel_ge (34 :: qescape s ++ [34])) as [k ->].
  apply parse_items_quoted, parse_quoted_identifier_qescape, encode_all_nonneg, H.
Qed.

(* ================================================================== *)
(* C. surrogate-pair escapes                                           *)
(* ================================================================== *)

(* four lowercase hexadecimal digits *)
Definition hex4 (u : Z) : bytes :=
  [hexchar (u / 4096); hexchar ((u / 256) mod 16); hexchar ((u / 16) mod 16); hexchar (u mod 16)].

Lemma hex4q_hex4 u r : 0 <= u < 65536 -> hex4q (hex4 u ++ r) = Some u.
Proof.
  intros H. unfold hex4, hex4q. cbn [app].
  rewrite !hexd_hexchar by (Z.div_mod_to_equations; lia).
  f_equal. Z.div_mod_to_equations; lia.
Qed.

Lemma skipn_hex4 u (r : bytes) : skipn 4 (hex4 u ++ r) = r.
Proof. reflexivity. Qed.

Definition hi_surrogate (c : Z) : Z := 55296 + (c - 65536) / 1024.
Definition lo_surrogate (c : Z) : Z := 56320 + (c - 65536) mod 1024.

Lemma utf16_decode_pair c : 65536 <= c <= 1114111 ->
  utf16_decode (hi_surrogate c) (lo_surrogate c) = c.
Proof.
  intros H. unfold utf16_decode, hi_surrogate, lo_surrogate.
  assert (0 <= (c - 65536) / 1024 < 1024) by (Z.div_mod_to_equations; lia).
  assert (0 <= (c - 65536) mod 1024 < 1024) by (Z.div_mod_to_equations; lia).
  ztests. Z.div_mod_to_equations; lia.
Qed.

Lemma quoted_unescape_surrogate_pair_app : forall c f rest, 65536 <= c <= 1114111 ->
  quoted_unescape (S f) ([92; 117] ++ hex4 (hi_surrogate c) ++ [92; 117] ++ hex4 (lo_surrogate c) ++ rest)
  = option_map (app (encode_rune c)) (quoted_unescape f rest).
Proof.
  intros c f rest H.
  assert (Hh : 55296 <= hi_surrogate c <= 56319) by (unfold hi_surrogate; Z.div_mod_to_equations; lia).
  assert (Hl : 56320 <= lo_surrogate c <= 57343) by (unfold lo_surrogate; Z.div_mod_to_equations; lia).
  cbn [app quoted_unescape Z.eqb Pos.eqb].
  rewrite hex4q_hex4 by lia.
  replace (is_surrogate (hi_surrogate c)) with true by (unfold is_surrogate; ztests; reflexivity).
  rewrite skipn_hex4.
  replace (blen (92 :: 117 :: hex4 (lo_surrogate c) ++ rest) <? 6) with false.
  2:{ symmetry. apply Z.ltb_ge. unfold blen, hex4. cbn [length app]. lia. }
  cbn [Z.eqb Pos.eqb negb orb].
  rewrite hex4q_hex4 by lia. rewrite utf16_decode_pair by assumption.
  rewrite skipn_hex4. reflexivity.
Qed.

Theorem quoted_unescape_surrogate_pair : forall c fuel, 65536 <= c <= 1114111 -> (2 <= fuel)%nat ->
  quoted_unescape fuel ([92; 117] ++ hex4 (hi_surrogate c) ++ [92; 117] ++ hex4 (lo_surrogate c))
  = Some (encode_rune c).
Proof.
  intros c fuel H Hf. destruct fuel as [|[|f]]; try lia.
  rewrite <- (app_nil_r (hex4 (lo_surrogate c))).
  rewrite quoted_unescape_surrogate_pair_app by assumption. cbn [quoted_unescape option_map].
  now rewrite app_nil_r.
Qed.


(* the whole pipeline on an escaped astral code point *)
Theorem parse_surrogate_pair : forall c, 65536 <= c <= 1114111 ->
  parse (34 :: ([92; 117] ++ hex4 (hi_surrogate c) ++ [92; 117] ++ hex4 (lo_surrogate c)) ++ [34])
  = Ok (NField (encode_rune c)).
Proof.
  intros c H.
  set (body := [92; 117] ++ hex4 (hi_surrogate c) ++ [92; 117] ++ hex4 (lo_surrogate c)).
  assert (Hh : 55296 <= hi_surrogate c <= 56319) by (unfold hi_surrogate; Z.div_mod_to_equations; lia).
  assert (Hl : 56320 <= lo_surrogate c <= 57343) by (unfold lo_surrogate; Z.div_mod_to_equations; lia).
  assert (HX : forall u b, 0 <= u < 65536 -> ebody 34 b -> ebody 34 (92 :: 117 :: hex4 u ++ b)).
  { intros u b Hu Hb. unfold hex4. cbn [app].
    pose proof (hexchar_range (u / 4096) ltac:(Z.div_mod_to_equations; lia)).
    pose proof (hexchar_range ((u / 256) mod 16) ltac:(Z.div_mod_to_equations; lia)).
    pose proof (hexchar_range ((u / 16) mod 16) ltac:(Z.div_mod_to_equations; lia)).
    pose proof (hexchar_range (u mod 16) ltac:(Z.div_mod_to_equations; lia)).
    apply GB_esc_byte; [lia|exact I|].
    repeat (apply GB_byte; [lia|lia|lia|]). exact Hb. }
  assert (Hbody : ebody 34 body).
  { unfold body. cbn [app]. apply HX; [lia|].
    rewrite <- (app_nil_r (hex4 (lo_surrogate c))). apply HX; [lia|constructor]. }
  assert (L : lex_all (34 :: body ++ [34]) = [ITok (Tok TQuotedIdentifier (34 :: body ++ [34])); ITok (Tok TEnd [])]).
  { apply lex_all_single; try discriminate.
    apply lex_next_delimited; try lia; [exact Hbody | apply lex_next_34]. }
  unfold parse. rewrite L. destruct (parse_fuel_ge (34 :: body ++ [34])) as [k ->].
  apply parse_items_quoted. unfold parse_quoted_identifier. rewrite inner_delim.
  unfold body. rewrite quoted_unescape_surrogate_pair; [reflexivity|assumption|].
  cbn [length]. lia.
Qed.

(* ================================================================== *)
(* D. JSON literals                                                    *)
(* ================================================================== *)

(* ---- backtick escaping ---- *)

Lemma btick_escape_cons b r :
  btick_escape (b :: r) = if b =? 96 then 92 :: 96 :: btick_escape r else b :: btick_escape r.
Proof. zcase b. Qed.

Lemma btick_escape_app a b : btick_escape (a ++ b) = btick_escape a ++ btick_escape b.
Proof.
  induction a as [|x a IH]; [reflexivity|]. cbn [app]. rewrite !btick_escape_cons, IH.
  destruct (x =? 96); reflexivity.
Qed.

Lemma unescape_backticks_cons b X : b <> 92 \/ hd 0 X <> 96 ->
  unescape_backticks (b :: X) = b :: unescape_backticks X.
Proof.
  intros H. destruct (Z.eq_dec b 92) as [->|Hb].
  - destruct H as [H|H]; [congruence|]. destruct X as [|c X]; [reflexivity|]. cbn [hd] in H. zcase c.
  - clear H. zcase b.
Qed.

Lemma btick_escape_hd s : hd 0 (btick_escape s) <> 96.
Proof.
  destruct s as [|b s]; [cbn; lia|]. rewrite btick_escape_cons.
  destruct (Z.eqb_spec b 96); cbn [hd]; lia.
Qed.

Lemma unescape_btick : forall s, unescape_backticks (btick_escape s) = s.
Proof.
  induction s as [|b s IH]; [reflexivity|]. rewrite btick_escape_cons.
  destruct (Z.eqb_spec b 96) as [->|Hb].
  - cbn [unescape_backticks]. now rewrite IH.
  - rewrite unescape_backticks_cons by (right; apply btick_escape_hd). now rewrite IH.
Qed.

(* ---- JSON strings: jstring inverts qescape on valid UTF-8 ---- *)

Lemma jstring_plain f b r acc : b <> 34 -> b <> 92 ->
  jstring (S f) (b :: r) acc =
  if b <? 32 then None else
  if b <? 128 then jstring f r (b :: acc) else
  let '(c, sz) := decode_rune (b :: r) in
  jstring f (skipn (Z.to_nat sz) (b :: r)) (rev_append (encode_rune c) acc).
Proof. intros H1 H2. zcase b. Qed.

Lemma jhex4_u00 b r : 0 <= b < 256 ->
  JsonText.hex4 (48 :: 48 :: hexchar (b / 16) :: hexchar (b mod 16) :: r) = Some (b, r).
Proof.
  intros H. unfold JsonText.hex4.
  change hexdig with hexd.
  rewrite (hexd_hexchar (b / 16)) by (Z.div_mod_to_equations; lia).
  rewrite (hexd_hexchar (b mod 16)) by (Z.div_mod_to_equations; lia).
  change (hexd 48) with (Some 0). cbv beta iota. do 2 f_equal. Z.div_mod_to_equations; lia.
Qed.

Lemma jstring_qescape_ascii f c X acc : 0 <= c < 128 ->
  jstring (S f) (qescape [c] ++ X) acc = jstring f X (c :: acc).
Proof.
  intros H. cbn [qescape]. rewrite app_nil_r.
  destruct (Z.eqb_spec c 34) as [->|?]. { reflexivity. }
  destruct (Z.eqb_spec c 92) as [->|?]. { reflexivity. }
  destruct (Z.eqb_spec c 10) as [->|?]. { reflexivity. }
  destruct (Z.eqb_spec c 13) as [->|?]. { reflexivity. }
  destruct (Z.eqb_spec c 9) as [->|?]. { reflexivity. }
  destruct (Z.eqb_spec c 8) as [->|?]. { reflexivity. }
  destruct (Z.eqb_spec c 12) as [->|?]. { reflexivity. }
  destruct (Z.ltb_spec c 32).
  - unfold u00. cbn [app jstring Z.eqb Pos.eqb].
    rewrite jhex4_u00 by lia.
    replace (is_surrogate c) with false by (unfold is_surrogate; ztests; reflexivity).
    rewrite encode_rune_ascii by lia. reflexivity.
  - cbn [app]. rewrite jstring_plain by assumption.
    destruct (Z.ltb_spec c 32); [lia|]. destruct (Z.ltb_spec c 128); [reflexivity|lia].
Qed.

Lemma enc_shape_hi c e : enc_shape c e -> 128 <= c -> exists b0 e', e = b0 :: e' /\ 128 <= b0.
Proof. destruct 1; intros Hc; try lia; eexists _, _; (split; [reflexivity|lia]). Qed.

Lemma jstring_qescape : forall cs, scalars cs -> forall fuel acc rest, (length cs < fuel)%nat ->
  jstring fuel (qescape (encode_all cs) ++ 34 :: rest) acc = Some (rev acc ++ encode_all cs, rest).
Proof.
  induction cs as [|c cs IH]; intros H fuel acc rest Hf; (destruct fuel as [|f]; [cbn in Hf; lia|]).
  { cbn. now rewrite app_nil_r. }
  apply scalars_cons in H as [Hc Hcs]. cbn [length] in Hf.
  rewrite encode_all_cons, qescape_app, <- app_assoc.
  destruct (Z.ltb_spec c 128) as [Hlo|Hhi].
  - assert (H0 : 0 <= c) by (unfold scalar_ok in Hc; b2p; lia).
    rewrite encode_rune_ascii by lia. rewrite jstring_qescape_ascii by lia.
    rewrite IH by (auto; lia). cbn [rev app]. now rewrite <- app_assoc.
  - rewrite qescape_enc_hi by assumption.
    pose proof (encode_rune_shape c Hc) as Sh.
    destruct (enc_shape_hi _ _ Sh Hhi) as (b0 & e' & E & Hb0).
    rewrite E. cbn [app]. rewrite jstring_plain by lia.
    destruct (Z.ltb_spec b0 32); [lia|]. destruct (Z.ltb_spec b0 128); [lia|].
    change (b0 :: e' ++ qescape (encode_all cs) ++ 34 :: rest)
      with ((b0 :: e') ++ qescape (encode_all cs) ++ 34 :: rest).
    rewrite <- E. rewrite decode_encode_rune by assumption.
    rewrite Nat2Z.id, skipn_len_app. rewrite IH by (auto; lia).
    rewrite rev_append_rev, rev_app_distr, rev_involutive, <- app_assoc, E. reflexivity.
Qed.

Lemma encode_all_length cs : scalars cs -> (length cs <= length (encode_all cs))%nat.
Proof.
  induction cs as [|c cs IH]; intros H; [apply le_n|].
  apply scalars_cons in H as [Hc Hcs]. rewrite encode_all_cons, app_length. cbn [length].
  pose proof (encode_rune_length c Hc). specialize (IH Hcs). lia.
Qed.

(* the form used by jvalue: the fuel is the length of the remaining input *)
Lemma jstring_qescape_len cs rest : scalars cs ->
  jstring (S (length (qescape (encode_all cs) ++ 34 :: rest))) (qescape (encode_all cs) ++ 34 :: rest) []
  = Some (encode_all cs, rest).
Proof.
  intros H. rewrite jstring_qescape; [reflexivity|assumption|].
  pose proof (encode_all_length cs H). pose proof (qescape_length (encode_all cs)).
  rewrite app_length. lia.
Qed.

(* ---- JSON numbers: jnumber returns a json_number_ok text verbatim ---- *)

Definition nodig (r : bytes) : Prop := match r with [] => True | b :: _ => is_digit b = false end.

(* what may follow a number inside a JSON text *)
Definition nstop (r : bytes) : Prop :=
  match r with [] => True | b :: _ => b = 44 \/ b = 93 \/ b = 125 end.

Lemma nstop_nodig r : nstop r -> nodig r.
Proof. destruct r as [|b r]; [auto|]. intros [->|[->| ->]]; reflexivity. Qed.

Definition numchar (b : Z) : Prop := (48 <= b <= 57) \/ b = 45 \/ b = 43 \/ b = 46 \/ b = 101 \/ b = 69.

Lemma take_digits_spec : forall s acc n a m r, take_digits s acc n = (a, m, r) ->
  m = n + blen s - blen r /\ (length r <= length s)%nat /\ (forall rest, nodig rest ->
    take_digits (s ++ rest) acc n = (a, m, r ++ rest)) /\
  (Forall numchar r -> Forall numchar s).
Proof.
  induction s as [|b s IH]; intros acc n a m r H.
  - cbn in H. inversion H; subst. unfold blen. cbn [length]. repeat split; try lia; auto.
    intros rest Hr. destruct rest as [|x rest]; [reflexivity|]. cbn [nodig] in Hr. cbn [app take_digits].
    now rewrite Hr.
  - cbn [take_digits] in H. destruct (is_digit b) eqn:Hb.
    + apply IH in H as (H1 & H2 & H3 & H4). unfold blen in *. cbn [length]. repeat split; try lia.
      * intros rest Hr. cbn [app take_digits]. rewrite Hb. apply H3, Hr.
      * intros Hr. constructor; [|auto]. unfold is_digit in Hb. b2p. left; lia.
    + inversion H; subst. unfold blen. repeat split; try lia; auto.
      intros rest Hr. cbn [app take_digits]. now rewrite Hb.
Qed.

(* the three stages of jnumber and of json_number_ok *)
Definition jn_e (s : bytes) (n0 ni nf : Z) (r2 : bytes) : option (bytes * bytes) :=
  let oe := match r2 with
            | b :: r =>
              if (b =? 101) || (b =? 69) then
                let '(ns, r') := match r with 45 :: t => (1, t) | 43 :: t => (1, t) | _ => (0, r) end in
                let '(_, n, r'') := take_digits r' 0 0 in
                if n =? 0 then None else Some (1 + ns + n, r'')
              else Some (0, r2)
            | [] => Some (0, r2)
            end in
  match oe with
  | None => None
  | Some (ne, r3) => let n := n0 + ni + nf + ne in Some (firstn (Z.to_nat n) s, r3)
  end.

Definition jn_f (s : bytes) (n0 ni : Z) (r1 : bytes) : option (bytes * bytes) :=
  let of_ := match r1 with
             | 46 :: r => let '(_, n, r') := take_digits r 0 0 in if n =? 0 then None else Some (1 + n, r')
             | _ => Some (0, r1)
             end in
  match of_ with
  | None => None
  | Some (nf, r2) => jn_e s n0 ni nf r2
  end.

Definition jn_i (s : bytes) (n0 : Z) (s1 : bytes) : option (bytes * bytes) :=
  let oi := match s1 with
            | 48 :: r => Some (1, r)
            | b :: r => if (49 <=? b) && (b <=? 57) then let '(_, n, r') := take_digits r 0 0 in Some (1 + n, r') else None
            | [] => None
            end in
  match oi with
  | None => None
  | Some (ni, r1) => jn_f s n0 ni r1
  end.

Lemma jnumber_stages s :
  jnumber s = let n0 := match s with 45 :: _ => 1 | _ => 0 end in jn_i s n0 (skipn (Z.to_nat n0) s).
Proof. reflexivity. Qed.

Definition jo_e (r2 : bytes) : bool :=
  match r2 with
  | [] => true
  | b :: r =>
    if (b =? 101) || (b =? 69) then
      let r' := match r with 45 :: t => t | 43 :: t => t | _ => r end in
      let '(_, n, r'') := take_digits r' 0 0 in
      negb (n =? 0) && match r'' with [] => true | _ => false end
    else false
  end.

Definition jo_f (r1 : bytes) : bool :=
  let ok_frac :=
    match r1 with
    | 46 :: r => let '(_, n, r') := take_digits r 0 0 in if n =? 0 then None else Some r'
    | _ => Some r1
    end in
  match ok_frac with
  | None => false
  | Some r2 => jo_e r2
  end.

Definition jo_i (s1 : bytes) : bool :=
  let ok_int :=
    match s1 with
    | 48 :: r => Some r
    | b :: r => if (49 <=? b) && (b <=? 57) then let '(_, _, r') := take_digits r 0 0 in Some r' else None
    | [] => None
    end in
  match ok_int with
  | None => false
  | Some r1 => jo_f r1
  end.

Lemma json_number_ok_stages s :
  json_number_ok s = jo_i (match s with 45 :: r => r | _ => s end).
Proof. reflexivity. Qed.

Definition echar (b : Z) : bool := (b =? 101) || (b =? 69).

Section NumberStages.
  Variables (s : bytes) (n0 ni nf : Z).

  Definition jn_e_tail (ns : Z) (X : bytes) : option (bytes * bytes) :=
    match (let '(_, n, r'') := take_digits X 0 0 in
           if n =? 0 then None else Some (1 + ns + n, r'')) with
    | None => None
    | Some (ne, r3) => let n := n0 + ni + nf + ne in Some (firstn (Z.to_nat n) s, r3)
    end.

  Lemma jn_e_nil : jn_e s n0 ni nf [] = Some (firstn (Z.to_nat (n0 + ni + nf + 0)) s, []).
  Proof. reflexivity. Qed.
  Lemma jn_e_other b r : echar b = false ->
    jn_e s n0 ni nf (b :: r) = Some (firstn (Z.to_nat (n0 + ni + nf + 0)) s, b :: r).
  Proof. unfold echar, jn_e. intros ->. reflexivity. Qed.
  Lemma jn_e_minus b X : echar b = true -> jn_e s n0 ni nf (b :: 45 :: X) = jn_e_tail 1 X.
  Proof. unfold echar, jn_e. intros ->. reflexivity. Qed.
  Lemma jn_e_plus b X : echar b = true -> jn_e s n0 ni nf (b :: 43 :: X) = jn_e_tail 1 X.
  Proof. unfold echar, jn_e. intros ->. reflexivity. Qed.
  Lemma jn_e_nosign b c X : echar b = true -> c <> 45 -> c <> 43 ->
    jn_e s n0 ni nf (b :: c :: X) = jn_e_tail 0 (c :: X).
  Proof. unfold echar, jn_e. intros -> H1 H2. zcase c. Qed.

  Lemma jn_e_tail_ok ns X a n rest : take_digits X 0 0 = (a, n, []) -> n <> 0 -> nodig rest ->
    jn_e_tail ns (X ++ rest) = Some (firstn (Z.to_nat (n0 + ni + nf + (1 + ns + n))) s, rest).
  Proof.
    intros E Hn Hr. apply take_digits_spec in E as (_ & _ & E & _).
    unfold jn_e_tail. rewrite (E rest Hr). destruct (Z.eqb_spec n 0); [congruence|]. reflexivity.
  Qed.
End NumberStages.

Definition jo_tail (X : bytes) : bool :=
  let '(_, n, r'') := take_digits X 0 0 in
  negb (n =? 0) && match r'' with [] => true | _ => false end.

Lemma jo_e_single b : jo_e [b] = false.
Proof. unfold jo_e. destruct ((b =? 101) || (b =? 69)); reflexivity. Qed.
Lemma jo_e_other b r : echar b = false -> jo_e (b :: r) = false.
Proof. unfold echar, jo_e. intros ->. reflexivity. Qed.
Lemma jo_e_minus b X : echar b = true -> jo_e (b :: 45 :: X) = jo_tail X.
Proof. unfold echar, jo_e. intros ->. reflexivity. Qed.
Lemma jo_e_plus b X : echar b = true -> jo_e (b :: 43 :: X) = jo_tail X.
Proof. unfold echar, jo_e. intros ->. reflexivity. Qed.
Lemma jo_e_nosign b c X : echar b = true -> c <> 45 -> c <> 43 -> jo_e (b :: c :: X) = jo_tail (c :: X).
Proof. unfold echar, jo_e. intros -> H1 H2. zcase c. Qed.

Lemma jo_tail_inv X : jo_tail X = true ->
  exists a n, take_digits X 0 0 = (a, n, []) /\ n <> 0 /\ n = blen X /\ Forall numchar X.
Proof.
  unfold jo_tail. destruct (take_digits X 0 0) as [[a n] r] eqn:E. intros H.
  apply andb_true_iff in H as [H1 H2]. destruct r; [|discriminate].
  exists a, n. apply negb_true_iff, Z.eqb_neq in H1.
  pose proof (take_digits_spec _ _ _ _ _ _ E) as (Hm & _ & _ & Hc).
  repeat split; auto. unfold blen in *. cbn [length] in Hm. lia.
Qed.

Lemma echar_numchar b : echar b = true -> numchar b.
Proof. unfold echar, numchar. intros H. apply orb_true_iff in H as [H|H]; b2p; lia. Qed.

Lemma firstn_eq (s : bytes) a b : a = b -> firstn (Z.to_nat a) s = firstn (Z.to_nat b) s.
Proof. now intros ->. Qed.

Lemma jn_e_ok r2 rest : nstop rest -> jo_e r2 = true ->
  Forall numchar r2 /\ forall s n0 ni nf,
  jn_e s n0 ni nf (r2 ++ rest) = Some (firstn (Z.to_nat (n0 + ni + nf + blen r2)) s, rest).
Proof.
  intros Hr H. pose proof (nstop_nodig _ Hr) as Hd.
  destruct r2 as [|b r].
  { split; [constructor|]. intros. cbn [app].
    destruct rest as [|x rest]; [reflexivity|].
    rewrite jn_e_other; [reflexivity|]. cbn [nstop] in Hr. destruct Hr as [->|[->| ->]]; reflexivity. }
  destruct (echar b) eqn:Eb; [|rewrite jo_e_other in H by assumption; discriminate].
  pose proof (echar_numchar b Eb) as Hbn.
  destruct r as [|c X]; [rewrite jo_e_single in H; discriminate|].
  destruct (Z.eq_dec c 45) as [->|H45]; [|destruct (Z.eq_dec c 43) as [->|H43]].
  - rewrite jo_e_minus in H by assumption.
    apply jo_tail_inv in H as (a & n & E & Hn & Hl & Hc). split.
    + constructor; [assumption|constructor; [unfold numchar; lia|assumption]].
    + intros. cbn [app]. rewrite jn_e_minus by assumption.
      rewrite (jn_e_tail_ok _ _ _ _ _ _ a n) by assumption. do 2 f_equal. apply firstn_eq.
      unfold blen in *. cbn [length]. lia.
  - rewrite jo_e_plus in H by assumption.
    apply jo_tail_inv in H as (a & n & E & Hn & Hl & Hc). split.
    + constructor; [assumption|constructor; [unfold numchar; lia|assumption]].
    + intros. cbn [app]. rewrite jn_e_plus by assumption.
      rewrite (jn_e_tail_ok _ _ _ _ _ _ a n) by assumption. do 2 f_equal. apply firstn_eq.
      unfold blen in *. cbn [length]. lia.
  - rewrite jo_e_nosign in H by assumption.
    apply jo_tail_inv in H as (a & n & E & Hn & Hl & Hc). split.
    + constructor; auto.
    + intros. cbn [app]. rewrite jn_e_nosign by assumption.
      change (c :: X ++ rest) with ((c :: X) ++ rest).
      rewrite (jn_e_tail_ok _ _ _ _ _ _ a n) by assumption. do 2 f_equal. apply firstn_eq.
      unfold blen in *. cbn [length] in *. lia.
Qed.

(* fraction stage *)
Lemma jn_f_nil s n0 ni : jn_f s n0 ni [] = jn_e s n0 ni 0 [].
Proof. reflexivity. Qed.
Lemma jn_f_other s n0 ni c X : c <> 46 -> jn_f s n0 ni (c :: X) = jn_e s n0 ni 0 (c :: X).
Proof. intros H. unfold jn_f. zcase c. Qed.
Lemma jn_f_dot s n0 ni X :
  jn_f s n0 ni (46 :: X) =
  match (let '(_, n, r') := take_digits X 0 0 in if n =? 0 then None else Some (1 + n, r')) with
  | None => None
  | Some (nf, r2) => jn_e s n0 ni nf r2
  end.
Proof. reflexivity. Qed.

Lemma jo_f_nil : jo_f [] = jo_e [].
Proof. reflexivity. Qed.
Lemma jo_f_other c X : c <> 46 -> jo_f (c :: X) = jo_e (c :: X).
Proof. intros H. unfold jo_f. zcase c. Qed.
Lemma jo_f_dot X :
  jo_f (46 :: X) =
  match (let '(_, n, r') := take_digits X 0 0 in if n =? 0 then None else Some r') with
  | None => false
  | Some r2 => jo_e r2
  end.
Proof. reflexivity. Qed.

Lemma jn_f_ok r1 rest : nstop rest -> jo_f r1 = true ->
  Forall numchar r1 /\ forall s n0 ni,
  jn_f s n0 ni (r1 ++ rest) = Some (firstn (Z.to_nat (n0 + ni + blen r1)) s, rest).
Proof.
  intros Hr H. pose proof (nstop_nodig _ Hr) as Hd.
  destruct r1 as [|c X].
  { rewrite jo_f_nil in H. destruct (jn_e_ok [] rest Hr H) as [_ HE]. split; [constructor|].
    intros. cbn [app] in *. destruct rest as [|x rest].
    - rewrite jn_f_nil, (HE s n0 ni 0). do 2 f_equal. apply firstn_eq. unfold blen; cbn [length]; lia.
    - rewrite jn_f_other by (cbn [nstop] in Hr; lia). rewrite (HE s n0 ni 0).
      do 2 f_equal. apply firstn_eq. unfold blen; cbn [length]; lia. }
  destruct (Z.eq_dec c 46) as [->|H46].
  - rewrite jo_f_dot in H. destruct (take_digits X 0 0) as [[a n] r'] eqn:E.
    destruct (Z.eqb_spec n 0) as [|Hn]; [discriminate|].
    destruct (jn_e_ok r' rest Hr H) as [HC HE].
    pose proof (take_digits_spec _ _ _ _ _ _ E) as (Hm & _ & Happ & Hc). split.
    + constructor; [unfold numchar; lia|auto].
    + intros. cbn [app]. rewrite jn_f_dot, (Happ rest Hd).
      destruct (Z.eqb_spec n 0); [congruence|]. rewrite HE. do 2 f_equal. apply firstn_eq.
      unfold blen in *. cbn [length]. lia.
  - rewrite jo_f_other in H by assumption.
    destruct (jn_e_ok (c :: X) rest Hr H) as [HC HE]. split; [assumption|].
    intros. cbn [app]. rewrite jn_f_other by assumption.
    change (c :: X ++ rest) with ((c :: X) ++ rest). rewrite HE.
    do 2 f_equal. apply firstn_eq. lia.
Qed.

(* integer stage *)
Lemma jn_i_zero s n0 X : jn_i s n0 (48 :: X) = jn_f s n0 1 X.
Proof. reflexivity. Qed.
Lemma jn_i_digit s n0 b X : 49 <= b <= 57 ->
  jn_i s n0 (b :: X) =
  match (let '(_, n, r') := take_digits X 0 0 in Some (1 + n, r')) with
  | None => None
  | Some (ni, r1) => jn_f s n0 ni r1
  end.
Proof. intros H. unfold jn_i. zcase b. Qed.

Lemma jo_i_zero X : jo_i (48 :: X) = jo_f X.
Proof. reflexivity. Qed.
Lemma jo_i_digit b X : 49 <= b <= 57 ->
  jo_i (b :: X) =
  match (let '(_, _, r') := take_digits X 0 0 in Some r') with
  | None => false
  | Some r1 => jo_f r1
  end.
Proof. intros H. unfold jo_i. zcase b. Qed.
Lemma jo_i_other b X : ~ 48 <= b <= 57 -> jo_i (b :: X) = false.
Proof. intros H. unfold jo_i. zcase b. Qed.

Lemma jn_i_ok s1 rest : nstop rest -> jo_i s1 = true ->
  Forall numchar s1 /\ (exists b r, s1 = b :: r /\ 48 <= b <= 57) /\ forall s n0,
  jn_i s n0 (s1 ++ rest) = Some (firstn (Z.to_nat (n0 + blen s1)) s, rest).
Proof.
  intros Hr H. pose proof (nstop_nodig _ Hr) as Hd.
  destruct s1 as [|b X]; [discriminate|].
  destruct (Z.eq_dec b 48) as [->|H48].
  - rewrite jo_i_zero in H. destruct (jn_f_ok X rest Hr H) as [HC HF]. split; [|split].
    + constructor; [unfold numchar; lia|auto].
    + eexists _, _; split; [reflexivity|lia].
    + intros. cbn [app]. rewrite jn_i_zero, HF. do 2 f_equal. apply firstn_eq.
      unfold blen; cbn [length]; lia.
  - destruct (Z_le_dec 49 b); [destruct (Z_le_dec b 57)|].
    2,3: rewrite jo_i_other in H by lia; discriminate.
    rewrite jo_i_digit in H by lia. destruct (take_digits X 0 0) as [[a n] r'] eqn:E.
    destruct (jn_f_ok r' rest Hr H) as [HC HF].
    pose proof (take_digits_spec _ _ _ _ _ _ E) as (Hm & _ & Happ & Hc). split; [|split].
    + constructor; [unfold numchar; lia|auto].
    + eexists _, _; split; [reflexivity|lia].
    + intros. cbn [app]. rewrite jn_i_digit by lia. rewrite (Happ rest Hd), HF.
      do 2 f_equal. apply firstn_eq. unfold blen in *; cbn [length]; lia.
Qed.

Lemma jnumber_cons_minus X : jnumber (45 :: X) = jn_i (45 :: X) 1 X.
Proof. reflexivity. Qed.
Lemma jnumber_cons_other b X : b <> 45 -> jnumber (b :: X) = jn_i (b :: X) 0 (b :: X).
Proof. intros H. rewrite jnumber_stages. zcase b. Qed.
Lemma json_number_ok_minus X : json_number_ok (45 :: X) = jo_i X.
Proof. reflexivity. Qed.
Lemma json_number_ok_other b X : b <> 45 -> json_number_ok (b :: X) = jo_i (b :: X).
Proof. intros H. rewrite json_number_ok_stages. zcase b. Qed.

Lemma firstn_blen (t rest : bytes) : firstn (Z.to_nat (blen t)) (t ++ rest) = t.
Proof. unfold blen. rewrite Nat2Z.id. apply firstn_len_app. Qed.

Theorem jnumber_ok t rest : json_number_ok t = true -> nstop rest ->
  jnumber (t ++ rest) = Some (t, rest) /\ Forall numchar t /\
  exists b r, t = b :: r /\ (b = 45 \/ 48 <= b <= 57).
Proof.
  intros H Hr. destruct t as [|b X]; [discriminate|].
  destruct (Z.eq_dec b 45) as [->|H45].
  - rewrite json_number_ok_minus in H. destruct (jn_i_ok X rest Hr H) as (HC & _ & HI).
    split; [|split].
    + cbn [app]. rewrite jnumber_cons_minus, HI.
      replace (1 + blen X) with (blen (45 :: X)) by (unfold blen; cbn [length]; lia).
      change (45 :: X ++ rest) with ((45 :: X) ++ rest). now rewrite firstn_blen.
    + constructor; [unfold numchar; lia|auto].
    + eexists _, _; split; [reflexivity|lia].
  - rewrite json_number_ok_other in H by assumption.
    destruct (jn_i_ok (b :: X) rest Hr H) as (HC & (b' & r' & E & Hb') & HI).
    inversion E; subst b' r'. split; [|split]; auto.
    + cbn [app]. rewrite jnumber_cons_other by assumption.
      change (b :: X ++ rest) with ((b :: X) ++ rest). rewrite HI.
      now rewrite Z.add_0_l, firstn_blen.
    + eexists _, _; split; [reflexivity|lia].
Qed.

(* ---- JSON values ---- *)

Section ValueInd.
  Variable P : value -> Prop.
  Hypothesis Hnull : P VNull.
  Hypothesis Hbool : forall b, P (VBool b).
  Hypothesis Hstr : forall s, P (VStr s).
  Hypothesis Hnum : forall n, P (VNum n).
  Hypothesis Harr : forall l, Forall P l -> P (VArr l).
  Hypothesis Hobj : forall m, Forall (fun kv => P (snd kv)) m -> P (VObj m).
  Hypothesis Hfor : forall t, P (VForeign t).

  Fixpoint value_ind_nested (v : value) : P v :=
    match v with
    | VNull => Hnull
    | VBool b => Hbool b
    | VStr s => Hstr s
    | VNum n => Hnum n
    | VArr l => Harr l ((fix go (l : list value) : Forall P l :=
                           match l with
                           | [] => Forall_nil _
                           | x :: r => Forall_cons x (value_ind_nested x) (go r)
                           end) l)
    | VObj m => Hobj m ((fix go (m : list (bytes * value)) : Forall (fun kv => P (snd kv)) m :=
                           match m with
                           | [] => Forall_nil _
                           | kv :: r => Forall_cons (P := fun kv => P (snd kv)) kv (value_ind_nested (snd kv)) (go r)
                           end) m)
    | VForeign t => Hfor t
    end.
End ValueInd.

(* strings that are byte strings and valid UTF-8 *)
Definition str_ok (s : bytes) : bool := bytes_ok s && valid_utf8 s.

Lemma str_ok_inv s : str_ok s = true -> exists cs, scalars cs /\ s = encode_all cs.
Proof.
  unfold str_ok. intros H. apply andb_true_iff in H as [H1 H2]. now apply valid_utf8_iff.
Qed.

(* JSON values that can be written as a literal: strings and keys valid UTF-8,
   numbers json.Number texts obeying the JSON grammar, unique keys, nesting
   within the decoder's limit (containers at depth d .. ) *)
Fixpoint json_text_ok_at (d : Z) (v : value) : bool :=
  match v with
  | VNull | VBool _ => true
  | VStr s => str_ok s
  | VNum (NJson t) => json_number_ok t
  | VNum _ => false
  | VArr l => (d <? 10000) && forallb (json_text_ok_at (d + 1)) l
  | VObj m => (d <? 10000) && nodup_keys m
              && forallb (fun kv => str_ok (fst kv) && json_text_ok_at (d + 1) (snd kv)) m
  | VForeign _ => false
  end.
Definition json_text_ok (v : value) : bool := json_text_ok_at 0 v.

(* the first byte of a JSON text *)
Definition vhead (b : Z) : Prop :=
  b = 110 \/ b = 116 \/ b = 102 \/ b = 34 \/ b = 91 \/ b = 123 \/ b = 45 \/ 48 <= b <= 57.

Lemma lit_text_head d v : json_text_ok_at d v = true -> exists b r, lit_text v = b :: r /\ vhead b.
Proof.
  unfold vhead. destruct v as [|[|]|s|[t|?|? ?|? ?]|l|m|t]; cbn [json_text_ok_at lit_text]; intros H; try discriminate;
    try (eexists _, _; split; [reflexivity|lia]).
  destruct (jnumber_ok t [] H I) as (_ & _ & b & r & E & Hb). exists b, r. split; [assumption|lia].
Qed.

(* the local loops of jvalue as functions of the recursive call *)
Definition jelems (jv : bytes -> option (value * bytes)) :=
  fix elems (k : nat) (s : bytes) (acc : list value) : option (value * bytes) :=
    match k with
    | O => None
    | S k' =>
      match jv s with
      | None => None
      | Some (v, s1) =>
        match skipws s1 with
        | 44 :: s2 => elems k' s2 (v :: acc)
        | 93 :: s2 => Some (VArr (rev (v :: acc)), s2)
        | _ => None
        end
      end
    end.

Definition jmembers (jv : bytes -> option (value * bytes)) :=
  fix members (k : nat) (s : bytes) (acc : list (bytes * value)) : option (value * bytes) :=
    match k with
    | O => None
    | S k' =>
      match skipws s with
      | 34 :: sk =>
        match jstring (S (length sk)) sk [] with
        | None => None
        | Some (key, s1) =>
          match skipws s1 with
          | 58 :: s2 =>
            match jv s2 with
            | None => None
            | Some (v, s3) =>
              match skipws s3 with
              | 44 :: s4 => members k' s4 (assoc_set key v acc)
              | 125 :: s4 => Some (VObj (assoc_set key v acc), s4)
              | _ => None
              end
            end
          | _ => None
          end
        end
      | _ => None
      end
    end.

Lemma jvalue_str f d r :
  jvalue (S f) d (34 :: r) =
  match jstring (S (length r)) r [] with Some (str, r') => Some (VStr str, r') | None => None end.
Proof. reflexivity. Qed.

Lemma jvalue_arr_nil f d r : d < 10000 -> jvalue (S f) d (91 :: 93 :: r) = Some (VArr [], r).
Proof.
  intros H. cbn [jvalue skipws jws Z.eqb Pos.eqb orb].
  destruct (Z.geb_spec d 10000); [lia|reflexivity].
Qed.

Lemma jvalue_arr_cons f d b r : d < 10000 -> vhead b ->
  jvalue (S f) d (91 :: b :: r) = jelems (jvalue f (d + 1)) f (b :: r) [].
Proof.
  intros H Hb. cbn [jvalue skipws jws Z.eqb Pos.eqb orb].
  destruct (Z.geb_spec d 10000); [lia|].
  unfold vhead in Hb. destruct Hb as [->|[->|[->|[->|[->|[->|[->|Hb]]]]]]]; try reflexivity.
  assert (D : b = 48 \/ b = 49 \/ b = 50 \/ b = 51 \/ b = 52 \/ b = 53 \/ b = 54 \/ b = 55 \/ b = 56 \/ b = 57) by lia.
  destruct D as [->|[->|[->|[->|[->|[->|[->|[->|[->| ->]]]]]]]]]; reflexivity.
Qed.

Lemma jvalue_obj_nil f d r : d < 10000 -> jvalue (S f) d (123 :: 125 :: r) = Some (VObj [], r).
Proof.
  intros H. cbn [jvalue skipws jws Z.eqb Pos.eqb orb].
  destruct (Z.geb_spec d 10000); [lia|reflexivity].
Qed.

Lemma jvalue_obj_cons f d r : d < 10000 ->
  jvalue (S f) d (123 :: 34 :: r) = jmembers (jvalue f (d + 1)) f (34 :: r) [].
Proof.
  intros H. cbn [jvalue skipws jws Z.eqb Pos.eqb orb].
  destruct (Z.geb_spec d 10000); [lia|reflexivity].
Qed.

Lemma jvalue_num f d b r : b = 45 \/ 48 <= b <= 57 ->
  jvalue (S f) d (b :: r) =
  match jnumber (b :: r) with Some (t, r') => Some (VNum (NJson t), r') | None => None end.
Proof.
  intros Hb.
  assert (D : b = 45 \/ b = 48 \/ b = 49 \/ b = 50 \/ b = 51 \/ b = 52 \/ b = 53 \/ b = 54 \/ b = 55 \/ b = 56 \/ b = 57) by lia.
  destruct D as [->|[->|[->|[->|[->|[->|[->|[->|[->|[->| ->]]]]]]]]]]; reflexivity.
Qed.

Lemma intercalate_cons2 sep (a b : bytes) c :
  intercalate sep (a :: b :: c) = a ++ sep ++ intercalate sep (b :: c).
Proof. reflexivity. Qed.

Lemma intercalate_length_in sep (ys : list bytes) y : In y ys -> (length y <= length (intercalate sep ys))%nat.
Proof.
  induction ys as [|a ys IH]; [contradiction|]. intros [->|Hin].
  - destruct ys; [apply le_n|]. rewrite intercalate_cons2, app_length. lia.
  - destruct ys as [|b ys]; [contradiction|]. rewrite intercalate_cons2, !app_length.
    specialize (IH Hin). lia.
Qed.

Lemma intercalate_length_count sep (ys : list bytes) :
  (forall y, In y ys -> (1 <= length y)%nat) -> (length ys <= length (intercalate sep ys))%nat.
Proof.
  induction ys as [|a ys IH]; intros H; [apply le_n|].
  destruct ys as [|b ys].
  - cbn [intercalate length]. apply H. now left.
  - rewrite intercalate_cons2, !app_length.
    pose proof (H a (or_introl eq_refl)).
    assert ((length (b :: ys) <= length (intercalate sep (b :: ys)))%nat)
      by (apply IH; intros y Hy; apply H; now right).
    cbn [length] in *. lia.
Qed.

Lemma intercalate_head sep (a : bytes) ys b r : a = b :: r -> exists r', intercalate sep (a :: ys) = b :: r'.
Proof.
  intros ->. destruct ys; [eexists; reflexivity|]. rewrite intercalate_cons2. eexists; reflexivity.
Qed.

Lemma jelems_S jv k s acc :
  jelems jv (S k) s acc =
  match jv s with
  | None => None
  | Some (v, s1) =>
    match skipws s1 with
    | 44 :: s2 => jelems jv k s2 (v :: acc)
    | 93 :: s2 => Some (VArr (rev (v :: acc)), s2)
    | _ => None
    end
  end.
Proof. reflexivity. Qed.

Lemma jelems_ok jv : forall l, l <> [] ->
  Forall (fun x => forall rest, nstop rest -> jv (lit_text x ++ rest) = Some (x, rest)) l ->
  forall k acc rest, (length l <= k)%nat ->
  jelems jv k (intercalate [44] (map lit_text l) ++ 93 :: rest) acc = Some (VArr (rev acc ++ l), rest).
Proof.
  induction l as [|x l IH]; [congruence|]. intros _ HF k acc rest Hk.
  inversion HF as [|? ? Hx HF']; subst.
  destruct k as [|k]; [cbn in Hk; lia|]. rewrite jelems_S.
  destruct l as [|y l].
  - cbn [map intercalate]. rewrite Hx by (cbn; auto). reflexivity.
  - cbn [map]. rewrite intercalate_cons2, <- !app_assoc. cbn [app].
    rewrite Hx by (cbn; auto). cbn [skipws jws Z.eqb Pos.eqb orb].
    change (lit_text y :: map lit_text l) with (map lit_text (y :: l)).
    rewrite IH; [|discriminate|assumption|cbn [length] in *; lia].
    cbn [rev]. now rewrite <- app_assoc.
Qed.

Lemma jmembers_S jv k s acc :
  jmembers jv (S k) s acc =
  match skipws s with
  | 34 :: sk =>
    match jstring (S (length sk)) sk [] with
    | None => None
    | Some (key, s1) =>
      match skipws s1 with
      | 58 :: s2 =>
        match jv s2 with
        | None => None
        | Some (v, s3) =>
          match skipws s3 with
          | 44 :: s4 => jmembers jv k s4 (assoc_set key v acc)
          | 125 :: s4 => Some (VObj (assoc_set key v acc), s4)
          | _ => None
          end
        end
      | _ => None
      end
    end
  | _ => None
  end.
Proof. reflexivity. Qed.

Lemma jmembers_step jv k cs s2 v s3 acc : scalars cs -> jv s2 = Some (v, s3) ->
  jmembers jv (S k) (34 :: qescape (encode_all cs) ++ 34 :: 58 :: s2) acc =
  match skipws s3 with
  | 44 :: s4 => jmembers jv k s4 (assoc_set (encode_all cs) v acc)
  | 125 :: s4 => Some (VObj (assoc_set (encode_all cs) v acc), s4)
  | _ => None
  end.
Proof.
  intros Hcs Hjv. rewrite jmembers_S. cbn [skipws jws Z.eqb Pos.eqb orb].
  rewrite jstring_qescape_len by assumption. cbn [skipws jws Z.eqb Pos.eqb orb].
  rewrite Hjv. reflexivity.
Qed.

Lemma assoc_app_none {A} k (a b : list (bytes * A)) :
  assoc k (a ++ b) = None -> assoc k a = None /\ assoc k b = None.
Proof.
  induction a as [|[k0 v0] a IH]; cbn [app assoc]; [auto|].
  destruct (beqb k k0); [discriminate|auto].
Qed.

Lemma beqb_sym a b : beqb a b = beqb b a.
Proof.
  destruct (beqb a b) eqn:E.
  - apply beqb_eq in E. subst. symmetry. apply beqb_refl.
  - destruct (beqb b a) eqn:E'; [|reflexivity]. apply beqb_eq in E'. subst. now rewrite beqb_refl in E.
Qed.

Lemma nodup_keys_mid {A} (acc : list (bytes * A)) k v m :
  nodup_keys (acc ++ (k, v) :: m) = true -> assoc k acc = None.
Proof.
  induction acc as [|[k0 v0] acc IH]; [reflexivity|]. cbn [app nodup_keys assoc].
  destruct (assoc k0 (acc ++ (k, v) :: m)) eqn:E; [discriminate|]. intros H.
  apply assoc_app_none in E as [_ E]. cbn [assoc] in E.
  rewrite beqb_sym. destruct (beqb k0 k); [discriminate|auto].
Qed.

Lemma assoc_set_new {A} k (v : A) acc : assoc k acc = None -> assoc_set k v acc = acc ++ [(k, v)].
Proof.
  induction acc as [|[k0 v0] acc IH]; [reflexivity|]. cbn [assoc assoc_set app].
  destruct (beqb k k0); [discriminate|]. intros H. now rewrite IH.
Qed.

Definition member_text (kv : bytes * value) : bytes :=
  (34 :: qescape (fst kv) ++ [34]) ++ 58 :: lit_text (snd kv).

Lemma jmembers_ok jv : forall m, m <> [] ->
  Forall (fun kv => str_ok (fst kv) = true /\
                    forall rest, nstop rest -> jv (lit_text (snd kv) ++ rest) = Some (snd kv, rest)) m ->
  forall k acc rest, (length m <= k)%nat -> nodup_keys (acc ++ m) = true ->
  jmembers jv k (intercalate [44] (map member_text m) ++ 125 :: rest) acc = Some (VObj (acc ++ m), rest).
Proof.
  induction m as [|[key v] m IH]; [congruence|]. intros _ HF k acc rest Hk Hnd.
  inversion HF as [|? ? [Hkey Hv] HF']; subst. cbn [fst snd] in *.
  destruct (str_ok_inv key Hkey) as (cs & Hcs & ->).
  destruct k as [|k]; [cbn in Hk; lia|].
  pose proof (nodup_keys_mid _ _ _ _ Hnd) as Hnew.
  destruct m as [|kv2 m].
  - cbn [map intercalate]. unfold member_text. cbn [fst snd app].
    repeat (rewrite <- app_assoc; cbn [app]).
    erewrite jmembers_step; [|assumption|apply Hv; cbn; auto].
    cbn [skipws jws Z.eqb Pos.eqb orb]. now rewrite assoc_set_new.
  - cbn [map]. rewrite intercalate_cons2. unfold member_text at 1. cbn [fst snd app].
    repeat (rewrite <- app_assoc; cbn [app]).
    erewrite jmembers_step; [|assumption|apply Hv; cbn; auto].
    cbn [skipws jws Z.eqb Pos.eqb orb]. rewrite assoc_set_new by assumption.
    change (member_text kv2 :: map member_text m) with (map member_text (kv2 :: m)).
    rewrite IH; [|discriminate|assumption|cbn [length] in *; lia|now rewrite <- app_assoc].
    now rewrite <- app_assoc.
Qed.

Lemma lit_text_obj m : lit_text (VObj m) = 123 :: intercalate [44] (map member_text m) ++ [125].
Proof. reflexivity. Qed.
Lemma lit_text_arr l : lit_text (VArr l) = 91 :: intercalate [44] (map lit_text l) ++ [93].
Proof. reflexivity. Qed.

Lemma lit_text_nonempty d v : json_text_ok_at d v = true -> (1 <= length (lit_text v))%nat.
Proof. intros H. destruct (lit_text_head d v H) as (b & r & -> & _). cbn [length]. lia. Qed.

Definition jvalue_inverts (v : value) : Prop :=
  forall d fuel rest, json_text_ok_at d v = true -> (length (lit_text v) <= fuel)%nat -> nstop rest ->
  jvalue fuel d (lit_text v ++ rest) = Some (v, rest).

Lemma jvalue_lit_text : forall v, jvalue_inverts v.
Proof.
  induction v as [|b|s|n|l IH|m IH|t] using value_ind_nested; intros d fuel rest H Hf Hr.
  - destruct fuel as [|f]; [cbn in Hf; lia|]. reflexivity.
  - destruct fuel as [|f]; [destruct b; cbn in Hf; lia|]. destruct b; reflexivity.
  - cbn [json_text_ok_at] in H. destruct (str_ok_inv s H) as (cs & Hcs & ->).
    destruct fuel as [|f]; [cbn in Hf; lia|].
    cbn [lit_text app]. rewrite <- app_assoc. cbn [app].
    rewrite jvalue_str, jstring_qescape_len by assumption. reflexivity.
  - destruct n as [t|?|? ?|? ?]; try discriminate. cbn [json_text_ok_at] in H. cbn [lit_text] in *.
    destruct (jnumber_ok t rest H Hr) as (E & _ & b & r & Et & Hb).
    destruct fuel as [|f]; [rewrite Et in Hf; cbn in Hf; lia|].
    rewrite Et at 1. cbn [app]. rewrite jvalue_num by assumption.
    change (b :: r ++ rest) with ((b :: r) ++ rest). rewrite <- Et, E. reflexivity.
  - cbn [json_text_ok_at] in H. apply andb_true_iff in H as [Hd Hl]. apply Z.ltb_lt in Hd.
    rewrite lit_text_arr in *. destruct fuel as [|f]; [cbn in Hf; lia|].
    cbn [length] in Hf. rewrite app_length in Hf. cbn [length] in Hf.
    destruct l as [|x l].
    { cbn [map intercalate app]. now apply jvalue_arr_nil. }
    assert (Hx : json_text_ok_at (d + 1) x = true) by (cbn [forallb] in Hl; apply andb_true_iff in Hl; tauto).
    destruct (lit_text_head _ _ Hx) as (b & r & Ex & Hb).
    destruct (intercalate_head [44] (lit_text x) (map lit_text l) b r Ex) as (r' & Er').
    cbn [app]. rewrite <- app_assoc. cbn [app map]. rewrite Er'. cbn [app].
    rewrite jvalue_arr_cons by assumption.
    change (b :: r' ++ 93 :: rest) with ((b :: r') ++ 93 :: rest). rewrite <- Er'.
    change (lit_text x :: map lit_text l) with (map lit_text (x :: l)) in *.
    rewrite jelems_ok; [reflexivity|discriminate| |].
    + rewrite forallb_forall in Hl. rewrite Forall_forall in *. intros y Hy rest' Hr'.
      apply IH; auto. pose proof (intercalate_length_in [44] (map lit_text (x :: l)) (lit_text y) (in_map _ _ _ Hy)).
      lia.
    + pose proof (intercalate_length_count [44] (map lit_text (x :: l))) as Hc.
      rewrite map_length in Hc. rewrite forallb_forall in Hl.
      assert (Hall : forall y, In y (map lit_text (x :: l)) -> (1 <= length y)%nat).
      { intros y Hy. apply in_map_iff in Hy as (z & <- & Hz). eapply lit_text_nonempty, Hl, Hz. }
      specialize (Hc Hall). cbn [length] in *. lia.
  - cbn [json_text_ok_at] in H. apply andb_true_iff in H as [H Hl]. apply andb_true_iff in H as [Hd Hnd].
    apply Z.ltb_lt in Hd.
    rewrite lit_text_obj in *. destruct fuel as [|f]; [cbn in Hf; lia|].
    cbn [length] in Hf. rewrite app_length in Hf. cbn [length] in Hf.
    destruct m as [|kv m].
    { cbn [map intercalate app]. now apply jvalue_obj_nil. }
    assert (Er' : exists r', intercalate [44] (map member_text (kv :: m)) = 34 :: r').
    { cbn [map]. eapply intercalate_head. reflexivity. }
    destruct Er' as (r' & Er').
    cbn [app]. rewrite <- app_assoc. cbn [app]. rewrite Er'. cbn [app].
    rewrite jvalue_obj_cons by assumption.
    change (34 :: r' ++ 125 :: rest) with ((34 :: r') ++ 125 :: rest). rewrite <- Er'.
    rewrite (jmembers_ok _ (kv :: m)) with (acc := []); [reflexivity|discriminate| | |exact Hnd].
    + rewrite forallb_forall in Hl. rewrite Forall_forall in *. intros y Hy.
      specialize (Hl y Hy). apply andb_true_iff in Hl as [Hk Hv]. split; [assumption|].
      intros rest' Hr'. apply IH; auto.
      pose proof (intercalate_length_in [44] (map member_text (kv :: m)) (member_text y) (in_map _ _ _ Hy)) as Hlen.
      unfold member_text at 1 in Hlen. rewrite app_length in Hlen. cbn [length] in Hlen. lia.
    + pose proof (intercalate_length_count [44] (map member_text (kv :: m))) as Hc.
      rewrite map_length in Hc.
      assert (Hall : forall y, In y (map member_text (kv :: m)) -> (1 <= length y)%nat).
      { intros y Hy. apply in_map_iff in Hy as (z & <- & Hz). unfold member_text. cbn [app length]. lia. }
      specialize (Hc Hall). cbn [length] in *. lia.
  - discriminate.
Qed.

(* D, first half: the JSON decoder inverts lit_text *)
Theorem json_parse_lit_text : forall v, json_text_ok v = true -> json_parse (lit_text v) = Some v.
Proof.
  intros v H. unfold json_parse.
  pose proof (jvalue_lit_text v 0 (S (length (lit_text v))) [] H ltac:(lia) I) as E.
  rewrite app_nil_r in E. rewrite E. reflexivity.
Qed.

(* ---- the backtick token: lexing and parsing ---- *)

(* JSON text as the lexer sees it: code points and backslash + ASCII pairs,
   the escaped character never a backtick *)
Definition jtext : bytes -> Prop := gbody (fun _ => True) q_esc.

Lemma jtext_bytes s : Forall (fun b => 0 <= b < 128 /\ b <> 92) s -> jtext s.
Proof.
  induction 1 as [|b s [H1 H2] _ IH]; [constructor|]. apply GB_byte; auto.
Qed.

Lemma jtext_app a b : jtext a -> jtext b -> jtext (a ++ b).
Proof. apply gbody_app. Qed.

Lemma jtext_cons b s : 0 <= b < 128 -> b <> 92 -> jtext s -> jtext (b :: s).
Proof. intros. apply GB_byte; auto. Qed.

Lemma jtext_intercalate sep l : jtext sep -> Forall jtext l -> jtext (intercalate sep l).
Proof.
  intros Hs. induction 1 as [|x l Hx Hl IH]; [constructor|].
  destruct l as [|y l]; [assumption|]. rewrite intercalate_cons2. auto using jtext_app.
Qed.

Lemma jtext_quoted s : str_ok s = true -> jtext (34 :: qescape s ++ [34]).
Proof.
  intros H. destruct (str_ok_inv s H) as (cs & Hcs & ->).
  apply jtext_cons; [lia|lia|]. apply jtext_app; [|apply jtext_cons; [lia|lia|constructor]].
  eapply gbody_mono; [| |apply gbody_qescape, Hcs]; auto.
Qed.

Lemma numchar_plain b : numchar b -> 0 <= b < 128 /\ b <> 92.
Proof. unfold numchar. lia. Qed.

Lemma jtext_lit_text : forall v d, json_text_ok_at d v = true -> jtext (lit_text v).
Proof.
  induction v as [|b|s|n|l IH|m IH|t] using value_ind_nested; intros d H.
  - apply jtext_bytes. repeat (apply Forall_cons; [lia|]). apply Forall_nil.
  - destruct b; apply jtext_bytes; repeat (apply Forall_cons; [lia|]); apply Forall_nil.
  - apply jtext_quoted, H.
  - destruct n as [t|?|? ?|? ?]; try discriminate. cbn [json_text_ok_at lit_text] in *.
    destruct (jnumber_ok t [] H I) as (_ & Hc & _). apply jtext_bytes.
    eapply Forall_impl; [|exact Hc]. apply numchar_plain.
  - cbn [json_text_ok_at] in H. apply andb_true_iff in H as [_ Hl]. rewrite forallb_forall in Hl.
    rewrite lit_text_arr. apply jtext_cons; [lia|lia|].
    apply jtext_app; [|apply jtext_cons; [lia|lia|constructor]].
    apply jtext_intercalate; [apply jtext_cons; [lia|lia|constructor]|].
    rewrite Forall_forall in *. intros y Hy. apply in_map_iff in Hy as (x & <- & Hx).
    eapply IH; eauto.
  - cbn [json_text_ok_at] in H. apply andb_true_iff in H as [_ Hl]. rewrite forallb_forall in Hl.
    rewrite lit_text_obj. apply jtext_cons; [lia|lia|].
    apply jtext_app; [|apply jtext_cons; [lia|lia|constructor]].
    apply jtext_intercalate; [apply jtext_cons; [lia|lia|constructor]|].
    rewrite Forall_forall in *. intros y Hy. apply in_map_iff in Hy as (x & <- & Hx).
    specialize (Hl x Hx). apply andb_true_iff in Hl as [Hk Hv].
    unfold member_text. apply jtext_app; [apply jtext_quoted, Hk|].
    apply jtext_cons; [lia|lia|]. eapply IH; eauto.
  - discriminate.
Qed.

Lemma btick_escape_enc c : scalar_ok c = true -> c <> 96 -> btick_escape (encode_rune c) = encode_rune c.
Proof.
  intros Hc H. destruct (encode_rune_shape c Hc); rewrite ?btick_escape_cons; ztests; reflexivity.
Qed.

Lemma ebody_btick_escape (okp : Z -> Prop) t : gbody okp q_esc t -> ebody 96 (btick_escape t).
Proof.
  unfold ebody. induction 1 as [|c b Hc _ H92 _ IH|c b Hc [Hr H96] _ IH]; [constructor| |].
  - rewrite btick_escape_app. destruct (Z.eq_dec c 96) as [->|H96].
    + apply (GB_esc_byte _ _ 96); [lia|exact I|assumption].
    + rewrite btick_escape_enc by assumption. apply GB_plain; auto.
  - rewrite encode_rune_ascii by assumption. cbn [app]. rewrite !btick_escape_cons.
    destruct (Z.eqb_spec c 96); [congruence|]. cbn [Z.eqb Pos.eqb].
    apply GB_esc_byte; auto.
Qed.

Theorem lex_json_literal : forall v, json_text_ok v = true ->
  let tok := 96 :: btick_escape (lit_text v) ++ [96] in
  lex_all tok = [ITok (Tok TJSONLiteral tok); ITok (Tok TEnd [])].
Proof.
  intros v H tok. apply lex_all_single; try discriminate.
  apply lex_next_delimited; try lia; [|apply lex_next_96].
  eapply ebody_btick_escape, jtext_lit_text, H.
Qed.

Lemma node_of_value_ok d v : json_text_ok_at d v = true -> exists n, node_of_value v = Some n.
Proof.
  destruct v as [|b|s|[t|?|? ?|? ?]|l|m|t]; cbn [json_text_ok_at node_of_value]; intros H;
    try discriminate; eexists; reflexivity.
Qed.

Lemma parse_json_literal_lit_text v n : json_text_ok v = true -> node_of_value v = Some n ->
  parse_json_literal (96 :: btick_escape (lit_text v) ++ [96]) = Ok n.
Proof.
  intros H Hn. unfold parse_json_literal. rewrite inner_delim, unescape_btick.
  pose proof (json_parse_lit_text v H) as J.
  destruct (lit_text_head 0 v H) as (b & r & E & _). rewrite E in *.
  rewrite J, Hn. reflexivity.
Qed.

(* D, second half: a JSON literal expression denotes its value *)
Theorem parse_json_literal_roundtrip : forall v, json_text_ok v = true ->
  exists n, node_of_value v = Some n /\
            parse (96 :: btick_escape (lit_text v) ++ [96]) = Ok n.
Proof.
  intros v H. destruct (node_of_value_ok 0 v H) as (n & Hn). exists n. split; [assumption|].
  unfold parse. pose proof (lex_json_literal v H) as L. cbv zeta in L. rewrite L.
  destruct (parse_fuel_ge (96 :: btick_escape (lit_text v) ++ [96])) as [k ->].
  apply parse_items_json, parse_json_literal_lit_text; assumption.
Qed.

(* ================================================================== *)
(* Consequences at the evaluation level                                *)
(* ================================================================== *)

Lemma evaluate_node_of_value v n data : node_of_value v = Some n -> evaluate n data = Ok v.
Proof.
  destruct v as [|b|s|[t|?|? ?|? ?]|l|m|t]; cbn [node_of_value]; intros H; inversion H; reflexivity.
Qed.

(* 'rescape s' evaluates to the string s on any input *)
Corollary eval_raw_string : forall cs data, scalars cs -> let s := encode_all cs in
  (do n <- parse (39 :: rescape s ++ [39]); evaluate n data) = Ok (VStr s).
Proof. intros cs data H s. pose proof (parse_raw_string cs H) as E. cbv zeta in E. fold s in E. now rewrite E. Qed.

(* "qescape s" selects the member named s *)
Corollary eval_quoted_identifier : forall cs data, scalars cs -> let s := encode_all cs in
  (do n <- parse (34 :: qescape s ++ [34]); evaluate n data) = Ok (field s data).
Proof.
  intros cs data H s. pose proof (parse_quoted_identifier_roundtrip cs H) as E. cbv zeta in E. fold s in E.
  now rewrite E.
Qed.

Corollary eval_quoted_identifier_member : forall cs m, scalars cs -> let s := encode_all cs in
  (do n <- parse (34 :: qescape s ++ [34]); evaluate n (VObj m))
  = Ok (match assoc s m with Some x => x | None => VNull end).
Proof. intros cs m H. apply (eval_quoted_identifier cs (VObj m) H). Qed.

(* `lit_text v` evaluates to v on any input *)
Corollary eval_json_literal : forall v data, json_text_ok v = true ->
  (do n <- parse (96 :: btick_escape (lit_text v) ++ [96]); evaluate n data) = Ok v.
Proof.
  intros v data H. destruct (parse_json_literal_roundtrip v H) as (n & Hn & ->).
  cbn [bind]. eapply evaluate_node_of_value, Hn.
Qed.

(* ================================================================== *)
(* Boundaries of the round trip (checked by computation)               *)
(* ================================================================== *)

(* the byte-level inverse holds for any bytes, but the lexer only accepts valid
   UTF-8: the one-byte string ff cannot be written as a literal *)
Example invalid_utf8_not_literal :
  raw_unescape (rescape [255]) = [255] /\ parse (39 :: rescape [255] ++ [39]) = Err ELexInvalidRune.
Proof. split; vm_compute; reflexivity. Qed.

(* U+FFFD itself (ef bf bd) is an ordinary code point *)
Example replacement_char_literal : parse [39; 239; 191; 189; 39] = Ok (NString [239; 191; 189]).
Proof. vm_compute. reflexivity. Qed.

(* escapes qescape never writes: a lone high surrogate.  In a quoted identifier
   "\ud800" is an error where the JSON decoder gives U+FFFD, and in
   "\ud800\u0041" the second escape is swallowed: the identifier is U+FFFD,
   the JSON string is U+FFFD followed by A *)
Example lone_surrogate_quoted :
  parse [34;92;117;100;56;48;48;34] = Err (EInvalidQuoted [34;92;117;100;56;48;48;34])
  /\ json_parse [34;92;117;100;56;48;48;34] = Some (VStr [239; 191; 189]).
Proof. split; vm_compute; reflexivity. Qed.
Example lone_surrogate_swallows_next_escape :
  parse [34;92;117;100;56;48;48;92;117;48;48;52;49;34] = Ok (NField [239; 191; 189])
  /\ json_parse [34;92;117;100;56;48;48;92;117;48;48;52;49;34] = Some (VStr [239; 191; 189; 65]).
Proof. split; vm_compute; reflexivity. Qed.

(* json_text_ok is needed: duplicate keys collapse (last value, first position),
   a number text outside the grammar is not read back *)
Example duplicate_keys_collapse :
  json_parse (lit_text (VObj [([97], VNull); ([98], VBool true); ([97], VBool false)]))
  = Some (VObj [([97], VBool false); ([98], VBool true)]).
Proof. vm_compute. reflexivity. Qed.
Example bad_number_text : json_parse (lit_text (VNum (NJson [48; 49]))) = None.
Proof. vm_compute. reflexivity. Qed.

Print Assumptions parse_raw_string.
Print Assumptions parse_quoted_identifier_roundtrip.
Print Assumptions quoted_unescape_surrogate_pair.
Print Assumptions parse_surrogate_pair.
Print Assumptions json_parse_lit_text.
Print Assumptions parse_json_literal_roundtrip.
Print Assumptions eval_json_literal.
