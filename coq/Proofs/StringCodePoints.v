(* C11: every position, length and width the string functions expose is measured in
   Unicode code points, never bytes; valid UTF-8 in gives valid UTF-8 out.

   Throughout, [cs], [ps] ... are lists of scalar values ([scalars cs]) and the Go
   string is [encode_all cs].  The right-hand sides of the characterisations are
   defined on lists of code points only. *)
From Coq Require Import List ZArith Bool Lia.
From JM Require Import Base.Outcome Base.Bytes Base.GoInt Base.Utf8 Num.Dec Json.Value
  Model.NumberFns Model.Slice Model.StringFns Model.Functions Proofs.Utf8Theory.
Import ListNotations. Open Scope Z_scope.

Local Notation E := encode_all.

(* ------------------------------------------------------------------ *)
(* code-point-level reference operations                               *)
(* ------------------------------------------------------------------ *)

(* [ps] is a prefix of [cs] *)
Fixpoint cp_prefix (ps cs : list Z) : bool :=
  match ps, cs with
  | [], _ => true
  | p :: ps', c :: cs' => (p =? c) && cp_prefix ps' cs'
  | _ :: _, [] => false
  end.

(* position (counted from [off]) of the first suffix of [cs] that starts with [ps] *)
Fixpoint cp_index_from (cs ps : list Z) (off : nat) : option nat :=
  if cp_prefix ps cs then Some off else
  match cs with
  | [] => None
  | _ :: cs' => cp_index_from cs' ps (S off)
  end.
Definition cp_find_first (cs ps : list Z) : option nat := cp_index_from cs ps 0.

Fixpoint cp_last_index_from (cs ps : list Z) (off : nat) (best : option nat) : option nat :=
  let best' := if cp_prefix ps cs then Some off else best in
  match cs with
  | [] => best'
  | _ :: cs' => cp_last_index_from cs' ps (S off) best'
  end.
Definition cp_find_last (cs ps : list Z) : option nat := cp_last_index_from cs ps 0 None.

(* first / last occurrence of [ps] inside the code point window [lo, hi) of [cs] *)
Definition cp_window_find (last : bool) (cs ps : list Z) (lo hi : nat) : option nat :=
  option_map (Nat.add lo)
    ((if last then cp_find_last else cp_find_first) (firstn (hi - lo) (skipn lo cs)) ps).

Fixpoint cp_dropwhile (p : Z -> bool) (cs : list Z) : list Z :=
  match cs with
  | [] => []
  | c :: cs' => if p c then cp_dropwhile p cs' else cs
  end.
Definition cp_dropwhile_end (p : Z -> bool) (cs : list Z) : list Z :=
  rev (cp_dropwhile p (rev cs)).

(* ------------------------------------------------------------------ *)
(* the reference operations mean what they say                         *)
(* ------------------------------------------------------------------ *)

Lemma cp_prefix_spec ps cs : cp_prefix ps cs = true <-> exists r, cs = ps ++ r.
Proof.
  revert cs; induction ps as [|p ps IH]; intros cs; cbn [cp_prefix].
  - split; [intros _; exists cs; reflexivity | reflexivity].
  - destruct cs as [|c cs].
    + split; [discriminate | intros [r Hr]; discriminate].
    + rewrite andb_true_iff, Z.eqb_eq, IH. split.
      * intros [-> [r ->]]. exists r; reflexivity.
      * intros [r Hr]. cbn in Hr. inversion Hr; subst. split; [reflexivity | exists r; reflexivity].
Qed.

Lemma cp_index_from_shift : forall cs ps k,
  cp_index_from cs ps k = option_map (Nat.add k) (cp_index_from cs ps 0).
Proof.
  induction cs as [|c cs IH]; intros ps k; cbn [cp_index_from].
  - destruct (cp_prefix ps []); cbn; [f_equal; lia | reflexivity].
  - destruct (cp_prefix ps (c :: cs)); cbn [option_map]; [f_equal; lia|].
    rewrite (IH ps (S k)), (IH ps 1%nat).
    destruct (cp_index_from cs ps 0); cbn [option_map]; [f_equal; lia | reflexivity].
Qed.

Lemma cp_last_index_from_shift : forall cs ps k b,
  cp_last_index_from cs ps k b =
  match cp_last_index_from cs ps 0 None with Some i => Some (k + i)%nat | None => b end.
Proof.
  induction cs as [|c cs IH]; intros ps k b; cbn [cp_last_index_from].
  - destruct (cp_prefix ps []); [f_equal; lia | reflexivity].
  - rewrite (IH ps (S k)), (IH ps 1%nat).
    destruct (cp_last_index_from cs ps 0 None).
    + f_equal; lia.
    + destruct (cp_prefix ps (c :: cs)); [f_equal; lia | reflexivity].
Qed.

(* [cp_find_first cs ps = Some i]: [ps] occurs at [i] and at no earlier position *)
Lemma cp_find_first_Some cs ps i :
  cp_find_first cs ps = Some i <->
  (i <= length cs)%nat /\ cp_prefix ps (skipn i cs) = true /\
  (forall j, (j < i)%nat -> cp_prefix ps (skipn j cs) = false).
Proof.
  unfold cp_find_first. revert i; induction cs as [|c cs IH]; intros i; cbn [cp_index_from].
  - destruct (cp_prefix ps []) eqn:Ep.
    + split.
      * intros H; inversion H; subst. cbn. repeat split; auto. intros; lia.
      * intros (H1 & _ & H3). cbn in H1. f_equal. lia.
    + split; [discriminate|]. intros (H1 & H2 & _). cbn in H1. assert (i = 0)%nat by lia. subst.
      cbn in H2. congruence.
  - destruct (cp_prefix ps (c :: cs)) eqn:Ep.
    + split.
      * intros H; inversion H; subst. cbn [skipn]. repeat split; auto; [cbn; lia | intros; lia].
      * intros (_ & _ & H3). destruct i as [|i]; [reflexivity|].
        specialize (H3 0%nat ltac:(lia)). cbn [skipn] in H3. congruence.
    + rewrite cp_index_from_shift. destruct i as [|i].
      * split.
        -- destruct (cp_index_from cs ps 0); cbn; discriminate.
        -- intros (_ & H2 & _). cbn [skipn] in H2. congruence.
      * specialize (IH i). split.
        -- destruct (cp_index_from cs ps 0) as [m|] eqn:Em; cbn [option_map]; [|discriminate].
           intros H; inversion H; subst. destruct IH as [IH _]. specialize (IH eq_refl).
           destruct IH as (I1 & I2 & I3). cbn [skipn length]. repeat split; [lia | assumption |].
           intros [|j] Hj; [exact Ep | cbn [skipn]; apply I3; lia].
        -- intros (H1 & H2 & H3). cbn [skipn length] in *. destruct IH as [_ IH].
           rewrite IH; [reflexivity|]. repeat split; [lia | assumption |].
           intros j Hj. apply (H3 (S j)). lia.
Qed.

Lemma cp_find_first_None cs ps :
  cp_find_first cs ps = None <-> forall j, (j <= length cs)%nat -> cp_prefix ps (skipn j cs) = false.
Proof.
  unfold cp_find_first. induction cs as [|c cs IH]; cbn [cp_index_from].
  - destruct (cp_prefix ps []) eqn:Ep.
    + split; [discriminate|]. intros H. specialize (H 0%nat ltac:(cbn; lia)). cbn in H. congruence.
    + split; [|reflexivity]. intros _ j Hj. cbn in Hj. assert (j = 0)%nat by lia. subst. exact Ep.
  - destruct (cp_prefix ps (c :: cs)) eqn:Ep.
    + split; [discriminate|]. intros H. specialize (H 0%nat ltac:(lia)). cbn in H. congruence.
    + rewrite cp_index_from_shift. split.
      * destruct (cp_index_from cs ps 0); [discriminate|]. intros _.
        destruct IH as [IH _]. specialize (IH eq_refl).
        intros [|j] Hj; [exact Ep|]. cbn [skipn]. apply IH. cbn in Hj. lia.
      * intros H. destruct IH as [_ IH]. rewrite IH; [reflexivity|].
        intros j Hj. apply (H (S j)). cbn. lia.
Qed.

Lemma cp_last_index_from_None : forall cs ps k b,
  cp_last_index_from cs ps k b = None ->
  forall j, (j <= length cs)%nat -> cp_prefix ps (skipn j cs) = false.
Proof.
  induction cs as [|d cs IHc]; intros ps k b Em j Hj; cbn [cp_last_index_from] in Em.
  - cbn in Hj. assert (j = 0)%nat by lia. subst. cbn [skipn].
    destruct (cp_prefix ps []); [discriminate | reflexivity].
  - destruct j as [|j]; cbn [skipn].
    + destruct (cp_prefix ps (d :: cs)); [|reflexivity].
      rewrite cp_last_index_from_shift in Em.
      destruct (cp_last_index_from cs ps 0 None); discriminate.
    + eapply IHc; [exact Em | cbn in Hj; lia].
Qed.

(* [cp_find_last cs ps = Some i]: [ps] occurs at [i] and at no later position *)
Lemma cp_find_last_Some cs ps i :
  cp_find_last cs ps = Some i <->
  (i <= length cs)%nat /\ cp_prefix ps (skipn i cs) = true /\
  (forall j, (i < j <= length cs)%nat -> cp_prefix ps (skipn j cs) = false).
Proof.
  unfold cp_find_last. revert i; induction cs as [|c cs IH]; intros i; cbn [cp_last_index_from].
  - destruct (cp_prefix ps []) eqn:Ep.
    + split.
      * intros H; inversion H; subst. cbn. repeat split; auto. intros; lia.
      * intros (H1 & _). cbn in H1. f_equal; lia.
    + split; [discriminate|]. intros (H1 & H2 & _). cbn in H1. assert (i = 0)%nat by lia. subst.
      cbn in H2; congruence.
  - rewrite cp_last_index_from_shift.
    destruct (cp_last_index_from cs ps 0 None) as [m|] eqn:Em.
    + destruct (IH m) as [IHm _]. specialize (IHm eq_refl). destruct IHm as (M1 & M2 & M3). split.
      * intros H; inversion H; subst. cbn [skipn length Nat.add]. repeat split; [lia|assumption|].
        intros [|j] Hj; [lia|]. cbn [skipn]. apply M3. lia.
      * intros (H1 & H2 & H3). f_equal. cbn [length] in *.
        destruct (Nat.lt_trichotomy i (S m)) as [L|[L|L]]; [|lia|].
        -- specialize (H3 (S m) ltac:(lia)). cbn [skipn] in H3. congruence.
        -- destruct i as [|i]; [lia|]. cbn [skipn] in H2.
           specialize (M3 i ltac:(lia)). congruence.
    + pose proof (cp_last_index_from_None _ _ _ _ Em) as N.
      destruct (cp_prefix ps (c :: cs)) eqn:Ep.
      * split.
        -- intros H; inversion H; subst. cbn [skipn]. repeat split; [cbn; lia|assumption|].
           intros [|j] Hj; [lia|]. cbn [skipn]. apply N. cbn in Hj; lia.
        -- intros (H1 & H2 & H3). destruct i as [|i]; [reflexivity|]. cbn [skipn length] in *.
           rewrite N in H2 by lia. discriminate.
      * split; [discriminate|]. intros (H1 & H2 & _). destruct i as [|i]; cbn [skipn length] in *.
        -- congruence.
        -- rewrite N in H2 by lia. discriminate.
Qed.

(* ------------------------------------------------------------------ *)
(* small facts about encode_all                                        *)
(* ------------------------------------------------------------------ *)

Lemma scalars_nil : scalars []. Proof. constructor. Qed.

Lemma scalars_firstn n cs : scalars cs -> scalars (firstn n cs).
Proof.
  intros H. rewrite <- (firstn_skipn n cs) in H. apply scalars_app in H. tauto.
Qed.

Lemma scalars_skipn n cs : scalars cs -> scalars (skipn n cs).
Proof.
  intros H. rewrite <- (firstn_skipn n cs) in H. apply scalars_app in H. tauto.
Qed.

Lemma scalars_rev cs : scalars cs -> scalars (rev cs).
Proof. apply Forall_rev. Qed.

Lemma scalars_repeat p n : scalar_ok p = true -> scalars (repeat p n).
Proof. intros H. induction n; cbn; constructor; auto. Qed.

Lemma encode_rune_nonnil c : scalar_ok c = true -> encode_rune c <> [].
Proof. intros H. eapply enc_shape_nonnil, encode_rune_shape, H. Qed.

Lemma encode_all_nonnil c cs : scalar_ok c = true -> E (c :: cs) <> [].
Proof. intros H. rewrite encode_all_cons. apply app_nonnil, encode_rune_nonnil, H. Qed.

Lemma encode_all_single c : E [c] = encode_rune c.
Proof. cbn. apply app_nil_r. Qed.

Lemma encode_all_split n cs : E cs = E (firstn n cs) ++ E (skipn n cs).
Proof. rewrite <- encode_all_app, firstn_skipn. reflexivity. Qed.

(* a code point takes at least one byte *)
Lemma length_le_encode_all cs : scalars cs -> (length cs <= length (E cs))%nat.
Proof.
  induction cs as [|c cs IH]; intros H; [cbn; lia|].
  apply scalars_cons in H as [Hc Hcs]. rewrite encode_all_cons, app_length. cbn [length].
  pose proof (encode_rune_length c Hc). specialize (IH Hcs). lia.
Qed.

Lemma concat_map_encode_rune l : concat (map encode_rune l) = E l.
Proof. unfold encode_all. symmetry. apply flat_map_concat_map. Qed.

(* ------------------------------------------------------------------ *)
(* integer arguments                                                   *)
(* ------------------------------------------------------------------ *)

Lemma to_int_vint w : w <= MaxInt -> to_int (vint w) = Ok (w, true, true).
Proof.
  intros H. unfold vint, to_int. destruct (Z.gtb_spec w MaxInt); [lia | reflexivity].
Qed.

Lemma int_arg_vint w : w <= MaxInt -> int_arg (vint w) = Ok w.
Proof. intros H. unfold int_arg. rewrite to_int_vint by assumption. reflexivity. Qed.

(* ------------------------------------------------------------------ *)
(* 1, 2: length and reverse                                            *)
(* ------------------------------------------------------------------ *)

Theorem length_code_points : forall cs, scalars cs ->
  length_ (VStr (E cs)) = Ok (vint (Z.of_nat (length cs))).
Proof. intros cs H. cbn [length_]. now rewrite rune_count_encode_all. Qed.

Theorem reverse_code_points : forall cs, scalars cs ->
  reverse (VStr (E cs)) = Ok (VStr (E (rev cs))).
Proof. intros cs H. cbn [reverse]. now rewrite runes_rev_encode_all. Qed.

(* ------------------------------------------------------------------ *)
(* 8: order                                                            *)
(* ------------------------------------------------------------------ *)

Corollary bltb_code_points a b : scalars a -> scalars b ->
  bltb (E a) (E b) = match zlist_cmp a b with Lt => true | _ => false end.
Proof. intros Ha Hb. unfold bltb. now rewrite bcmp_encode_all. Qed.

Corollary bgtb_code_points a b : scalars a -> scalars b ->
  bgtb (E a) (E b) = match zlist_cmp a b with Gt => true | _ => false end.
Proof. intros Ha Hb. unfold bgtb. now rewrite bcmp_encode_all. Qed.

Corollary beqb_code_points a b : scalars a -> scalars b ->
  beqb (E a) (E b) = match zlist_cmp a b with Eq => true | _ => false end.
Proof.
  intros Ha Hb. destruct (zlist_cmp a b) eqn:Ec.
  - apply zlist_cmp_eq in Ec. subst. apply beqb_refl.
  - destruct (beqb (E a) (E b)) eqn:Eb; [|reflexivity].
    apply beqb_eq, encode_all_inj in Eb; try assumption. subst.
    assert (zlist_cmp b b = Eq) by (apply zlist_cmp_eq; reflexivity). congruence.
  - destruct (beqb (E a) (E b)) eqn:Eb; [|reflexivity].
    apply beqb_eq, encode_all_inj in Eb; try assumption. subst.
    assert (zlist_cmp b b = Eq) by (apply zlist_cmp_eq; reflexivity). congruence.
Qed.

(* ------------------------------------------------------------------ *)
(* 5: pad — the width counts code points                               *)
(* ------------------------------------------------------------------ *)

Lemma repeat_bytes_encode p n : repeat_bytes n (encode_rune p) = E (repeat p n).
Proof. induction n; cbn [repeat_bytes repeat]; [reflexivity|]. now rewrite IHn. Qed.

Lemma rune_count_encode_rune p : scalar_ok p = true -> rune_count (encode_rune p) = 1.
Proof.
  intros H. rewrite <- encode_all_single, rune_count_encode_all; [reflexivity|].
  constructor; [assumption|constructor].
Qed.

Definition cp_pad (left : bool) (cs : list Z) (p : Z) (w : Z) : list Z :=
  let fill := repeat p (Z.to_nat (w - Z.of_nat (length cs))) in
  if left then fill ++ cs else cs ++ fill.

Theorem pad_code_points_gen : forall left cs p w, scalars cs -> scalar_ok p = true -> 0 <= w <= MaxInt ->
  pad left (VStr (E cs)) (vint w) (Some (VStr (encode_rune p))) = Ok (VStr (E (cp_pad left cs p w))).
Proof.
  intros left cs p w Hcs Hp Hw. unfold pad. cbn [str_arg bind].
  rewrite int_arg_vint by lia. cbn [bind].
  destruct (Z.ltb_spec w 0); [lia|].
  rewrite rune_count_encode_rune by assumption. cbn [Z.eqb Pos.eqb negb].
  rewrite rune_count_encode_all by assumption. unfold cp_pad. cbv zeta.
  destruct (Z.leb_spec (w - Z.of_nat (length cs)) 0) as [Hn|Hn].
  - replace (Z.to_nat (w - Z.of_nat (length cs))) with 0%nat by lia. cbn [repeat app].
    destruct left; [reflexivity | now rewrite app_nil_r].
  - rewrite repeat_bytes_encode. destruct left; now rewrite encode_all_app.
Qed.

Theorem pad_code_points : forall cs p w, scalars cs -> scalar_ok p = true -> 0 <= w <= MaxInt ->
  pad true (VStr (E cs)) (vint w) (Some (VStr (encode_rune p))) =
  Ok (VStr (E (repeat p (Z.to_nat (w - Z.of_nat (length cs))) ++ cs))).
Proof. intros. now rewrite pad_code_points_gen. Qed.

Theorem pad_right_code_points : forall cs p w, scalars cs -> scalar_ok p = true -> 0 <= w <= MaxInt ->
  pad false (VStr (E cs)) (vint w) (Some (VStr (encode_rune p))) =
  Ok (VStr (E (cs ++ repeat p (Z.to_nat (w - Z.of_nat (length cs)))))).
Proof. intros. now rewrite pad_code_points_gen. Qed.

(* the default pad string is one space *)
Theorem pad_default_code_points : forall left cs w, scalars cs -> 0 <= w <= MaxInt ->
  pad left (VStr (E cs)) (vint w) None = Ok (VStr (E (cp_pad left cs 32 w))).
Proof.
  intros left cs w Hcs Hw. rewrite <- (pad_code_points_gen left cs 32 w) by (auto; reflexivity).
  reflexivity.
Qed.

Theorem pad_negative_width : forall left cs qs w, w < 0 ->
  pad left (VStr (E cs)) (vint w) (Some (VStr qs)) = Err ENegativeInteger.
Proof.
  intros left cs qs w Hw. unfold pad. cbn [str_arg bind].
  rewrite int_arg_vint by (unfold MaxInt; lia). cbn [bind].
  destruct (Z.ltb_spec w 0); [reflexivity | lia].
Qed.

(* the pad string must be exactly one code point (not: one byte) *)
Theorem pad_length_code_points : forall left cs qs w, scalars qs -> 0 <= w <= MaxInt -> length qs <> 1%nat ->
  pad left (VStr (E cs)) (vint w) (Some (VStr (E qs))) = Err EPadLength.
Proof.
  intros left cs qs w Hqs Hw Hl. unfold pad. cbn [str_arg bind].
  rewrite int_arg_vint by lia. cbn [bind].
  destruct (Z.ltb_spec w 0); [lia|].
  rewrite rune_count_encode_all by assumption.
  destruct (Z.eqb_spec (Z.of_nat (length qs)) 1); [lia | reflexivity].
Qed.

(* ------------------------------------------------------------------ *)
(* 6: split with the empty separator cuts between code points          *)
(* ------------------------------------------------------------------ *)

Lemma split_runes_encode_all : forall k cs, scalars cs -> (k <= length cs)%nat ->
  split_runes k (E cs) = map encode_rune (firstn k cs) ++ [E (skipn k cs)].
Proof.
  induction k as [|k IH]; intros cs H Hk; [reflexivity|].
  destruct cs as [|c cs]; [cbn in Hk; lia|].
  apply scalars_cons in H as [Hc Hcs]. cbn [split_runes firstn skipn map app].
  rewrite encode_all_cons, decode_encode_rune by assumption.
  rewrite Nat2Z.id, firstn_len_app, skipn_len_app.
  rewrite IH by (auto; cbn in Hk; lia). reflexivity.
Qed.

Lemma split_nonempty s p : s <> [] ->
  split (VStr s) (VStr p) =
  Ok (VArr (map VStr match p with
                     | [] => split_runes (Z.to_nat (rune_count s - 1)) s
                     | _ => split_sep (Z.to_nat (bcount s p)) s p
                     end)).
Proof. destruct s; [congruence|]. intros _. destruct p; reflexivity. Qed.

Lemma split_count_nonempty s p n : s <> [] -> 0 < n <= MaxInt ->
  split_count (VStr s) (VStr p) (vint n) =
  Ok (VArr (map VStr match p with
                     | [] => let c := rune_count s - 1 in
                             split_runes (Z.to_nat (if n >? c then c else n)) s
                     | _ => let c := bcount s p in
                            split_sep (Z.to_nat (if n >? c then c else n)) s p
                     end)).
Proof.
  intros Hs Hn. unfold split_count. cbn [str_arg bind]. rewrite int_arg_vint by lia. cbn [bind].
  destruct (Z.ltb_spec n 0); [lia|]. destruct (Z.eqb_spec n 0); [lia|].
  destruct s; [congruence|]. destruct p; reflexivity.
Qed.

Theorem split_empty_code_points : forall cs, scalars cs -> cs <> [] ->
  split (VStr (E cs)) (VStr []) = Ok (VArr (map (fun c => VStr (encode_rune c)) cs)).
Proof.
  intros cs H Hne.
  destruct (exists_last Hne) as (l & c & ->).
  assert (Hs : E (l ++ [c]) <> []).
  { apply scalars_app in H as [_ Hc]. apply scalars_cons in Hc as [Hc _].
    rewrite encode_all_app, encode_all_single. intros E0. apply app_eq_nil in E0 as [_ E0].
    revert E0. apply encode_rune_nonnil, Hc. }
  rewrite split_nonempty by assumption.
  rewrite rune_count_encode_all by assumption. rewrite app_length. cbn [length].
  replace (Z.to_nat (Z.of_nat (length l + 1) - 1)) with (length l) by lia.
  rewrite split_runes_encode_all by (auto; rewrite app_length; cbn; lia).
  rewrite firstn_app, Nat.sub_diag, firstn_all. cbn [firstn]. rewrite app_nil_r.
  rewrite skipn_app, Nat.sub_diag, skipn_all. cbn [skipn app].
  rewrite encode_all_single. rewrite map_app, !map_app, map_map. reflexivity.
Qed.

(* count k: the first min(k, n-1) code points singly, then the rest *)
Theorem split_count_empty_code_points : forall cs k, scalars cs -> cs <> [] -> 0 <= k <= MaxInt ->
  split_count (VStr (E cs)) (VStr []) (vint k) =
  let m := Nat.min (Z.to_nat k) (length cs - 1) in
  Ok (VArr (map (fun c => VStr (encode_rune c)) (firstn m cs) ++ [VStr (E (skipn m cs))])).
Proof.
  intros cs k H Hne Hk. cbv zeta.
  destruct (Z.eq_dec k 0) as [->|Hk0].
  { unfold split_count. cbn [str_arg bind]. rewrite int_arg_vint by (unfold MaxInt; lia). reflexivity. }
  assert (Hs : E cs <> []).
  { destruct cs as [|c cs]; [congruence|]. apply scalars_cons in H as [Hc _].
    apply encode_all_nonnil, Hc. }
  rewrite split_count_nonempty by (auto; lia). cbv zeta.
  rewrite rune_count_encode_all by assumption.
  assert (Hl : (1 <= length cs)%nat) by (destruct cs; [congruence | cbn; lia]).
  replace (Z.to_nat (if k >? Z.of_nat (length cs) - 1 then Z.of_nat (length cs) - 1 else k))
    with (Nat.min (Z.to_nat k) (length cs - 1)) by (destruct (Z.gtb_spec k (Z.of_nat (length cs) - 1)); lia).
  rewrite split_runes_encode_all by (auto; lia).
  rewrite map_app, map_map. reflexivity.
Qed.

(* ------------------------------------------------------------------ *)
(* trims: drop code points satisfying a predicate from either end      *)
(* ------------------------------------------------------------------ *)

Lemma trim_left_f_S f p s : s <> [] ->
  trim_left_f (S f) p s =
  if p (fst (decode_rune s)) then trim_left_f f p (skipn (Z.to_nat (snd (decode_rune s))) s) else s.
Proof. destruct s; [congruence|]. intros _. cbn [trim_left_f]. destruct (decode_rune (z :: s)); reflexivity. Qed.

Lemma trim_right_f_S f p s : s <> [] ->
  trim_right_f (S f) p s =
  if p (fst (decode_last_rune s))
  then trim_right_f f p (firstn (length s - Z.to_nat (snd (decode_last_rune s))) s) else s.
Proof. destruct s; [congruence|]. intros _. cbn [trim_right_f]. destruct (decode_last_rune (z :: s)); reflexivity. Qed.

Lemma trim_left_f_encode_all p : forall fuel cs, scalars cs -> (length cs <= fuel)%nat ->
  trim_left_f fuel p (E cs) = E (cp_dropwhile p cs).
Proof.
  induction fuel as [|f IH]; intros cs H Hf.
  - destruct cs; [reflexivity | cbn in Hf; lia].
  - destruct cs as [|c cs]; [reflexivity|].
    pose proof H as H'. apply scalars_cons in H' as [Hc Hcs].
    rewrite trim_left_f_S by (apply encode_all_nonnil, Hc).
    rewrite encode_all_cons, decode_encode_rune by assumption. cbn [fst snd cp_dropwhile].
    destruct (p c); [|reflexivity].
    rewrite Nat2Z.id, skipn_len_app. apply IH; [assumption | cbn in Hf; lia].
Qed.

Theorem trim_left_fn_code_points p cs : scalars cs ->
  trim_left_fn p (E cs) = E (cp_dropwhile p cs).
Proof. intros H. apply trim_left_f_encode_all; [assumption | apply length_le_encode_all, H]. Qed.

Lemma cp_dropwhile_end_snoc p l x :
  cp_dropwhile_end p (l ++ [x]) = if p x then cp_dropwhile_end p l else l ++ [x].
Proof.
  unfold cp_dropwhile_end. rewrite rev_app_distr. cbn [rev app cp_dropwhile].
  destruct (p x); [reflexivity|]. cbn [rev]. now rewrite rev_involutive.
Qed.

Lemma trim_right_f_encode_all p : forall fuel cs, scalars cs -> (length cs <= fuel)%nat ->
  trim_right_f fuel p (E cs) = E (cp_dropwhile_end p cs).
Proof.
  induction fuel as [|f IH]; intros cs H Hf.
  - destruct cs; [reflexivity | cbn in Hf; lia].
  - destruct cs as [|x l _] using rev_ind; [reflexivity|].
    pose proof H as H'. apply scalars_app in H' as [Hl Hx]. apply scalars_cons in Hx as [Hx _].
    rewrite encode_all_app, encode_all_single.
    rewrite trim_right_f_S
      by (intros E0; apply app_eq_nil in E0 as [_ E0]; revert E0; apply encode_rune_nonnil, Hx).
    rewrite decode_last_enc_app by assumption. cbn [fst snd].
    rewrite cp_dropwhile_end_snoc. destruct (p x).
    + rewrite Nat2Z.id, app_length.
      replace (length (E l) + length (encode_rune x) - length (encode_rune x))%nat
        with (length (E l)) by lia.
      rewrite firstn_len_app. apply IH; [assumption|]. rewrite app_length in Hf. cbn in Hf. lia.
    + now rewrite encode_all_app, encode_all_single.
Qed.

Theorem trim_right_fn_code_points p cs : scalars cs ->
  trim_right_fn p (E cs) = E (cp_dropwhile_end p cs).
Proof. intros H. apply trim_right_f_encode_all; [assumption | apply length_le_encode_all, H]. Qed.

Lemma scalars_dropwhile p cs : scalars cs -> scalars (cp_dropwhile p cs).
Proof.
  induction cs as [|c cs IH]; intros H; [constructor|]. cbn [cp_dropwhile].
  destruct (p c); [|assumption]. apply IH. apply scalars_cons in H. tauto.
Qed.

Lemma scalars_dropwhile_end p cs : scalars cs -> scalars (cp_dropwhile_end p cs).
Proof. intros H. apply scalars_rev, scalars_dropwhile, scalars_rev, H. Qed.

(* membership in the cutset is membership in its list of code points *)
Lemma in_cutset_code_points ks r : scalars ks -> in_cutset (E ks) r = existsb (Z.eqb r) ks.
Proof. intros H. unfold in_cutset. now rewrite runes_encode_all. Qed.

Definition cp_cut (ks : list Z) : Z -> bool :=
  match ks with [] => is_space | _ => fun r => existsb (Z.eqb r) ks end.

Lemma cutset_cases ks : scalars ks ->
  (ks = [] /\ E ks = []) \/
  (ks <> [] /\ exists b r, E ks = b :: r /\ (forall x, in_cutset (b :: r) x = cp_cut ks x)).
Proof.
  intros H. destruct ks as [|k ks]; [left; auto | right]. split; [discriminate|].
  pose proof H as H'. apply scalars_cons in H' as [Hk _].
  destruct (E (k :: ks)) as [|b r] eqn:Ek; [exfalso; revert Ek; apply encode_all_nonnil, Hk|].
  exists b, r. split; [reflexivity|]. intros x. rewrite <- Ek. apply in_cutset_code_points, H.
Qed.

Lemma trim_left_fn_ext p q s : (forall x, p x = q x) -> trim_left_fn p s = trim_left_fn q s.
Proof.
  intros Hpq. unfold trim_left_fn. generalize (length s). intros f. revert s.
  induction f as [|f IH]; intros s; [reflexivity|]. destruct s as [|b r]; [reflexivity|].
  rewrite !trim_left_f_S by discriminate. rewrite Hpq. now rewrite IH.
Qed.

Lemma trim_right_fn_ext p q s : (forall x, p x = q x) -> trim_right_fn p s = trim_right_fn q s.
Proof.
  intros Hpq. unfold trim_right_fn. generalize (length s). intros f. revert s.
  induction f as [|f IH]; intros s; [reflexivity|]. destruct s as [|b r]; [reflexivity|].
  rewrite !trim_right_f_S by discriminate. rewrite Hpq. now rewrite IH.
Qed.

Theorem trim_left_code_points cs ks : scalars cs -> scalars ks ->
  trim_left (VStr (E cs)) (VStr (E ks)) = Ok (VStr (E (cp_dropwhile (cp_cut ks) cs))).
Proof.
  intros Hcs Hks. unfold trim_left. cbn [str_arg bind].
  destruct (cutset_cases ks Hks) as [[-> ->]|(_ & b & r & -> & Hin)].
  - now rewrite trim_left_fn_code_points.
  - rewrite (trim_left_fn_ext _ _ _ Hin). now rewrite trim_left_fn_code_points.
Qed.

Theorem trim_right_code_points cs ks : scalars cs -> scalars ks ->
  trim_right (VStr (E cs)) (VStr (E ks)) = Ok (VStr (E (cp_dropwhile_end (cp_cut ks) cs))).
Proof.
  intros Hcs Hks. unfold trim_right. cbn [str_arg bind].
  destruct (cutset_cases ks Hks) as [[-> ->]|(_ & b & r & -> & Hin)].
  - now rewrite trim_right_fn_code_points.
  - rewrite (trim_right_fn_ext _ _ _ Hin). now rewrite trim_right_fn_code_points.
Qed.

Theorem trim_code_points cs ks : scalars cs -> scalars ks ->
  trim (VStr (E cs)) (VStr (E ks)) =
  Ok (VStr (E (cp_dropwhile_end (cp_cut ks) (cp_dropwhile (cp_cut ks) cs)))).
Proof.
  intros Hcs Hks. unfold trim. cbn [str_arg bind].
  destruct (cutset_cases ks Hks) as [[-> ->]|(_ & b & r & -> & Hin)].
  - rewrite trim_left_fn_code_points, trim_right_fn_code_points; auto using scalars_dropwhile.
  - rewrite (trim_left_fn_ext _ _ _ Hin), (trim_right_fn_ext _ _ _ Hin).
    rewrite trim_left_fn_code_points, trim_right_fn_code_points; auto using scalars_dropwhile.
Qed.

Theorem trim_space_code_points cs : scalars cs ->
  trim_space (VStr (E cs)) = Ok (VStr (E (cp_dropwhile_end is_space (cp_dropwhile is_space cs)))).
Proof.
  intros H. unfold trim_space. cbn [str_arg bind].
  rewrite trim_left_fn_code_points, trim_right_fn_code_points; auto using scalars_dropwhile.
Qed.

(* ------------------------------------------------------------------ *)
(* 3: self-synchronisation — byte search finds code point occurrences  *)
(* ------------------------------------------------------------------ *)

Lemma cp_prefix_is_prefix : forall ps cs, cp_prefix ps cs = is_prefix ps cs.
Proof.
  induction ps as [|p ps IH]; intros cs; [reflexivity|]. destruct cs as [|c cs]; [reflexivity|].
  cbn [cp_prefix is_prefix]. now rewrite IH.
Qed.

Lemma is_prefix_spec p s : is_prefix p s = true <-> exists r, s = p ++ r.
Proof. rewrite <- cp_prefix_is_prefix. apply cp_prefix_spec. Qed.

Lemma is_prefix_app_same e a b : is_prefix (e ++ a) (e ++ b) = is_prefix a b.
Proof. induction e as [|x e IH]; cbn [app is_prefix]; [reflexivity|]. now rewrite Z.eqb_refl. Qed.

(* UTF-8 is prefix-free: two encoded scalar values cannot start at the same byte
   unless they are equal *)
Lemma is_prefix_enc_neq p c a b : scalar_ok p = true -> scalar_ok c = true -> p <> c ->
  is_prefix (encode_rune p ++ a) (encode_rune c ++ b) = false.
Proof.
  intros Hp Hc Hne. destruct (is_prefix _ _) eqn:Ei; [|reflexivity]. exfalso.
  apply is_prefix_spec in Ei as [r Hr].
  pose proof (decode_encode_rune c b Hc) as D1.
  rewrite Hr, <- app_assoc, decode_encode_rune in D1 by assumption.
  inversion D1. congruence.
Qed.

(* on encodings, "is a byte prefix" is "is a code point prefix" *)
Lemma is_prefix_encode_all : forall ps cs, scalars ps -> scalars cs ->
  is_prefix (E ps) (E cs) = cp_prefix ps cs.
Proof.
  induction ps as [|p ps IH]; intros cs Hps Hcs; [reflexivity|].
  apply scalars_cons in Hps as [Hp Hps].
  destruct cs as [|c cs].
  - cbn [cp_prefix]. rewrite encode_all_cons.
    destruct (encode_rune p) eqn:Ep; [exfalso; revert Ep; apply encode_rune_nonnil, Hp | reflexivity].
  - apply scalars_cons in Hcs as [Hc Hcs]. rewrite !encode_all_cons. cbn [cp_prefix].
    destruct (Z.eqb_spec p c) as [->|Hne].
    + rewrite is_prefix_app_same. cbn [andb]. apply IH; assumption.
    + apply is_prefix_enc_neq; assumption.
Qed.

Definition all_cont (k : bytes) : Prop := Forall (fun x => is_cont x = true) k.

(* an encoded scalar value is a lead byte followed by continuation bytes *)
Lemma enc_shape_lead c e : enc_shape c e ->
  exists b r, e = b :: r /\ is_cont b = false /\ all_cont r.
Proof.
  unfold all_cont.
  destruct 1; eexists; eexists; (split; [reflexivity|]); (split; [unfold is_cont; ztests; reflexivity|]);
    repeat constructor; unfold is_cont; ztests; reflexivity.
Qed.

Lemma encode_rune_lead c : scalar_ok c = true ->
  exists b r, encode_rune c = b :: r /\ is_cont b = false /\ all_cont r.
Proof. intros H. apply (enc_shape_lead c), encode_rune_shape, H. Qed.

Lemma blen_app (a b : bytes) : blen (a ++ b) = blen a + blen b.
Proof. unfold blen. rewrite app_length. lia. Qed.

Lemma blen_cons x (a : bytes) : blen (x :: a) = 1 + blen a.
Proof. unfold blen. cbn [length]. lia. Qed.

Lemma blen_nonneg (a : bytes) : 0 <= blen a.
Proof. unfold blen. lia. Qed.

(* a needle that begins with a lead byte never matches at a continuation byte *)
Lemma is_prefix_cont b P x s : is_cont b = false -> is_cont x = true -> is_prefix (b :: P) (x :: s) = false.
Proof.
  intros Hb Hx. cbn [is_prefix]. destruct (Z.eqb_spec b x); [subst; congruence | reflexivity].
Qed.

Lemma index_from_skip_cont b P : is_cont b = false -> forall k rest off, all_cont k ->
  index_from (k ++ rest) (b :: P) off = index_from rest (b :: P) (off + blen k).
Proof.
  intros Hb. induction k as [|x k IH]; intros rest off Hk.
  - cbn [app]. f_equal. unfold blen; cbn; lia.
  - inversion Hk; subst. cbn [app index_from]. rewrite is_prefix_cont by assumption.
    rewrite IH by assumption. f_equal. rewrite blen_cons. lia.
Qed.

Lemma last_index_from_skip_cont b P : is_cont b = false -> forall k rest off best, all_cont k ->
  last_index_from (k ++ rest) (b :: P) off best = last_index_from rest (b :: P) (off + blen k) best.
Proof.
  intros Hb. induction k as [|x k IH]; intros rest off best Hk.
  - cbn [app]. f_equal. unfold blen; cbn; lia.
  - inversion Hk; subst. cbn [app last_index_from]. rewrite is_prefix_cont by assumption.
    rewrite IH by assumption. f_equal. rewrite blen_cons. lia.
Qed.

(* byte offset of code point position i *)
Definition boff (cs : list Z) (i : nat) : Z := blen (E (firstn i cs)).

Lemma boff_0 cs : boff cs 0 = 0. Proof. reflexivity. Qed.

Lemma boff_S c cs i : boff (c :: cs) (S i) = blen (encode_rune c) + boff cs i.
Proof. unfold boff. cbn [firstn]. now rewrite encode_all_cons, blen_app. Qed.

Lemma boff_nonneg cs i : 0 <= boff cs i. Proof. apply blen_nonneg. Qed.

Lemma boff_all cs : boff cs (length cs) = blen (E cs).
Proof. unfold boff. now rewrite firstn_all. Qed.

(* the encoding of a non-empty scalar list starts with a lead byte *)
Lemma encode_all_lead p ps : scalar_ok p = true ->
  exists b P, E (p :: ps) = b :: P /\ is_cont b = false.
Proof.
  intros Hp. destruct (encode_rune_lead p Hp) as (b & r & Er & Hb & _).
  exists b, (r ++ E ps). rewrite encode_all_cons, Er. split; [reflexivity | assumption].
Qed.

Lemma index_from_encode_all ps : scalars ps -> ps <> [] -> forall cs off, scalars cs ->
  index_from (E cs) (E ps) off =
  match cp_find_first cs ps with Some i => off + boff cs i | None => -1 end.
Proof.
  intros Hps Hne. unfold cp_find_first.
  destruct ps as [|p ps]; [congruence|]. pose proof Hps as Hps'. apply scalars_cons in Hps' as [Hp _].
  destruct (encode_all_lead p ps Hp) as (b & P & EP & Hb).
  induction cs as [|c cs IH]; intros off Hcs.
  - cbn [cp_index_from cp_prefix]. rewrite EP. reflexivity.
  - pose proof Hcs as Hcs'. apply scalars_cons in Hcs' as [Hc Hcs'].
    cbn [cp_index_from]. rewrite <- (is_prefix_encode_all (p :: ps) (c :: cs)) by assumption.
    destruct (encode_rune_lead c Hc) as (x & k & Ec & Hx & Hk).
    rewrite (encode_all_cons c cs), Ec. cbn [app index_from].
    destruct (is_prefix (E (p :: ps)) (x :: k ++ E cs)) eqn:Ei.
    + rewrite boff_0. lia.
    + rewrite EP, index_from_skip_cont, <- EP by assumption.
      rewrite IH by assumption. rewrite (cp_index_from_shift cs _ 1).
      destruct (cp_index_from cs (p :: ps) 0) as [i|]; cbn [option_map Nat.add]; [|reflexivity].
      rewrite boff_S, Ec, blen_cons. lia.
Qed.

Lemma last_index_from_encode_all ps : scalars ps -> ps <> [] -> forall cs off best, scalars cs ->
  last_index_from (E cs) (E ps) off best =
  match cp_find_last cs ps with Some i => off + boff cs i | None => best end.
Proof.
  intros Hps Hne. unfold cp_find_last.
  destruct ps as [|p ps]; [congruence|]. pose proof Hps as Hps'. apply scalars_cons in Hps' as [Hp _].
  destruct (encode_all_lead p ps Hp) as (b & P & EP & Hb).
  induction cs as [|c cs IH]; intros off best Hcs.
  - cbn [cp_last_index_from cp_prefix]. rewrite EP. reflexivity.
  - pose proof Hcs as Hcs'. apply scalars_cons in Hcs' as [Hc Hcs'].
    cbn [cp_last_index_from]. rewrite <- (is_prefix_encode_all (p :: ps) (c :: cs)) by assumption.
    destruct (encode_rune_lead c Hc) as (x & k & Ec & Hx & Hk).
    rewrite (encode_all_cons c cs), Ec. cbn [app last_index_from].
    remember (if is_prefix (E (p :: ps)) (x :: k ++ E cs) then off else best) as best' eqn:Eb.
    rewrite EP, last_index_from_skip_cont, <- EP by assumption.
    rewrite IH by assumption. subst best'. rewrite (cp_last_index_from_shift cs _ 1).
    destruct (cp_last_index_from cs (p :: ps) 0 None) as [i|].
    + rewrite boff_S, Ec, blen_cons. cbn [Nat.add]. lia.
    + destruct (is_prefix (E (p :: ps)) (x :: k ++ E cs)); [rewrite boff_0; lia | reflexivity].
Qed.

(* the empty needle: found at the start, respectively at the end *)
Lemma index_from_nil s off : index_from s [] off = off.
Proof. destruct s; reflexivity. Qed.

Lemma last_index_from_nil : forall s off best, last_index_from s [] off best = off + blen s.
Proof.
  induction s as [|x s IH]; intros off best; cbn [last_index_from is_prefix].
  - unfold blen; cbn; lia.
  - rewrite IH, blen_cons. lia.
Qed.

Lemma cp_find_first_nil cs : cp_find_first cs [] = Some 0%nat.
Proof. destruct cs; reflexivity. Qed.

Lemma cp_last_index_from_nil : forall cs k b, cp_last_index_from cs [] k b = Some (k + length cs)%nat.
Proof.
  induction cs as [|c cs IH]; intros k b; cbn [cp_last_index_from cp_prefix length].
  - f_equal; lia.
  - rewrite IH. f_equal; lia.
Qed.

Lemma cp_find_last_nil cs : cp_find_last cs [] = Some (length cs).
Proof. unfold cp_find_last. now rewrite cp_last_index_from_nil. Qed.

(* strings.Index on valid UTF-8: the byte offset of the first code point occurrence *)
Theorem bindex_encode_all : forall cs ps, scalars cs -> scalars ps ->
  bindex (E cs) (E ps) =
  match cp_find_first cs ps with
  | Some i => Z.of_nat (length (E (firstn i cs)))
  | None => -1
  end.
Proof.
  intros cs ps Hcs Hps. unfold bindex. destruct ps as [|p ps].
  - cbn [encode_all flat_map]. now rewrite index_from_nil, cp_find_first_nil.
  - rewrite index_from_encode_all by (auto; discriminate).
    destruct (cp_find_first cs (p :: ps)); reflexivity.
Qed.

(* strings.LastIndex likewise *)
Theorem blast_index_encode_all : forall cs ps, scalars cs -> scalars ps ->
  blast_index (E cs) (E ps) =
  match cp_find_last cs ps with
  | Some i => Z.of_nat (length (E (firstn i cs)))
  | None => -1
  end.
Proof.
  intros cs ps Hcs Hps. unfold blast_index. destruct ps as [|p ps].
  - cbn [encode_all flat_map]. rewrite last_index_from_nil, cp_find_last_nil, firstn_all. reflexivity.
  - rewrite last_index_from_encode_all by (auto; discriminate).
    destruct (cp_find_last cs (p :: ps)); reflexivity.
Qed.

(* a match found by byte search starts on a code point boundary *)
Corollary bindex_boundary cs ps : scalars cs -> scalars ps ->
  bindex (E cs) (E ps) <> -1 ->
  exists a b, cs = a ++ ps ++ b /\ bindex (E cs) (E ps) = blen (E a) /\ cp_find_first cs ps = Some (length a).
Proof.
  intros Hcs Hps Hne. rewrite bindex_encode_all in * by assumption.
  destruct (cp_find_first cs ps) as [i|] eqn:Ef; [|congruence].
  apply cp_find_first_Some in Ef as (Hi & Hp & _). apply cp_prefix_spec in Hp as [r Hr].
  exists (firstn i cs), r. rewrite <- Hr, firstn_skipn, firstn_length. repeat split. f_equal. lia.
Qed.

(* ------------------------------------------------------------------ *)
(* 4: find_first / find_last / offsets                                 *)
(* ------------------------------------------------------------------ *)

Lemma blen_to_nat (a : bytes) : Z.to_nat (blen a) = length a.
Proof. unfold blen. lia. Qed.

(* counting the code points before the byte offset of a boundary *)
Lemma rune_count_prefix_app x y : scalars x ->
  rune_count_prefix (E (x ++ y)) (blen (E x)) = Z.of_nat (length x).
Proof.
  intros Hx. unfold rune_count_prefix. rewrite blen_to_nat, encode_all_app, firstn_len_app.
  now apply rune_count_encode_all.
Qed.

Lemma rune_count_prefix_boff cs i : scalars cs -> (i <= length cs)%nat ->
  rune_count_prefix (E cs) (boff cs i) = Z.of_nat i.
Proof.
  intros H Hi. unfold boff. rewrite <- (firstn_skipn i cs) at 1.
  rewrite rune_count_prefix_app by (apply scalars_firstn, H). rewrite firstn_length. lia.
Qed.

Lemma cp_find_first_le cs ps i : cp_find_first cs ps = Some i -> (i <= length cs)%nat.
Proof. intros H. apply cp_find_first_Some in H. tauto. Qed.

Lemma cp_find_last_le cs ps i : cp_find_last cs ps = Some i -> (i <= length cs)%nat.
Proof. intros H. apply cp_find_last_Some in H. tauto. Qed.

Lemma find_first_nonempty s p : s <> [] -> p <> [] ->
  find_first (VStr s) (VStr p) =
  Ok (if bindex s p =? -1 then VNull else vint (rune_count_prefix s (bindex s p))).
Proof.
  destruct s; [congruence|]. destruct p; [congruence|]. intros _ _. unfold find_first.
  cbn [str_arg bind]. cbv zeta. destruct (_ =? -1); reflexivity.
Qed.

Lemma find_last_nonempty s p : s <> [] -> p <> [] ->
  find_last (VStr s) (VStr p) =
  Ok (if blast_index s p =? -1 then VNull else vint (rune_count_prefix s (blast_index s p))).
Proof.
  destruct s; [congruence|]. destruct p; [congruence|]. intros _ _. unfold find_last.
  cbn [str_arg bind]. cbv zeta. destruct (_ =? -1); reflexivity.
Qed.

Theorem find_first_code_points : forall cs ps, scalars cs -> scalars ps ->
  find_first (VStr (E cs)) (VStr (E ps)) =
  Ok (match cs, ps with
      | [], _ | _, [] => VNull
      | _, _ => match cp_find_first cs ps with Some i => vint (Z.of_nat i) | None => VNull end
      end).
Proof.
  intros cs ps Hcs Hps. destruct cs as [|c cs]; [reflexivity|].
  pose proof Hcs as H'. apply scalars_cons in H' as [Hc _].
  destruct ps as [|p ps].
  { unfold find_first. cbn [str_arg bind]. destruct (E (c :: cs)); reflexivity. }
  pose proof Hps as H'. apply scalars_cons in H' as [Hp _].
  rewrite find_first_nonempty by (apply encode_all_nonnil; assumption).
  rewrite bindex_encode_all by assumption.
  destruct (cp_find_first (c :: cs) (p :: ps)) as [i|] eqn:Ef; [|reflexivity].
  fold (blen (E (firstn i (c :: cs)))). fold (boff (c :: cs) i).
  pose proof (boff_nonneg (c :: cs) i). destruct (Z.eqb_spec (boff (c :: cs) i) (-1)); [lia|].
  rewrite rune_count_prefix_boff; [reflexivity | assumption | eapply cp_find_first_le, Ef].
Qed.

Theorem find_last_code_points : forall cs ps, scalars cs -> scalars ps ->
  find_last (VStr (E cs)) (VStr (E ps)) =
  Ok (match cs, ps with
      | [], _ | _, [] => VNull
      | _, _ => match cp_find_last cs ps with Some i => vint (Z.of_nat i) | None => VNull end
      end).
Proof.
  intros cs ps Hcs Hps. destruct cs as [|c cs]; [reflexivity|].
  pose proof Hcs as H'. apply scalars_cons in H' as [Hc _].
  destruct ps as [|p ps].
  { unfold find_last. cbn [str_arg bind]. destruct (E (c :: cs)); reflexivity. }
  pose proof Hps as H'. apply scalars_cons in H' as [Hp _].
  rewrite find_last_nonempty by (apply encode_all_nonnil; assumption).
  rewrite blast_index_encode_all by assumption.
  destruct (cp_find_last (c :: cs) (p :: ps)) as [i|] eqn:Ef; [|reflexivity].
  fold (blen (E (firstn i (c :: cs)))). fold (boff (c :: cs) i).
  pose proof (boff_nonneg (c :: cs) i). destruct (Z.eqb_spec (boff (c :: cs) i) (-1)); [lia|].
  rewrite rune_count_prefix_boff; [reflexivity | assumption | eapply cp_find_last_le, Ef].
Qed.

(* --- code point offsets to byte offsets --- *)

Lemma rune_offset_encode_all : forall k cs n, scalars cs ->
  rune_offset k (E cs) n = if (k <=? length cs)%nat then Some (n + boff cs k) else None.
Proof.
  induction k as [|k IH]; intros cs n H.
  - cbn [rune_offset Nat.leb]. rewrite boff_0. f_equal; lia.
  - destruct cs as [|c cs]; [reflexivity|].
    apply scalars_cons in H as [Hc Hcs]. cbn [rune_offset length Nat.leb].
    rewrite encode_all_cons, decode_encode_rune by assumption.
    pose proof (encode_rune_length c Hc).
    destruct (Z.eqb_spec (Z.of_nat (length (encode_rune c))) 0); [lia|].
    rewrite Nat2Z.id, skipn_len_app, IH by assumption.
    destruct (k <=? length cs)%nat; [|reflexivity].
    rewrite boff_S. f_equal. unfold blen. lia.
Qed.

Lemma rune_offset_clamp_encode_all : forall k cs n, scalars cs ->
  rune_offset_clamp k (E cs) n = n + boff cs k.
Proof.
  induction k as [|k IH]; intros cs n H.
  - cbn [rune_offset_clamp]. rewrite boff_0. lia.
  - destruct cs as [|c cs]; [cbn; unfold boff; cbn; lia|].
    apply scalars_cons in H as [Hc Hcs]. cbn [rune_offset_clamp].
    rewrite encode_all_cons, decode_encode_rune by assumption.
    pose proof (encode_rune_length c Hc).
    destruct (Z.eqb_spec (Z.of_nat (length (encode_rune c))) 0); [lia|].
    rewrite Nat2Z.id, skipn_len_app, IH by assumption.
    rewrite boff_S. unfold blen. lia.
Qed.

Lemma firstn_add {A} : forall a m (l : list A), firstn (a + m) l = firstn a l ++ firstn m (skipn a l).
Proof.
  induction a as [|a IH]; intros m l; [reflexivity|]. destruct l as [|x l].
  - cbn. now rewrite firstn_nil.
  - cbn [Nat.add firstn skipn app]. now rewrite IH.
Qed.

Lemma boff_add cs a m : boff cs (a + m) = boff cs a + boff (skipn a cs) m.
Proof. unfold boff. now rewrite firstn_add, encode_all_app, blen_app. Qed.

Lemma blen_encode_all_ge l : scalars l -> Z.of_nat (length l) <= blen (E l).
Proof. intros H. pose proof (length_le_encode_all l H). unfold blen. lia. Qed.

Lemma boff_ge cs i : scalars cs -> (i <= length cs)%nat -> Z.of_nat i <= boff cs i.
Proof.
  intros H Hi. unfold boff. pose proof (blen_encode_all_ge (firstn i cs) (scalars_firstn i cs H)).
  rewrite firstn_length in H0. lia.
Qed.

(* byte offsets of boundaries are strictly increasing in the code point position *)
Lemma boff_mono cs a b : (a <= b)%nat -> boff cs a <= boff cs b.
Proof.
  intros Hab. replace b with (a + (b - a))%nat by lia. rewrite boff_add.
  pose proof (boff_nonneg (skipn a cs) (b - a)). lia.
Qed.

Lemma boff_lt cs a b : scalars cs -> (a < b <= length cs)%nat -> boff cs a < boff cs b.
Proof.
  intros H Hab. replace b with (a + (b - a))%nat by lia. rewrite boff_add.
  pose proof (boff_ge (skipn a cs) (b - a) (scalars_skipn a cs H)) as G.
  rewrite skipn_length in G. specialize (G ltac:(lia)). lia.
Qed.

Lemma boff_le_all cs i : boff cs i <= blen (E cs).
Proof.
  destruct (Nat.le_gt_cases i (length cs)).
  - rewrite <- boff_all. now apply boff_mono.
  - unfold boff. rewrite firstn_all2 by lia. lia.
Qed.

Lemma boff_clamp cs i : (length cs <= i)%nat -> boff cs i = blen (E cs).
Proof. intros H. unfold boff. now rewrite firstn_all2. Qed.

(* start offset: negative clamps to 0; beyond the last code point gives "null" —
   whether the byte-length test or the rune loop notices *)
Lemma start_offset_encode_all cs i : scalars cs ->
  start_offset (E cs) i =
  if i >? Z.of_nat (length cs) then None else Some (boff cs (Z.to_nat (Z.max 0 i))).
Proof.
  intros H. unfold start_offset.
  pose proof (blen_encode_all_ge cs H) as G.
  destruct (Z.ltb_spec i 0).
  { destruct (Z.gtb_spec i (Z.of_nat (length cs))); [lia|].
    replace (Z.to_nat (Z.max 0 i)) with 0%nat by lia. now rewrite boff_0. }
  destruct (Z.gtb_spec i (blen (E cs))).
  { destruct (Z.gtb_spec i (Z.of_nat (length cs))); [reflexivity | lia]. }
  rewrite rune_offset_encode_all by assumption. rewrite Z.max_r by lia.
  destruct (Z.gtb_spec i (Z.of_nat (length cs))).
  - destruct (Nat.leb_spec (Z.to_nat i) (length cs)); [lia | reflexivity].
  - destruct (Nat.leb_spec (Z.to_nat i) (length cs)); [f_equal; lia | lia].
Qed.

(* s[boff a : boff b] is the encoding of the code point window [a, b) *)
Lemma bslice_encode_all cs a b : scalars cs -> (a <= b <= length cs)%nat ->
  bslice (E cs) (boff cs a) (boff cs b) = Ok (E (firstn (b - a) (skipn a cs))).
Proof.
  intros H Hab. unfold bslice.
  pose proof (boff_nonneg cs a). pose proof (boff_mono cs a b ltac:(lia)). pose proof (boff_le_all cs b).
  destruct (Z.leb_spec 0 (boff cs a)); [|lia].
  destruct (Z.leb_spec (boff cs a) (boff cs b)); [|lia].
  destruct (Z.leb_spec (boff cs b) (blen (E cs))); [|lia]. cbn [andb]. f_equal.
  replace b with (a + (b - a))%nat at 1 by lia. rewrite boff_add.
  replace (boff cs a + boff (skipn a cs) (b - a) - boff cs a) with (boff (skipn a cs) (b - a)) by lia.
  rewrite (encode_all_split a cs) at 1. unfold boff at 2. rewrite blen_to_nat, skipn_len_app.
  rewrite (encode_all_split (b - a) (skipn a cs)) at 1. unfold boff. now rewrite blen_to_nat, firstn_len_app.
Qed.

(* the common tail of find_from / find_between *)
Lemma find_window (last : bool) cs ps a b : scalars cs -> scalars ps -> (a <= b <= length cs)%nat ->
  (do t <- bslice (E cs) (boff cs a) (boff cs b);
   let r := if last then blast_index t (E ps) else bindex t (E ps) in
   if r =? -1 then Ok VNull else Ok (vint (rune_count_prefix (E cs) (r + boff cs a)))) =
  Ok (match cp_window_find last cs ps a b with Some m => vint (Z.of_nat m) | None => VNull end).
Proof.
  intros Hcs Hps Hab. rewrite bslice_encode_all by assumption. cbn [bind]. cbv zeta.
  set (w := firstn (b - a) (skipn a cs)).
  assert (Hw : scalars w) by (apply scalars_firstn, scalars_skipn, Hcs).
  assert (Hlw : length w = (b - a)%nat) by (unfold w; rewrite firstn_length, skipn_length; lia).
  assert (R : forall m, (m <= length w)%nat ->
            rune_count_prefix (E cs) (boff w m + boff cs a) = Z.of_nat (a + m)).
  { intros m Hm.
    assert (Ecs : cs = (firstn a cs ++ firstn m w) ++ (skipn m w ++ skipn (b - a) (skipn a cs))).
    { rewrite <- app_assoc, (app_assoc (firstn m w)), firstn_skipn. unfold w. now rewrite !firstn_skipn. }
    rewrite Ecs at 1.
    replace (boff w m + boff cs a) with (blen (E (firstn a cs ++ firstn m w)))
      by (rewrite encode_all_app, blen_app; unfold boff; lia).
    rewrite rune_count_prefix_app
      by (apply scalars_app; split; [apply scalars_firstn, Hcs | apply scalars_firstn, Hw]).
    rewrite app_length, !firstn_length. lia. }
  unfold cp_window_find. fold w.
  destruct last.
  - rewrite blast_index_encode_all by assumption.
    destruct (cp_find_last w ps) as [m|] eqn:Ef; cbn [option_map]; [|reflexivity].
    fold (blen (E (firstn m w))). fold (boff w m).
    pose proof (boff_nonneg w m). destruct (Z.eqb_spec (boff w m) (-1)); [lia|].
    rewrite R by (eapply cp_find_last_le, Ef). reflexivity.
  - rewrite bindex_encode_all by assumption.
    destruct (cp_find_first w ps) as [m|] eqn:Ef; cbn [option_map]; [|reflexivity].
    fold (blen (E (firstn m w))). fold (boff w m).
    pose proof (boff_nonneg w m). destruct (Z.eqb_spec (boff w m) (-1)); [lia|].
    rewrite R by (eapply cp_find_first_le, Ef). reflexivity.
Qed.

(* find_first / find_last with a start offset [i] (a code point position):
   search the code point window [max 0 i, length cs); null when i > length cs *)
(* the byte string is empty exactly when the code point list is *)
Lemma is_nil_encode_all cs : scalars cs ->
  is_nil (E cs) = match cs with [] => true | _ => false end.
Proof.
  intros H. destruct cs as [|c cs]; [reflexivity|]. apply scalars_cons in H as [Hc _].
  destruct (E (c :: cs)) eqn:Ec; [exfalso; revert Ec; apply encode_all_nonnil, Hc | reflexivity].
Qed.

Theorem find_from_code_points : forall last cs ps i, scalars cs -> scalars ps -> i <= MaxInt ->
  find_from last (VStr (E cs)) (VStr (E ps)) (vint i) =
  Ok (if (match cs with [] => true | _ => false end) || (match ps with [] => true | _ => false end)
      then VNull else
      if i >? Z.of_nat (length cs) then VNull else
      match cp_window_find last cs ps (Z.to_nat (Z.max 0 i)) (length cs) with
      | Some m => vint (Z.of_nat m)
      | None => VNull
      end).
Proof.
  intros last cs ps i Hcs Hps Hi. unfold find_from. cbn [str_arg bind].
  rewrite int_arg_vint by assumption. cbn [bind].
  rewrite !is_nil_encode_all by assumption.
  destruct (_ || _); [reflexivity|].
  rewrite start_offset_encode_all by assumption.
  destruct (Z.gtb_spec i (Z.of_nat (length cs))); [reflexivity|].
  rewrite <- boff_all. apply find_window; auto. lia.
Qed.

(* ... and with an end offset [j]: the window is [max 0 i, min (length cs) j) *)
Theorem find_between_code_points : forall last cs ps i j, scalars cs -> scalars ps ->
  i <= MaxInt -> j <= MaxInt ->
  find_between last (VStr (E cs)) (VStr (E ps)) (vint i) (vint j) =
  Ok (if (match cs with [] => true | _ => false end) || (match ps with [] => true | _ => false end)
      then VNull else
      if (i >? Z.of_nat (length cs)) || (j <? 0) then VNull else
      let lo := Z.to_nat (Z.max 0 i) in
      let hi := Nat.min (Z.to_nat j) (length cs) in
      if (hi <? lo)%nat then VNull else
      match cp_window_find last cs ps lo hi with
      | Some m => vint (Z.of_nat m)
      | None => VNull
      end).
Proof.
  intros last cs ps i j Hcs Hps Hi Hj. unfold find_between. cbn [str_arg bind].
  rewrite to_int_vint by assumption. cbn [bind].
  rewrite int_arg_vint by assumption. cbn [bind].
  rewrite !is_nil_encode_all by assumption.
  destruct (_ || _); [reflexivity|].
  rewrite start_offset_encode_all by assumption.
  destruct (Z.gtb_spec i (Z.of_nat (length cs))); [reflexivity|]. cbn [orb].
  destruct (Z.ltb_spec j 0); [reflexivity|]. cbv zeta.
  set (lo := Z.to_nat (Z.max 0 i)). set (hi := Nat.min (Z.to_nat j) (length cs)).
  assert (Hj' : (if j >? blen (E cs) then blen (E cs) else rune_offset_clamp (Z.to_nat j) (E cs) 0)
                = boff cs hi).
  { pose proof (blen_encode_all_ge cs Hcs).
    destruct (Z.gtb_spec j (blen (E cs))).
    - unfold hi. rewrite Nat.min_r by lia. now rewrite boff_all.
    - rewrite rune_offset_clamp_encode_all by assumption. cbn [Z.add]. unfold hi.
      destruct (Nat.le_gt_cases (Z.to_nat j) (length cs)).
      + now rewrite Nat.min_l.
      + rewrite Nat.min_r by lia. rewrite boff_clamp by lia. now rewrite boff_all. }
  rewrite Hj'.
  assert (Hlo : (lo <= length cs)%nat) by (unfold lo; lia).
  assert (Hhi : (hi <= length cs)%nat) by (unfold hi; lia).
  destruct (Nat.ltb_spec hi lo).
  - pose proof (boff_lt cs hi lo Hcs ltac:(lia)).
    destruct (Z.gtb_spec (boff cs lo) (boff cs hi)); [reflexivity | lia].
  - pose proof (boff_mono cs lo hi ltac:(lia)).
    destruct (Z.gtb_spec (boff cs lo) (boff cs hi)); [lia|].
    apply find_window; auto.
Qed.

(* ------------------------------------------------------------------ *)
(* count / split / replace at the code point level                     *)
(* ------------------------------------------------------------------ *)

(* cutting at a match: the pieces before and after are encodings again *)
Lemma cut_at_match cs ps i : scalars cs -> cp_find_first cs ps = Some i ->
  firstn (Z.to_nat (boff cs i)) (E cs) = E (firstn i cs) /\
  skipn (Z.to_nat (boff cs i + blen (E ps))) (E cs) = E (skipn (i + length ps) cs).
Proof.
  intros Hcs Ef. apply cp_find_first_Some in Ef as (Hi & Hp & _).
  apply cp_prefix_spec in Hp as [r Hr]. split.
  - unfold boff. rewrite blen_to_nat. rewrite (encode_all_split i cs) at 1. apply firstn_len_app.
  - assert (Ecs : cs = (firstn i cs ++ ps) ++ r) by (rewrite <- app_assoc, <- Hr; symmetry; apply firstn_skipn).
    assert (Er : skipn (i + length ps) cs = r).
    { rewrite Ecs at 1. replace (i + length ps)%nat with (length (firstn i cs ++ ps)).
      - apply skipn_len_app.
      - rewrite app_length, firstn_length. lia. }
    rewrite Er. rewrite Ecs at 2. rewrite (encode_all_app (_ ++ _) r).
    replace (boff cs i + blen (E ps)) with (blen (E (firstn i cs ++ ps)))
      by (rewrite encode_all_app, blen_app; reflexivity).
    rewrite blen_to_nat. apply skipn_len_app.
Qed.

Lemma index_from_encode_all' cs ps : scalars cs -> scalars ps ->
  bindex (E cs) (E ps) = match cp_find_first cs ps with Some i => boff cs i | None => -1 end.
Proof. intros. rewrite bindex_encode_all by assumption. reflexivity. Qed.

(* strings.Count for a non-empty needle *)
Fixpoint cp_count_f (fuel : nat) (cs ps : list Z) : nat :=
  match fuel with
  | O => O
  | S f => match cp_find_first cs ps with
           | None => O
           | Some i => S (cp_count_f f (skipn (i + length ps) cs) ps)
           end
  end.

Lemma count_f_encode_all ps : scalars ps -> forall fuel cs, scalars cs ->
  count_f fuel (E cs) (E ps) = Z.of_nat (cp_count_f fuel cs ps).
Proof.
  intros Hps. induction fuel as [|f IH]; intros cs Hcs; [reflexivity|].
  cbn [count_f cp_count_f]. cbv zeta. rewrite index_from_encode_all' by assumption.
  destruct (cp_find_first cs ps) as [i|] eqn:Ef; [|reflexivity].
  pose proof (boff_nonneg cs i). destruct (Z.eqb_spec (boff cs i) (-1)); [lia|].
  destruct (cut_at_match cs ps i Hcs Ef) as [_ ->].
  rewrite IH by (apply scalars_skipn, Hcs). lia.
Qed.

Lemma cp_find_first_nil_l ps : ps <> [] -> cp_find_first [] ps = None.
Proof. destruct ps; [congruence | reflexivity]. Qed.

Lemma cp_count_f_fuel ps : ps <> [] -> forall f1 f2 cs,
  (length cs < f1)%nat -> (length cs < f2)%nat -> cp_count_f f1 cs ps = cp_count_f f2 cs ps.
Proof.
  intros Hne. induction f1 as [|f1 IH]; intros f2 cs H1 H2; [lia|].
  destruct f2 as [|f2]; [lia|]. cbn [cp_count_f].
  destruct (cp_find_first cs ps) as [i|] eqn:Ef; [|reflexivity]. f_equal.
  destruct cs as [|c cs]; [rewrite cp_find_first_nil_l in Ef by assumption; discriminate|].
  assert (0 < length ps)%nat by (destruct ps; [congruence | cbn; lia]).
  apply IH; rewrite skipn_length; cbn [length] in *; lia.
Qed.

Definition cp_count (cs ps : list Z) : Z :=
  match ps with
  | [] => Z.of_nat (length cs) + 1
  | _ => Z.of_nat (cp_count_f (S (length cs)) cs ps)
  end.

Theorem bcount_code_points cs ps : scalars cs -> scalars ps ->
  bcount (E cs) (E ps) = cp_count cs ps.
Proof.
  intros Hcs Hps. destruct ps as [|p ps].
  - cbn. now rewrite rune_count_encode_all.
  - unfold bcount, cp_count. pose proof Hps as H'. apply scalars_cons in H' as [Hp _].
    destruct (E (p :: ps)) eqn:Ep; [exfalso; revert Ep; apply encode_all_nonnil, Hp|]. rewrite <- Ep.
    rewrite count_f_encode_all by assumption. f_equal.
    apply cp_count_f_fuel; [discriminate | | lia]. pose proof (length_le_encode_all cs Hcs). lia.
Qed.

(* the splitting loop *)
Fixpoint cp_split (k : nat) (cs ps : list Z) : list (list Z) :=
  match k with
  | O => [cs]
  | S k' => match cp_find_first cs ps with
            | None => [cs]
            | Some i => firstn i cs :: cp_split k' (skipn (i + length ps) cs) ps
            end
  end.

Lemma split_sep_encode_all ps : scalars ps -> forall k cs, scalars cs ->
  split_sep k (E cs) (E ps) = map E (cp_split k cs ps).
Proof.
  intros Hps. induction k as [|k IH]; intros cs Hcs; [reflexivity|].
  cbn [split_sep cp_split]. cbv zeta. rewrite index_from_encode_all' by assumption.
  destruct (cp_find_first cs ps) as [i|] eqn:Ef; [|reflexivity].
  pose proof (boff_nonneg cs i). destruct (Z.ltb_spec (boff cs i) 0); [lia|].
  destruct (cut_at_match cs ps i Hcs Ef) as [-> ->].
  rewrite IH by (apply scalars_skipn, Hcs). reflexivity.
Qed.

Lemma cp_split_scalars ps : forall k cs, scalars cs -> Forall scalars (cp_split k cs ps).
Proof.
  induction k as [|k IH]; intros cs Hcs; cbn [cp_split]; [repeat constructor; assumption|].
  destruct (cp_find_first cs ps); [|repeat constructor; assumption].
  constructor; [apply scalars_firstn, Hcs | apply IH, scalars_skipn, Hcs].
Qed.

Theorem split_code_points cs ps : scalars cs -> scalars ps -> cs <> [] -> ps <> [] ->
  split (VStr (E cs)) (VStr (E ps)) =
  Ok (VArr (map (fun l => VStr (E l)) (cp_split (Z.to_nat (cp_count cs ps)) cs ps))).
Proof.
  intros Hcs Hps Hc Hp.
  assert (Hs : E cs <> []).
  { destruct cs as [|c cs]; [congruence|]. apply scalars_cons in Hcs as [? _]. now apply encode_all_nonnil. }
  rewrite split_nonempty by assumption.
  destruct ps as [|p ps]; [congruence|]. pose proof Hps as H'. apply scalars_cons in H' as [Hp' _].
  destruct (E (p :: ps)) eqn:Ep; [exfalso; revert Ep; apply encode_all_nonnil, Hp'|]. rewrite <- Ep.
  rewrite bcount_code_points, split_sep_encode_all, map_map by assumption. reflexivity.
Qed.

Theorem split_count_code_points cs ps n : scalars cs -> scalars ps -> cs <> [] -> ps <> [] ->
  0 < n <= MaxInt ->
  split_count (VStr (E cs)) (VStr (E ps)) (vint n) =
  Ok (VArr (map (fun l => VStr (E l))
                (cp_split (Z.to_nat (Z.min n (cp_count cs ps))) cs ps))).
Proof.
  intros Hcs Hps Hc Hp Hn.
  assert (Hs : E cs <> []).
  { destruct cs as [|c cs]; [congruence|]. apply scalars_cons in Hcs as [? _]. now apply encode_all_nonnil. }
  rewrite split_count_nonempty by assumption.
  destruct ps as [|p ps]; [congruence|]. pose proof Hps as H'. apply scalars_cons in H' as [Hp' _].
  destruct (E (p :: ps)) eqn:Ep; [exfalso; revert Ep; apply encode_all_nonnil, Hp'|]. rewrite <- Ep.
  cbv zeta. rewrite bcount_code_points, split_sep_encode_all, map_map by assumption.
  replace (if n >? cp_count cs (p :: ps) then cp_count cs (p :: ps) else n)
    with (Z.min n (cp_count cs (p :: ps))) by (destruct (Z.gtb_spec n (cp_count cs (p :: ps))); lia).
  reflexivity.
Qed.

(* the replacing loop; the [None] branch is not reached when k <= count *)
Fixpoint cp_replace_loop (k : nat) (first : bool) (cs os ns : list Z) : list Z :=
  match k with
  | O => cs
  | S k' =>
    match os with
    | [] => let j := if first then 0%nat else 1%nat in
            firstn j cs ++ ns ++ cp_replace_loop k' false (skipn j cs) os ns
    | _ => match cp_find_first cs os with
           | Some i => firstn i cs ++ ns ++ cp_replace_loop k' false (skipn (i + length os) cs) os ns
           | None => cs
           end
    end
  end.

Lemma replace_loop_nil_encode_all ns : forall k first cs, scalars cs ->
  replace_loop k first (E cs) [] (E ns) = E (cp_replace_loop k first cs [] ns).
Proof.
  induction k as [|k IH]; intros first cs Hcs; [reflexivity|].
  cbn [replace_loop cp_replace_loop]. cbv zeta. destruct first.
  - cbn [Z.to_nat firstn skipn app]. rewrite IH by assumption. now rewrite encode_all_app.
  - destruct cs as [|c cs].
    + specialize (IH false [] scalars_nil). change (E []) with (@nil Z) in IH |- *.
      cbn [decode_rune snd Z.to_nat firstn skipn app].
      rewrite IH. now rewrite encode_all_app.
    + apply scalars_cons in Hcs as [Hc Hcs].
      rewrite encode_all_cons, decode_encode_rune by assumption. cbn [snd].
      rewrite Nat2Z.id, firstn_len_app, skipn_len_app. cbn [firstn skipn].
      rewrite IH by assumption. rewrite !encode_all_app, encode_all_single. reflexivity.
Qed.

Lemma replace_loop_encode_all os ns : scalars os -> os <> [] -> forall k fuel cs, scalars cs ->
  (k <= cp_count_f fuel cs os)%nat ->
  replace_loop k false (E cs) (E os) (E ns) = E (cp_replace_loop k false cs os ns).
Proof.
  intros Hos Hne. destruct os as [|o os]; [congruence|].
  pose proof Hos as H'. apply scalars_cons in H' as [Ho _].
  destruct (E (o :: os)) as [|b0 r0] eqn:Eo; [exfalso; revert Eo; apply encode_all_nonnil, Ho|].
  induction k as [|k IH]; intros fuel cs Hcs Hk; [reflexivity|].
  cbn [replace_loop cp_replace_loop]. rewrite <- Eo.
  destruct fuel as [|fuel]; [cbn in Hk; lia|]. cbn [cp_count_f] in Hk.
  rewrite index_from_encode_all' by assumption.
  destruct (cp_find_first cs (o :: os)) as [i|] eqn:Ef; [|lia].
  destruct (cut_at_match cs (o :: os) i Hcs Ef) as [-> ->].
  rewrite Eo, (IH fuel) by (try apply scalars_skipn; auto; lia).
  now rewrite !encode_all_app.
Qed.

Lemma replace_loop_first k s old new : old <> [] ->
  replace_loop k true s old new = replace_loop k false s old new.
Proof. destruct k; [reflexivity|]. destruct old; [congruence | reflexivity]. Qed.

Lemma cp_replace_loop_first k cs os ns : os <> [] ->
  cp_replace_loop k true cs os ns = cp_replace_loop k false cs os ns.
Proof. destruct k; [reflexivity|]. destruct os; [congruence | reflexivity]. Qed.

Lemma beqb_encode_all a b : scalars a -> scalars b -> beqb (E a) (E b) = beqb a b.
Proof.
  intros Ha Hb. destruct (beqb a b) eqn:Eab.
  - apply beqb_eq in Eab. subst. apply beqb_refl.
  - destruct (beqb (E a) (E b)) eqn:Ee; [|reflexivity].
    apply beqb_eq, encode_all_inj in Ee; try assumption. subst. rewrite beqb_refl in Eab. discriminate.
Qed.

(* strings.Replace at the code point level *)
Definition cp_replace (cs os ns : list Z) (n : Z) : list Z :=
  if beqb os ns || (n =? 0) then cs else
  let m := cp_count cs os in
  if m =? 0 then cs else
  let n := if (n <? 0) || (m <? n) then m else n in
  cp_replace_loop (Z.to_nat n) true cs os ns.

Theorem breplace_code_points cs os ns n : scalars cs -> scalars os -> scalars ns ->
  breplace (E cs) (E os) (E ns) n = E (cp_replace cs os ns n).
Proof.
  intros Hcs Hos Hns. unfold breplace, cp_replace.
  rewrite beqb_encode_all, bcount_code_points by assumption.
  destruct (beqb os ns || (n =? 0)); [reflexivity|]. cbv zeta.
  destruct (cp_count cs os =? 0) eqn:Em; [reflexivity|].
  set (k := if (n <? 0) || (cp_count cs os <? n) then cp_count cs os else n).
  assert (Hk : k <= cp_count cs os).
  { unfold k. destruct (Z.ltb_spec n 0); cbn [orb]; [lia|].
    destruct (Z.ltb_spec (cp_count cs os) n); lia. }
  destruct os as [|o os].
  - apply replace_loop_nil_encode_all, Hcs.
  - rewrite replace_loop_first, cp_replace_loop_first by (try discriminate;
      pose proof Hos as H'; apply scalars_cons in H' as [Ho _]; apply encode_all_nonnil, Ho).
    apply (replace_loop_encode_all (o :: os) ns Hos ltac:(discriminate) _ (S (length cs)) cs Hcs).
    unfold cp_count in Hk. lia.
Qed.

Lemma cp_replace_loop_scalars os ns : scalars ns -> forall k first cs, scalars cs ->
  scalars (cp_replace_loop k first cs os ns).
Proof.
  intros Hns. induction k as [|k IH]; intros first cs Hcs; [assumption|].
  cbn [cp_replace_loop]. destruct os.
  - cbv zeta. repeat (apply scalars_app; split); auto using scalars_firstn, scalars_skipn.
  - destruct (cp_find_first cs (z :: os)); [|assumption].
    repeat (apply scalars_app; split); auto using scalars_firstn, scalars_skipn.
Qed.

Lemma cp_replace_scalars cs os ns n : scalars cs -> scalars ns -> scalars (cp_replace cs os ns n).
Proof.
  intros Hcs Hns. unfold cp_replace. destruct (_ || _); [assumption|]. cbv zeta.
  destruct (_ =? 0); [assumption|]. now apply cp_replace_loop_scalars.
Qed.

Theorem replace_code_points cs os ns : scalars cs -> scalars os -> scalars ns ->
  replace (VStr (E cs)) (VStr (E os)) (VStr (E ns)) = Ok (VStr (E (cp_replace cs os ns (-1)))).
Proof. intros. unfold replace. cbn [str_arg bind]. now rewrite breplace_code_points. Qed.

Theorem replace_count_code_points cs os ns n : scalars cs -> scalars os -> scalars ns -> 0 <= n <= MaxInt ->
  replace_count (VStr (E cs)) (VStr (E os)) (VStr (E ns)) (vint n) = Ok (VStr (E (cp_replace cs os ns n))).
Proof.
  intros Hc Ho Hn [H0 Hm]. unfold replace_count. cbn [str_arg bind]. rewrite int_arg_vint by assumption. cbn [bind].
  destruct (Z.ltb_spec n 0); [lia|]. now rewrite breplace_code_points.
Qed.

(* a negative count is an invalid-value error, as for split *)
Theorem replace_count_negative s o nw n : n < 0 -> n <= MaxInt ->
  replace_count (VStr s) (VStr o) (VStr nw) (vint n) = Err ENegativeInteger.
Proof.
  intros Hn Hm. unfold replace_count. cbn [str_arg bind]. rewrite int_arg_vint by assumption. cbn [bind].
  destruct (Z.ltb_spec n 0); [reflexivity|lia].
Qed.

(* join *)
Definition cp_join (sep : list Z) (ls : list (list Z)) : list Z :=
  match ls with
  | [] => []
  | l :: ls' => l ++ flat_map (fun x => sep ++ x) ls'
  end.

Lemma join_loop_encode_all sep : forall ls,
  join_loop (E sep) (map (fun l => VStr (E l)) ls) = Ok (E (flat_map (fun x => sep ++ x) ls)).
Proof.
  induction ls as [|l ls IH]; [reflexivity|]. cbn [map join_loop str_arg bind flat_map].
  rewrite IH. cbn [bind]. now rewrite !encode_all_app, app_assoc.
Qed.

Theorem join_code_points sep ls :
  join (VStr (E sep)) (VArr (map (fun l => VStr (E l)) ls)) = Ok (VStr (E (cp_join sep ls))).
Proof.
  unfold join. cbn [str_arg bind]. destruct ls as [|l ls]; [reflexivity|].
  cbn [map str_arg bind]. rewrite join_loop_encode_all. cbn [bind cp_join]. now rewrite encode_all_app.
Qed.

Lemma cp_join_scalars sep ls : scalars sep -> Forall scalars ls -> scalars (cp_join sep ls).
Proof.
  intros Hs Hl. destruct ls as [|l ls]; [constructor|]. inversion Hl; subst. cbn [cp_join].
  apply scalars_app; split; [assumption|].
  clear Hl H1. induction ls as [|x ls IH]; [constructor|]. inversion H2; subst. cbn [flat_map].
  repeat (apply scalars_app; split); auto.
Qed.

(* slices *)
Definition cp_slice (cs : list Z) (start stop : Z) : list Z :=
  match norm1 (zlen cs) start stop true with
  | BEmpty => []
  | BRange i j => firstn (Z.to_nat (j - i)) (skipn (Z.to_nat i) cs)
  end.

Theorem slice_code_points cs start stop : scalars cs ->
  slice (VStr (E cs)) start stop = Ok (VStr (E (cp_slice cs start stop))).
Proof.
  intros H. unfold slice, cp_slice. rewrite chunks_encode_all by assumption. cbv zeta.
  unfold zlen. rewrite map_length.
  destruct (norm1 _ _ _ _); [reflexivity|].
  now rewrite skipn_map, firstn_map, concat_map_encode_rune.
Qed.

Definition cp_slice_step (cs : list Z) (start stop step : Z) : list Z :=
  let l := zlen cs in
  match norm_step l start stop step with
  | None => []
  | Some (i, n) =>
    if step >? 0 then pick_default cs (Z.to_nat n) i step
    else pick_default (skipn (Z.to_nat (l - 1 - i)) (rev cs)) (Z.to_nat n) 0 (- step)
  end.

Theorem slice_step_code_points cs start stop step : scalars cs -> step <> 0 ->
  slice_step (VStr (E cs)) start stop step = Ok (VStr (E (cp_slice_step cs start stop step))).
Proof.
  intros H Hs. unfold slice_step, cp_slice_step.
  rewrite runes_encode_all, runes_rev_encode_all by assumption. cbv zeta.
  destruct (norm_step _ _ _ _) as [[i n]|]; [|reflexivity].
  destruct (Z.eqb_spec step 0); [congruence|]. destruct (step >? 0); reflexivity.
Qed.

Lemma pick_default_scalars rs : scalars rs -> forall k j step, scalars (pick_default rs k j step).
Proof.
  intros H. induction k as [|k IH]; intros j step; cbn [pick_default]; constructor; [|apply IH].
  destruct (nth_in_or_default (Z.to_nat j) rs RuneError) as [Hin| ->]; [|reflexivity].
  unfold scalars in H. rewrite Forall_forall in H. now apply H.
Qed.

Lemma cp_slice_scalars cs a b : scalars cs -> scalars (cp_slice cs a b).
Proof.
  intros H. unfold cp_slice. destruct (norm1 _ _ _ _); [constructor|].
  apply scalars_firstn, scalars_skipn, H.
Qed.

Lemma cp_slice_step_scalars cs a b s : scalars cs -> scalars (cp_slice_step cs a b s).
Proof.
  intros H. unfold cp_slice_step. cbv zeta. destruct (norm_step _ _ _ _) as [[i n]|]; [|constructor].
  destruct (s >? 0); apply pick_default_scalars; [assumption|]. apply scalars_skipn, scalars_rev, H.
Qed.

(* ------------------------------------------------------------------ *)
(* 7: valid UTF-8 in, valid UTF-8 out                                  *)
(* ------------------------------------------------------------------ *)

(* a byte string that is valid UTF-8 is the encoding of its code points *)
Lemma valid_is_encoding s : bytes_ok s = true -> valid_utf8 s = true ->
  exists cs, scalars cs /\ s = E cs.
Proof. intros Hb Hv. now apply (valid_utf8_iff s Hb). Qed.

Definition valid_str (v : value) : Prop :=
  match v with VStr s => valid_utf8 s = true | _ => True end.

Ltac enc s cs H := let Hb := fresh in let Hv := fresh in
  match goal with
  | Hb : bytes_ok s = true, Hv : valid_utf8 s = true |- _ =>
      destruct (valid_is_encoding s Hb Hv) as (cs & H & ->)
  end.

Theorem reverse_valid s : bytes_ok s = true -> valid_utf8 s = true ->
  exists r, reverse (VStr s) = Ok (VStr r) /\ valid_utf8 r = true.
Proof.
  intros Hb Hv. enc s cs H. eexists; split; [apply reverse_code_points, H|].
  apply valid_utf8_encode_all, scalars_rev, H.
Qed.

Theorem slice_valid s a b : bytes_ok s = true -> valid_utf8 s = true ->
  exists r, slice (VStr s) a b = Ok (VStr r) /\ valid_utf8 r = true.
Proof.
  intros Hb Hv. enc s cs H. eexists; split; [apply slice_code_points, H|].
  apply valid_utf8_encode_all, cp_slice_scalars, H.
Qed.

Theorem slice_step_valid s a b st : bytes_ok s = true -> valid_utf8 s = true -> st <> 0 ->
  exists r, slice_step (VStr s) a b st = Ok (VStr r) /\ valid_utf8 r = true.
Proof.
  intros Hb Hv Hs. enc s cs H. eexists; split; [apply slice_step_code_points; assumption|].
  apply valid_utf8_encode_all, cp_slice_step_scalars, H.
Qed.

Theorem breplace_valid s old new n :
  bytes_ok s = true -> valid_utf8 s = true -> bytes_ok old = true -> valid_utf8 old = true ->
  bytes_ok new = true -> valid_utf8 new = true ->
  valid_utf8 (breplace s old new n) = true.
Proof.
  intros B1 V1 B2 V2 B3 V3. enc s cs H1. enc old os H2. enc new ns H3.
  rewrite breplace_code_points by assumption.
  apply valid_utf8_encode_all, cp_replace_scalars; assumption.
Qed.

Theorem replace_valid s old new :
  bytes_ok s = true -> valid_utf8 s = true -> bytes_ok old = true -> valid_utf8 old = true ->
  bytes_ok new = true -> valid_utf8 new = true ->
  exists r, replace (VStr s) (VStr old) (VStr new) = Ok (VStr r) /\ valid_utf8 r = true.
Proof.
  intros. eexists; split; [reflexivity|]. now apply breplace_valid.
Qed.

Theorem split_valid s p :
  bytes_ok s = true -> valid_utf8 s = true -> bytes_ok p = true -> valid_utf8 p = true ->
  exists l, split (VStr s) (VStr p) = Ok (VArr (map VStr l)) /\
            Forall (fun t => valid_utf8 t = true) l.
Proof.
  intros B1 V1 B2 V2. enc s cs H1. enc p ps H2.
  destruct cs as [|c cs]; [exists []; split; [reflexivity | constructor]|].
  destruct ps as [|q ps].
  - exists (map encode_rune (c :: cs)). split.
    + change (E []) with (@nil Z). rewrite split_empty_code_points by (auto; discriminate).
      now rewrite map_map.
    + rewrite Forall_map. unfold scalars in H1. eapply Forall_impl; [|exact H1].
      intros a Ha. cbv beta in Ha. rewrite <- encode_all_single. apply valid_utf8_encode_all.
      constructor; [assumption | constructor].
  - eexists (map E _). split.
    + rewrite split_code_points by (auto; discriminate). now rewrite map_map.
    + rewrite Forall_map. eapply Forall_impl; [|apply cp_split_scalars, H1].
      intros a Ha. now apply valid_utf8_encode_all.
Qed.

Theorem join_valid sep l :
  bytes_ok sep = true -> valid_utf8 sep = true ->
  Forall (fun t => bytes_ok t = true /\ valid_utf8 t = true) l ->
  exists r, join (VStr sep) (VArr (map VStr l)) = Ok (VStr r) /\ valid_utf8 r = true.
Proof.
  intros B V Hl. enc sep ss Hs.
  assert (exists ls, Forall scalars ls /\ l = map E ls) as (ls & Hls & ->).
  { induction Hl as [|t l [Hb Hv] _ (ls & Hls & ->)]; [exists []; split; [constructor | reflexivity]|].
    destruct (valid_is_encoding t Hb Hv) as (ts & Ht & ->).
    exists (ts :: ls). split; [constructor; assumption | reflexivity]. }
  rewrite map_map. eexists; split; [apply join_code_points|].
  apply valid_utf8_encode_all, cp_join_scalars; assumption.
Qed.

Theorem trim_valid s cut : bytes_ok s = true -> valid_utf8 s = true ->
  bytes_ok cut = true -> valid_utf8 cut = true ->
  (exists r, trim (VStr s) (VStr cut) = Ok (VStr r) /\ valid_utf8 r = true) /\
  (exists r, trim_left (VStr s) (VStr cut) = Ok (VStr r) /\ valid_utf8 r = true) /\
  (exists r, trim_right (VStr s) (VStr cut) = Ok (VStr r) /\ valid_utf8 r = true).
Proof.
  intros B1 V1 B2 V2. enc s cs H1. enc cut ks H2. repeat split.
  - eexists; split; [apply trim_code_points; assumption|].
    apply valid_utf8_encode_all, scalars_dropwhile_end, scalars_dropwhile, H1.
  - eexists; split; [apply trim_left_code_points; assumption|].
    apply valid_utf8_encode_all, scalars_dropwhile, H1.
  - eexists; split; [apply trim_right_code_points; assumption|].
    apply valid_utf8_encode_all, scalars_dropwhile_end, H1.
Qed.

(* trimming needs no assumption on the cutset: any predicate on runes cuts at boundaries *)
Theorem trim_fn_valid p s : bytes_ok s = true -> valid_utf8 s = true ->
  valid_utf8 (trim_left_fn p s) = true /\ valid_utf8 (trim_right_fn p s) = true.
Proof.
  intros B V. enc s cs H. rewrite trim_left_fn_code_points, trim_right_fn_code_points by assumption.
  split; apply valid_utf8_encode_all; [apply scalars_dropwhile | apply scalars_dropwhile_end]; assumption.
Qed.

(* pad: either an error or a valid string *)
Theorem pad_valid left s w p : bytes_ok s = true -> valid_utf8 s = true ->
  bytes_ok p = true -> valid_utf8 p = true -> w <= MaxInt ->
  match pad left (VStr s) (vint w) (Some (VStr p)) with
  | Ok (VStr r) => valid_utf8 r = true
  | Ok _ => False
  | Err e => e = ENegativeInteger \/ e = EPadLength
  | _ => False
  end.
Proof.
  intros B1 V1 B2 V2 Hw. enc s cs H1. enc p qs H2.
  destruct (Z.lt_ge_cases w 0).
  { rewrite pad_negative_width by assumption. now left. }
  destruct qs as [|q [|q' qs]].
  - rewrite pad_length_code_points by (auto; cbn; lia). now right.
  - rewrite encode_all_single. apply scalars_cons in H2 as [Hq _].
    rewrite pad_code_points_gen by (auto; lia).
    apply valid_utf8_encode_all. unfold cp_pad. cbv zeta.
    destruct left; apply scalars_app; split; auto using scalars_repeat.
  - rewrite pad_length_code_points by (auto; cbn; lia). now right.
Qed.

(* ------------------------------------------------------------------ *)
(* the empty needle; starts_with / ends_with                           *)
(* ------------------------------------------------------------------ *)

(* with a start offset (and an end offset) an empty needle or an empty subject answers
   null, whatever the offsets - just like find_first / find_last *)
Corollary find_from_empty_needle last cs i : scalars cs -> i <= MaxInt ->
  find_from last (VStr (E cs)) (VStr []) (vint i) = Ok VNull.
Proof.
  intros H Hm. change (VStr []) with (VStr (E [])).
  rewrite find_from_code_points by (auto using scalars_nil).
  now rewrite orb_true_r.
Qed.

Corollary find_between_empty_needle last cs i j : scalars cs -> i <= MaxInt -> j <= MaxInt ->
  find_between last (VStr (E cs)) (VStr []) (vint i) (vint j) = Ok VNull.
Proof.
  intros H Hi Hj. change (VStr []) with (VStr (E [])).
  rewrite find_between_code_points by (auto using scalars_nil).
  now rewrite orb_true_r.
Qed.

Corollary find_from_empty_subject last ps i : scalars ps -> i <= MaxInt ->
  find_from last (VStr []) (VStr (E ps)) (vint i) = Ok VNull.
Proof.
  intros H Hm. change (VStr []) with (VStr (E [])).
  rewrite find_from_code_points by (auto using scalars_nil). reflexivity.
Qed.

Corollary find_between_empty_subject last ps i j : scalars ps -> i <= MaxInt -> j <= MaxInt ->
  find_between last (VStr []) (VStr (E ps)) (vint i) (vint j) = Ok VNull.
Proof.
  intros H Hi Hj. change (VStr []) with (VStr (E [])).
  rewrite find_between_code_points by (auto using scalars_nil). reflexivity.
Qed.

Theorem starts_with_code_points cs ps : scalars cs -> scalars ps ->
  starts_with (VStr (E cs)) (VStr (E ps)) = Ok (VBool (cp_prefix ps cs)).
Proof.
  intros Hcs Hps. unfold starts_with, bhas_prefix. cbn [str_arg bind].
  now rewrite is_prefix_encode_all.
Qed.

Lemma is_suffix_spec (p s : bytes) : is_prefix (rev p) (rev s) = true <-> exists r, s = r ++ p.
Proof.
  rewrite is_prefix_spec. split; intros [r Hr].
  - exists (rev r). rewrite <- (rev_involutive s), Hr, rev_app_distr, rev_involutive. reflexivity.
  - exists (rev r). rewrite Hr, rev_app_distr. reflexivity.
Qed.

(* wherever a needle that begins with a lead byte matches, a code point begins *)
Lemma skip_cont_match b P rest : is_cont b = false -> forall k n, all_cont k ->
  is_prefix (b :: P) (skipn n (k ++ rest)) = true ->
  exists m, n = (length k + m)%nat /\ is_prefix (b :: P) (skipn m rest) = true.
Proof.
  intros Hb. induction k as [|y k IH]; intros n Hk Hm.
  - exists n. split; [reflexivity | exact Hm].
  - inversion Hk; subst. destruct n as [|n].
    + cbn [skipn app] in Hm. rewrite is_prefix_cont in Hm by assumption. discriminate.
    + cbn [skipn app] in Hm. destruct (IH n H2 Hm) as (m & -> & Hm'). exists m. split; [reflexivity | exact Hm'].
Qed.

Lemma match_boundary b P : is_cont b = false -> forall cs n, scalars cs ->
  is_prefix (b :: P) (skipn n (E cs)) = true ->
  exists i, (i <= length cs)%nat /\ Z.of_nat n = boff cs i.
Proof.
  intros Hb. induction cs as [|c cs IH]; intros n Hcs Hm.
  - change (E []) with (@nil Z) in Hm. rewrite skipn_nil in Hm. discriminate.
  - apply scalars_cons in Hcs as [Hc Hcs].
    destruct n as [|n]; [exists 0%nat; split; [lia | reflexivity]|].
    destruct (encode_rune_lead c Hc) as (x & k & Ec & Hx & Hk).
    rewrite encode_all_cons, Ec in Hm. cbn [app skipn] in Hm.
    destruct (skip_cont_match b P (E cs) Hb k n Hk Hm) as (m & -> & Hm').
    destruct (IH m Hcs Hm') as (i & Hi & Ei). exists (S i). split; [cbn; lia|].
    rewrite boff_S, Ec, blen_cons. unfold blen. lia.
Qed.

Theorem ends_with_code_points cs ps : scalars cs -> scalars ps ->
  ends_with (VStr (E cs)) (VStr (E ps)) = Ok (VBool (cp_prefix (rev ps) (rev cs))).
Proof.
  intros Hcs Hps. unfold ends_with, bhas_suffix. cbn [str_arg bind]. do 2 f_equal.
  apply eq_true_iff_eq. rewrite is_suffix_spec, cp_prefix_spec. split.
  - intros [r Hr]. destruct ps as [|p ps]; [exists (rev cs); reflexivity|].
    pose proof Hps as H'. apply scalars_cons in H' as [Hp _].
    destruct (encode_all_lead p ps Hp) as (b & P & EP & Hb).
    assert (Hm : is_prefix (b :: P) (skipn (length r) (E cs)) = true).
    { rewrite Hr, skipn_len_app, EP. apply is_prefix_spec. exists []. now rewrite app_nil_r. }
    destruct (match_boundary b P Hb cs (length r) Hcs Hm) as (i & Hi & Ei).
    assert (Er : r = E (firstn i cs)).
    { rewrite <- (firstn_len_app r (E (p :: ps))), <- Hr.
      rewrite (encode_all_split i cs).
      replace (length r) with (length (E (firstn i cs))) by (unfold boff, blen in Ei; lia).
      apply firstn_len_app. }
    assert (Es : E (p :: ps) = E (skipn i cs)).
    { rewrite (encode_all_split i cs), Er in Hr. now apply app_inv_head in Hr. }
    apply encode_all_inj in Es; [|assumption|apply scalars_skipn, Hcs].
    exists (rev (firstn i cs)). rewrite Es, <- rev_app_distr, firstn_skipn. reflexivity.
  - intros [r Hr]. exists (E (rev r)).
    rewrite <- (rev_involutive cs), Hr, rev_app_distr, rev_involutive, encode_all_app. reflexivity.
Qed.

(* ------------------------------------------------------------------ *)
(* 9: renaming code points by a strictly monotone map                  *)
(* ------------------------------------------------------------------ *)

Section Renaming.
Variable f : Z -> Z.
Hypothesis f_scalar : forall c, scalar_ok c = true -> scalar_ok (f c) = true.
Hypothesis f_mono : forall c d, scalar_ok c = true -> scalar_ok d = true -> c < d -> f c < f d.

Lemma f_inj c d : scalar_ok c = true -> scalar_ok d = true -> f c = f d -> c = d.
Proof.
  intros Hc Hd Hf. destruct (Z.lt_trichotomy c d) as [L|[L|L]]; [|assumption|].
  - pose proof (f_mono c d Hc Hd L). lia.
  - pose proof (f_mono d c Hd Hc L). lia.
Qed.

Lemma f_eqb c d : scalar_ok c = true -> scalar_ok d = true -> (f c =? f d) = (c =? d).
Proof.
  intros Hc Hd. destruct (Z.eqb_spec c d) as [->|Hne]; [apply Z.eqb_refl|].
  apply Z.eqb_neq. intros Hf. apply Hne, f_inj; assumption.
Qed.

Lemma f_compare c d : scalar_ok c = true -> scalar_ok d = true -> (f c ?= f d) = (c ?= d).
Proof.
  intros Hc Hd. destruct (Z.compare_spec c d) as [->|L|L].
  - apply Z.compare_refl.
  - apply Z.compare_lt_iff, f_mono; assumption.
  - apply Z.compare_gt_iff, f_mono; assumption.
Qed.

Lemma scalars_map cs : scalars cs -> scalars (map f cs).
Proof. intros H. induction H; cbn [map]; constructor; auto. Qed.

Lemma cp_prefix_map : forall ps cs, scalars ps -> scalars cs ->
  cp_prefix (map f ps) (map f cs) = cp_prefix ps cs.
Proof.
  induction ps as [|p ps IH]; intros cs Hps Hcs; [reflexivity|]. destruct cs as [|c cs]; [reflexivity|].
  apply scalars_cons in Hps as [Hp Hps]. apply scalars_cons in Hcs as [Hc Hcs].
  cbn [map cp_prefix]. now rewrite f_eqb, IH.
Qed.

Lemma cp_index_from_map ps : scalars ps -> forall cs k, scalars cs ->
  cp_index_from (map f cs) (map f ps) k = cp_index_from cs ps k.
Proof.
  intros Hps. induction cs as [|c cs IH]; intros k Hcs.
  - pose proof (cp_prefix_map ps [] Hps scalars_nil) as Hn. cbn [map] in Hn |- *.
    cbn [cp_index_from]. now rewrite Hn.
  - pose proof (cp_prefix_map ps (c :: cs) Hps Hcs) as Hn. cbn [map] in Hn |- *.
    cbn [cp_index_from]. rewrite Hn.
    rewrite IH; [reflexivity|]. apply scalars_cons in Hcs; tauto.
Qed.

Lemma cp_last_index_from_map ps : scalars ps -> forall cs k b, scalars cs ->
  cp_last_index_from (map f cs) (map f ps) k b = cp_last_index_from cs ps k b.
Proof.
  intros Hps. induction cs as [|c cs IH]; intros k b Hcs.
  - pose proof (cp_prefix_map ps [] Hps scalars_nil) as Hn. cbn [map] in Hn |- *.
    cbn [cp_last_index_from]. now rewrite Hn.
  - pose proof (cp_prefix_map ps (c :: cs) Hps Hcs) as Hn. cbn [map] in Hn |- *.
    cbn [cp_last_index_from]. rewrite Hn.
    rewrite IH; [reflexivity|]. apply scalars_cons in Hcs; tauto.
Qed.

Theorem cp_find_first_map cs ps : scalars cs -> scalars ps ->
  cp_find_first (map f cs) (map f ps) = cp_find_first cs ps.
Proof. intros. now apply cp_index_from_map. Qed.

Theorem cp_find_last_map cs ps : scalars cs -> scalars ps ->
  cp_find_last (map f cs) (map f ps) = cp_find_last cs ps.
Proof. intros. now apply cp_last_index_from_map. Qed.

Theorem cp_window_find_map last cs ps lo hi : scalars cs -> scalars ps ->
  cp_window_find last (map f cs) (map f ps) lo hi = cp_window_find last cs ps lo hi.
Proof.
  intros Hcs Hps. unfold cp_window_find. rewrite skipn_map, firstn_map.
  assert (scalars (firstn (hi - lo) (skipn lo cs))) by (apply scalars_firstn, scalars_skipn, Hcs).
  destruct last; [rewrite cp_find_last_map | rewrite cp_find_first_map]; auto.
Qed.

Theorem zlist_cmp_map : forall a b, scalars a -> scalars b ->
  zlist_cmp (map f a) (map f b) = zlist_cmp a b.
Proof.
  induction a as [|x a IH]; destruct b as [|y b]; intros Ha Hb; try reflexivity.
  apply scalars_cons in Ha as [Hx Ha]. apply scalars_cons in Hb as [Hy Hb].
  cbn [map zlist_cmp]. now rewrite f_compare, IH.
Qed.

Lemma map_repeat_f p n : map f (repeat p n) = repeat (f p) n.
Proof. induction n; cbn; congruence. Qed.

Theorem cp_pad_map left cs p w : cp_pad left (map f cs) (f p) w = map f (cp_pad left cs p w).
Proof.
  unfold cp_pad. cbv zeta. rewrite map_length.
  destruct left; now rewrite map_app, map_repeat_f.
Qed.

Lemma cp_count_f_map ps : scalars ps -> forall fuel cs, scalars cs ->
  cp_count_f fuel (map f cs) (map f ps) = cp_count_f fuel cs ps.
Proof.
  intros Hps. induction fuel as [|fu IH]; intros cs Hcs; [reflexivity|]. cbn [cp_count_f].
  rewrite cp_find_first_map by assumption. destruct (cp_find_first cs ps); [|reflexivity].
  rewrite map_length, skipn_map, IH by (apply scalars_skipn, Hcs). reflexivity.
Qed.

Theorem cp_count_map cs ps : scalars cs -> scalars ps -> cp_count (map f cs) (map f ps) = cp_count cs ps.
Proof.
  intros Hcs Hps. unfold cp_count. destruct ps; cbn [map]; rewrite map_length; [reflexivity|].
  f_equal. now apply (cp_count_f_map (z :: ps)).
Qed.

Theorem cp_split_map ps : scalars ps -> forall k cs, scalars cs ->
  cp_split k (map f cs) (map f ps) = map (map f) (cp_split k cs ps).
Proof.
  intros Hps. induction k as [|k IH]; intros cs Hcs; [reflexivity|]. cbn [cp_split].
  rewrite cp_find_first_map by assumption. destruct (cp_find_first cs ps); [|reflexivity].
  rewrite map_length, skipn_map, firstn_map, IH by (apply scalars_skipn, Hcs). reflexivity.
Qed.

Lemma beqb_map : forall a b, scalars a -> scalars b -> beqb (map f a) (map f b) = beqb a b.
Proof.
  induction a as [|x a IH]; destruct b as [|y b]; intros Ha Hb; try reflexivity.
  apply scalars_cons in Ha as [Hx Ha]. apply scalars_cons in Hb as [Hy Hb].
  cbn [map beqb]. now rewrite f_eqb, IH.
Qed.

Lemma cp_replace_loop_map os ns : scalars os -> forall k first cs, scalars cs ->
  cp_replace_loop k first (map f cs) (map f os) (map f ns) = map f (cp_replace_loop k first cs os ns).
Proof.
  intros Hos. induction k as [|k IH]; intros first cs Hcs; [reflexivity|].
  cbn [cp_replace_loop]. destruct os as [|o os]; cbn [map].
  - cbv zeta. change (@nil Z) with (map f []) at 2.
    rewrite skipn_map, firstn_map, IH by (apply scalars_skipn, Hcs). now rewrite !map_app.
  - change (f o :: map f os) with (map f (o :: os)).
    rewrite cp_find_first_map by assumption. destruct (cp_find_first cs (o :: os)); [|reflexivity].
    rewrite map_length, skipn_map, firstn_map, IH by (apply scalars_skipn, Hcs). now rewrite !map_app.
Qed.

Theorem cp_replace_map cs os ns n : scalars cs -> scalars os -> scalars ns ->
  cp_replace (map f cs) (map f os) (map f ns) n = map f (cp_replace cs os ns n).
Proof.
  intros Hcs Hos Hns. unfold cp_replace. rewrite beqb_map, cp_count_map by assumption.
  destruct (_ || _); [reflexivity|]. cbv zeta. destruct (_ =? 0); [reflexivity|].
  now apply cp_replace_loop_map.
Qed.

Theorem cp_join_map sep ls : cp_join (map f sep) (map (map f) ls) = map f (cp_join sep ls).
Proof.
  destruct ls as [|l ls]; [reflexivity|]. cbn [map cp_join]. rewrite map_app. f_equal.
  induction ls as [|x ls IH]; [reflexivity|]. cbn [map flat_map]. now rewrite IH, !map_app.
Qed.

Theorem cp_dropwhile_map p cs : cp_dropwhile p (map f cs) = map f (cp_dropwhile (fun c => p (f c)) cs).
Proof. induction cs as [|c cs IH]; [reflexivity|]. cbn [map cp_dropwhile]. now destruct (p (f c)). Qed.

Theorem cp_dropwhile_end_map p cs :
  cp_dropwhile_end p (map f cs) = map f (cp_dropwhile_end (fun c => p (f c)) cs).
Proof. unfold cp_dropwhile_end. now rewrite <- map_rev, cp_dropwhile_map, map_rev. Qed.

Lemma cp_dropwhile_ext p q cs : (forall c, In c cs -> p c = q c) -> cp_dropwhile p cs = cp_dropwhile q cs.
Proof.
  induction cs as [|c cs IH]; intros H; [reflexivity|]. cbn [cp_dropwhile].
  rewrite (H c) by (left; reflexivity). destruct (q c); [|reflexivity]. apply IH. intros; apply H; now right.
Qed.

(* a non-empty cutset is renamed along with the data *)
Lemma cp_cut_map ks x : ks <> [] -> scalars ks -> scalar_ok x = true ->
  cp_cut (map f ks) (f x) = cp_cut ks x.
Proof.
  intros Hne Hks Hx. destruct ks as [|k ks]; [congruence|]. unfold cp_cut. cbn [map].
  change (f k :: map f ks) with (map f (k :: ks)). clear Hne.
  induction Hks as [|a l Ha _ IH]; [reflexivity|]. cbn [map existsb]. now rewrite f_eqb, IH.
Qed.

Theorem cp_trim_left_map ks cs : ks <> [] -> scalars ks -> scalars cs ->
  cp_dropwhile (cp_cut (map f ks)) (map f cs) = map f (cp_dropwhile (cp_cut ks) cs).
Proof.
  intros Hne Hks Hcs. rewrite cp_dropwhile_map. f_equal. apply cp_dropwhile_ext.
  intros c Hc. apply cp_cut_map; auto. unfold scalars in Hcs. rewrite Forall_forall in Hcs. now apply Hcs.
Qed.

Theorem cp_trim_right_map ks cs : ks <> [] -> scalars ks -> scalars cs ->
  cp_dropwhile_end (cp_cut (map f ks)) (map f cs) = map f (cp_dropwhile_end (cp_cut ks) cs).
Proof.
  intros Hne Hks Hcs. unfold cp_dropwhile_end. rewrite <- map_rev.
  rewrite cp_trim_left_map by (auto using scalars_rev). now rewrite map_rev.
Qed.

Theorem cp_slice_map cs a b : cp_slice (map f cs) a b = map f (cp_slice cs a b).
Proof.
  unfold cp_slice, zlen. rewrite map_length. destruct (norm1 _ _ _ _); [reflexivity|].
  now rewrite skipn_map, firstn_map.
Qed.

(* stepped slices pad out-of-range reads with U+FFFD, so that one must be fixed *)
Lemma pick_default_map rs : f RuneError = RuneError -> forall k j step,
  pick_default (map f rs) k j step = map f (pick_default rs k j step).
Proof.
  intros Hf. induction k as [|k IH]; intros j step; [reflexivity|]. cbn [pick_default map].
  rewrite IH. f_equal. rewrite <- Hf at 1. apply map_nth.
Qed.

Theorem cp_slice_step_map cs a b s : f RuneError = RuneError ->
  cp_slice_step (map f cs) a b s = map f (cp_slice_step cs a b s).
Proof.
  intros Hf. unfold cp_slice_step, zlen. rewrite map_length. cbv zeta.
  destruct (norm_step _ _ _ _) as [[i n]|]; [|reflexivity].
  destruct (s >? 0); [now apply pick_default_map|].
  rewrite <- map_rev, skipn_map. now apply pick_default_map.
Qed.

(* --- consequences for the library functions: renaming the characters of the data
       and of the literals renames the result the same way --- *)

Theorem length_rename cs : scalars cs ->
  length_ (VStr (E (map f cs))) = length_ (VStr (E cs)).
Proof. intros H. rewrite !length_code_points, map_length; auto using scalars_map. Qed.

Theorem reverse_rename cs : scalars cs ->
  reverse (VStr (E (map f cs))) = Ok (VStr (E (map f (rev cs)))).
Proof. intros H. rewrite reverse_code_points, map_rev; auto using scalars_map. Qed.

Theorem compare_rename a b : scalars a -> scalars b ->
  bcmp (E (map f a)) (E (map f b)) = bcmp (E a) (E b).
Proof. intros Ha Hb. rewrite !bcmp_encode_all, zlist_cmp_map; auto using scalars_map. Qed.

Theorem find_first_rename cs ps : scalars cs -> scalars ps ->
  find_first (VStr (E (map f cs))) (VStr (E (map f ps))) = find_first (VStr (E cs)) (VStr (E ps)).
Proof.
  intros Hcs Hps. rewrite !find_first_code_points, cp_find_first_map; auto using scalars_map.
  destruct cs, ps; reflexivity.
Qed.

Theorem find_last_rename cs ps : scalars cs -> scalars ps ->
  find_last (VStr (E (map f cs))) (VStr (E (map f ps))) = find_last (VStr (E cs)) (VStr (E ps)).
Proof.
  intros Hcs Hps. rewrite !find_last_code_points, cp_find_last_map; auto using scalars_map.
  destruct cs, ps; reflexivity.
Qed.

Theorem find_from_rename last cs ps i : scalars cs -> scalars ps -> i <= MaxInt ->
  find_from last (VStr (E (map f cs))) (VStr (E (map f ps))) (vint i) =
  find_from last (VStr (E cs)) (VStr (E ps)) (vint i).
Proof.
  intros Hcs Hps Hi. rewrite !find_from_code_points, cp_window_find_map, map_length; auto using scalars_map.
  destruct cs, ps; reflexivity.
Qed.

Theorem find_between_rename last cs ps i j : scalars cs -> scalars ps -> i <= MaxInt -> j <= MaxInt ->
  find_between last (VStr (E (map f cs))) (VStr (E (map f ps))) (vint i) (vint j) =
  find_between last (VStr (E cs)) (VStr (E ps)) (vint i) (vint j).
Proof.
  intros Hcs Hps Hi Hj. rewrite !find_between_code_points; auto using scalars_map.
  rewrite map_length. cbv zeta. rewrite cp_window_find_map by assumption.
  destruct cs, ps; reflexivity.
Qed.

Theorem pad_rename left cs p w : scalars cs -> scalar_ok p = true -> 0 <= w <= MaxInt ->
  pad left (VStr (E (map f cs))) (vint w) (Some (VStr (encode_rune (f p)))) =
  Ok (VStr (E (map f (cp_pad left cs p w)))).
Proof. intros Hcs Hp Hw. rewrite pad_code_points_gen, cp_pad_map; auto using scalars_map. Qed.

Theorem split_rename cs ps : scalars cs -> scalars ps -> cs <> [] -> ps <> [] ->
  split (VStr (E (map f cs))) (VStr (E (map f ps))) =
  Ok (VArr (map (fun l => VStr (E (map f l))) (cp_split (Z.to_nat (cp_count cs ps)) cs ps))).
Proof.
  intros Hcs Hps Hc Hp.
  rewrite split_code_points; auto using scalars_map; try (destruct cs; [congruence | discriminate]);
    try (destruct ps; [congruence | discriminate]).
  rewrite cp_count_map, cp_split_map, map_map by assumption. reflexivity.
Qed.

Theorem split_empty_rename cs : scalars cs -> cs <> [] ->
  split (VStr (E (map f cs))) (VStr []) = Ok (VArr (map (fun c => VStr (encode_rune (f c))) cs)).
Proof.
  intros Hcs Hc. rewrite split_empty_code_points; auto using scalars_map;
    try (destruct cs; [congruence | discriminate]).
  now rewrite map_map.
Qed.

Theorem replace_rename cs os ns : scalars cs -> scalars os -> scalars ns ->
  replace (VStr (E (map f cs))) (VStr (E (map f os))) (VStr (E (map f ns))) =
  Ok (VStr (E (map f (cp_replace cs os ns (-1))))).
Proof. intros. rewrite replace_code_points, cp_replace_map; auto using scalars_map. Qed.

Theorem join_rename sep ls :
  join (VStr (E (map f sep))) (VArr (map (fun l => VStr (E (map f l))) ls)) =
  Ok (VStr (E (map f (cp_join sep ls)))).
Proof.
  rewrite <- cp_join_map, <- join_code_points, map_map. reflexivity.
Qed.

Theorem trim_rename cs ks : scalars cs -> scalars ks -> ks <> [] ->
  trim (VStr (E (map f cs))) (VStr (E (map f ks))) =
  Ok (VStr (E (map f (cp_dropwhile_end (cp_cut ks) (cp_dropwhile (cp_cut ks) cs))))).
Proof.
  intros Hcs Hks Hne. rewrite trim_code_points by auto using scalars_map.
  rewrite cp_trim_left_map, cp_trim_right_map by auto using scalars_dropwhile. reflexivity.
Qed.

Theorem slice_rename cs a b : scalars cs ->
  slice (VStr (E (map f cs))) a b = Ok (VStr (E (map f (cp_slice cs a b)))).
Proof. intros. rewrite slice_code_points, cp_slice_map; auto using scalars_map. Qed.

Theorem slice_step_rename cs a b s : scalars cs -> s <> 0 -> f RuneError = RuneError ->
  slice_step (VStr (E (map f cs))) a b s = Ok (VStr (E (map f (cp_slice_step cs a b s)))).
Proof. intros. rewrite slice_step_code_points, cp_slice_step_map; auto using scalars_map. Qed.

End Renaming.

Print Assumptions find_first_code_points.
Print Assumptions find_between_code_points.
Print Assumptions breplace_valid.
Print Assumptions find_between_rename.
Print Assumptions find_from_code_points.
Print Assumptions find_from_empty_needle.
Print Assumptions find_between_empty_needle.
Print Assumptions find_from_empty_subject.
Print Assumptions find_between_empty_subject.
Print Assumptions find_from_rename.
