(* C10: precedence and associativity of the operator fragment, at token level.
   An operator expression is printed with minimal parentheses ([toks]); the
   Pratt parser of Model/Parser.v reads the printed tokens back to the tree the
   expression denotes ([compile]).  Consequences: explicit parentheses never
   change the AST, binary operators associate to the left and group by the
   precedence table, prefix operators bind tighter than every binary one. *)
From Coq Require Import List ZArith Bool Lia.
From JM Require Import Base.Outcome Base.Bytes Model.Token Model.Lexer Model.Ast
  Model.Literals Model.Parser.
Import ListNotations.
Open Scope Z_scope.

(* ================================================================== *)
(* Syntax of the fragment, its meaning and its printer                 *)
(* ================================================================== *)

(* the 15 ASCII binary operators:  |  ||  &&  ==  !=  <  <=  >  >=  +  -  *  /  //  % *)
Inductive bop :=
| BPipe | BOr | BAnd | BEq | BNe | BLt | BLe | BGt | BGe | BAdd | BSub | BMul | BDiv | BIDiv | BMod.

Inductive oexp :=
| OAtom (name : bytes)
| OBin (op : bop) (l r : oexp)
| ONot (e : oexp) | ONeg (e : oexp) | OPos (e : oexp)
| OParen (e : oexp).

Definition btype (op : bop) : ttype :=
  match op with
  | BPipe => TPipe | BOr => TOr | BAnd => TAnd
  | BEq => TEqual | BNe => TNotEqual | BLt => TLess | BLe => TLessOrEqual
  | BGt => TGreater | BGe => TGreaterOrEqual
  | BAdd => TAdd | BSub => TSubtract
  | BMul => TAsterisk | BDiv => TDivide | BIDiv => TIntegerDivide | BMod => TModulo
  end.

Definition level (op : bop) : Z :=
  match op with
  | BPipe => 2
  | BOr => 3
  | BAnd => 4
  | BEq | BNe | BLt | BLe | BGt | BGe => 5
  | BAdd | BSub => 6
  | BMul | BDiv | BIDiv | BMod => 7
  end.

Lemma level_precedence op : level op = precedence (btype op).
Proof. destruct op; reflexivity. Qed.

Lemma level_range op : 2 <= level op <= 7.
Proof. destruct op; cbn; lia. Qed.

(* the node the parser builds for [l op r] *)
Definition mk (op : bop) (l r : node) : node :=
  match op with
  | BPipe => NPipe l r | BOr => NOr l r | BAnd => NAnd l r
  | BEq => NBin OEq l r | BNe => NBin ONe l r | BLt => NBin OLt l r | BLe => NBin OLe l r
  | BGt => NBin OGt l r | BGe => NBin OGe l r
  | BAdd => NBin OAdd l r | BSub => NBin OSub l r
  | BMul => NBin OMul l r | BDiv => NBin ODiv l r | BIDiv => NBin OIDiv l r | BMod => NBin OMod l r
  end.

Fixpoint compile (e : oexp) : node :=
  match e with
  | OAtom a => NField a
  | OBin op l r => mk op (compile l) (compile r)
  | ONot e' => NNot (compile e')
  | ONeg e' => NNegate (compile e')
  | OPos e' => NAssertNumber (compile e')
  | OParen e' => compile e'
  end.

Definition tk (t : ttype) : token := Tok t [].
Definition ident (a : bytes) : token := Tok TUnquotedIdentifier a.
Definition wrap (ts : list token) : list token := tk TOpenParen :: ts ++ [tk TCloseParen].

(* minimal parentheses: [toks p e] is [e] as an operand in a place that needs
   binding power > p.  The left operand of an operator of level q may itself
   be of level q (left associativity); the right one must be strictly tighter.
   Prefix operators never need parentheses around themselves. *)
Fixpoint toks (p : Z) (e : oexp) : list token :=
  match e with
  | OAtom a => [ident a]
  | OBin op l r =>
    let body := toks (level op - 1) l ++ tk (btype op) :: toks (level op) r in
    if p <? level op then body else wrap body
  | ONot e' => tk TNot :: toks 12 e'
  | ONeg e' => tk TSubtract :: toks 7 e'
  | OPos e' => tk TAdd :: toks 7 e'
  | OParen e' => wrap (toks 0 e')
  end.

Fixpoint full_paren (e : oexp) : oexp :=
  match e with
  | OAtom a => OAtom a
  | OBin op l r => OParen (OBin op (full_paren l) (full_paren r))
  | ONot e' => OParen (ONot (full_paren e'))
  | ONeg e' => OParen (ONeg (full_paren e'))
  | OPos e' => OParen (OPos (full_paren e'))
  | OParen e' => OParen (full_paren e')
  end.

(* the token stream handed to the parser: the tokens followed by End *)
Definition tend : token := Tok TEnd [].
Definition items (ts : list token) : list item := map ITok ts ++ [ITok tend].

(* ================================================================== *)
(* Parser states over a token list                                     *)
(* ================================================================== *)

(* the state [parse_items] starts from, and every state reached by [advance] *)
Definition st_of (ts : list token) : pst :=
  {| curr := hd tend ts; next := hd tend (tl ts); rest := items (tl (tl ts)) |}.

Lemma pull_items ts : pull (items ts) = Ok (hd tend ts, items (tl ts)).
Proof. destruct ts as [|t [|u ts]]; reflexivity. Qed.

Lemma advance_st ts : advance (st_of ts) = Ok (st_of (tl ts)).
Proof. unfold advance, st_of. cbn [rest next]. rewrite pull_items. reflexivity. Qed.

Lemma advance_cons t ts : advance (st_of (t :: ts)) = Ok (st_of ts).
Proof. apply advance_st. Qed.

Lemma ct_cons t ts : ct (st_of (t :: ts)) = ttyp t.
Proof. reflexivity. Qed.

Definition hdt (ts : list token) : ttype := ttyp (hd tend ts).

Lemma ct_st ts : ct (st_of ts) = hdt ts.
Proof. reflexivity. Qed.

Lemma nt_cons t ts : nt (st_of (t :: ts)) = hdt ts.
Proof. reflexivity. Qed.

Lemma parse_items_st fuel ts :
  parse_items fuel (items ts) =
  bind (run fuel (CExpr 1) (st_of ts)) (fun r =>
    match r with
    | (Some n, st) => if negb (is (ct st) TEnd) then unexpected_curr st else Ok n
    | (None, _) => Panic PNilDeref
    end).
Proof. unfold parse_items. rewrite pull_items. cbn [bind]. rewrite pull_items. reflexivity. Qed.

(* ================================================================== *)
(* One step of the parser on the tokens of the fragment                *)
(* ================================================================== *)

Lemma run_expr f p st :
  run (S f) (CExpr p) st =
  bind (primary (run f) f st) (fun r => let '(n, st') := r in run f (CCont (Some n) p) st').
Proof. reflexivity. Qed.

(* the loop of parser.continuation ends at a token that does not bind tighter *)
Lemma run_cont_stop f n p st : precedence (ct st) <= p -> run (S f) (CCont n p) st = Ok (n, st).
Proof.
  intros H. cbn [run run_body]. cbv zeta.
  destruct (precedence (ct st) >? p) eqn:E; [|reflexivity].
  apply Z.gtb_lt in E. lia.
Qed.

Lemma cont_step_bop rec k l op ts :
  cont_step rec k (Some l) (level op) (st_of (tk (btype op) :: ts)) =
  bind (expr rec (level op) (st_of ts)) (fun r => let '(rhs, st') := r in Ok (Some (mk op l rhs, st'))).
Proof.
  unfold cont_step. rewrite ct_cons.
  destruct op; cbn [btype tk ttyp bin_of]; rewrite advance_cons; reflexivity.
Qed.

(* ... and goes on with a binary operator that does *)
Lemma run_cont_bop f l p op ts : p < level op ->
  run (S f) (CCont (Some l) p) (st_of (tk (btype op) :: ts)) =
  bind (expr (run f) (level op) (st_of ts)) (fun r =>
    let '(rhs, st') := r in run f (CCont (Some (mk op l rhs)) p) st').
Proof.
  intros H. cbn [run run_body]. cbv zeta. rewrite ct_cons. cbn [tk ttyp].
  rewrite <- level_precedence.
  destruct (level op >? p) eqn:E; [|rewrite Z.gtb_ltb in E; apply Z.ltb_ge in E; lia].
  rewrite cont_step_bop. unfold expr.
  destruct (run f (CExpr (level op)) (st_of ts)) as [[[n|] st']| | | |]; reflexivity.
Qed.

Lemma expr_ok rec p st n st' : rec (CExpr p) st = Ok (Some n, st') -> expr rec p st = Ok (n, st').
Proof. intros H. unfold expr. rewrite H. reflexivity. Qed.

(* an identifier that is not a function name *)
Lemma primary_ident rec k a ts : hdt ts <> TOpenParen ->
  primary rec k (st_of (ident a :: ts)) = Ok (NField a, st_of ts).
Proof.
  intros H. unfold primary. rewrite ct_cons. cbn [ident ttyp]. rewrite nt_cons.
  unfold is, ttype_eqb. destruct (ttype_eq_dec (hdt ts) TOpenParen) as [E|_]; [contradiction|].
  rewrite advance_cons. reflexivity.
Qed.

Lemma primary_not rec k ts n st' : expr rec 12 (st_of ts) = Ok (n, st') ->
  primary rec k (st_of (tk TNot :: ts)) = Ok (NNot n, st').
Proof.
  intros H. unfold primary. rewrite ct_cons. cbn [tk ttyp]. rewrite advance_cons. cbn [bind].
  change (precedence TNot) with 12. rewrite H. reflexivity.
Qed.

Lemma primary_neg rec k ts n st' : expr rec 7 (st_of ts) = Ok (n, st') ->
  primary rec k (st_of (tk TSubtract :: ts)) = Ok (NNegate n, st').
Proof.
  intros H. unfold primary. rewrite ct_cons. cbn [tk ttyp]. rewrite advance_cons. cbn [bind].
  change (precedence TMultiply) with 7. rewrite H. reflexivity.
Qed.

Lemma primary_pos rec k ts n st' : expr rec 7 (st_of ts) = Ok (n, st') ->
  primary rec k (st_of (tk TAdd :: ts)) = Ok (NAssertNumber n, st').
Proof.
  intros H. unfold primary. rewrite ct_cons. cbn [tk ttyp]. rewrite advance_cons. cbn [bind].
  change (precedence TMultiply) with 7. rewrite H. reflexivity.
Qed.

Lemma primary_paren rec k ts n rest :
  expr rec 1 (st_of ts) = Ok (n, st_of (tk TCloseParen :: rest)) ->
  primary rec k (st_of (tk TOpenParen :: ts)) = Ok (n, st_of rest).
Proof.
  intros H. unfold primary. rewrite ct_cons. cbn [tk ttyp]. rewrite advance_cons. cbn [bind].
  rewrite H. cbn [bind]. rewrite ct_cons. cbn [tk ttyp]. 
  change (negb (is TCloseParen TCloseParen)) with false. cbv iota.
  rewrite advance_cons. reflexivity.
Qed.

(* ================================================================== *)
(* The continuation lemma                                              *)
(* ================================================================== *)

(* what may follow a printed expression: End, a closing parenthesis, a binary
   operator; in general any token of power <= 7 that does not turn a preceding
   identifier into a function call *)
Definition follow (rest : list token) : Prop :=
  precedence (hdt rest) <= 7 /\ hdt rest <> TOpenParen.
Definition stops (p : Z) (rest : list token) : Prop := precedence (hdt rest) <= p.

(* [reads d p ts rest n]: parser.expression(p) on [ts ++ rest] behaves as
   parser.continuation(n, p) on [rest], using at most [d] units of fuel for [ts] *)
Definition reads (d : nat) (p : Z) (ts rest : list token) (n : node) : Prop :=
  forall f, (d <= f)%nat -> exists g, (f <= g + d)%nat /\
    run f (CExpr p) (st_of (ts ++ rest)) = run g (CCont (Some n) p) (st_of rest).

Lemma reads_mono d d' p ts rest n : (d <= d')%nat -> reads d p ts rest n -> reads d' p ts rest n.
Proof.
  intros Hd H f Hf. destruct (H f) as (g & Hg & E); [lia|]. exists g. split; [lia|exact E].
Qed.

Lemma reads_stop d p ts rest n : reads d p ts rest n -> stops p rest ->
  forall f, (d + 1 <= f)%nat -> run f (CExpr p) (st_of (ts ++ rest)) = Ok (Some n, st_of rest).
Proof.
  intros H Hs f Hf. destruct (H f) as (g & Hg & ->); [lia|].
  destruct g as [|g]; [lia|]. apply run_cont_stop. exact Hs.
Qed.

Lemma reads_wrap d p body rest n :
  reads d 1 body (tk TCloseParen :: rest) n -> reads (d + 2) p (wrap body) rest n.
Proof.
  intros H f Hf. destruct f as [|f]; [lia|]. exists f. split; [lia|].
  unfold wrap. cbn [app]. rewrite <- app_assoc. cbn [app].
  rewrite run_expr. erewrite primary_paren; [reflexivity|].
  apply expr_ok. apply (reads_stop _ _ _ _ _ H); [unfold stops; cbn; lia|lia].
Qed.

Lemma reads_bin op dl dr p tl tr rest nl nr :
  reads dl p tl (tk (btype op) :: tr ++ rest) nl ->
  reads dr (level op) tr rest nr ->
  stops (level op) rest -> p < level op ->
  reads (dl + dr + 2) p (tl ++ tk (btype op) :: tr) rest (mk op nl nr).
Proof.
  intros Hl Hr Hs Hp f Hf. rewrite <- app_assoc. cbn [app].
  destruct (Hl f) as (g1 & Hg1 & ->); [lia|].
  destruct g1 as [|g2]; [lia|].
  rewrite run_cont_bop by assumption.
  rewrite (expr_ok _ _ _ _ _ (reads_stop _ _ _ _ _ Hr Hs g2 ltac:(lia))). cbn [bind].
  exists g2. split; [lia|reflexivity].
Qed.

Lemma reads_prefix d p q t (c : node -> node) ts rest n :
  (forall rec k ts n st', expr rec q (st_of ts) = Ok (n, st') ->
     primary rec k (st_of (t :: ts)) = Ok (c n, st')) ->
  reads d q ts rest n -> stops q rest -> reads (d + 2) p (t :: ts) rest (c n).
Proof.
  intros Hprim H Hs f Hf. destruct f as [|f]; [lia|]. exists f. split; [lia|].
  cbn [app]. rewrite run_expr. erewrite Hprim; [reflexivity|].
  apply expr_ok. apply (reads_stop _ _ _ _ _ H Hs). lia.
Qed.

(* fuel needed for the tokens of [e] *)
Fixpoint D (e : oexp) : nat :=
  match e with
  | OAtom _ => 1
  | OBin _ l r => D l + D r + 4
  | ONot e' | ONeg e' | OPos e' | OParen e' => D e' + 2
  end%nat.

(* an operator printed without parentheses must not be followed by a tighter one *)
Definition open_ok (q : Z) (e : oexp) (rest : list token) : Prop :=
  match e with OBin op _ _ => q < level op -> stops (level op) rest | _ => True end.

Lemma follow_bop op ts : follow (tk (btype op) :: ts).
Proof. unfold follow, hdt. cbn [hd tk ttyp]. destruct op; cbn; split; (lia || discriminate). Qed.

Lemma follow_close ts : follow (tk TCloseParen :: ts).
Proof. unfold follow, hdt. cbn. split; [lia|discriminate]. Qed.

Lemma follow_nil : follow [].
Proof. unfold follow, hdt. cbn. split; [lia|discriminate]. Qed.

Lemma open_ok_tight q e rest : 7 <= q -> open_ok q e rest.
Proof. destruct e; cbn; auto. intros H1 H2. pose proof (level_range op). lia. Qed.

Lemma open_ok_stops q e rest : stops q rest -> open_ok q e rest.
Proof. destruct e; cbn; auto. unfold stops. intros H1 H2. lia. Qed.

(* parsing the printed [e] followed by [rest] = continuing the Pratt loop from
   the tree of [e] on [rest] *)
Lemma continuation : forall e q rest p,
  follow rest -> open_ok q e rest -> p <= Z.max q 1 ->
  reads (D e) p (toks q e) rest (compile e).
Proof.
  induction e as [a | op l IHl r IHr | e' IH | e' IH | e' IH | e' IH];
    intros q rest p Hfol Hopen Hp.
  - (* identifier *)
    intros f Hf. destruct f as [|f]; [cbn in Hf; lia|]. exists f. split; [cbn; lia|].
    cbn [toks app compile]. rewrite run_expr, primary_ident by apply Hfol. reflexivity.
  - (* binary operator *)
    pose proof (level_range op) as Hlv.
    assert (Hbody : forall rest p, follow rest -> stops (level op) rest -> p < level op ->
              reads (D l + D r + 2) p (toks (level op - 1) l ++ tk (btype op) :: toks (level op) r)
                rest (mk op (compile l) (compile r))).
    { clear q rest p Hfol Hopen Hp. intros rest p Hfol Hs Hp.
      apply reads_bin; [| |assumption|assumption].
      - apply IHl; [apply follow_bop| |lia].
        destruct l; cbn; auto. intros Hq. unfold stops, hdt. cbn [hd tk ttyp].
        rewrite <- level_precedence. lia.
      - apply IHr; [assumption| |lia]. apply open_ok_stops, Hs. }
    cbn [toks compile D]. cbv zeta. destruct (q <? level op) eqn:E.
    + apply Z.ltb_lt in E. eapply reads_mono; [|apply Hbody; [assumption|apply Hopen, E|lia]]. lia.
    + eapply reads_mono; [|apply reads_wrap, Hbody; [apply follow_close|unfold stops, hdt; cbn; lia|lia]].
      lia.
  - (* ! *)
    cbn [toks compile D]. apply reads_prefix with (q := 12).
    + intros; apply primary_not; assumption.
    + apply IH; [assumption|apply open_ok_tight; lia|lia].
    + unfold stops. destruct Hfol. lia.
  - (* unary - *)
    cbn [toks compile D]. apply reads_prefix with (q := 7).
    + intros; apply primary_neg; assumption.
    + apply IH; [assumption|apply open_ok_tight; lia|lia].
    + apply Hfol.
  - (* unary + *)
    cbn [toks compile D]. apply reads_prefix with (q := 7).
    + intros; apply primary_pos; assumption.
    + apply IH; [assumption|apply open_ok_tight; lia|lia].
    + apply Hfol.
  - (* explicit parentheses *)
    cbn [toks compile D]. apply reads_wrap.
    apply IH; [apply follow_close| |lia].
    apply open_ok_stops. unfold stops, hdt. cbn. lia.
Qed.

(* ================================================================== *)
(* Theorems                                                            *)
(* ================================================================== *)

(* the general form: any caller power [p], any context [rest] that stops the loop *)
Theorem expr_toks : forall e p rest, follow rest -> stops p rest ->
  forall fuel, (D e + 1 <= fuel)%nat ->
  run fuel (CExpr p) (st_of (toks p e ++ rest)) = Ok (Some (compile e), st_of rest).
Proof.
  intros e p rest Hfol Hs fuel Hf.
  apply (reads_stop (D e)); [|assumption|assumption].
  apply continuation; [assumption|apply open_ok_stops, Hs|lia].
Qed.

Lemma toks_0_1 e : toks 0 e = toks 1 e.
Proof.
  destruct e; try reflexivity. cbn [toks]. cbv zeta. pose proof (level_range op).
  destruct (0 <? level op) eqn:E0, (1 <? level op) eqn:E1; try reflexivity;
    rewrite ?Z.ltb_lt, ?Z.ltb_ge in *; lia.
Qed.

Definition parse_fuel_of (e : oexp) : nat := (D e + 1)%nat.

Lemma parse_toks_fuel : forall e fuel, (parse_fuel_of e <= fuel)%nat ->
  parse_items fuel (items (toks 0 e)) = Ok (compile e).
Proof.
  intros e fuel Hf. rewrite parse_items_st.
  rewrite <- (app_nil_r (toks 0 e)), toks_0_1.
  rewrite expr_toks; [reflexivity|apply follow_nil|unfold stops, hdt; cbn; lia|exact Hf].
Qed.

(* 1. parsing the printed tokens yields the compiled tree *)
Theorem parse_toks : forall e, exists fuel0, forall fuel, (fuel0 <= fuel)%nat ->
  parse_items fuel (map ITok (toks 0 e) ++ [ITok (Tok TEnd [])]) = Ok (compile e).
Proof. intros e. exists (parse_fuel_of e). apply parse_toks_fuel. Qed.

(* the fragment without prefix operators and explicit parentheses *)
Fixpoint binary_only (e : oexp) : Prop :=
  match e with
  | OAtom _ => True
  | OBin _ l r => binary_only l /\ binary_only r
  | _ => False
  end.

Corollary parse_toks_binary : forall e, binary_only e -> exists fuel0, forall fuel, (fuel0 <= fuel)%nat ->
  parse_items fuel (map ITok (toks 0 e) ++ [ITok (Tok TEnd [])]) = Ok (compile e).
Proof. intros e _. apply parse_toks. Qed.

(* the fuel needed is linear in the number of tokens *)
Lemma D_le_toks e q : (D e <= 4 * length (toks q e))%nat.
Proof.
  revert q. induction e as [a | op l IHl r IHr | e' IH | e' IH | e' IH | e' IH]; intros q;
    cbn [toks D]; cbv zeta.
  - cbn. lia.
  - specialize (IHl (level op - 1)). specialize (IHr (level op)).
    destruct (q <? level op); unfold wrap; cbn [length]; rewrite ?app_length; cbn [length];
      rewrite ?app_length; cbn [length]; lia.
  - specialize (IH 12). cbn [length]. lia.
  - specialize (IH 7). cbn [length]. lia.
  - specialize (IH 7). cbn [length]. lia.
  - specialize (IH 0). unfold wrap. cbn [length]. rewrite app_length. cbn [length]. lia.
Qed.

Corollary parse_toks_linear : forall e fuel, (4 * length (toks 0 e) + 1 <= fuel)%nat ->
  parse_items fuel (items (toks 0 e)) = Ok (compile e).
Proof.
  intros e fuel Hf. apply parse_toks_fuel. unfold parse_fuel_of.
  pose proof (D_le_toks e 0). lia.
Qed.

(* 2. writing the implied parentheses explicitly never changes the AST *)
Lemma compile_full_paren e : compile (full_paren e) = compile e.
Proof. induction e; cbn [full_paren compile]; congruence. Qed.

(* in [full_paren e] every operand, and the whole expression, is an identifier
   or explicitly parenthesised: nothing is left to precedence or associativity *)
Definition closed (e : oexp) : Prop :=
  match e with OAtom _ | OParen _ => True | _ => False end.
Fixpoint explicit (e : oexp) : Prop :=
  match e with
  | OAtom _ => True
  | OBin _ l r => closed l /\ closed r /\ explicit l /\ explicit r
  | ONot e' | ONeg e' | OPos e' => closed e' /\ explicit e'
  | OParen e' => explicit e'
  end.

Lemma full_paren_explicit e : closed (full_paren e) /\ explicit (full_paren e).
Proof.
  induction e; cbn [full_paren closed explicit]; intuition.
Qed.

Corollary full_paren_same : forall e, exists fuel0, forall fuel, (fuel0 <= fuel)%nat ->
  parse_items fuel (items (toks 0 (full_paren e))) = parse_items fuel (items (toks 0 e)) /\
  parse_items fuel (items (toks 0 e)) = Ok (compile e).
Proof.
  intros e. exists (Nat.max (parse_fuel_of (full_paren e)) (parse_fuel_of e)). intros fuel Hf.
  rewrite !parse_toks_fuel by lia. split; [rewrite compile_full_paren|]; reflexivity.
Qed.

(* explicit parentheses anywhere are transparent *)
Fixpoint strip (e : oexp) : oexp :=
  match e with
  | OAtom a => OAtom a
  | OBin op l r => OBin op (strip l) (strip r)
  | ONot e' => ONot (strip e') | ONeg e' => ONeg (strip e') | OPos e' => OPos (strip e')
  | OParen e' => strip e'
  end.

Lemma compile_strip e : compile (strip e) = compile e.
Proof. induction e; cbn [strip compile]; congruence. Qed.

Corollary redundant_parens_same : forall e, exists fuel0, forall fuel, (fuel0 <= fuel)%nat ->
  parse_items fuel (items (toks 0 e)) = parse_items fuel (items (toks 0 (strip e))).
Proof.
  intros e. exists (Nat.max (parse_fuel_of (strip e)) (parse_fuel_of e)). intros fuel Hf.
  rewrite !parse_toks_fuel by lia. rewrite compile_strip. reflexivity.
Qed.

(* 3. concrete consequences on flat token lists *)
Definition parses_to (ts : list token) (n : node) : Prop :=
  exists fuel0, forall fuel, (fuel0 <= fuel)%nat -> parse_items fuel (items ts) = Ok n.

Lemma parses_toks e ts : toks 0 e = ts -> parses_to ts (compile e).
Proof. intros <-. exists (parse_fuel_of e). apply parse_toks_fuel. Qed.

Lemma ltb_true a b : a < b -> (a <? b) = true.
Proof. apply Z.ltb_lt. Qed.
Lemma ltb_false a b : b <= a -> (a <? b) = false.
Proof. apply Z.ltb_ge. Qed.

(* a op b op c = (a op b) op c *)
Corollary left_assoc : forall op a b c,
  toks 0 (OBin op (OBin op (OAtom a) (OAtom b)) (OAtom c)) =
    [ident a; tk (btype op); ident b; tk (btype op); ident c] /\
  parses_to [ident a; tk (btype op); ident b; tk (btype op); ident c]
    (mk op (mk op (NField a) (NField b)) (NField c)).
Proof.
  intros op a b c.
  assert (E : toks 0 (OBin op (OBin op (OAtom a) (OAtom b)) (OAtom c)) =
              [ident a; tk (btype op); ident b; tk (btype op); ident c]).
  { pose proof (level_range op). cbn [toks]. cbv zeta.
    rewrite !ltb_true by lia. reflexivity. }
  split; [exact E|]. apply (parses_toks _ _ E).
Qed.

(* the right-nested tree needs its parentheses: a op (b op c) *)
Corollary right_nesting_needs_parens : forall op a b c,
  toks 0 (OBin op (OAtom a) (OBin op (OAtom b) (OAtom c))) =
    [ident a; tk (btype op); tk TOpenParen; ident b; tk (btype op); ident c; tk TCloseParen].
Proof.
  intros. pose proof (level_range op). cbn [toks]. cbv zeta.
  rewrite ltb_true by lia. rewrite ltb_false by lia. reflexivity.
Qed.

(* a op1 b op2 c: the operator of higher level takes b; on a tie, the left one *)
Corollary tighter_binds_first : forall op1 op2 a b c,
  let flat := [ident a; tk (btype op1); ident b; tk (btype op2); ident c] in
  (level op1 < level op2 ->
     parses_to flat (mk op1 (NField a) (mk op2 (NField b) (NField c)))) /\
  (level op2 <= level op1 ->
     parses_to flat (mk op2 (mk op1 (NField a) (NField b)) (NField c))).
Proof.
  intros op1 op2 a b c flat. pose proof (level_range op1). pose proof (level_range op2).
  split; intros Hlt.
  - apply (parses_toks (OBin op1 (OAtom a) (OBin op2 (OAtom b) (OAtom c)))).
    cbn [toks]. cbv zeta. rewrite !ltb_true by lia. reflexivity.
  - apply (parses_toks (OBin op2 (OBin op1 (OAtom a) (OAtom b)) (OAtom c))).
    cbn [toks]. cbv zeta. rewrite !ltb_true by lia. reflexivity.
Qed.

(* parentheses override both rules *)
Corollary parens_override : forall op1 op2 a b c,
  parses_to [tk TOpenParen; ident a; tk (btype op1); ident b; tk TCloseParen; tk (btype op2); ident c]
    (mk op2 (mk op1 (NField a) (NField b)) (NField c)) /\
  parses_to [ident a; tk (btype op1); tk TOpenParen; ident b; tk (btype op2); ident c; tk TCloseParen]
    (mk op1 (NField a) (mk op2 (NField b) (NField c))).
Proof.
  intros op1 op2 a b c. pose proof (level_range op1). pose proof (level_range op2). split.
  - apply (parses_toks (OBin op2 (OParen (OBin op1 (OAtom a) (OAtom b))) (OAtom c))).
    cbn [toks]. cbv zeta. rewrite !ltb_true by lia. reflexivity.
  - apply (parses_toks (OBin op1 (OAtom a) (OParen (OBin op2 (OAtom b) (OAtom c))))).
    cbn [toks]. cbv zeta. rewrite !ltb_true by lia. reflexivity.
Qed.

(* ! and the unary signs bind tighter than every binary operator, on either side *)
Corollary unary_tighter : forall op a b,
  parses_to [tk TNot; ident a; tk (btype op); ident b] (mk op (NNot (NField a)) (NField b)) /\
  parses_to [tk TSubtract; ident a; tk (btype op); ident b] (mk op (NNegate (NField a)) (NField b)) /\
  parses_to [tk TAdd; ident a; tk (btype op); ident b] (mk op (NAssertNumber (NField a)) (NField b)) /\
  parses_to [ident a; tk (btype op); tk TNot; ident b] (mk op (NField a) (NNot (NField b))) /\
  parses_to [ident a; tk (btype op); tk TSubtract; ident b] (mk op (NField a) (NNegate (NField b))) /\
  parses_to [ident a; tk (btype op); tk TAdd; ident b] (mk op (NField a) (NAssertNumber (NField b))).
Proof.
  intros op a b. pose proof (level_range op).
  repeat split.
  - apply (parses_toks (OBin op (ONot (OAtom a)) (OAtom b))).
    cbn [toks]. cbv zeta. rewrite !ltb_true by lia. reflexivity.
  - apply (parses_toks (OBin op (ONeg (OAtom a)) (OAtom b))).
    cbn [toks]. cbv zeta. rewrite !ltb_true by lia. reflexivity.
  - apply (parses_toks (OBin op (OPos (OAtom a)) (OAtom b))).
    cbn [toks]. cbv zeta. rewrite !ltb_true by lia. reflexivity.
  - apply (parses_toks (OBin op (OAtom a) (ONot (OAtom b)))).
    cbn [toks]. cbv zeta. rewrite !ltb_true by lia. reflexivity.
  - apply (parses_toks (OBin op (OAtom a) (ONeg (OAtom b)))).
    cbn [toks]. cbv zeta. rewrite !ltb_true by lia. reflexivity.
  - apply (parses_toks (OBin op (OAtom a) (OPos (OAtom b)))).
    cbn [toks]. cbv zeta. rewrite !ltb_true by lia. reflexivity.
Qed.

(* a prefix operator applied to a binary expression needs the parentheses, and
   a second binary operator after a prefix operand continues outside it:
   - a * b * c = ((-a) * b) * c *)
Corollary unary_operand_is_primary : forall op1 op2 a b c,
  level op2 <= level op1 ->
  parses_to [tk TSubtract; ident a; tk (btype op1); ident b; tk (btype op2); ident c]
    (mk op2 (mk op1 (NNegate (NField a)) (NField b)) (NField c)) /\
  parses_to [tk TNot; ident a; tk (btype op1); ident b; tk (btype op2); ident c]
    (mk op2 (mk op1 (NNot (NField a)) (NField b)) (NField c)).
Proof.
  intros op1 op2 a b c Hle. pose proof (level_range op1). pose proof (level_range op2). split.
  - apply (parses_toks (OBin op2 (OBin op1 (ONeg (OAtom a)) (OAtom b)) (OAtom c))).
    cbn [toks]. cbv zeta. rewrite !ltb_true by lia. reflexivity.
  - apply (parses_toks (OBin op2 (OBin op1 (ONot (OAtom a)) (OAtom b)) (OAtom c))).
    cbn [toks]. cbv zeta. rewrite !ltb_true by lia. reflexivity.
Qed.

(* the precedence table restricted to the fragment is the specification's order *)
Lemma level_order :
  level BPipe < level BOr /\ level BOr < level BAnd /\ level BAnd < level BEq /\
  level BEq = level BNe /\ level BNe = level BLt /\ level BLt = level BLe /\
  level BLe = level BGt /\ level BGt = level BGe /\
  level BGe < level BAdd /\ level BAdd = level BSub /\ level BSub < level BMul /\
  level BMul = level BDiv /\ level BDiv = level BIDiv /\ level BIDiv = level BMod /\
  level BMod <= precedence TMultiply /\ precedence TMultiply < precedence TNot.
Proof. cbn. lia. Qed.

(* ---- the printer and the parser on concrete inputs (computed) ---- *)
Module Examples.
  Definition a := OAtom [97]. Definition b := OAtom [98]. Definition c := OAtom [99].
  Definition A := NField [97]. Definition B := NField [98]. Definition C := NField [99].
  Definition p (e : oexp) := parse_items 40 (items (toks 0 e)).
  Definition shape (e : oexp) := map ttyp (toks 0 e).
  Definition id := TUnquotedIdentifier.

  (* a + b * c *)
  Example e1 : shape (OBin BAdd a (OBin BMul b c)) = [id; TAdd; id; TAsterisk; id] /\
               p (OBin BAdd a (OBin BMul b c)) = Ok (NBin OAdd A (NBin OMul B C)).
  Proof. split; vm_compute; reflexivity. Qed.
  (* a * b + c *)
  Example e2 : shape (OBin BAdd (OBin BMul a b) c) = [id; TAsterisk; id; TAdd; id] /\
               p (OBin BAdd (OBin BMul a b) c) = Ok (NBin OAdd (NBin OMul A B) C).
  Proof. split; vm_compute; reflexivity. Qed.
  (* (a + b) * c *)
  Example e3 : shape (OBin BMul (OBin BAdd a b) c) = [TOpenParen; id; TAdd; id; TCloseParen; TAsterisk; id] /\
               p (OBin BMul (OBin BAdd a b) c) = Ok (NBin OMul (NBin OAdd A B) C).
  Proof. split; vm_compute; reflexivity. Qed.
  (* ! a == b *)
  Example e4 : shape (OBin BEq (ONot a) b) = [TNot; id; TEqual; id] /\
               p (OBin BEq (ONot a) b) = Ok (NBin OEq (NNot A) B).
  Proof. split; vm_compute; reflexivity. Qed.
  (* - a * b  is  (-a) * b;  -(a * b) keeps its parentheses *)
  Example e5 : shape (OBin BMul (ONeg a) b) = [TSubtract; id; TAsterisk; id] /\
               p (OBin BMul (ONeg a) b) = Ok (NBin OMul (NNegate A) B) /\
               shape (ONeg (OBin BMul a b)) = [TSubtract; TOpenParen; id; TAsterisk; id; TCloseParen] /\
               p (ONeg (OBin BMul a b)) = Ok (NNegate (NBin OMul A B)).
  Proof. repeat split; vm_compute; reflexivity. Qed.
  (* a | b || c && a *)
  Example e6 : shape (OBin BPipe a (OBin BOr b (OBin BAnd c a))) = [id; TPipe; id; TOr; id; TAnd; id] /\
               p (OBin BPipe a (OBin BOr b (OBin BAnd c a))) = Ok (NPipe A (NOr B (NAnd C A))).
  Proof. split; vm_compute; reflexivity. Qed.
  (* a - b - c  and  a - (b - c) *)
  Example e7 : shape (OBin BSub (OBin BSub a b) c) = [id; TSubtract; id; TSubtract; id] /\
               shape (OBin BSub a (OBin BSub b c)) = [id; TSubtract; TOpenParen; id; TSubtract; id; TCloseParen] /\
               p (OBin BSub a (OBin BSub b c)) = Ok (NBin OSub A (NBin OSub B C)).
  Proof. repeat split; vm_compute; reflexivity. Qed.
  (* a * - ! b  and  ! - a *)
  Example e8 : shape (OBin BMul a (ONeg (ONot b))) = [id; TAsterisk; TSubtract; TNot; id] /\
               p (OBin BMul a (ONeg (ONot b))) = Ok (NBin OMul A (NNegate (NNot B))) /\
               p (ONot (ONeg a)) = Ok (NNot (NNegate A)).
  Proof. repeat split; vm_compute; reflexivity. Qed.
  (* full parenthesisation of a + b * !c *)
  Example e9 : shape (full_paren (OBin BAdd a (OBin BMul b (ONot c)))) =
                 [TOpenParen; id; TAdd; TOpenParen; id; TAsterisk; TOpenParen; TNot; id;
                  TCloseParen; TCloseParen; TCloseParen] /\
               p (full_paren (OBin BAdd a (OBin BMul b (ONot c)))) = Ok (NBin OAdd A (NBin OMul B (NNot C))).
  Proof. split; vm_compute; reflexivity. Qed.
End Examples.

Print Assumptions parse_toks.
Print Assumptions full_paren_same.
Print Assumptions tighter_binds_first.
Print Assumptions unary_tighter.
