(* Token-level parse-after-unparse theorem for the whole reference language.

   toks_of / rhs_toks      the tokens of the canonical text show / show_rhs (Spec/Unparse.v),
                           validated against the lexer on 18 samples (module Samples)
   compile_r               the node the Pratt parser of Model/Parser.v builds for them
   wfr                     the reference expressions that are renderable and statically valid
   norm                    unfuse (compile_r e): the reference expression the parser output denotes
   parse_unparse_toks      parse_items on the tokens of e returns compile_r e (every large enough fuel)
   run_mono                more fuel never changes a result other than OutOfFuel
   parse_unparse           parse (unparse e) = Ok n with unfuse n = norm e, whenever the text lexes to toks_of
   norm_invisible          norm e and e have the same reference semantics, provided slices with an
                           absent bound only meet arrays/strings no longer than MaxInt (slices_short);
                           unconditional when every slice gives both bounds (norm_invisible_closed)
   compile_good            the parser output satisfies wf_node; no_step_slice and no_zip for expressions
                           without stepped slices and zip
   canonical_text_means_spec, search_canonical_text
                           the model evaluator / Search on the canonical text computes ref_eval e

   Method: PrattOperators' continuation lemma, generalised.  Reading a selector chain leaves the
   parser in a "situation" (gstate): either in the loop of parser.continuation with a left node,
   or inside the parser.expression(11) call that reads the operand of a dot, which still accepts
   [i], [*] and slices.  Every selector is a step between situations (After), valid in
   expression context and in the right-hand side of a projection alike. *)
From Coq Require Import List ZArith Bool Lia.
From JM Require Import Base.Outcome Base.Bytes Base.GoInt Base.Utf8 Num.Dec Json.Value Json.JsonText
  Json.JsonPrint Model.Token Model.Lexer Model.Ast Model.Literals Model.Parser
  Spec.SpecSlice Spec.RefAst Spec.RefEval Proofs.PrattOperators Spec.Unparse Spec.Unfuse
  Proofs.LiteralRoundTrip.
Import ListNotations.
Open Scope Z_scope.

(* ================================================================== *)
(* 1. The tokens of the canonical text                                 *)
(* ================================================================== *)

Definition text_of (t : ttype) : bytes :=
  match t with
  | TOpenBrace => [123] | TCloseBrace => [125] | TOpenParen => [40] | TCloseParen => [41]
  | TOpenSqBrace => [91] | TCloseSqBrace => [93] | TAdd => [43] | TAnd => [38; 38]
  | TArrayWildcard => [91; 42; 93] | TAssign => [61] | TAsterisk => [42] | TColon => [58]
  | TComma => [44] | TDivide => [47] | TDot => [46] | TEqual => [61; 61] | TFilter => [91; 63]
  | TFlatten => [91; 93] | TIn => [105; 110] | TGreater => [62] | TGreaterOrEqual => [62; 61]
  | TIntegerDivide => [47; 47] | TLess => [60] | TLessOrEqual => [60; 61] | TLet => [108; 101; 116]
  | TModulo => [37] | TNot => [33] | TNotEqual => [33; 61] | TObjectWildcard => [46; 42]
  | TOr => [124; 124] | TPipe => [124] | TSubtract => [45] | TCurrent => [64] | TExpression => [38]
  | TRoot => [36]
  | _ => []
  end.

(* a punctuation or keyword token, with the text the lexer stores in it *)
Definition pk (t : ttype) : token := Tok t (text_of t).

Definition ident_tok (s : bytes) : token :=
  if plain_ident s then Tok TUnquotedIdentifier s else Tok TQuotedIdentifier (34 :: qescape s ++ [34]).
Definition int_tok (z : Z) : token := Tok TIntegerLiteral (Z_to_bytes z).
Definition lit_tok (v : value) : token := Tok TJSONLiteral (96 :: btick_escape (lit_text v) ++ [96]).
Definition raw_tok (s : bytes) : token := Tok TStringLiteral (39 :: rescape s ++ [39]).

Definition cmp_ttype (op : cmpop) : ttype :=
  match op with
  | CEq => TEqual | CNe => TNotEqual | CLt => TLess | CLe => TLessOrEqual | CGt => TGreater | CGe => TGreaterOrEqual
  end.
Definition ar_ttype (op : arop) : ttype :=
  match op with
  | AAdd => TAdd | ASub => TSubtract | AMul => TAsterisk | ADiv => TDivide | AIDiv => TIntegerDivide | AMod => TModulo
  end.

Definition opt_int_tok (x : option Z) : list token := match x with Some z => [int_tok z] | None => [] end.
Definition slice_toks (a b c : option Z) : list token :=
  pk TOpenSqBrace :: opt_int_tok a ++ pk TColon :: opt_int_tok b ++
  (match c with Some s => [pk TColon; int_tok s] | None => [] end) ++ [pk TCloseSqBrace].

Definition wrapt (ts : list token) : list token := pk TOpenParen :: ts ++ [pk TCloseParen].

Fixpoint sepby (sep : token) (l : list (list token)) : list token :=
  match l with
  | [] => []
  | [x] => x
  | x :: r => x ++ sep :: sepby sep r
  end.

Definition ar_level (op : arop) : Z := match op with AAdd | ASub => L_ADD | _ => L_MUL end.

Fixpoint toks_of (p : Z) (e : rexpr) {struct e} : list token :=
  let body :=
    match e with
    | RCurrent => [pk TCurrent]
    | RRoot => [pk TRoot]
    | RField name => [ident_tok name]
    | RLiteral v => [lit_tok v]
    | RRaw s => [raw_tok s]
    | RVar name => [Tok TVariable name]
    | RSub l r => toks_of L_POST l ++ pk TDot :: toks_of L_POST r
    | RIndex l i => toks_of L_POST l ++ [pk TOpenSqBrace; int_tok i; pk TCloseSqBrace]
    | RProj k l r =>
      let left := match l with RCurrent => [] | _ => toks_of (match k with PFlatten => L_PROJ | _ => L_POST end) l end in
      let tok := match k with
                 | PList => [pk TArrayWildcard]
                 | PSlice a b c => slice_toks a b c
                 | PFlatten => [pk TFlatten]
                 | PFilter cond => pk TFilter :: toks_of L_PIPE cond ++ [pk TCloseSqBrace]
                 | PValues => match l with RCurrent => [pk TAsterisk] | _ => [pk TObjectWildcard] end
                 end in
      left ++ tok ++ rhs_toks r
    | RMultiList es =>
      let parts := (fix go (l : list rexpr) : list (list token) :=
                      match l with [] => [] | x :: r => toks_of L_PIPE x :: go r end) es in
      pk TOpenSqBrace :: sepby (pk TComma) parts ++ [pk TCloseSqBrace]
    | RMultiHash kes =>
      let parts := (fix go (l : list (bytes * rexpr)) : list (list token) :=
                      match l with [] => [] | (k, x) :: r => (ident_tok k :: pk TColon :: toks_of L_PIPE x) :: go r end) kes in
      pk TOpenBrace :: sepby (pk TComma) parts ++ [pk TCloseBrace]
    | RPipe l r => toks_of L_PIPE l ++ pk TPipe :: toks_of L_OR r
    | ROr l r => toks_of L_OR l ++ pk TOr :: toks_of L_AND r
    | RAnd l r => toks_of L_AND l ++ pk TAnd :: toks_of L_CMP r
    | RNot x => pk TNot :: (if is_atom x then toks_of L_POST x else wrapt (toks_of L_LET x))
    | RCmp op l r => toks_of L_CMP l ++ pk (cmp_ttype op) :: toks_of L_ADD r
    | RArith op l r => toks_of (ar_level op) l ++ pk (ar_ttype op) :: toks_of (ar_level op + 1) r
    | RNeg x => pk TSubtract :: toks_of L_PROJ x
    | RPos x => pk TAdd :: toks_of L_PROJ x
    | RCall f args =>
      let parts := (fix go (l : list rarg) : list (list token) :=
                      match l with
                      | [] => []
                      | AExpr x :: r => toks_of L_PIPE x :: go r
                      | ARef x :: r => (pk TExpression :: toks_of L_PIPE x) :: go r
                      end) args in
      Tok TUnquotedIdentifier f :: pk TOpenParen :: sepby (pk TComma) parts ++ [pk TCloseParen]
    | RLet bs body =>
      let parts := (fix go (l : list (bytes * rexpr)) : list (list token) :=
                      match l with [] => [] | (n, x) :: r => (Tok TVariable n :: pk TAssign :: toks_of L_PIPE x) :: go r end) bs in
      pk TLet :: sepby (pk TComma) parts ++ pk TIn :: toks_of L_PIPE body
    end in
  if level e <? p then wrapt body else body
with rhs_toks (r : rexpr) {struct r} : list token :=
  match r with
  | RCurrent => []
  | RSub l x => rhs_toks l ++ pk TDot :: toks_of L_POST x
  | RIndex l i => rhs_toks l ++ [pk TOpenSqBrace; int_tok i; pk TCloseSqBrace]
  | RProj k l x =>
    let tok := match k with
               | PList => [pk TArrayWildcard]
               | PSlice a b c => slice_toks a b c
               | PFlatten => [pk TFlatten]
               | PFilter cond => pk TFilter :: toks_of L_PIPE cond ++ [pk TCloseSqBrace]
               | PValues => [pk TObjectWildcard]
               end in
    rhs_toks l ++ tok ++ rhs_toks x
  | _ => [pk TDot; Tok TUnknown [63]]
  end.

(* ================================================================== *)
(* 2. The node the parser builds                                       *)
(* ================================================================== *)

(* While a selector chain is being read the parser is in one of two situations:
   [Plain o]    in parser.continuation with left node o (None: the current node,
                at the start of a projection's right-hand side);
   [Group a t]  after "a . x" inside the parser.expression(11) call that reads
                the right operand of the dot: t is that operand so far, still
                open for [i], [*] and slices; when the call returns the node is
                NPipe a t (or t alone when a = None). *)
Inductive gstate := Plain (o : option node) | Group (a : option node) (t : node).

Definition close_opt (g : gstate) : option node :=
  match g with
  | Plain o => o
  | Group None t => Some t
  | Group (Some a) t => Some (NPipe a t)
  end.
Definition or_current (o : option node) : node := match o with Some n => n | None => NCurrent end.
Definition close (g : gstate) : node := or_current (close_opt g).

(* suffixes of binding power 13 extend the open operand; the others apply to the closed node *)
Definition lift13 (f : option node -> node) (g : gstate) : gstate :=
  match g with Plain o => Plain (Some (f o)) | Group a t => Group a (f (Some t)) end.
Definition lower (f : option node -> node) (g : gstate) : gstate := Plain (Some (f (close_opt g))).

Definition mk_index (o : option node) (i : Z) : node :=
  match o with
  | None => if (0 <=? i) && (i <=? 255) then NSmallIndexCurrent i else NIndexCurrent i
  | Some c => NIndex c i
  end.
Definition mk_star (rhs o : option node) : node :=
  match o, rhs with
  | None, None => NPruneArrayCurrent
  | None, Some x => NProjectArrayCurrent x
  | Some n, None => NPruneArray n
  | Some n, Some x => NProjectArray n x
  end.
Definition mk_values (rhs o : option node) : node :=
  match o, rhs with
  | None, None => NObjectValuesCurrent
  | None, Some x => NProjectObjectCurrent x
  | Some n, None => NObjectValues n
  | Some n, Some x => NProjectObject n x
  end.
Definition mk_flatten (rhs o : option node) : node :=
  match o, rhs with
  | None, None => NFlattenCurrent
  | None, Some x => NFlattenAndProjectCurrent x
  | Some n, None => NFlatten n
  | Some n, Some x => NFlattenAndProject n x
  end.
Definition mk_filter (f : node) (rhs o : option node) : node :=
  match o, rhs with
  | None, None => NFilterCurrent f
  | None, Some x => NFilterAndProjectCurrent f x
  | Some n, None => NFilter n f
  | Some n, Some x => NFilterAndProject n f x
  end.

(* the slice bounds the parser stores for [a:b:c] *)
Definition pslice_step (c : option Z) : Z := match c with Some s => s | None => 1 end.
Definition pslice_start (a c : option Z) : Z :=
  match a with Some x => x | None => if pslice_step c <? 0 then MaxInt else 0 end.
Definition pslice_stop (b c : option Z) : Z :=
  match b with Some x => x | None => if pslice_step c <? 0 then MinInt else MaxInt end.
Definition mk_slicep (a b c : option Z) (rhs o : option node) : node :=
  NProjectArray (mk_slice o (pslice_start a c) (pslice_stop b c) (pslice_step c)) (or_current rhs).

Definition mk_mlist (child : option node) (fs : list node) : node :=
  match fs with
  | [f] => match child with None => NSelectArraySingleCurrent f | Some c => NSelectArraySingle c f end
  | _ => match child with None => NSelectArrayCurrent fs | Some c => NSelectArray c fs end
  end.
Definition mk_mhash (child : option node) (fs : list (bytes * node)) : node :=
  match fs with
  | [(k, f)] => match child with None => NSelectObjectSingleCurrent k f | Some c => NSelectObjectSingle c k f end
  | _ => match child with None => NSelectObjectCurrent fs | Some c => NSelectObject c fs end
  end.

Definition mk_cmp (op : cmpop) (l r : node) : node :=
  NBin (match op with CEq => OEq | CNe => ONe | CLt => OLt | CLe => OLe | CGt => OGt | CGe => OGe end) l r.
Definition mk_ar (op : arop) (l r : node) : node :=
  NBin (match op with AAdd => OAdd | ASub => OSub | AMul => OMul | ADiv => ODiv | AIDiv => OIDiv | AMod => OMod end) l r.
Definition mk_call (f : bytes) (args : list node) : node :=
  match assoc f function_table with
  | Some (_, fb) => match build fb args with Some n => n | None => NNull end
  | None => NNull
  end.
Definition mk_lit (v : value) : node := match node_of_value v with Some n => n | None => NNull end.

(* the selector after a dot: multi-selects take the left node as their child,
   an identifier or function call opens a group *)
Definition sfx_sub (g : gstate) (r : rexpr) (fs : list node) (kfs : list (bytes * node)) (x : node) : gstate :=
  match r with
  | RMultiList _ => Plain (Some (mk_mlist (Some (close g)) fs))
  | RMultiHash _ => Plain (Some (mk_mhash (Some (close g)) kfs))
  | _ => Group (close_opt g) x
  end.

Definition sfx_proj (k : projkind) (cond : node) (rhs : option node) (g : gstate) : gstate :=
  match k with
  | PList => lift13 (mk_star rhs) g
  | PSlice a b c => lift13 (mk_slicep a b c rhs) g
  | PFlatten => lower (mk_flatten rhs) g
  | PFilter _ => lower (mk_filter cond rhs) g
  | PValues => lower (mk_values rhs) g
  end.

(* [cxb e]: the situation after the body of e (its text without the outer parentheses);
   [rcx r]: the situation after the right-hand side r of a projection *)
Fixpoint cxb (e : rexpr) {struct e} : gstate :=
  match e with
  | RCurrent => Plain (Some NCurrent)
  | RRoot => Plain (Some NRoot)
  | RField name => Plain (Some (NField name))
  | RLiteral v => Plain (Some (mk_lit v))
  | RRaw s => Plain (Some (NString s))
  | RVar name => Plain (Some (NVariable name))
  | RSub l r =>
    let gl := if level l <? L_POST then Plain (Some (close (cxb l))) else cxb l in
    let fs := match r with
              | RMultiList es => (fix go (l : list rexpr) : list node :=
                                    match l with [] => [] | x :: r => close (cxb x) :: go r end) es
              | _ => []
              end in
    let kfs := match r with
               | RMultiHash kes => (fix go (l : list (bytes * rexpr)) : list (bytes * node) :=
                                      match l with [] => [] | (k, x) :: r => (k, close (cxb x)) :: go r end) kes
               | _ => []
               end in
    sfx_sub gl r fs kfs (close (cxb r))
  | RIndex l i =>
    let gl := if level l <? L_POST then Plain (Some (close (cxb l))) else cxb l in
    lift13 (fun o => mk_index o i) gl
  | RProj k l r =>
    let q := match k with PFlatten => L_PROJ | _ => L_POST end in
    let gl := match l with
              | RCurrent => Plain None
              | _ => if level l <? q then Plain (Some (close (cxb l))) else cxb l
              end in
    let cond := match k with PFilter c => close (cxb c) | _ => NNull end in
    sfx_proj k cond (close_opt (rcx r)) gl
  | RMultiList es =>
    Plain (Some (mk_mlist None ((fix go (l : list rexpr) : list node :=
                                   match l with [] => [] | x :: r => close (cxb x) :: go r end) es)))
  | RMultiHash kes =>
    Plain (Some (mk_mhash None ((fix go (l : list (bytes * rexpr)) : list (bytes * node) :=
                                   match l with [] => [] | (k, x) :: r => (k, close (cxb x)) :: go r end) kes)))
  | RPipe l r => Plain (Some (NPipe (close (cxb l)) (close (cxb r))))
  | ROr l r => Plain (Some (NOr (close (cxb l)) (close (cxb r))))
  | RAnd l r => Plain (Some (NAnd (close (cxb l)) (close (cxb r))))
  | RNot x => Plain (Some (NNot (close (cxb x))))
  | RCmp op l r => Plain (Some (mk_cmp op (close (cxb l)) (close (cxb r))))
  | RArith op l r => Plain (Some (mk_ar op (close (cxb l)) (close (cxb r))))
  | RNeg x => Plain (Some (NNegate (close (cxb x))))
  | RPos x => Plain (Some (NAssertNumber (close (cxb x))))
  | RCall f args =>
    Plain (Some (mk_call f ((fix go (l : list rarg) : list node :=
                               match l with
                               | [] => []
                               | AExpr x :: r => close (cxb x) :: go r
                               | ARef x :: r => close (cxb x) :: go r
                               end) args)))
  | RLet bs body =>
    Plain (Some (NDefine ((fix go (l : list (bytes * rexpr)) : list (bytes * node) :=
                             match l with [] => [] | (n, x) :: r => (n, close (cxb x)) :: go r end) bs)
                         (close (cxb body))))
  end
with rcx (r : rexpr) {struct r} : gstate :=
  match r with
  | RCurrent => Plain None
  | RSub l x =>
    let fs := match x with
              | RMultiList es => (fix go (l : list rexpr) : list node :=
                                    match l with [] => [] | x :: r => close (cxb x) :: go r end) es
              | _ => []
              end in
    let kfs := match x with
               | RMultiHash kes => (fix go (l : list (bytes * rexpr)) : list (bytes * node) :=
                                      match l with [] => [] | (k, x) :: r => (k, close (cxb x)) :: go r end) kes
               | _ => []
               end in
    sfx_sub (rcx l) x fs kfs (close (cxb x))
  | RIndex l i => lift13 (fun o => mk_index o i) (rcx l)
  | RProj k l x =>
    let cond := match k with PFilter c => close (cxb c) | _ => NNull end in
    sfx_proj k cond (close_opt (rcx x)) (rcx l)
  | _ => Plain None
  end.

Definition compile_r (e : rexpr) : node := close (cxb e).

(* the reference expression that the parser's output denotes *)
Definition norm (e : rexpr) : rexpr := unfuse (compile_r e).

(* ---- validation on samples: the lexer produces exactly these tokens for the
   canonical text, and the parser builds exactly this node from them ---- *)
Module Samples.
  Definition f (s : bytes) := RField s.
  Definition a := f [97]. Definition b := f [98]. Definition c := f [99]. Definition d := f [100].
  Definition cur := RCurrent.
  Definition sub l r := RSub l r.
  Definition ok (e : rexpr) : Prop :=
    lex_all (unparse e) = map ITok (toks_of 0 e) ++ [ITok (Tok TEnd [])] /\
    parse_items 200 (map ITok (toks_of 0 e) ++ [ITok (Tok TEnd [])]) = Ok (compile_r e).
  Ltac chk := split; vm_compute; reflexivity.

  (* a.b[0].c | @ || $ *)
  Definition e1 : rexpr :=
    RPipe (RSub (RIndex (RSub a b) 0) c) (ROr RCurrent RRoot).
  Example s1 : ok e1. Proof. chk. Qed.
  (* a[*].b[1:].c[?d == `1`].e *)
  Definition e2 : rexpr :=
    RProj PList a
                    (RProj (PSlice (Some 1) None None) (RSub cur b)
                       (RProj (PFilter (RCmp CEq d (RLiteral (VNum (NJson [49]))))) (RSub cur c) (RSub cur (f [101])))).
  Example s2 : ok e2. Proof. chk. Qed.
  (* [*], [], [?a], *, [1:2] as primaries, with right-hand sides *)
  Definition e3 : rexpr :=
    RMultiList [RProj PList cur (RSub cur a); RProj PFlatten cur (RIndex cur 0);
                               RProj (PFilter a) cur (RSub (RSub cur b) c); RProj PValues cur (RIndex (RSub cur a) (-1));
                               RProj (PSlice (Some 1) (Some 2) None) cur cur; RProj PValues cur cur].
  Example s3 : ok e3. Proof. chk. Qed.
  (* every slice shape *)
  Definition e4 : rexpr :=
    RMultiList [RProj (PSlice None None None) a cur; RProj (PSlice (Some 0) None None) a cur;
                               RProj (PSlice None (Some 5) None) a cur; RProj (PSlice (Some (-3)) (Some 5) None) a cur;
                               RProj (PSlice None None (Some 2)) a cur; RProj (PSlice (Some 7) None (Some (-1))) a cur;
                               RProj (PSlice None (Some 5) (Some (-2))) a cur; RProj (PSlice (Some 1) (Some 5) (Some 1)) a cur;
                               RProj (PSlice None None (Some (-1))) cur (RSub cur b)].
  Example s4 : ok e4. Proof. chk. Qed.
  (* multi-selects, after a dot and bare; hash with quoted keys *)
  Definition e5 : rexpr :=
    RSub (RSub a (RMultiList [b; c])) (RMultiHash [([107], b); ([108; 101; 116], RSub c d); ([32; 34], cur)]).
  Example s5 : ok e5. Proof. chk. Qed.
  Definition e6 : rexpr :=
    RIndex (RSub (RMultiHash [([107], RMultiList [a])]) (RMultiList [RProj PValues cur cur])) 3.
  Example s6 : ok e6. Proof. chk. Qed.
  (* functions: fixed arity, optional arguments, expression references, variadic *)
  Definition e7 : rexpr :=
    RCall [115;111;114;116;95;98;121] [AExpr a; ARef (RSub b c)].
  Example s7 : ok e7. Proof. chk. Qed.
  Definition e8 : rexpr :=
    RMultiList [RCall [97;98;115] [AExpr a]; RCall [116;114;105;109] [AExpr a];
                               RCall [116;114;105;109] [AExpr a; AExpr (RRaw [39; 92; 120])];
                               RCall [109;97;112] [ARef (RPipe a b); AExpr cur];
                               RCall [102;105;110;100;95;102;105;114;115;116] [AExpr a; AExpr b; AExpr c; AExpr d];
                               RCall [114;101;112;108;97;99;101] [AExpr a; AExpr b; AExpr c];
                               RCall [112;97;100;95;108;101;102;116] [AExpr a; AExpr b];
                               RCall [110;111;116;95;110;117;108;108] [AExpr a; AExpr b; AExpr c];
                               RSub a (RCall [107;101;121;115] [AExpr cur])].
  Example s8 : ok e8. Proof. chk. Qed.
  (* let, variables, nested let in parentheses *)
  Definition e9 : rexpr :=
    RLet [([36; 120], RPipe a b); ([36; 105; 110], RLet [([36; 121], c)] (RVar [36; 121]))]
                     (RArith AAdd (RVar [36; 120]) (RVar [36; 105; 110])).
  Example s9 : ok e9. Proof. chk. Qed.
  (* all binary operators with the parentheses implied by the levels; unary operators *)
  Definition e10 : rexpr :=
    ROr (RAnd (RCmp CLt (RArith AAdd a (RArith AMul b (RNeg c))) (RArith ASub (RArith ASub a b) (RArith ASub c d)))
                              (RNot (RCmp CNe a b)))
                        (RPipe (RArith AIDiv (RArith ADiv a b) (RArith AMod c (RPos d)))
                               (RCmp CGe (RCmp CLe a b) (RCmp CGt (RCmp CEq a b) c))).
  Example s10 : ok e10. Proof. chk. Qed.
  (* literals *)
  Definition e11 : rexpr :=
    RMultiList [RLiteral (VStr [97; 96; 98]); RLiteral (VArr [VNum (NJson [49]); VBool true; VNull]);
                                RLiteral (VObj [([107], VStr [34])]); RRaw [105; 116; 39; 115]; RLiteral (VBool false);
                                RField [97; 32; 98]; RField [108; 101; 116]; RField []].
  Example s11 : ok e11. Proof. chk. Qed.
  (* flatten over projections, projections in parentheses on the left *)
  Definition e12 : rexpr :=
    RProj PFlatten (RProj PFlatten (RProj PList a (RSub cur b)) cur) (RSub cur c).
  Example s12 : ok e12. Proof. chk. Qed.
  Definition e13 : rexpr :=
    RSub (RProj PList (RProj (PFilter a) (RProj PValues b cur) cur) (RIndex cur 0)) c.
  Example s13 : ok e13. Proof. chk. Qed.
  (* a filter after a filter belongs to the right-hand side of the first: a[*].b[?c].a[?d].b *)
  Definition e14 : rexpr :=
    RProj PList a (RProj (PFilter c) (RSub cur b) (RProj (PFilter d) (RSub cur a) (RSub cur b))).
  Example s14 : ok e14. Proof. chk. Qed.
  (* a[?b][?c].d  and  [?a][?b] *)
  Definition e19 : rexpr := RProj (PFilter b) a (RProj (PFilter c) cur (RSub cur d)).
  Example s19 : ok e19. Proof. chk. Qed.
  Definition e20 : rexpr := RProj (PFilter a) cur (RProj (PFilter b) cur cur).
  Example s20 : ok e20. Proof. chk. Qed.
  (* a filter ends at a flatten; in parentheses it can be filtered again: (a[?b])[?c][] *)
  Definition e21 : rexpr := RProj PFlatten (RProj (PFilter c) (RProj (PFilter b) a cur) cur) cur.
  Example s21 : ok e21. Proof. chk. Qed.
  (* ! on atoms and on parenthesised operands, a dot after ! *)
  Definition e15 : rexpr :=
    RSub (RNot a) (RMultiList [RNot (RSub a b); RNot (RNot cur); RNeg (RNeg a); RNeg (RSub a b)]).
  Example s15 : ok e15. Proof. chk. Qed.
  (* the open operand of a dot takes following [i], [*] and slices *)
  Definition e16 : rexpr :=
    RProj PList (RIndex (RIndex (RSub (RSub a b) (RCall [107;101;121;115] [AExpr cur])) 0) 1) (RSub cur c).
  Example s16 : ok e16. Proof. chk. Qed.
  Definition e17 : rexpr :=
    RArith AMul (RProj PValues cur cur) (RProj PValues (RProj (PSlice None None None) (RSub a b) cur) (RSub cur c)).
  Example s17 : ok e17. Proof. chk. Qed.
  (* nested projections inside right-hand sides *)
  Definition e18 : rexpr :=
    RProj PValues a (RProj PList (RSub (RSub cur b) (RMultiList [c; d])) (RProj PValues (RIndex cur 1) (RProj (PFilter cur) cur cur))).
  Example s18 : ok e18. Proof. chk. Qed.
End Samples.

(* ================================================================== *)
(* 3. Integer literals: strconv.Atoi inverts the printer               *)
(* ================================================================== *)

Lemma take_digits_digits_of_f : forall fuel c acc, 0 <= c < 2 ^ Z.of_nat (S fuel) ->
  exists kd, 1 <= kd /\ forall a n,
    take_digits (digits_of_f (S fuel) c acc) a n = take_digits acc (a * 10 ^ kd + c) (n + kd).
Proof.
  assert (Hsmall : forall f c acc, 0 <= c -> c <? 10 = true ->
            exists kd, 1 <= kd /\ forall a n,
              take_digits (digits_of_f (S f) c acc) a n = take_digits acc (a * 10 ^ kd + c) (n + kd)).
  { intros f c acc H0 E. cbn [digits_of_f]. rewrite E. apply Z.ltb_lt in E.
    exists 1. split; [lia|]. intros a n. cbn [take_digits].
    unfold is_digit. replace ((48 <=? 48 + c) && (48 + c <=? 57)) with true
      by (symmetry; apply andb_true_iff; split; apply Z.leb_le; lia).
    rewrite Z.pow_1_r. replace (48 + c - 48) with c by lia. reflexivity. }
  induction fuel as [|f IH]; intros c acc Hc.
  - apply Hsmall; [lia|]. apply Z.ltb_lt. cbn in Hc. lia.
  - destruct (c <? 10) eqn:E; [apply Hsmall; [lia|assumption]|].
    cbn [digits_of_f]. rewrite E. apply Z.ltb_ge in E.
    assert (Hc' : 0 <= c / 10 < 2 ^ Z.of_nat (S f)).
    { split; [apply Z.div_pos; lia|].
      rewrite (Nat2Z.inj_succ (S f)), Z.pow_succ_r in Hc by lia.
      apply Z.div_lt_upper_bound; lia. }
    destruct (IH (c / 10) ((48 + c mod 10) :: acc) Hc') as (kd & Hk & H).
    exists (kd + 1). split; [lia|]. intros a n. rewrite H. cbn [take_digits].
    pose proof (Z.mod_pos_bound c 10 ltac:(lia)) as Hm.
    unfold is_digit. replace ((48 <=? 48 + c mod 10) && (48 + c mod 10 <=? 57)) with true
      by (symmetry; apply andb_true_iff; split; apply Z.leb_le; lia).
    replace (n + kd + 1) with (n + (kd + 1)) by lia.
    replace ((a * 10 ^ kd + c / 10) * 10 + (48 + c mod 10 - 48)) with (a * 10 ^ (kd + 1) + c); [reflexivity|].
    rewrite Z.pow_add_r, Z.pow_1_r by lia. pose proof (Z.div_mod c 10 ltac:(lia)). lia.
Qed.

Lemma take_digits_digits_of c : 0 <= c -> exists kd, 1 <= kd /\ take_digits (digits_of c) 0 0 = (c, kd, []).
Proof.
  intros Hc. unfold digits_of. rewrite Z.abs_eq by lia.
  destruct (take_digits_digits_of_f (Z.to_nat (Z.log2 c)) c []) as (kd & Hk & H).
  - split; [lia|]. rewrite Nat2Z.inj_succ, Z2Nat.id by apply Z.log2_nonneg.
    destruct (Z.eq_dec c 0) as [->|Hn]; [cbn; lia|]. apply Z.log2_spec. lia.
  - exists kd. split; [assumption|]. rewrite H. cbn [take_digits].
    replace (0 * 10 ^ kd + c) with c by lia. replace (0 + kd) with kd by lia. reflexivity.
Qed.

Lemma atoi_Z_to_bytes z : in_int z = true -> atoi (Z_to_bytes z) = Some z.
Proof.
  intros Hz. unfold atoi, Z_to_bytes. destruct (z <? 0) eqn:E.
  - apply Z.ltb_lt in E. destruct (take_digits_digits_of (- z) ltac:(lia)) as (kd & Hk & H).
    rewrite H. replace (kd =? 0) with false by (symmetry; apply Z.eqb_neq; lia).
    replace (- - z) with z by lia. rewrite Hz. reflexivity.
  - apply Z.ltb_ge in E. destruct (take_digits_digits_of z E) as (kd & Hk & H).
    destruct (digits_of z) as [|b r] eqn:D.
    + cbn in H. inversion H. lia.
    + assert (Hb : b <> 45).
      { intros ->. cbn [take_digits] in H. cbn in H. inversion H. }
      assert (Hm : forall (T : Type) (x y : T), match b with 45 => x | _ => y end = y).
      { intros T x y. destruct b as [|p|p]; try reflexivity.
        do 6 (destruct p as [p|p|]; try reflexivity). congruence. }
      rewrite Hm, H.
      replace (kd =? 0) with false by (symmetry; apply Z.eqb_neq; lia). rewrite Hz. reflexivity.
Qed.

(* ================================================================== *)
(* 4. "For every large enough fuel"                                    *)
(* ================================================================== *)

Definition EvP (Q : nat -> Prop) : Prop := exists f0, forall f, (f0 <= f)%nat -> Q f.

Lemma EvP_mono (Q R : nat -> Prop) : (forall f, Q f -> R f) -> EvP Q -> EvP R.
Proof. intros H [f0 H0]. exists f0. auto. Qed.

Lemma EvP_and (Q R : nat -> Prop) : EvP Q -> EvP R -> EvP (fun f => Q f /\ R f).
Proof.
  intros [f1 H1] [f2 H2]. exists (Nat.max f1 f2). intros f Hf. split; [apply H1|apply H2]; lia.
Qed.

Lemma EvP_const (Q : Prop) : Q -> EvP (fun _ => Q).
Proof. intros H. exists O. auto. Qed.

Lemma EvP_ge n : EvP (fun f => (n <= f)%nat).
Proof. exists n. auto. Qed.

Lemma EvP_S (Q : nat -> Prop) : EvP (fun f => Q (S f)) -> EvP Q.
Proof. intros [f0 H]. exists (S f0). intros [|f] Hf; [lia|]. apply H. lia. Qed.

Lemma EvP_pred (Q : nat -> Prop) : EvP Q -> EvP (fun f => Q (S f)).
Proof. intros [f0 H]. exists f0. intros f Hf. apply H. lia. Qed.

Definition Runs (c : pcall) (st : pst) (res : option node * pst) : Prop :=
  EvP (fun f => run f c st = Ok res).

Lemma runs_primary p st n st' res :
  EvP (fun f => primary (run f) f st = Ok (n, st')) ->
  Runs (CCont (Some n) p) st' res -> Runs (CExpr p) st res.
Proof.
  intros H1 H2. apply EvP_S. eapply EvP_mono; [|apply EvP_and; [exact H1|exact H2]].
  intros f [A B]. rewrite run_expr, A. cbn [bind]. exact B.
Qed.

Lemma runs_cont o P st n st' res :
  precedence (ct st) > P ->
  EvP (fun f => cont_step (run f) f o (precedence (ct st)) st = Ok (Some (n, st'))) ->
  Runs (CCont (Some n) P) st' res -> Runs (CCont o P) st res.
Proof.
  intros Hp H1 H2. apply EvP_S. eapply EvP_mono; [|apply EvP_and; [exact H1|exact H2]].
  intros f [A B]. cbn [run run_body]. cbv zeta.
  replace (precedence (ct st) >? P) with true by (symmetry; apply Z.gtb_lt; lia).
  rewrite A. cbn [bind]. exact B.
Qed.

Lemma runs_stop o P st : precedence (ct st) <= P -> Runs (CCont o P) st (o, st).
Proof. intros H. exists 1%nat. intros [|f] Hf; [lia|]. apply run_cont_stop, H. Qed.

Lemma runs_expr_ev p st n st' :
  Runs (CExpr p) st (Some n, st') -> EvP (fun f => expr (run f) p st = Ok (n, st')).
Proof. apply EvP_mono. intros f H. apply expr_ok, H. Qed.

(* ---- the two situations, as facts about the rest of the run ---- *)
Definition After (P : Z) (g : gstate) (rest : list token) (res : option node * pst) : Prop :=
  match g with
  | Plain o => Runs (CCont o P) (st_of rest) res
  | Group a t =>
    exists n' st', Runs (CCont (Some t) 11) (st_of rest) (Some n', st') /\
                   Runs (CCont (Some (match a with None => n' | Some x => NPipe x n' end)) P) st' res
  end.

Definition stops (p : Z) (rest : list token) : Prop := precedence (hdt rest) <= p.

Lemma After_stop P g rest : stops P rest -> stops 11 rest -> After P g rest (close_opt g, st_of rest).
Proof.
  intros H1 H2. destruct g as [o|a t]; cbn [After close_opt].
  - apply runs_stop. exact H1.
  - exists t, (st_of rest). split; [apply runs_stop; exact H2|].
    destruct a; apply runs_stop; exact H1.
Qed.

(* a group closes in front of a token that does not bind tighter than the dot *)
Lemma After_close P g rest res : stops 11 rest ->
  After P (Plain (close_opt g)) rest res -> After P g rest res.
Proof.
  intros Hs H. destruct g as [o|a t]; [exact H|]. cbn [After close_opt] in *.
  exists t, (st_of rest). split; [apply runs_stop; exact Hs|].
  destruct a; exact H.
Qed.

Lemma After_lift13 f g P ts rest res :
  (forall o P' res', P' < 13 ->
     Runs (CCont (Some (f o)) P') (st_of rest) res' -> Runs (CCont o P') (st_of ts) res') ->
  P < 13 -> After P (lift13 f g) rest res -> After P g ts res.
Proof.
  intros Hstep HP H. destruct g as [o|a t]; cbn [After lift13] in *.
  - apply Hstep; assumption.
  - destruct H as (n' & st' & H1 & H2). exists n', st'. split; [|exact H2].
    apply Hstep; [lia|exact H1].
Qed.

Lemma After_lower f g P ts rest res :
  (forall o, Runs (CCont (Some (f o)) P) (st_of rest) res -> Runs (CCont o P) (st_of ts) res) ->
  stops 11 ts -> After P (lower f g) rest res -> After P g ts res.
Proof.
  intros Hstep Hs H. apply After_close; [exact Hs|]. cbn [After lower] in *. apply Hstep, H.
Qed.

(* ================================================================== *)
(* 5. One step of the parser on the tokens of the canonical text       *)
(* ================================================================== *)

Lemma curr_cons t ts : curr (st_of (t :: ts)) = t.
Proof. reflexivity. Qed.
Lemma next_cons t u ts : next (st_of (t :: u :: ts)) = u.
Proof. reflexivity. Qed.
Lemma advance2_st ts : advance2 (st_of ts) = Ok (st_of (tl (tl ts))).
Proof. unfold advance2, st_of. cbn [rest]. rewrite pull_items. cbn [bind]. rewrite pull_items. reflexivity. Qed.
Lemma advance2_cons t u ts : advance2 (st_of (t :: u :: ts)) = Ok (st_of ts).
Proof. apply advance2_st. Qed.
Lemma is_refl t : is t t = true.
Proof. unfold is, ttype_eqb. destruct (ttype_eq_dec t t); congruence. Qed.
Lemma is_neq t u : t <> u -> is t u = false.
Proof. unfold is, ttype_eqb. destruct (ttype_eq_dec t u); congruence. Qed.
Lemma hdt_cons t ts : hdt (t :: ts) = ttyp t.
Proof. reflexivity. Qed.

(* evaluate [is a b] on constructors *)
Ltac simp_is :=
  repeat match goal with
  | |- context [is ?a ?b] =>
    let v := eval vm_compute in (is a b) in
    match v with
    | true => change (is a b) with true
    | false => change (is a b) with false
    end
  end.

Lemma gtb_t a b : a > b -> (a >? b) = true.
Proof. intros H. apply Z.gtb_lt. lia. Qed.
Lemma gtb_f a b : a <= b -> (a >? b) = false.
Proof. intros H. rewrite Z.gtb_ltb. apply Z.ltb_ge. lia. Qed.

Section Pointwise.
Variable rec : pcall -> pst -> outcome (option node * pst).
Variable k : nat.

Ltac prim_start := unfold primary; rewrite ct_cons; cbn [pk ttyp tval]; rewrite ?curr_cons; cbn [ttyp tval].

Lemma prim_current ts : primary rec k (st_of (pk TCurrent :: ts)) = Ok (NCurrent, st_of ts).
Proof. prim_start. rewrite advance_cons. reflexivity. Qed.

Lemma prim_root ts : primary rec k (st_of (pk TRoot :: ts)) = Ok (NRoot, st_of ts).
Proof. prim_start. rewrite advance_cons. reflexivity. Qed.

Lemma prim_var name ts : primary rec k (st_of (Tok TVariable name :: ts)) = Ok (NVariable name, st_of ts).
Proof. prim_start. rewrite advance_cons. reflexivity. Qed.

Lemma prim_raw s ts : primary rec k (st_of (raw_tok s :: ts)) = Ok (NString s, st_of ts).
Proof.
  unfold raw_tok. prim_start. rewrite advance_cons. cbn [bind].
  unfold parse_string_literal. rewrite inner_delim, raw_unescape_rescape. reflexivity.
Qed.

Lemma prim_lit v ts : json_text_ok v = true ->
  primary rec k (st_of (lit_tok v :: ts)) = Ok (mk_lit v, st_of ts).
Proof.
  intros H. destruct (node_of_value_ok 0 v H) as (n & Hn).
  unfold lit_tok, mk_lit. prim_start. rewrite (parse_json_literal_lit_text v n H Hn). cbn [bind].
  rewrite advance_cons, Hn. reflexivity.
Qed.

Lemma prim_field name ts : str_ok name = true -> hdt ts <> TOpenParen ->
  primary rec k (st_of (ident_tok name :: ts)) = Ok (NField name, st_of ts).
Proof.
  intros Hn Hp. unfold ident_tok. destruct (plain_ident name).
  - apply primary_ident, Hp.
  - prim_start. rewrite parse_quoted_identifier_qescape.
    + cbn [bind]. rewrite advance_cons. reflexivity.
    + apply bytes_ok_nonneg. unfold str_ok in Hn. apply andb_true_iff in Hn. apply Hn.
Qed.

Lemma prim_not ts n st' : expr rec 12 (st_of ts) = Ok (n, st') ->
  primary rec k (st_of (pk TNot :: ts)) = Ok (NNot n, st').
Proof. intros H. prim_start. rewrite advance_cons. cbn [bind]. change (precedence TNot) with 12. rewrite H. reflexivity. Qed.

Lemma prim_neg ts n st' : expr rec 7 (st_of ts) = Ok (n, st') ->
  primary rec k (st_of (pk TSubtract :: ts)) = Ok (NNegate n, st').
Proof. intros H. prim_start. rewrite advance_cons. cbn [bind]. change (precedence TMultiply) with 7. rewrite H. reflexivity. Qed.

Lemma prim_pos ts n st' : expr rec 7 (st_of ts) = Ok (n, st') ->
  primary rec k (st_of (pk TAdd :: ts)) = Ok (NAssertNumber n, st').
Proof. intros H. prim_start. rewrite advance_cons. cbn [bind]. change (precedence TMultiply) with 7. rewrite H. reflexivity. Qed.

Lemma prim_paren ts n rest :
  expr rec 1 (st_of (ts ++ pk TCloseParen :: rest)) = Ok (n, st_of (pk TCloseParen :: rest)) ->
  primary rec k (st_of (wrapt ts ++ rest)) = Ok (n, st_of rest).
Proof.
  intros H. unfold wrapt. cbn [app]. rewrite <- app_assoc. cbn [app].
  prim_start. rewrite advance_cons. cbn [bind]. rewrite H. cbn [bind]. rewrite ct_cons. cbn [pk ttyp].
  simp_is. cbn [negb]. rewrite advance_cons. reflexivity.
Qed.

(* parser.projection *)
Lemma projection_none sp rest : stops sp rest -> projection rec sp (st_of rest) = Ok (None, st_of rest).
Proof.
  intros H. unfold projection. rewrite ct_st. unfold stops in H.
  rewrite gtb_f by assumption.
  destruct (hdt rest); reflexivity.
Qed.

Definition rhs_start (t : ttype) : bool :=
  match t with TArrayWildcard | TDot | TFilter | TObjectWildcard | TOpenSqBrace => true | _ => false end.

Lemma projection_some sp ts : rhs_start (hdt ts) = true -> precedence (hdt ts) > sp ->
  projection rec sp (st_of ts) = rec (CCont None sp) (st_of ts).
Proof.
  intros H1 H2. unfold projection. rewrite ct_st.
  rewrite gtb_t by assumption.
  destruct (hdt ts); try discriminate; reflexivity.
Qed.

Lemma filter_ok ts n rest :
  expr rec 1 (st_of (ts ++ pk TCloseSqBrace :: rest)) = Ok (n, st_of (pk TCloseSqBrace :: rest)) ->
  filter rec (st_of (ts ++ pk TCloseSqBrace :: rest)) = Ok (n, st_of rest).
Proof.
  intros H. unfold filter. rewrite H. cbn [bind]. rewrite ct_cons. cbn [pk ttyp]. simp_is. cbn [negb].
  rewrite advance_cons. reflexivity.
Qed.

(* the projections in first position *)
Lemma prim_star ts rhs st' : projection rec 9 (st_of ts) = Ok (rhs, st') ->
  primary rec k (st_of (pk TArrayWildcard :: ts)) = Ok (mk_star rhs None, st').
Proof.
  intros H. prim_start. rewrite advance_cons. cbn [bind]. change projection_precedence with 9. rewrite H.
  cbn [bind]. destruct rhs; reflexivity.
Qed.

Lemma prim_values ts rhs st' : projection rec 9 (st_of ts) = Ok (rhs, st') ->
  primary rec k (st_of (pk TAsterisk :: ts)) = Ok (mk_values rhs None, st').
Proof.
  intros H. prim_start. rewrite advance_cons. cbn [bind]. change projection_precedence with 9. rewrite H.
  cbn [bind]. destruct rhs; reflexivity.
Qed.

Lemma prim_flatten ts rhs st' : projection rec 8 (st_of ts) = Ok (rhs, st') ->
  primary rec k (st_of (pk TFlatten :: ts)) = Ok (mk_flatten rhs None, st').
Proof.
  intros H. prim_start. rewrite advance_cons. cbn [bind]. change (precedence TFlatten) with 8. rewrite H.
  cbn [bind]. destruct rhs; reflexivity.
Qed.

Lemma prim_filter ts c st1 rhs st' : filter rec (st_of ts) = Ok (c, st1) -> projection rec 9 st1 = Ok (rhs, st') ->
  primary rec k (st_of (pk TFilter :: ts)) = Ok (mk_filter c rhs None, st').
Proof.
  intros H1 H2. prim_start. rewrite advance_cons. cbn [bind]. rewrite H1. cbn [bind].
  change projection_precedence with 9. rewrite H2. cbn [bind]. destruct rhs; reflexivity.
Qed.

(* ---- parser.index ---- *)
Ltac pstep :=
  repeat first
  [ rewrite ct_cons | rewrite nt_cons | rewrite hdt_cons | rewrite curr_cons
  | progress cbn [int_tok pk ttyp tval bind negb andb orb fst snd]
  | progress simp_is
  | rewrite advance2_cons | rewrite advance_cons
  | rewrite atoi_Z_to_bytes by assumption ].

Lemma index_idx child i rest : in_int i = true ->
  index child (st_of (int_tok i :: pk TCloseSqBrace :: rest)) = Ok (mk_index child i, false, st_of rest).
Proof. intros H. unfold index. pstep. reflexivity. Qed.

Definition opt_in_int (x : option Z) : Prop := match x with Some z => in_int z = true | None => True end.

Definition slice_inner (a b c : option Z) (rest : list token) : list token :=
  opt_int_tok a ++ pk TColon :: opt_int_tok b ++
  (match c with Some s => [pk TColon; int_tok s] | None => [] end) ++ pk TCloseSqBrace :: rest.

Lemma slice_toks_app a b c ts : slice_toks a b c ++ ts = pk TOpenSqBrace :: slice_inner a b c ts.
Proof.
  unfold slice_toks, slice_inner. cbn [app]. f_equal. rewrite <- app_assoc. cbn [app]. f_equal. f_equal.
  rewrite <- !app_assoc. reflexivity.
Qed.

Lemma slice_inner_hd a b c ts :
  is (hdt (slice_inner a b c ts)) TIntegerLiteral || is (hdt (slice_inner a b c ts)) TColon = true.
Proof. destruct a; reflexivity. Qed.

Lemma index_slice child a b c rest :
  opt_in_int a -> opt_in_int b -> opt_in_int c -> c <> Some 0 ->
  index child (st_of (slice_inner a b c rest)) =
  Ok (mk_slice child (pslice_start a c) (pslice_stop b c) (pslice_step c), true, st_of rest).
Proof.
  intros Ha Hb Hc Hz. unfold slice_inner.
  destruct a as [a|], b as [b|], c as [c|]; cbn [opt_in_int opt_int_tok app] in *;
    unfold index; pstep;
    try (replace (c =? 0) with false by (symmetry; apply Z.eqb_neq; congruence));
    rewrite ?andb_false_r, ?andb_true_r; reflexivity.
Qed.

Lemma wsp_false n st : wrap_slice_projection rec n false st = Ok (n, st).
Proof. reflexivity. Qed.

Lemma wsp_true n ts rhs st' : projection rec 9 (st_of ts) = Ok (rhs, st') ->
  wrap_slice_projection rec n true (st_of ts) = Ok (NProjectArray n (or_current rhs), st').
Proof. intros H. unfold wrap_slice_projection. change projection_precedence with 9. rewrite H. reflexivity. Qed.

Lemma prim_slice a b c ts rhs st' :
  opt_in_int a -> opt_in_int b -> opt_in_int c -> c <> Some 0 ->
  projection rec 9 (st_of ts) = Ok (rhs, st') ->
  primary rec k (st_of (slice_toks a b c ++ ts)) = Ok (mk_slicep a b c rhs None, st').
Proof.
  intros Ha Hb Hc Hz H. rewrite slice_toks_app. prim_start. rewrite advance_cons. cbn [bind].
  rewrite ct_st, slice_inner_hd. rewrite index_slice by assumption. cbn [bind].
  rewrite (wsp_true _ _ _ _ H). reflexivity.
Qed.

(* ---- comma-separated lists ---- *)
Definition seg := (list token * list token)%type.

Fixpoint segs_toks (segs : list seg) (closer : token) (rest : list token) : list token :=
  match segs with
  | [] => closer :: rest
  | (pre, ts) :: more =>
    pre ++ ts ++ match more with [] => closer :: rest | _ => pk TComma :: segs_toks more closer rest end
  end.
Definition tail_of (more : list seg) (closer : token) (rest : list token) : list token :=
  match more with [] => closer :: rest | _ => pk TComma :: segs_toks more closer rest end.

Lemma segs_toks_cons pre ts more closer rest :
  segs_toks ((pre, ts) :: more) closer rest = pre ++ ts ++ tail_of more closer rest.
Proof. reflexivity. Qed.

Lemma tail_of_cons s more closer rest :
  tail_of (s :: more) closer rest = pk TComma :: segs_toks (s :: more) closer rest.
Proof. reflexivity. Qed.
Lemma tail_of_nil closer rest : tail_of [] closer rest = closer :: rest.
Proof. reflexivity. Qed.

Lemma sepby_segs closer rest : forall segs, segs <> [] ->
  sepby (pk TComma) (map (fun s : seg => fst s ++ snd s) segs) ++ closer :: rest = segs_toks segs closer rest.
Proof.
  induction segs as [|[pre ts] more IH]; intros H; [congruence|].
  destruct more as [|s more].
  - cbn [map sepby segs_toks fst snd]. rewrite <- app_assoc. reflexivity.
  - change (map (fun s0 : seg => fst s0 ++ snd s0) ((pre, ts) :: s :: more))
      with ((pre ++ ts) :: map (fun s0 : seg => fst s0 ++ snd s0) (s :: more)).
    cbn [sepby]. destruct (map (fun s0 : seg => fst s0 ++ snd s0) (s :: more)) eqn:E; [discriminate|].
    rewrite <- !app_assoc. cbn [app]. rewrite IH by discriminate.
    rewrite segs_toks_cons. unfold tail_of. reflexivity.
Qed.

(* every expression of the list is read, up to the separator or closer that follows it *)
Fixpoint segs_read (segs : list seg) (ns : list node) (closer : token) (rest : list token) : Prop :=
  match segs, ns with
  | [], [] => True
  | (pre, ts) :: more, n :: ns' =>
    expr rec 1 (st_of (ts ++ tail_of more closer rest)) = Ok (n, st_of (tail_of more closer rest)) /\
    segs_read more ns' closer rest
  | _, _ => False
  end.

Lemma mk_mlist_snoc child acc n : acc <> [] ->
  mk_mlist child (acc ++ [n]) = match child with None => NSelectArrayCurrent (acc ++ [n]) | Some c => NSelectArray c (acc ++ [n]) end.
Proof. destruct acc as [|x [|y acc]]; [congruence| |]; reflexivity. Qed.

Lemma sal_ok : forall segs ns child acc rest k',
  segs_read segs ns (pk TCloseSqBrace) rest -> Forall (fun s : seg => fst s = []) segs -> segs <> [] ->
  (length segs <= k')%nat ->
  select_array_loop rec k' child acc (st_of (segs_toks segs (pk TCloseSqBrace) rest)) =
  Ok (mk_mlist child (acc ++ ns), st_of rest).
Proof.
  induction segs as [|[pre ts] more IH]; intros ns child acc rest k' Hr Hp Hne Hk; [congruence|].
  destruct ns as [|n ns]; [destruct Hr|]. destruct Hr as [He Hr].
  apply Forall_cons_iff in Hp. destruct Hp as [Hpre Hp]. cbn [fst] in Hpre. subst pre.
  destruct k' as [|k']; [cbn [length] in Hk; lia|].
  rewrite segs_toks_cons. cbn [app select_array_loop]. rewrite He. cbn [bind].
  destruct more as [|s more].
  - destruct ns; [|destruct Hr]. rewrite !tail_of_nil. pstep.
    destruct acc as [|x acc]; [reflexivity|].
    rewrite mk_mlist_snoc by discriminate. destruct child; reflexivity.
  - rewrite !tail_of_cons. pstep. rewrite IH with (ns := ns); try assumption; try discriminate.
    + rewrite <- app_assoc. reflexivity.
    + cbn [length] in *. lia.
Qed.

Lemma key_of_ident_tok key ts : str_ok key = true ->
  match ct (st_of (ident_tok key :: ts)) with
  | TQuotedIdentifier => parse_quoted_identifier (tval (curr (st_of (ident_tok key :: ts))))
  | TUnquotedIdentifier => Ok (tval (curr (st_of (ident_tok key :: ts))))
  | _ => unexpected_curr (st_of (ident_tok key :: ts))
  end = Ok key.
Proof.
  intros H. rewrite ct_cons, curr_cons. unfold ident_tok. destruct (plain_ident key); cbn [ttyp tval]; [reflexivity|].
  apply parse_quoted_identifier_qescape, bytes_ok_nonneg. unfold str_ok in H. apply andb_true_iff in H. apply H.
Qed.

Definition hitem := (bytes * list token * node)%type.
Definition hkey (x : hitem) : bytes := fst (fst x).
Definition hsegs (l : list hitem) : list seg := map (fun x : hitem => ([ident_tok (hkey x); pk TColon], snd (fst x))) l.
Definition lsegs (l : list hitem) : list seg := map (fun x : hitem => ([Tok TVariable (hkey x); pk TAssign], snd (fst x))) l.
Definition hns (l : list hitem) : list node := map (fun x : hitem => snd x) l.
Definition hkv (l : list hitem) : list (bytes * node) := map (fun x : hitem => (hkey x, snd x)) l.

Lemma mk_mhash_snoc child acc kf : acc <> [] ->
  mk_mhash child (acc ++ [kf]) = match child with None => NSelectObjectCurrent (acc ++ [kf]) | Some c => NSelectObject c (acc ++ [kf]) end.
Proof. destruct acc as [|[x1 x2] [|y acc]]; [congruence| |]; reflexivity. Qed.

Lemma sol_ok : forall l child acc rest k',
  segs_read (hsegs l) (hns l) (pk TCloseBrace) rest -> Forall (fun x => str_ok (hkey x) = true) l -> l <> [] ->
  (length l <= k')%nat -> nodup_keys (acc ++ hkv l) = true ->
  select_object_loop rec k' child acc (st_of (segs_toks (hsegs l) (pk TCloseBrace) rest)) =
  Ok (mk_mhash child (acc ++ hkv l), st_of rest).
Proof.
  induction l as [|[[key ts] n] more IH]; intros child acc rest k' Hr Hs Hne Hk Hd; [congruence|].
  cbn [hsegs hns hkv map hkey fst snd] in *. fold (hsegs more) in *. fold (hns more) in *. fold (hkv more) in *.
  destruct Hr as [He Hr]. apply Forall_cons_iff in Hs. destruct Hs as [Hkey Hs]. cbn [hkey fst] in Hkey.
  destruct k' as [|k']; [cbn [length] in Hk; lia|].
  rewrite segs_toks_cons. cbn [app select_object_loop].
  rewrite (key_of_ident_tok key _ Hkey). cbn [bind]. pstep. rewrite He. cbn [bind].
  pose proof (nodup_keys_mid _ _ _ _ Hd) as Hnone. rewrite (assoc_set_new _ _ _ Hnone).
  destruct more as [|s more].
  - rewrite !tail_of_nil. cbn [hkv map]. pstep.
    destruct acc as [|x acc]; [reflexivity|].
    rewrite mk_mhash_snoc by discriminate. destruct child; reflexivity.
  - cbn [hsegs map]. fold (hsegs more). rewrite !tail_of_cons. pstep.
    rewrite IH; try assumption; try discriminate.
    + rewrite <- app_assoc. reflexivity.
    + cbn [length] in *. lia.
    + rewrite <- app_assoc. exact Hd.
Qed.

Lemma ll_ok : forall l acc rest k',
  segs_read (lsegs l) (hns l) (pk TIn) rest -> l <> [] ->
  (length l <= k')%nat -> nodup_keys (acc ++ hkv l) = true ->
  let_loop rec k' acc (st_of (segs_toks (lsegs l) (pk TIn) rest)) = Ok (acc ++ hkv l, st_of rest).
Proof.
  induction l as [|[[key ts] n] more IH]; intros acc rest k' Hr Hne Hk Hd; [congruence|].
  cbn [lsegs hns hkv map hkey fst snd] in *. fold (lsegs more) in *. fold (hns more) in *. fold (hkv more) in *.
  destruct Hr as [He Hr].
  destruct k' as [|k']; [cbn [length] in Hk; lia|].
  rewrite segs_toks_cons. cbn [app let_loop]. pstep. cbv zeta. pstep. rewrite He. cbn [bind].
  pose proof (nodup_keys_mid _ _ _ _ Hd) as Hnone. rewrite (assoc_set_new _ _ _ Hnone).
  destruct more as [|s more].
  - rewrite !tail_of_nil. cbn [hkv map]. pstep. reflexivity.
  - cbn [lsegs map]. fold (lsegs more). rewrite !tail_of_cons. pstep.
    rewrite IH; try assumption; try discriminate.
    + rewrite <- app_assoc. reflexivity.
    + cbn [length] in *. lia.
    + rewrite <- app_assoc. exact Hd.
Qed.

Lemma val_ok : forall segs ns acc rest k',
  segs_read segs ns (pk TCloseParen) rest -> Forall (fun s : seg => fst s = []) segs -> segs <> [] ->
  (length segs <= k')%nat ->
  var_args_loop rec k' acc (st_of (segs_toks segs (pk TCloseParen) rest)) = Ok (acc ++ ns, st_of rest).
Proof.
  induction segs as [|[pre ts] more IH]; intros ns acc rest k' Hr Hp Hne Hk; [congruence|].
  destruct ns as [|n ns]; [destruct Hr|]. destruct Hr as [He Hr].
  apply Forall_cons_iff in Hp. destruct Hp as [Hpre Hp]. cbn [fst] in Hpre. subst pre.
  destruct k' as [|k']; [cbn [length] in Hk; lia|].
  rewrite segs_toks_cons. cbn [app var_args_loop]. rewrite He. cbn [bind]. cbv zeta.
  destruct more as [|s more].
  - destruct ns; [|destruct Hr]. rewrite !tail_of_nil. pstep. reflexivity.
  - rewrite !tail_of_cons. pstep. rewrite IH with (ns := ns); try assumption; try discriminate.
    + rewrite <- app_assoc. reflexivity.
    + cbn [length] in *. lia.
Qed.

Lemma prim_mlist segs ns rest :
  segs_read segs ns (pk TCloseSqBrace) rest -> Forall (fun s : seg => fst s = []) segs -> segs <> [] ->
  (length segs <= k)%nat ->
  hdt (segs_toks segs (pk TCloseSqBrace) rest) <> TIntegerLiteral ->
  hdt (segs_toks segs (pk TCloseSqBrace) rest) <> TColon ->
  primary rec k (st_of (pk TOpenSqBrace :: segs_toks segs (pk TCloseSqBrace) rest)) = Ok (mk_mlist None ns, st_of rest).
Proof.
  intros Hr Hp Hne Hk H1 H2. prim_start. rewrite advance_cons. cbn [bind]. rewrite ct_st.
  rewrite (is_neq _ _ H1), (is_neq _ _ H2). cbn [orb]. unfold select_array.
  rewrite (sal_ok segs ns None [] rest k); auto.
Qed.

Lemma prim_mhash l rest :
  segs_read (hsegs l) (hns l) (pk TCloseBrace) rest -> Forall (fun x => str_ok (hkey x) = true) l -> l <> [] ->
  (length l <= k)%nat -> nodup_keys (hkv l) = true ->
  primary rec k (st_of (pk TOpenBrace :: segs_toks (hsegs l) (pk TCloseBrace) rest)) = Ok (mk_mhash None (hkv l), st_of rest).
Proof.
  intros Hr Hs Hne Hk Hd. prim_start. rewrite advance_cons. cbn [bind]. unfold select_object.
  rewrite (sol_ok l None [] rest k); auto.
Qed.

Lemma prim_let l body bts rest st' :
  segs_read (lsegs l) (hns l) (pk TIn) (bts ++ rest) -> l <> [] -> (length l <= k)%nat ->
  nodup_keys (hkv l) = true ->
  expr rec 1 (st_of (bts ++ rest)) = Ok (body, st') ->
  primary rec k (st_of (pk TLet :: segs_toks (lsegs l) (pk TIn) (bts ++ rest))) = Ok (NDefine (hkv l) body, st').
Proof.
  intros Hr Hne Hk Hd Hb. prim_start. rewrite advance_cons. cbn [bind]. unfold let_.
  rewrite (ll_ok l [] (bts ++ rest) k); auto. cbn [bind app]. rewrite Hb. reflexivity.
Qed.

(* ---- function calls ---- *)
Definition shape_ok (ap : argparser) (fl : list bool) : bool :=
  match ap, fl with
  | AP1, [false] => true
  | AP1to2, [false] | AP1to2, [false; false] => true
  | AP2, [false; false] => true
  | AP2Exp, [false; true] => true
  | AP2Map, [true; false] => true
  | AP2to3, [false; false] | AP2to3, [false; false; false] => true
  | AP2to4, [false; false] | AP2to4, [false; false; false] | AP2to4, [false; false; false; false] => true
  | AP3to4, [false; false; false] | AP3to4, [false; false; false; false] => true
  | APVar, _ :: _ => forallb negb fl
  | _, _ => false
  end.

Definition aitem := (bool * list token)%type.
Definition asegs (l : list aitem) : list seg :=
  map (fun x : aitem => (if fst x then [pk TExpression] else [], snd x)) l.

Lemma segs_read_cons pre ts more ns closer rest :
  segs_read ((pre, ts) :: more) ns closer rest ->
  exists n ns', ns = n :: ns' /\
    expr rec 1 (st_of (ts ++ tail_of more closer rest)) = Ok (n, st_of (tail_of more closer rest)) /\
    segs_read more ns' closer rest.
Proof. destruct ns as [|n ns']; cbn [segs_read]; [tauto|]. intros [H1 H2]. eauto. Qed.

Lemma segs_read_nil ns closer rest : segs_read [] ns closer rest -> ns = [].
Proof. destruct ns; cbn [segs_read]; [reflexivity|tauto]. Qed.

Lemma asegs_plain l : forallb negb (map fst l) = true -> Forall (fun s : seg => fst s = []) (asegs l).
Proof.
  induction l as [|[[|] ts] l IH]; cbn [map fst forallb negb andb asegs]; intros H; [constructor|discriminate|].
  constructor; [reflexivity|apply IH, H].
Qed.

Lemma pa_ok ap name (l : list aitem) ns rest :
  shape_ok ap (map fst l) = true -> segs_read (asegs l) ns (pk TCloseParen) rest -> (length l <= k)%nat ->
  hdt (segs_toks (asegs l) (pk TCloseParen) rest) <> TCloseParen ->
  parse_args rec k ap name (st_of (segs_toks (asegs l) (pk TCloseParen) rest)) = Ok (ns, st_of rest).
Proof.
  intros Hs Hr Hk Hh.
  assert (Hc : check_not_close name (st_of (segs_toks (asegs l) (pk TCloseParen) rest)) = Ok tt).
  { unfold check_not_close. rewrite ct_st, (is_neq _ _ Hh). reflexivity. }
  unfold parse_args. rewrite Hc. cbn [bind]. clear Hc Hh.
  destruct ap.
  9:{ destruct l as [|x l]; [discriminate|]. cbn [shape_ok] in Hs.
      rewrite (val_ok (asegs (x :: l)) ns [] rest k); auto.
      - apply asegs_plain, Hs.
      - discriminate.
      - unfold asegs. rewrite map_length. exact Hk. }
  all: destruct l as [|[[|] t1] [|[[|] t2] [|[[|] t3] [|[[|] t4] [|? ?]]]]]; try discriminate Hs;
    cbn [asegs map fst snd] in Hr |- *;
    repeat (apply segs_read_cons in Hr; destruct Hr as (? & ? & -> & ? & Hr));
    apply segs_read_nil in Hr; subst;
    cbn [segs_toks tail_of app] in *;
    unfold end_args, need_comma, opt_more;
    repeat first [ progress pstep
                 | match goal with H : expr rec 1 ?s = _ |- context [expr rec 1 ?s] => rewrite H end ];
    reflexivity.
Qed.

Lemma prim_call f ap fb argtoks ns n rest :
  assoc f function_table = Some (ap, fb) ->
  parse_args rec k ap f (st_of argtoks) = Ok (ns, st_of rest) -> build fb ns = Some n ->
  primary rec k (st_of (Tok TUnquotedIdentifier f :: pk TOpenParen :: argtoks)) = Ok (n, st_of rest).
Proof.
  intros Ha Hp Hb. prim_start. rewrite nt_cons, hdt_cons. cbn [pk ttyp]. simp_is.
  unfold function. rewrite curr_cons. cbn [tval]. cbv zeta. rewrite advance2_cons. cbn [bind].
  rewrite Ha, Hp. cbn [bind]. rewrite Hb. reflexivity.
Qed.

(* ---- one iteration of parser.continuation ---- *)
Ltac cs_start := unfold cont_step; rewrite ct_cons; cbn [pk ttyp bin_of cmp_ttype ar_ttype].

Lemma cs_pipe l np ts r st' : expr rec np (st_of ts) = Ok (r, st') ->
  cont_step rec k (Some l) np (st_of (pk TPipe :: ts)) = Ok (Some (NPipe l r, st')).
Proof. intros H. cs_start. rewrite advance_cons. cbn [bind]. rewrite H. reflexivity. Qed.
Lemma cs_or l np ts r st' : expr rec np (st_of ts) = Ok (r, st') ->
  cont_step rec k (Some l) np (st_of (pk TOr :: ts)) = Ok (Some (NOr l r, st')).
Proof. intros H. cs_start. rewrite advance_cons. cbn [bind]. rewrite H. reflexivity. Qed.
Lemma cs_and l np ts r st' : expr rec np (st_of ts) = Ok (r, st') ->
  cont_step rec k (Some l) np (st_of (pk TAnd :: ts)) = Ok (Some (NAnd l r, st')).
Proof. intros H. cs_start. rewrite advance_cons. cbn [bind]. rewrite H. reflexivity. Qed.
Lemma cs_cmp op l np ts r st' : expr rec np (st_of ts) = Ok (r, st') ->
  cont_step rec k (Some l) np (st_of (pk (cmp_ttype op) :: ts)) = Ok (Some (mk_cmp op l r, st')).
Proof. intros H. destruct op; cs_start; rewrite advance_cons; cbn [bind]; rewrite H; reflexivity. Qed.
Lemma cs_ar op l np ts r st' : expr rec np (st_of ts) = Ok (r, st') ->
  cont_step rec k (Some l) np (st_of (pk (ar_ttype op) :: ts)) = Ok (Some (mk_ar op l r, st')).
Proof. intros H. destruct op; cs_start; rewrite advance_cons; cbn [bind]; rewrite H; reflexivity. Qed.

Lemma cs_star o np ts rhs st' : projection rec 9 (st_of ts) = Ok (rhs, st') ->
  cont_step rec k o np (st_of (pk TArrayWildcard :: ts)) = Ok (Some (mk_star rhs o, st')).
Proof.
  intros H. cs_start. rewrite advance_cons. cbn [bind]. change projection_precedence with 9. rewrite H.
  cbn [bind]. destruct o, rhs; reflexivity.
Qed.
Lemma cs_values o np ts rhs st' : projection rec 9 (st_of ts) = Ok (rhs, st') ->
  cont_step rec k o np (st_of (pk TObjectWildcard :: ts)) = Ok (Some (mk_values rhs o, st')).
Proof.
  intros H. cs_start. rewrite advance_cons. cbn [bind]. change projection_precedence with 9. rewrite H.
  cbn [bind]. destruct o, rhs; reflexivity.
Qed.
Lemma cs_flatten o np ts rhs st' : projection rec np (st_of ts) = Ok (rhs, st') ->
  cont_step rec k o np (st_of (pk TFlatten :: ts)) = Ok (Some (mk_flatten rhs o, st')).
Proof.
  intros H. cs_start. rewrite advance_cons. cbn [bind]. rewrite H.
  cbn [bind]. destruct o, rhs; reflexivity.
Qed.
Lemma cs_filter o np ts c st1 rhs st' : filter rec (st_of ts) = Ok (c, st1) -> projection rec 9 st1 = Ok (rhs, st') ->
  cont_step rec k o np (st_of (pk TFilter :: ts)) = Ok (Some (mk_filter c rhs o, st')).
Proof.
  intros H1 H2. cs_start. rewrite advance_cons. cbn [bind]. rewrite H1. cbn [bind].
  change projection_precedence with 9. rewrite H2.
  cbn [bind]. destruct o, rhs; reflexivity.
Qed.

Definition is_ident_t (t : ttype) : bool :=
  match t with TQuotedIdentifier | TUnquotedIdentifier => true | _ => false end.

Lemma cs_dot_ident o np ts r st' : is_ident_t (hdt ts) = true -> expr rec np (st_of ts) = Ok (r, st') ->
  cont_step rec k o np (st_of (pk TDot :: ts)) =
  Ok (Some (match o with None => r | Some n => NPipe n r end, st')).
Proof.
  intros Hi H. cs_start. rewrite nt_cons.
  destruct (hdt ts); try discriminate; rewrite advance_cons; cbn [bind]; rewrite H; reflexivity.
Qed.

Lemma cs_dot_mlist o np ts r :
  select_array rec k (Some (or_current o)) (st_of ts) = Ok r ->
  cont_step rec k o np (st_of (pk TDot :: pk TOpenSqBrace :: ts)) = Ok (Some r).
Proof.
  intros H. cs_start. rewrite nt_cons, hdt_cons. cbn [pk ttyp]. rewrite advance2_cons. cbn [bind].
  unfold or_current in H. rewrite H. reflexivity.
Qed.

Lemma cs_dot_mhash o np ts r :
  select_object rec k (Some (or_current o)) (st_of ts) = Ok r ->
  cont_step rec k o np (st_of (pk TDot :: pk TOpenBrace :: ts)) = Ok (Some r).
Proof.
  intros H. cs_start. rewrite nt_cons, hdt_cons. cbn [pk ttyp]. rewrite advance2_cons. cbn [bind].
  unfold or_current in H. rewrite H. reflexivity.
Qed.

Lemma cs_bracket o np ts n project st1 r :
  index o (st_of ts) = Ok (n, project, st1) -> wrap_slice_projection rec n project st1 = Ok r ->
  cont_step rec k o np (st_of (pk TOpenSqBrace :: ts)) = Ok (Some r).
Proof.
  intros H1 H2. cs_start. rewrite advance_cons. cbn [bind]. rewrite H1. cbn [bind]. rewrite H2. reflexivity.
Qed.

End Pointwise.

(* ================================================================== *)
(* 6. Well-formed reference expressions                                *)
(* ================================================================== *)

Definition var_ok (name : bytes) : bool :=
  match name with 36 :: b :: r => is_alpha_ b && forallb is_alnum_ r | _ => false end.
Definition is_ref (a : rarg) : bool := match a with ARef _ => true | AExpr _ => false end.
Definition arg_expr (a : rarg) : rexpr := match a with AExpr e | ARef e => e end.
Definition call_ok (f : bytes) (args : list rarg) : bool :=
  match assoc f function_table with
  | Some (ap, _) => shape_ok ap (map is_ref args)
  | None => false
  end.
(* what the grammar allows after a dot *)
Definition sub_shape (x : rexpr) : bool :=
  match x with RField _ | RCall _ _ | RMultiList _ | RMultiHash _ => true | _ => false end.
Definition not_rnot (l : rexpr) : bool := match l with RNot _ => false | _ => true end.

(* binding power of the token that starts a projection, and the power at which
   the parser reads its right-hand side *)
Definition sprec_k (k : projkind) : Z :=
  match k with PList | PSlice _ _ _ => 13 | PFlatten => 8 | PFilter _ => 10 | PValues => 11 end.
(* every projection reads its right-hand side at projection_precedence = 9, except flatten (8);
   hence every selector but [] continues an open right-hand side, and inside a right-hand side
   nothing can follow a projection (rhs_ok below: sprec_k k <= tstop l forces l not to be one) *)
Definition stop_k (k : projkind) : Z := match k with PFlatten => 8 | _ => 9 end.
(* a token of power above [tstop l] directly after l would be taken into the
   right-hand side of the projection that ends l *)
Fixpoint tstop (l : rexpr) : Z :=
  match l with RProj k _ x => Z.min (stop_k k) (tstop x) | _ => 13 end.

Definition slice_ok (k : projkind) : Prop :=
  match k with
  | PSlice a b c => opt_in_int a /\ opt_in_int b /\ opt_in_int c /\ c <> Some 0
  | _ => True
  end.

Fixpoint wfr (e : rexpr) {struct e} : Prop :=
  match e with
  | RCurrent | RRoot => True
  | RField name => str_ok name = true
  | RLiteral v => json_text_ok v = true
  | RRaw s => str_ok s = true
  | RVar name => var_ok name = true
  | RSub l r => wfr l /\ sub_shape r = true /\ wfr r
  | RIndex l i => wfr l /\ not_rnot l = true /\ in_int i = true
  | RProj k l r =>
    wfr l /\ (sprec_k k = 13 -> not_rnot l = true) /\ slice_ok k /\
    match k with PFilter c => wfr c | _ => True end /\ rhs_ok (stop_k k) r
  | RMultiList es =>
    es <> [] /\
    (fix all (l : list rexpr) : Prop := match l with [] => True | x :: r => wfr x /\ all r end) es
  | RMultiHash kes =>
    kes <> [] /\ nodup_keys kes = true /\
    (fix all (l : list (bytes * rexpr)) : Prop :=
       match l with [] => True | (k, x) :: r => str_ok k = true /\ wfr x /\ all r end) kes
  | RPipe l r | ROr l r | RAnd l r | RCmp _ l r | RArith _ l r => wfr l /\ wfr r
  | RNot x | RNeg x | RPos x => wfr x
  | RCall f args =>
    call_ok f args = true /\
    (fix all (l : list rarg) : Prop :=
       match l with [] => True | AExpr x :: r => wfr x /\ all r | ARef x :: r => wfr x /\ all r end) args
  | RLet bs body =>
    bs <> [] /\ nodup_keys bs = true /\
    (fix all (l : list (bytes * rexpr)) : Prop :=
       match l with [] => True | (n, x) :: r => var_ok n = true /\ wfr x /\ all r end) bs /\
    wfr body
  end
(* [rhs_ok sp r]: r is the right-hand side of a projection whose parser loop runs at power sp *)
with rhs_ok (sp : Z) (r : rexpr) {struct r} : Prop :=
  match r with
  | RCurrent => True
  | RSub l x => rhs_ok sp l /\ 11 <= tstop l /\ sub_shape x = true /\ wfr x
  | RIndex l i => rhs_ok sp l /\ 13 <= tstop l /\ in_int i = true
  | RProj k l x =>
    rhs_ok sp l /\ sp < sprec_k k <= tstop l /\ slice_ok k /\
    match k with PFilter c => wfr c | _ => True end /\ rhs_ok (stop_k k) x
  | _ => False
  end.

(* non-vacuity *)
Definition rich : rexpr :=
  RLet [([36; 120], RProj PList (RField [97])
                 (RProj (PFilter (RNot RCurrent)) (RSub RCurrent (RField [99]))
                    (RProj (PFilter (RCmp CLt (RSub RCurrent (RField [98])) (RLiteral (VNum (NJson [49])))))
                       (RIndex RCurrent (-1))
                       (RProj (PSlice None (Some 2) (Some (-1))) (RSub RCurrent (RMultiList [RRaw [120]; RRoot])) RCurrent))))]
        (RPipe (RCall [115;111;114;116;95;98;121] [AExpr (RVar [36; 120]); ARef (RNeg (RField [97; 32]))])
               (ROr (RProj PFlatten (RProj PValues RCurrent RCurrent) (RSub RCurrent (RMultiHash [([107], RCurrent)])))
                    (RArith AMul (RIndex (RSub (RField [97]) (RField [98])) 0) (RProj (PSlice (Some 1) None None) RCurrent RCurrent)))).
Example wfr_rich : wfr rich.
Proof. cbn. repeat split; try reflexivity; try discriminate; try lia. Qed.

(* ================================================================== *)
(* 7. Induction over reference expressions                             *)
(* ================================================================== *)

Definition rchildren (e : rexpr) : list rexpr :=
  match e with
  | RSub l r => [l; r]
  | RIndex l _ => [l]
  | RProj k l r => match k with PFilter c => [c; l; r] | _ => [l; r] end
  | RMultiList es => es
  | RMultiHash kes => map snd kes
  | RPipe l r | ROr l r | RAnd l r | RCmp _ l r | RArith _ l r => [l; r]
  | RNot x | RNeg x | RPos x => [x]
  | RCall _ args => map arg_expr args
  | RLet bs body => body :: map snd bs
  | _ => []
  end.

Lemma rexpr_children_ind (P : rexpr -> Prop) :
  (forall e, Forall P (rchildren e) -> P e) -> forall e, P e.
Proof.
  intros H. fix IH 1. intros e. apply H. destruct e; cbn [rchildren]; repeat constructor; try apply IH.
  - destruct k; repeat constructor; apply IH.
  - revert es. fix IHl 1. intros [|x es]; constructor; [apply IH|apply IHl].
  - revert kes. fix IHl 1. intros [|[k x] kes]; constructor; [apply IH|apply IHl].
  - revert args. fix IHl 1. intros [|[x|x] args]; constructor; try apply IH; apply IHl.
  - revert bs. fix IHl 1. intros [|[k x] bs]; constructor; [apply IH|apply IHl].
Qed.

(* ---- the nested recursions of toks_of / cxb / wfr, as maps ---- *)
Lemma toks_of_q q e :
  toks_of q e = if level e <? q then wrapt (toks_of (level e) e) else toks_of (level e) e.
Proof. destruct e; cbn [toks_of]; rewrite Z.ltb_irrefl; reflexivity. Qed.

Definition msegs (es : list rexpr) : list seg := map (fun x => (@nil token, toks_of L_PIPE x)) es.
Definition hitems (kes : list (bytes * rexpr)) : list hitem :=
  map (fun kx => (fst kx, toks_of L_PIPE (snd kx), compile_r (snd kx))) kes.
Definition aitems (args : list rarg) : list aitem :=
  map (fun a => (is_ref a, toks_of L_PIPE (arg_expr a))) args.

Lemma toks_mlist es rest : es <> [] ->
  toks_of L_POST (RMultiList es) ++ rest = pk TOpenSqBrace :: segs_toks (msegs es) (pk TCloseSqBrace) rest.
Proof.
  intros H. cbn [toks_of level]. change (L_POST <? L_POST) with false. cbv iota. cbn [app]. f_equal.
  rewrite <- app_assoc. cbn [app]. rewrite <- sepby_segs.
  - f_equal. f_equal. unfold msegs. rewrite map_map. cbn [fst snd app].
    clear H. induction es as [|x es IH]; [reflexivity|]. cbn [map]. f_equal; try exact IH.
  - destruct es; [congruence|discriminate].
Qed.

Lemma toks_mhash kes rest : kes <> [] ->
  toks_of L_POST (RMultiHash kes) ++ rest = pk TOpenBrace :: segs_toks (hsegs (hitems kes)) (pk TCloseBrace) rest.
Proof.
  intros H. cbn [toks_of level]. change (L_POST <? L_POST) with false. cbv iota. cbn [app]. f_equal.
  rewrite <- app_assoc. cbn [app]. rewrite <- sepby_segs.
  - f_equal. f_equal. unfold hsegs, hitems. rewrite !map_map. cbn [fst snd app hkey].
    clear H. induction kes as [|[k x] kes IH]; [reflexivity|]. cbn [map fst snd]. f_equal; try exact IH.
  - destruct kes; [congruence|discriminate].
Qed.

Lemma toks_call f args rest : args <> [] ->
  toks_of L_POST (RCall f args) ++ rest =
  Tok TUnquotedIdentifier f :: pk TOpenParen :: segs_toks (asegs (aitems args)) (pk TCloseParen) rest.
Proof.
  intros H. cbn [toks_of level]. change (L_POST <? L_POST) with false. cbv iota. cbn [app]. f_equal. f_equal.
  rewrite <- app_assoc. cbn [app]. rewrite <- sepby_segs.
  - f_equal. f_equal. unfold asegs, aitems. rewrite !map_map. cbn [fst snd].
    clear H. induction args as [|[x|x] args IH]; [reflexivity| |]; cbn [map is_ref arg_expr app]; f_equal; try exact IH.
  - destruct args; [congruence|discriminate].
Qed.

Lemma toks_let bs body rest : bs <> [] ->
  toks_of L_LET (RLet bs body) ++ rest =
  pk TLet :: segs_toks (lsegs (hitems bs)) (pk TIn) (toks_of L_PIPE body ++ rest).
Proof.
  intros H. cbn [toks_of level]. change (L_LET <? L_LET) with false. cbv iota. cbn [app]. f_equal.
  rewrite <- app_assoc. cbn [app]. rewrite <- sepby_segs.
  - f_equal. f_equal. unfold lsegs, hitems. rewrite !map_map. cbn [fst snd app hkey].
    clear H. induction bs as [|[k x] bs IH]; [reflexivity|]. cbn [map fst snd]. f_equal; try exact IH.
  - destruct bs; [congruence|discriminate].
Qed.

Lemma go_nodes es :
  (fix go (l : list rexpr) : list node := match l with [] => [] | x :: r => close (cxb x) :: go r end) es =
  map compile_r es.
Proof. induction es as [|x es IH]; [reflexivity|]. cbn [map]. f_equal; try exact IH. Qed.

Lemma go_knodes kes :
  (fix go (l : list (bytes * rexpr)) : list (bytes * node) :=
     match l with [] => [] | (k, x) :: r => (k, close (cxb x)) :: go r end) kes = hkv (hitems kes).
Proof.
  induction kes as [|[k x] kes IH]; [reflexivity|]. cbn [hitems hkv map fst snd hkey]. f_equal; try exact IH.
Qed.

Lemma go_anodes args :
  (fix go (l : list rarg) : list node :=
     match l with
     | [] => []
     | AExpr x :: r => close (cxb x) :: go r
     | ARef x :: r => close (cxb x) :: go r
     end) args = map (fun a => compile_r (arg_expr a)) args.
Proof. induction args as [|[x|x] args IH]; [reflexivity| |]; cbn [map arg_expr]; f_equal; try exact IH. Qed.

Lemma hns_hitems kes : hns (hitems kes) = map (fun kx => compile_r (snd kx)) kes.
Proof. unfold hns, hitems. rewrite map_map. reflexivity. Qed.

Lemma wfr_mlist es : wfr (RMultiList es) <-> es <> [] /\ Forall wfr es.
Proof.
  cbn [wfr]. apply and_iff_compat_l. induction es as [|x es IH]; [split; constructor|].
  rewrite Forall_cons_iff, <- IH. reflexivity.
Qed.
Lemma wfr_mhash kes : wfr (RMultiHash kes) <->
  kes <> [] /\ nodup_keys kes = true /\ Forall (fun kx => str_ok (fst kx) = true /\ wfr (snd kx)) kes.
Proof.
  cbn [wfr]. apply and_iff_compat_l, and_iff_compat_l. induction kes as [|[k x] kes IH]; [split; constructor|].
  rewrite Forall_cons_iff, <- IH. cbn [fst snd]. tauto.
Qed.
Lemma wfr_call f args : wfr (RCall f args) <-> call_ok f args = true /\ Forall (fun a => wfr (arg_expr a)) args.
Proof.
  cbn [wfr]. apply and_iff_compat_l. induction args as [|[x|x] args IH]; [split; constructor| |];
    rewrite Forall_cons_iff, <- IH; reflexivity.
Qed.
Lemma wfr_let bs body : wfr (RLet bs body) <->
  bs <> [] /\ nodup_keys bs = true /\ Forall (fun kx => var_ok (fst kx) = true /\ wfr (snd kx)) bs /\ wfr body.
Proof.
  cbn [wfr]. apply and_iff_compat_l, and_iff_compat_l.
  assert (H : (fix all (l : list (bytes * rexpr)) : Prop :=
                 match l with [] => True | (n, x) :: r => var_ok n = true /\ wfr x /\ all r end) bs <->
              Forall (fun kx => var_ok (fst kx) = true /\ wfr (snd kx)) bs).
  { induction bs as [|[k x] bs IH]; [split; constructor|].
    rewrite Forall_cons_iff, <- IH. cbn [fst snd]. tauto. }
  rewrite H. reflexivity.
Qed.

(* ================================================================== *)
(* 8. Levels of the printer against powers of the parser               *)
(* ================================================================== *)

(* the largest caller power at which an expression printed at level q is read *)
Definition maxp (q : Z) : Z :=
  if q <=? 1 then 1 else if q <=? 3 then q else if q <=? 5 then 4 else if q <=? 8 then q - 1 else 7.

(* the token after an unparenthesised e must not bind tighter than this *)
Definition xstop (e : rexpr) : Z :=
  match e with
  | RLet _ _ => 1 | RPipe _ _ => 2 | ROr _ _ => 3 | RAnd _ _ => 4 | RCmp _ _ _ => 5
  | RArith op _ _ => match op with AAdd | ASub => 6 | _ => 7 end
  | RNeg _ | RPos _ => 7
  | RNot _ => 12
  | RProj _ _ _ => tstop e
  | _ => 13
  end.

(* the weakest such bound over all expressions printed bare at level q *)
Definition lstop (q : Z) : Z :=
  if q <=? 0 then 1 else if q <=? 1 then 2 else if q <=? 2 then 3 else if q <=? 3 then 4
  else if q <=? 5 then 5 else if q <=? 6 then 6 else if q <=? 7 then 7 else if q <=? 8 then 8 else 12.

Lemma tstop_range l : 8 <= tstop l <= 13.
Proof.
  induction l; cbn [tstop]; try lia.
  destruct k; cbn [stop_k]; lia.
Qed.

Lemma level_range e : 0 <= level e <= 9.
Proof. destruct e; cbn [level]; unfold L_LET, L_PIPE, L_OR, L_AND, L_CMP, L_ADD, L_MUL, L_PROJ, L_POST; try lia. destruct op; lia. Qed.

Ltac unlev := unfold L_LET, L_PIPE, L_OR, L_AND, L_CMP, L_ADD, L_MUL, L_PROJ, L_POST, ar_level in *.
Ltac leb_cases :=
  repeat match goal with
  | |- context [?a <=? ?b] => let E := fresh "E" in destruct (a <=? b) eqn:E; [apply Z.leb_le in E|apply Z.leb_gt in E]
  | H : context [?a <=? ?b] |- _ => let E := fresh "E" in destruct (a <=? b) eqn:E; [apply Z.leb_le in E|apply Z.leb_gt in E]
  end.

Lemma maxp_mono a b : a <= b -> maxp a <= maxp b.
Proof. intros H. unfold maxp. leb_cases; lia. Qed.

Lemma maxp_le7 q : maxp q <= 7.
Proof. unfold maxp. leb_cases; lia. Qed.

Lemma maxp_ge1 q : 1 <= maxp q.
Proof. unfold maxp. leb_cases; lia. Qed.

Lemma xstop_lstop e q : q <= level e -> lstop q <= xstop e.
Proof.
  intros H. pose proof (tstop_range e) as Ht.
  destruct e; cbn [level xstop] in *; unlev; try (destruct op); unfold lstop; leb_cases; lia.
Qed.

Lemma maxp_lstop q : maxp q <= lstop q.
Proof. unfold maxp, lstop. leb_cases; lia. Qed.

Lemma prec_le_13 t : precedence t <= 13.
Proof. destruct t; cbn; lia. Qed.

Lemma ltb_false_ge a b : (a <? b) = false -> b <= a.
Proof. apply Z.ltb_ge. Qed.

(* the side condition on what follows, from the caller's power *)
Lemma rok_of_stops e q p rest : p <= maxp q -> stops p rest -> (level e <? q) = false -> stops (xstop e) rest.
Proof.
  intros Hp Hs Hl. apply ltb_false_ge in Hl. unfold stops in *.
  pose proof (xstop_lstop e q Hl). pose proof (maxp_lstop q). lia.
Qed.

Lemma rok_left l q rest : precedence (hdt rest) <= lstop q -> (level l <? q) = false -> stops (xstop l) rest.
Proof.
  intros Hp Hl. apply ltb_false_ge in Hl. unfold stops. pose proof (xstop_lstop l q Hl). lia.
Qed.

Lemma xstop_post l : (level l <? L_POST) = false -> not_rnot l = true -> xstop l = 13.
Proof. destruct l; cbn [level xstop not_rnot]; unlev; try reflexivity; try discriminate; destruct op; discriminate. Qed.

(* ---- first tokens ---- *)
Definition starter (t : ttype) : bool :=
  match t with
  | TCurrent | TRoot | TUnquotedIdentifier | TQuotedIdentifier | TJSONLiteral | TStringLiteral | TVariable
  | TOpenParen | TOpenSqBrace | TOpenBrace | TArrayWildcard | TFlatten | TFilter | TAsterisk
  | TNot | TSubtract | TAdd | TLet => true
  | _ => false
  end.

Lemma toks_starter : forall e q rest, starter (hdt (toks_of q e ++ rest)) = true.
Proof.
  induction e; intros q rest; rewrite toks_of_q; destruct (_ <? q); try reflexivity;
    cbn [toks_of level]; rewrite Z.ltb_irrefl; rewrite <- ?app_assoc; auto.
  - unfold ident_tok. destruct (plain_ident name); reflexivity.
  - destruct e1; rewrite <- ?app_assoc; auto; destruct k; reflexivity.
Qed.

(* ---- the situation after an expression always has a node ---- *)
Definition cxq (q : Z) (e : rexpr) : gstate :=
  if level e <? q then Plain (Some (compile_r e)) else cxb e.

Lemma lift13_some f g : exists n, close_opt (lift13 f g) = Some n.
Proof. destruct g as [o|[a|] t]; cbn; eauto. Qed.

Lemma cxb_some e : exists n, close_opt (cxb e) = Some n.
Proof.
  destruct e; cbn [cxb]; try (eexists; reflexivity); try apply lift13_some.
  - unfold sfx_sub. destruct e2; try (eexists; reflexivity);
      match goal with |- exists n, close_opt (Group ?a ?t) = _ => destruct a; eexists; reflexivity end.
  - unfold sfx_proj. destruct k; try apply lift13_some; eexists; reflexivity.
Qed.

Lemma cxb_close e : close_opt (cxb e) = Some (compile_r e).
Proof. unfold compile_r, close. destruct (cxb_some e) as [n ->]. reflexivity. Qed.

Lemma cxq_close q e : close_opt (cxq q e) = Some (compile_r e).
Proof. unfold cxq. destruct (_ <? q); [reflexivity|apply cxb_close]. Qed.

Lemma cxb_atom e : is_atom e = true -> cxb e = Plain (Some (compile_r e)).
Proof. destruct e; try discriminate; reflexivity. Qed.

Lemma level_atom e : is_atom e = true -> level e = L_POST.
Proof. destruct e; try discriminate; reflexivity. Qed.

Lemma xstop_atom e : is_atom e = true -> xstop e = 13.
Proof. destruct e; try discriminate; reflexivity. Qed.

(* ================================================================== *)
(* 9. The statements proved by induction, and their consequences       *)
(* ================================================================== *)

(* the body of e (no outer parentheses), in front of any rest, leaves the parser in situation cxb e *)
Definition ECU (e : rexpr) : Prop :=
  forall p rest res, wfr e -> (p <= maxp (level e) \/ is_atom e = true) ->
    hdt rest <> TOpenParen -> stops (xstop e) rest ->
    After p (cxb e) rest res -> Runs (CExpr p) (st_of (toks_of (level e) e ++ rest)) res.

Definition EC (e : rexpr) : Prop :=
  forall q p rest res, wfr e -> (p <= maxp q \/ is_atom e = true) ->
    hdt rest <> TOpenParen -> ((level e <? q) = false -> stops (xstop e) rest) ->
    After p (cxq q e) rest res -> Runs (CExpr p) (st_of (toks_of q e ++ rest)) res.

(* the right-hand side r, read by the loop of parser.continuation started on the current node *)
Definition RC (r : rexpr) : Prop :=
  forall sp rest res, rhs_ok sp r -> 8 <= sp <= 10 -> hdt rest <> TOpenParen -> stops (tstop r) rest ->
    After sp (rcx r) rest res -> After sp (Plain None) (rhs_toks r ++ rest) res.

Lemma stops_le a b rest : stops a rest -> a <= b -> stops b rest.
Proof. unfold stops. lia. Qed.

Lemma ECU_body e rest : ECU e -> wfr e -> precedence (hdt rest) = 0 -> hdt rest <> TOpenParen ->
  Runs (CExpr 1) (st_of (toks_of (level e) e ++ rest)) (Some (compile_r e), st_of rest).
Proof.
  intros H Hw Hp Hn. apply H; try assumption.
  - left. apply maxp_ge1.
  - unfold stops. pose proof (xstop_lstop e (level e) ltac:(lia)). pose proof (maxp_lstop (level e)).
    pose proof (maxp_ge1 (level e)). lia.
  - rewrite <- cxb_close. apply After_stop; unfold stops; lia.
Qed.

Lemma runs_paren ts n rest p res :
  Runs (CExpr 1) (st_of (ts ++ pk TCloseParen :: rest)) (Some n, st_of (pk TCloseParen :: rest)) ->
  Runs (CCont (Some n) p) (st_of rest) res -> Runs (CExpr p) (st_of (wrapt ts ++ rest)) res.
Proof.
  intros H1 H2. eapply runs_primary; [|exact H2].
  eapply EvP_mono; [|apply runs_expr_ev, H1]. intros f Hf. apply prim_paren, Hf.
Qed.

Lemma EC_of_ECU e : ECU e -> EC e.
Proof.
  intros H q p rest res Hw Hp Hn Hs Ha. rewrite toks_of_q. unfold cxq in Ha.
  destruct (level e <? q) eqn:El.
  - eapply runs_paren; [|exact Ha]. apply ECU_body; try assumption; [reflexivity|discriminate].
  - apply H; try assumption; [|apply Hs; reflexivity].
    destruct Hp as [Hp|Hp]; [left|right; assumption].
    apply ltb_false_ge in El. pose proof (maxp_mono q (level e) El). lia.
Qed.

Lemma EXPR_of_EC e : EC e -> forall q p rest, wfr e -> p <= maxp q -> hdt rest <> TOpenParen -> stops p rest ->
  Runs (CExpr p) (st_of (toks_of q e ++ rest)) (Some (compile_r e), st_of rest).
Proof.
  intros H q p rest Hw Hp Hn Hs. apply H; try assumption.
  - left. assumption.
  - intros Hl. eapply rok_of_stops; eassumption.
  - rewrite <- (cxq_close q e). apply After_stop; [assumption|].
    eapply stops_le; [eassumption|]. pose proof (maxp_le7 q). lia.
Qed.

Lemma EXPR_atom e : EC e -> is_atom e = true -> wfr e -> forall p rest, hdt rest <> TOpenParen -> stops p rest ->
  Runs (CExpr p) (st_of (toks_of L_POST e ++ rest)) (Some (compile_r e), st_of rest).
Proof.
  intros H Ha Hw p rest Hn Hs. apply H; try assumption.
  - right. assumption.
  - intros _. rewrite (xstop_atom e Ha). unfold stops. apply prec_le_13.
  - unfold cxq. rewrite (level_atom e Ha), Z.ltb_irrefl, (cxb_atom e Ha). cbn [After].
    apply runs_stop. exact Hs.
Qed.

(* first token of a right-hand side *)
Lemma rhs_first : forall r sp rest, r <> RCurrent -> rhs_ok sp r -> 8 <= sp <= 10 ->
  rhs_start (hdt (rhs_toks r ++ rest)) = true /\ precedence (hdt (rhs_toks r ++ rest)) > sp.
Proof.
  induction r; intros sp rest Hne Hok Hsp; try (cbn [rhs_ok] in Hok; contradiction).
  - cbn [rhs_ok rhs_toks] in *. destruct Hok as (Hl & _). rewrite <- app_assoc.
    destruct r1; try (apply IHr1; [discriminate|assumption|assumption]);
      try (cbn [rhs_ok] in Hl; contradiction).
    cbn. split; [reflexivity|lia].
  - cbn [rhs_ok rhs_toks] in *. destruct Hok as (Hl & _). rewrite <- app_assoc.
    destruct r; try (apply IHr; [discriminate|assumption|assumption]);
      try (cbn [rhs_ok] in Hl; contradiction).
    cbn. split; [reflexivity|lia].
  - cbn [rhs_ok rhs_toks] in *. destruct Hok as (Hl & Hk & _). rewrite <- !app_assoc.
    destruct r1; try (apply IHr1; [discriminate|assumption|assumption]);
      try (cbn [rhs_ok] in Hl; contradiction).
    destruct k; cbn in *; try lia; (split; [reflexivity|lia]).
Qed.

Lemma RHS_of_RC r : RC r -> forall sp rest, rhs_ok sp r -> 8 <= sp <= 10 -> hdt rest <> TOpenParen ->
  stops sp rest -> stops (tstop r) rest ->
  EvP (fun f => projection (run f) sp (st_of (rhs_toks r ++ rest)) = Ok (close_opt (rcx r), st_of rest)).
Proof.
  intros H sp rest Hok Hsp Hn Hs Ht.
  assert (Hc : r = RCurrent \/ r <> RCurrent) by (destruct r; (left; reflexivity) || (right; discriminate)).
  destruct Hc as [->|Hne].
  - cbn [rhs_toks rcx close_opt app]. exists O. intros f _. apply projection_none, Hs.
  - destruct (rhs_first r sp rest Hne Hok Hsp) as [H1 H2].
    assert (Ha : After sp (Plain None) (rhs_toks r ++ rest) (close_opt (rcx r), st_of rest)).
    { apply H; try assumption. apply After_stop; [assumption|]. apply (stops_le sp 11 rest Hs). lia. }
    cbn [After] in Ha. eapply EvP_mono; [|exact Ha]. intros f Hf.
    rewrite projection_some by assumption. exact Hf.
Qed.

(* ================================================================== *)
(* 10. Selector steps, in either situation                             *)
(* ================================================================== *)

Lemma idx_step i P g rest res : in_int i = true -> P < 13 ->
  After P (lift13 (fun o => mk_index o i) g) rest res ->
  After P g ([pk TOpenSqBrace; int_tok i; pk TCloseSqBrace] ++ rest) res.
Proof.
  intros Hi HP. apply After_lift13; [|assumption].
  intros o P' res' HP' H. cbn [app]. eapply runs_cont; [rewrite ct_cons; cbn; lia| |exact H].
  exists O. intros f _. eapply cs_bracket; [apply index_idx; assumption|apply wsp_false].
Qed.

Definition ktoks (k : projkind) : list token :=
  match k with
  | PList => [pk TArrayWildcard]
  | PSlice a b c => slice_toks a b c
  | PFlatten => [pk TFlatten]
  | PFilter cond => pk TFilter :: toks_of L_PIPE cond ++ [pk TCloseSqBrace]
  | PValues => [pk TObjectWildcard]
  end.

Lemma ktoks_hd k X : precedence (hdt (ktoks k ++ X)) = sprec_k k /\ hdt (ktoks k ++ X) <> TOpenParen.
Proof. destruct k; cbn; split; (reflexivity || discriminate). Qed.

Definition kcond (k : projkind) : node := match k with PFilter c => compile_r c | _ => NNull end.

Lemma proj_step k r P g rest res :
  slice_ok k -> match k with PFilter c => wfr c /\ EC c | _ => True end ->
  (forall sp rest, rhs_ok sp r -> 8 <= sp <= 10 -> hdt rest <> TOpenParen -> stops sp rest -> stops (tstop r) rest ->
     EvP (fun f => projection (run f) sp (st_of (rhs_toks r ++ rest)) = Ok (close_opt (rcx r), st_of rest))) ->
  rhs_ok (stop_k k) r -> P < sprec_k k -> hdt rest <> TOpenParen ->
  stops (Z.min (stop_k k) (tstop r)) rest ->
  After P (sfx_proj k (kcond k) (close_opt (rcx r)) g) rest res ->
  After P g (ktoks k ++ rhs_toks r ++ rest) res.
Proof.
  intros Hsl Hc Hrhs Hok HP Hn Hs.
  assert (Hr : EvP (fun f => projection (run f) (stop_k k) (st_of (rhs_toks r ++ rest)) =
                             Ok (close_opt (rcx r), st_of rest))).
  { apply Hrhs; try assumption.
    - destruct k; cbn; lia.
    - eapply stops_le; [exact Hs|lia].
    - eapply stops_le; [exact Hs|lia]. }
  rewrite app_assoc.
  destruct k as [|a b c| |cond|]; cbn [sfx_proj ktoks stop_k sprec_k kcond] in *.
  - apply After_lift13; [|assumption]. intros o P' res' HP' H. rewrite <- app_assoc. cbn [app].
    eapply runs_cont; [rewrite ct_cons; cbn; lia| |exact H].
    eapply EvP_mono; [|exact Hr]. intros f Hf. apply cs_star, Hf.
  - apply After_lift13; [|assumption]. intros o P' res' HP' H. rewrite <- app_assoc. rewrite slice_toks_app.
    eapply runs_cont; [rewrite ct_cons; cbn; lia| |exact H].
    eapply EvP_mono; [|exact Hr]. intros f Hf. destruct Hsl as (Ha & Hb & Hc' & Hz).
    eapply cs_bracket; [apply index_slice; assumption|]. apply wsp_true, Hf.
  - apply After_lower; [|unfold stops; cbn; lia]. intros o H. rewrite <- app_assoc. cbn [app].
    eapply runs_cont; [rewrite ct_cons; cbn; lia| |exact H].
    eapply EvP_mono; [|exact Hr]. intros f Hf. apply cs_flatten. rewrite ct_cons. exact Hf.
  - apply After_lower; [|unfold stops; cbn; lia]. intros o H. rewrite <- !app_assoc. cbn [app].
    rewrite <- app_assoc. cbn [app].
    destruct Hc as [Hwc Hec].
    eapply runs_cont; [rewrite ct_cons; cbn; lia| |exact H].
    eapply EvP_mono; [|apply EvP_and; [exact Hr|apply runs_expr_ev; apply (EXPR_of_EC cond Hec L_PIPE 1 (pk TCloseSqBrace :: rhs_toks r ++ rest) Hwc)]].
    + intros f [Hf1 Hf2]. eapply cs_filter; [apply filter_ok; exact Hf2|]. exact Hf1.
    + reflexivity.
    + discriminate.
    + unfold stops. cbn. lia.
  - apply After_lower; [|unfold stops; cbn; lia]. intros o H. rewrite <- app_assoc. cbn [app].
    eapply runs_cont; [rewrite ct_cons; cbn; lia| |exact H].
    eapply EvP_mono; [|exact Hr]. intros f Hf. apply cs_values, Hf.
Qed.

(* a multi-select with an arbitrary child node *)
Definition MS (e : rexpr) : Prop :=
  match e with
  | RMultiList es =>
    wfr e -> forall child rest,
      EvP (fun f => select_array (run f) f child (st_of (segs_toks (msegs es) (pk TCloseSqBrace) rest)) =
                    Ok (mk_mlist child (map compile_r es), st_of rest))
  | RMultiHash kes =>
    wfr e -> forall child rest,
      EvP (fun f => select_object (run f) f child (st_of (segs_toks (hsegs (hitems kes)) (pk TCloseBrace) rest)) =
                    Ok (mk_mhash child (hkv (hitems kes)), st_of rest))
  | _ => True
  end.

Definition fs_of (r : rexpr) : list node := match r with RMultiList es => map compile_r es | _ => [] end.
Definition kfs_of (r : rexpr) : list (bytes * node) := match r with RMultiHash kes => hkv (hitems kes) | _ => [] end.

Lemma cxb_sub l r : cxb (RSub l r) = sfx_sub (cxq L_POST l) r (fs_of r) (kfs_of r) (compile_r r).
Proof. destruct r; unfold compile_r, cxq; cbn [cxb fs_of kfs_of]; rewrite ?go_nodes, ?go_knodes, ?go_anodes; reflexivity. Qed.
Lemma rcx_sub l r : rcx (RSub l r) = sfx_sub (rcx l) r (fs_of r) (kfs_of r) (compile_r r).
Proof. destruct r; unfold compile_r; cbn [rcx cxb fs_of kfs_of]; rewrite ?go_nodes, ?go_knodes, ?go_anodes; reflexivity. Qed.

Lemma sub_step r P g rest res :
  EC r -> MS r -> wfr r -> sub_shape r = true -> P < 11 -> hdt rest <> TOpenParen ->
  After P (sfx_sub g r (fs_of r) (kfs_of r) (compile_r r)) rest res ->
  After P g (pk TDot :: toks_of L_POST r ++ rest) res.
Proof.
  intros Hec Hms Hw Hsh HP Hn H.
  assert (Hgroup : is_atom r = true -> is_ident_t (hdt (toks_of L_POST r ++ rest)) = true ->
                   After P (Group (close_opt g) (compile_r r)) rest res ->
                   After P g (pk TDot :: toks_of L_POST r ++ rest) res).
  { intros Hat Hid Hg. apply After_close; [unfold stops; cbn; lia|]. cbn [After] in *.
    destruct Hg as (n' & st' & H1 & H2).
    eapply runs_cont; [rewrite ct_cons; cbn; lia| |exact H2].
    assert (Hr : Runs (CExpr 11) (st_of (toks_of L_POST r ++ rest)) (Some n', st')).
    { apply Hec; try assumption.
      - right. assumption.
      - intros _. rewrite (xstop_atom r Hat). unfold stops. apply prec_le_13.
      - unfold cxq. rewrite (level_atom r Hat), Z.ltb_irrefl, (cxb_atom r Hat). exact H1. }
    eapply EvP_mono; [|apply runs_expr_ev, Hr]. intros f Hf. rewrite ct_cons. cbn [pk ttyp].
    change (precedence TDot) with 11. rewrite (cs_dot_ident _ _ _ _ _ _ _ Hid Hf). reflexivity. }
  destruct r; try discriminate Hsh; cbn [sfx_sub] in H.
  - apply Hgroup; [reflexivity| |exact H].
    cbn [toks_of level]. rewrite Z.ltb_irrefl. cbn [app]. unfold ident_tok. destruct (plain_ident name); reflexivity.
  - (* multi-select list *)
    pose proof (proj1 (wfr_mlist es) Hw) as [Hne _].
    rewrite toks_mlist by assumption.
    change (Plain (Some (mk_mlist (Some (close g)) (fs_of (RMultiList es)))))
      with (lower (fun o => mk_mlist (Some (or_current o)) (map compile_r es)) g) in H.
    revert H. apply After_lower; [|unfold stops; cbn; lia]. intros o H.
    eapply runs_cont; [rewrite ct_cons; cbn; lia| |exact H].
    eapply EvP_mono; [|apply (Hms Hw (Some (or_current o)) rest)]. intros f Hf.
    apply cs_dot_mlist. exact Hf.
  - (* multi-select hash *)
    pose proof (proj1 (wfr_mhash kes) Hw) as [Hne _].
    rewrite toks_mhash by assumption.
    change (Plain (Some (mk_mhash (Some (close g)) (kfs_of (RMultiHash kes)))))
      with (lower (fun o => mk_mhash (Some (or_current o)) (hkv (hitems kes))) g) in H.
    revert H. apply After_lower; [|unfold stops; cbn; lia]. intros o H.
    eapply runs_cont; [rewrite ct_cons; cbn; lia| |exact H].
    eapply EvP_mono; [|apply (Hms Hw (Some (or_current o)) rest)]. intros f Hf.
    apply cs_dot_mhash. exact Hf.
  - apply Hgroup; [reflexivity|reflexivity|exact H].
Qed.

(* ================================================================== *)
(* 11. Lists of expressions, function table                            *)
(* ================================================================== *)

Lemma segs_read_ev {A} (pre : A -> list token) (ex : A -> rexpr) closer rest : forall l : list A,
  Forall (fun a => EC (ex a) /\ wfr (ex a)) l ->
  precedence (ttyp closer) = 0 -> ttyp closer <> TOpenParen ->
  EvP (fun f => segs_read (run f) (map (fun a => (pre a, toks_of L_PIPE (ex a))) l)
                          (map (fun a => compile_r (ex a)) l) closer rest).
Proof.
  induction l as [|a l IH]; intros HF Hc1 Hc2.
  - exists O. intros f _. exact I.
  - apply Forall_cons_iff in HF. destruct HF as [[He Hw] HF]. cbn [map segs_read].
    apply EvP_and; [|apply IH; assumption].
    apply runs_expr_ev. apply (EXPR_of_EC _ He); try assumption.
    + reflexivity.
    + destruct l; cbn; [assumption|discriminate].
    + unfold stops. destruct l; cbn [map tail_of]; rewrite hdt_cons; [rewrite Hc1|cbn]; lia.
Qed.

Lemma assoc_map {A B} (h : A -> B) k (l : list (bytes * A)) :
  assoc k (map (fun kx => (fst kx, h (snd kx))) l) = option_map h (assoc k l).
Proof.
  induction l as [|[k0 v] l IH]; [reflexivity|]. cbn [map assoc fst snd]. destruct (beqb k k0); [reflexivity|exact IH].
Qed.

Lemma nodup_keys_map' {A B} (h : A -> B) (l : list (bytes * A)) :
  nodup_keys (map (fun kx => (fst kx, h (snd kx))) l) = nodup_keys l.
Proof.
  induction l as [|[k0 v] l IH]; [reflexivity|]. cbn [map nodup_keys fst snd]. rewrite assoc_map.
  destruct (assoc k0 l); cbn [option_map]; [reflexivity|exact IH].
Qed.

Lemma hkv_hitems kes : hkv (hitems kes) = map (fun kx => (fst kx, compile_r (snd kx))) kes.
Proof. unfold hkv, hitems. rewrite map_map. reflexivity. Qed.

Definition compat (ap : argparser) (fb : fbuild) : bool :=
  match ap, fb with
  | AP1, B1 _ | AP1to2, B1or2 _ _ | AP2, B2 _ | AP2Exp, BBy _ | AP2Map, BMap | AP2to3, B2or3 _ _
  | AP2to4, B2to4 _ _ _ | AP3to4, B3or4 _ _ | APVar, BVar _ => true
  | _, _ => false
  end.

Lemma assoc_in {A} k (m : list (bytes * A)) v : assoc k m = Some v -> exists k', In (k', v) m.
Proof.
  induction m as [|[k0 v0] m IH]; [discriminate|]. cbn [assoc]. destruct (beqb k k0).
  - intros E. inversion E; subst. exists k0. left. reflexivity.
  - intros E. destruct (IH E) as [k' Hin]. exists k'. right. exact Hin.
Qed.

Lemma table_compat f ap fb : assoc f function_table = Some (ap, fb) -> compat ap fb = true.
Proof.
  intros H. apply assoc_in in H. destruct H as [k' Hin].
  assert (Hall : forallb (fun e : bytes * (argparser * fbuild) => compat (fst (snd e)) (snd (snd e))) function_table = true)
    by (vm_compute; reflexivity).
  rewrite forallb_forall in Hall. apply (Hall _ Hin).
Qed.

Lemma build_ok ap fb fl ns : compat ap fb = true -> shape_ok ap fl = true -> length ns = length fl ->
  exists n, build fb ns = Some n.
Proof.
  intros Hc Hs Hl.
  destruct ap, fb; try discriminate Hc;
    try (destruct ns; eexists; reflexivity);
    destruct fl as [|[|] [|[|] [|[|] [|[|] [|? ?]]]]]; try discriminate Hs;
    destruct ns as [|n1 [|n2 [|n3 [|n4 [|? ?]]]]]; try discriminate Hl; eexists; reflexivity.
Qed.

Lemma shape_ok_nonempty ap : shape_ok ap [] = false.
Proof. destruct ap; reflexivity. Qed.

(* ---- a binary operator ---- *)
Lemma ECU_bin (l r : rexpr) (ql qr Pop : Z) (t : ttype) (mkn : node -> node -> node) :
  EC l -> EC r -> precedence t = Pop -> t <> TOpenParen -> Pop <= 7 ->
  (forall rec k l' np ts r' st', expr rec np (st_of ts) = Ok (r', st') ->
     cont_step rec k (Some l') np (st_of (pk t :: ts)) = Ok (Some (mkn l' r', st'))) ->
  Pop = lstop ql -> Pop <= maxp qr ->
  forall p rest res, wfr l -> wfr r -> p <= maxp ql -> p < Pop -> hdt rest <> TOpenParen -> stops Pop rest ->
    Runs (CCont (Some (mkn (compile_r l) (compile_r r))) p) (st_of rest) res ->
    Runs (CExpr p) (st_of ((toks_of ql l ++ pk t :: toks_of qr r) ++ rest)) res.
Proof.
  intros Hl Hr Hprec Hnp H7 Hcs Hls Hmp p rest res Hwl Hwr Hp HpP Hn Hs Hk.
  rewrite <- app_assoc. cbn [app]. apply Hl; try assumption.
  - left. assumption.
  - apply rok_left. rewrite hdt_cons. cbn [pk ttyp]. lia.
  - apply After_close; [unfold stops; rewrite hdt_cons; cbn [pk ttyp]; lia|]. rewrite cxq_close. cbn [After].
    eapply runs_cont; [rewrite ct_cons; cbn [pk ttyp]; lia| |exact Hk].
    eapply EvP_mono; [|apply runs_expr_ev; apply (EXPR_of_EC r Hr qr Pop rest); assumption].
    intros f Hf. rewrite ct_cons. cbn [pk ttyp]. rewrite Hprec. apply Hcs, Hf.
Qed.

(* ---- projections: shape of the tokens and of the situation ---- *)
Definition ktoks0 (k : projkind) : list token :=
  match k with PValues => [pk TAsterisk] | _ => ktoks k end.
Definition lq (k : projkind) : Z := match k with PFlatten => L_PROJ | _ => L_POST end.

Lemma is_current_dec l : l = RCurrent \/ l <> RCurrent.
Proof. destruct l; (left; reflexivity) || (right; discriminate). Qed.

Lemma proj_toks_cur k r : toks_of L_PROJ (RProj k RCurrent r) = ktoks0 k ++ rhs_toks r.
Proof. destruct k; reflexivity. Qed.

Lemma proj_toks_ncur k l r : l <> RCurrent ->
  toks_of L_PROJ (RProj k l r) = toks_of (lq k) l ++ ktoks k ++ rhs_toks r.
Proof. intros H. destruct l; try congruence; destruct k; reflexivity. Qed.

Lemma cxb_proj_cur k r : cxb (RProj k RCurrent r) = sfx_proj k (kcond k) (close_opt (rcx r)) (Plain None).
Proof. destruct k; reflexivity. Qed.

Lemma cxb_proj_ncur k l r : l <> RCurrent ->
  cxb (RProj k l r) = sfx_proj k (kcond k) (close_opt (rcx r)) (cxq (lq k) l).
Proof. intros H. destruct l; try congruence; destruct k; reflexivity. Qed.

Lemma rcx_proj k l r : rcx (RProj k l r) = sfx_proj k (kcond k) (close_opt (rcx r)) (rcx l).
Proof. destruct k; reflexivity. Qed.

Lemma rhs_toks_proj k l r : rhs_toks (RProj k l r) = rhs_toks l ++ ktoks k ++ rhs_toks r.
Proof. destruct k; reflexivity. Qed.

(* ================================================================== *)
(* 12. The induction                                                   *)
(* ================================================================== *)

Definition T (e : rexpr) : Prop := ECU e /\ RC e /\ MS e.

Lemma Forall_conj {A} (P Q : A -> Prop) l : Forall P l -> Forall Q l -> Forall (fun a => P a /\ Q a) l.
Proof. induction 1; intros H2; [constructor|]. apply Forall_cons_iff in H2. destruct H2. constructor; auto. Qed.

Lemma T_EC e : T e -> EC e.
Proof. intros [H _]. apply EC_of_ECU, H. Qed.

Lemma starter_neq t : starter t = true -> t <> TIntegerLiteral /\ t <> TColon /\ t <> TCloseParen.
Proof. destruct t; try discriminate; repeat split; discriminate. Qed.

Lemma msegs_plain es : Forall (fun s : seg => fst s = []) (msegs es).
Proof. unfold msegs. apply Forall_map. apply Forall_forall. reflexivity. Qed.

Lemma hsegs_hitems kes :
  hsegs (hitems kes) = map (fun kx => ([ident_tok (fst kx); pk TColon], toks_of L_PIPE (snd kx))) kes.
Proof. unfold hsegs, hitems. rewrite map_map. reflexivity. Qed.
Lemma lsegs_hitems kes :
  lsegs (hitems kes) = map (fun kx => ([Tok TVariable (fst kx); pk TAssign], toks_of L_PIPE (snd kx))) kes.
Proof. unfold lsegs, hitems. rewrite map_map. reflexivity. Qed.
Lemma asegs_aitems args :
  asegs (aitems args) =
  map (fun a => (if is_ref a then [pk TExpression] else [], toks_of L_PIPE (arg_expr a))) args.
Proof. unfold asegs, aitems. rewrite map_map. reflexivity. Qed.

Lemma ECU_mlist es : Forall T es -> ECU (RMultiList es) /\ MS (RMultiList es).
Proof.
  intros IH.
  assert (Hread : wfr (RMultiList es) -> forall rest,
            EvP (fun f => segs_read (run f) (msegs es) (map compile_r es) (pk TCloseSqBrace) rest)).
  { intros Hw rest. apply wfr_mlist in Hw. destruct Hw as [_ Hw].
    apply (segs_read_ev (fun _ => []) (fun x => x) (pk TCloseSqBrace) rest es); [|reflexivity|discriminate].
    apply Forall_conj; [|exact Hw]. eapply Forall_impl; [|exact IH]. intros a. apply T_EC. }
  assert (Hms : MS (RMultiList es)).
  { intros Hw child rest. pose proof (proj1 (wfr_mlist es) Hw) as [Hne _].
    eapply EvP_mono; [|apply EvP_and; [apply (Hread Hw rest)|apply (EvP_ge (length (msegs es)))]].
    intros f [H1 H2]. unfold select_array.
    rewrite (sal_ok (run f) (msegs es) (map compile_r es) child [] rest f H1); auto using msegs_plain.
    destruct es; [congruence|discriminate]. }
  split; [|exact Hms].
  intros p rest res Hw Hp Hn Hs Ha. pose proof (proj1 (wfr_mlist es) Hw) as [Hne _].
  change (level (RMultiList es)) with L_POST. rewrite toks_mlist by assumption.
  cbn [cxb] in Ha. rewrite go_nodes in Ha. cbn [After] in Ha.
  eapply runs_primary; [|exact Ha].
  eapply EvP_mono; [|apply EvP_and; [apply (Hread Hw rest)|apply (EvP_ge (length (msegs es)))]].
  intros f [H1 H2].
  assert (Hst : starter (hdt (segs_toks (msegs es) (pk TCloseSqBrace) rest)) = true).
  { destruct es as [|x es]; [congruence|]. cbn [msegs map]. rewrite segs_toks_cons. cbn [app]. apply toks_starter. }
  apply starter_neq in Hst. destruct Hst as (S1 & S2 & _).
  apply prim_mlist; auto using msegs_plain. destruct es; [congruence|discriminate].
Qed.

Lemma ECU_mhash kes : Forall T (map snd kes) -> ECU (RMultiHash kes) /\ MS (RMultiHash kes).
Proof.
  intros IH. apply -> Forall_map in IH.
  assert (Hread : wfr (RMultiHash kes) -> forall rest,
            EvP (fun f => segs_read (run f) (hsegs (hitems kes)) (hns (hitems kes)) (pk TCloseBrace) rest)).
  { intros Hw rest. apply wfr_mhash in Hw. destruct Hw as (_ & _ & Hw).
    rewrite hsegs_hitems, hns_hitems.
    apply (segs_read_ev (fun kx => [ident_tok (fst kx); pk TColon]) (fun kx => snd kx) (pk TCloseBrace) rest kes);
      [|reflexivity|discriminate].
    apply Forall_conj; [eapply Forall_impl; [|exact IH]; intros a; apply T_EC|].
    eapply Forall_impl; [|exact Hw]. intros a [_ H]. exact H. }
  assert (Hside : wfr (RMultiHash kes) ->
            Forall (fun x => str_ok (hkey x) = true) (hitems kes) /\ hitems kes <> [] /\
            nodup_keys (hkv (hitems kes)) = true).
  { intros Hw. apply wfr_mhash in Hw. destruct Hw as (Hne & Hd & Hw). repeat split.
    - unfold hitems. apply Forall_map. eapply Forall_impl; [|exact Hw]. intros a [H _]. exact H.
    - destruct kes; [congruence|discriminate].
    - rewrite hkv_hitems, nodup_keys_map'. exact Hd. }
  assert (Hms : MS (RMultiHash kes)).
  { intros Hw child rest. destruct (Hside Hw) as (S1 & S2 & S3).
    eapply EvP_mono; [|apply EvP_and; [apply (Hread Hw rest)|apply (EvP_ge (length (hitems kes)))]].
    intros f [H1 H2]. unfold select_object.
    rewrite (sol_ok (run f) (hitems kes) child [] rest f H1); auto. }
  split; [|exact Hms].
  intros p rest res Hw Hp Hn Hs Ha. pose proof (proj1 (wfr_mhash kes) Hw) as [Hne _].
  destruct (Hside Hw) as (S1 & S2 & S3).
  change (level (RMultiHash kes)) with L_POST. rewrite toks_mhash by assumption.
  cbn [cxb] in Ha. rewrite go_knodes in Ha. cbn [After] in Ha.
  eapply runs_primary; [|exact Ha].
  eapply EvP_mono; [|apply EvP_and; [apply (Hread Hw rest)|apply (EvP_ge (length (hitems kes)))]].
  intros f [H1 H2]. apply prim_mhash; auto.
Qed.

Lemma ECU_call f args : Forall T (map arg_expr args) -> ECU (RCall f args).
Proof.
  intros IH. apply -> Forall_map in IH.
  intros p rest res Hw Hp Hn Hs Ha. apply wfr_call in Hw. destruct Hw as [Hc Hw].
  unfold call_ok in Hc. destruct (assoc f function_table) as [[ap fb]|] eqn:Ef; [|discriminate].
  assert (Hne : args <> []).
  { intros ->. cbn [map] in Hc. rewrite shape_ok_nonempty in Hc. discriminate. }
  change (level (RCall f args)) with L_POST. rewrite toks_call by assumption.
  cbn [cxb] in Ha. rewrite go_anodes in Ha. cbn [After] in Ha.
  assert (Hb : exists n, build fb (map (fun a => compile_r (arg_expr a)) args) = Some n).
  { apply (build_ok ap fb (map is_ref args)); [eapply table_compat; eassumption|assumption|].
    rewrite !map_length. reflexivity. }
  destruct Hb as [n Hb].
  assert (Hmk : mk_call f (map (fun a => compile_r (arg_expr a)) args) = n).
  { unfold mk_call. rewrite Ef, Hb. reflexivity. }
  rewrite Hmk in Ha.
  eapply runs_primary; [|exact Ha].
  assert (Hread : EvP (fun fu => segs_read (run fu) (asegs (aitems args)) (map (fun a => compile_r (arg_expr a)) args)
                                          (pk TCloseParen) rest)).
  { rewrite asegs_aitems.
    apply (segs_read_ev (fun a => if is_ref a then [pk TExpression] else []) arg_expr (pk TCloseParen) rest args);
      [|reflexivity|discriminate].
    apply Forall_conj; [eapply Forall_impl; [|exact IH]; intros a; apply T_EC|exact Hw]. }
  eapply EvP_mono; [|apply EvP_and; [exact Hread|apply (EvP_ge (length (aitems args)))]].
  intros fu [H1 H2]. eapply prim_call; [exact Ef| |exact Hb].
  apply pa_ok; try assumption.
  - unfold aitems. rewrite map_map. cbn [fst]. exact Hc.
  - destruct args as [|a args]; [congruence|]. cbn [aitems asegs map fst snd]. rewrite segs_toks_cons.
    destruct a as [x|x]; cbn [is_ref arg_expr app].
    + pose proof (toks_starter x L_PIPE (tail_of (asegs (aitems args)) (pk TCloseParen) rest)) as Hst.
      apply starter_neq in Hst. apply Hst.
    + discriminate.
Qed.

Lemma ECU_let bs body : Forall T (body :: map snd bs) -> ECU (RLet bs body).
Proof.
  intros IH. apply Forall_cons_iff in IH. destruct IH as [IHb IH]. apply -> Forall_map in IH.
  intros p rest res Hw Hp Hn Hs Ha. apply wfr_let in Hw. destruct Hw as (Hne & Hd & Hw & Hwb).
  change (level (RLet bs body)) with L_LET. rewrite toks_let by assumption.
  cbn [cxb] in Ha. rewrite go_knodes in Ha. cbn [After] in Ha.
  eapply runs_primary; [|exact Ha].
  assert (Hread : EvP (fun f => segs_read (run f) (lsegs (hitems bs)) (hns (hitems bs)) (pk TIn)
                                          (toks_of L_PIPE body ++ rest))).
  { rewrite lsegs_hitems, hns_hitems.
    apply (segs_read_ev (fun kx => [Tok TVariable (fst kx); pk TAssign]) (fun kx => snd kx) (pk TIn)
             (toks_of L_PIPE body ++ rest) bs); [|reflexivity|discriminate].
    apply Forall_conj; [eapply Forall_impl; [|exact IH]; intros a; apply T_EC|].
    eapply Forall_impl; [|exact Hw]. intros a [_ H]. exact H. }
  assert (Hbody : EvP (fun f => expr (run f) 1 (st_of (toks_of L_PIPE body ++ rest)) = Ok (compile_r body, st_of rest))).
  { apply runs_expr_ev. apply (EXPR_of_EC body (T_EC _ IHb) L_PIPE 1 rest Hwb); [cbn; lia|assumption|exact Hs]. }
  eapply EvP_mono; [|apply EvP_and; [apply EvP_and; [exact Hread|exact Hbody]|apply (EvP_ge (length (hitems bs)))]].
  intros f [[H1 H2] H3]. apply prim_let; auto.
  - destruct bs; [congruence|discriminate].
  - rewrite hkv_hitems, nodup_keys_map'. exact Hd.
Qed.

Lemma RC_none e : (forall sp, ~ rhs_ok sp e) -> RC e.
Proof. intros H sp rest res Hok. destruct (H sp Hok). Qed.

Ltac inv_forall :=
  repeat match goal with
  | H : Forall _ (_ :: _) |- _ => apply Forall_cons_iff in H; destruct H as [? H]
  end.

Lemma ECU_simple e n t :
  toks_of (level e) e = [t] -> cxb e = Plain (Some n) ->
  (forall rest, wfr e -> hdt rest <> TOpenParen -> forall rec k, primary rec k (st_of (t :: rest)) = Ok (n, st_of rest)) ->
  ECU e.
Proof.
  intros Ht Hc Hp p rest res Hw _ Hn _ Ha. rewrite Ht, Hc in *. cbn [app After] in *.
  eapply runs_primary; [|exact Ha]. exists O. intros f _. apply Hp; assumption.
Qed.

Lemma ECU_prefix x t q P (mkn : node -> node) :
  EC x -> P <= maxp q ->
  (forall rec k ts n st', expr rec P (st_of ts) = Ok (n, st') -> primary rec k (st_of (pk t :: ts)) = Ok (mkn n, st')) ->
  forall p rest res, wfr x -> hdt rest <> TOpenParen -> stops P rest ->
    Runs (CCont (Some (mkn (compile_r x))) p) (st_of rest) res ->
    Runs (CExpr p) (st_of ((pk t :: toks_of q x) ++ rest)) res.
Proof.
  intros Hx HP Hprim p rest res Hw Hn Hs Ha. cbn [app].
  eapply runs_primary; [|exact Ha].
  eapply EvP_mono; [|apply runs_expr_ev; apply (EXPR_of_EC x Hx q P rest); assumption].
  intros f Hf. apply Hprim, Hf.
Qed.

Theorem main_T : forall e, T e.
Proof.
  induction e as [e IH] using rexpr_children_ind.
  destruct e; cbn [rchildren] in IH.
  - (* @ *)
    split; [|split]; [| |exact I].
    + apply (ECU_simple RCurrent NCurrent (pk TCurrent)); try reflexivity. intros. apply prim_current.
    + intros sp rest res _ _ _ _ H. exact H.
  - (* $ *)
    split; [|split]; [|apply RC_none; intros sp H; exact H|exact I].
    apply (ECU_simple RRoot NRoot (pk TRoot)); try reflexivity. intros. apply prim_root.
  - (* field *)
    split; [|split]; [|apply RC_none; intros sp H; exact H|exact I].
    apply (ECU_simple (RField name) (NField name) (ident_tok name)); try reflexivity.
    intros rest Hw Hn rec k. apply prim_field; assumption.
  - (* literal *)
    split; [|split]; [|apply RC_none; intros sp H; exact H|exact I].
    apply (ECU_simple (RLiteral v) (mk_lit v) (lit_tok v)); try reflexivity.
    intros rest Hw Hn rec k. apply prim_lit; assumption.
  - (* raw string *)
    split; [|split]; [|apply RC_none; intros sp H; exact H|exact I].
    apply (ECU_simple (RRaw s) (NString s) (raw_tok s)); try reflexivity.
    intros rest Hw Hn rec k. apply prim_raw.
  - (* variable *)
    split; [|split]; [|apply RC_none; intros sp H; exact H|exact I].
    apply (ECU_simple (RVar name) (NVariable name) (Tok TVariable name)); try reflexivity.
    intros rest Hw Hn rec k. apply prim_var.
  - (* l.r *)
    inv_forall. rename H into T1, H0 into T2. clear IH.
    pose proof (T_EC _ T1) as E1. pose proof (T_EC _ T2) as E2.
    destruct T1 as (_ & R1 & _). destruct T2 as (_ & _ & M2).
    split; [|split]; [| |exact I].
    + intros p rest res Hw Hp Hn Hs Ha. destruct Hw as (Hw1 & Hsh & Hw2).
      destruct Hp as [Hp|Hp]; [|discriminate Hp].
      change (toks_of (level (RSub e1 e2)) (RSub e1 e2)) with (toks_of L_POST e1 ++ pk TDot :: toks_of L_POST e2).
      rewrite <- app_assoc. cbn [app]. apply E1; try assumption.
      * left. exact Hp.
      * discriminate.
      * apply rok_left. cbn. lia.
      * rewrite cxb_sub in Ha. apply sub_step; try assumption. cbn in Hp. lia.
    + intros sp rest res Hok Hsp Hn Hs Ha. cbn [rhs_ok] in Hok. destruct Hok as (Hl & Ht & Hsh & Hwx).
      change (rhs_toks (RSub e1 e2)) with (rhs_toks e1 ++ pk TDot :: toks_of L_POST e2).
      rewrite <- app_assoc. cbn [app]. apply R1; try assumption.
      * discriminate.
      * rewrite rcx_sub in Ha. apply sub_step; try assumption. lia.
  - (* l[i] *)
    inv_forall. rename H into T1. clear IH.
    pose proof (T_EC _ T1) as E1. destruct T1 as (_ & R1 & _).
    split; [|split]; [| |exact I].
    + intros p rest res Hw Hp Hn Hs Ha. destruct Hw as (Hw1 & Hnn & Hi).
      destruct Hp as [Hp|Hp]; [|discriminate Hp].
      change (toks_of (level (RIndex e i)) (RIndex e i))
        with (toks_of L_POST e ++ [pk TOpenSqBrace; int_tok i; pk TCloseSqBrace]).
      rewrite <- app_assoc. apply E1; try assumption.
      * left. exact Hp.
      * discriminate.
      * intros Hl. rewrite (xstop_post e Hl Hnn). unfold stops. apply prec_le_13.
      * apply idx_step; [assumption|cbn in Hp; lia|exact Ha].
    + intros sp rest res Hok Hsp Hn Hs Ha. cbn [rhs_ok] in Hok. destruct Hok as (Hl & Ht & Hi).
      change (rhs_toks (RIndex e i)) with (rhs_toks e ++ [pk TOpenSqBrace; int_tok i; pk TCloseSqBrace]).
      rewrite <- app_assoc. apply R1; try assumption.
      * discriminate.
      * apply idx_step; [assumption|lia|exact Ha].
  - (* projections *)
    assert (HT : match k with PFilter c => T c | _ => True end /\ T e1 /\ T e2).
    { destruct k; inv_forall; auto. }
    clear IH. destruct HT as (Tk & T1 & T2).
    pose proof (T_EC _ T1) as E1. destruct T1 as (_ & R1 & _). destruct T2 as (_ & R2 & _).
    pose proof (RHS_of_RC e2 R2) as Hrhs.
    assert (Hkc : forall (Hwc : match k with PFilter c => wfr c | _ => True end),
              match k with PFilter c => wfr c /\ EC c | _ => True end).
    { destruct k; auto. intros Hwc. split; [exact Hwc|apply T_EC, Tk]. }
    split; [|split]; [| |exact I].
    + intros p rest res Hw Hp Hn Hs Ha. destruct Hw as (Hw1 & Hnn & Hsl & Hwc & Hok).
      destruct Hp as [Hp|Hp]; [|discriminate Hp].
      change (level (RProj k e1 e2)) with L_PROJ in *.
      assert (Hp7 : p <= 7) by (cbn in Hp; lia).
      cbn [xstop tstop] in Hs.
      destruct (is_current_dec e1) as [->|Hne].
      * (* the projection starts the expression *)
        rewrite proj_toks_cur. rewrite cxb_proj_cur in Ha.
        assert (Hr : EvP (fun f => projection (run f) (stop_k k) (st_of (rhs_toks e2 ++ rest)) =
                                   Ok (close_opt (rcx e2), st_of rest))).
        { apply Hrhs; try assumption.
          - destruct k; cbn; lia.
          - eapply stops_le; [exact Hs|lia].
          - eapply stops_le; [exact Hs|lia]. }
        rewrite <- app_assoc.
        destruct k as [|a b c| |cond|]; cbn [sfx_proj lift13 lower close_opt ktoks0 ktoks kcond stop_k After app] in *;
          (eapply runs_primary; [|exact Ha]).
        -- eapply EvP_mono; [|exact Hr]. intros f Hf. apply prim_star, Hf.
        -- eapply EvP_mono; [|exact Hr]. intros f Hf. destruct Hsl as (Ha' & Hb' & Hc' & Hz).
           apply prim_slice; assumption.
        -- eapply EvP_mono; [|exact Hr]. intros f Hf. apply prim_flatten, Hf.
        -- destruct (Hkc Hwc) as [Hwc' Hec]. rewrite <- app_assoc. cbn [app].
           eapply EvP_mono; [|apply EvP_and; [exact Hr|apply runs_expr_ev;
             apply (EXPR_of_EC cond Hec L_PIPE 1 (pk TCloseSqBrace :: rhs_toks e2 ++ rest) Hwc')]].
           ++ intros f [Hf1 Hf2]. eapply prim_filter; [apply filter_ok; exact Hf2|exact Hf1].
           ++ cbn. lia.
           ++ discriminate.
           ++ unfold stops. cbn. lia.
        -- eapply EvP_mono; [|exact Hr]. intros f Hf. apply prim_values, Hf.
      * rewrite proj_toks_ncur by assumption. rewrite cxb_proj_ncur in Ha by assumption.
        rewrite <- !app_assoc. destruct (ktoks_hd k (rhs_toks e2 ++ rest)) as [Hh1 Hh2].
        apply E1; try assumption.
        -- left. destruct k; cbn; lia.
        -- intros Hl. destruct k; cbn [lq sprec_k] in *;
             try (rewrite (xstop_post e1 Hl (Hnn eq_refl)); unfold stops; apply prec_le_13);
             (eapply rok_left; [|exact Hl]; rewrite Hh1; unfold lstop, L_POST, L_PROJ; cbn; lia).
        -- apply proj_step; try assumption.
           ++ apply Hkc, Hwc.
           ++ destruct k; cbn; lia.
    + intros sp rest res Hok Hsp Hn Hs Ha. cbn [rhs_ok] in Hok. destruct Hok as (Hl & Ht & Hsl & Hwc & Hokx).
      rewrite rhs_toks_proj. rewrite rcx_proj in Ha. rewrite <- !app_assoc.
      destruct (ktoks_hd k (rhs_toks e2 ++ rest)) as [Hh1 Hh2].
      apply R1; try assumption.
      * unfold stops. rewrite Hh1. lia.
      * apply proj_step; try assumption; [apply Hkc, Hwc|lia].
  - (* [a, b] *)
    destruct (ECU_mlist es IH) as [H1 H2]. split; [|split]; [exact H1|apply RC_none; intros sp H; exact H|exact H2].
  - (* {k: a} *)
    destruct (ECU_mhash kes IH) as [H1 H2]. split; [|split]; [exact H1|apply RC_none; intros sp H; exact H|exact H2].
  - (* | *)
    inv_forall. split; [|split]; [|apply RC_none; intros sp Hx; exact Hx|exact I].
    intros p rest res [Hw1 Hw2] Hp Hn Hs Ha. destruct Hp as [Hp|Hp]; [|discriminate Hp].
    change (maxp (level (RPipe e1 e2))) with 1 in Hp.
    change (toks_of (level (RPipe e1 e2)) (RPipe e1 e2)) with (toks_of L_PIPE e1 ++ pk TPipe :: toks_of L_OR e2).
    apply (ECU_bin e1 e2 L_PIPE L_OR 2 TPipe NPipe); try assumption; try (apply T_EC; assumption);
      try reflexivity; try discriminate; try (cbn; lia).
    intros; apply cs_pipe; assumption.
  - (* || *)
    inv_forall. split; [|split]; [|apply RC_none; intros sp Hx; exact Hx|exact I].
    intros p rest res [Hw1 Hw2] Hp Hn Hs Ha. destruct Hp as [Hp|Hp]; [|discriminate Hp].
    change (maxp (level (ROr e1 e2))) with 2 in Hp.
    change (toks_of (level (ROr e1 e2)) (ROr e1 e2)) with (toks_of L_OR e1 ++ pk TOr :: toks_of L_AND e2).
    apply (ECU_bin e1 e2 L_OR L_AND 3 TOr NOr); try assumption; try (apply T_EC; assumption);
      try reflexivity; try discriminate; try (cbn; lia).
    intros; apply cs_or; assumption.
  - (* && *)
    inv_forall. split; [|split]; [|apply RC_none; intros sp Hx; exact Hx|exact I].
    intros p rest res [Hw1 Hw2] Hp Hn Hs Ha. destruct Hp as [Hp|Hp]; [|discriminate Hp].
    change (maxp (level (RAnd e1 e2))) with 3 in Hp.
    change (toks_of (level (RAnd e1 e2)) (RAnd e1 e2)) with (toks_of L_AND e1 ++ pk TAnd :: toks_of L_CMP e2).
    apply (ECU_bin e1 e2 L_AND L_CMP 4 TAnd NAnd); try assumption; try (apply T_EC; assumption);
      try reflexivity; try discriminate; try (cbn; lia).
    intros; apply cs_and; assumption.
  - (* ! *)
    inv_forall. rename H into T1. pose proof (T_EC _ T1) as E1.
    split; [|split]; [|apply RC_none; intros sp Hx; exact Hx|exact I].
    intros p rest res Hw Hp Hn Hs Ha. cbn [wfr] in Hw. cbn [xstop] in Hs.
    change (toks_of (level (RNot e)) (RNot e))
      with (pk TNot :: (if is_atom e then toks_of L_POST e else wrapt (toks_of L_LET e))).
    cbn [cxb After] in Ha. cbn [app]. eapply runs_primary; [|exact Ha].
    assert (Hr : Runs (CExpr 12) (st_of ((if is_atom e then toks_of L_POST e else wrapt (toks_of L_LET e)) ++ rest))
                      (Some (compile_r e), st_of rest)).
    { destruct (is_atom e) eqn:Eat.
      - apply EXPR_atom; assumption.
      - eapply runs_paren; [|apply runs_stop; exact Hs].
        apply (EXPR_of_EC e E1 L_LET 1 (pk TCloseParen :: rest) Hw); [cbn; lia|discriminate|unfold stops; cbn; lia]. }
    eapply EvP_mono; [|apply runs_expr_ev, Hr]. intros f Hf. apply prim_not, Hf.
  - (* comparisons *)
    inv_forall. split; [|split]; [|apply RC_none; intros sp Hx; exact Hx|exact I].
    intros p rest res [Hw1 Hw2] Hp Hn Hs Ha. destruct Hp as [Hp|Hp]; [|discriminate Hp].
    change (maxp (level (RCmp op e1 e2))) with 4 in Hp.
    change (toks_of (level (RCmp op e1 e2)) (RCmp op e1 e2))
      with (toks_of L_CMP e1 ++ pk (cmp_ttype op) :: toks_of L_ADD e2).
    apply (ECU_bin e1 e2 L_CMP L_ADD 5 (cmp_ttype op) (mk_cmp op)); try assumption; try (apply T_EC; assumption);
      try reflexivity; try (destruct op; (reflexivity || discriminate)); try (cbn; lia).
    intros; apply cs_cmp; assumption.
  - (* arithmetic *)
    inv_forall. split; [|split]; [|apply RC_none; intros sp Hx; exact Hx|exact I].
    intros p rest res [Hw1 Hw2] Hp Hn Hs Ha. destruct Hp as [Hp|Hp]; [|discriminate Hp].
    destruct op;
      match goal with |- context [RArith ?o _ _] =>
        change (toks_of (level (RArith o e1 e2)) (RArith o e1 e2))
          with (toks_of (ar_level o) e1 ++ pk (ar_ttype o) :: toks_of (ar_level o + 1) e2);
        apply (ECU_bin e1 e2 (ar_level o) (ar_level o + 1) (precedence (ar_ttype o)) (ar_ttype o) (mk_ar o));
          try assumption; try (apply T_EC; assumption);
          try reflexivity; try discriminate; try (cbn in Hp |- *; lia);
          try (intros; apply cs_ar; assumption)
      end.
  - (* unary - *)
    inv_forall. rename H into T1. pose proof (T_EC _ T1) as E1.
    split; [|split]; [|apply RC_none; intros sp Hx; exact Hx|exact I].
    intros p rest res Hw Hp Hn Hs Ha. cbn [wfr] in Hw. cbn [xstop] in Hs. cbn [cxb After] in Ha.
    change (toks_of (level (RNeg e)) (RNeg e)) with (pk TSubtract :: toks_of L_PROJ e).
    apply (ECU_prefix e TSubtract L_PROJ 7 NNegate); try assumption; [cbn; lia|].
    intros; apply prim_neg; assumption.
  - (* unary + *)
    inv_forall. rename H into T1. pose proof (T_EC _ T1) as E1.
    split; [|split]; [|apply RC_none; intros sp Hx; exact Hx|exact I].
    intros p rest res Hw Hp Hn Hs Ha. cbn [wfr] in Hw. cbn [xstop] in Hs. cbn [cxb After] in Ha.
    change (toks_of (level (RPos e)) (RPos e)) with (pk TAdd :: toks_of L_PROJ e).
    apply (ECU_prefix e TAdd L_PROJ 7 NAssertNumber); try assumption; [cbn; lia|].
    intros; apply prim_pos; assumption.
  - (* function call *)
    split; [|split]; [apply ECU_call, IH|apply RC_none; intros sp Hx; exact Hx|exact I].
  - (* let *)
    split; [|split]; [apply ECU_let, IH|apply RC_none; intros sp Hx; exact Hx|exact I].
Qed.

(* ================================================================== *)
(* 13. Main theorem: parsing the tokens of the canonical text          *)
(* ================================================================== *)

Theorem parse_unparse_toks : forall e, wfr e ->
  exists fuel0, forall fuel, (fuel0 <= fuel)%nat ->
    parse_items fuel (map ITok (toks_of 0 e) ++ [ITok (Tok TEnd [])]) = Ok (compile_r e).
Proof.
  intros e Hw.
  assert (H : Runs (CExpr 1) (st_of (toks_of L_LET e ++ [])) (Some (compile_r e), st_of [])).
  { apply (EXPR_of_EC e (T_EC e (main_T e)) L_LET 1 [] Hw); [cbn; lia|discriminate|unfold stops; cbn; lia]. }
  destruct H as [f0 H]. exists f0. intros fuel Hf.
  change (map ITok (toks_of 0 e) ++ [ITok (Tok TEnd [])]) with (items (toks_of 0 e)).
  rewrite parse_items_st. rewrite app_nil_r in H. change L_LET with 0 in H. rewrite (H fuel Hf). reflexivity.
Qed.

(* the same with the result stated through unfuse *)
Corollary parse_unparse_toks_norm : forall e, wfr e ->
  exists fuel0, forall fuel, (fuel0 <= fuel)%nat ->
    exists n, parse_items fuel (map ITok (toks_of 0 e) ++ [ITok (Tok TEnd [])]) = Ok n /\ unfuse n = norm e.
Proof.
  intros e Hw. destruct (parse_unparse_toks e Hw) as [f0 H]. exists f0. intros fuel Hf.
  exists (compile_r e). split; [apply H, Hf|reflexivity].
Qed.

(* ================================================================== *)
(* 14. Fuel: more fuel never changes a result other than OutOfFuel     *)
(* ================================================================== *)

Definition lef {A} (a b : outcome A) : Prop := a = OutOfFuel \/ b = a.

Lemma lef_refl {A} (a : outcome A) : lef a a.
Proof. right. reflexivity. Qed.

Lemma lef_bind {A B} (a b : outcome A) (f g : A -> outcome B) :
  lef a b -> (forall x, lef (f x) (g x)) -> lef (bind a f) (bind b g).
Proof.
  intros [->| ->] H; [left; reflexivity|]. destruct a; cbn [bind]; try (right; reflexivity). apply H.
Qed.

Ltac mono_step callee :=
  match goal with
  | |- lef ?x ?x => apply lef_refl
  | |- lef OutOfFuel _ => left; reflexivity
  | |- lef (bind _ _) (bind _ _) => apply lef_bind; [|intros ?]
  | |- lef (match ?x with _ => _ end) (match ?x with _ => _ end) => destruct x
  | |- lef (if ?c then _ else _) (if ?c then _ else _) => destruct c
  | |- _ => callee
  end.

Section Mono.
  Variables rec1 rec2 : pcall -> pst -> outcome (option node * pst).
  Hypothesis Hrec : forall c st, lef (rec1 c st) (rec2 c st).

  Ltac c0 := first [apply Hrec].
  Lemma mono_expr p st : lef (expr rec1 p st) (expr rec2 p st).
  Proof. unfold expr. repeat mono_step c0. Qed.

  Lemma mono_projection p st : lef (projection rec1 p st) (projection rec2 p st).
  Proof. unfold projection. repeat mono_step c0. Qed.

  Ltac c1 := first [apply Hrec | apply mono_expr | apply mono_projection].
  Lemma mono_filter st : lef (filter rec1 st) (filter rec2 st).
  Proof. unfold filter. repeat mono_step c1. Qed.

  Lemma mono_wsp n b st : lef (wrap_slice_projection rec1 n b st) (wrap_slice_projection rec2 n b st).
  Proof. unfold wrap_slice_projection. repeat mono_step c1. Qed.

  Lemma mono_sal : forall k1 k2, (k1 <= k2)%nat -> forall child fields st,
    lef (select_array_loop rec1 k1 child fields st) (select_array_loop rec2 k2 child fields st).
  Proof.
    induction k1 as [|k1 IH]; intros k2 Hk child fields st; [left; reflexivity|].
    destruct k2 as [|k2]; [lia|]. cbn [select_array_loop].
    repeat mono_step ltac:(first [apply mono_expr | apply IH; lia]).
  Qed.

  Lemma mono_sol : forall k1 k2, (k1 <= k2)%nat -> forall child fields st,
    lef (select_object_loop rec1 k1 child fields st) (select_object_loop rec2 k2 child fields st).
  Proof.
    induction k1 as [|k1 IH]; intros k2 Hk child fields st; [left; reflexivity|].
    destruct k2 as [|k2]; [lia|]. cbn [select_object_loop].
    repeat mono_step ltac:(first [apply mono_expr | apply IH; lia]).
  Qed.

  Lemma mono_ll : forall k1 k2, (k1 <= k2)%nat -> forall vars st,
    lef (let_loop rec1 k1 vars st) (let_loop rec2 k2 vars st).
  Proof.
    induction k1 as [|k1 IH]; intros k2 Hk vars st; [left; reflexivity|].
    destruct k2 as [|k2]; [lia|]. cbn [let_loop]. cbv zeta.
    repeat mono_step ltac:(first [apply mono_expr | apply IH; lia]).
  Qed.

  Lemma mono_val : forall k1 k2, (k1 <= k2)%nat -> forall acc st,
    lef (var_args_loop rec1 k1 acc st) (var_args_loop rec2 k2 acc st).
  Proof.
    induction k1 as [|k1 IH]; intros k2 Hk acc st; [left; reflexivity|].
    destruct k2 as [|k2]; [lia|]. cbn [var_args_loop]. cbv zeta.
    repeat mono_step ltac:(first [apply mono_expr | apply IH; lia]).
  Qed.

  Variables k1 k2 : nat.
  Hypothesis Hk : (k1 <= k2)%nat.

  Ltac c2 := first [apply Hrec | apply mono_expr | apply mono_projection | apply mono_filter | apply mono_wsp
                   | apply mono_sal; exact Hk | apply mono_sol; exact Hk | apply mono_ll; exact Hk
                   | apply mono_val; exact Hk].

  Lemma mono_let st : lef (let_ rec1 k1 st) (let_ rec2 k2 st).
  Proof. unfold let_. repeat mono_step c2. Qed.

  Lemma mono_parse_args ap name st : lef (parse_args rec1 k1 ap name st) (parse_args rec2 k2 ap name st).
  Proof. unfold parse_args. repeat mono_step c2. Qed.

  Ltac c3 := first [c2 | apply mono_let | apply mono_parse_args].

  Lemma mono_function st : lef (function rec1 k1 st) (function rec2 k2 st).
  Proof. unfold function. cbv zeta. repeat mono_step c3. Qed.

  Ltac c4 := first [c3 | apply mono_function].

  Lemma mono_primary st : lef (primary rec1 k1 st) (primary rec2 k2 st).
  Proof. unfold primary, select_array, select_object. repeat mono_step c4. Qed.

  Lemma mono_cont_step o np st : lef (cont_step rec1 k1 o np st) (cont_step rec2 k2 o np st).
  Proof. unfold cont_step, select_array, select_object. repeat mono_step c4. Qed.

  Lemma mono_run_body c st : lef (run_body rec1 k1 c st) (run_body rec2 k2 c st).
  Proof.
    destruct c; cbn [run_body]; cbv zeta;
      repeat mono_step ltac:(first [apply Hrec | apply mono_primary | apply mono_cont_step]).
  Qed.
End Mono.

Lemma run_mono : forall f1 f2, (f1 <= f2)%nat -> forall c st, lef (run f1 c st) (run f2 c st).
Proof.
  induction f1 as [|f1 IH]; intros f2 Hf c st; [left; reflexivity|].
  destruct f2 as [|f2]; [lia|]. cbn [run]. apply mono_run_body; [|lia].
  intros c' st'. apply IH. lia.
Qed.

Lemma parse_items_mono f1 f2 items : (f1 <= f2)%nat -> lef (parse_items f1 items) (parse_items f2 items).
Proof.
  intros Hf. unfold parse_items.
  repeat mono_step ltac:(first [apply run_mono; exact Hf]).
Qed.

(* ================================================================== *)
(* 15. From the tokens to the text: parse (unparse e)                  *)
(* ================================================================== *)
From JM Require Proofs.Termination.

(* whenever the canonical text lexes to the expected tokens, the fuel that
   [parse] provides is enough *)
Corollary parse_unparse_node : forall e, wfr e ->
  lex_all (unparse e) = map ITok (toks_of 0 e) ++ [ITok (Tok TEnd [])] ->
  parse (unparse e) = Ok (compile_r e).
Proof.
  intros e Hw Hlex. destruct (parse_unparse_toks e Hw) as [f0 H].
  unfold parse. set (s := unparse e) in *.
  pose proof (Termination.parse_items_no_fuel s (parse_fuel s)) as Hnf.
  assert (Hlt : (length s < parse_fuel s)%nat) by (unfold parse_fuel; lia).
  specialize (Hnf Hlt).
  destruct (parse_items_mono (parse_fuel s) (Nat.max f0 (parse_fuel s)) (lex_all s) ltac:(lia)) as [E|E];
    [contradiction|].
  rewrite <- E. rewrite Hlex. apply H. lia.
Qed.

Corollary parse_unparse : forall e, wfr e ->
  lex_all (unparse e) = map ITok (toks_of 0 e) ++ [ITok (Tok TEnd [])] ->
  exists n, parse (unparse e) = Ok n /\ unfuse n = norm e.
Proof.
  intros e Hw Hlex. exists (compile_r e). split; [apply parse_unparse_node; assumption|reflexivity].
Qed.

(* ================================================================== *)
(* 16. The meaning of the parser's output                              *)
(* ================================================================== *)
From JM Require Import Model.Slice Model.Eval Proofs.EvalRefines.

(* The spec's slice bounds, with the parser's sentinels written for absent parts:
   the same slice of every sequence that a Go slice can hold. *)
Lemma spec_bounds_sentinel n a b c : 0 <= n <= MaxInt -> pslice_step c <> 0 ->
  spec_bounds n (Some (pslice_start a c)) (Some (pslice_stop b c)) (pslice_step c) =
  spec_bounds n a b (pslice_step c).
Proof.
  intros Hn Hs. unfold spec_bounds, pslice_start, pslice_stop. cbv zeta.
  set (st := pslice_step c) in *. unfold MaxInt, MinInt in *.
  destruct a as [a|], b as [b|]; try reflexivity;
    destruct (st <? 0) eqn:E; f_equal;
    repeat match goal with |- context [?x <? ?y] => destruct (Z.ltb_spec x y) end; try lia.
Qed.

Lemma spec_slice_sentinel {A} (l : list A) d a b c : zlen l <= MaxInt -> pslice_step c <> 0 ->
  spec_slice l d (Some (pslice_start a c)) (Some (pslice_stop b c)) (pslice_step c) =
  spec_slice l d a b (pslice_step c).
Proof.
  intros Hl Hs. unfold spec_slice, spec_slice_indices. fold (zlen l).
  rewrite spec_bounds_sentinel; [reflexivity| |assumption]. unfold zlen in *. lia.
Qed.


Lemma slice_sent_eq {A} (l : list A) d a b c : pslice_step c <> 0 ->
  (match a, b with Some _, Some _ => True | _, _ => zlen l <= MaxInt end) ->
  spec_slice l d (Some (pslice_start a c)) (Some (pslice_stop b c)) (pslice_step c) =
  spec_slice l d a b (pslice_step c).
Proof. intros Hs Hl. destruct a, b; try reflexivity; apply spec_slice_sentinel; assumption. Qed.

(* the projection kind as unfuse shows it: explicit bounds, step 1 left out *)
Definition sent_k (k : projkind) : projkind :=
  match k with
  | PSlice a b c =>
    PSlice (Some (pslice_start a c)) (Some (pslice_stop b c))
           (if pslice_step c =? 1 then None else Some (pslice_step c))
  | _ => k
  end.

(* a sequence that a Go slice or string can hold *)
Definition short (v : value) : Prop :=
  match v with
  | VArr a => zlen a <= MaxInt
  | VStr s => zlen (chunks s) <= MaxInt
  | _ => True
  end.
Definition is_open (k : projkind) : bool :=
  match k with PSlice (Some _) (Some _) _ => false | PSlice _ _ _ => true | _ => false end.

Definition ns_o (o : option node) : Prop := match o with Some t => is_slice_node t = false | None => True end.
Definition ns_g (g : gstate) : Prop := match g with Plain o => ns_o o | Group _ t => is_slice_node t = false end.

Lemma ns_close_opt g : ns_g g -> ns_o (close_opt g).
Proof. destruct g as [o|[a|] t]; cbn; auto. Qed.
Lemma ns_close g : ns_g g -> is_slice_node (close g) = false.
Proof. intros H. apply ns_close_opt in H. unfold close. destruct (close_opt g); [exact H|reflexivity]. Qed.
Lemma ns_lift13 f g : (forall o, is_slice_node (f o) = false) -> ns_g (lift13 f g).
Proof. intros H. destruct g; cbn; apply H. Qed.
Lemma ns_mlist child fs : is_slice_node (mk_mlist child fs) = false.
Proof. destruct fs as [|? [|? ?]]; destruct child; reflexivity. Qed.
Lemma ns_mhash child fs : is_slice_node (mk_mhash child fs) = false.
Proof. destruct fs as [|[? ?] [|? ?]]; destruct child; reflexivity. Qed.
Lemma ns_index i o : is_slice_node (mk_index o i) = false.
Proof. destruct o; cbn; [reflexivity|]. destruct (_ && _); reflexivity. Qed.
Lemma ns_build fb ns n : build fb ns = Some n -> is_slice_node n = false.
Proof.
  destruct fb; destruct ns as [|n1 [|n2 [|n3 [|n4 [|n5 ns]]]]]; cbn [build]; intros H; inversion H; reflexivity.
Qed.
Lemma ns_call f ns : is_slice_node (mk_call f ns) = false.
Proof.
  unfold mk_call. destruct (assoc f function_table) as [[ap fb]|]; [|reflexivity].
  destruct (build fb ns) eqn:E; [|reflexivity]. eapply ns_build, E.
Qed.
Lemma ns_lit v : is_slice_node (mk_lit v) = false.
Proof. unfold mk_lit, node_of_value. destruct v as [|b|s|[t|?|? ?|? ?]|l|m|t]; reflexivity. Qed.
Lemma ns_sfx_proj k cond rhs g : ns_g (sfx_proj k cond rhs g).
Proof.
  destruct k; cbn [sfx_proj]; try (apply ns_lift13; intros [n|]; destruct rhs; reflexivity);
    unfold lower; cbn; destruct (close_opt g), rhs; reflexivity.
Qed.

Lemma ns_all : forall e, ns_g (cxb e) /\ ns_g (rcx e).
Proof.
  induction e; cbn [cxb rcx]; split; try exact I; try reflexivity;
    try apply ns_sfx_proj; try (apply ns_lift13; apply ns_index).
  all: try apply ns_lit; try apply ns_mlist; try apply ns_mhash; try apply ns_call;
    try (destruct op; reflexivity);
    try (unfold sfx_sub; destruct e2; try apply ns_mlist; try apply ns_mhash; cbn [ns_g]; apply ns_close, IHe2).
Qed.

Lemma ns_cxq q e : ns_g (cxq q e).
Proof. unfold cxq. destruct (_ <? q); [cbn; apply ns_close; apply ns_all|apply ns_all]. Qed.

(* ---- what unfuse makes of the nodes built for selectors ---- *)
Lemma unfuse_index o i : unfuse (mk_index o i) = RIndex (unfuse (or_current o)) i.
Proof. destruct o; cbn; [reflexivity|]. destruct (_ && _); reflexivity. Qed.
Lemma unfuse_star rhs o : ns_o o ->
  unfuse (mk_star rhs o) = RProj PList (unfuse (or_current o)) (unfuse (or_current rhs)).
Proof. destruct o, rhs; cbn; intros H; try reflexivity. apply unfuse_project_array_noslice, H. Qed.
Lemma unfuse_values rhs o : unfuse (mk_values rhs o) = RProj PValues (unfuse (or_current o)) (unfuse (or_current rhs)).
Proof. destruct o, rhs; reflexivity. Qed.
Lemma unfuse_flatten rhs o : unfuse (mk_flatten rhs o) = RProj PFlatten (unfuse (or_current o)) (unfuse (or_current rhs)).
Proof. destruct o, rhs; reflexivity. Qed.
Lemma unfuse_filter c rhs o :
  unfuse (mk_filter c rhs o) = RProj (PFilter (unfuse c)) (unfuse (or_current o)) (unfuse (or_current rhs)).
Proof. destruct o, rhs; reflexivity. Qed.
Lemma unfuse_slicep a b c rhs o :
  unfuse (mk_slicep a b c rhs o) = RProj (sent_k (PSlice a b c)) (unfuse (or_current o)) (unfuse (or_current rhs)).
Proof. unfold mk_slicep, mk_slice, sent_k. destruct o; destruct (_ =? 1); reflexivity. Qed.
Lemma unfuse_mlist child fs :
  unfuse (mk_mlist child fs) =
  match child with None => RMultiList (map unfuse fs) | Some c => RSub (unfuse c) (RMultiList (map unfuse fs)) end.
Proof. destruct fs as [|? [|? ?]]; destruct child; reflexivity. Qed.
Lemma unfuse_mhash child kfs :
  unfuse (mk_mhash child kfs) =
  match child with
  | None => RMultiHash (map (fun kv => (fst kv, unfuse (snd kv))) kfs)
  | Some c => RSub (unfuse c) (RMultiHash (map (fun kv => (fst kv, unfuse (snd kv))) kfs))
  end.
Proof. destruct kfs as [|[? ?] [|? ?]]; destruct child; reflexivity. Qed.

Lemma bind_assoc' {A B C} (o : outcome A) (g : A -> outcome B) (h : B -> outcome C) :
  bind (bind o g) h = bind o (fun x => bind (g x) h).
Proof. destruct o; reflexivity. Qed.

Lemma proj_list_ext_in (f g : value -> outcome value) l :
  (forall x, In x l -> f x = g x) -> proj_list f l = proj_list g l.
Proof.
  induction l as [|v r IH]; intros H; [reflexivity|]. cbn [proj_list].
  rewrite (H v (or_introl eq_refl)), IH; [reflexivity|]. intros x Hx. apply H. right. exact Hx.
Qed.

Section Sem.
Variable root : value.

Definition osem (o : option node) (cur : value) (vars : env) : outcome value :=
  match o with None => Ok cur | Some t => ref_eval root (unfuse t) cur vars end.
Definition gsem (g : gstate) (cur : value) (vars : env) : outcome value :=
  match g with
  | Plain o => osem o cur vars
  | Group a t => do v <- osem a cur vars; ref_eval root (unfuse t) v vars
  end.

Lemma osem_or_current o cur vars : ref_eval root (unfuse (or_current o)) cur vars = osem o cur vars.
Proof. destruct o; reflexivity. Qed.

Lemma osem_close_opt g cur vars : osem (close_opt g) cur vars = gsem g cur vars.
Proof. destruct g as [o|[a|] t]; reflexivity. Qed.

Lemma gsem_close g cur vars : ref_eval root (unfuse (close g)) cur vars = gsem g cur vars.
Proof. unfold close. rewrite osem_or_current. apply osem_close_opt. Qed.

(* the body of a projection, after its left-hand side has been evaluated *)
Definition PKf (k : projkind) (R C : value -> outcome value) (v : value) : outcome value :=
  match k with
  | PList => match v with VArr a => do ps <- proj_list R a; Ok (VArr ps) | _ => Ok VNull end
  | PSlice start stop step =>
    match step with
    | Some 0 => Err EInvalidSliceStep
    | _ =>
      let st := match step with Some s => s | None => 1 end in
      match v with
      | VArr a => do ps <- proj_list R (spec_slice a VNull start stop st); Ok (VArr ps)
      | VStr s => R (VStr (List.concat (spec_slice (chunks s) [] start stop st)))
      | _ => Ok VNull
      end
    end
  | PFlatten => match v with VArr a => do ps <- proj_list R (merge_level a); Ok (VArr ps) | _ => Ok VNull end
  | PFilter _ =>
    match v with
    | VArr a => do ps <- proj_list (fun x => do c <- C x; if spec_truthy c then R x else Ok VNull) a; Ok (VArr ps)
    | _ => Ok VNull
    end
  | PValues => match v with VObj m => do ps <- proj_list R (map snd m); Ok (VArr ps) | _ => Ok VNull end
  end.

Definition kcondf (k : projkind) (vars : env) (x : value) : outcome value :=
  match k with PFilter c => ref_eval root c x vars | _ => Ok VNull end.

Lemma ref_RProj k l r cur vars :
  ref_eval root (RProj k l r) cur vars =
  do v <- ref_eval root l cur vars; PKf k (fun x => ref_eval root r x vars) (kcondf k vars) v.
Proof. destruct k; reflexivity. Qed.

(* the values the right-hand side (and the filter condition) is applied to *)
Definition pelems (k : projkind) (v : value) : list value :=
  match k, v with
  | PList, VArr a => a
  | PFilter _, VArr a => a
  | PFlatten, VArr a => merge_level a
  | PValues, VObj m => map snd m
  | PSlice start stop step, VArr a => spec_slice a VNull start stop (match step with Some s => s | None => 1 end)
  | PSlice start stop step, VStr s =>
    [VStr (List.concat (spec_slice (chunks s) [] start stop (match step with Some s => s | None => 1 end)))]
  | _, _ => []
  end.

Lemma PKf_ext k R C R' C' v :
  (forall x, In x (pelems k v) -> R x = R' x /\ C x = C' x) -> PKf k R C v = PKf k R' C' v.
Proof.
  intros H. destruct k as [|a b c| |cond|]; cbn [PKf pelems] in *.
  - destruct v; try reflexivity. rewrite (proj_list_ext_in R R'); [reflexivity|]. intros x Hx. apply H, Hx.
  - destruct c as [[|p|p]|]; try reflexivity; cbv zeta;
      (destruct v; try reflexivity;
       [apply H; left; reflexivity
       |rewrite (proj_list_ext_in R R'); [reflexivity|]; intros x Hx; apply H, Hx]).
  - destruct v; try reflexivity. rewrite (proj_list_ext_in R R'); [reflexivity|]. intros x Hx. apply H, Hx.
  - destruct v; try reflexivity.
    rewrite (proj_list_ext_in _ (fun x => do c <- C' x; if spec_truthy c then R' x else Ok VNull)); [reflexivity|].
    intros x Hx. destruct (H x Hx) as [-> ->]. reflexivity.
  - destruct v; try reflexivity. rewrite (proj_list_ext_in R R'); [reflexivity|]. intros x Hx. apply H, Hx.
Qed.

Lemma PKf_sent k R C v : slice_ok k -> (is_open k = true -> short v) -> PKf (sent_k k) R C v = PKf k R C v.
Proof.
  intros Hok Hsh. destruct k as [|a b c| | |]; try reflexivity.
  cbn [slice_ok] in Hok. destruct Hok as (_ & _ & _ & Hz).
  assert (Hs : pslice_step c <> 0) by (destruct c as [z|]; cbn; [congruence|lia]).
  assert (Hl : forall A (l : list A) (d : A), (is_open (PSlice a b c) = true -> zlen l <= MaxInt) ->
               spec_slice l d (Some (pslice_start a c)) (Some (pslice_stop b c)) (pslice_step c) =
               spec_slice l d a b (pslice_step c)).
  { intros A l d H. apply slice_sent_eq; [assumption|]. destruct a, b; try exact I; apply H; reflexivity. }
  assert (Hrhs : PKf (PSlice a b c) R C v =
                 match v with
                 | VArr l => do ps <- proj_list R (spec_slice l VNull a b (pslice_step c)); Ok (VArr ps)
                 | VStr s => R (VStr (List.concat (spec_slice (chunks s) [] a b (pslice_step c))))
                 | _ => Ok VNull
                 end).
  { cbn [PKf]. destruct c as [[|p|p]|]; [congruence| | |]; reflexivity. }
  rewrite Hrhs. cbn [sent_k PKf].
  destruct (pslice_step c) as [|p|p] eqn:Es; [congruence| |].
  - destruct (Z.pos p =? 1) eqn:E.
    + apply Z.eqb_eq in E. cbv zeta.
      destruct v; try reflexivity; cbn [short] in Hsh; rewrite <- Hl by exact Hsh; rewrite E; reflexivity.
    + cbv zeta. destruct v; try reflexivity; cbn [short] in Hsh; rewrite <- Hl by exact Hsh; reflexivity.
  - change (Z.neg p =? 1) with false. cbv zeta.
    destruct v; try reflexivity; cbn [short] in Hsh; rewrite <- Hl by exact Hsh; reflexivity.
Qed.

(* ---- the selector steps, semantically ---- *)
Lemma sem_lift13 f (F : env -> value -> outcome value) g cur vars : ns_g g ->
  (forall o cur vars, ns_o o -> ref_eval root (unfuse (f o)) cur vars = do v <- osem o cur vars; F vars v) ->
  gsem (lift13 f g) cur vars = do v <- gsem g cur vars; F vars v.
Proof.
  intros Hn H. destruct g as [o|a t]; cbn [lift13 gsem ns_g] in *.
  - apply H, Hn.
  - rewrite bind_assoc'. destruct (osem a cur vars); cbn [bind]; try reflexivity. apply (H (Some t)), Hn.
Qed.

Lemma sem_lower f (F : env -> value -> outcome value) g cur vars : ns_g g ->
  (forall o cur vars, ns_o o -> ref_eval root (unfuse (f o)) cur vars = do v <- osem o cur vars; F vars v) ->
  gsem (lower f g) cur vars = do v <- gsem g cur vars; F vars v.
Proof.
  intros Hn H. cbn [lower gsem osem]. rewrite H by (apply ns_close_opt, Hn). rewrite osem_close_opt. reflexivity.
Qed.

Lemma sem_group g x cur vars :
  gsem (Group (close_opt g) x) cur vars = do v <- gsem g cur vars; ref_eval root (unfuse x) v vars.
Proof. cbn [gsem]. rewrite osem_close_opt. reflexivity. Qed.

Lemma gsem_cxq q e cur vars : gsem (cxq q e) cur vars = gsem (cxb e) cur vars.
Proof. unfold cxq. destruct (_ <? q); [|reflexivity]. cbn [gsem osem]. unfold compile_r. apply gsem_close. Qed.

Definition ucondf (k : projkind) (vars : env) (x : value) : outcome value :=
  ref_eval root (unfuse (kcond k)) x vars.

Lemma sem_sfx_proj k rhs g cur vars : ns_g g ->
  gsem (sfx_proj k (kcond k) rhs g) cur vars =
  do v <- gsem g cur vars; PKf (sent_k k) (fun x => osem rhs x vars) (ucondf k vars) v.
Proof.
  intros Hn.
  assert (HR : forall k' C v vars, PKf k' (fun x => ref_eval root (unfuse (or_current rhs)) x vars) C v =
                                   PKf k' (fun x => osem rhs x vars) C v).
  { intros k' C v vars'. apply PKf_ext. intros x _. split; [apply osem_or_current|reflexivity]. }
  destruct k as [|a b c| |cond|]; cbn [sfx_proj].
  - apply (sem_lift13 _ (fun vars v => PKf PList (fun x => osem rhs x vars) (ucondf PList vars) v)); [assumption|].
    intros o cur' vars' Ho. rewrite unfuse_star by assumption. rewrite ref_RProj, osem_or_current.
    destruct (osem o cur' vars'); cbn [bind]; try reflexivity. apply HR.
  - apply (sem_lift13 _ (fun vars v => PKf (sent_k (PSlice a b c)) (fun x => osem rhs x vars) (ucondf (PSlice a b c) vars) v));
      [assumption|].
    intros o cur' vars' Ho. rewrite unfuse_slicep. rewrite ref_RProj, osem_or_current.
    destruct (osem o cur' vars'); cbn [bind]; try reflexivity. apply HR.
  - apply (sem_lower _ (fun vars v => PKf PFlatten (fun x => osem rhs x vars) (ucondf PFlatten vars) v)); [assumption|].
    intros o cur' vars' Ho. rewrite unfuse_flatten. rewrite ref_RProj, osem_or_current.
    destruct (osem o cur' vars'); cbn [bind]; try reflexivity. apply HR.
  - apply (sem_lower _ (fun vars v => PKf (PFilter cond) (fun x => osem rhs x vars) (ucondf (PFilter cond) vars) v));
      [assumption|].
    intros o cur' vars' Ho. rewrite unfuse_filter. rewrite ref_RProj, osem_or_current.
    destruct (osem o cur' vars') as [a| | | |]; cbn [bind]; try reflexivity.
    transitivity (PKf (PFilter cond) (fun x => ref_eval root (unfuse (or_current rhs)) x vars')
                      (kcondf (PFilter (unfuse (kcond (PFilter cond)))) vars') a); [reflexivity|].
    apply PKf_ext. intros x _. split; [apply osem_or_current|reflexivity].
  - apply (sem_lower _ (fun vars v => PKf PValues (fun x => osem rhs x vars) (ucondf PValues vars) v)); [assumption|].
    intros o cur' vars' Ho. rewrite unfuse_values. rewrite ref_RProj, osem_or_current.
    destruct (osem o cur' vars'); cbn [bind]; try reflexivity. apply HR.
Qed.

Lemma sem_idx i g cur vars : ns_g g ->
  gsem (lift13 (fun o => mk_index o i) g) cur vars = do v <- gsem g cur vars; Ok (spec_index v i).
Proof.
  intros Hn. apply (sem_lift13 _ (fun _ v => Ok (spec_index v i))); [assumption|].
  intros o cur' vars' _. rewrite unfuse_index. cbn [ref_eval]. rewrite osem_or_current. reflexivity.
Qed.

(* ---- callbacks only matter on the elements they are applied to ---- *)
Section ExtIn.
  Variables f g : value -> outcome value.

  Lemma mapM_ext_in l : (forall v, In v l -> f v = g v) -> mapM f l = mapM g l.
  Proof.
    induction l as [|v r IH]; intros H; [reflexivity|]. cbn [mapM].
    rewrite (H v (or_introl eq_refl)), IH; [reflexivity|]. intros x Hx. apply H. right. exact Hx.
  Qed.
  Lemma str_keys_ext_in l : (forall v, In v l -> f v = g v) -> str_keys f l = str_keys g l.
  Proof.
    induction l as [|v r IH]; intros H; [reflexivity|]. cbn [str_keys].
    rewrite (H v (or_introl eq_refl)), IH; [reflexivity|]. intros x Hx. apply H. right. exact Hx.
  Qed.
  Lemma num_keys_ext_in l : (forall v, In v l -> f v = g v) -> num_keys f l = num_keys g l.
  Proof.
    induction l as [|v r IH]; intros H; [reflexivity|]. cbn [num_keys].
    rewrite (H v (or_introl eq_refl)), IH; [reflexivity|]. intros x Hx. apply H. right. exact Hx.
  Qed.
  Lemma keys_for_ext_in a l : (forall v, In v (a :: l) -> f v = g v) -> keys_for f a l = keys_for g a l.
  Proof.
    intros H. unfold keys_for. rewrite (H a (or_introl eq_refl)).
    rewrite str_keys_ext_in, num_keys_ext_in; [reflexivity| |]; intros x Hx; apply H; right; exact Hx.
  Qed.
  Lemma sort_array_by_ext_in v : (forall l x, v = VArr l -> In x l -> f x = g x) ->
    sort_array_by f v = sort_array_by g v.
  Proof.
    intros H. destruct v as [| | | |[|a0 rest]| |]; try reflexivity.
    cbn [sort_array_by]. rewrite keys_for_ext_in; [reflexivity|]. intros x Hx. eapply H; [reflexivity|exact Hx].
  Qed.
  Lemma array_extreme_by_ext_in gt v : (forall l x, v = VArr l -> In x l -> f x = g x) ->
    array_extreme_by f gt v = array_extreme_by g gt v.
  Proof.
    intros H. destruct v as [| | | |[|a0 rest]| |]; try reflexivity.
    cbn [array_extreme_by]. rewrite keys_for_ext_in; [reflexivity|]. intros x Hx. eapply H; [reflexivity|exact Hx].
  Qed.
  Lemma group_loop_ext_in l : (forall v, In v l -> f v = g v) -> forall acc, group_loop f l acc = group_loop g l acc.
  Proof.
    induction l as [|v r IH]; intros H acc; [reflexivity|]. cbn [group_loop]. rewrite (H v (or_introl eq_refl)).
    destruct (g v) as [k| | | |]; try reflexivity. cbn [bind]. destruct k; try reflexivity.
    apply IH. intros x Hx. apply H. right. exact Hx.
  Qed.
  Lemma group_by_ext_in v : (forall l x, v = VArr l -> In x l -> f x = g x) -> group_by f v = group_by g v.
  Proof.
    intros H. destruct v as [| | | |[|a0 rest]| |]; try reflexivity.
    cbn [group_by]. rewrite group_loop_ext_in; [reflexivity|]. intros x Hx. eapply H; [reflexivity|exact Hx].
  Qed.
  Lemma map_array_ext_in v : (forall l x, v = VArr l -> In x l -> f x = g x) -> map_array f v = map_array g v.
  Proof.
    intros H. destruct v; try reflexivity. cbn [map_array]. rewrite mapM_ext_in; [reflexivity|].
    intros x Hx. eapply H; [reflexivity|exact Hx].
  Qed.
End ExtIn.

Definition av_rel (D : value -> Prop) (x y : argv) : Prop :=
  match x, y with
  | AV a, AV b => a = b
  | AF g1, AF g2 => forall v, D v -> g1 v = g2 v
  | _, _ => False
  end.

Lemma av_rel_all_av D avs1 avs2 : Forall2 (av_rel D) avs1 avs2 ->
  (forall x, In x avs1 -> match x with AV _ => True | AF _ => False end) -> avs1 = avs2.
Proof.
  induction 1 as [|x y l1 l2 Hxy _ IH]; intros H; [reflexivity|].
  pose proof (H x (or_introl eq_refl)) as Hx. destruct x, y; cbn [av_rel] in Hxy; try contradiction. subst.
  f_equal. apply IH. intros z Hz. apply H. right. exact Hz.
Qed.

Lemma Forall2_nil_inv' {A B} (R : A -> B -> Prop) l2 : Forall2 R [] l2 -> l2 = [].
Proof. intros H. inversion H. reflexivity. Qed.
Lemma Forall2_cons_inv' {A B} (R : A -> B -> Prop) x l l2 :
  Forall2 R (x :: l) l2 -> exists y l2', l2 = y :: l2' /\ R x y /\ Forall2 R l l2'.
Proof. intros H. inversion H; subst. eauto. Qed.

Lemma spec_call_ext f D avs1 avs2 :
  Forall2 (av_rel D) avs1 avs2 ->
  (forall l y, In (AV (VArr l)) avs1 -> In y l -> D y) ->
  spec_call f avs1 = spec_call f avs2.
Proof.
  intros H HD. unfold spec_call. destruct (assoc f function_table) as [[ap fb]|]; [|reflexivity].
  assert (Hdom : forall (a : value) (g1 g2 : value -> outcome value), In (AV a) avs1 ->
                  (forall v, D v -> g1 v = g2 v) ->
                  forall (l : list value) (x : value), a = VArr l -> In x l -> g1 x = g2 x).
  { intros a g1 g2 Hin Hg l x -> Hx. apply Hg. eapply HD; eassumption. }
  destruct fb as [f1|f2|fby| |fv|f1 f2|f2 f3|f2 f3 f4|f3 f4].
  5:{ (* variadic built-ins look at plain values only *)
      destruct fv.
      - revert H. generalize (@nil (bytes * value)). clear HD Hdom.
        intros acc H. revert acc. induction H as [|x y l1 l2 Hxy _ IH]; intros acc; [reflexivity|].
        destruct x, y; cbn [av_rel] in Hxy; try contradiction; [subst|reflexivity].
        destruct v0; try reflexivity. apply IH.
      - clear HD Hdom. induction H as [|x y l1 l2 Hxy _ IH]; [reflexivity|].
        destruct x, y; cbn [av_rel] in Hxy; try contradiction; [subst|reflexivity].
        destruct (not_null v0); [reflexivity|apply IH].
      - assert (E : (fix go (l : list argv) : outcome (list (list value)) :=
                       match l with
                       | [] => Ok []
                       | AV (VArr c) :: r => do cs <- go r; Ok (c :: cs)
                       | _ => Err EInvalidType
                       end) avs1 =
                    (fix go (l : list argv) : outcome (list (list value)) :=
                       match l with
                       | [] => Ok []
                       | AV (VArr c) :: r => do cs <- go r; Ok (c :: cs)
                       | _ => Err EInvalidType
                       end) avs2).
        { clear HD Hdom. induction H as [|x y l1 l2 Hxy _ IH]; [reflexivity|].
          destruct x, y; cbn [av_rel] in Hxy; try contradiction; [subst|reflexivity].
          destruct v0; try reflexivity. rewrite IH. reflexivity. }
        rewrite E. reflexivity. }
  all: destruct avs1 as [|x1 [|x2 [|x3 [|x4 [|x5 t1]]]]].
  all: repeat match goal with
    | H : Forall2 _ [] _ |- _ => apply Forall2_nil_inv' in H; subst
    | H : Forall2 _ (_ :: _) _ |- _ =>
      apply Forall2_cons_inv' in H; destruct H as (? & ? & -> & ? & H)
    end.
  all: do 5 (try match goal with
    | Hr : av_rel _ ?a1 ?a2 |- _ => destruct a1, a2; cbn [av_rel] in Hr; try contradiction; try subst
    end).
  all: try reflexivity.
  all: try (destruct fby; [apply group_by_ext_in|apply array_extreme_by_ext_in|apply array_extreme_by_ext_in
                           |apply sort_array_by_ext_in]; intros l0 y0; eapply Hdom; [|eassumption]; cbn; auto).
  all: try (apply map_array_ext_in; intros l0 y0; eapply Hdom; [|eassumption]; cbn; auto).
  destruct fby; [apply group_by_ext_in|apply array_extreme_by_ext_in|apply array_extreme_by_ext_in
                 |apply sort_array_by_ext_in];
    intros l0 y0 E Hy; apply (Hdom v0 f0 f1 (or_introl eq_refl) H1 l0 y0 E Hy).
Qed.

(* ---- calls with pairwise equivalent arguments ---- *)
Inductive arg_rel (D : value -> Prop) (cur : value) (vars : env) : rarg -> rarg -> Prop :=
| AR_expr x y : ref_eval root x cur vars = ref_eval root y cur vars -> arg_rel D cur vars (AExpr x) (AExpr y)
| AR_ref x y : (forall v, D v -> ref_eval root x v vars = ref_eval root y v vars) ->
               arg_rel D cur vars (ARef x) (ARef y).

Definition ref_args (cur : value) (vars : env) : list rarg -> outcome (list argv) :=
  fix go l :=
    match l with
    | [] => Ok []
    | AExpr x :: r => do v <- ref_eval root x cur vars; do vs <- go r; Ok (AV v :: vs)
    | ARef x :: r => do vs <- go r; Ok (AF (fun y => ref_eval root x y vars) :: vs)
    end.

Lemma ref_RCall_plain f args cur vars : plain_name f ->
  ref_eval root (RCall f args) cur vars = do avs <- ref_args cur vars args; spec_call f avs.
Proof. intros (E1 & E2 & E3). cbn [ref_eval]. rewrite E1, E2, E3. reflexivity. Qed.

Definition Pav (D : value -> Prop) (x : argv) : Prop :=
  match x with AV (VArr l) => forall y, In y l -> D y | _ => True end.

Lemma args_cont D cur vars args1 args2 :
  Forall2 (arg_rel D cur vars) args1 args2 ->
  (forall a l, In (AExpr a) args1 -> ref_eval root a cur vars = Ok (VArr l) -> forall y, In y l -> D y) ->
  forall k1 k2 : list argv -> outcome value,
    (forall a1 a2, Forall2 (av_rel D) a1 a2 -> Forall (Pav D) a1 -> k1 a1 = k2 a2) ->
    bind (ref_args cur vars args1) k1 = bind (ref_args cur vars args2) k2.
Proof.
  induction 1 as [|x y l1 l2 Hxy _ IH]; intros HD k1 k2 Hk.
  - cbn [ref_args bind]. apply Hk; constructor.
  - destruct Hxy as [x y E|x y E]; cbn [ref_args].
    + rewrite <- E. rewrite !bind_assoc'.
      destruct (ref_eval root x cur vars) as [v| | | |] eqn:Ev; cbn [bind]; try reflexivity.
      rewrite !bind_assoc'. cbn [bind].
      apply IH.
      * intros a l Hin. apply HD. right. exact Hin.
      * intros a1 a2 H12 HP. apply Hk; [constructor; [reflexivity|exact H12]|constructor; [|exact HP]].
        destruct v; try exact I. cbn [Pav]. intros y0 Hy. eapply (HD x); [left; reflexivity|exact Ev|exact Hy].
    + rewrite !bind_assoc'. cbn [bind]. apply IH.
      * intros a l Hin. apply HD. right. exact Hin.
      * intros a1 a2 H12 HP. apply Hk; [constructor; [|exact H12]|constructor; [exact I|exact HP]].
        cbn [av_rel]. exact E.
Qed.

Lemma not_null_loop_cong D cur vars args1 args2 : Forall2 (arg_rel D cur vars) args1 args2 ->
  ref_not_null_loop (fun x => ref_eval root x cur vars) args1 =
  ref_not_null_loop (fun x => ref_eval root x cur vars) args2.
Proof.
  induction 1 as [|x y l1 l2 Hxy _ IH]; [reflexivity|].
  destruct Hxy as [x y E|x y E]; cbn [ref_not_null_loop]; [|reflexivity]. rewrite E, IH. reflexivity.
Qed.
Lemma merge_loop_cong D cur vars args1 args2 : Forall2 (arg_rel D cur vars) args1 args2 -> forall acc,
  ref_merge_loop (fun x => ref_eval root x cur vars) args1 acc =
  ref_merge_loop (fun x => ref_eval root x cur vars) args2 acc.
Proof.
  induction 1 as [|x y l1 l2 Hxy _ IH]; intros acc; [reflexivity|].
  destruct Hxy as [x y E|x y E]; cbn [ref_merge_loop]; [|reflexivity]. rewrite E.
  destruct (ref_eval root y cur vars) as [v| | | |]; cbn [bind]; try reflexivity. destruct v; try reflexivity. apply IH.
Qed.
Lemma zip_loop_cong D cur vars args1 args2 : Forall2 (arg_rel D cur vars) args1 args2 ->
  ref_zip_cols_loop (fun x => ref_eval root x cur vars) args1 =
  ref_zip_cols_loop (fun x => ref_eval root x cur vars) args2.
Proof.
  induction 1 as [|x y l1 l2 Hxy _ IH]; [reflexivity|].
  destruct Hxy as [x y E|x y E]; cbn [ref_zip_cols_loop]; [|reflexivity]. rewrite E, IH. reflexivity.
Qed.

Lemma ref_call_cong f D args1 args2 cur vars :
  Forall2 (arg_rel D cur vars) args1 args2 ->
  (forall a l, In (AExpr a) args1 -> ref_eval root a cur vars = Ok (VArr l) -> forall y, In y l -> D y) ->
  ref_eval root (RCall f args1) cur vars = ref_eval root (RCall f args2) cur vars.
Proof.
  intros H HD.
  destruct (beqb f [110;111;116;95;110;117;108;108]) eqn:E1.
  { apply beqb_eq in E1. subst f. rewrite !(ref_RCall_not_null root). eapply not_null_loop_cong, H. }
  destruct (beqb f [109;101;114;103;101]) eqn:E2.
  { apply beqb_eq in E2. subst f. rewrite !(ref_RCall_merge root). eapply merge_loop_cong, H. }
  destruct (beqb f [122;105;112]) eqn:E3.
  { apply beqb_eq in E3. subst f. rewrite !(ref_RCall_zip root). erewrite zip_loop_cong by exact H. reflexivity. }
  rewrite !ref_RCall_plain by (repeat split; assumption).
  apply (args_cont D cur vars args1 args2 H HD). intros a1 a2 H12 HP.
  apply (spec_call_ext f D a1 a2 H12). intros l y Hin Hy.
  rewrite Forall_forall in HP. apply (HP _ Hin). exact Hy.
Qed.

(* ---- function calls: the node built and its meaning ---- *)
Definition uarg (a : rarg) : rarg :=
  match a with AExpr x => AExpr (unfuse (compile_r x)) | ARef x => ARef (unfuse (compile_r x)) end.

Definition entry_names_ok (e : bytes * (argparser * fbuild)) : bool :=
  let name := fst e in
  match snd (snd e) with
  | B1 f => beqb (fn1_bytes f) name
  | B2 f => beqb (fn2_bytes f) name
  | BBy f => beqb (fnby_bytes f) name
  | BMap => beqb [109;97;112] name
  | BVar f => beqb (fnvar_bytes f) name
  | B1or2 f g => beqb (fn1_bytes f) name && beqb (fn2_bytes g) name
  | B2or3 f g => beqb (fn2_bytes f) name && beqb (fn3_bytes g) name
  | B2to4 f g h => beqb (fn2_bytes f) name && beqb (fn3_bytes g) name && beqb (fn4_bytes h) name
  | B3or4 f g => beqb (fn3_bytes f) name && beqb (fn4_bytes g) name
  end.

Lemma assoc_in_key {A} k (m : list (bytes * A)) v : assoc k m = Some v -> In (k, v) m.
Proof.
  induction m as [|[k0 v0] m IH]; [discriminate|]. cbn [assoc]. destruct (beqb k k0) eqn:E.
  - intros H. inversion H; subst. apply beqb_eq in E. subst. left. reflexivity.
  - intros H. right. apply IH, H.
Qed.

Lemma table_names f ap fb : assoc f function_table = Some (ap, fb) -> entry_names_ok (f, (ap, fb)) = true.
Proof.
  intros H. apply assoc_in_key in H.
  assert (Hall : forallb entry_names_ok function_table = true) by (vm_compute; reflexivity).
  rewrite forallb_forall in Hall. apply (Hall _ H).
Qed.

Lemma uarg_plain args : forallb negb (map is_ref args) = true ->
  map uarg args = map (fun x => AExpr (unfuse x)) (map (fun a => compile_r (arg_expr a)) args).
Proof.
  induction args as [|[x|x] args IH]; cbn [map is_ref forallb negb andb]; intros H; [reflexivity| |discriminate].
  cbn [uarg arg_expr]. rewrite IH by exact H. reflexivity.
Qed.

Lemma unfuse_call f args : call_ok f args = true ->
  unfuse (mk_call f (map (fun a => compile_r (arg_expr a)) args)) = RCall f (map uarg args).
Proof.
  unfold call_ok, mk_call. destruct (assoc f function_table) as [[ap fb]|] eqn:Ef; [|discriminate].
  intros Hs. pose proof (table_compat _ _ _ Ef) as Hc. pose proof (table_names _ _ _ Ef) as Hn.
  unfold entry_names_ok in Hn. cbn [fst snd] in Hn.
  destruct ap, fb; try discriminate Hc;
    repeat match goal with H : _ && _ = true |- _ => apply andb_prop in H; destruct H end;
    repeat match goal with H : beqb _ f = true |- _ => apply beqb_eq in H end.
  9:{ destruct args as [|a args]; [discriminate|]. cbn [shape_ok] in Hs.
      cbn [build unfuse]. rewrite uarg_plain by exact Hs. rewrite Hn. reflexivity. }
  all: destruct args as [|[x1|x1] [|[x2|x2] [|[x3|x3] [|[x4|x4] [|? ?]]]]]; try discriminate Hs;
    cbn [map build unfuse uarg arg_expr]; congruence.
Qed.

(* ---- let frames ---- *)
Lemma let_frame_map (h : rexpr -> rexpr) ev l :
  let_frame ev (map (fun kx => (fst kx, h (snd kx))) l) = let_frame (fun x => ev (h x)) l.
Proof.
  induction l as [|[k x] l IH]; [reflexivity|]. cbn [map let_frame fst snd]. rewrite IH. reflexivity.
Qed.
Lemma let_frame_ext (ev1 ev2 : rexpr -> outcome value) l :
  Forall (fun kx => ev1 (snd kx) = ev2 (snd kx)) l -> let_frame ev1 l = let_frame ev2 l.
Proof.
  induction 1 as [|[k x] l Hx _ IH]; [reflexivity|]. cbn [let_frame snd] in *. rewrite Hx, IH. reflexivity.
Qed.

(* ================================================================== *)
(* 17. Where absent slice bounds meet sequences too long for Go        *)
(* ================================================================== *)

(* [ss e cur vars]: every slice of e with an absent bound is applied, during the
   evaluation of e, to an array or string that a Go slice or string can hold *)
Fixpoint ss (e : rexpr) (cur : value) (vars : env) {struct e} : Prop :=
  match e with
  | RSub l r | RPipe l r => ss l cur vars /\ forall v, ref_eval root l cur vars = Ok v -> ss r v vars
  | RIndex l _ => ss l cur vars
  | RProj k l r =>
    ss l cur vars /\
    forall v, ref_eval root l cur vars = Ok v ->
      (is_open k = true -> short v) /\
      forall x, In x (pelems k v) ->
        match k with PFilter c => ss c x vars | _ => True end /\ ss r x vars
  | RMultiList es =>
    (fix all (l : list rexpr) : Prop := match l with [] => True | x :: r => ss x cur vars /\ all r end) es
  | RMultiHash kes =>
    (fix all (l : list (bytes * rexpr)) : Prop :=
       match l with [] => True | (_, x) :: r => ss x cur vars /\ all r end) kes
  | ROr l r | RAnd l r | RCmp _ l r | RArith _ l r => ss l cur vars /\ ss r cur vars
  | RNot x | RNeg x | RPos x => ss x cur vars
  | RCall f args =>
    (fix all (l : list rarg) : Prop :=
       match l with
       | [] => True
       | AExpr x :: r => ss x cur vars /\ all r
       | ARef x :: r =>
         (forall y, (exists a l', In (AExpr a) args /\ ref_eval root a cur vars = Ok (VArr l') /\ In y l') ->
                    ss x y vars) /\ all r
       end) args
  | RLet bs body =>
    (fix all (l : list (bytes * rexpr)) : Prop :=
       match l with [] => True | (_, x) :: r => ss x cur vars /\ all r end) bs /\
    forall fr, let_frame (fun x => ref_eval root x cur vars) bs = Ok fr -> ss body cur (fr :: vars)
  | _ => True
  end.

Lemma ss_mlist es cur vars : ss (RMultiList es) cur vars <-> Forall (fun x => ss x cur vars) es.
Proof.
  cbn [ss]. induction es as [|x es IH]; [split; constructor|]. rewrite Forall_cons_iff, <- IH. reflexivity.
Qed.
Lemma ss_mhash kes cur vars : ss (RMultiHash kes) cur vars <-> Forall (fun kx => ss (snd kx) cur vars) kes.
Proof.
  cbn [ss]. induction kes as [|[k x] kes IH]; [split; constructor|]. rewrite Forall_cons_iff, <- IH. reflexivity.
Qed.
Definition cb_dom (args : list rarg) (cur : value) (vars : env) (y : value) : Prop :=
  exists a l', In (AExpr a) args /\ ref_eval root a cur vars = Ok (VArr l') /\ In y l'.
Lemma ss_call_aux args0 args cur vars :
  (fix all (l : list rarg) : Prop :=
     match l with
     | [] => True
     | AExpr x :: r => ss x cur vars /\ all r
     | ARef x :: r =>
       (forall y, (exists a l', In (AExpr a) args0 /\ ref_eval root a cur vars = Ok (VArr l') /\ In y l') ->
                  ss x y vars) /\ all r
     end) args <->
  Forall (fun a => match a with
                   | AExpr x => ss x cur vars
                   | ARef x => forall y, cb_dom args0 cur vars y -> ss x y vars
                   end) args.
Proof.
  unfold cb_dom.
  induction args as [|[x|x] args IH]; [split; constructor| |]; rewrite Forall_cons_iff, <- IH; reflexivity.
Qed.
Lemma ss_call f args cur vars : ss (RCall f args) cur vars <->
  Forall (fun a => match a with
                   | AExpr x => ss x cur vars
                   | ARef x => forall y, cb_dom args cur vars y -> ss x y vars
                   end) args.
Proof. cbn [ss]. apply ss_call_aux. Qed.
Lemma ss_let bs body cur vars : ss (RLet bs body) cur vars <->
  Forall (fun kx => ss (snd kx) cur vars) bs /\
  forall fr, let_frame (fun x => ref_eval root x cur vars) bs = Ok fr -> ss body cur (fr :: vars).
Proof.
  cbn [ss]. apply and_iff_compat_r.
  induction bs as [|[k x] bs IH]; [split; constructor|]. rewrite Forall_cons_iff, <- IH. reflexivity.
Qed.

(* ---- the induction ---- *)
Definition SEM (e : rexpr) : Prop :=
  (wfr e -> forall cur vars, ss e cur vars -> gsem (cxb e) cur vars = ref_eval root e cur vars) /\
  (forall sp, rhs_ok sp e -> forall cur vars, ss e cur vars -> gsem (rcx e) cur vars = ref_eval root e cur vars).

Lemma SEM_compile e : SEM e -> wfr e -> forall cur vars, ss e cur vars ->
  ref_eval root (unfuse (compile_r e)) cur vars = ref_eval root e cur vars.
Proof. intros [H _] Hw cur vars Hs. unfold compile_r. rewrite gsem_close. apply H; assumption. Qed.

Lemma unfuse_lit v cur vars : json_text_ok v = true -> ref_eval root (unfuse (mk_lit v)) cur vars = Ok v.
Proof.
  unfold mk_lit, node_of_value, json_text_ok.
  destruct v as [|b|s|[t|?|? ?|? ?]|l|m|t]; cbn; intros H; try discriminate; reflexivity.
Qed.

Lemma ref_mlist_cong (h : rexpr -> rexpr) es cur vars :
  Forall (fun x => ref_eval root (h x) cur vars = ref_eval root x cur vars) es ->
  ref_eval root (RMultiList (map h es)) cur vars = ref_eval root (RMultiList es) cur vars.
Proof.
  intros H. rewrite !(ref_RMultiList root).
  assert (E : evlist (fun x => ref_eval root x cur vars) (map h es) = evlist (fun x => ref_eval root x cur vars) es).
  { rewrite evlist_map. apply evlist_ext, H. }
  rewrite E. destruct es as [|a [|b es']]; reflexivity.
Qed.

Lemma ref_mhash_cong (h : rexpr -> rexpr) kes cur vars :
  Forall (fun kx => ref_eval root (h (snd kx)) cur vars = ref_eval root (snd kx) cur vars) kes ->
  ref_eval root (RMultiHash (map (fun kx => (fst kx, h (snd kx))) kes)) cur vars =
  ref_eval root (RMultiHash kes) cur vars.
Proof.
  intros H. rewrite !(ref_RMultiHash root).
  assert (E : frame_of (fun x => ref_eval root x cur vars) (map (fun kx => (fst kx, h (snd kx))) kes) =
              frame_of (fun x => ref_eval root x cur vars) kes).
  { rewrite frame_of_map. apply frame_of_ext, H. }
  rewrite E. destruct kes as [|a [|b kes']]; reflexivity.
Qed.

Lemma sem_sub g l r cur vars :
  ns_g g -> gsem g cur vars = ref_eval root l cur vars ->
  SEM r -> wfr r -> sub_shape r = true ->
  (forall v, ref_eval root l cur vars = Ok v -> ss r v vars) ->
  gsem (sfx_sub g r (fs_of r) (kfs_of r) (compile_r r)) cur vars = ref_eval root (RSub l r) cur vars.
Proof.
  intros Hn Hg Hr Hw Hsh Hss.
  destruct r; try discriminate Hsh; cbn [sfx_sub fs_of kfs_of].
  - rewrite sem_group, Hg. reflexivity.
  - cbn [gsem osem]. rewrite unfuse_mlist, !(ref_RSub_list root), gsem_close, Hg.
    destruct (ref_eval root l cur vars) as [v| | | |] eqn:E; cbn [bind]; try reflexivity.
    destruct (not_null v); [|reflexivity].
    destruct Hr as [Hr _]. specialize (Hr Hw v vars (Hss v eq_refl)).
    cbn [cxb gsem osem] in Hr. rewrite go_nodes, unfuse_mlist in Hr. exact Hr.
  - cbn [gsem osem]. rewrite unfuse_mhash, !(ref_RSub_hash root), gsem_close, Hg.
    destruct (ref_eval root l cur vars) as [v| | | |] eqn:E; cbn [bind]; try reflexivity.
    destruct (not_null v); [|reflexivity].
    destruct Hr as [Hr _]. specialize (Hr Hw v vars (Hss v eq_refl)).
    cbn [cxb gsem osem] in Hr. rewrite go_knodes, unfuse_mhash in Hr. exact Hr.
  - rewrite sem_group, Hg.
    change (ref_eval root (RSub l (RCall f args)) cur vars)
      with (do v <- ref_eval root l cur vars; ref_eval root (RCall f args) v vars).
    destruct (ref_eval root l cur vars) as [v| | | |] eqn:E; cbn [bind]; try reflexivity.
    apply SEM_compile; auto.
Qed.

Lemma sem_proj g k l r cur vars :
  ns_g g -> gsem g cur vars = ref_eval root l cur vars ->
  slice_ok k -> match k with PFilter c => wfr c /\ SEM c | _ => True end -> SEM r -> rhs_ok (stop_k k) r ->
  (forall v, ref_eval root l cur vars = Ok v ->
     (is_open k = true -> short v) /\
     forall x, In x (pelems k v) -> match k with PFilter c => ss c x vars | _ => True end /\ ss r x vars) ->
  gsem (sfx_proj k (kcond k) (close_opt (rcx r)) g) cur vars = ref_eval root (RProj k l r) cur vars.
Proof.
  intros Hn Hg Hsl Hc Hr Hok Hss. rewrite sem_sfx_proj by assumption. rewrite ref_RProj, Hg.
  destruct (ref_eval root l cur vars) as [v| | | |] eqn:E; cbn [bind]; try reflexivity.
  destruct (Hss v eq_refl) as [Hsh Hel]. rewrite PKf_sent by assumption.
  apply PKf_ext. intros x Hx. destruct (Hel x Hx) as [Hcx Hrx]. split.
  - rewrite osem_close_opt. apply (proj2 Hr (stop_k k)); assumption.
  - unfold ucondf, kcondf. destruct k; try reflexivity. cbn [kcond]. destruct Hc as [Hwc Hsc].
    apply SEM_compile; assumption.
Qed.

Lemma Forall2_map_r {A B} (R : A -> B -> Prop) (h : A -> B) l : Forall (fun a => R a (h a)) l -> Forall2 R l (map h l).
Proof. induction 1; constructor; assumption. Qed.

Theorem sem_main : forall e, SEM e.
Proof.
  induction e as [e IH] using rexpr_children_ind.
  destruct e; cbn [rchildren] in IH.
  - split; intros; reflexivity.
  - split; [intros; reflexivity|intros sp []].
  - split; [intros; reflexivity|intros sp []].
  - split; [|intros sp []]. intros Hw cur vars _. cbn [cxb gsem osem]. apply unfuse_lit, Hw.
  - split; [intros; reflexivity|intros sp []].
  - split; [intros; reflexivity|intros sp []].
  - (* l.r *)
    inv_forall. rename H into S1, H0 into S2. clear IH. split.
    + intros (Hw1 & Hsh & Hw2) cur vars [Hs1 Hs2]. rewrite cxb_sub.
      apply sem_sub; auto using ns_cxq. rewrite gsem_cxq. apply (proj1 S1); assumption.
    + intros sp (Hl & Ht & Hsh & Hwx) cur vars [Hs1 Hs2]. rewrite rcx_sub.
      apply sem_sub; auto; [apply ns_all|]. apply (proj2 S1 sp); assumption.
  - (* l[i] *)
    inv_forall. rename H into S1. clear IH. split.
    + intros (Hw1 & Hnn & Hi) cur vars Hs. cbn [ss] in Hs.
      change (cxb (RIndex e i)) with (lift13 (fun o => mk_index o i) (cxq L_POST e)).
      rewrite sem_idx by apply ns_cxq. rewrite gsem_cxq, (proj1 S1) by assumption. reflexivity.
    + intros sp (Hl & Ht & Hi) cur vars Hs. cbn [ss] in Hs.
      change (rcx (RIndex e i)) with (lift13 (fun o => mk_index o i) (rcx e)).
      rewrite sem_idx by apply ns_all. rewrite (proj2 S1 sp) by assumption. reflexivity.
  - (* projections *)
    assert (HT : match k with PFilter c => SEM c | _ => True end /\ SEM e1 /\ SEM e2).
    { destruct k; inv_forall; auto. }
    clear IH. destruct HT as (Sk & S1 & S2).
    assert (Hkc : match k with PFilter c => wfr c | _ => True end ->
                  match k with PFilter c => wfr c /\ SEM c | _ => True end).
    { destruct k; auto. }
    split.
    + intros (Hw1 & Hnn & Hsl & Hwc & Hok) cur vars [Hs1 Hs2].
      destruct (is_current_dec e1) as [->|Hne].
      * rewrite cxb_proj_cur.
        apply sem_proj; [exact I|reflexivity|assumption|apply Hkc, Hwc|assumption|assumption|assumption].
      * rewrite cxb_proj_ncur by assumption.
        apply sem_proj; [apply ns_cxq| |assumption|apply Hkc, Hwc|assumption|assumption|assumption].
        rewrite gsem_cxq. apply (proj1 S1); assumption.
    + intros sp (Hl & Ht & Hsl & Hwc & Hokx) cur vars [Hs1 Hs2]. rewrite rcx_proj.
      apply sem_proj; [apply ns_all| |assumption|apply Hkc, Hwc|assumption|assumption|assumption].
      apply (proj2 S1 sp); assumption.
  - (* [a, b] *)
    split; [|intros sp []]. intros Hw cur vars Hs. apply wfr_mlist in Hw. destruct Hw as [_ Hw].
    apply ss_mlist in Hs. cbn [cxb gsem osem]. rewrite go_nodes, unfuse_mlist, map_map.
    apply (ref_mlist_cong (fun x => unfuse (compile_r x))).
    rewrite Forall_forall in *. intros x Hx. apply SEM_compile; auto.
  - (* {k: a} *)
    split; [|intros sp []]. intros Hw cur vars Hs. apply wfr_mhash in Hw. destruct Hw as (_ & _ & Hw).
    apply ss_mhash in Hs. apply -> Forall_map in IH.
    cbn [cxb gsem osem]. rewrite go_knodes, unfuse_mhash, hkv_hitems, map_map. cbn [fst snd].
    apply (ref_mhash_cong (fun x => unfuse (compile_r x))).
    rewrite Forall_forall in *. intros x Hx. apply SEM_compile; auto. apply (Hw x Hx).
  - (* | *)
    inv_forall. split; [|intros sp []]. intros [Hw1 Hw2] cur vars [Hs1 Hs2].
    cbn [cxb gsem osem unfuse ref_eval]. change (close (cxb e1)) with (compile_r e1).
    change (close (cxb e2)) with (compile_r e2). rewrite (SEM_compile e1) by assumption.
    destruct (ref_eval root e1 cur vars) as [v| | | |] eqn:E; cbn [bind]; try reflexivity.
    apply SEM_compile; auto.
  - (* || *)
    inv_forall. split; [|intros sp []]. intros [Hw1 Hw2] cur vars [Hs1 Hs2].
    cbn [cxb gsem osem unfuse ref_eval]. change (close (cxb e1)) with (compile_r e1).
    change (close (cxb e2)) with (compile_r e2).
    rewrite (SEM_compile e1), (SEM_compile e2) by assumption. reflexivity.
  - (* && *)
    inv_forall. split; [|intros sp []]. intros [Hw1 Hw2] cur vars [Hs1 Hs2].
    cbn [cxb gsem osem unfuse ref_eval]. change (close (cxb e1)) with (compile_r e1).
    change (close (cxb e2)) with (compile_r e2).
    rewrite (SEM_compile e1), (SEM_compile e2) by assumption. reflexivity.
  - (* ! *)
    inv_forall. split; [|intros sp []]. intros Hw cur vars Hs. cbn [wfr ss] in *.
    cbn [cxb gsem osem unfuse ref_eval]. change (close (cxb e)) with (compile_r e).
    rewrite (SEM_compile e) by assumption. reflexivity.
  - (* comparisons *)
    inv_forall. split; [|intros sp []]. intros [Hw1 Hw2] cur vars [Hs1 Hs2].
    cbn [cxb gsem osem]. change (close (cxb e1)) with (compile_r e1). change (close (cxb e2)) with (compile_r e2).
    destruct op; cbn [mk_cmp unfuse ref_eval];
      rewrite (SEM_compile e1), (SEM_compile e2) by assumption; reflexivity.
  - (* arithmetic *)
    inv_forall. split; [|intros sp []]. intros [Hw1 Hw2] cur vars [Hs1 Hs2].
    cbn [cxb gsem osem]. change (close (cxb e1)) with (compile_r e1). change (close (cxb e2)) with (compile_r e2).
    destruct op; cbn [mk_ar unfuse ref_eval];
      rewrite (SEM_compile e1), (SEM_compile e2) by assumption; reflexivity.
  - (* unary - *)
    inv_forall. split; [|intros sp []]. intros Hw cur vars Hs. cbn [wfr ss] in *.
    cbn [cxb gsem osem unfuse ref_eval]. change (close (cxb e)) with (compile_r e).
    rewrite (SEM_compile e) by assumption. reflexivity.
  - (* unary + *)
    inv_forall. split; [|intros sp []]. intros Hw cur vars Hs. cbn [wfr ss] in *.
    cbn [cxb gsem osem unfuse ref_eval]. change (close (cxb e)) with (compile_r e).
    rewrite (SEM_compile e) by assumption. reflexivity.
  - (* function call *)
    split; [|intros sp []]. intros Hw cur vars Hs. apply wfr_call in Hw. destruct Hw as [Hc Hw].
    apply ss_call in Hs. apply -> Forall_map in IH.
    cbn [cxb gsem osem]. rewrite go_anodes, unfuse_call by assumption.
    symmetry. apply (ref_call_cong f (cb_dom args cur vars)).
    + apply Forall2_map_r. rewrite Forall_forall in *. intros a Ha.
      specialize (IH a Ha). specialize (Hw a Ha). specialize (Hs a Ha).
      destruct a as [x|x]; cbn [uarg arg_expr] in *; constructor.
      * symmetry. apply SEM_compile; assumption.
      * intros v Hv. symmetry. apply SEM_compile; auto.
    + intros a l Hin Ev y Hy. exists a, l. auto.
  - (* let *)
    inv_forall. rename H into Sb. apply -> Forall_map in IH.
    split; [|intros sp []]. intros Hw cur vars Hs. apply wfr_let in Hw. destruct Hw as (_ & _ & Hw & Hwb).
    apply ss_let in Hs. destruct Hs as [Hs Hsb].
    cbn [cxb gsem osem]. rewrite go_knodes, hkv_hitems. cbn [unfuse]. rewrite map_map. cbn [fst snd].
    rewrite !(ref_RLet root). rewrite (let_frame_map (fun x => unfuse (compile_r x))).
    rewrite (let_frame_ext _ (fun x => ref_eval root x cur vars)).
    * destruct (let_frame (fun x => ref_eval root x cur vars) bs) as [fr| | | |] eqn:F; cbn [bind]; try reflexivity.
      change (close (cxb e)) with (compile_r e). apply SEM_compile; auto.
    * rewrite Forall_forall in *. intros x Hx. apply SEM_compile; auto. apply (Hw x Hx).
Qed.

(* the parser's output means what the reference expression means *)
Theorem norm_invisible_at : forall e, wfr e -> forall cur vars, ss e cur vars ->
  ref_eval root (norm e) cur vars = ref_eval root e cur vars.
Proof. intros e Hw cur vars Hs. unfold norm. apply SEM_compile; auto using sem_main. Qed.

End Sem.

Definition slices_short : value -> rexpr -> value -> env -> Prop := ss.

Theorem norm_invisible : forall e, wfr e -> forall root cur vars, slices_short root e cur vars ->
  ref_eval root (norm e) cur vars = ref_eval root e cur vars.
Proof. intros e Hw root cur vars Hs. apply norm_invisible_at; assumption. Qed.

(* ---- expressions whose slices give both bounds: no condition on the data ---- *)
Fixpoint closed_slices (e : rexpr) {struct e} : Prop :=
  match e with
  | RSub l r | RPipe l r | ROr l r | RAnd l r | RCmp _ l r | RArith _ l r => closed_slices l /\ closed_slices r
  | RIndex l _ => closed_slices l
  | RProj k l r =>
    is_open k = false /\ match k with PFilter c => closed_slices c | _ => True end /\
    closed_slices l /\ closed_slices r
  | RMultiList es =>
    (fix all (l : list rexpr) : Prop := match l with [] => True | x :: r => closed_slices x /\ all r end) es
  | RMultiHash kes =>
    (fix all (l : list (bytes * rexpr)) : Prop :=
       match l with [] => True | (_, x) :: r => closed_slices x /\ all r end) kes
  | RNot x | RNeg x | RPos x => closed_slices x
  | RCall _ args =>
    (fix all (l : list rarg) : Prop :=
       match l with
       | [] => True
       | AExpr x :: r => closed_slices x /\ all r
       | ARef x :: r => closed_slices x /\ all r
       end) args
  | RLet bs body =>
    (fix all (l : list (bytes * rexpr)) : Prop :=
       match l with [] => True | (_, x) :: r => closed_slices x /\ all r end) bs /\ closed_slices body
  | _ => True
  end.

Lemma closed_slices_short root : forall e, closed_slices e -> forall cur vars, slices_short root e cur vars.
Proof.
  unfold slices_short.
  induction e as [e IH] using rexpr_children_ind.
  destruct e; cbn [rchildren] in IH; intros Hc cur vars; try exact I; cbn [closed_slices] in Hc.
  - inv_forall. destruct Hc. cbn [ss]. split; auto.
  - inv_forall. cbn [ss]. auto.
  - assert (HT : match k with PFilter c => forall cur vars, closed_slices c -> ss root c cur vars | _ => True end /\
                 (closed_slices e1 -> forall cur vars, ss root e1 cur vars) /\
                 (closed_slices e2 -> forall cur vars, ss root e2 cur vars)).
    { destruct k; inv_forall; auto. }
    clear IH. destruct HT as (Hk & H1 & H2). destruct Hc as (Ho & Hcc & Hc1 & Hc2).
    cbn [ss]. split; [auto|]. intros v _. split; [rewrite Ho; discriminate|].
    intros x _. split; [|auto]. destruct k; auto.
  - apply ss_mlist. revert Hc. induction es as [|x es IHes]; intros Hc; constructor.
    + apply Forall_cons_iff in IH. destruct IH as [Hx _]. apply Hx, Hc.
    + apply Forall_cons_iff in IH. destruct IH as [_ IH]. apply IHes; [exact IH|apply Hc].
  - apply ss_mhash. revert Hc. induction kes as [|[k x] kes IHk]; intros Hc; constructor.
    + cbn [map] in IH. apply Forall_cons_iff in IH. destruct IH as [Hx _]. apply Hx, Hc.
    + cbn [map] in IH. apply Forall_cons_iff in IH. destruct IH as [_ IH]. apply IHk; [exact IH|apply Hc].
  - inv_forall. destruct Hc. cbn [ss]. split; auto.
  - inv_forall. destruct Hc. cbn [ss]. split; auto.
  - inv_forall. destruct Hc. cbn [ss]. split; auto.
  - inv_forall. cbn [ss]. auto.
  - inv_forall. destruct Hc. cbn [ss]. split; auto.
  - inv_forall. destruct Hc. cbn [ss]. split; auto.
  - inv_forall. cbn [ss]. auto.
  - inv_forall. cbn [ss]. auto.
  - apply ss_call. generalize (cb_dom root args cur vars). intros D.
    revert Hc. induction args as [|[x|x] args IHa]; intros Hc; constructor;
      cbn [map arg_expr] in IH; apply Forall_cons_iff in IH; destruct IH as [Hx IH].
    + apply Hx, Hc.
    + apply IHa; [exact IH|apply Hc].
    + intros y _. apply Hx, Hc.
    + apply IHa; [exact IH|apply Hc].
  - apply ss_let. apply Forall_cons_iff in IH. destruct IH as [Hb IH]. destruct Hc as [Hc Hcb]. split.
    + revert Hc. induction bs as [|[k x] bs IHb]; intros Hc; constructor;
        cbn [map] in IH; apply Forall_cons_iff in IH; destruct IH as [Hx IH].
      * apply Hx, Hc.
      * apply IHb; [exact IH|apply Hc].
    + intros fr _. apply Hb, Hcb.
Qed.

Corollary norm_invisible_closed : forall e, wfr e -> closed_slices e -> forall root cur vars,
  ref_eval root (norm e) cur vars = ref_eval root e cur vars.
Proof. intros e Hw Hc root cur vars. apply norm_invisible; [assumption|apply closed_slices_short, Hc]. Qed.

(* ================================================================== *)
(* 17b. Shape of the parser's output                                   *)
(* ================================================================== *)

(* the hypotheses of EvalRefines.eval_refines_slice1, as one predicate *)
Definition Q (n : node) : Prop := wf_node n = true /\ no_step_slice n = true /\ no_zip n = true.
Definition Qo (o : option node) : Prop := match o with Some n => Q n | None => True end.
Definition Qg (g : gstate) : Prop := match g with Plain o => Qo o | Group a t => Qo a /\ Q t end.

(* expressions without stepped slices and without zip *)
Definition step1 (k : projkind) : Prop := match k with PSlice _ _ c => pslice_step c = 1 | _ => True end.
Fixpoint plain_r (e : rexpr) {struct e} : Prop :=
  match e with
  | RSub l r | RPipe l r | ROr l r | RAnd l r | RCmp _ l r | RArith _ l r => plain_r l /\ plain_r r
  | RIndex l _ => plain_r l
  | RProj k l r =>
    step1 k /\ match k with PFilter c => plain_r c | _ => True end /\ plain_r l /\ plain_r r
  | RMultiList es =>
    (fix all (l : list rexpr) : Prop := match l with [] => True | x :: r => plain_r x /\ all r end) es
  | RMultiHash kes =>
    (fix all (l : list (bytes * rexpr)) : Prop :=
       match l with [] => True | (_, x) :: r => plain_r x /\ all r end) kes
  | RNot x | RNeg x | RPos x => plain_r x
  | RCall f args =>
    beqb f [122; 105; 112] = false /\
    (fix all (l : list rarg) : Prop :=
       match l with
       | [] => True
       | AExpr x :: r => plain_r x /\ all r
       | ARef x :: r => plain_r x /\ all r
       end) args
  | RLet bs body =>
    (fix all (l : list (bytes * rexpr)) : Prop :=
       match l with [] => True | (_, x) :: r => plain_r x /\ all r end) bs /\ plain_r body
  | _ => True
  end.

Lemma plain_mlist es : plain_r (RMultiList es) <-> Forall plain_r es.
Proof. cbn [plain_r]. induction es as [|x es IH]; [split; constructor|]. rewrite Forall_cons_iff, <- IH. reflexivity. Qed.
Lemma plain_mhash kes : plain_r (RMultiHash kes) <-> Forall (fun kx => plain_r (snd kx)) kes.
Proof. cbn [plain_r]. induction kes as [|[k x] kes IH]; [split; constructor|]. rewrite Forall_cons_iff, <- IH. reflexivity. Qed.
Lemma plain_call f args : plain_r (RCall f args) <->
  beqb f [122; 105; 112] = false /\ Forall (fun a => plain_r (arg_expr a)) args.
Proof.
  cbn [plain_r]. apply and_iff_compat_l.
  induction args as [|[x|x] args IH]; [split; constructor| |]; rewrite Forall_cons_iff, <- IH; reflexivity.
Qed.
Lemma plain_let bs body : plain_r (RLet bs body) <-> Forall (fun kx => plain_r (snd kx)) bs /\ plain_r body.
Proof.
  cbn [plain_r]. apply and_iff_compat_r.
  induction bs as [|[k x] bs IH]; [split; constructor|]. rewrite Forall_cons_iff, <- IH. reflexivity.
Qed.

Ltac Qsplit :=
  repeat match goal with
  | H : Q _ |- _ => destruct H as (? & ? & ?)
  | H : Qo (Some _) |- _ => cbn [Qo] in H
  | H : _ /\ _ |- _ => destruct H
  end.
Ltac Qsolve :=
  solve [unfold Q; repeat split; cbn [wf_node no_step_slice no_zip];
         repeat match goal with H : _ = true |- _ => rewrite H end; cbn [andb]; reflexivity].

Lemma Q_close_opt g : Qg g -> Qo (close_opt g).
Proof. destruct g as [o|[a|] t]; cbn [Qg close_opt Qo]; intros H; Qsplit; try assumption; Qsolve. Qed.
Lemma Q_or_current o : Qo o -> Q (or_current o).
Proof. destruct o; cbn; [auto|]. intros _. Qsolve. Qed.
Lemma Q_close g : Qg g -> Q (close g).
Proof. intros H. apply Q_or_current, Q_close_opt, H. Qed.

Lemma Qg_lift13 f g : (forall o, ns_o o -> Qo o -> Q (f o)) -> ns_g g -> Qg g -> Qg (lift13 f g).
Proof.
  intros H Hn Hg. destruct g as [o|a t]; cbn [lift13 Qg Qo ns_g] in *; [apply H; assumption|].
  destruct Hg as [Ha Ht]. split; [assumption|]. apply (H (Some t)); assumption.
Qed.
Lemma Qg_lower f g : (forall o, ns_o o -> Qo o -> Q (f o)) -> ns_g g -> Qg g -> Qg (lower f g).
Proof. intros H Hn Hg. cbn [lower Qg Qo]. apply H; [apply ns_close_opt, Hn|apply Q_close_opt, Hg]. Qed.

Lemma Q_index i o : Qo o -> Q (mk_index o i).
Proof. destruct o; cbn [mk_index Qo]; intros H; Qsplit; [Qsolve|]. destruct (_ && _); Qsolve. Qed.

Lemma Q_star rhs o : Qo rhs -> ns_o o -> Qo o -> Q (mk_star rhs o).
Proof.
  intros Hr Hn Ho. destruct o as [n|], rhs as [x|]; cbn [mk_star Qo ns_o] in *; Qsplit; try Qsolve.
  unfold Q. rewrite wf_project_array_noslice by assumption. cbn [no_step_slice no_zip].
  repeat match goal with H : _ = true |- _ => rewrite H end. repeat split; reflexivity.
Qed.
Lemma Q_values rhs o : Qo rhs -> Qo o -> Q (mk_values rhs o).
Proof. intros Hr Ho. destruct o, rhs; cbn [mk_values Qo] in *; Qsplit; Qsolve. Qed.
Lemma Q_flatten rhs o : Qo rhs -> Qo o -> Q (mk_flatten rhs o).
Proof. intros Hr Ho. destruct o, rhs; cbn [mk_flatten Qo] in *; Qsplit; Qsolve. Qed.
Lemma Q_filter c rhs o : Q c -> Qo rhs -> Qo o -> Q (mk_filter c rhs o).
Proof. intros Hc Hr Ho. destruct o, rhs; cbn [mk_filter Qo] in *; Qsplit; Qsolve. Qed.

Lemma in_int_start a c : opt_in_int a -> in_int (pslice_start a c) = true.
Proof. destruct a; cbn; [auto|]. intros _. destruct (_ <? 0); reflexivity. Qed.
Lemma in_int_stop b c : opt_in_int b -> in_int (pslice_stop b c) = true.
Proof. destruct b; cbn; [auto|]. intros _. destruct (_ <? 0); reflexivity. Qed.

Lemma Q_slicep a b c rhs o : slice_ok (PSlice a b c) -> pslice_step c = 1 -> Qo rhs -> Qo o ->
  Q (mk_slicep a b c rhs o).
Proof.
  intros (Ha & Hb & _ & _) Hs Hr Ho. unfold mk_slicep, mk_slice. rewrite Hs. cbn [Z.eqb Pos.eqb].
  pose proof (in_int_start a c Ha) as H1. pose proof (in_int_stop b c Hb) as H2.
  pose proof (Q_or_current rhs Hr) as Hq.
  destruct o; cbn [Qo] in *; Qsplit; Qsolve.
Qed.

Lemma forallb_map_true {A} (p : A -> bool) l : Forall (fun x => p x = true) l -> forallb p l = true.
Proof. induction 1; cbn [forallb]; [reflexivity|]. rewrite H, IHForall. reflexivity. Qed.

Lemma Q_list ns : Forall Q ns ->
  forallb wf_node ns = true /\ forallb no_step_slice ns = true /\ forallb no_zip ns = true.
Proof.
  intros H. repeat split; apply forallb_map_true; eapply Forall_impl; [|exact H|  |exact H| |exact H];
    intros a (? & ? & ?); assumption.
Qed.
Lemma Q_klist (kfs : list (bytes * node)) : Forall (fun kv => Q (snd kv)) kfs ->
  forallb (fun kv => wf_node (snd kv)) kfs = true /\ forallb (fun kv => no_step_slice (snd kv)) kfs = true /\
  forallb (fun kv => no_zip (snd kv)) kfs = true.
Proof.
  intros H. repeat split; apply forallb_map_true; eapply Forall_impl; [|exact H|  |exact H| |exact H];
    intros a (? & ? & ?); assumption.
Qed.

Lemma Q_mlist child fs : Qo child -> Forall Q fs -> fs <> [] -> Q (mk_mlist child fs).
Proof.
  intros Hc Hf Hne. destruct fs as [|f1 [|f2 fs]]; [congruence| |].
  - apply Forall_cons_iff in Hf. destruct Hf as [H1 _]. destruct child; cbn [mk_mlist Qo] in *; Qsplit; Qsolve.
  - destruct (Q_list _ Hf) as (L1 & L2 & L3).
    assert (Hlen : (2 <=? Z.of_nat (length (f1 :: f2 :: fs))) = true) by (apply Z.leb_le; cbn [length]; lia).
    destruct child; cbn [mk_mlist Qo] in *; Qsplit; Qsolve.
Qed.

Lemma Q_mhash child kfs : Qo child -> Forall (fun kv => Q (snd kv)) kfs -> kfs <> [] -> nodup_keys kfs = true ->
  Q (mk_mhash child kfs).
Proof.
  intros Hc Hf Hne Hd. destruct kfs as [|[k1 f1] [|kf2 kfs]]; [congruence| |].
  - apply Forall_cons_iff in Hf. destruct Hf as [H1 _]. cbn [snd] in H1.
    destruct child; cbn [mk_mhash Qo] in *; Qsplit; Qsolve.
  - destruct (Q_klist _ Hf) as (L1 & L2 & L3).
    assert (Hlen : (2 <=? Z.of_nat (length ((k1, f1) :: kf2 :: kfs))) = true) by (apply Z.leb_le; cbn [length]; lia).
    destruct child; cbn [mk_mhash Qo] in *; Qsplit; Qsolve.
Qed.

Lemma Q_build f ap fb fl ns n : assoc f function_table = Some (ap, fb) -> beqb f [122; 105; 112] = false ->
  shape_ok ap fl = true -> length ns = length fl -> Forall Q ns -> build fb ns = Some n -> Q n.
Proof.
  intros Ef Hz Hs Hl Hq Hb. pose proof (table_compat _ _ _ Ef) as Hc. pose proof (table_names _ _ _ Ef) as Hn.
  unfold entry_names_ok in Hn. cbn [fst snd] in Hn.
  destruct ap, fb; try discriminate Hc.
  9:{ cbn [build] in Hb. inversion Hb; subst n. destruct (Q_list _ Hq) as (L1 & L2 & L3).
      assert (Hne : negb (match ns with [] => true | _ => false end) = true).
      { destruct ns; [|reflexivity]. destruct fl; [discriminate Hs|discriminate Hl]. }
      destruct f0; [Qsolve|Qsolve|].
      apply beqb_eq in Hn. subst f. discriminate Hz. }
  all: destruct fl as [|[|] [|[|] [|[|] [|[|] [|? ?]]]]]; try discriminate Hs;
    destruct ns as [|n1 [|n2 [|n3 [|n4 [|? ?]]]]]; try discriminate Hl;
    cbn [build] in Hb; inversion Hb; subst n;
    repeat match goal with H : Forall _ (_ :: _) |- _ => apply Forall_cons_iff in H; destruct H as [? H] end;
    Qsplit; Qsolve.
Qed.

Lemma Q_lit v : Q (mk_lit v).
Proof. unfold mk_lit, node_of_value. destruct v as [|b|s|[t|?|? ?|? ?]|l|m|t]; Qsolve. Qed.

Definition QG (e : rexpr) : Prop :=
  (wfr e -> plain_r e -> Qg (cxb e)) /\ (forall sp, rhs_ok sp e -> plain_r e -> Qg (rcx e)).

Lemma QG_compile e : QG e -> wfr e -> plain_r e -> Q (compile_r e).
Proof. intros [H _] Hw Hp. apply Q_close, H; assumption. Qed.

Lemma Qg_cxq q e : QG e -> wfr e -> plain_r e -> Qg (cxq q e).
Proof.
  intros H Hw Hp. unfold cxq. destruct (_ <? q); [cbn [Qg Qo]; apply QG_compile; assumption|apply H; assumption].
Qed.

Lemma Qg_sub g r : ns_g g -> Qg g -> QG r -> wfr r -> plain_r r -> sub_shape r = true ->
  Qg (sfx_sub g r (fs_of r) (kfs_of r) (compile_r r)).
Proof.
  intros Hn Hg Hr Hw Hp Hsh. pose proof (QG_compile r Hr Hw Hp) as Hq.
  destruct r; try discriminate Hsh; cbn [sfx_sub Qg].
  - split; [apply Q_close_opt, Hg|exact Hq].
  - unfold compile_r in Hq. cbn [cxb close close_opt or_current] in Hq. rewrite go_nodes in Hq.
    cbn [Qo fs_of].
    pose proof (proj1 (wfr_mlist es) Hw) as [Hne _].
    assert (Hall : Forall Q (map compile_r es)).
    { destruct es as [|x1 [|x2 es]]; [congruence| |].
      - cbn [map mk_mlist] in Hq. constructor; [|constructor]. destruct Hq as (W & S & Z). cbn in W, S, Z. repeat split; assumption.
      - cbn [map mk_mlist] in Hq. destruct Hq as (W & S & Z). cbn [wf_node no_step_slice no_zip] in W, S, Z.
        apply andb_prop in W. destruct W as [W _].
        rewrite forallb_forall in W, S, Z. apply Forall_forall. intros n Hn'. repeat split; auto. }
    apply Q_mlist; [cbn [Qo]; apply Q_close, Hg|exact Hall|]. destruct es; [congruence|discriminate].
  - unfold compile_r in Hq. cbn [cxb close close_opt or_current] in Hq. rewrite go_knodes in Hq.
    cbn [Qo kfs_of].
    pose proof (proj1 (wfr_mhash kes) Hw) as (Hne & Hd & _).
    assert (Hnd : nodup_keys (hkv (hitems kes)) = true) by (rewrite hkv_hitems, nodup_keys_map'; exact Hd).
    assert (Hall : Forall (fun kv => Q (snd kv)) (hkv (hitems kes))).
    { destruct kes as [|[k1 x1] [|kx2 kes]]; [congruence| |].
      - cbn [hitems hkv map mk_mhash hkey fst snd] in Hq |- *. constructor; [|constructor]. cbn [snd].
        destruct Hq as (W & S & Z). cbn in W, S, Z. repeat split; assumption.
      - remember (hkv (hitems ((k1, x1) :: kx2 :: kes))) as L eqn:EL.
        assert (HL : exists a b c, L = a :: b :: c).
        { subst L. destruct kx2. cbn [hitems hkv map]. eauto. }
        destruct HL as (a & b & c & ->). destruct a as [ka fa].
        cbn [mk_mhash] in Hq. destruct Hq as (W & S & Z). cbn [wf_node no_step_slice no_zip] in W, S, Z.
        apply andb_prop in W. destruct W as [W _]. apply andb_prop in W. destruct W as [W _].
        rewrite forallb_forall in W, S, Z. apply Forall_forall. intros n Hn'. repeat split; auto. }
    apply Q_mhash; [cbn [Qo]; apply Q_close, Hg|exact Hall| |exact Hnd].
    destruct kes; [congruence|discriminate].
  - split; [apply Q_close_opt, Hg|exact Hq].
Qed.

Lemma Qg_proj k g r : ns_g g -> Qg g -> slice_ok k -> step1 k ->
  match k with PFilter c => Q (compile_r c) | _ => True end -> Qg (rcx r) ->
  Qg (sfx_proj k (kcond k) (close_opt (rcx r)) g).
Proof.
  intros Hn Hg Hsl Hst Hc Hr. pose proof (Q_close_opt _ Hr) as Hrhs.
  destruct k as [|a b c| |cond|]; cbn [sfx_proj kcond step1] in *.
  - apply Qg_lift13; auto. intros o Ho Hq. apply Q_star; assumption.
  - apply Qg_lift13; auto. intros o Ho Hq. apply Q_slicep; assumption.
  - apply Qg_lower; auto. intros o Ho Hq. apply Q_flatten; assumption.
  - apply Qg_lower; auto. intros o Ho Hq. apply Q_filter; assumption.
  - apply Qg_lower; auto. intros o Ho Hq. apply Q_values; assumption.
Qed.

Theorem QG_main : forall e, QG e.
Proof.
  induction e as [e IH] using rexpr_children_ind.
  destruct e; cbn [rchildren] in IH.
  - split; intros; cbn; [Qsolve|exact I].
  - split; [intros; cbn; Qsolve|intros sp []].
  - split; [intros; cbn; Qsolve|intros sp []].
  - split; [intros; cbn [cxb Qg Qo]; apply Q_lit|intros sp []].
  - split; [intros; cbn; Qsolve|intros sp []].
  - split; [intros; cbn; Qsolve|intros sp []].
  - inv_forall. rename H into G1, H0 into G2. clear IH. split.
    + intros (Hw1 & Hsh & Hw2) [Hp1 Hp2]. rewrite cxb_sub.
      apply Qg_sub; auto using ns_cxq, Qg_cxq.
    + intros sp (Hl & Ht & Hsh & Hwx) [Hp1 Hp2]. rewrite rcx_sub.
      apply Qg_sub; auto; [apply ns_all|apply (proj2 G1 sp); assumption].
  - inv_forall. rename H into G1. clear IH. split.
    + intros (Hw1 & Hnn & Hi) Hp. cbn [plain_r] in Hp.
      change (cxb (RIndex e i)) with (lift13 (fun o => mk_index o i) (cxq L_POST e)).
      apply Qg_lift13; auto using ns_cxq, Qg_cxq. intros o _ Ho. apply Q_index, Ho.
    + intros sp (Hl & Ht & Hi) Hp. cbn [plain_r] in Hp.
      change (rcx (RIndex e i)) with (lift13 (fun o => mk_index o i) (rcx e)).
      apply Qg_lift13; [|apply ns_all|apply (proj2 G1 sp); assumption]. intros o _ Ho. apply Q_index, Ho.
  - assert (HT : match k with PFilter c => QG c | _ => True end /\ QG e1 /\ QG e2).
    { destruct k; inv_forall; auto. }
    clear IH. destruct HT as (Gk & G1 & G2).
    assert (Hkc : match k with PFilter c => wfr c | _ => True end ->
                  match k with PFilter c => plain_r c | _ => True end ->
                  match k with PFilter c => Q (compile_r c) | _ => True end).
    { destruct k; auto. intros. apply QG_compile; assumption. }
    split.
    + intros (Hw1 & Hnn & Hsl & Hwc & Hok) (Hst & Hpc & Hp1 & Hp2).
      destruct (is_current_dec e1) as [->|Hne].
      * rewrite cxb_proj_cur.
        apply Qg_proj; [exact I|exact I|assumption|assumption|apply Hkc; assumption
                       |apply (proj2 G2 (stop_k k)); assumption].
      * rewrite cxb_proj_ncur by assumption.
        apply Qg_proj; [apply ns_cxq|apply Qg_cxq; assumption|assumption|assumption|apply Hkc; assumption
                       |apply (proj2 G2 (stop_k k)); assumption].
    + intros sp (Hl & Ht & Hsl & Hwc & Hokx) (Hst & Hpc & Hp1 & Hp2). rewrite rcx_proj.
      apply Qg_proj; [apply ns_all|apply (proj2 G1 sp); assumption|assumption|assumption|apply Hkc; assumption
                     |apply (proj2 G2 (stop_k k)); assumption].
  - split; [|intros sp []]. intros Hw Hp. pose proof (proj1 (wfr_mlist es) Hw) as [Hne Hwf].
    apply plain_mlist in Hp. cbn [cxb Qg Qo]. rewrite go_nodes.
    apply Q_mlist; [exact I| |destruct es; [congruence|discriminate]].
    apply Forall_map. rewrite Forall_forall in *. intros x Hx. apply QG_compile; auto.
  - split; [|intros sp []]. intros Hw Hp. pose proof (proj1 (wfr_mhash kes) Hw) as (Hne & Hd & Hwf).
    apply plain_mhash in Hp. apply -> Forall_map in IH. cbn [cxb Qg Qo]. rewrite go_knodes.
    apply Q_mhash; [exact I| |destruct kes; [congruence|discriminate]|rewrite hkv_hitems, nodup_keys_map'; exact Hd].
    rewrite hkv_hitems. apply Forall_map. cbn [snd]. rewrite Forall_forall in *. intros x Hx.
    apply QG_compile; auto. apply (Hwf x Hx).
  - inv_forall. split; [|intros sp []]. intros [Hw1 Hw2] [Hp1 Hp2]. cbn [cxb Qg Qo].
    pose proof (QG_compile e1 H Hw1 Hp1). pose proof (QG_compile e2 H0 Hw2 Hp2). unfold compile_r in *. Qsplit. Qsolve.
  - inv_forall. split; [|intros sp []]. intros [Hw1 Hw2] [Hp1 Hp2]. cbn [cxb Qg Qo].
    pose proof (QG_compile e1 H Hw1 Hp1). pose proof (QG_compile e2 H0 Hw2 Hp2). unfold compile_r in *. Qsplit. Qsolve.
  - inv_forall. split; [|intros sp []]. intros [Hw1 Hw2] [Hp1 Hp2]. cbn [cxb Qg Qo].
    pose proof (QG_compile e1 H Hw1 Hp1). pose proof (QG_compile e2 H0 Hw2 Hp2). unfold compile_r in *. Qsplit. Qsolve.
  - inv_forall. split; [|intros sp []]. intros Hw Hp. cbn [wfr plain_r cxb Qg Qo] in *.
    pose proof (QG_compile e H Hw Hp). unfold compile_r in *. Qsplit. Qsolve.
  - inv_forall. split; [|intros sp []]. intros [Hw1 Hw2] [Hp1 Hp2]. cbn [cxb Qg Qo].
    pose proof (QG_compile e1 H Hw1 Hp1). pose proof (QG_compile e2 H0 Hw2 Hp2). unfold compile_r, mk_cmp in *. Qsplit. Qsolve.
  - inv_forall. split; [|intros sp []]. intros [Hw1 Hw2] [Hp1 Hp2]. cbn [cxb Qg Qo].
    pose proof (QG_compile e1 H Hw1 Hp1). pose proof (QG_compile e2 H0 Hw2 Hp2). unfold compile_r, mk_ar in *. Qsplit. Qsolve.
  - inv_forall. split; [|intros sp []]. intros Hw Hp. cbn [wfr plain_r cxb Qg Qo] in *.
    pose proof (QG_compile e H Hw Hp). unfold compile_r in *. Qsplit. Qsolve.
  - inv_forall. split; [|intros sp []]. intros Hw Hp. cbn [wfr plain_r cxb Qg Qo] in *.
    pose proof (QG_compile e H Hw Hp). unfold compile_r in *. Qsplit. Qsolve.
  - split; [|intros sp []]. intros Hw Hp. apply wfr_call in Hw. destruct Hw as [Hc Hw].
    apply plain_call in Hp. destruct Hp as [Hz Hp]. apply -> Forall_map in IH.
    cbn [cxb Qg Qo]. rewrite go_anodes. unfold call_ok in Hc. unfold mk_call.
    destruct (assoc f function_table) as [[ap fb]|] eqn:Ef; [|discriminate].
    assert (Hall : Forall Q (map (fun a => compile_r (arg_expr a)) args)).
    { apply Forall_map. rewrite Forall_forall in *. intros a Ha. apply QG_compile; auto. }
    destruct (build fb (map (fun a => compile_r (arg_expr a)) args)) as [n|] eqn:Eb; [|Qsolve].
    eapply (Q_build f ap fb (map is_ref args)); eauto. rewrite !map_length. reflexivity.
  - inv_forall. rename H into Gb. apply -> Forall_map in IH.
    split; [|intros sp []]. intros Hw Hp. apply wfr_let in Hw. destruct Hw as (Hne & Hd & Hw & Hwb).
    apply plain_let in Hp. destruct Hp as [Hp Hpb].
    cbn [cxb Qg Qo]. rewrite go_knodes.
    assert (Hall : Forall (fun kv => Q (snd kv)) (hkv (hitems bs))).
    { rewrite hkv_hitems. apply Forall_map. cbn [snd]. rewrite Forall_forall in *. intros x Hx.
      apply QG_compile; auto. apply (Hw x Hx). }
    destruct (Q_klist _ Hall) as (L1 & L2 & L3).
    assert (Hnd : nodup_keys (hkv (hitems bs)) = true) by (rewrite hkv_hitems, nodup_keys_map'; exact Hd).
    pose proof (QG_compile e Gb Hwb Hpb) as Hq. unfold compile_r in Hq. Qsplit. Qsolve.
Qed.

Theorem compile_good : forall e, wfr e -> plain_r e ->
  wf_node (compile_r e) = true /\ no_step_slice (compile_r e) = true /\ no_zip (compile_r e) = true.
Proof. intros e Hw Hp. apply (QG_compile e (QG_main e) Hw Hp). Qed.

(* ================================================================== *)
(* 18. The canonical text means what the specification says            *)
(* ================================================================== *)

(* What the implementation computes on the canonical text of e is the reference
   semantics of e.  The hypotheses on the parsed node are those of
   EvalRefines.eval_refines_slice1 (the model evaluator agrees with the reference
   on every node except stepped slices and zip, which have their own theorems). *)
Theorem canonical_text_means_spec : forall e, wfr e ->
  lex_all (unparse e) = map ITok (toks_of 0 e) ++ [ITok (Tok TEnd [])] ->
  exists n, parse (unparse e) = Ok n /\ unfuse n = norm e /\
    forall root cur vars,
      slices_short root e cur vars ->
      wf_node n = true -> no_step_slice n = true -> no_zip n = true ->
      eval root n cur vars = ref_eval root e cur vars.
Proof.
  intros e Hw Hlex. exists (compile_r e). split; [apply parse_unparse_node; assumption|]. split; [reflexivity|].
  intros root cur vars Hs H1 H2 H3.
  rewrite (eval_refines_slice1 root (compile_r e) cur vars H1 H2 H3).
  apply norm_invisible; assumption.
Qed.

(* the same with the hypotheses on the node discharged: no stepped slice, no zip *)
Theorem canonical_text_means_spec_plain : forall e, wfr e -> plain_r e ->
  lex_all (unparse e) = map ITok (toks_of 0 e) ++ [ITok (Tok TEnd [])] ->
  exists n, parse (unparse e) = Ok n /\
    forall root cur vars, slices_short root e cur vars -> eval root n cur vars = ref_eval root e cur vars.
Proof.
  intros e Hw Hp Hlex. destruct (canonical_text_means_spec e Hw Hlex) as (n & Hn & Hu & H).
  exists n. split; [exact Hn|]. intros root cur vars Hs.
  assert (En : n = compile_r e).
  { pose proof (parse_unparse_node e Hw Hlex) as H'. rewrite Hn in H'. inversion H'. reflexivity. }
  destruct (compile_good e Hw Hp) as (H1 & H2 & H3). subst n. apply H; assumption.
Qed.

From JM Require Model.Api.

(* at the level of the public API: Search on the canonical text of e *)
Corollary search_canonical_text : forall e, wfr e -> plain_r e ->
  lex_all (unparse e) = map ITok (toks_of 0 e) ++ [ITok (Tok TEnd [])] ->
  forall doc, slices_short doc e doc [] ->
    Api.search (unparse e) doc = Api.lift_eval (ref_search e doc).
Proof.
  intros e Hw Hp Hlex doc Hs. destruct (canonical_text_means_spec_plain e Hw Hp Hlex) as (n & Hn & H).
  unfold Api.search. rewrite Hn. cbn [Api.lift_parse]. unfold Api.expression_search, evaluate, ref_search.
  rewrite H by assumption. reflexivity.
Qed.

(* slices with both bounds, no step, no zip: no condition on the document *)
Corollary search_canonical_text_closed : forall e, wfr e -> plain_r e -> closed_slices e ->
  lex_all (unparse e) = map ITok (toks_of 0 e) ++ [ITok (Tok TEnd [])] ->
  forall doc, Api.search (unparse e) doc = Api.lift_eval (ref_search e doc).
Proof.
  intros e Hw Hp Hc Hlex doc. apply search_canonical_text; try assumption. apply closed_slices_short, Hc.
Qed.

(* every validation sample of section 1 is well-formed: the main theorem covers them *)
Example samples_wfr :
  Forall wfr [Samples.e1; Samples.e2; Samples.e3; Samples.e4; Samples.e5; Samples.e6; Samples.e7; Samples.e8;
              Samples.e9; Samples.e10; Samples.e11; Samples.e12; Samples.e13; Samples.e14; Samples.e15;
              Samples.e16; Samples.e17; Samples.e18; Samples.e19; Samples.e20; Samples.e21].
Proof. repeat constructor; cbn; repeat split; try reflexivity; try discriminate; try lia. Qed.

(* ---- the theorems at work on concrete expressions ---- *)
Module Demo.
  (* let $x = a[*][?@.b < `1`][?!@].c[-1] ... : every kind of selector, a stepped slice, a call with an
     expression reference *)
  Example rich_parses : parse (unparse rich) = Ok (compile_r rich) /\ unfuse (compile_r rich) = norm rich.
  Proof. split; [apply parse_unparse_node; [exact wfr_rich|vm_compute; reflexivity]|reflexivity]. Qed.

  (* people[?age > `20`].name | sort_by(@, &@)[0:2] *)
  Definition q : rexpr :=
    RPipe (RProj (PFilter (RCmp CGt (RField [97;103;101]) (RLiteral (VNum (NJson [50;48])))))
                 (RField [112;101;111;112;108;101]) (RSub RCurrent (RField [110;97;109;101])))
          (RProj (PSlice (Some 0) (Some 2) None)
                 (RCall [115;111;114;116;95;98;121] [AExpr RCurrent; ARef RCurrent]) RCurrent).
  Example q_text : unparse q =
    [112;101;111;112;108;101;91;63;97;103;101;32;62;32;96;50;48;96;93;46;110;97;109;101;32;124;32;
     115;111;114;116;95;98;121;40;64;44;32;38;64;41;91;48;58;50;93].
  Proof. vm_compute. reflexivity. Qed.
  Example q_search : forall doc, Api.search (unparse q) doc = Api.lift_eval (ref_search q doc).
  Proof.
    apply search_canonical_text_closed.
    - cbn. repeat split; try reflexivity; try discriminate; try lia.
    - cbn. repeat split; reflexivity.
    - cbn. repeat split; reflexivity.
    - vm_compute. reflexivity.
  Qed.
End Demo.

Print Assumptions parse_unparse_toks.
Print Assumptions parse_unparse.
Print Assumptions norm_invisible.
Print Assumptions norm_invisible_closed.
Print Assumptions compile_good.
Print Assumptions canonical_text_means_spec.
Print Assumptions canonical_text_means_spec_plain.
Print Assumptions search_canonical_text.
