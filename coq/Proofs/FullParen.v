(* C10 for the whole reference language: writing the implied parentheses
   explicitly never changes the parse.

   paren_variant e ts     ts is the canonical token rendering of e (ParseUnparse.toks_of) with any
                          number of REDUNDANT pairs of parentheses added, at the positions listed below
   toks_sel sel e         the rendering in which sub-expression x is wrapped in (at least) sel x pairs
                          wherever that is allowed; toks_of is the instance sel = 0 (toks_sel_zero),
   toks_full e            the instance in which every operator application ( | || && comparison
                          arithmetic ! unary-sign ) and every let is wrapped exactly once
   paren_variant_same     every paren_variant of a well-formed e parses to compile_r e, the node of the
                          minimal rendering (ParseUnparse.parse_unparse_toks)
   full_paren_same_all    the same for toks_full; toks_sel_same for every toks_sel
   toks_of_variant, toks_full_variant, toks_sel_variant
                          the three renderings are paren variants
   full_paren_same_outcome, full_paren_means_spec, variant_text_parses, variant_text_same_search,
   variant_text_means_spec
                          evaluating the parse of a variant gives, for every document, the outcome of
                          the minimal rendering, which is the reference semantics of e
   tighter_binds_first_all, left_assoc_all, parens_override_all, unary_tighter_all
                          grouping of  A op B op' C,  ( A op B ) op' C,  ! A op B,  - A op B  for
                          arbitrary well-formed operands A B C and all 15 binary operators
   minimal_parens_left, minimal_parens_right
                          where the minimal rendering places parentheses on a tie of levels

   Positions.  A sub-expression x of e sits in one of three kinds of position:
     operand     operands of binary operators, of ! and of unary sign, elements of a multi-select
                 list, values of a multi-select hash, function arguments (plain or after &), bindings
                 and body of a let, the condition of a filter, the whole expression:
                 ANY x may be wrapped any number of times;
     chain head  x is the left part of  x.y  x[i]  x[*]  x[a:b:c]  x[]  x[?c]  x.* :
                 x may be wrapped when it is not itself a selector chain or projection (atoms,
                 operator applications, let, !y), and also a chain x = l.y / l[i] may be wrapped in
                 front of  .y  []  [?c]  .*  (these apply to the closed node anyway);
                 a chain in front of [i] [*] [a:b:c] may NOT: (a.b)[0] is NIndex (NPipe a b) 0 while
                 a.b[0] is NPipe a (NIndex b 0)  (Example chain_paren_changes_node);
     after a dot the y of x.y, and everything inside the right-hand side of a projection except
                 filter conditions: never wrapped ( a.(b) is a syntax error, and parentheses around a
                 projection end it).
   Where the minimal rendering needs a pair, any larger number of pairs is allowed too. *)
From Coq Require Import List ZArith Bool Lia.
From JM Require Import Base.Outcome Base.Bytes Base.GoInt Base.Utf8 Num.Dec Json.Value Json.JsonText
  Json.JsonPrint Model.Token Model.Lexer Model.Ast Model.Literals Model.Parser
  Spec.SpecSlice Spec.RefAst Spec.RefEval Proofs.PrattOperators Spec.Unparse Spec.Unfuse
  Proofs.LiteralRoundTrip Proofs.ParseUnparse.
Import ListNotations.
Open Scope Z_scope.

(* ================================================================== *)
(* 1. Renderings with redundant parentheses                            *)
(* ================================================================== *)

Fixpoint wrapn (n : nat) (ts : list token) : list token :=
  match n with O => ts | S k => wrapt (wrapn k ts) end.

(* not a selector chain, not a projection *)
Definition is_closed (e : rexpr) : bool :=
  match e with RSub _ _ | RIndex _ _ | RProj _ _ _ => false | _ => true end.
(* the selectors that apply to the closed left node *)
Definition lowers (k : projkind) : bool :=
  match k with PList | PSlice _ _ _ => false | _ => true end.

(* [ts] is [body] in [n] pairs of parentheses; [need]: the minimal rendering has a pair here;
   [allow]: redundant pairs are allowed here *)
Definition PVg (P : list token -> Prop) (allow need : bool) (ts : list token) : Prop :=
  exists n body, ts = wrapn n body /\ P body /\
    (need = true -> n <> O) /\ (need = false -> n <> O -> allow = true).

Definition hparts (kes : list (bytes * rexpr)) (tss : list (list token)) : list (list token) :=
  map (fun kt : (bytes * rexpr) * list token => ident_tok (fst (fst kt)) :: pk TColon :: snd kt) (combine kes tss).
Definition lparts (bs : list (bytes * rexpr)) (tss : list (list token)) : list (list token) :=
  map (fun kt : (bytes * rexpr) * list token => Tok TVariable (fst (fst kt)) :: pk TAssign :: snd kt) (combine bs tss).
Definition aparts (args : list rarg) (tss : list (list token)) : list (list token) :=
  map (fun at_ : rarg * list token => (if is_ref (fst at_) then [pk TExpression] else []) ++ snd at_) (combine args tss).

(* [pvb e ts]: ts renders e, without parentheses around the whole of e;
   [pvr r ts]: ts renders the right-hand side r of a projection *)
Fixpoint pvb (e : rexpr) (ts : list token) {struct e} : Prop :=
  match e with
  | RCurrent => ts = [pk TCurrent]
  | RRoot => ts = [pk TRoot]
  | RField name => ts = [ident_tok name]
  | RLiteral v => ts = [lit_tok v]
  | RRaw s => ts = [raw_tok s]
  | RVar name => ts = [Tok TVariable name]
  | RSub l r => exists tl tr, ts = tl ++ pk TDot :: tr /\
      PVg (pvb l) true (level l <? L_POST) tl /\ PVg (pvb r) false (level r <? L_POST) tr
  | RIndex l i => exists tl, ts = tl ++ [pk TOpenSqBrace; int_tok i; pk TCloseSqBrace] /\
      PVg (pvb l) (is_closed l) (level l <? L_POST) tl
  | RProj k l r => exists tl tk tr, ts = tl ++ tk ++ tr /\
      match l with
      | RCurrent => tl = []
      | _ => PVg (pvb l) (is_closed l || lowers k) (level l <? lq k) tl
      end /\
      match k with
      | PFilter cond => exists tc, tk = pk TFilter :: tc ++ [pk TCloseSqBrace] /\
                                   PVg (pvb cond) true (level cond <? L_PIPE) tc
      | PValues => tk = match l with RCurrent => [pk TAsterisk] | _ => [pk TObjectWildcard] end
      | _ => tk = ktoks k
      end /\
      pvr r tr
  | RMultiList es => exists tss, ts = pk TOpenSqBrace :: sepby (pk TComma) tss ++ [pk TCloseSqBrace] /\
      (fix all (l : list rexpr) (tss : list (list token)) {struct l} : Prop :=
         match l, tss with
         | [], [] => True
         | x :: r, t :: tr => PVg (pvb x) true (level x <? L_PIPE) t /\ all r tr
         | _, _ => False
         end) es tss
  | RMultiHash kes => exists tss, ts = pk TOpenBrace :: sepby (pk TComma) (hparts kes tss) ++ [pk TCloseBrace] /\
      (fix all (l : list (bytes * rexpr)) (tss : list (list token)) {struct l} : Prop :=
         match l, tss with
         | [], [] => True
         | (_, x) :: r, t :: tr => PVg (pvb x) true (level x <? L_PIPE) t /\ all r tr
         | _, _ => False
         end) kes tss
  | RPipe l r => exists tl tr, ts = tl ++ pk TPipe :: tr /\
      PVg (pvb l) true (level l <? L_PIPE) tl /\ PVg (pvb r) true (level r <? L_OR) tr
  | ROr l r => exists tl tr, ts = tl ++ pk TOr :: tr /\
      PVg (pvb l) true (level l <? L_OR) tl /\ PVg (pvb r) true (level r <? L_AND) tr
  | RAnd l r => exists tl tr, ts = tl ++ pk TAnd :: tr /\
      PVg (pvb l) true (level l <? L_AND) tl /\ PVg (pvb r) true (level r <? L_CMP) tr
  | RNot x => exists tx, ts = pk TNot :: tx /\ PVg (pvb x) true (negb (is_atom x)) tx
  | RCmp op l r => exists tl tr, ts = tl ++ pk (cmp_ttype op) :: tr /\
      PVg (pvb l) true (level l <? L_CMP) tl /\ PVg (pvb r) true (level r <? L_ADD) tr
  | RArith op l r => exists tl tr, ts = tl ++ pk (ar_ttype op) :: tr /\
      PVg (pvb l) true (level l <? ar_level op) tl /\ PVg (pvb r) true (level r <? ar_level op + 1) tr
  | RNeg x => exists tx, ts = pk TSubtract :: tx /\ PVg (pvb x) true (level x <? L_PROJ) tx
  | RPos x => exists tx, ts = pk TAdd :: tx /\ PVg (pvb x) true (level x <? L_PROJ) tx
  | RCall f args => exists tss,
      ts = Tok TUnquotedIdentifier f :: pk TOpenParen :: sepby (pk TComma) (aparts args tss) ++ [pk TCloseParen] /\
      (fix all (l : list rarg) (tss : list (list token)) {struct l} : Prop :=
         match l, tss with
         | [], [] => True
         | a :: r, t :: tr =>
           match a with AExpr x | ARef x => PVg (pvb x) true (level x <? L_PIPE) t end /\ all r tr
         | _, _ => False
         end) args tss
  | RLet bs body => exists tss tb, ts = pk TLet :: sepby (pk TComma) (lparts bs tss) ++ pk TIn :: tb /\
      (fix all (l : list (bytes * rexpr)) (tss : list (list token)) {struct l} : Prop :=
         match l, tss with
         | [], [] => True
         | (_, x) :: r, t :: tr => PVg (pvb x) true (level x <? L_PIPE) t /\ all r tr
         | _, _ => False
         end) bs tss /\
      PVg (pvb body) true (level body <? L_PIPE) tb
  end
with pvr (r : rexpr) (ts : list token) {struct r} : Prop :=
  match r with
  | RCurrent => ts = []
  | RSub l x => exists tl tx, ts = tl ++ pk TDot :: tx /\ pvr l tl /\ PVg (pvb x) false (level x <? L_POST) tx
  | RIndex l i => exists tl, ts = tl ++ [pk TOpenSqBrace; int_tok i; pk TCloseSqBrace] /\ pvr l tl
  | RProj k l x => exists tl tk tx, ts = tl ++ tk ++ tx /\ pvr l tl /\
      match k with
      | PFilter cond => exists tc, tk = pk TFilter :: tc ++ [pk TCloseSqBrace] /\
                                   PVg (pvb cond) true (level cond <? L_PIPE) tc
      | _ => tk = ktoks k
      end /\
      pvr x tx
  | _ => ts = [pk TDot; Tok TUnknown [63]]
  end.

(* an expression in operand position of level q *)
Definition PVo (q : Z) (x : rexpr) (t : list token) : Prop := PVg (pvb x) true (level x <? q) t.

(* the whole expression *)
Definition paren_variant (e : rexpr) (ts : list token) : Prop := PVo 0 e ts.

(* ---- the rendering chosen by a function: sel x pairs around x where allowed ---- *)
Section Sel.
Variable sel : rexpr -> nat.

Definition cnt (allow need : bool) (e : rexpr) : nat :=
  Nat.max (if need then 1 else 0) (if allow || need then sel e else 0).

Fixpoint tkb (e : rexpr) {struct e} : list token :=
  match e with
  | RCurrent => [pk TCurrent]
  | RRoot => [pk TRoot]
  | RField name => [ident_tok name]
  | RLiteral v => [lit_tok v]
  | RRaw s => [raw_tok s]
  | RVar name => [Tok TVariable name]
  | RSub l r => wrapn (cnt true (level l <? L_POST) l) (tkb l) ++ pk TDot :: wrapn (cnt false (level r <? L_POST) r) (tkb r)
  | RIndex l i => wrapn (cnt (is_closed l) (level l <? L_POST) l) (tkb l) ++ [pk TOpenSqBrace; int_tok i; pk TCloseSqBrace]
  | RProj k l r =>
    let left := match l with
                | RCurrent => []
                | _ => wrapn (cnt (is_closed l || lowers k) (level l <? lq k) l) (tkb l)
                end in
    let tok := match k with
               | PFilter cond => pk TFilter :: wrapn (cnt true (level cond <? L_PIPE) cond) (tkb cond) ++ [pk TCloseSqBrace]
               | PValues => match l with RCurrent => [pk TAsterisk] | _ => [pk TObjectWildcard] end
               | _ => ktoks k
               end in
    left ++ tok ++ tkr r
  | RMultiList es =>
    let parts := (fix go (l : list rexpr) : list (list token) :=
                    match l with [] => [] | x :: r => wrapn (cnt true (level x <? L_PIPE) x) (tkb x) :: go r end) es in
    pk TOpenSqBrace :: sepby (pk TComma) parts ++ [pk TCloseSqBrace]
  | RMultiHash kes =>
    let parts := (fix go (l : list (bytes * rexpr)) : list (list token) :=
                    match l with
                    | [] => []
                    | (k, x) :: r => (ident_tok k :: pk TColon :: wrapn (cnt true (level x <? L_PIPE) x) (tkb x)) :: go r
                    end) kes in
    pk TOpenBrace :: sepby (pk TComma) parts ++ [pk TCloseBrace]
  | RPipe l r => wrapn (cnt true (level l <? L_PIPE) l) (tkb l) ++ pk TPipe :: wrapn (cnt true (level r <? L_OR) r) (tkb r)
  | ROr l r => wrapn (cnt true (level l <? L_OR) l) (tkb l) ++ pk TOr :: wrapn (cnt true (level r <? L_AND) r) (tkb r)
  | RAnd l r => wrapn (cnt true (level l <? L_AND) l) (tkb l) ++ pk TAnd :: wrapn (cnt true (level r <? L_CMP) r) (tkb r)
  | RNot x => pk TNot :: wrapn (cnt true (negb (is_atom x)) x) (tkb x)
  | RCmp op l r =>
    wrapn (cnt true (level l <? L_CMP) l) (tkb l) ++ pk (cmp_ttype op) :: wrapn (cnt true (level r <? L_ADD) r) (tkb r)
  | RArith op l r =>
    wrapn (cnt true (level l <? ar_level op) l) (tkb l) ++ pk (ar_ttype op) ::
    wrapn (cnt true (level r <? ar_level op + 1) r) (tkb r)
  | RNeg x => pk TSubtract :: wrapn (cnt true (level x <? L_PROJ) x) (tkb x)
  | RPos x => pk TAdd :: wrapn (cnt true (level x <? L_PROJ) x) (tkb x)
  | RCall f args =>
    let parts := (fix go (l : list rarg) : list (list token) :=
                    match l with
                    | [] => []
                    | AExpr x :: r => wrapn (cnt true (level x <? L_PIPE) x) (tkb x) :: go r
                    | ARef x :: r => (pk TExpression :: wrapn (cnt true (level x <? L_PIPE) x) (tkb x)) :: go r
                    end) args in
    Tok TUnquotedIdentifier f :: pk TOpenParen :: sepby (pk TComma) parts ++ [pk TCloseParen]
  | RLet bs body =>
    let parts := (fix go (l : list (bytes * rexpr)) : list (list token) :=
                    match l with
                    | [] => []
                    | (n, x) :: r => (Tok TVariable n :: pk TAssign :: wrapn (cnt true (level x <? L_PIPE) x) (tkb x)) :: go r
                    end) bs in
    pk TLet :: sepby (pk TComma) parts ++ pk TIn :: wrapn (cnt true (level body <? L_PIPE) body) (tkb body)
  end
with tkr (r : rexpr) {struct r} : list token :=
  match r with
  | RCurrent => []
  | RSub l x => tkr l ++ pk TDot :: wrapn (cnt false (level x <? L_POST) x) (tkb x)
  | RIndex l i => tkr l ++ [pk TOpenSqBrace; int_tok i; pk TCloseSqBrace]
  | RProj k l x =>
    let tok := match k with
               | PFilter cond => pk TFilter :: wrapn (cnt true (level cond <? L_PIPE) cond) (tkb cond) ++ [pk TCloseSqBrace]
               | _ => ktoks k
               end in
    tkr l ++ tok ++ tkr x
  | _ => [pk TDot; Tok TUnknown [63]]
  end.

Definition toks_sel (e : rexpr) : list token := wrapn (cnt true false e) (tkb e).
End Sel.

(* the applications of an operator, and let *)
Definition is_opapp (e : rexpr) : bool :=
  match e with
  | RPipe _ _ | ROr _ _ | RAnd _ _ | RNot _ | RCmp _ _ _ | RArith _ _ _ | RNeg _ | RPos _ | RLet _ _ => true
  | _ => false
  end.

(* every operator application and every let in exactly one pair of parentheses *)
Definition toks_full (e : rexpr) : list token := toks_sel (fun x => if is_opapp x then 1%nat else O) e.

(* ---- M1: the fully parenthesised tokens of samples parse to the same node ---- *)
Module FullSamples.
  Import Samples.
  Definition okf (e : rexpr) : Prop :=
    parse_items 400 (map ITok (toks_full e) ++ [ITok (Tok TEnd [])]) = Ok (compile_r e).
  Ltac chkf := vm_compute; reflexivity.
  Example f1 : okf e1. Proof. chkf. Qed.
  Example f2 : okf e2. Proof. chkf. Qed.
  Example f3 : okf e3. Proof. chkf. Qed.
  Example f5 : okf e5. Proof. chkf. Qed.
  Example f7 : okf e7. Proof. chkf. Qed.
  Example f8 : okf e8. Proof. chkf. Qed.
  Example f9 : okf e9. Proof. chkf. Qed.
  Example f10 : okf e10. Proof. chkf. Qed.
  Example f12 : okf e12. Proof. chkf. Qed.
  Example f13 : okf e13. Proof. chkf. Qed.
  Example f15 : okf e15. Proof. chkf. Qed.
  Example f17 : okf e17. Proof. chkf. Qed.
  Example frich : okf rich. Proof. chkf. Qed.

  (* a + b * -c < a - b - (c - d) && !(a != b) || ... : the shape of the full rendering *)
  Example f10_shape :
    map ttyp (toks_full (RArith AAdd a (RArith AMul b (RNeg c)))) =
    [TOpenParen; TUnquotedIdentifier; TAdd; TOpenParen; TUnquotedIdentifier; TAsterisk;
     TOpenParen; TSubtract; TUnquotedIdentifier; TCloseParen; TCloseParen; TCloseParen].
  Proof. vm_compute. reflexivity. Qed.
  (* where the minimal rendering already has a pair no second one is added: (a + b) * c *)
  Example f_needed_shape :
    map ttyp (toks_full (RArith AMul (RArith AAdd a b) c)) =
    [TOpenParen; TOpenParen; TUnquotedIdentifier; TAdd; TUnquotedIdentifier; TCloseParen; TAsterisk;
     TUnquotedIdentifier; TCloseParen].
  Proof. vm_compute. reflexivity. Qed.
End FullSamples.

(* parentheses around a selector chain in front of an index are NOT redundant for the node
   (the two nodes have the same meaning, but they are different nodes) *)
Example chain_paren_changes_node :
  let a := Tok TUnquotedIdentifier [97] in let b := Tok TUnquotedIdentifier [98] in
  let idx := [pk TOpenSqBrace; int_tok 0; pk TCloseSqBrace] in
  parse_items 50 (map ITok ([a; pk TDot; b] ++ idx) ++ [ITok (Tok TEnd [])]) =
    Ok (NPipe (NField [97]) (NIndex (NField [98]) 0)) /\
  parse_items 50 (map ITok (wrapt [a; pk TDot; b] ++ idx) ++ [ITok (Tok TEnd [])]) =
    Ok (NIndex (NPipe (NField [97]) (NField [98])) 0).
Proof. split; vm_compute; reflexivity. Qed.

(* parentheses around a projection end it: a[*].b projects b over a, (a[*]).b applies .b to the
   projected array (two different reference expressions; the "parentheses override" clause) *)
Example projection_paren_changes_node :
  let a := Tok TUnquotedIdentifier [97] in let b := Tok TUnquotedIdentifier [98] in
  parse_items 50 (map ITok ([a; pk TArrayWildcard] ++ [pk TDot; b]) ++ [ITok (Tok TEnd [])]) =
    Ok (NProjectArray (NField [97]) (NField [98])) /\
  parse_items 50 (map ITok (wrapt [a; pk TArrayWildcard] ++ [pk TDot; b]) ++ [ITok (Tok TEnd [])]) =
    Ok (NPipe (NPruneArray (NField [97])) (NField [98])).
Proof. split; vm_compute; reflexivity. Qed.

(* ================================================================== *)
(* 2. Views of the relation                                            *)
(* ================================================================== *)

Lemma wrapn_S n ts : wrapn (S n) ts = wrapt (wrapn n ts).
Proof. reflexivity. Qed.

Lemma need0 (need : bool) : (need = true -> O <> O) -> need = false.
Proof. destruct need; [intros H; exfalso; apply H; reflexivity|reflexivity]. Qed.

(* the lists of pvb as Forall2 *)
Lemma all_mlist es tss :
  (fix all (l : list rexpr) (tss : list (list token)) {struct l} : Prop :=
     match l, tss with
     | [], [] => True
     | x :: r, t :: tr => PVg (pvb x) true (level x <? L_PIPE) t /\ all r tr
     | _, _ => False
     end) es tss <-> Forall2 (fun x t => PVo L_PIPE x t) es tss.
Proof.
  revert tss. induction es as [|x es IH]; intros [|t tss]; split; intros H;
    try (constructor; fail); try contradiction; try (inversion H; fail).
  - destruct H as [H1 H2]. constructor; [exact H1|apply IH, H2].
  - inversion H; subst. split; [assumption|apply IH; assumption].
Qed.

Lemma all_kes (kes : list (bytes * rexpr)) tss :
  (fix all (l : list (bytes * rexpr)) (tss : list (list token)) {struct l} : Prop :=
     match l, tss with
     | [], [] => True
     | (_, x) :: r, t :: tr => PVg (pvb x) true (level x <? L_PIPE) t /\ all r tr
     | _, _ => False
     end) kes tss <-> Forall2 (fun kx t => PVo L_PIPE (snd kx) t) kes tss.
Proof.
  revert tss. induction kes as [|[k x] kes IH]; intros [|t tss]; split; intros H;
    try (constructor; fail); try contradiction; try (inversion H; fail).
  - destruct H as [H1 H2]. constructor; [exact H1|apply IH, H2].
  - inversion H; subst. split; [assumption|apply IH; assumption].
Qed.

Lemma all_args (args : list rarg) tss :
  (fix all (l : list rarg) (tss : list (list token)) {struct l} : Prop :=
     match l, tss with
     | [], [] => True
     | a :: r, t :: tr =>
       match a with AExpr x | ARef x => PVg (pvb x) true (level x <? L_PIPE) t end /\ all r tr
     | _, _ => False
     end) args tss <-> Forall2 (fun a t => PVo L_PIPE (arg_expr a) t) args tss.
Proof.
  revert tss. induction args as [|a args IH]; intros [|t tss]; split; intros H;
    try (constructor; fail); try contradiction; try (inversion H; fail).
  - destruct H as [H1 H2]. constructor; [destruct a; exact H1|apply IH, H2].
  - inversion H; subst. split; [destruct a; assumption|apply IH; assumption].
Qed.

Lemma pvb_mlist es ts : pvb (RMultiList es) ts <->
  exists tss, ts = pk TOpenSqBrace :: sepby (pk TComma) tss ++ [pk TCloseSqBrace] /\
              Forall2 (fun x t => PVo L_PIPE x t) es tss.
Proof. cbn [pvb]. split; intros (tss & E & H); exists tss; (split; [exact E|]); apply all_mlist; exact H. Qed.

Lemma pvb_mhash kes ts : pvb (RMultiHash kes) ts <->
  exists tss, ts = pk TOpenBrace :: sepby (pk TComma) (hparts kes tss) ++ [pk TCloseBrace] /\
              Forall2 (fun kx t => PVo L_PIPE (snd kx) t) kes tss.
Proof. cbn [pvb]. split; intros (tss & E & H); exists tss; (split; [exact E|]); apply all_kes; exact H. Qed.

Lemma pvb_call f args ts : pvb (RCall f args) ts <->
  exists tss, ts = Tok TUnquotedIdentifier f :: pk TOpenParen :: sepby (pk TComma) (aparts args tss) ++ [pk TCloseParen] /\
              Forall2 (fun a t => PVo L_PIPE (arg_expr a) t) args tss.
Proof. cbn [pvb]. split; intros (tss & E & H); exists tss; (split; [exact E|]); apply all_args; exact H. Qed.

Lemma pvb_let bs body ts : pvb (RLet bs body) ts <->
  exists tss tb, ts = pk TLet :: sepby (pk TComma) (lparts bs tss) ++ pk TIn :: tb /\
                 Forall2 (fun kx t => PVo L_PIPE (snd kx) t) bs tss /\ PVo L_PIPE body tb.
Proof.
  cbn [pvb]. split; intros (tss & tb & E & H & Hb); exists tss, tb; (split; [exact E|]); (split; [|exact Hb]);
    apply all_kes; exact H.
Qed.

(* the selector token(s) of a projection *)
Definition pvk (k : projkind) (tk : list token) : Prop :=
  match k with
  | PFilter cond => exists tc, tk = pk TFilter :: tc ++ [pk TCloseSqBrace] /\ PVo L_PIPE cond tc
  | _ => tk = ktoks k
  end.
Definition pvk0 (k : projkind) (tk : list token) : Prop :=
  match k with PValues => tk = [pk TAsterisk] | _ => pvk k tk end.

Lemma pvb_proj_inv k l r ts : pvb (RProj k l r) ts ->
  exists tl tk tr, ts = tl ++ tk ++ tr /\ pvr r tr /\
    ((l = RCurrent /\ tl = [] /\ pvk0 k tk) \/
     (l <> RCurrent /\ PVg (pvb l) (is_closed l || lowers k) (level l <? lq k) tl /\ pvk k tk)).
Proof.
  cbn [pvb]. intros (tl & tk & tr & -> & Hl & Hk & Hr). exists tl, tk, tr.
  split; [reflexivity|]. split; [exact Hr|].
  destruct (is_current_dec l) as [->|Hne].
  - left. split; [reflexivity|]. split; [exact Hl|]. destruct k; exact Hk.
  - right. split; [exact Hne|]. split.
    + destruct l; try exact Hl. congruence.
    + destruct k; try exact Hk. destruct l; try exact Hk. congruence.
Qed.

Lemma pvr_proj_inv k l x ts : pvr (RProj k l x) ts ->
  exists tl tk tx, ts = tl ++ tk ++ tx /\ pvr l tl /\ pvk k tk /\ pvr x tx.
Proof.
  cbn [pvr]. intros (tl & tk & tx & -> & Hl & Hk & Hx). exists tl, tk, tx.
  split; [reflexivity|]. split; [exact Hl|]. split; [|exact Hx]. destruct k; exact Hk.
Qed.

Lemma pvk_hd k tk X : pvk k tk -> precedence (hdt (tk ++ X)) = sprec_k k /\ hdt (tk ++ X) <> TOpenParen.
Proof.
  destruct k; cbn [pvk]; intros H; try (subst tk; cbn; split; (reflexivity || discriminate)).
  destruct H as (tc & -> & _). cbn. split; (reflexivity || discriminate).
Qed.

(* ---- comma-separated lists: tokens and segments ---- *)
Definition gsegs {A} (pre : A -> list token) (l : list A) (tss : list (list token)) : list seg :=
  map (fun at_ : A * list token => (pre (fst at_), snd at_)) (combine l tss).
Definition gparts {A} (pre : A -> list token) (l : list A) (tss : list (list token)) : list (list token) :=
  map (fun at_ : A * list token => pre (fst at_) ++ snd at_) (combine l tss).

Definition hpre (kx : bytes * rexpr) : list token := [ident_tok (fst kx); pk TColon].
Definition lpre (kx : bytes * rexpr) : list token := [Tok TVariable (fst kx); pk TAssign].
Definition apre (a : rarg) : list token := if is_ref a then [pk TExpression] else [].
Definition npre (x : rexpr) : list token := [].

Lemma hparts_g kes tss : hparts kes tss = gparts hpre kes tss.
Proof. reflexivity. Qed.
Lemma lparts_g bs tss : lparts bs tss = gparts lpre bs tss.
Proof. reflexivity. Qed.
Lemma aparts_g args tss : aparts args tss = gparts apre args tss.
Proof. reflexivity. Qed.

Lemma F2_length {A B} (R : A -> B -> Prop) l m : Forall2 R l m -> List.length l = List.length m.
Proof. induction 1; cbn; congruence. Qed.

Lemma map_fst_combine {A B C} (f : A -> C) (l : list A) (m : list B) : List.length l = List.length m ->
  map (fun x : A * B => f (fst x)) (combine l m) = map f l.
Proof.
  revert m. induction l as [|a l IH]; intros [|b m] H; try discriminate; [reflexivity|].
  cbn [combine map fst]. f_equal. apply IH. cbn in H. congruence.
Qed.

Lemma map_snd_combine {A B} (l : list A) (m : list B) : List.length l = List.length m ->
  map snd (combine l m) = m.
Proof.
  revert m. induction l as [|a l IH]; intros [|b m] H; try discriminate; [reflexivity|].
  cbn [combine map snd]. f_equal. apply IH. cbn in H. congruence.
Qed.

Lemma combine_nonempty {A B} (l : list A) (m : list B) : List.length l = List.length m -> l <> [] -> combine l m <> [].
Proof. destruct l, m; cbn; intros H Hn; try congruence; discriminate. Qed.

Lemma gparts_npre es tss : List.length es = List.length tss -> gparts npre es tss = tss.
Proof. intros H. unfold gparts, npre. cbn [app]. apply map_snd_combine, H. Qed.

Lemma gparts_segs {A} (pre : A -> list token) (l : list A) tss closer rest : combine l tss <> [] ->
  sepby (pk TComma) (gparts pre l tss) ++ closer :: rest = segs_toks (gsegs pre l tss) closer rest.
Proof.
  intros H. rewrite <- sepby_segs.
  - unfold gsegs, gparts. rewrite map_map. reflexivity.
  - unfold gsegs. destruct (combine l tss); [congruence|discriminate].
Qed.

Lemma gsegs_length {A} (pre : A -> list token) (l : list A) tss : List.length l = List.length tss ->
  List.length (gsegs pre l tss) = List.length l.
Proof. intros H. unfold gsegs. rewrite map_length, combine_length. lia. Qed.

Lemma gsegs_nonempty {A} (pre : A -> list token) (l : list A) tss :
  List.length l = List.length tss -> l <> [] -> gsegs pre l tss <> [].
Proof.
  intros H Hn. pose proof (combine_nonempty l tss H Hn). unfold gsegs.
  destruct (combine l tss); [congruence|discriminate].
Qed.

Lemma gsegs_plain {A} (pre : A -> list token) (l : list A) tss :
  (forall a, pre a = []) -> Forall (fun s : seg => fst s = []) (gsegs pre l tss).
Proof. intros H. unfold gsegs. apply Forall_map. apply Forall_forall. intros x _. apply H. Qed.

(* ================================================================== *)
(* 3. The statements proved by induction                               *)
(* ================================================================== *)

(* the situation after e in n pairs of parentheses *)
Definition gq (n : nat) (e : rexpr) : gstate :=
  match n with O => cxb e | S _ => Plain (Some (compile_r e)) end.

Lemma gq_close n e : close_opt (gq n e) = Some (compile_r e).
Proof. destruct n; [apply cxb_close|reflexivity]. Qed.

Lemma cxb_closed e : is_closed e = true -> cxb e = Plain (Some (compile_r e)).
Proof. destruct e; try discriminate; reflexivity. Qed.

Lemma gq_cxq n e q : ((level e <? q) = true -> n <> O) ->
  ((level e <? q) = false -> n <> O -> is_closed e = true) -> gq n e = cxq q e.
Proof.
  intros H1 H2. unfold cxq. destruct n as [|n]; cbn [gq].
  - rewrite (need0 _ H1). reflexivity.
  - destruct (level e <? q) eqn:E; [reflexivity|].
    symmetry. apply cxb_closed. apply H2; [reflexivity|discriminate].
Qed.

Lemma sfx_sub_close g g' r fs kfs x : close_opt g = close_opt g' -> sfx_sub g r fs kfs x = sfx_sub g' r fs kfs x.
Proof. intros H. unfold sfx_sub, close. rewrite H. reflexivity. Qed.

Lemma sfx_proj_gq k c rhs n e q : ((level e <? q) = true -> n <> O) ->
  ((level e <? q) = false -> n <> O -> is_closed e || lowers k = true) ->
  sfx_proj k c rhs (gq n e) = sfx_proj k c rhs (cxq q e).
Proof.
  intros H1 H2. destruct (lowers k) eqn:El.
  - destruct k; try discriminate El; cbn [sfx_proj]; unfold lower; rewrite gq_close, cxq_close; reflexivity.
  - rewrite (gq_cxq n e q); auto. intros A B. specialize (H2 A B). rewrite orb_false_r in H2. exact H2.
Qed.

Definition ECU' (e : rexpr) : Prop :=
  forall body, pvb e body -> forall p rest res, wfr e -> (p <= maxp (level e) \/ is_atom e = true) ->
    hdt rest <> TOpenParen -> stops (xstop e) rest ->
    After p (cxb e) rest res -> Runs (CExpr p) (st_of (body ++ rest)) res.

Definition EC' (e : rexpr) : Prop :=
  forall n body, pvb e body -> forall p rest res, wfr e ->
    (n = O -> p <= maxp (level e) \/ is_atom e = true) ->
    hdt rest <> TOpenParen -> (n = O -> stops (xstop e) rest) ->
    After p (gq n e) rest res -> Runs (CExpr p) (st_of (wrapn n body ++ rest)) res.

Definition RC' (r : rexpr) : Prop :=
  forall ts, pvr r ts -> forall sp rest res, rhs_ok sp r -> 8 <= sp <= 10 -> hdt rest <> TOpenParen ->
    stops (tstop r) rest -> After sp (rcx r) rest res -> After sp (Plain None) (ts ++ rest) res.

Lemma body_runs e body : ECU' e -> pvb e body -> wfr e -> forall n rest,
  precedence (hdt rest) = 0 -> hdt rest <> TOpenParen ->
  Runs (CExpr 1) (st_of (wrapn n body ++ rest)) (Some (compile_r e), st_of rest).
Proof.
  intros H Hb Hw. induction n as [|n IH]; intros rest Hp Hn.
  - cbn [wrapn]. apply (H body Hb); try assumption.
    + left. apply maxp_ge1.
    + unfold stops. pose proof (xstop_lstop e (level e) ltac:(lia)). pose proof (maxp_lstop (level e)).
      pose proof (maxp_ge1 (level e)). lia.
    + rewrite <- cxb_close. apply After_stop; unfold stops; lia.
  - cbn [wrapn]. eapply runs_paren; [apply IH; [reflexivity|discriminate]|].
    apply runs_stop. change (precedence (hdt rest) <= 1). lia.
Qed.

Lemma EC_of_ECU' e : ECU' e -> EC' e.
Proof.
  intros H n body Hb p rest res Hw Hp Hn Hs Ha. destruct n as [|n].
  - cbn [wrapn gq] in *. apply (H body Hb); auto.
  - cbn [wrapn gq] in *. eapply runs_paren; [|exact Ha].
    apply body_runs; try assumption; [reflexivity|discriminate].
Qed.

Lemma maxp_need q e p : p <= maxp q -> (level e <? q) = false -> p <= maxp (level e).
Proof. intros Hp El. apply ltb_false_ge in El. pose proof (maxp_mono q (level e) El). lia. Qed.

(* an expression in a position of level q, read at a power the position admits *)
Lemma EXPR_PV e : EC' e -> forall allow q ts, PVg (pvb e) allow (level e <? q) ts ->
  forall p rest, wfr e -> p <= maxp q -> hdt rest <> TOpenParen -> stops p rest ->
  Runs (CExpr p) (st_of (ts ++ rest)) (Some (compile_r e), st_of rest).
Proof.
  intros H allow q ts (n & body & -> & Hb & Hn1 & _) p rest Hw Hp Hn Hs.
  apply (H n body Hb); try assumption.
  - intros ->. left. eapply maxp_need; [exact Hp|apply need0, Hn1].
  - intros ->. eapply rok_of_stops; [exact Hp|exact Hs|apply need0, Hn1].
  - rewrite <- (gq_close n e). apply After_stop; [assumption|].
    eapply stops_le; [eassumption|]. pose proof (maxp_le7 q). lia.
Qed.

(* ---- first tokens ---- *)
Lemma wrapn_starter n body rest :
  (n = O -> starter (hdt (body ++ rest)) = true) -> starter (hdt (wrapn n body ++ rest)) = true.
Proof. destruct n; [intros H; apply H; reflexivity|reflexivity]. Qed.

Lemma pvb_starter : forall e body rest, pvb e body -> starter (hdt (body ++ rest)) = true.
Proof.
  assert (HP : forall (P : list token -> Prop) allow need ts rest,
            (forall body rest, P body -> starter (hdt (body ++ rest)) = true) ->
            PVg P allow need ts -> starter (hdt (ts ++ rest)) = true).
  { intros P allow need ts rest HPs (n & body & -> & Hb & _). apply wrapn_starter. intros _. apply HPs, Hb. }
  induction e; intros body rest Hb; cbn [pvb] in Hb.
  - subst. reflexivity.
  - subst. reflexivity.
  - subst. cbn. unfold ident_tok. destruct (plain_ident name); reflexivity.
  - subst. reflexivity.
  - subst. reflexivity.
  - subst. reflexivity.
  - destruct Hb as (tl & tr & -> & Hl & _). rewrite <- app_assoc. eapply HP; [exact IHe1|exact Hl].
  - destruct Hb as (tl & -> & Hl). rewrite <- app_assoc. eapply HP; [exact IHe|exact Hl].
  - destruct Hb as (tl & tk & tr & -> & Hl & Hk & _). rewrite <- !app_assoc.
    destruct e1; try (eapply HP; [exact IHe1|exact Hl]).
    subst tl. cbn [app]. destruct k; try (subst tk; reflexivity).
    destruct Hk as (tc & -> & _). reflexivity.
  - destruct Hb as (tss & -> & _). reflexivity.
  - destruct Hb as (tss & -> & _). reflexivity.
  - destruct Hb as (tl & tr & -> & Hl & _). rewrite <- app_assoc. eapply HP; [exact IHe1|exact Hl].
  - destruct Hb as (tl & tr & -> & Hl & _). rewrite <- app_assoc. eapply HP; [exact IHe1|exact Hl].
  - destruct Hb as (tl & tr & -> & Hl & _). rewrite <- app_assoc. eapply HP; [exact IHe1|exact Hl].
  - destruct Hb as (tx & -> & _). reflexivity.
  - destruct Hb as (tl & tr & -> & Hl & _). rewrite <- app_assoc. eapply HP; [exact IHe1|exact Hl].
  - destruct Hb as (tl & tr & -> & Hl & _). rewrite <- app_assoc. eapply HP; [exact IHe1|exact Hl].
  - destruct Hb as (tx & -> & _). reflexivity.
  - destruct Hb as (tx & -> & _). reflexivity.
  - destruct Hb as (tss & -> & _). reflexivity.
  - destruct Hb as (tss & tb & -> & _). reflexivity.
Qed.

Lemma PVg_starter e allow need ts rest : PVg (pvb e) allow need ts -> starter (hdt (ts ++ rest)) = true.
Proof. intros (n & body & -> & Hb & _). apply wrapn_starter. intros _. apply (pvb_starter e), Hb. Qed.

(* first token of a right-hand side *)
Lemma rhs_first' : forall r ts sp rest, pvr r ts -> r <> RCurrent -> rhs_ok sp r -> 8 <= sp <= 10 ->
  rhs_start (hdt (ts ++ rest)) = true /\ precedence (hdt (ts ++ rest)) > sp.
Proof.
  induction r; intros ts sp rest Hpv Hne Hok Hsp; try (cbn [rhs_ok] in Hok; contradiction).
  - cbn [rhs_ok pvr] in *. destruct Hok as (Hl & _). destruct Hpv as (tl & tx & -> & Hpl & _).
    rewrite <- app_assoc.
    destruct r1; try (eapply IHr1; [exact Hpl|discriminate|assumption|assumption]);
      try (cbn [rhs_ok] in Hl; contradiction).
    cbn [pvr] in Hpl. subst tl. cbn. split; [reflexivity|lia].
  - cbn [rhs_ok pvr] in *. destruct Hok as (Hl & _). destruct Hpv as (tl & -> & Hpl).
    rewrite <- app_assoc.
    destruct r; try (eapply IHr; [exact Hpl|discriminate|assumption|assumption]);
      try (cbn [rhs_ok] in Hl; contradiction).
    cbn [pvr] in Hpl. subst tl. cbn. split; [reflexivity|lia].
  - cbn [rhs_ok] in Hok. destruct Hok as (Hl & Hk & _).
    apply pvr_proj_inv in Hpv. destruct Hpv as (tl & tk & tx & -> & Hpl & Hpk & _).
    rewrite <- !app_assoc.
    destruct r1; try (eapply IHr1; [exact Hpl|discriminate|assumption|assumption]);
      try (cbn [rhs_ok] in Hl; contradiction).
    cbn [pvr] in Hpl. subst tl. cbn [app].
    destruct k; cbn [pvk sprec_k] in *; try lia; try (subst tk; split; [reflexivity|cbn; lia]).
    destruct Hpk as (tc & -> & _). split; [reflexivity|cbn; lia].
Qed.

Lemma RHS_of_RC' r : RC' r -> forall tr, pvr r tr -> forall sp rest, rhs_ok sp r -> 8 <= sp <= 10 ->
  hdt rest <> TOpenParen -> stops sp rest -> stops (tstop r) rest ->
  EvP (fun f => projection (run f) sp (st_of (tr ++ rest)) = Ok (close_opt (rcx r), st_of rest)).
Proof.
  intros H tr Hpr sp rest Hok Hsp Hn Hs Ht.
  destruct (is_current_dec r) as [->|Hne].
  - cbn [pvr] in Hpr. subst tr. cbn [rcx close_opt app]. exists O. intros f _. apply projection_none, Hs.
  - destruct (rhs_first' r tr sp rest Hpr Hne Hok Hsp) as [H1 H2].
    assert (Ha : After sp (Plain None) (tr ++ rest) (close_opt (rcx r), st_of rest)).
    { apply (H tr Hpr); try assumption. apply After_stop; [assumption|]. apply (stops_le sp 11 rest Hs). lia. }
    cbn [After] in Ha. eapply EvP_mono; [|exact Ha]. intros f Hf.
    rewrite projection_some by assumption. exact Hf.
Qed.

(* ================================================================== *)
(* 4. Selector steps                                                   *)
(* ================================================================== *)

Lemma proj_step' k r tk tr P g rest res :
  slice_ok k -> match k with PFilter c => wfr c /\ EC' c | _ => True end -> pvk k tk ->
  (forall sp rest, rhs_ok sp r -> 8 <= sp <= 10 -> hdt rest <> TOpenParen -> stops sp rest -> stops (tstop r) rest ->
     EvP (fun f => projection (run f) sp (st_of (tr ++ rest)) = Ok (close_opt (rcx r), st_of rest))) ->
  rhs_ok (stop_k k) r -> P < sprec_k k -> hdt rest <> TOpenParen ->
  stops (Z.min (stop_k k) (tstop r)) rest ->
  After P (sfx_proj k (kcond k) (close_opt (rcx r)) g) rest res ->
  After P g (tk ++ tr ++ rest) res.
Proof.
  intros Hsl Hc Hpk Hrhs Hok HP Hn Hs.
  assert (Hr : EvP (fun f => projection (run f) (stop_k k) (st_of (tr ++ rest)) =
                             Ok (close_opt (rcx r), st_of rest))).
  { apply Hrhs; try assumption.
    - destruct k; cbn; lia.
    - eapply stops_le; [exact Hs|lia].
    - eapply stops_le; [exact Hs|lia]. }
  destruct k as [|a b c| |cond|]; cbn [sfx_proj pvk ktoks stop_k sprec_k kcond] in *.
  - subst tk. apply After_lift13; [|assumption]. intros o P' res' HP' H. cbn [app].
    eapply runs_cont; [rewrite ct_cons; cbn; lia| |exact H].
    eapply EvP_mono; [|exact Hr]. intros f Hf. apply cs_star, Hf.
  - subst tk. apply After_lift13; [|assumption]. intros o P' res' HP' H. rewrite slice_toks_app.
    eapply runs_cont; [rewrite ct_cons; cbn; lia| |exact H].
    eapply EvP_mono; [|exact Hr]. intros f Hf. destruct Hsl as (Ha & Hb & Hc' & Hz).
    eapply cs_bracket; [apply index_slice; assumption|]. apply wsp_true, Hf.
  - subst tk. apply After_lower; [|unfold stops; cbn; lia]. intros o H. cbn [app].
    eapply runs_cont; [rewrite ct_cons; cbn; lia| |exact H].
    eapply EvP_mono; [|exact Hr]. intros f Hf. apply cs_flatten. rewrite ct_cons. exact Hf.
  - destruct Hpk as (tc & -> & Hpc).
    apply After_lower; [|unfold stops; cbn; lia]. intros o H. cbn [app].
    rewrite <- app_assoc. cbn [app].
    destruct Hc as [Hwc Hec].
    eapply runs_cont; [rewrite ct_cons; cbn; lia| |exact H].
    eapply EvP_mono; [|apply EvP_and; [exact Hr|apply runs_expr_ev;
      apply (EXPR_PV cond Hec true L_PIPE tc Hpc 1 (pk TCloseSqBrace :: tr ++ rest) Hwc)]].
    + intros f [Hf1 Hf2]. eapply cs_filter; [apply filter_ok; exact Hf2|]. exact Hf1.
    + reflexivity.
    + discriminate.
    + unfold stops. cbn. lia.
  - subst tk. apply After_lower; [|unfold stops; cbn; lia]. intros o H. cbn [app].
    eapply runs_cont; [rewrite ct_cons; cbn; lia| |exact H].
    eapply EvP_mono; [|exact Hr]. intros f Hf. apply cs_values, Hf.
Qed.

(* a multi-select with an arbitrary child node *)
Definition MS' (e : rexpr) : Prop :=
  match e with
  | RMultiList es =>
    forall tss, Forall2 (fun x t => PVo L_PIPE x t) es tss -> wfr e -> forall child rest,
      EvP (fun f => select_array (run f) f child (st_of (segs_toks (gsegs npre es tss) (pk TCloseSqBrace) rest)) =
                    Ok (mk_mlist child (map compile_r es), st_of rest))
  | RMultiHash kes =>
    forall tss, Forall2 (fun kx t => PVo L_PIPE (snd kx) t) kes tss -> wfr e -> forall child rest,
      EvP (fun f => select_object (run f) f child (st_of (segs_toks (gsegs hpre kes tss) (pk TCloseBrace) rest)) =
                    Ok (mk_mhash child (hkv (hitems kes)), st_of rest))
  | _ => True
  end.

Lemma toks_mlist' es tss rest : List.length es = List.length tss -> es <> [] ->
  (pk TOpenSqBrace :: sepby (pk TComma) tss ++ [pk TCloseSqBrace]) ++ rest =
  pk TOpenSqBrace :: segs_toks (gsegs npre es tss) (pk TCloseSqBrace) rest.
Proof.
  intros Hl Hne. cbn [app]. f_equal. rewrite <- app_assoc. cbn [app].
  rewrite <- (gparts_npre es tss Hl) at 1. apply gparts_segs, combine_nonempty; assumption.
Qed.

Lemma toks_mhash' kes tss rest : List.length kes = List.length tss -> kes <> [] ->
  (pk TOpenBrace :: sepby (pk TComma) (hparts kes tss) ++ [pk TCloseBrace]) ++ rest =
  pk TOpenBrace :: segs_toks (gsegs hpre kes tss) (pk TCloseBrace) rest.
Proof.
  intros Hl Hne. cbn [app]. f_equal. rewrite <- app_assoc. cbn [app].
  rewrite hparts_g. apply gparts_segs, combine_nonempty; assumption.
Qed.

Lemma toks_call' f args tss rest : List.length args = List.length tss -> args <> [] ->
  (Tok TUnquotedIdentifier f :: pk TOpenParen :: sepby (pk TComma) (aparts args tss) ++ [pk TCloseParen]) ++ rest =
  Tok TUnquotedIdentifier f :: pk TOpenParen :: segs_toks (gsegs apre args tss) (pk TCloseParen) rest.
Proof.
  intros Hl Hne. cbn [app]. f_equal. f_equal. rewrite <- app_assoc. cbn [app].
  rewrite aparts_g. apply gparts_segs, combine_nonempty; assumption.
Qed.

Lemma toks_let' bs tss tb rest : List.length bs = List.length tss -> bs <> [] ->
  (pk TLet :: sepby (pk TComma) (lparts bs tss) ++ pk TIn :: tb) ++ rest =
  pk TLet :: segs_toks (gsegs lpre bs tss) (pk TIn) (tb ++ rest).
Proof.
  intros Hl Hne. cbn [app]. f_equal. rewrite <- app_assoc. cbn [app].
  rewrite lparts_g. apply gparts_segs, combine_nonempty; assumption.
Qed.

Lemma sub_step' r tr P g rest res :
  EC' r -> MS' r -> wfr r -> sub_shape r = true -> PVg (pvb r) false (level r <? L_POST) tr ->
  P < 11 -> hdt rest <> TOpenParen ->
  After P (sfx_sub g r (fs_of r) (kfs_of r) (compile_r r)) rest res ->
  After P g (pk TDot :: tr ++ rest) res.
Proof.
  intros Hec Hms Hw Hsh (n & body & -> & Hb & Hn1 & Hn2) HP Hn H.
  assert (Hlv : (level r <? L_POST) = false) by (destruct r; try discriminate Hsh; reflexivity).
  assert (n = O) as ->.
  { destruct n; [reflexivity|]. specialize (Hn2 Hlv ltac:(discriminate)). discriminate. }
  cbn [wrapn]. clear Hn1 Hn2.
  assert (Hgroup : is_atom r = true -> is_ident_t (hdt (body ++ rest)) = true ->
                   After P (Group (close_opt g) (compile_r r)) rest res ->
                   After P g (pk TDot :: body ++ rest) res).
  { intros Hat Hid Hg. apply After_close; [unfold stops; cbn; lia|]. cbn [After] in *.
    destruct Hg as (n' & st' & H1 & H2).
    eapply runs_cont; [rewrite ct_cons; cbn; lia| |exact H2].
    assert (Hr : Runs (CExpr 11) (st_of (body ++ rest)) (Some n', st')).
    { apply (Hec O body Hb); try assumption.
      - intros _. right. assumption.
      - intros _. rewrite (xstop_atom r Hat). unfold stops. apply prec_le_13.
      - cbn [gq]. rewrite (cxb_atom r Hat). exact H1. }
    eapply EvP_mono; [|apply runs_expr_ev, Hr]. intros f Hf. rewrite ct_cons. cbn [pk ttyp].
    change (precedence TDot) with 11. rewrite (cs_dot_ident _ _ _ _ _ _ _ Hid Hf). reflexivity. }
  destruct r; try discriminate Hsh; cbn [sfx_sub] in H.
  - apply Hgroup; [reflexivity| |exact H].
    cbn [pvb] in Hb. subst body. cbn [app]. rewrite hdt_cons. unfold ident_tok.
    destruct (plain_ident name); reflexivity.
  - (* multi-select list *)
    pose proof (proj1 (wfr_mlist es) Hw) as [Hne _].
    apply pvb_mlist in Hb. destruct Hb as (tss & -> & H2). pose proof (F2_length _ _ _ H2) as Hlen.
    rewrite (toks_mlist' es tss rest) by assumption.
    change (Plain (Some (mk_mlist (Some (close g)) (fs_of (RMultiList es)))))
      with (lower (fun o => mk_mlist (Some (or_current o)) (map compile_r es)) g) in H.
    revert H. apply After_lower; [|unfold stops; cbn; lia]. intros o H.
    eapply runs_cont; [rewrite ct_cons; cbn; lia| |exact H].
    eapply EvP_mono; [|apply (Hms tss H2 Hw (Some (or_current o)) rest)]. intros f Hf.
    apply cs_dot_mlist. exact Hf.
  - (* multi-select hash *)
    pose proof (proj1 (wfr_mhash kes) Hw) as [Hne _].
    apply pvb_mhash in Hb. destruct Hb as (tss & -> & H2). pose proof (F2_length _ _ _ H2) as Hlen.
    rewrite (toks_mhash' kes tss rest) by assumption.
    change (Plain (Some (mk_mhash (Some (close g)) (kfs_of (RMultiHash kes)))))
      with (lower (fun o => mk_mhash (Some (or_current o)) (hkv (hitems kes))) g) in H.
    revert H. apply After_lower; [|unfold stops; cbn; lia]. intros o H.
    eapply runs_cont; [rewrite ct_cons; cbn; lia| |exact H].
    eapply EvP_mono; [|apply (Hms tss H2 Hw (Some (or_current o)) rest)]. intros f Hf.
    apply cs_dot_mhash. exact Hf.
  - apply Hgroup; [reflexivity| |exact H].
    apply pvb_call in Hb. destruct Hb as (tss & -> & _). reflexivity.
Qed.

(* ================================================================== *)
(* 5. Lists of expressions, operators                                  *)
(* ================================================================== *)

Lemma segs_read_ev2 {A} (pre : A -> list token) (ex : A -> rexpr) closer rest : forall (l : list A) tss,
  Forall2 (fun a t => PVo L_PIPE (ex a) t) l tss ->
  Forall (fun a => EC' (ex a) /\ wfr (ex a)) l ->
  precedence (ttyp closer) = 0 -> ttyp closer <> TOpenParen ->
  EvP (fun f => segs_read (run f) (gsegs pre l tss) (map (fun a => compile_r (ex a)) l) closer rest).
Proof.
  intros l tss H2. induction H2 as [|a t l tss Ha H2 IH]; intros HF Hc1 Hc2.
  - exists O. intros f _. exact I.
  - apply Forall_cons_iff in HF. destruct HF as [[He Hw] HF].
    unfold gsegs in *. cbn [combine map segs_read fst snd].
    apply EvP_and; [|apply IH; assumption].
    apply runs_expr_ev. apply (EXPR_PV _ He true L_PIPE t Ha); try assumption.
    + reflexivity.
    + destruct (combine l tss); cbn; [assumption|discriminate].
    + unfold stops. destruct (combine l tss); cbn [map tail_of]; rewrite hdt_cons; [rewrite Hc1|cbn]; lia.
Qed.

Lemma ECU_bin' (l r : rexpr) (ql qr Pop : Z) (t : ttype) (mkn : node -> node -> node) :
  EC' l -> EC' r -> precedence t = Pop -> t <> TOpenParen -> Pop <= 7 ->
  (forall rec k l' np ts r' st', expr rec np (st_of ts) = Ok (r', st') ->
     cont_step rec k (Some l') np (st_of (pk t :: ts)) = Ok (Some (mkn l' r', st'))) ->
  Pop = lstop ql -> Pop <= maxp qr ->
  forall tl tr, PVo ql l tl -> PVo qr r tr ->
  forall p rest res, wfr l -> wfr r -> p <= maxp ql -> p < Pop -> hdt rest <> TOpenParen -> stops Pop rest ->
    Runs (CCont (Some (mkn (compile_r l) (compile_r r))) p) (st_of rest) res ->
    Runs (CExpr p) (st_of ((tl ++ pk t :: tr) ++ rest)) res.
Proof.
  intros Hl Hr Hprec Hnp H7 Hcs Hls Hmp tl tr (nl & bl & -> & Hbl & Hl1 & _) Hpr p rest res Hwl Hwr Hp HpP Hn Hs Hk.
  rewrite <- app_assoc. cbn [app]. apply (Hl nl bl Hbl); try assumption.
  - intros ->. left. eapply maxp_need; [exact Hp|apply need0, Hl1].
  - intros ->. apply (rok_left l ql); [|apply need0, Hl1]. rewrite hdt_cons. cbn [pk ttyp]. lia.
  - apply After_close; [unfold stops; rewrite hdt_cons; cbn [pk ttyp]; lia|]. rewrite gq_close. cbn [After].
    eapply runs_cont; [rewrite ct_cons; cbn [pk ttyp]; lia| |exact Hk].
    eapply EvP_mono; [|apply runs_expr_ev; apply (EXPR_PV r Hr true qr tr Hpr Pop rest); assumption].
    intros f Hf. rewrite ct_cons. cbn [pk ttyp]. rewrite Hprec. apply Hcs, Hf.
Qed.

Lemma ECU_prefix' x t q P (mkn : node -> node) :
  EC' x -> P <= maxp q ->
  (forall rec k ts n st', expr rec P (st_of ts) = Ok (n, st') -> primary rec k (st_of (pk t :: ts)) = Ok (mkn n, st')) ->
  forall tx, PVo q x tx ->
  forall p rest res, wfr x -> hdt rest <> TOpenParen -> stops P rest ->
    Runs (CCont (Some (mkn (compile_r x))) p) (st_of rest) res ->
    Runs (CExpr p) (st_of ((pk t :: tx) ++ rest)) res.
Proof.
  intros Hx HP Hprim tx Hpx p rest res Hw Hn Hs Ha. cbn [app].
  eapply runs_primary; [|exact Ha].
  eapply EvP_mono; [|apply runs_expr_ev; apply (EXPR_PV x Hx true q tx Hpx P rest); assumption].
  intros f Hf. apply Hprim, Hf.
Qed.

(* ================================================================== *)
(* 6. The induction                                                    *)
(* ================================================================== *)

Definition T' (e : rexpr) : Prop := ECU' e /\ RC' e /\ MS' e.

Lemma T_EC' e : T' e -> EC' e.
Proof. intros [H _]. apply EC_of_ECU', H. Qed.

Lemma npre_nil : forall a : rexpr, npre a = [].
Proof. reflexivity. Qed.

(* the items of a hash / let with the tokens of a variant *)
Definition hitems2 (kes : list (bytes * rexpr)) (tss : list (list token)) : list hitem :=
  map (fun kt : (bytes * rexpr) * list token => (fst (fst kt), snd kt, compile_r (snd (fst kt)))) (combine kes tss).
Definition aitems2 (args : list rarg) (tss : list (list token)) : list aitem :=
  map (fun at_ : rarg * list token => (is_ref (fst at_), snd at_)) (combine args tss).

Lemma hsegs_hitems2 kes tss : hsegs (hitems2 kes tss) = gsegs hpre kes tss.
Proof. unfold hsegs, hitems2, gsegs. rewrite map_map. reflexivity. Qed.
Lemma lsegs_hitems2 kes tss : lsegs (hitems2 kes tss) = gsegs lpre kes tss.
Proof. unfold lsegs, hitems2, gsegs. rewrite map_map. reflexivity. Qed.
Lemma asegs_aitems2 args tss : asegs (aitems2 args tss) = gsegs apre args tss.
Proof. unfold asegs, aitems2, gsegs. rewrite map_map. reflexivity. Qed.

Lemma hns_hitems2 kes tss : List.length kes = List.length tss ->
  hns (hitems2 kes tss) = map (fun kx => compile_r (snd kx)) kes.
Proof.
  intros H. unfold hns, hitems2. rewrite map_map. cbn [snd].
  apply (map_fst_combine (fun kx : bytes * rexpr => compile_r (snd kx)) kes tss H).
Qed.
Lemma hkv_hitems2 kes tss : List.length kes = List.length tss -> hkv (hitems2 kes tss) = hkv (hitems kes).
Proof.
  intros H. rewrite hkv_hitems. unfold hkv, hitems2. rewrite map_map. cbn [hkey fst snd].
  apply (map_fst_combine (fun kx : bytes * rexpr => (fst kx, compile_r (snd kx))) kes tss H).
Qed.
Lemma hitems2_length kes tss : List.length kes = List.length tss -> List.length (hitems2 kes tss) = List.length kes.
Proof. intros H. unfold hitems2. rewrite map_length, combine_length. lia. Qed.
Lemma hitems2_keys kes tss (Q : bytes -> Prop) : List.length kes = List.length tss ->
  Forall (fun kx => Q (fst kx)) kes -> Forall (fun x => Q (hkey x)) (hitems2 kes tss).
Proof.
  intros Hl HF. unfold hitems2. apply Forall_map. cbn [hkey fst].
  apply Forall_forall. intros [[k x] t] Hin. cbn [fst]. apply in_combine_l in Hin.
  rewrite Forall_forall in HF. apply (HF _ Hin).
Qed.
Lemma aitems2_fst args tss : List.length args = List.length tss -> map fst (aitems2 args tss) = map is_ref args.
Proof.
  intros H. unfold aitems2. rewrite map_map. cbn [fst]. apply (map_fst_combine is_ref args tss H).
Qed.
Lemma aitems2_length args tss : List.length args = List.length tss -> List.length (aitems2 args tss) = List.length args.
Proof. intros H. unfold aitems2. rewrite map_length, combine_length. lia. Qed.

Lemma ECU_mlist' es : Forall T' es -> ECU' (RMultiList es) /\ MS' (RMultiList es).
Proof.
  intros IH.
  assert (Hread : forall tss, Forall2 (fun x t => PVo L_PIPE x t) es tss -> wfr (RMultiList es) -> forall rest,
            EvP (fun f => segs_read (run f) (gsegs npre es tss) (map compile_r es) (pk TCloseSqBrace) rest)).
  { intros tss H2 Hw rest. apply wfr_mlist in Hw. destruct Hw as [_ Hw].
    apply (segs_read_ev2 npre (fun x => x) (pk TCloseSqBrace) rest es tss H2); [|reflexivity|discriminate].
    apply Forall_conj; [|exact Hw]. eapply Forall_impl; [|exact IH]. intros a. apply T_EC'. }
  assert (Hms : MS' (RMultiList es)).
  { intros tss H2 Hw child rest. pose proof (proj1 (wfr_mlist es) Hw) as [Hne _].
    pose proof (F2_length _ _ _ H2) as Hlen.
    eapply EvP_mono; [|apply EvP_and; [apply (Hread tss H2 Hw rest)|apply (EvP_ge (List.length (gsegs npre es tss)))]].
    intros f [H1 H3]. unfold select_array.
    rewrite (sal_ok (run f) (gsegs npre es tss) (map compile_r es) child [] rest f H1);
      auto using gsegs_plain, npre_nil, gsegs_nonempty. }
  split; [|exact Hms].
  intros body Hb p rest res Hw Hp Hn Hs Ha. pose proof (proj1 (wfr_mlist es) Hw) as [Hne _].
  apply pvb_mlist in Hb. destruct Hb as (tss & -> & H2). pose proof (F2_length _ _ _ H2) as Hlen.
  rewrite (toks_mlist' es tss rest) by assumption.
  cbn [cxb] in Ha. rewrite go_nodes in Ha. cbn [After] in Ha.
  eapply runs_primary; [|exact Ha].
  eapply EvP_mono; [|apply EvP_and; [apply (Hread tss H2 Hw rest)|apply (EvP_ge (List.length (gsegs npre es tss)))]].
  intros f [H1 H3].
  assert (Hst : starter (hdt (segs_toks (gsegs npre es tss) (pk TCloseSqBrace) rest)) = true).
  { destruct H2 as [|x t es tss Hx H2]; [congruence|]. unfold gsegs. cbn [combine map fst snd].
    rewrite segs_toks_cons. cbn [npre app]. eapply PVg_starter, Hx. }
  apply starter_neq in Hst. destruct Hst as (S1 & S2 & _).
  apply prim_mlist; auto using gsegs_plain, npre_nil, gsegs_nonempty.
Qed.

Lemma ECU_mhash' kes : Forall T' (map snd kes) -> ECU' (RMultiHash kes) /\ MS' (RMultiHash kes).
Proof.
  intros IH. apply -> Forall_map in IH.
  assert (Hread : forall tss, Forall2 (fun kx t => PVo L_PIPE (snd kx) t) kes tss -> wfr (RMultiHash kes) -> forall rest,
            EvP (fun f => segs_read (run f) (hsegs (hitems2 kes tss)) (hns (hitems2 kes tss)) (pk TCloseBrace) rest)).
  { intros tss H2 Hw rest. apply wfr_mhash in Hw. destruct Hw as (_ & _ & Hw).
    rewrite hsegs_hitems2, (hns_hitems2 kes tss (F2_length _ _ _ H2)).
    apply (segs_read_ev2 hpre (fun kx => snd kx) (pk TCloseBrace) rest kes tss H2); [|reflexivity|discriminate].
    apply Forall_conj; [eapply Forall_impl; [|exact IH]; intros a; apply T_EC'|].
    eapply Forall_impl; [|exact Hw]. intros a [_ H]. exact H. }
  assert (Hside : forall tss, List.length kes = List.length tss -> wfr (RMultiHash kes) ->
            Forall (fun x => str_ok (hkey x) = true) (hitems2 kes tss) /\ hitems2 kes tss <> [] /\
            nodup_keys (hkv (hitems2 kes tss)) = true).
  { intros tss Hlen Hw. apply wfr_mhash in Hw. destruct Hw as (Hne & Hd & Hw). repeat split.
    - apply (hitems2_keys kes tss (fun k => str_ok k = true) Hlen).
      eapply Forall_impl; [|exact Hw]. intros a [H _]. exact H.
    - intros E. pose proof (hitems2_length kes tss Hlen) as HL. rewrite E in HL. destruct kes; [congruence|discriminate].
    - rewrite (hkv_hitems2 kes tss Hlen), hkv_hitems, nodup_keys_map'. exact Hd. }
  assert (Hms : MS' (RMultiHash kes)).
  { intros tss H2 Hw child rest. pose proof (F2_length _ _ _ H2) as Hlen. destruct (Hside tss Hlen Hw) as (S1 & S2 & S3).
    eapply EvP_mono; [|apply EvP_and; [apply (Hread tss H2 Hw rest)|apply (EvP_ge (List.length (hitems2 kes tss)))]].
    intros f [H1 H3]. unfold select_object. rewrite <- hsegs_hitems2, <- (hkv_hitems2 kes tss Hlen).
    rewrite (sol_ok (run f) (hitems2 kes tss) child [] rest f H1); auto. }
  split; [|exact Hms].
  intros body Hb p rest res Hw Hp Hn Hs Ha. pose proof (proj1 (wfr_mhash kes) Hw) as [Hne _].
  apply pvb_mhash in Hb. destruct Hb as (tss & -> & H2). pose proof (F2_length _ _ _ H2) as Hlen.
  destruct (Hside tss Hlen Hw) as (S1 & S2 & S3).
  rewrite (toks_mhash' kes tss rest) by assumption.
  cbn [cxb] in Ha. rewrite go_knodes in Ha. cbn [After] in Ha.
  eapply runs_primary; [|exact Ha].
  eapply EvP_mono; [|apply EvP_and; [apply (Hread tss H2 Hw rest)|apply (EvP_ge (List.length (hitems2 kes tss)))]].
  intros f [H1 H3]. rewrite <- hsegs_hitems2, <- (hkv_hitems2 kes tss Hlen). apply prim_mhash; auto.
Qed.

Lemma ECU_call' f args : Forall T' (map arg_expr args) -> ECU' (RCall f args).
Proof.
  intros IH. apply -> Forall_map in IH.
  intros body Hb p rest res Hw Hp Hn Hs Ha. apply wfr_call in Hw. destruct Hw as [Hc Hw].
  unfold call_ok in Hc. destruct (assoc f function_table) as [[ap fb]|] eqn:Ef; [|discriminate].
  assert (Hne : args <> []).
  { intros ->. cbn [map] in Hc. rewrite shape_ok_nonempty in Hc. discriminate. }
  apply pvb_call in Hb. destruct Hb as (tss & -> & H2). pose proof (F2_length _ _ _ H2) as Hlen.
  rewrite (toks_call' f args tss rest) by assumption.
  cbn [cxb] in Ha. rewrite go_anodes in Ha. cbn [After] in Ha.
  assert (Hb : exists n, build fb (map (fun a => compile_r (arg_expr a)) args) = Some n).
  { apply (build_ok ap fb (map is_ref args)); [eapply table_compat; eassumption|assumption|].
    rewrite !map_length. reflexivity. }
  destruct Hb as [n Hb].
  assert (Hmk : mk_call f (map (fun a => compile_r (arg_expr a)) args) = n).
  { unfold mk_call. rewrite Ef, Hb. reflexivity. }
  rewrite Hmk in Ha.
  eapply runs_primary; [|exact Ha].
  assert (Hread : EvP (fun fu => segs_read (run fu) (asegs (aitems2 args tss)) (map (fun a => compile_r (arg_expr a)) args)
                                          (pk TCloseParen) rest)).
  { rewrite asegs_aitems2.
    apply (segs_read_ev2 apre arg_expr (pk TCloseParen) rest args tss H2); [|reflexivity|discriminate].
    apply Forall_conj; [eapply Forall_impl; [|exact IH]; intros a; apply T_EC'|exact Hw]. }
  eapply EvP_mono; [|apply EvP_and; [exact Hread|apply (EvP_ge (List.length (aitems2 args tss)))]].
  intros fu [H1 H3]. eapply prim_call; [exact Ef| |exact Hb].
  rewrite <- asegs_aitems2. apply pa_ok; try assumption.
  - rewrite (aitems2_fst args tss Hlen). exact Hc.
  - rewrite asegs_aitems2. destruct H2 as [|a t args tss Hx H2]; [congruence|]. unfold gsegs. cbn [combine map fst snd].
    rewrite segs_toks_cons. unfold apre.
    destruct a as [x|x]; cbn [is_ref arg_expr app] in *.
    + pose proof (PVg_starter x true _ t (tail_of (map (fun at_ : rarg * list token =>
                     (if is_ref (fst at_) then [pk TExpression] else [], snd at_)) (combine args tss)) (pk TCloseParen) rest) Hx) as Hst.
      apply starter_neq in Hst. apply Hst.
    + discriminate.
Qed.

Lemma ECU_let' bs body : Forall T' (body :: map snd bs) -> ECU' (RLet bs body).
Proof.
  intros IH. apply Forall_cons_iff in IH. destruct IH as [IHb IH]. apply -> Forall_map in IH.
  intros bd Hb p rest res Hw Hp Hn Hs Ha. apply wfr_let in Hw. destruct Hw as (Hne & Hd & Hw & Hwb).
  apply pvb_let in Hb. destruct Hb as (tss & tb & -> & H2 & Hpb). pose proof (F2_length _ _ _ H2) as Hlen.
  rewrite (toks_let' bs tss tb rest) by assumption.
  cbn [cxb] in Ha. rewrite go_knodes in Ha. cbn [After] in Ha.
  eapply runs_primary; [|exact Ha].
  assert (Hread : EvP (fun f => segs_read (run f) (lsegs (hitems2 bs tss)) (hns (hitems2 bs tss)) (pk TIn) (tb ++ rest))).
  { rewrite lsegs_hitems2, (hns_hitems2 bs tss Hlen).
    apply (segs_read_ev2 lpre (fun kx => snd kx) (pk TIn) (tb ++ rest) bs tss H2); [|reflexivity|discriminate].
    apply Forall_conj; [eapply Forall_impl; [|exact IH]; intros a; apply T_EC'|].
    eapply Forall_impl; [|exact Hw]. intros a [_ H]. exact H. }
  assert (Hbody : EvP (fun f => expr (run f) 1 (st_of (tb ++ rest)) = Ok (compile_r body, st_of rest))).
  { apply runs_expr_ev. apply (EXPR_PV body (T_EC' _ IHb) true L_PIPE tb Hpb 1 rest Hwb); [cbn; lia|assumption|exact Hs]. }
  eapply EvP_mono; [|apply EvP_and; [apply EvP_and; [exact Hread|exact Hbody]|apply (EvP_ge (List.length (hitems2 bs tss)))]].
  intros f [[H1 H3] H4]. rewrite <- lsegs_hitems2, <- (hkv_hitems2 bs tss Hlen). apply prim_let; auto.
  - intros E. pose proof (hitems2_length bs tss Hlen) as HL. rewrite E in HL. destruct bs; [congruence|discriminate].
  - rewrite (hkv_hitems2 bs tss Hlen), hkv_hitems, nodup_keys_map'. exact Hd.
Qed.

Lemma RC_none' e : (forall sp, ~ rhs_ok sp e) -> RC' e.
Proof. intros H ts Hpv sp rest res Hok. destruct (H sp Hok). Qed.

Lemma ECU_simple' e n t :
  (forall body, pvb e body -> body = [t]) -> cxb e = Plain (Some n) ->
  (forall rest, wfr e -> hdt rest <> TOpenParen -> forall rec k, primary rec k (st_of (t :: rest)) = Ok (n, st_of rest)) ->
  ECU' e.
Proof.
  intros Ht Hc Hp body Hb p rest res Hw _ Hn _ Ha. rewrite (Ht body Hb). rewrite Hc in Ha. cbn [app After] in *.
  eapply runs_primary; [|exact Ha]. exists O. intros f _. apply Hp; assumption.
Qed.

Theorem main_T' : forall e, T' e.
Proof.
  induction e as [e IH] using rexpr_children_ind.
  destruct e; cbn [rchildren] in IH.
  - (* @ *)
    split; [|split]; [| |exact I].
    + apply (ECU_simple' RCurrent NCurrent (pk TCurrent)); try reflexivity; [intros body Hb; exact Hb|].
      intros. apply prim_current.
    + intros ts Hpv sp rest res _ _ _ _ H. cbn [pvr] in Hpv. subst ts. exact H.
  - (* $ *)
    split; [|split]; [|apply RC_none'; intros sp H; exact H|exact I].
    apply (ECU_simple' RRoot NRoot (pk TRoot)); try reflexivity; [intros body Hb; exact Hb|].
    intros. apply prim_root.
  - (* field *)
    split; [|split]; [|apply RC_none'; intros sp H; exact H|exact I].
    apply (ECU_simple' (RField name) (NField name) (ident_tok name)); try reflexivity; [intros body Hb; exact Hb|].
    intros rest Hw Hn rec k. apply prim_field; assumption.
  - (* literal *)
    split; [|split]; [|apply RC_none'; intros sp H; exact H|exact I].
    apply (ECU_simple' (RLiteral v) (mk_lit v) (lit_tok v)); try reflexivity; [intros body Hb; exact Hb|].
    intros rest Hw Hn rec k. apply prim_lit; assumption.
  - (* raw string *)
    split; [|split]; [|apply RC_none'; intros sp H; exact H|exact I].
    apply (ECU_simple' (RRaw s) (NString s) (raw_tok s)); try reflexivity; [intros body Hb; exact Hb|].
    intros rest Hw Hn rec k. apply prim_raw.
  - (* variable *)
    split; [|split]; [|apply RC_none'; intros sp H; exact H|exact I].
    apply (ECU_simple' (RVar name) (NVariable name) (Tok TVariable name)); try reflexivity; [intros body Hb; exact Hb|].
    intros rest Hw Hn rec k. apply prim_var.
  - (* l.r *)
    inv_forall. rename H into T1, H0 into T2. clear IH.
    pose proof (T_EC' _ T1) as E1. pose proof (T_EC' _ T2) as E2.
    destruct T1 as (_ & R1 & _). destruct T2 as (_ & _ & M2).
    split; [|split]; [| |exact I].
    + intros body Hb p rest res Hw Hp Hn Hs Ha. destruct Hw as (Hw1 & Hsh & Hw2).
      destruct Hp as [Hp|Hp]; [|discriminate Hp].
      cbn [pvb] in Hb. destruct Hb as (tl & tr & -> & (n1 & b1 & -> & Hb1 & Hn1 & Ha1) & Hr).
      rewrite <- app_assoc. cbn [app]. apply (E1 n1 b1 Hb1); try assumption.
      * intros ->. left. eapply maxp_need; [exact Hp|apply need0, Hn1].
      * discriminate.
      * intros ->. apply (rok_left e1 L_POST); [cbn; lia|apply need0, Hn1].
      * apply (sub_step' e2 tr); try assumption; [cbn in Hp; lia|].
        rewrite cxb_sub in Ha.
        rewrite (sfx_sub_close (gq n1 e1) (cxq L_POST e1)) by (rewrite gq_close, cxq_close; reflexivity).
        exact Ha.
    + intros ts Hpv sp rest res Hok Hsp Hn Hs Ha. cbn [rhs_ok] in Hok. destruct Hok as (Hl & Ht & Hsh & Hwx).
      cbn [pvr] in Hpv. destruct Hpv as (tl & tx & -> & Hpl & Hpx).
      rewrite <- app_assoc. cbn [app]. apply (R1 tl Hpl); try assumption.
      * discriminate.
      * rewrite rcx_sub in Ha. apply (sub_step' e2 tx); try assumption. lia.
  - (* l[i] *)
    inv_forall. rename H into T1. clear IH.
    pose proof (T_EC' _ T1) as E1. destruct T1 as (_ & R1 & _).
    split; [|split]; [| |exact I].
    + intros body Hb p rest res Hw Hp Hn Hs Ha. destruct Hw as (Hw1 & Hnn & Hi).
      destruct Hp as [Hp|Hp]; [|discriminate Hp].
      cbn [pvb] in Hb. destruct Hb as (tl & -> & (n1 & b1 & -> & Hb1 & Hn1 & Ha1)).
      rewrite <- app_assoc. apply (E1 n1 b1 Hb1); try assumption.
      * intros ->. left. eapply maxp_need; [exact Hp|apply need0, Hn1].
      * discriminate.
      * intros ->. rewrite (xstop_post e (need0 _ Hn1) Hnn). unfold stops. apply prec_le_13.
      * apply idx_step; [assumption|cbn in Hp; lia|].
        rewrite (gq_cxq n1 e L_POST Hn1 Ha1). exact Ha.
    + intros ts Hpv sp rest res Hok Hsp Hn Hs Ha. cbn [rhs_ok] in Hok. destruct Hok as (Hl & Ht & Hi).
      cbn [pvr] in Hpv. destruct Hpv as (tl & -> & Hpl).
      rewrite <- app_assoc. apply (R1 tl Hpl); try assumption.
      * discriminate.
      * apply idx_step; [assumption|lia|exact Ha].
  - (* projections *)
    assert (HT : match k with PFilter c => T' c | _ => True end /\ T' e1 /\ T' e2).
    { destruct k; inv_forall; auto. }
    clear IH. destruct HT as (Tk & T1 & T2).
    pose proof (T_EC' _ T1) as E1. destruct T1 as (_ & R1 & _). destruct T2 as (_ & R2 & _).
    pose proof (RHS_of_RC' e2 R2) as Hrhs.
    assert (Hkc : forall (Hwc : match k with PFilter c => wfr c | _ => True end),
              match k with PFilter c => wfr c /\ EC' c | _ => True end).
    { destruct k; auto. intros Hwc. split; [exact Hwc|apply T_EC', Tk]. }
    split; [|split]; [| |exact I].
    + intros body Hb p rest res Hw Hp Hn Hs Ha. destruct Hw as (Hw1 & Hnn & Hsl & Hwc & Hok).
      destruct Hp as [Hp|Hp]; [|discriminate Hp].
      change (level (RProj k e1 e2)) with L_PROJ in *.
      assert (Hp7 : p <= 7) by (cbn in Hp; lia).
      cbn [xstop tstop] in Hs.
      apply pvb_proj_inv in Hb.
      destruct Hb as (tl & tk & tr & -> & Hpr & [(-> & -> & Hk0)|(Hne & Hpl & Hpk)]).
      * (* the projection starts the expression *)
        rewrite cxb_proj_cur in Ha.
        assert (Hr : EvP (fun f => projection (run f) (stop_k k) (st_of (tr ++ rest)) =
                                   Ok (close_opt (rcx e2), st_of rest))).
        { apply (Hrhs tr Hpr); try assumption.
          - destruct k; cbn; lia.
          - eapply stops_le; [exact Hs|lia].
          - eapply stops_le; [exact Hs|lia]. }
        cbn [app]. rewrite <- app_assoc.
        destruct k as [|a b c| |cond|]; cbn [pvk0 pvk ktoks] in Hk0;
          cbn [sfx_proj lift13 lower close_opt kcond stop_k After] in *.
        -- subst tk. cbn [app]. eapply runs_primary; [|exact Ha].
           eapply EvP_mono; [|exact Hr]. intros f Hf. apply prim_star, Hf.
        -- subst tk. eapply runs_primary; [|exact Ha].
           eapply EvP_mono; [|exact Hr]. intros f Hf. destruct Hsl as (Ha' & Hb' & Hc' & Hz).
           apply prim_slice; assumption.
        -- subst tk. cbn [app]. eapply runs_primary; [|exact Ha].
           eapply EvP_mono; [|exact Hr]. intros f Hf. apply prim_flatten, Hf.
        -- destruct Hk0 as (tc & -> & Hpc). destruct (Hkc Hwc) as [Hwc' Hec]. cbn [app].
           rewrite <- app_assoc. cbn [app]. eapply runs_primary; [|exact Ha].
           eapply EvP_mono; [|apply EvP_and; [exact Hr|apply runs_expr_ev;
             apply (EXPR_PV cond Hec true L_PIPE tc Hpc 1 (pk TCloseSqBrace :: tr ++ rest) Hwc')]].
           ++ intros f [Hf1 Hf2]. eapply prim_filter; [apply filter_ok; exact Hf2|exact Hf1].
           ++ cbn. lia.
           ++ discriminate.
           ++ unfold stops. cbn. lia.
        -- subst tk. cbn [app]. eapply runs_primary; [|exact Ha].
           eapply EvP_mono; [|exact Hr]. intros f Hf. apply prim_values, Hf.
      * rewrite cxb_proj_ncur in Ha by assumption.
        destruct Hpl as (n1 & b1 & -> & Hb1 & Hn1 & Ha1).
        rewrite <- !app_assoc. destruct (pvk_hd k tk (tr ++ rest) Hpk) as [Hh1 Hh2].
        apply (E1 n1 b1 Hb1); try assumption.
        -- intros ->. left. apply (maxp_need (lq k)); [destruct k; cbn; lia|apply need0, Hn1].
        -- intros ->. pose proof (need0 _ Hn1) as Hl. destruct k; cbn [lq sprec_k] in *;
             try (rewrite (xstop_post e1 Hl (Hnn eq_refl)); unfold stops; apply prec_le_13);
             (eapply rok_left; [|exact Hl]; rewrite Hh1; unfold lstop, L_POST, L_PROJ; cbn; lia).
        -- apply (proj_step' k e2 tk tr); try assumption.
           ++ apply Hkc, Hwc.
           ++ apply (Hrhs tr Hpr).
           ++ destruct k; cbn; lia.
           ++ rewrite (sfx_proj_gq k (kcond k) (close_opt (rcx e2)) n1 e1 (lq k) Hn1 Ha1). exact Ha.
    + intros ts Hpv sp rest res Hok Hsp Hn Hs Ha. cbn [rhs_ok] in Hok. destruct Hok as (Hl & Ht & Hsl & Hwc & Hokx).
      apply pvr_proj_inv in Hpv. destruct Hpv as (tl & tk & tx & -> & Hpl & Hpk & Hpx).
      rewrite rcx_proj in Ha. rewrite <- !app_assoc.
      destruct (pvk_hd k tk (tx ++ rest) Hpk) as [Hh1 Hh2].
      apply (R1 tl Hpl); try assumption.
      * unfold stops. rewrite Hh1. lia.
      * apply (proj_step' k e2 tk tx); try assumption; [apply Hkc, Hwc|apply (Hrhs tx Hpx)|lia].
  - (* [a, b] *)
    destruct (ECU_mlist' es IH) as [H1 H2]. split; [|split]; [exact H1|apply RC_none'; intros sp H; exact H|exact H2].
  - (* {k: a} *)
    destruct (ECU_mhash' kes IH) as [H1 H2]. split; [|split]; [exact H1|apply RC_none'; intros sp H; exact H|exact H2].
  - (* | *)
    inv_forall. split; [|split]; [|apply RC_none'; intros sp Hx; exact Hx|exact I].
    intros body Hb p rest res [Hw1 Hw2] Hp Hn Hs Ha. destruct Hp as [Hp|Hp]; [|discriminate Hp].
    change (maxp (level (RPipe e1 e2))) with 1 in Hp.
    cbn [pvb] in Hb. destruct Hb as (tl & tr & -> & Hpl & Hpr).
    apply (ECU_bin' e1 e2 L_PIPE L_OR 2 TPipe NPipe); try assumption; try (apply T_EC'; assumption);
      try reflexivity; try discriminate; try (cbn; lia).
    intros; apply cs_pipe; assumption.
  - (* || *)
    inv_forall. split; [|split]; [|apply RC_none'; intros sp Hx; exact Hx|exact I].
    intros body Hb p rest res [Hw1 Hw2] Hp Hn Hs Ha. destruct Hp as [Hp|Hp]; [|discriminate Hp].
    change (maxp (level (ROr e1 e2))) with 2 in Hp.
    cbn [pvb] in Hb. destruct Hb as (tl & tr & -> & Hpl & Hpr).
    apply (ECU_bin' e1 e2 L_OR L_AND 3 TOr NOr); try assumption; try (apply T_EC'; assumption);
      try reflexivity; try discriminate; try (cbn; lia).
    intros; apply cs_or; assumption.
  - (* && *)
    inv_forall. split; [|split]; [|apply RC_none'; intros sp Hx; exact Hx|exact I].
    intros body Hb p rest res [Hw1 Hw2] Hp Hn Hs Ha. destruct Hp as [Hp|Hp]; [|discriminate Hp].
    change (maxp (level (RAnd e1 e2))) with 3 in Hp.
    cbn [pvb] in Hb. destruct Hb as (tl & tr & -> & Hpl & Hpr).
    apply (ECU_bin' e1 e2 L_AND L_CMP 4 TAnd NAnd); try assumption; try (apply T_EC'; assumption);
      try reflexivity; try discriminate; try (cbn; lia).
    intros; apply cs_and; assumption.
  - (* ! *)
    inv_forall. rename H into T1. pose proof (T_EC' _ T1) as E1.
    split; [|split]; [|apply RC_none'; intros sp Hx; exact Hx|exact I].
    intros body Hb p rest res Hw Hp Hn Hs Ha. cbn [wfr] in Hw. cbn [xstop] in Hs.
    cbn [pvb] in Hb. destruct Hb as (tx & -> & (n1 & b1 & -> & Hb1 & Hn1 & _)).
    cbn [cxb After] in Ha. cbn [app]. eapply runs_primary; [|exact Ha].
    assert (Hat : n1 = O -> is_atom e = true).
    { intros ->. apply need0 in Hn1. destruct (is_atom e); [reflexivity|discriminate Hn1]. }
    assert (Hr : Runs (CExpr 12) (st_of (wrapn n1 b1 ++ rest)) (Some (compile_r e), st_of rest)).
    { apply (E1 n1 b1 Hb1); try assumption.
      - intros E. right. apply Hat, E.
      - intros E. rewrite (xstop_atom e (Hat E)). unfold stops. apply prec_le_13.
      - assert (Hg : gq n1 e = Plain (Some (compile_r e))).
        { destruct n1; [apply cxb_atom, Hat; reflexivity|reflexivity]. }
        rewrite Hg. cbn [After]. apply runs_stop. exact Hs. }
    eapply EvP_mono; [|apply runs_expr_ev, Hr]. intros f Hf. apply prim_not, Hf.
  - (* comparisons *)
    inv_forall. split; [|split]; [|apply RC_none'; intros sp Hx; exact Hx|exact I].
    intros body Hb p rest res [Hw1 Hw2] Hp Hn Hs Ha. destruct Hp as [Hp|Hp]; [|discriminate Hp].
    change (maxp (level (RCmp op e1 e2))) with 4 in Hp.
    cbn [pvb] in Hb. destruct Hb as (tl & tr & -> & Hpl & Hpr).
    apply (ECU_bin' e1 e2 L_CMP L_ADD 5 (cmp_ttype op) (mk_cmp op)); try assumption; try (apply T_EC'; assumption);
      try reflexivity; try (destruct op; (reflexivity || discriminate)); try (cbn; lia).
    intros; apply cs_cmp; assumption.
  - (* arithmetic *)
    inv_forall. split; [|split]; [|apply RC_none'; intros sp Hx; exact Hx|exact I].
    intros body Hb p rest res [Hw1 Hw2] Hp Hn Hs Ha. destruct Hp as [Hp|Hp]; [|discriminate Hp].
    cbn [pvb] in Hb. destruct Hb as (tl & tr & -> & Hpl & Hpr).
    destruct op;
      match goal with |- context [ar_ttype ?o] =>
        apply (ECU_bin' e1 e2 (ar_level o) (ar_level o + 1) (precedence (ar_ttype o)) (ar_ttype o) (mk_ar o));
          try assumption; try (apply T_EC'; assumption);
          try reflexivity; try discriminate; try (cbn in Hp |- *; lia);
          try (intros; apply cs_ar; assumption)
      end.
  - (* unary - *)
    inv_forall. rename H into T1. pose proof (T_EC' _ T1) as E1.
    split; [|split]; [|apply RC_none'; intros sp Hx; exact Hx|exact I].
    intros body Hb p rest res Hw Hp Hn Hs Ha. cbn [wfr] in Hw. cbn [xstop] in Hs. cbn [cxb After] in Ha.
    cbn [pvb] in Hb. destruct Hb as (tx & -> & Hpx).
    apply (ECU_prefix' e TSubtract L_PROJ 7 NNegate); try assumption; [cbn; lia|].
    intros; apply prim_neg; assumption.
  - (* unary + *)
    inv_forall. rename H into T1. pose proof (T_EC' _ T1) as E1.
    split; [|split]; [|apply RC_none'; intros sp Hx; exact Hx|exact I].
    intros body Hb p rest res Hw Hp Hn Hs Ha. cbn [wfr] in Hw. cbn [xstop] in Hs. cbn [cxb After] in Ha.
    cbn [pvb] in Hb. destruct Hb as (tx & -> & Hpx).
    apply (ECU_prefix' e TAdd L_PROJ 7 NAssertNumber); try assumption; [cbn; lia|].
    intros; apply prim_pos; assumption.
  - (* function call *)
    split; [|split]; [apply ECU_call', IH|apply RC_none'; intros sp Hx; exact Hx|exact I].
  - (* let *)
    split; [|split]; [apply ECU_let', IH|apply RC_none'; intros sp Hx; exact Hx|exact I].
Qed.

(* ================================================================== *)
(* 7. Main theorems                                                    *)
(* ================================================================== *)

(* any rendering of e with redundant parentheses parses to the node of the minimal rendering *)
Theorem paren_variant_same : forall e ts, wfr e -> paren_variant e ts ->
  exists fuel0, forall fuel, (fuel0 <= fuel)%nat ->
    parse_items fuel (map ITok ts ++ [ITok (Tok TEnd [])]) = Ok (compile_r e).
Proof.
  intros e ts Hw Hpv.
  assert (H : Runs (CExpr 1) (st_of (ts ++ [])) (Some (compile_r e), st_of [])).
  { apply (EXPR_PV e (T_EC' e (main_T' e)) true 0 ts Hpv 1 [] Hw); [cbn; lia|discriminate|unfold stops; cbn; lia]. }
  destruct H as [f0 H]. exists f0. intros fuel Hf.
  change (map ITok ts ++ [ITok (Tok TEnd [])]) with (items ts).
  rewrite parse_items_st. rewrite app_nil_r in H. rewrite (H fuel Hf). reflexivity.
Qed.

(* ================================================================== *)
(* 8. toks_sel (hence toks_full) and toks_of are paren variants        *)
(* ================================================================== *)

Lemma PVg_cnt sel (P : list token -> Prop) allow need x body :
  P body -> PVg P allow need (wrapn (cnt sel allow need x) body).
Proof.
  intros H. exists (cnt sel allow need x), body. split; [reflexivity|]. split; [exact H|]. unfold cnt. split.
  - intros ->. lia.
  - intros -> Hn. destruct allow; [reflexivity|]. cbn in Hn. exfalso. apply Hn. reflexivity.
Qed.

Section SelFacts.
Variable sel : rexpr -> nat.

Definition wq (q : Z) (x : rexpr) : list token := wrapn (cnt sel true (level x <? q) x) (tkb sel x).

Lemma go_mparts es :
  (fix go (l : list rexpr) : list (list token) :=
     match l with [] => [] | x :: r => wrapn (cnt sel true (level x <? L_PIPE) x) (tkb sel x) :: go r end) es =
  map (wq L_PIPE) es.
Proof. induction es as [|x es IH]; [reflexivity|]. cbn [map]. f_equal; try exact IH. Qed.

Lemma go_hparts kes :
  (fix go (l : list (bytes * rexpr)) : list (list token) :=
     match l with
     | [] => []
     | (k, x) :: r => (ident_tok k :: pk TColon :: wrapn (cnt sel true (level x <? L_PIPE) x) (tkb sel x)) :: go r
     end) kes = hparts kes (map (fun kx => wq L_PIPE (snd kx)) kes).
Proof. induction kes as [|[k x] kes IH]; [reflexivity|]. unfold hparts in *. cbn [map combine fst snd]. f_equal. exact IH. Qed.

Lemma go_lparts bs :
  (fix go (l : list (bytes * rexpr)) : list (list token) :=
     match l with
     | [] => []
     | (n, x) :: r => (Tok TVariable n :: pk TAssign :: wrapn (cnt sel true (level x <? L_PIPE) x) (tkb sel x)) :: go r
     end) bs = lparts bs (map (fun kx => wq L_PIPE (snd kx)) bs).
Proof. induction bs as [|[k x] bs IH]; [reflexivity|]. unfold lparts in *. cbn [map combine fst snd]. f_equal. exact IH. Qed.

Lemma go_aparts args :
  (fix go (l : list rarg) : list (list token) :=
     match l with
     | [] => []
     | AExpr x :: r => wrapn (cnt sel true (level x <? L_PIPE) x) (tkb sel x) :: go r
     | ARef x :: r => (pk TExpression :: wrapn (cnt sel true (level x <? L_PIPE) x) (tkb sel x)) :: go r
     end) args = aparts args (map (fun a => wq L_PIPE (arg_expr a)) args).
Proof.
  induction args as [|[x|x] args IH]; [reflexivity| |]; unfold aparts in *;
    cbn [map combine fst snd is_ref arg_expr app]; f_equal; exact IH.
Qed.

Lemma F2_map {A} (ex : A -> rexpr) (l : list A) :
  Forall (fun a => pvb (ex a) (tkb sel (ex a))) l ->
  Forall2 (fun a t => PVo L_PIPE (ex a) t) l (map (fun a => wq L_PIPE (ex a)) l).
Proof.
  induction 1 as [|a l Ha _ IH]; cbn [map]; constructor; [|exact IH].
  unfold PVo, wq. apply PVg_cnt, Ha.
Qed.

Lemma pv_tkb : forall e, pvb e (tkb sel e) /\ pvr e (tkr sel e).
Proof.
  induction e as [e IH] using rexpr_children_ind.
  assert (Hpos : forall x allow need, pvb x (tkb sel x) -> PVg (pvb x) allow need (wrapn (cnt sel allow need x) (tkb sel x))).
  { intros x allow need H. apply PVg_cnt, H. }
  destruct e; cbn [rchildren] in IH.
  - split; reflexivity.
  - split; reflexivity.
  - split; reflexivity.
  - split; reflexivity.
  - split; reflexivity.
  - split; reflexivity.
  - inv_forall. destruct H as [B1 C1], H0 as [B2 C2]. split.
    + cbn [pvb tkb]. eexists _, _. split; [reflexivity|]. split; apply Hpos; assumption.
    + cbn [pvr tkr]. eexists _, _. split; [reflexivity|]. split; [assumption|apply Hpos; assumption].
  - inv_forall. destruct H as [B1 C1]. split.
    + cbn [pvb tkb]. eexists. split; [reflexivity|]. apply Hpos; assumption.
    + cbn [pvr tkr]. eexists. split; [reflexivity|]. assumption.
  - assert (HT : match k with PFilter c => pvb c (tkb sel c) | _ => True end /\
                 (pvb e1 (tkb sel e1) /\ pvr e1 (tkr sel e1)) /\ (pvb e2 (tkb sel e2) /\ pvr e2 (tkr sel e2))).
    { destruct k; inv_forall; try tauto; destruct H; tauto. }
    clear IH. destruct HT as (Bk & [B1 C1] & [B2 C2]). split.
    + cbn [pvb tkb]. cbv zeta. eexists _, _, _. split; [reflexivity|]. split; [|split; [|exact C2]].
      * destruct e1; try reflexivity; apply Hpos; assumption.
      * destruct k; try reflexivity. eexists. split; [reflexivity|]. apply Hpos; assumption.
    + cbn [pvr tkr]. cbv zeta. eexists _, _, _. split; [reflexivity|]. split; [exact C1|]. split; [|exact C2].
      destruct k; try reflexivity. eexists. split; [reflexivity|]. apply Hpos; assumption.
  - split; [|reflexivity]. apply pvb_mlist. exists (map (wq L_PIPE) es). split.
    + cbn [tkb]. cbv zeta. rewrite go_mparts. reflexivity.
    + apply (F2_map (fun x => x)). eapply Forall_impl; [|exact IH]. intros a [H _]. exact H.
  - split; [|reflexivity]. apply -> Forall_map in IH.
    apply pvb_mhash. exists (map (fun kx => wq L_PIPE (snd kx)) kes). split.
    + cbn [tkb]. cbv zeta. rewrite go_hparts. reflexivity.
    + apply (F2_map (fun kx : bytes * rexpr => snd kx)). eapply Forall_impl; [|exact IH]. intros a [H _]. exact H.
  - inv_forall. destruct H as [B1 _], H0 as [B2 _]. split; [|reflexivity].
    cbn [pvb tkb]. eexists _, _. split; [reflexivity|]. split; apply Hpos; assumption.
  - inv_forall. destruct H as [B1 _], H0 as [B2 _]. split; [|reflexivity].
    cbn [pvb tkb]. eexists _, _. split; [reflexivity|]. split; apply Hpos; assumption.
  - inv_forall. destruct H as [B1 _], H0 as [B2 _]. split; [|reflexivity].
    cbn [pvb tkb]. eexists _, _. split; [reflexivity|]. split; apply Hpos; assumption.
  - inv_forall. destruct H as [B1 _]. split; [|reflexivity].
    cbn [pvb tkb]. eexists. split; [reflexivity|]. apply Hpos; assumption.
  - inv_forall. destruct H as [B1 _], H0 as [B2 _]. split; [|reflexivity].
    cbn [pvb tkb]. eexists _, _. split; [reflexivity|]. split; apply Hpos; assumption.
  - inv_forall. destruct H as [B1 _], H0 as [B2 _]. split; [|reflexivity].
    cbn [pvb tkb]. eexists _, _. split; [reflexivity|]. split; apply Hpos; assumption.
  - inv_forall. destruct H as [B1 _]. split; [|reflexivity].
    cbn [pvb tkb]. eexists. split; [reflexivity|]. apply Hpos; assumption.
  - inv_forall. destruct H as [B1 _]. split; [|reflexivity].
    cbn [pvb tkb]. eexists. split; [reflexivity|]. apply Hpos; assumption.
  - split; [|reflexivity]. apply -> Forall_map in IH.
    apply pvb_call. exists (map (fun a => wq L_PIPE (arg_expr a)) args). split.
    + cbn [tkb]. cbv zeta. rewrite go_aparts. reflexivity.
    + apply (F2_map arg_expr). eapply Forall_impl; [|exact IH]. intros a [H _]. exact H.
  - lazymatch goal with |- pvb (RLet _ ?b) _ /\ _ => rename b into body0 end.
    split; [|reflexivity]. apply Forall_cons_iff in IH. destruct IH as [[Bb _] IH]. apply -> Forall_map in IH.
    apply pvb_let. exists (map (fun kx => wq L_PIPE (snd kx)) bs), (wq L_PIPE body0). split; [|split].
    + cbn [tkb]. cbv zeta. rewrite go_lparts. reflexivity.
    + apply (F2_map (fun kx : bytes * rexpr => snd kx)). eapply Forall_impl; [|exact IH]. intros a [H _]. exact H.
    + unfold PVo, wq. apply Hpos, Bb.
Qed.

Theorem toks_sel_variant : forall e, paren_variant e (toks_sel sel e).
Proof.
  intros e. unfold paren_variant, PVo, toks_sel.
  replace (level e <? 0) with false by (symmetry; apply Z.ltb_ge; apply level_range).
  apply PVg_cnt, pv_tkb.
Qed.
End SelFacts.

Lemma tkb_proj sel k l r : tkb sel (RProj k l r) =
  match l with
  | RCurrent => []
  | _ => wrapn (cnt sel (is_closed l || lowers k) (level l <? lq k) l) (tkb sel l)
  end ++
  match k with
  | PFilter cond => pk TFilter :: wrapn (cnt sel true (level cond <? L_PIPE) cond) (tkb sel cond) ++ [pk TCloseSqBrace]
  | PValues => match l with RCurrent => [pk TAsterisk] | _ => [pk TObjectWildcard] end
  | _ => ktoks k
  end ++ tkr sel r.
Proof. reflexivity. Qed.

(* ---- sel = 0 is the canonical rendering ---- *)
Definition sel0 (x : rexpr) : nat := O.

Lemma wrap0 allow need x b : wrapn (cnt sel0 allow need x) b = if need then wrapt b else b.
Proof. unfold cnt, sel0. destruct need, allow; reflexivity. Qed.

Lemma level_nonneg e : (level e <? 0) = false.
Proof. apply Z.ltb_ge. apply level_range. Qed.

Lemma tk0_pos q x allow : tkb sel0 x = toks_of (level x) x ->
  wrapn (cnt sel0 allow (level x <? q) x) (tkb sel0 x) = toks_of q x.
Proof. intros H. rewrite wrap0, (toks_of_q q x), H. reflexivity. Qed.

Lemma tk0 : forall e, tkb sel0 e = toks_of (level e) e /\ tkr sel0 e = rhs_toks e.
Proof.
  induction e as [e IH] using rexpr_children_ind.
  destruct e; cbn [rchildren] in IH.
  - split; reflexivity.
  - split; reflexivity.
  - split; reflexivity.
  - split; reflexivity.
  - split; reflexivity.
  - split; reflexivity.
  - inv_forall. destruct H as [B1 C1], H0 as [B2 C2]. split.
    + cbn [tkb toks_of level]. rewrite Z.ltb_irrefl, !tk0_pos by assumption. reflexivity.
    + cbn [tkr rhs_toks]. rewrite C1, tk0_pos by assumption. reflexivity.
  - inv_forall. destruct H as [B1 C1]. split.
    + cbn [tkb toks_of level]. rewrite Z.ltb_irrefl, !tk0_pos by assumption. reflexivity.
    + cbn [tkr rhs_toks]. rewrite C1. reflexivity.
  - assert (HT : match k with PFilter c => tkb sel0 c = toks_of (level c) c | _ => True end /\
                 (tkb sel0 e1 = toks_of (level e1) e1 /\ tkr sel0 e1 = rhs_toks e1) /\
                 (tkb sel0 e2 = toks_of (level e2) e2 /\ tkr sel0 e2 = rhs_toks e2)).
    { destruct k; inv_forall; try tauto; destruct H; tauto. }
    clear IH. destruct HT as (Bk & [B1 C1] & [B2 C2]). split.
    + rewrite tkb_proj. cbn [toks_of level]. cbv zeta. rewrite Z.ltb_irrefl, C2.
      f_equal; [|f_equal].
      * destruct e1; try reflexivity; apply (tk0_pos (lq k)); assumption.
      * destruct k; try reflexivity. rewrite tk0_pos by assumption. reflexivity.
    + cbn [tkr rhs_toks]. cbv zeta. rewrite C1, C2. f_equal. f_equal.
      destruct k; try reflexivity. rewrite tk0_pos by assumption. reflexivity.
  - split; [|reflexivity]. cbn [tkb toks_of level]. rewrite Z.ltb_irrefl. cbv zeta. f_equal. f_equal. f_equal.
    induction es as [|x es IHes]; [reflexivity|]. apply Forall_cons_iff in IH. destruct IH as [[Hx _] IH].
    f_equal; [apply tk0_pos, Hx|apply IHes, IH].
  - split; [|reflexivity]. cbn [tkb toks_of level]. rewrite Z.ltb_irrefl. cbv zeta. f_equal. f_equal. f_equal.
    induction kes as [|[k x] kes IHk]; [reflexivity|]. cbn [map snd] in IH. apply Forall_cons_iff in IH.
    destruct IH as [[Hx _] IH]. f_equal; [rewrite tk0_pos by exact Hx; reflexivity|apply IHk, IH].
  - inv_forall. destruct H as [B1 _], H0 as [B2 _]. split; [|reflexivity].
    cbn [tkb toks_of level]. rewrite Z.ltb_irrefl, !tk0_pos by assumption. reflexivity.
  - inv_forall. destruct H as [B1 _], H0 as [B2 _]. split; [|reflexivity].
    cbn [tkb toks_of level]. rewrite Z.ltb_irrefl, !tk0_pos by assumption. reflexivity.
  - inv_forall. destruct H as [B1 _], H0 as [B2 _]. split; [|reflexivity].
    cbn [tkb toks_of level]. rewrite Z.ltb_irrefl, !tk0_pos by assumption. reflexivity.
  - inv_forall. destruct H as [B1 _]. split; [|reflexivity].
    cbn [tkb toks_of level]. rewrite Z.ltb_irrefl, wrap0. f_equal.
    destruct (is_atom e) eqn:Eat; cbn [negb].
    + rewrite B1, (level_atom e Eat). reflexivity.
    + rewrite (toks_of_q L_LET e), level_nonneg, B1. reflexivity.
  - inv_forall. destruct H as [B1 _], H0 as [B2 _]. split; [|reflexivity].
    cbn [tkb toks_of level]. rewrite Z.ltb_irrefl, !tk0_pos by assumption. reflexivity.
  - inv_forall. destruct H as [B1 _], H0 as [B2 _]. split; [|reflexivity].
    cbn [tkb toks_of]. fold (ar_level op). change (level (RArith op e1 e2)) with (ar_level op).
    rewrite Z.ltb_irrefl, !tk0_pos by assumption. reflexivity.
  - inv_forall. destruct H as [B1 _]. split; [|reflexivity].
    cbn [tkb toks_of level]. rewrite Z.ltb_irrefl, !tk0_pos by assumption. reflexivity.
  - inv_forall. destruct H as [B1 _]. split; [|reflexivity].
    cbn [tkb toks_of level]. rewrite Z.ltb_irrefl, !tk0_pos by assumption. reflexivity.
  - split; [|reflexivity]. cbn [tkb toks_of level]. rewrite Z.ltb_irrefl. cbv zeta. f_equal. f_equal. f_equal. f_equal.
    induction args as [|a args IHa]; [reflexivity|]. cbn [map] in IH. apply Forall_cons_iff in IH.
    destruct IH as [[Hx _] IH]. destruct a as [x|x]; cbn [arg_expr] in Hx;
      (f_equal; [rewrite tk0_pos by exact Hx; reflexivity|apply IHa, IH]).
  - split; [|reflexivity]. apply Forall_cons_iff in IH. destruct IH as [[Bb _] IH].
    cbn [tkb toks_of level]. rewrite Z.ltb_irrefl. cbv zeta. rewrite tk0_pos by exact Bb. f_equal. f_equal. f_equal.
    induction bs as [|[k x] bs IHb]; [reflexivity|]. cbn [map snd] in IH. apply Forall_cons_iff in IH.
    destruct IH as [[Hx _] IH]. f_equal; [rewrite tk0_pos by exact Hx; reflexivity|apply IHb, IH].
Qed.

Theorem toks_sel_zero : forall e, toks_sel sel0 e = toks_of 0 e.
Proof.
  intros e. unfold toks_sel. rewrite wrap0. rewrite (proj1 (tk0 e)), (toks_of_q 0 e), level_nonneg. reflexivity.
Qed.

Theorem toks_of_variant : forall e, paren_variant e (toks_of 0 e).
Proof. intros e. rewrite <- toks_sel_zero. apply toks_sel_variant. Qed.

Theorem toks_full_variant : forall e, paren_variant e (toks_full e).
Proof. intros e. apply toks_sel_variant. Qed.

(* ---- C10, last clause, for the whole language ---- *)
Theorem full_paren_same_all : forall e, wfr e -> exists fuel0, forall fuel, (fuel0 <= fuel)%nat ->
  parse_items fuel (map ITok (toks_full e) ++ [ITok (Tok TEnd [])]) = Ok (compile_r e).
Proof. intros e Hw. apply paren_variant_same; [exact Hw|apply toks_full_variant]. Qed.

(* the two renderings side by side *)
Corollary full_paren_same_both : forall e, wfr e -> exists fuel0, forall fuel, (fuel0 <= fuel)%nat ->
  parse_items fuel (map ITok (toks_full e) ++ [ITok (Tok TEnd [])]) =
  parse_items fuel (map ITok (toks_of 0 e) ++ [ITok (Tok TEnd [])]) /\
  parse_items fuel (map ITok (toks_of 0 e) ++ [ITok (Tok TEnd [])]) = Ok (compile_r e).
Proof.
  intros e Hw. destruct (full_paren_same_all e Hw) as [f1 H1]. destruct (parse_unparse_toks e Hw) as [f2 H2].
  exists (Nat.max f1 f2). intros fuel Hf. rewrite H1, H2 by lia. split; reflexivity.
Qed.

(* every choice of pairs *)
Corollary toks_sel_same : forall sel e, wfr e -> exists fuel0, forall fuel, (fuel0 <= fuel)%nat ->
  parse_items fuel (map ITok (toks_sel sel e) ++ [ITok (Tok TEnd [])]) = Ok (compile_r e).
Proof. intros sel e Hw. apply paren_variant_same; [exact Hw|apply toks_sel_variant]. Qed.

(* ================================================================== *)
(* 9. Outcomes: redundant parentheses never change what is computed    *)
(* ================================================================== *)
From JM Require Import Model.Slice Model.Eval Proofs.EvalRefines.
From JM Require Proofs.Termination Model.Api.

(* a text that lexes to a paren variant of e parses, with the fuel of [parse], to the node of e *)
Theorem variant_text_parses : forall e ts txt, wfr e -> paren_variant e ts ->
  lex_all txt = map ITok ts ++ [ITok (Tok TEnd [])] -> parse txt = Ok (compile_r e).
Proof.
  intros e ts txt Hw Hpv Hlex. destruct (paren_variant_same e ts Hw Hpv) as [f0 H].
  unfold parse.
  pose proof (Termination.parse_items_no_fuel txt (parse_fuel txt)) as Hnf.
  assert (Hlt : (List.length txt < parse_fuel txt)%nat) by (unfold parse_fuel; lia).
  specialize (Hnf Hlt).
  destruct (parse_items_mono (parse_fuel txt) (Nat.max f0 (parse_fuel txt)) (lex_all txt) ltac:(lia)) as [E|E];
    [contradiction|].
  rewrite <- E. rewrite Hlex. apply H. lia.
Qed.

(* what the evaluator computes on the node of e *)
Lemma compile_means_spec e : wfr e -> plain_r e -> forall root cur vars, slices_short root e cur vars ->
  eval root (compile_r e) cur vars = ref_eval root e cur vars.
Proof.
  intros Hw Hp root cur vars Hs. destruct (compile_good e Hw Hp) as (H1 & H2 & H3).
  rewrite (eval_refines_slice1 root (compile_r e) cur vars H1 H2 H3). apply norm_invisible; assumption.
Qed.

(* token level: evaluating the parse of any paren variant = evaluating the parse of the minimal rendering *)
Corollary paren_variant_same_outcome : forall e ts, wfr e -> paren_variant e ts ->
  exists fuel0, forall fuel, (fuel0 <= fuel)%nat -> forall root cur vars,
    bind (parse_items fuel (map ITok ts ++ [ITok (Tok TEnd [])])) (fun n => eval root n cur vars) =
    bind (parse_items fuel (map ITok (toks_of 0 e) ++ [ITok (Tok TEnd [])])) (fun n => eval root n cur vars).
Proof.
  intros e ts Hw Hpv. destruct (paren_variant_same e ts Hw Hpv) as [f1 H1].
  destruct (parse_unparse_toks e Hw) as [f2 H2]. exists (Nat.max f1 f2). intros fuel Hf root cur vars.
  rewrite H1, H2 by lia. reflexivity.
Qed.

Corollary full_paren_same_outcome : forall e, wfr e ->
  exists fuel0, forall fuel, (fuel0 <= fuel)%nat -> forall root cur vars,
    bind (parse_items fuel (map ITok (toks_full e) ++ [ITok (Tok TEnd [])])) (fun n => eval root n cur vars) =
    bind (parse_items fuel (map ITok (toks_of 0 e) ++ [ITok (Tok TEnd [])])) (fun n => eval root n cur vars).
Proof. intros e Hw. apply paren_variant_same_outcome; [exact Hw|apply toks_full_variant]. Qed.

(* ... and it is the outcome the specification gives for e (no stepped slice, no zip: plain_r) *)
Corollary full_paren_means_spec : forall e, wfr e -> plain_r e ->
  exists fuel0, forall fuel, (fuel0 <= fuel)%nat -> forall root cur vars, slices_short root e cur vars ->
    bind (parse_items fuel (map ITok (toks_full e) ++ [ITok (Tok TEnd [])])) (fun n => eval root n cur vars) =
    ref_eval root e cur vars.
Proof.
  intros e Hw Hp. destruct (full_paren_same_all e Hw) as [f0 H]. exists f0. intros fuel Hf root cur vars Hs.
  rewrite H by assumption. cbn [bind]. apply compile_means_spec; assumption.
Qed.

(* text level, public API: Search on any text that lexes to a paren variant of e returns, for every
   document, what Search returns on the canonical text of e *)
Corollary variant_text_same_search : forall e ts txt, wfr e -> paren_variant e ts ->
  lex_all txt = map ITok ts ++ [ITok (Tok TEnd [])] ->
  lex_all (unparse e) = map ITok (toks_of 0 e) ++ [ITok (Tok TEnd [])] ->
  forall doc, Api.search txt doc = Api.search (unparse e) doc.
Proof.
  intros e ts txt Hw Hpv Hlex Hlex0 doc. unfold Api.search.
  rewrite (variant_text_parses e ts txt Hw Hpv Hlex), (parse_unparse_node e Hw Hlex0). reflexivity.
Qed.

Corollary variant_text_means_spec : forall e ts txt, wfr e -> plain_r e -> paren_variant e ts ->
  lex_all txt = map ITok ts ++ [ITok (Tok TEnd [])] ->
  forall doc, slices_short doc e doc [] -> Api.search txt doc = Api.lift_eval (ref_search e doc).
Proof.
  intros e ts txt Hw Hp Hpv Hlex doc Hs. unfold Api.search.
  rewrite (variant_text_parses e ts txt Hw Hpv Hlex). cbn [Api.lift_parse].
  unfold Api.expression_search, evaluate, ref_search. rewrite compile_means_spec by assumption. reflexivity.
Qed.

(* ================================================================== *)
(* 10. Grouping, for arbitrary well-formed operands                    *)
(* ================================================================== *)

(* the 15 binary operators of the reference syntax *)
Inductive rbop := BRPipe | BROr | BRAnd | BRCmp (op : cmpop) | BRArith (op : arop).

Definition rbin (o : rbop) (l r : rexpr) : rexpr :=
  match o with
  | BRPipe => RPipe l r | BROr => ROr l r | BRAnd => RAnd l r
  | BRCmp op => RCmp op l r | BRArith op => RArith op l r
  end.
Definition blevel (o : rbop) : Z := level (rbin o RCurrent RCurrent).
(* the level at which the right operand is printed *)
Definition nxt (o : rbop) : Z :=
  match o with
  | BRPipe => L_OR | BROr => L_AND | BRAnd => L_CMP | BRCmp _ => L_ADD | BRArith op => ar_level op + 1
  end.
Definition btok (o : rbop) : token :=
  pk (match o with
      | BRPipe => TPipe | BROr => TOr | BRAnd => TAnd | BRCmp op => cmp_ttype op | BRArith op => ar_ttype op
      end).
Definition mkb (o : rbop) (l r : node) : node :=
  match o with
  | BRPipe => NPipe l r | BROr => NOr l r | BRAnd => NAnd l r
  | BRCmp op => mk_cmp op l r | BRArith op => mk_ar op l r
  end.

Lemma compile_rbin o l r : compile_r (rbin o l r) = mkb o (compile_r l) (compile_r r).
Proof. destruct o; reflexivity. Qed.
Lemma level_rbin o l r : level (rbin o l r) = blevel o.
Proof. destruct o; reflexivity. Qed.
Lemma wfr_rbin o l r : wfr l -> wfr r -> wfr (rbin o l r).
Proof. intros; destruct o; split; assumption. Qed.
Lemma blevel_range o : 1 <= blevel o <= 7 /\ blevel o < nxt o <= 8.
Proof. destruct o as [| | |[]|[]]; unfold blevel, nxt, rbin, level, ar_level; unlev; lia. Qed.
Lemma nxt_le o o' : blevel o < blevel o' -> nxt o <= blevel o'.
Proof. destruct o as [| | |[]|[]], o' as [| | |[]|[]]; unfold blevel, nxt, rbin, level, ar_level; unlev; lia. Qed.
(* the levels of the printer are the binding powers of the parser, in the same order *)
Lemma blevel_precedence o o' : blevel o < blevel o' <-> precedence (ttyp (btok o)) < precedence (ttyp (btok o')).
Proof.
  destruct o as [| | |[]|[]], o' as [| | |[]|[]];
    unfold blevel, btok, rbin, level, cmp_ttype, ar_ttype, pk, ttyp, precedence; unlev; lia.
Qed.

Lemma pvb_toks_of x : pvb x (toks_of (level x) x).
Proof. rewrite <- (proj1 (tk0 x)). apply pv_tkb. Qed.

Lemma PVo_bare q e body : pvb e body -> q <= level e -> PVo q e body.
Proof.
  intros H Hq. exists O, body. split; [reflexivity|]. split; [exact H|]. split.
  - intros E. apply Z.ltb_lt in E. lia.
  - intros _ Hn. congruence.
Qed.
Lemma PVo_wrap q e body : pvb e body -> PVo q e (wrapt body).
Proof.
  intros H. exists 1%nat, body. split; [reflexivity|]. split; [exact H|]. split; [discriminate|reflexivity].
Qed.
(* an operand printed for a tighter position than the one it is in *)
Lemma PVo_toks_of q q' x : q <= q' -> PVo q x (toks_of q' x).
Proof.
  intros Hq. rewrite toks_of_q. destruct (level x <? q') eqn:E.
  - apply PVo_wrap, pvb_toks_of.
  - apply PVo_bare; [apply pvb_toks_of|]. apply Z.ltb_ge in E. lia.
Qed.

Lemma pvb_rbin o l r tl tr : PVo (blevel o) l tl -> PVo (nxt o) r tr -> pvb (rbin o l r) (tl ++ btok o :: tr).
Proof. intros H1 H2. destruct o; cbn [rbin pvb]; eexists _, _; (split; [reflexivity|split; assumption]). Qed.

(* an operand: selector chains, projections and atoms bare, everything else in parentheses *)
Definition operand (x : rexpr) : list token := toks_of L_POST x.
(* the operand of ! : an atom, or anything in parentheses *)
Definition primary_operand (x : rexpr) : list token :=
  if is_atom x then toks_of L_POST x else wrapt (toks_of 0 x).

Lemma PVo_operand q x : q <= L_POST -> PVo q x (operand x).
Proof. apply PVo_toks_of. Qed.

Lemma pvb_not x : pvb (RNot x) (pk TNot :: primary_operand x).
Proof.
  cbn [pvb]. eexists. split; [reflexivity|]. unfold primary_operand. destruct (is_atom x) eqn:Eat; cbn [negb].
  - rewrite <- (level_atom x Eat). exists O, (toks_of (level x) x).
    split; [reflexivity|]. split; [apply pvb_toks_of|]. split; [discriminate|]. intros _ Hn. congruence.
  - rewrite (toks_of_q 0 x), level_nonneg. exists 1%nat, (toks_of (level x) x).
    split; [reflexivity|]. split; [apply pvb_toks_of|]. split; [discriminate|reflexivity].
Qed.

Lemma variant_parses e body : wfr e -> pvb e body -> parses_to body (compile_r e).
Proof.
  intros Hw Hb. unfold parses_to, items, tend. apply paren_variant_same; [exact Hw|].
  apply PVo_bare; [exact Hb|apply level_range].
Qed.

(* A op B op' C, for all operands: the operator that binds tighter takes B; on a tie the left one
   (tighter_binds_first / left_assoc of the operator fragment, for the whole language) *)
Theorem tighter_binds_first_all : forall o o' a b c, wfr a -> wfr b -> wfr c ->
  let flat := operand a ++ btok o :: operand b ++ btok o' :: operand c in
  (blevel o < blevel o' ->
     parses_to flat (mkb o (compile_r a) (mkb o' (compile_r b) (compile_r c)))) /\
  (blevel o' <= blevel o ->
     parses_to flat (mkb o' (mkb o (compile_r a) (compile_r b)) (compile_r c))).
Proof.
  intros o o' a b c Ha Hb Hc flat.
  destruct (blevel_range o) as [R1 R2]. destruct (blevel_range o') as [R3 R4]. unfold L_POST in *.
  split; intros Hlv.
  - rewrite <- !compile_rbin. apply variant_parses; [auto using wfr_rbin|].
    apply pvb_rbin; [apply PVo_operand; unfold L_POST; lia|].
    apply PVo_bare; [|rewrite level_rbin; apply nxt_le, Hlv].
    apply pvb_rbin; apply PVo_operand; unfold L_POST; lia.
  - rewrite <- !compile_rbin. apply variant_parses; [auto using wfr_rbin|]. unfold flat.
    change (operand a ++ btok o :: operand b ++ btok o' :: operand c)
      with (operand a ++ (btok o :: operand b) ++ btok o' :: operand c).
    rewrite app_assoc.
    apply pvb_rbin; [|apply PVo_operand; unfold L_POST; lia].
    apply PVo_bare; [|rewrite level_rbin; exact Hlv].
    apply pvb_rbin; apply PVo_operand; unfold L_POST; lia.
Qed.

Corollary left_assoc_all : forall o o' a b c, wfr a -> wfr b -> wfr c -> blevel o = blevel o' ->
  parses_to (operand a ++ btok o :: operand b ++ btok o' :: operand c)
            (mkb o' (mkb o (compile_r a) (compile_r b)) (compile_r c)).
Proof. intros o o' a b c Ha Hb Hc E. apply (tighter_binds_first_all o o' a b c Ha Hb Hc). lia. Qed.

(* the minimal rendering itself: no parentheses around the left operand on a tie or when the left
   operator binds tighter, parentheses around the right operand on a tie *)
Corollary minimal_parens_left : forall o o' a b c, blevel o' <= blevel o ->
  toks_of 0 (rbin o' (rbin o a b) c) =
  (toks_of (blevel o) a ++ btok o :: toks_of (nxt o) b) ++ btok o' :: toks_of (nxt o') c.
Proof.
  intros o o' a b c H. destruct (blevel_range o) as [R1 R2]. destruct (blevel_range o') as [R3 R4].
  assert (E1 : forall x y, toks_of 0 (rbin o' x y) = toks_of (blevel o') x ++ btok o' :: toks_of (nxt o') y)
    by (intros; destruct o' as [| | |[]|[]]; reflexivity).
  assert (E2 : forall q x y, q <= blevel o -> toks_of q (rbin o x y) = toks_of (blevel o) x ++ btok o :: toks_of (nxt o) y).
  { intros q x y Hq. rewrite toks_of_q, level_rbin. replace (blevel o <? q) with false by (symmetry; apply Z.ltb_ge; lia).
    destruct o as [| | |[]|[]]; reflexivity. }
  rewrite E1, E2 by assumption. reflexivity.
Qed.

Corollary minimal_parens_right : forall o o' a b c, blevel o' <= blevel o ->
  toks_of 0 (rbin o a (rbin o' b c)) =
  toks_of (blevel o) a ++ btok o :: wrapt (toks_of (blevel o') b ++ btok o' :: toks_of (nxt o') c).
Proof.
  intros o o' a b c H. destruct (blevel_range o) as [R1 R2]. destruct (blevel_range o') as [R3 R4].
  assert (E1 : forall x y, toks_of 0 (rbin o x y) = toks_of (blevel o) x ++ btok o :: toks_of (nxt o) y)
    by (intros; destruct o as [| | |[]|[]]; reflexivity).
  rewrite E1, (toks_of_q (nxt o)), level_rbin. replace (blevel o' <? nxt o) with true by (symmetry; apply Z.ltb_lt; lia).
  destruct o' as [| | |[]|[]]; reflexivity.
Qed.

(* parentheses override both rules *)
Theorem parens_override_all : forall o o' a b c, wfr a -> wfr b -> wfr c ->
  parses_to (wrapt (operand a ++ btok o :: operand b) ++ btok o' :: operand c)
            (mkb o' (mkb o (compile_r a) (compile_r b)) (compile_r c)) /\
  parses_to (operand a ++ btok o :: wrapt (operand b ++ btok o' :: operand c))
            (mkb o (compile_r a) (mkb o' (compile_r b) (compile_r c))).
Proof.
  intros o o' a b c Ha Hb Hc.
  destruct (blevel_range o) as [R1 R2]. destruct (blevel_range o') as [R3 R4]. unfold L_POST in *.
  split; rewrite <- !compile_rbin; (apply variant_parses; [auto using wfr_rbin|]).
  - apply pvb_rbin; [|apply PVo_operand; unfold L_POST; lia].
    apply PVo_wrap. apply pvb_rbin; apply PVo_operand; unfold L_POST; lia.
  - apply pvb_rbin; [apply PVo_operand; unfold L_POST; lia|].
    apply PVo_wrap. apply pvb_rbin; apply PVo_operand; unfold L_POST; lia.
Qed.

(* ! and the unary signs bind tighter than every binary operator *)
Theorem unary_tighter_all : forall o a b, wfr a -> wfr b ->
  parses_to (pk TNot :: primary_operand a ++ btok o :: operand b) (mkb o (NNot (compile_r a)) (compile_r b)) /\
  parses_to (pk TSubtract :: operand a ++ btok o :: operand b) (mkb o (NNegate (compile_r a)) (compile_r b)) /\
  parses_to (pk TAdd :: operand a ++ btok o :: operand b) (mkb o (NAssertNumber (compile_r a)) (compile_r b)) /\
  parses_to (operand a ++ btok o :: pk TNot :: primary_operand b) (mkb o (compile_r a) (NNot (compile_r b))).
Proof.
  intros o a b Ha Hb. destruct (blevel_range o) as [R1 R2]. unfold L_POST in *.
  assert (Hneg : pvb (RNeg a) (pk TSubtract :: operand a)).
  { cbn [pvb]. eexists. split; [reflexivity|]. apply (PVo_operand L_PROJ). unfold L_PROJ, L_POST. lia. }
  assert (Hpos : pvb (RPos a) (pk TAdd :: operand a)).
  { cbn [pvb]. eexists. split; [reflexivity|]. apply (PVo_operand L_PROJ). unfold L_PROJ, L_POST. lia. }
  repeat split.
  - change (NNot (compile_r a)) with (compile_r (RNot a)). rewrite <- compile_rbin.
    apply variant_parses; [apply wfr_rbin; assumption|].
    apply (pvb_rbin o (RNot a) b (pk TNot :: primary_operand a));
      [apply PVo_bare; [apply pvb_not|cbn; unfold L_POST; lia]|apply PVo_operand; unfold L_POST; lia].
  - change (NNegate (compile_r a)) with (compile_r (RNeg a)). rewrite <- compile_rbin.
    apply variant_parses; [apply wfr_rbin; assumption|].
    apply (pvb_rbin o (RNeg a) b (pk TSubtract :: operand a));
      [apply PVo_bare; [exact Hneg|cbn; unfold L_MUL; lia]|apply PVo_operand; unfold L_POST; lia].
  - change (NAssertNumber (compile_r a)) with (compile_r (RPos a)). rewrite <- compile_rbin.
    apply variant_parses; [apply wfr_rbin; assumption|].
    apply (pvb_rbin o (RPos a) b (pk TAdd :: operand a));
      [apply PVo_bare; [exact Hpos|cbn; unfold L_MUL; lia]|apply PVo_operand; unfold L_POST; lia].
  - change (NNot (compile_r b)) with (compile_r (RNot b)). rewrite <- compile_rbin.
    apply variant_parses; [apply wfr_rbin; assumption|].
    apply pvb_rbin; [apply PVo_operand; unfold L_POST; lia|].
    apply PVo_bare; [apply pvb_not|cbn; unfold L_POST; lia].
Qed.

(* a sign in front of a product is the sign of its first factor:  - A * B = (-A) * B,
   and the operand of a sign needs its parentheses when it is a product *)
Example sign_operand_shape :
  map ttyp (toks_of 0 (RNeg (RArith AMul (RField [97]) (RField [98])))) =
  [TSubtract; TOpenParen; TUnquotedIdentifier; TAsterisk; TUnquotedIdentifier; TCloseParen].
Proof. vm_compute. reflexivity. Qed.

(* ================================================================== *)
(* 11. The theorems at work                                            *)
(* ================================================================== *)
Module FullDemo.
  (* every operator application of [rich] and of sample 10 in parentheses: by the theorem *)
  Example rich_full : exists fuel0, forall fuel, (fuel0 <= fuel)%nat ->
    parse_items fuel (map ITok (toks_full rich) ++ [ITok (Tok TEnd [])]) = Ok (compile_r rich).
  Proof. apply full_paren_same_all, wfr_rich. Qed.

  (* two pairs around everything that may be wrapped: by computation and by the theorem *)
  Definition twice (x : rexpr) : nat := 2%nat.
  Example rich_twice_shape :
    firstn 12 (map ttyp (toks_sel twice rich)) =
    [TOpenParen; TOpenParen; TLet; TVariable; TAssign; TOpenParen; TOpenParen; TOpenParen; TOpenParen;
     TUnquotedIdentifier; TCloseParen; TCloseParen].
  Proof. vm_compute. reflexivity. Qed.
  Example rich_twice_computed :
    parse_items 600 (map ITok (toks_sel twice rich) ++ [ITok (Tok TEnd [])]) = Ok (compile_r rich).
  Proof. vm_compute. reflexivity. Qed.
  Example rich_twice : exists fuel0, forall fuel, (fuel0 <= fuel)%nat ->
    parse_items fuel (map ITok (toks_sel twice rich) ++ [ITok (Tok TEnd [])]) = Ok (compile_r rich).
  Proof. apply toks_sel_same, wfr_rich. Qed.

  (* a text for the tokens: the token texts separated by blanks *)
  Definition text_of_toks (ts : list token) : bytes := List.concat (map (fun t => tval t ++ [32]) ts).

  (* people[?age > `20`].name | sort_by(@, &@)[0:2]  fully parenthesised:
     ( people [? ( age > `20` ) ] . name | sort_by ( @ , & @ ) [ 0 : 2 ] )   same answer on every document *)
  Definition qfull : bytes := text_of_toks (toks_full Demo.q).
  Example qfull_text : qfull =
    [40;32;112;101;111;112;108;101;32;91;63;32;40;32;97;103;101;32;62;32;96;50;48;96;32;41;32;93;32;46;32;
     110;97;109;101;32;124;32;115;111;114;116;95;98;121;32;40;32;64;32;44;32;38;32;64;32;41;32;91;32;
     48;32;58;32;50;32;93;32;41;32].
  Proof. vm_compute. reflexivity. Qed.
  Example qfull_search : forall doc, Api.search qfull doc = Api.search (unparse Demo.q) doc.
  Proof.
    apply (variant_text_same_search Demo.q (toks_full Demo.q)).
    - cbn. repeat split; try reflexivity; try discriminate; try lia.
    - apply toks_full_variant.
    - vm_compute. reflexivity.
    - vm_compute. reflexivity.
  Qed.

  (* a.b + c * d  with operands that are selector chains and projections *)
  Example grouping_demo :
    parses_to (operand (RSub (RField [97]) (RField [98])) ++ btok (BRArith AAdd) ::
               operand (RProj PList (RField [99]) RCurrent) ++ btok (BRArith AMul) :: operand (RIndex (RField [100]) 0))
              (NBin OAdd (compile_r (RSub (RField [97]) (RField [98])))
                         (NBin OMul (compile_r (RProj PList (RField [99]) RCurrent)) (compile_r (RIndex (RField [100]) 0)))).
  Proof.
    apply (tighter_binds_first_all (BRArith AAdd) (BRArith AMul)); cbn; repeat split; try reflexivity; try discriminate; lia.
  Qed.
End FullDemo.

Print Assumptions paren_variant_same.
Print Assumptions full_paren_same_all.
Print Assumptions toks_of_variant.
Print Assumptions full_paren_means_spec.
Print Assumptions variant_text_same_search.
Print Assumptions variant_text_means_spec.
Print Assumptions tighter_binds_first_all.
Print Assumptions left_assoc_all.
Print Assumptions parens_override_all.
Print Assumptions unary_tighter_all.
