(* Property C05: arithmetic on JSON numbers is exact decimal arithmetic, never
   binary floating point.  Everything is proved on the specification-level
   decimal128 model of Num/Dec.v and the evaluator model of Model/NumberFns.v.

   A. no float detour: the binary-float path of every arithmetic entry point is
      taken only when BOTH operands are Go floats (no_float_detour*,
      float_result_needs_floats);
   B. + - * on finite decimals are exact whenever the exact result is
      representable (fits34): fit_value_exact, add_exact, sub_exact, mul_exact;
      otherwise overflow or within half an ulp (add_close, sub_close, mul_close);
   C. division: exact when the quotient is representable (quo_exact), else
      overflow or within one ulp (quo_close);
   D. errors: division by zero (divide_by_zero_traps, ...), overflow exactly
      above (10^34 - 1/2) 10^emax (fit_overflow_only_above, fit_overflow_above,
      overflow_traps); every Ok result is a canonical finite decimal
      (results_never_inf_nan);
   E. // is the floor of the exact quotient, % the exact truncated remainder
      (integer_divide_floor, modulo_exact, idiv_mod_same_sign); for operands
      of opposite signs the two are inconsistent
      (idiv_mod_mixed_signs_inconsistent);
   F. unary minus, abs, floor, ceil, to_number;
   G. comparisons are comparisons of the rational values;
   H. sum and avg add their elements EXACTLY and round ONCE (sum_rounds_once,
      avg_rounds_once): sum is exact whenever the exact total is representable,
      whatever the partial sums do (sum_exact), otherwise it overflows or is
      within half an ulp of the exact total (sum_close, sum_overflow,
      sum_no_overflow); avg is the exact total divided by the length, exact
      when that is representable (avg_exact), else within one ulp (avg_close);
      an Ok result is a canonical finite decimal (sum_result_finite,
      avg_result_finite).

   Values are rationals (QArith), as in DecTheory: Qv (DFin n c e) = qval n c e. *)
From Coq Require Import List ZArith Bool Lia QArith Qpower Qabs Qround Qfield String.
From JM Require Import Base.Outcome Base.Bytes Num.Dec Num.Flt Json.Value
  Model.Array Model.Compare Model.NumberFns Model.Functions Proofs.DecTheory.
Import ListNotations.
Open Scope Z_scope.

(* ------------------------------------------------------------------ *)
(* Vocabulary                                                          *)
(* ------------------------------------------------------------------ *)

(* syntactically finite: neither an infinity nor a NaN *)
Definition fin (d : dec) : Prop :=
  match d with DFin _ _ _ => True | _ => False end.

(* finite and well formed (the coefficient is a magnitude) *)
Definition finite (d : dec) : Prop :=
  match d with DFin _ c _ => 0 <= c | _ => False end.

(* canonical: what every operation of the package produces *)
Definition canonical (d : dec) : Prop :=
  match d with
  | DFin _ c e => 0 <= c /\ digits c <= prec34 /\ emin <= e <= emax
  | _ => False
  end.

(* the rational value of a finite decimal (0 on the others) *)
Definition Qv (d : dec) : Q :=
  match d with DFin n c e => qval n c e | _ => 0%Q end.

(* r is representable: r = m * 10^k, |m| < 10^34, emin <= k <= emax *)
Definition fits34 (r : Q) : Prop :=
  exists m k : Z, Z.abs m < 10 ^ 34 /\ emin <= k <= emax /\
                  (r == inject_Z m * inject_Z 10 ^ k)%Q.

Lemma finite_fin : forall d, finite d -> fin d.
Proof. intros [] H; simpl in *; auto. Qed.

Lemma canonical_finite : forall d, canonical d -> finite d.
Proof. intros [] H; simpl in *; tauto. Qed.

Lemma fits34_comp : forall r s, (r == s)%Q -> fits34 r -> fits34 s.
Proof.
  intros r s E (m & k & Hm & Hk & H). exists m, k. repeat split; try assumption; try lia.
  rewrite <- E. exact H.
Qed.

Lemma fin_not_inf_nan : forall d, fin d <-> is_inf d = false /\ is_nan d = false.
Proof. intros []; simpl; split; intros; try tauto; try (destruct H; discriminate). Qed.

(* ------------------------------------------------------------------ *)
(* A. no float detour                                                  *)
(* ------------------------------------------------------------------ *)

Lemma to_float_json : forall t, to_float (VNum (NJson t)) = None.
Proof. reflexivity. Qed.
Lemma to_float_dec : forall d, to_float (VNum (NDec d)) = None.
Proof. reflexivity. Qed.
Lemma to_float_int : forall k z, to_float (VNum (NInt k z)) = None.
Proof. reflexivity. Qed.
(* to_float is Some exactly on Go float32/float64 values *)
Lemma to_float_some : forall v f, to_float v = Some f <-> exists s, v = VNum (NFloat s f).
Proof.
  intros v f. split.
  - destruct v as [| | |[]| | |]; simpl; intros H; try discriminate. inversion H; eauto.
  - intros [s ->]. reflexivity.
Qed.
(* every document decoded from JSON text has only json.Number numbers *)
Lemma json_value_to_float : forall v, json_value v = true -> to_float v = None.
Proof. intros [| | |[]| | |]; simpl; intros; try reflexivity; discriminate. Qed.

Theorem no_float_detour : forall fop dop x y,
  to_float x = None \/ to_float y = None ->
  arith fop dop x y =
  match to_decimal x, to_decimal y with
  | Some a, Some b => trap (dop a b)
  | _, _ => Err EInvalidType
  end.
Proof.
  intros fop dop x y H. unfold arith.
  destruct (to_float x) as [xf|], (to_float y) as [yf|];
    try (destruct H; discriminate);
    destruct (to_decimal x), (to_decimal y); reflexivity.
Qed.

Theorem no_float_detour_integer_divide : forall x y,
  to_float x = None \/ to_float y = None ->
  integer_divide x y =
  match to_decimal x, to_decimal y with
  | Some xd, Some yd =>
    let '(q, rem) := dec_quorem xd yd in
    if is_inf q then Err EInfinity else if is_nan q then Err ENotANumber else
    if negb (is_zero rem) && negb (is_nan rem) && negb (Bool.eqb (sign_of rem) (sign_of yd))
    then Ok (vdec (dec_sub q (DFin false 1 0))) else Ok (vdec q)
  | _, _ => Err EInvalidType
  end.
Proof.
  intros x y H. unfold integer_divide.
  destruct (to_float x) as [xf|], (to_float y) as [yf|];
    try (destruct H; discriminate);
    destruct (to_decimal x), (to_decimal y); reflexivity.
Qed.

Theorem no_float_detour_modulo : forall x y,
  to_float x = None \/ to_float y = None ->
  modulo x y =
  match to_decimal x, to_decimal y with
  | Some a, Some b => trap (snd (dec_quorem a b))
  | _, _ => Err EInvalidType
  end.
Proof.
  intros x y H. unfold modulo.
  destruct (to_float x) as [xf|], (to_float y) as [yf|];
    try (destruct H; discriminate);
    destruct (to_decimal x), (to_decimal y); reflexivity.
Qed.

Theorem no_float_detour_num1 : forall fop dop v, to_float v = None ->
  num1 fop dop v =
  match to_decimal v with Some d => Ok (vdec (dop d)) | None => Err EInvalidType end.
Proof. intros fop dop v H. unfold num1. rewrite H. reflexivity. Qed.

Theorem no_float_detour_negate : forall v, to_float v = None ->
  negate v =
  match to_decimal v with
  | None => VNull
  | Some d => if is_zero d then vdec d else vdec (dec_neg d)
  end.
Proof. intros v H. unfold negate. rewrite H. reflexivity. Qed.

(* sum, avg, the comparisons and to_number never look at to_float at all:
   their definitions only use to_decimal (see sum_loop, cmp_op). *)

(* the only way to obtain a float result is to supply two floats *)
Theorem float_result_needs_floats : forall fop dop x y s f,
  arith fop dop x y = Ok (VNum (NFloat s f)) ->
  (exists xf, to_float x = Some xf) /\ (exists yf, to_float y = Some yf).
Proof.
  intros fop dop x y s f H.
  destruct (to_float x) as [xf|] eqn:Ex, (to_float y) as [yf|] eqn:Ey; eauto; exfalso;
  (rewrite no_float_detour in H by (rewrite ?Ex, ?Ey; auto);
   destruct (to_decimal x), (to_decimal y); try discriminate;
   unfold trap in H;
   repeat match type of H with context [if ?b then _ else _] => destruct b end; discriminate).
Qed.

(* ------------------------------------------------------------------ *)
(* G. comparison is comparison of the rational values                  *)
(* ------------------------------------------------------------------ *)

Definition Qltb (a b : Q) : bool := match (a ?= b)%Q with Lt => true | _ => false end.
Definition Qleb (a b : Q) : bool := match (a ?= b)%Q with Gt => false | _ => true end.
Definition Qeqb (a b : Q) : bool := match (a ?= b)%Q with Eq => true | _ => false end.

Lemma Qltb_iff : forall a b, Qltb a b = true <-> (a < b)%Q.
Proof. intros. unfold Qltb. rewrite Qlt_alt. destruct (a ?= b)%Q; split; congruence. Qed.
Lemma Qleb_iff : forall a b, Qleb a b = true <-> (a <= b)%Q.
Proof. intros. unfold Qleb. rewrite Qle_alt. destruct (a ?= b)%Q; split; congruence. Qed.
Lemma Qeqb_iff : forall a b, Qeqb a b = true <-> (a == b)%Q.
Proof. intros. unfold Qeqb. rewrite Qeq_alt. destruct (a ?= b)%Q; split; congruence. Qed.

Lemma dec_cmp_Qv : forall a b, fin a -> fin b ->
  dec_cmp a b = cmpres_of (Qv a ?= Qv b)%Q.
Proof.
  intros [n1 c1 e1| |] [n2 c2 e2| |] Ha Hb; simpl in Ha, Hb; try contradiction.
  apply dec_cmp_dval.
Qed.

Lemma Qcompare_flip : forall a b : Q, (b ?= a)%Q = CompOpp (a ?= b)%Q.
Proof. intros. symmetry. apply Qcompare_antisym. Qed.

Section Comparisons.
  Variables (x y : value) (a b : dec).
  Hypothesis Hx : to_decimal x = Some a.
  Hypothesis Hy : to_decimal y = Some b.
  Hypothesis Ha : fin a.
  Hypothesis Hb : fin b.

  Theorem less_by_value : less x y = VBool (Qltb (Qv a) (Qv b)).
  Proof.
    unfold less, cmp_op. rewrite Hx, Hy. unfold dec_less, Qltb.
    rewrite dec_cmp_Qv by assumption. destruct (Qv a ?= Qv b)%Q; reflexivity.
  Qed.

  Theorem less_or_equal_by_value : less_or_equal x y = VBool (Qleb (Qv a) (Qv b)).
  Proof.
    unfold less_or_equal, cmp_op. rewrite Hx, Hy. unfold dec_le, Qleb.
    rewrite dec_cmp_Qv by assumption. destruct (Qv a ?= Qv b)%Q; reflexivity.
  Qed.

  Theorem greater_by_value : greater x y = VBool (Qltb (Qv b) (Qv a)).
  Proof.
    unfold greater, cmp_op. rewrite Hx, Hy. unfold dec_greater, Qltb.
    rewrite dec_cmp_Qv by assumption. rewrite (Qcompare_flip (Qv a) (Qv b)).
    destruct (Qv a ?= Qv b)%Q; reflexivity.
  Qed.

  Theorem greater_or_equal_by_value : greater_or_equal x y = VBool (Qleb (Qv b) (Qv a)).
  Proof.
    unfold greater_or_equal, cmp_op. rewrite Hx, Hy. unfold dec_ge, Qleb.
    rewrite dec_cmp_Qv by assumption. rewrite (Qcompare_flip (Qv a) (Qv b)).
    destruct (Qv a ?= Qv b)%Q; reflexivity.
  Qed.

  (* == on two numbers *)
  Theorem equal_by_value : forall xn, x = VNum xn -> equal x y = Qeqb (Qv a) (Qv b).
  Proof.
    intros xn ->. cbn [equal]. rewrite Hx, Hy.
    assert (E : dec_equal a b = Qeqb (Qv a) (Qv b)).
    { unfold dec_equal, Qeqb. rewrite dec_cmp_Qv by assumption.
      destruct (Qv a ?= Qv b)%Q; reflexivity. }
    rewrite E.
    destruct xn as [s| | |]; try reflexivity.
    destruct y as [| | |[t| | |]| | |]; try reflexivity.
    destruct (beqb s t) eqn:Eb; [|reflexivity].
    apply beqb_eq in Eb. subst t.
    simpl in Hx, Hy. rewrite Hx in Hy. inversion Hy; subst b.
    assert (R : Qeqb (Qv a) (Qv a) = true) by (apply Qeqb_iff; reflexivity).
    rewrite R. destruct (_ && _); reflexivity.
  Qed.
End Comparisons.

Corollary less_iff : forall x y a b, to_decimal x = Some a -> to_decimal y = Some b ->
  fin a -> fin b -> (less x y = VBool true <-> (Qv a < Qv b)%Q).
Proof.
  intros. rewrite (less_by_value x y a b) by assumption. rewrite <- Qltb_iff.
  split; [intros E; inversion E; reflexivity | intros ->; reflexivity].
Qed.

Corollary less_or_equal_iff : forall x y a b, to_decimal x = Some a -> to_decimal y = Some b ->
  fin a -> fin b -> (less_or_equal x y = VBool true <-> (Qv a <= Qv b)%Q).
Proof.
  intros. rewrite (less_or_equal_by_value x y a b) by assumption. rewrite <- Qleb_iff.
  split; [intros E; inversion E; reflexivity | intros ->; reflexivity].
Qed.

(* ------------------------------------------------------------------ *)
(* H (first part). sum and avg round ONCE: worked examples            *)
(* ------------------------------------------------------------------ *)

Definition jn (s : string) : value := VNum (NJson (bs s)).

(* 9999999999999999999999999999999999 + 0.4 + 0.4 + 0.4 - 9999999999999999999999999999999999:
   no partial sum is representable (each would need 35 digits), the exact total
   1.2 is, and that is the answer: the elements are added exactly and the
   total is rounded once *)
Example sum_rounds_once :
  sum (VArr [jn "9999999999999999999999999999999999"; jn "0.4"; jn "0.4"; jn "0.4";
             jn "-9999999999999999999999999999999999"]) = Ok (vdec (DFin false 12 (-1))).
Proof. vm_compute. reflexivity. Qed.

(* the operands, as the library reads them, and their exact rational sum *)
Example sum_rounds_once_operands :
  map to_decimal [jn "9999999999999999999999999999999999"; jn "0.4"; jn "0.4"; jn "0.4";
                  jn "-9999999999999999999999999999999999"] =
  [Some (DFin false 9999999999999999999999999999999999 0); Some (DFin false 4 (-1));
   Some (DFin false 4 (-1)); Some (DFin false 4 (-1));
   Some (DFin true 9999999999999999999999999999999999 0)].
Proof. vm_compute. reflexivity. Qed.

Example sum_rounds_once_exact_value :
  (Qv (DFin false 9999999999999999999999999999999999 0) + Qv (DFin false 4 (-1)) +
   Qv (DFin false 4 (-1)) + Qv (DFin false 4 (-1)) +
   Qv (DFin true 9999999999999999999999999999999999 0) == 12 # 10)%Q
  /\ fits34 (12 # 10) /\ (Qv (DFin false 12 (-1)) == 12 # 10)%Q.
Proof.
  split; [|split].
  - vm_compute. reflexivity.
  - exists 12, (-1). split; [|split]; [reflexivity | unfold emin, emax; lia | vm_compute; reflexivity].
  - vm_compute. reflexivity.
Qed.

(* the same for avg: the exact average 0.24 (the division pads the quotient to 34 digits) *)
Example avg_rounds_once :
  avg (VArr [jn "9999999999999999999999999999999999"; jn "0.4"; jn "0.4"; jn "0.4";
             jn "-9999999999999999999999999999999999"]) =
    Ok (vdec (DFin false 2400000000000000000000000000000000 (-34))) /\
  (Qv (DFin false 2400000000000000000000000000000000 (-34)) == 24 # 100)%Q.
Proof. split; vm_compute; reflexivity. Qed.

(* a total that is not representable is rounded, once, to nearest *)
Example sum_rounds_to_nearest :
  sum (VArr [jn "9999999999999999999999999999999999"; jn "0.4"]) =
    Ok (vdec (DFin false 9999999999999999999999999999999999 0)) /\
  sum (VArr [jn "9999999999999999999999999999999998"; jn "0.4"; jn "0.4"]) =
    Ok (vdec (DFin false 9999999999999999999999999999999999 0)).
Proof. vm_compute. split; reflexivity. Qed.

(* contrast: the textbook binary-float failure is exact here *)
Example point_one_plus_point_two :
  add (jn "0.1") (jn "0.2") = Ok (vdec (DFin false 3 (-1))) /\
  sum (VArr [jn "0.1"; jn "0.2"]) = Ok (vdec (DFin false 3 (-1))) /\
  equal (vdec (DFin false 3 (-1))) (jn "0.3") = true.
Proof. vm_compute. auto. Qed.

(* ------------------------------------------------------------------ *)
(* Integer / rational toolbox                                          *)
(* ------------------------------------------------------------------ *)

Lemma pow10_gt0 : forall k, 0 < 10 ^ k \/ k < 0.
Proof. intros. destruct (Z_lt_le_dec k 0); [right; lia | left; apply pow10_pos; lia]. Qed.

Lemma pow10_lt_inv : forall a b, 0 <= b -> 10 ^ a < 10 ^ b -> a < b.
Proof. intros a b Hb H. apply (Z.pow_lt_mono_r_iff 10); lia. Qed.

Lemma pow10_le_inv : forall a b, 0 <= b -> 10 ^ a <= 10 ^ b -> a <= b.
Proof. intros a b Hb H. apply (Z.pow_le_mono_r_iff 10); lia. Qed.

Lemma digits_le_of_lt : forall c p, 0 <= p -> c < 10 ^ p -> digits c <= p.
Proof.
  intros c p Hp H. destruct (Z_le_gt_dec c 0) as [Hc|Hc].
  - rewrite digits_nonpos by assumption. lia.
  - pose proof (digits_spec c ltac:(lia)) as [H1 _].
    assert (digits c - 1 < p) by (apply pow10_lt_inv; lia). lia.
Qed.

Lemma digits_lt_pow : forall c, 0 < c -> digits c <= prec34 -> c < 10 ^ 34.
Proof.
  intros c Hc Hd. pose proof (digits_spec c Hc) as [_ H].
  assert (10 ^ digits c <= 10 ^ 34) by (apply Z.pow_le_mono_r; unfold prec34 in Hd; lia). lia.
Qed.

Lemma qval_shift : forall n c e j, 0 <= j -> (qval n (c * 10 ^ j) e == qval n c (e + j))%Q.
Proof.
  intros n c e j Hj. unfold qval. rewrite sgn_mul, inject_Z_mult, Zpower_Qpower by lia.
  rewrite (Qpower_plus (inject_Z 10) e j) by exact ten_neq0. ring.
Qed.

Lemma qval_zero : forall n e, (qval n 0 e == 0)%Q.
Proof. intros. unfold qval. destruct n; simpl; ring. Qed.

Lemma qval_neg : forall n c e, (qval (negb n) c e == - qval n c e)%Q.
Proof.
  intros. unfold qval. replace (sgn (negb n) c) with (- sgn n c) by (destruct n; unfold sgn; simpl; lia).
  rewrite inject_Z_opp. ring.
Qed.

Lemma qval_false_abs : forall n c e, 0 <= c -> (Qabs (qval n c e) == qval false c e)%Q.
Proof.
  intros n c e Hc. unfold qval. rewrite Qabs_Qmult.
  rewrite (Qabs_pos (inject_Z 10 ^ e)) by (apply Qlt_le_weak, ten_pow_pos).
  assert (E : (Qabs (inject_Z (sgn n c)) == inject_Z (sgn false c))%Q).
  { unfold Qabs, inject_Z, sgn. simpl. destruct n; simpl; rewrite ?Z.abs_opp, Z.abs_eq by lia; reflexivity. }
  rewrite E. reflexivity.
Qed.

(* equality of rational values, read on integers at a common exponent *)
Lemma qval_eq_int : forall M c e m k, M <= e -> M <= k ->
  (qval false c e == qval false m k)%Q -> c * 10 ^ (e - M) = m * 10 ^ (k - M).
Proof.
  intros M c e m k He Hk H.
  rewrite (qval_scaled M false c e), (qval_scaled M false m k) in H by lia.
  apply Qmult_inj_r in H; [|intro Z0; pose proof (ten_pow_pos M) as P; rewrite Z0 in P; discriminate P].
  unfold scaled, sgn in H. unfold Qeq in H. simpl in H. lia.
Qed.

(* a representable magnitude, as an integer fact *)
Lemma fits34_abs : forall n c e, 0 <= c -> fits34 (qval n c e) ->
  exists m k, 0 <= m < 10 ^ 34 /\ emin <= k <= emax /\ (qval false c e == qval false m k)%Q.
Proof.
  intros n c e Hc (m & k & Hm & Hk & H).
  exists (Z.abs m), k. repeat split; try lia.
  rewrite <- (qval_false_abs n c e Hc). rewrite H. rewrite Qabs_Qmult.
  rewrite (Qabs_pos (inject_Z 10 ^ k)) by (apply Qlt_le_weak, ten_pow_pos).
  unfold qval, sgn. apply Qmult_comp; [|reflexivity].
  unfold Qabs, inject_Z. simpl. reflexivity.
Qed.

(* ------------------------------------------------------------------ *)
(* B. value-level exactness of fit                                     *)
(* ------------------------------------------------------------------ *)

Lemma drop_digits_exact : forall q k, 0 < k -> 0 <= q -> drop_digits (q * 10 ^ k) k = q.
Proof.
  intros q k Hk Hq. unfold drop_digits, pow10.
  assert (P : 0 < 10 ^ k) by (apply pow10_pos; lia).
  assert (P1 : 0 < 10 ^ (k - 1)) by (apply pow10_pos; lia).
  rewrite Z.mod_mul, Z.div_mul by lia.
  destruct (Z.gtb_spec 0 (5 * 10 ^ (k - 1))); [lia|].
  destruct (Z.eqb_spec 0 (5 * 10 ^ (k - 1))); [lia|]. reflexivity.
Qed.

(* a coefficient m * 10^j with a short m is rounded without loss, even when it
   has more than 34 digits: only zeros are dropped *)
Lemma round_coef_exact : forall c e m j, 0 < c -> 0 <= j -> 0 < m < 10 ^ 34 -> c = m * 10 ^ j ->
  exists c' j', round_coef c e = (c', e + j') /\ 0 <= j' /\ c = c' * 10 ^ j' /\
                0 < c' /\ digits c' <= prec34.
Proof.
  intros c e m j Hc Hj Hm E. unfold round_coef.
  destruct (Z.leb_spec (digits c) prec34) as [Hd|Hd].
  - exists c, 0. rewrite Z.add_0_r, Z.mul_1_r. repeat split; lia.
  - set (d := digits c) in *. set (k0 := d - prec34). unfold prec34 in *.
    pose proof (digits_spec c Hc) as [L U]. fold d in L, U.
    assert (Pj : 0 < 10 ^ j) by (apply pow10_pos; lia).
    assert (Hk0 : k0 <= j).
    { assert (H : 10 ^ (d - 1) < 10 ^ (34 + j)) by (rewrite Z.pow_add_r by lia; nia).
      apply pow10_lt_inv in H; unfold k0; lia. }
    assert (Hk1 : 0 < k0) by (unfold k0; lia).
    set (q := m * 10 ^ (j - k0)).
    assert (Pq : 0 < 10 ^ (j - k0)) by (apply pow10_pos; lia).
    assert (Pk : 0 < 10 ^ k0) by (apply pow10_pos; lia).
    assert (Ec : c = q * 10 ^ k0).
    { unfold q. rewrite <- Z.mul_assoc, <- Z.pow_add_r by lia.
      replace (j - k0 + k0) with j by lia. exact E. }
    assert (Dq : drop_digits c k0 = q) by (rewrite Ec; apply drop_digits_exact; unfold q; nia).
    rewrite Dq.
    assert (Gq : digits q = 34).
    { apply digits_unique; [unfold q; nia|].
      replace (d - 1) with (33 + k0) in L by (unfold k0; lia).
      replace d with (34 + k0) in U by (unfold k0; lia).
      rewrite Z.pow_add_r in L, U by lia. change (34 - 1) with 33. split; nia. }
    rewrite Gq. change (34 >? 34) with false. cbv iota.
    exists q, k0. repeat split; try lia; unfold q; nia.
Qed.

Lemma digits_mul_pow : forall c k, 0 < c -> 0 <= k -> digits (c * 10 ^ k) = digits c + k.
Proof.
  intros c k Hc Hk. pose proof (digits_spec c Hc) as [L U].
  pose proof (digits_pos c Hc).
  assert (P : 0 < 10 ^ k) by (apply pow10_pos; lia).
  apply digits_unique; [nia|].
  replace (digits c + k - 1) with (digits c - 1 + k) by lia.
  rewrite !Z.pow_add_r by lia. split; nia.
Qed.

(* second stage of fit: a short coefficient whose value is representable *)
Lemma fit_small : forall n c e m k, 0 < c -> digits c <= prec34 ->
  0 <= m < 10 ^ 34 -> emin <= k <= emax -> (qval false c e == qval false m k)%Q ->
  exists c' e', fit n c e = DFin n c' e' /\ 0 <= c' /\ digits c' <= prec34 /\
                emin <= e' <= emax /\ (qval n c' e' == qval n c e)%Q.
Proof.
  intros n c e m k Hc Hd Hm Hk HV. unfold fit. rewrite round_coef_id by lia.
  destruct (Z.eqb_spec c 0) as [|_]; [lia|].
  pose proof (digits_lt_pow c Hc Hd) as Hlt.
  pose proof (digits_spec c Hc) as [L U]. pose proof (digits_pos c Hc) as Dp.
  unfold prec34 in *.
  destruct (Z.gtb_spec e emax) as [Hhi|Hhi].
  - (* pad with zeros down to emax *)
    pose proof (qval_eq_int k c e m k ltac:(lia) ltac:(lia) HV) as EI.
    rewrite Z.sub_diag, Z.mul_1_r in EI.
    set (k' := e - emax) in *. unfold pow10.
    assert (Hk' : 0 < k') by (unfold k'; lia).
    assert (Pk : 0 < 10 ^ k') by (apply pow10_pos; lia).
    assert (Hsplit : c * 10 ^ (e - k) = c * 10 ^ k' * 10 ^ (emax - k)).
    { rewrite <- Z.mul_assoc, <- Z.pow_add_r by (unfold k'; lia). do 2 f_equal. unfold k'. lia. }
    assert (Pr : 0 < 10 ^ (emax - k)) by (apply pow10_pos; lia).
    assert (Hb : c * 10 ^ k' < 10 ^ 34) by nia.
    assert (Hdg : digits c + k' <= 34).
    { rewrite <- digits_mul_pow by lia. apply digits_le_of_lt; lia. }
    destruct (Z.leb_spec (digits c + k') 34); [|lia].
    exists (c * 10 ^ k'), emax. repeat split; try lia.
    + rewrite digits_mul_pow by lia. lia.
    + rewrite qval_shift by lia. replace (emax + k') with e by (unfold k'; lia). reflexivity.
  - destruct (Z.ltb_spec e emin) as [Hlo|Hlo].
    + (* value representable although the exponent is too small: trailing zeros *)
      pose proof (qval_eq_int e c e m k ltac:(lia) ltac:(lia) HV) as EI.
      rewrite Z.sub_diag, Z.mul_1_r in EI.
      set (k' := emin - e) in *.
      assert (Hk' : 0 < k') by (unfold k'; lia).
      assert (Pk : 0 < 10 ^ k') by (apply pow10_pos; lia).
      assert (Pr : 0 < 10 ^ (k - emin)) by (apply pow10_pos; lia).
      set (q := m * 10 ^ (k - emin)).
      assert (Ec : c = q * 10 ^ k').
      { unfold q. rewrite <- Z.mul_assoc, <- Z.pow_add_r by (unfold k'; lia).
        replace (k - emin + k') with (k - e) by (unfold k'; lia). exact EI. }
      assert (Hq : 0 < q) by nia.
      assert (K34 : k' < 34).
      { apply pow10_lt_inv; [lia|]. nia. }
      destruct (Z.gtb_spec k' 40); [lia|].
      assert (Dq : drop_digits c k' = q) by (rewrite Ec; apply drop_digits_exact; lia).
      rewrite Dq. exists q, emin. repeat split; try lia.
      * apply digits_le_of_lt; [lia|nia].
      * rewrite Ec, qval_shift by lia. replace (e + k') with emin by (unfold k'; lia). reflexivity.
    + exists c, e. repeat split; try lia.
Qed.

(* The value-level exactness of fit: whenever the value (-1)^n * c * 10^e is
   representable (at most 34 significant digits and an exponent in range), fit
   returns a canonical decimal of exactly that value -- also when c itself has
   more than 34 digits or e is out of range. *)
Theorem fit_value_exact : forall n c e, 0 <= c -> fits34 (qval n c e) ->
  exists c' e', fit n c e = DFin n c' e' /\ canonical (DFin n c' e') /\
                (qval n c' e' == qval n c e)%Q.
Proof.
  intros n c e Hc HF.
  destruct (Z.eq_dec c 0) as [->|Hn].
  - exists 0, (Z.max emin (Z.min emax e)). split; [|split].
    + reflexivity.
    + simpl. rewrite digits_nonpos by lia. unfold prec34, emin, emax. lia.
    + rewrite !qval_zero. reflexivity.
  - destruct (fits34_abs n c e Hc HF) as (m & k & Hm & Hk & HV).
    assert (Hc' : 0 < c) by lia.
    (* c = m' * 10^j with m' short *)
    assert (HD : exists m' j, 0 <= j /\ 0 < m' < 10 ^ 34 /\ c = m' * 10 ^ j).
    { destruct (Z_le_gt_dec e k) as [Hek|Hek].
      - pose proof (qval_eq_int e c e m k ltac:(lia) ltac:(lia) HV) as EI.
        rewrite Z.sub_diag, Z.mul_1_r in EI.
        assert (0 < 10 ^ (k - e)) by (apply pow10_pos; lia).
        exists m, (k - e). repeat split; try lia; nia.
      - pose proof (qval_eq_int k c e m k ltac:(lia) ltac:(lia) HV) as EI.
        rewrite Z.sub_diag, Z.mul_1_r in EI.
        assert (0 < 10 ^ (e - k)) by (apply pow10_pos; lia).
        exists c, 0. rewrite Z.mul_1_r. repeat split; try lia; nia. }
    destruct HD as (m' & j & Hj & Hm' & Ecm).
    destruct (round_coef_exact c e m' j Hc' Hj Hm' Ecm) as (c1 & j1 & ER & Hj1 & Ec1 & Hc1 & Hd1).
    assert (HV1 : (qval false c1 (e + j1) == qval false m k)%Q).
    { rewrite <- HV. rewrite Ec1. rewrite qval_shift by lia. reflexivity. }
    destruct (fit_small n c1 (e + j1) m k Hc1 Hd1 Hm Hk HV1) as (c' & e' & EF & P1 & P2 & P3 & P4).
    exists c', e'. split; [|split].
    + unfold fit in *. rewrite ER. rewrite round_coef_id in EF by lia. exact EF.
    + simpl. tauto.
    + rewrite P4. rewrite Ec1. rewrite qval_shift by lia. reflexivity.
Qed.

Lemma fit_value_exact' : forall n c e r, 0 <= c -> (qval n c e == r)%Q -> fits34 r ->
  canonical (fit n c e) /\ (Qv (fit n c e) == r)%Q.
Proof.
  intros n c e r Hc E HF.
  destruct (fit_value_exact n c e Hc (fits34_comp _ _ (Qeq_sym _ _ E) HF)) as (c' & e' & EF & HC & HV).
  rewrite EF. split; [exact HC|]. simpl. rewrite HV. exact E.
Qed.

Theorem mul_exact : forall a b, finite a -> finite b -> fits34 (Qv a * Qv b) ->
  canonical (dec_mul a b) /\ (Qv (dec_mul a b) == Qv a * Qv b)%Q.
Proof.
  intros [n1 c1 e1| |] [n2 c2 e2| |] Ha Hb HF; simpl in Ha, Hb; try contradiction.
  simpl. apply fit_value_exact'; [apply Z.mul_nonneg_nonneg; assumption | apply qval_mul | exact HF].
Qed.

Theorem add_exact : forall a b, finite a -> finite b -> fits34 (Qv a + Qv b) ->
  canonical (dec_add a b) /\ (Qv (dec_add a b) == Qv a + Qv b)%Q.
Proof.
  intros [n1 c1 e1| |] [n2 c2 e2| |] Ha Hb HF; simpl in Ha, Hb; try contradiction.
  pose proof (qval_add n1 c1 e1 n2 c2 e2) as HQ.
  unfold dec_add, align in *. cbv beta iota zeta in *. simpl Qv in *.
  set (e := Z.min e1 e2) in *.
  set (s := sgn n1 (c1 * pow10 (e1 - e)) + sgn n2 (c2 * pow10 (e2 - e))) in *.
  destruct (Z.eqb_spec s 0) as [E0|E0].
  - rewrite E0 in HQ. simpl in HQ. split.
    + simpl. rewrite digits_nonpos by lia. unfold prec34, emin, emax. lia.
    + simpl. rewrite qval_zero. rewrite <- HQ. rewrite qval_zero. reflexivity.
  - apply fit_value_exact'; [apply Z.abs_nonneg | exact HQ | exact HF].
Qed.

Lemma Qv_neg : forall d, (Qv (dec_neg d) == - Qv d)%Q.
Proof. intros [n c e| |]; simpl; try reflexivity. apply qval_neg. Qed.

Lemma finite_neg : forall d, finite d -> finite (dec_neg d).
Proof. intros [] H; simpl in *; auto. Qed.

Theorem sub_exact : forall a b, finite a -> finite b -> fits34 (Qv a - Qv b) ->
  canonical (dec_sub a b) /\ (Qv (dec_sub a b) == Qv a - Qv b)%Q.
Proof.
  intros a b Ha Hb HF. unfold dec_sub.
  assert (E : (Qv a + Qv (dec_neg b) == Qv a - Qv b)%Q) by (rewrite Qv_neg; reflexivity).
  destruct (add_exact a (dec_neg b) Ha (finite_neg b Hb) (fits34_comp _ _ (Qeq_sym _ _ E) HF)) as [H1 H2].
  split; [exact H1|]. rewrite H2. exact E.
Qed.

(* ------------------------------------------------------------------ *)
(* General behaviour of rounding: fit returns a canonical decimal or   *)
(* an infinity, never a NaN                                            *)
(* ------------------------------------------------------------------ *)

Lemma drop_digits_bounds : forall c k, 0 <= c -> 0 < k ->
  c / 10 ^ k <= drop_digits c k <= c / 10 ^ k + 1 /\
  2 * Z.abs (drop_digits c k * 10 ^ k - c) <= 10 ^ k.
Proof.
  intros c k Hc Hk. unfold drop_digits, pow10.
  assert (P1 : 0 < 10 ^ (k - 1)) by (apply pow10_pos; lia).
  assert (EP : 10 ^ k = 10 * 10 ^ (k - 1)).
  { replace k with (Z.succ (k - 1)) at 1 by lia. apply Z.pow_succ_r. lia. }
  pose proof (Z.div_mod c (10 ^ k) ltac:(lia)) as DM.
  pose proof (Z.mod_pos_bound c (10 ^ k) ltac:(lia)) as MB.
  set (q := c / 10 ^ k) in *. set (r := c mod 10 ^ k) in *.
  destruct (Z.gtb_spec r (5 * 10 ^ (k - 1))).
  - split; [lia|]. nia.
  - destruct (Z.eqb_spec r (5 * 10 ^ (k - 1))).
    + destruct (Z.even q); (split; [lia|nia]).
    + split; [lia|]. nia.
Qed.

Lemma round_coef_wf : forall c e c' e', 0 <= c -> round_coef c e = (c', e') ->
  0 <= c' /\ digits c' <= prec34 /\ (c = 0 <-> c' = 0) /\ e <= e'.
Proof.
  intros c e c' e' Hc. unfold round_coef.
  destruct (Z.leb_spec (digits c) prec34) as [Hd|Hd].
  - intros E; inversion E; subst. repeat split; try lia.
  - unfold prec34 in *. set (d := digits c) in *. set (k := d - 34).
    assert (Hc0 : 0 < c).
    { destruct (Z.eq_dec c 0) as [->|]; [|lia]. unfold d in Hd. rewrite digits_nonpos in Hd; lia. }
    pose proof (digits_spec c Hc0) as [L U]. fold d in L, U.
    assert (Hk : 0 < k) by (unfold k; lia).
    pose proof (drop_digits_bounds c k Hc Hk) as [[B1 B2] _].
    assert (Pk : 0 < 10 ^ k) by (apply pow10_pos; lia).
    assert (QL : 10 ^ 33 <= c / 10 ^ k).
    { apply Z.div_le_lower_bound; [lia|]. rewrite <- Z.pow_add_r by lia.
      replace (k + 33) with (d - 1) by (unfold k; lia). exact L. }
    assert (QU : c / 10 ^ k < 10 ^ 34).
    { apply Z.div_lt_upper_bound; [lia|]. rewrite <- Z.pow_add_r by lia.
      replace (k + 34) with d by (unfold k; lia). exact U. }
    set (q := drop_digits c k) in *. clearbody q.
    destruct (Z.gtb_spec (digits q) 34) as [Hq|Hq]; intros E; inversion E; subst c' e'.
    + assert (H : q = 10 ^ 34).
      { destruct (Z.eq_dec q (10 ^ 34)); [assumption|]. exfalso.
        assert (digits q <= 34).
        { apply digits_le_of_lt; lia. }
        lia. }
      rewrite H. change (10 ^ 34 / 10) with (10 ^ 33).
      repeat split; try lia.
      apply digits_le_of_lt; [lia | reflexivity].
    + repeat split; try lia.
Qed.

Lemma fit_cases : forall n c e, 0 <= c -> canonical (fit n c e) \/ fit n c e = DInf n.
Proof.
  intros n c e Hc. unfold fit.
  destruct (round_coef c e) as [c1 e1] eqn:ER.
  destruct (round_coef_wf c e c1 e1 Hc ER) as (H0 & HD & _ & _).
  unfold prec34 in *.
  destruct (Z.eqb_spec c1 0) as [->|Hn].
  - left. unfold canonical. rewrite digits_nonpos by lia. unfold prec34, emin, emax. lia.
  - destruct (Z.gtb_spec e1 emax) as [Hhi|Hhi].
    + destruct (Z.leb_spec (digits c1 + (e1 - emax)) 34); [left | right; reflexivity].
      unfold canonical. unfold pow10. rewrite digits_mul_pow by lia.
      assert (0 < 10 ^ (e1 - emax)) by (apply pow10_pos; lia).
      unfold prec34, emin, emax in *. repeat split; try lia. 
    + destruct (Z.ltb_spec e1 emin) as [Hlo|Hlo]; left.
      * destruct (Z.gtb_spec (emin - e1) 40).
        -- unfold canonical. rewrite digits_nonpos by lia. unfold prec34, emin, emax. lia.
        -- pose proof (drop_digits_bounds c1 (emin - e1) H0 ltac:(lia)) as [[B1 B2] _].
           assert (P : 0 < 10 ^ (emin - e1)) by (apply pow10_pos; lia).
           assert (c1 < 10 ^ 34) by (apply digits_lt_pow; unfold prec34; lia).
           assert (c1 / 10 ^ (emin - e1) <= c1 / 10 ^ 1).
           { apply Z.div_le_compat_l; [lia|]. split; [reflexivity|].
             apply Z.pow_le_mono_r; lia. }
           assert (c1 / 10 ^ 1 < 10 ^ 33).
           { apply Z.div_lt_upper_bound; [reflexivity|]. change (10 ^ 1 * 10 ^ 33) with (10 ^ 34). lia. }
           assert (0 <= c1 / 10 ^ (emin - e1)) by (apply Z.div_pos; lia).
           unfold canonical. repeat split; try lia.
           ++ apply digits_le_of_lt; [unfold prec34; lia|]. unfold prec34.
              change (10 ^ 34) with (10 * 10 ^ 33). lia.
           ++ unfold emin, emax; lia.
      * unfold canonical. unfold prec34. repeat split; lia.
Qed.

Lemma fit_not_nan : forall n c e, is_nan (fit n c e) = false.
Proof.
  intros. unfold fit. destruct (round_coef c e) as [c1 e1].
  repeat match goal with |- context [if ?b then _ else _] => destruct b end; reflexivity.
Qed.

Lemma fit_sign : forall n c e, sign_of (fit n c e) = n.
Proof.
  intros. unfold fit. destruct (round_coef c e) as [c1 e1].
  repeat match goal with |- context [if ?b then _ else _] => destruct b end; reflexivity.
Qed.

(* ------------------------------------------------------------------ *)
(* D. errors instead of infinities and NaNs                            *)
(* ------------------------------------------------------------------ *)

Lemma trap_ok : forall d v, trap d = Ok v -> v = vdec d /\ fin d.
Proof.
  intros [n c e|n|] v; unfold trap; simpl; intros H; try discriminate.
  inversion H. split; [reflexivity | exact I].
Qed.

Lemma trap_fin : forall d, fin d -> trap d = Ok (vdec d).
Proof. intros [n c e|n|] H; simpl in H; try contradiction. reflexivity. Qed.

Lemma trap_inf : forall n, trap (DInf n) = Err EInfinity.
Proof. reflexivity. Qed.
Lemma trap_nan : trap DNaN = Err ENotANumber.
Proof. reflexivity. Qed.

(* whatever the operands, an Ok result of the decimal path is a finite decimal *)
Theorem arith_result_finite : forall fop dop x y v,
  to_float x = None \/ to_float y = None -> arith fop dop x y = Ok v ->
  exists a b, to_decimal x = Some a /\ to_decimal y = Some b /\
              v = VNum (NDec (dop a b)) /\ fin (dop a b).
Proof.
  intros fop dop x y v HF H. rewrite no_float_detour in H by assumption.
  destruct (to_decimal x) as [a|], (to_decimal y) as [b|]; try discriminate.
  apply trap_ok in H. exists a, b. tauto.
Qed.

Theorem modulo_result_finite : forall x y v,
  to_float x = None \/ to_float y = None -> modulo x y = Ok v ->
  exists d, v = VNum (NDec d) /\ fin d.
Proof.
  intros x y v HF H. rewrite no_float_detour_modulo in H by assumption.
  destruct (to_decimal x) as [a|], (to_decimal y) as [b|]; try discriminate.
  apply trap_ok in H. eexists; exact H.
Qed.

(* division by zero *)
Theorem divide_by_zero_traps : forall x y a b,
  to_float x = None \/ to_float y = None ->
  to_decimal x = Some a -> to_decimal y = Some b -> is_zero b = true ->
  divide x y = Err (if is_inf a || negb (is_zero a || is_nan a) then EInfinity else ENotANumber).
Proof.
  intros x y a b HF Ha Hb Hz. unfold divide. rewrite no_float_detour by assumption.
  rewrite Ha, Hb. destruct b as [n2 c2 e2| |]; simpl in Hz; try discriminate.
  destruct a as [n1 c1 e1|n1|]; simpl; try reflexivity.
  rewrite Hz. destruct (c1 =? 0); reflexivity.
Qed.

Corollary divide_by_zero_error : forall x y a b,
  to_float x = None \/ to_float y = None ->
  to_decimal x = Some a -> to_decimal y = Some b -> is_zero b = true ->
  divide x y = Err EInfinity \/ divide x y = Err ENotANumber.
Proof.
  intros x y a b HF Ha Hb Hz. rewrite (divide_by_zero_traps x y a b) by assumption.
  destruct (_ || _); auto.
Qed.

Theorem integer_divide_by_zero_traps : forall x y a b,
  to_float x = None \/ to_float y = None ->
  to_decimal x = Some a -> to_decimal y = Some b -> is_zero b = true ->
  integer_divide x y = Err (if is_inf a || negb (is_zero a || is_nan a) then EInfinity else ENotANumber).
Proof.
  intros x y a b HF Ha Hb Hz. rewrite no_float_detour_integer_divide by assumption.
  rewrite Ha, Hb. destruct b as [n2 c2 e2| |]; simpl in Hz; try discriminate.
  destruct a as [n1 c1 e1|n1|]; simpl; try reflexivity.
  rewrite Hz. destruct (c1 =? 0); reflexivity.
Qed.

Theorem modulo_by_zero_traps : forall x y a b,
  to_float x = None \/ to_float y = None ->
  to_decimal x = Some a -> to_decimal y = Some b -> is_zero b = true ->
  modulo x y = Err ENotANumber.
Proof.
  intros x y a b HF Ha Hb Hz. rewrite no_float_detour_modulo by assumption.
  rewrite Ha, Hb. destruct b as [n2 c2 e2| |]; simpl in Hz; try discriminate.
  destruct a as [n1 c1 e1|n1|]; simpl; try reflexivity.
  rewrite Hz. destruct (c1 =? 0); reflexivity.
Qed.

(* overflow: 9e6144 * 10 *)
Example overflow_traps_example :
  to_decimal (jn "9e6144") = Some (DFin false 9000000000000000000000000000000000 6111) /\
  multiply (jn "9e6144") (jn "10") = Err EInfinity /\
  add (jn "9e6144") (jn "9e6144") = Err EInfinity /\
  subtract (jn "-9e6144") (jn "9e6144") = Err EInfinity /\
  divide (jn "9e6144") (jn "0.1") = Err EInfinity.
Proof. vm_compute. repeat split. Qed.

(* ------------------------------------------------------------------ *)
(* F. unary operators and functions                                    *)
(* ------------------------------------------------------------------ *)

Lemma Qv_zero : forall d, is_zero d = true -> (Qv d == 0)%Q.
Proof.
  intros [n c e| |]; simpl; intros H; try reflexivity.
  apply Z.eqb_eq in H. subst c. apply qval_zero.
Qed.

(* unary minus: the value is negated, nothing is rounded (a zero operand is
   returned unchanged, which has the same value) *)
Theorem negate_value : forall v d, to_float v = None -> to_decimal v = Some d -> fin d ->
  exists d', negate v = vdec d' /\ fin d' /\ (Qv d' == - Qv d)%Q.
Proof.
  intros v d HF HD Hfin. rewrite no_float_detour_negate by assumption. rewrite HD.
  destruct (is_zero d) eqn:Z0.
  - exists d. split; [reflexivity|]. split; [assumption|].
    rewrite (Qv_zero d Z0). reflexivity.
  - exists (dec_neg d). split; [reflexivity|]. split; [|apply Qv_neg].
    destruct d; simpl in *; auto.
Qed.

(* unary plus is the identity on the syntax tree; nothing to prove. *)

Lemma Qv_abs : forall d, finite d -> (Qv (dec_abs d) == Qabs (Qv d))%Q.
Proof.
  intros [n c e| |] H; simpl in H; try contradiction. simpl.
  symmetry. apply qval_false_abs. assumption.
Qed.

Theorem abs_value : forall v d, to_float v = None -> to_decimal v = Some d -> finite d ->
  abs v = Ok (vdec (dec_abs d)) /\ finite (dec_abs d) /\ (Qv (dec_abs d) == Qabs (Qv d))%Q.
Proof.
  intros v d HF HD Hfin. unfold abs. rewrite no_float_detour_num1 by assumption. rewrite HD.
  split; [reflexivity|]. split; [|apply Qv_abs; assumption].
  destruct d; simpl in *; auto.
Qed.

(* value of a decimal with a negative exponent as a fraction *)
Lemma qval_frac : forall n c e, e < 0 ->
  (qval n c e == sgn n c # Z.to_pos (10 ^ (- e)))%Q.
Proof.
  intros n c e He. unfold qval.
  assert (P : 0 < 10 ^ (- e)) by (apply pow10_pos; lia).
  replace e with (- (- e)) at 1 by lia.
  rewrite Qpower_opp. rewrite <- Zpower_Qpower by lia.
  destruct (10 ^ (- e)) as [|p|p] eqn:E; try lia.
  simpl Z.to_pos. rewrite (Qmake_Qdiv (sgn n c) p). reflexivity.
Qed.

Lemma qval_int : forall n c e, 0 <= e -> (qval n c e == inject_Z (sgn n c * 10 ^ e))%Q.
Proof.
  intros n c e He. unfold qval. rewrite inject_Z_mult, Zpower_Qpower by lia. reflexivity.
Qed.

Lemma qval_e0 : forall n c, (qval n c 0 == inject_Z (sgn n c))%Q.
Proof. intros. rewrite qval_int by lia. rewrite Z.mul_1_r. reflexivity. Qed.

Lemma Qfloor_frac : forall a P, 0 < P -> Qfloor (a # Z.to_pos P) = a / P.
Proof. intros a P HP. unfold Qfloor. rewrite Z2Pos.id by assumption. reflexivity. Qed.

Lemma Qceiling_frac : forall a P, 0 < P -> Qceiling (a # Z.to_pos P) = - ((- a) / P).
Proof.
  intros a P HP. unfold Qceiling. unfold Qopp. simpl Qnum. simpl Qden.
  rewrite Qfloor_frac by assumption. reflexivity.
Qed.

(* floor and ceil are the mathematical floor and ceiling of the value; they
   never round (the results are integers of at most as many digits) *)
Theorem dec_floor_value : forall d, finite d ->
  finite (dec_floor d) /\ (Qv (dec_floor d) == inject_Z (Qfloor (Qv d)))%Q.
Proof.
  intros [n c e| |] H; simpl in H; try contradiction. unfold dec_floor.
  destruct (Z.leb_spec 0 e) as [He|He].
  - split; [exact H|]. simpl Qv. rewrite (Qfloor_comp _ _ (qval_int n c e He)).
    rewrite Qfloor_Z. apply qval_int. assumption.
  - assert (P : 0 < 10 ^ (- e)) by (apply pow10_pos; lia). unfold pow10.
    simpl Qv. rewrite (Qfloor_comp _ _ (qval_frac n c e He)). rewrite Qfloor_frac by assumption.
    pose proof (Z.div_mod c (10 ^ (- e)) ltac:(lia)) as DM.
    pose proof (Z.mod_pos_bound c (10 ^ (- e)) P) as MB.
    assert (Q0 : 0 <= c / 10 ^ (- e)) by (apply Z.div_pos; lia).
    destruct n.
    + destruct (Z.eqb_spec (c mod 10 ^ (- e)) 0) as [R0|R0]; simpl Qv; (split; [simpl; lia|]);
        rewrite qval_e0; unfold sgn; apply inject_Z_injective.
      * rewrite Z.div_opp_l_z by lia. reflexivity.
      * rewrite Z.div_opp_l_nz by lia. lia.
    + simpl Qv. split; [simpl; lia|]. rewrite qval_e0. reflexivity.
Qed.

Theorem dec_ceil_value : forall d, finite d ->
  finite (dec_ceil d) /\ (Qv (dec_ceil d) == inject_Z (Qceiling (Qv d)))%Q.
Proof.
  intros [n c e| |] H; simpl in H; try contradiction. unfold dec_ceil.
  destruct (Z.leb_spec 0 e) as [He|He].
  - split; [exact H|]. simpl Qv. rewrite (Qceiling_comp _ _ (qval_int n c e He)).
    rewrite Qceiling_Z. apply qval_int. assumption.
  - assert (P : 0 < 10 ^ (- e)) by (apply pow10_pos; lia). unfold pow10.
    simpl Qv. rewrite (Qceiling_comp _ _ (qval_frac n c e He)). rewrite Qceiling_frac by assumption.
    pose proof (Z.div_mod c (10 ^ (- e)) ltac:(lia)) as DM.
    pose proof (Z.mod_pos_bound c (10 ^ (- e)) P) as MB.
    assert (Q0 : 0 <= c / 10 ^ (- e)) by (apply Z.div_pos; lia).
    destruct n.
    + simpl Qv. split; [simpl; lia|]. rewrite qval_e0. unfold sgn.
      rewrite Z.opp_involutive. reflexivity.
    + destruct (Z.eqb_spec (c mod 10 ^ (- e)) 0) as [R0|R0]; simpl Qv; (split; [simpl; lia|]);
        rewrite qval_e0; unfold sgn; apply inject_Z_injective.
      * rewrite Z.div_opp_l_z by lia. lia.
      * rewrite Z.div_opp_l_nz by lia. lia.
Qed.

Theorem floor_value : forall v d, to_float v = None -> to_decimal v = Some d -> finite d ->
  floor v = Ok (vdec (dec_floor d)) /\ finite (dec_floor d) /\
  (Qv (dec_floor d) == inject_Z (Qfloor (Qv d)))%Q.
Proof.
  intros v d HF HD Hfin. unfold floor. rewrite no_float_detour_num1 by assumption. rewrite HD.
  split; [reflexivity | apply dec_floor_value; assumption].
Qed.

Theorem ceil_value : forall v d, to_float v = None -> to_decimal v = Some d -> finite d ->
  ceil v = Ok (vdec (dec_ceil d)) /\ finite (dec_ceil d) /\
  (Qv (dec_ceil d) == inject_Z (Qceiling (Qv d)))%Q.
Proof.
  intros v d HF HD Hfin. unfold ceil. rewrite no_float_detour_num1 by assumption. rewrite HD.
  split; [reflexivity | apply dec_ceil_value; assumption].
Qed.

(* to_number: a string holding a JSON number becomes the decimal that the
   same text denotes as a JSON number; numbers pass through unchanged *)
Theorem to_number_string : forall s d, json_number_ok s = true ->
  to_decimal (VNum (NJson s)) = Some d -> to_number (VStr s) = vdec d.
Proof. intros s d H1 H2. simpl in *. rewrite H1, H2. reflexivity. Qed.

Theorem to_number_number : forall n, to_number (VNum n) = VNum n.
Proof. reflexivity. Qed.

Example to_number_examples :
  to_number (VStr (bs "0.1")) = vdec (DFin false 1 (-1)) /\
  to_number (VStr (bs "-12.50e3")) = vdec (DFin true 1250 1) /\
  to_number (VStr (bs "12345678901234567890123456789012345678")) =
    vdec (DFin false 1234567890123456789012345678901235 4).
Proof. vm_compute. repeat split. Qed.

(* ------------------------------------------------------------------ *)
(* H (second part). sum adds exactly and rounds once: it is exact      *)
(* whenever the exact TOTAL is representable                            *)
(* ------------------------------------------------------------------ *)

Fixpoint qsum (ds : list dec) : Q :=
  match ds with [] => 0%Q | d :: t => (Qv d + qsum t)%Q end.

(* exact_add never rounds: on finite operands its value is the exact sum *)
Lemma exact_add_value : forall x y, fin x -> fin y ->
  finite (exact_add x y) /\ (Qv (exact_add x y) == Qv x + Qv y)%Q.
Proof.
  intros [n1 c1 e1| |] [n2 c2 e2| |] Hx Hy; simpl in Hx, Hy; try contradiction.
  pose proof (qval_add n1 c1 e1 n2 c2 e2) as HQ.
  unfold exact_add, align in *. cbv beta iota zeta in *.
  split; [simpl; apply Z.abs_nonneg | exact HQ].
Qed.

Lemma fin_is_fin : forall d, fin d -> is_fin d = true.
Proof. intros [] H; simpl in *; auto; contradiction. Qed.

Lemma is_fin_fin : forall d, is_fin d = true -> fin d.
Proof. intros [] H; simpl in *; auto; discriminate. Qed.

(* over finite elements the loop stays on the exact path and its total is the
   exact rational sum, whatever the size of the partial sums *)
Lemma sum_loop_exact : forall l ds t sp,
  Forall2 (fun v d => to_decimal v = Some d) l ds -> Forall fin ds -> finite t ->
  exists t', sum_loop l t sp true = Ok (t', sp, true) /\ finite t' /\
             (Qv t' == Qv t + qsum ds)%Q.
Proof.
  intros l ds t sp HF. revert t. induction HF as [|v d l ds Hv HF IH]; intros t HD Ht.
  - exists t. split; [reflexivity|]. split; [assumption|]. simpl. ring.
  - inversion HD as [|? ? Hd HD']; subst. cbn [sum_loop]. rewrite Hv.
    rewrite (fin_is_fin d Hd). cbn [andb].
    destruct (exact_add_value t d (finite_fin t Ht) Hd) as [HA HV].
    destruct (IH (exact_add t d) HD' HA) as (t' & E1 & E2 & E3).
    exists t'. split; [exact E1|]. split; [exact E2|].
    rewrite E3, HV. simpl. ring.
Qed.

Lemma sum_loop_total : forall l ds,
  Forall2 (fun v d => to_decimal v = Some d) l ds -> Forall fin ds ->
  exists n c e, sum_loop l dec_zero dec_zero true = Ok (DFin n c e, dec_zero, true) /\
                0 <= c /\ (qval n c e == qsum ds)%Q.
Proof.
  intros l ds HF HD.
  destruct (sum_loop_exact l ds dec_zero dec_zero HF HD ltac:(simpl; lia)) as (t & E1 & E2 & E3).
  destruct t as [n c e| |]; simpl in E2; try contradiction.
  exists n, c, e. split; [exact E1|]. split; [exact E2|].
  simpl Qv in E3. rewrite E3, qval_zero. ring.
Qed.

(* sum is exact whenever the exact TOTAL is representable *)
Theorem sum_exact : forall l ds,
  Forall2 (fun v d => to_decimal v = Some d) l ds -> Forall fin ds ->
  fits34 (qsum ds) ->
  exists d, sum (VArr l) = Ok (vdec d) /\ canonical d /\ (Qv d == qsum ds)%Q.
Proof.
  intros l ds HF HD HQ.
  destruct (sum_loop_total l ds HF HD) as (n & c & e & E1 & Hc & EV).
  destruct (fit_value_exact' n c e _ Hc EV HQ) as [C1 C2].
  exists (fit n c e). split; [|split; assumption].
  unfold sum. rewrite E1. cbn [bind round_once].
  apply trap_fin. apply finite_fin, canonical_finite, C1.
Qed.

(* the former, weaker statements (every PARTIAL sum representable) follow *)
Fixpoint partial_sums_fit (acc : Q) (ds : list dec) : Prop :=
  match ds with
  | [] => True
  | d :: t => finite d /\ fits34 (acc + Qv d) /\ partial_sums_fit (acc + Qv d) t
  end.

Lemma partial_sums_fit_total : forall ds a, fits34 a -> partial_sums_fit a ds ->
  Forall fin ds /\ fits34 (a + qsum ds).
Proof.
  induction ds as [|d t IH]; intros a Ha H.
  - split; [constructor|]. apply (fits34_comp a); [simpl; ring | exact Ha].
  - destruct H as (H1 & H2 & H3). destruct (IH _ H2 H3) as [F1 F2].
    split; [constructor; [apply finite_fin; exact H1 | exact F1]|].
    apply (fits34_comp _ _ (Qeq_sym _ _ (Qplus_assoc a (Qv d) (qsum t)))). exact F2.
Qed.

Lemma fits34_zero : fits34 0.
Proof. exists 0, 0. split; [reflexivity|]. split; [unfold emin, emax; lia | reflexivity]. Qed.

Corollary sum_exact_when_partial_sums_fit : forall l ds,
  Forall2 (fun v d => to_decimal v = Some d) l ds ->
  partial_sums_fit 0 ds ->
  exists d, sum (VArr l) = Ok (vdec d) /\ finite d /\ (Qv d == qsum ds)%Q.
Proof.
  intros l ds HF HP. destruct (partial_sums_fit_total ds 0 fits34_zero HP) as [HD HQ].
  destruct (sum_exact l ds HF HD (fits34_comp _ _ (Qplus_0_l _) HQ)) as (d & E1 & E2 & E3).
  exists d. split; [exact E1|]. split; [apply canonical_finite; exact E2 | exact E3].
Qed.

(* ------------------------------------------------------------------ *)
(* C. division                                                         *)
(* ------------------------------------------------------------------ *)

Lemma qval_abs_eq : forall n c e m k, 0 <= c ->
  (qval n c e == inject_Z m * inject_Z 10 ^ k)%Q ->
  (qval false c e == qval false (Z.abs m) k)%Q.
Proof.
  intros n c e m k Hc H.
  rewrite <- (qval_false_abs n c e Hc). rewrite H. rewrite Qabs_Qmult.
  rewrite (Qabs_pos (inject_Z 10 ^ k)) by (apply Qlt_le_weak, ten_pow_pos).
  unfold qval, sgn. apply Qmult_comp; [|reflexivity].
  unfold Qabs, inject_Z. simpl. reflexivity.
Qed.

Lemma inject_Z_neq0 : forall z, z <> 0 -> ~ (inject_Z z == 0)%Q.
Proof. intros z H E. apply H. unfold Qeq in E. simpl in E. lia. Qed.

Lemma ten_pow_neq0 : forall k, ~ (inject_Z 10 ^ k == 0)%Q.
Proof. intros k E. pose proof (ten_pow_pos k) as P. rewrite E in P. discriminate P. Qed.

Lemma sgn_xorb_inj : forall n1 n2 c1 c2, c2 <> 0 ->
  (inject_Z (sgn n1 c1) / inject_Z (sgn n2 c2) == inject_Z (sgn (xorb n1 n2) c1) / inject_Z c2)%Q.
Proof.
  intros n1 n2 c1 c2 H. pose proof (inject_Z_neq0 c2 H) as N.
  destruct n1, n2; unfold sgn; simpl xorb; cbv iota; rewrite ?inject_Z_opp; field; assumption.
Qed.

(* the exact quotient, with the numerator scaled by 10^k *)
Lemma qval_div : forall n1 c1 e1 n2 c2 e2 k, c2 <> 0 -> 0 <= k ->
  (qval n1 c1 e1 / qval n2 c2 e2 ==
   inject_Z (sgn (xorb n1 n2) (c1 * 10 ^ k)) / inject_Z c2 * inject_Z 10 ^ (e1 - e2 - k))%Q.
Proof.
  intros n1 c1 e1 n2 c2 e2 k H Hk. unfold qval.
  pose proof (inject_Z_neq0 c2 H) as N.
  assert (N2 : ~ (inject_Z (sgn n2 c2) == 0)%Q) by (apply inject_Z_neq0; destruct n2; unfold sgn; lia).
  rewrite sgn_mul, inject_Z_mult, Zpower_Qpower by lia.
  replace (e1 - e2 - k) with (e1 + (- e2) + (- k)) by lia.
  rewrite !Qpower_plus by exact ten_neq0. rewrite !Qpower_opp.
  pose proof (ten_pow_neq0 e2) as T2. pose proof (ten_pow_neq0 k) as Tk.
  transitivity (inject_Z (sgn n1 c1) / inject_Z (sgn n2 c2) * (inject_Z 10 ^ e1 / inject_Z 10 ^ e2))%Q.
  - field. split; assumption.
  - rewrite sgn_xorb_inj by assumption. field. repeat split; assumption.
Qed.

Theorem quo_exact : forall a b, finite a -> finite b -> ~ (Qv b == 0)%Q ->
  fits34 (Qv a / Qv b) ->
  canonical (dec_quo a b) /\ (Qv (dec_quo a b) == Qv a / Qv b)%Q.
Proof.
  intros [n1 c1 e1| |] [n2 c2 e2| |] Ha Hb Hnz HF; simpl in Ha, Hb; try contradiction.
  change (Qv (DFin n1 c1 e1)) with (qval n1 c1 e1) in *.
  change (Qv (DFin n2 c2 e2)) with (qval n2 c2 e2) in *.
  assert (Hc2 : 0 < c2).
  { destruct (Z.eq_dec c2 0) as [->|]; [|lia]. exfalso. apply Hnz. apply qval_zero. }
  unfold dec_quo. destruct (Z.eqb_spec c2 0) as [|_]; [lia|].
  destruct (Z.eqb_spec c1 0) as [->|Hc1].
  - split.
    + unfold canonical. rewrite digits_nonpos by lia. unfold prec34, emin, emax. lia.
    + simpl Qv. rewrite !qval_zero. unfold Qdiv. ring.
  - assert (Hc1' : 0 < c1) by lia.
    set (k := Z.max 0 (prec34 + 3 + digits c2 - digits c1)).
    assert (Hk : 0 <= k) by (unfold k; lia).
    unfold pow10. set (num := c1 * 10 ^ k).
    set (x := xorb n1 n2). set (E := e1 - e2 - k).
    pose proof (qval_div n1 c1 e1 n2 c2 e2 k ltac:(lia) Hk) as QD. fold num x E in QD.
    assert (Pk : 0 < 10 ^ k) by (apply pow10_pos; lia).
    assert (Hnum : 0 < num) by (unfold num; nia).
    pose proof (Z.div_mod num c2 ltac:(lia)) as DM.
    pose proof (Z.mod_pos_bound num c2 Hc2) as MB.
    assert (N2 : ~ (inject_Z c2 == 0)%Q) by (apply inject_Z_neq0; lia).
    destruct (Z.eqb_spec (num mod c2) 0) as [R0|R0].
    + (* the division terminates: one exact rounding *)
      apply fit_value_exact'; [apply Z.div_pos; lia | | exact HF].
      rewrite QD. unfold qval. apply Qmult_comp; [|reflexivity].
      replace num with ((num / c2) * c2) at 2 by lia.
      rewrite sgn_mul, inject_Z_mult. field. exact N2.
    + (* a non-terminating (or too long) quotient is not representable *)
      exfalso. destruct (fits34_comp _ _ QD HF) as (m & j & Hm & Hj & HV).
      assert (HV2 : (qval x num E == inject_Z (m * c2) * inject_Z 10 ^ j)%Q).
      { unfold qval. rewrite inject_Z_mult.
        transitivity (inject_Z (sgn x num) / inject_Z c2 * inject_Z 10 ^ E * inject_Z c2)%Q;
          [field; exact N2|]. rewrite HV. ring. }
      apply qval_abs_eq in HV2; [|lia].
      rewrite Z.abs_mul, (Z.abs_eq c2) in HV2 by lia.
      destruct (Z_le_gt_dec E j) as [HEj|HEj].
      * pose proof (qval_eq_int E num E _ j ltac:(lia) ltac:(lia) HV2) as EI.
        rewrite Z.sub_diag, Z.mul_1_r in EI.
        apply R0. rewrite EI.
        replace (Z.abs m * c2 * 10 ^ (j - E)) with (Z.abs m * 10 ^ (j - E) * c2) by ring.
        apply Z.mod_mul. lia.
      * pose proof (qval_eq_int j num E _ j ltac:(lia) ltac:(lia) HV2) as EI.
        rewrite Z.sub_diag, Z.mul_1_r in EI.
        assert (PE : 0 < 10 ^ (E - j)) by (apply pow10_pos; lia).
        (* num >= 10^36 * c2 *)
        pose proof (digits_spec c1 Hc1') as [L1 U1]. pose proof (digits_spec c2 Hc2) as [L2 U2].
        pose proof (digits_pos c1 Hc1'). pose proof (digits_pos c2 Hc2).
        assert (B : 10 ^ 36 * 10 ^ digits c2 <= num).
        { unfold num. rewrite <- Z.pow_add_r by lia.
          apply Z.le_trans with (10 ^ (digits c1 - 1) * 10 ^ k); [|nia].
          rewrite <- Z.pow_add_r by lia. apply Z.pow_le_mono_r; [lia|].
          unfold k, prec34. lia. }
        assert (10 ^ 36 * c2 < num) by nia.
        assert (Z.abs m * c2 < 10 ^ 34 * c2) by nia.
        assert (num <= num * 10 ^ (E - j)) by nia.
        change (10 ^ 36) with (100 * 10 ^ 34) in *. nia.
Qed.

(* ------------------------------------------------------------------ *)
(* The operators, end to end                                           *)
(* ------------------------------------------------------------------ *)

Section OperatorsExact.
  Variables (x y : value) (a b : dec).
  Hypothesis HF : to_float x = None \/ to_float y = None.
  Hypothesis Hx : to_decimal x = Some a.
  Hypothesis Hy : to_decimal y = Some b.
  Hypothesis Ha : finite a.
  Hypothesis Hb : finite b.

  Lemma arith_exact_gen : forall fop dop (r : Q),
    canonical (dop a b) /\ (Qv (dop a b) == r)%Q ->
    exists d, arith fop dop x y = Ok (vdec d) /\ canonical d /\ (Qv d == r)%Q.
  Proof.
    intros fop dop r [H1 H2]. exists (dop a b). split; [|split; assumption].
    rewrite no_float_detour by assumption. rewrite Hx, Hy.
    apply trap_fin. apply finite_fin, canonical_finite, H1.
  Qed.

  Theorem add_op_exact : fits34 (Qv a + Qv b) ->
    exists d, add x y = Ok (vdec d) /\ canonical d /\ (Qv d == Qv a + Qv b)%Q.
  Proof. intros H. apply arith_exact_gen. apply add_exact; assumption. Qed.

  Theorem subtract_op_exact : fits34 (Qv a - Qv b) ->
    exists d, subtract x y = Ok (vdec d) /\ canonical d /\ (Qv d == Qv a - Qv b)%Q.
  Proof. intros H. apply arith_exact_gen. apply sub_exact; assumption. Qed.

  Theorem multiply_op_exact : fits34 (Qv a * Qv b) ->
    exists d, multiply x y = Ok (vdec d) /\ canonical d /\ (Qv d == Qv a * Qv b)%Q.
  Proof. intros H. apply arith_exact_gen. apply mul_exact; assumption. Qed.

  Theorem divide_op_exact : ~ (Qv b == 0)%Q -> fits34 (Qv a / Qv b) ->
    exists d, divide x y = Ok (vdec d) /\ canonical d /\ (Qv d == Qv a / Qv b)%Q.
  Proof. intros H0 H. apply arith_exact_gen. apply quo_exact; assumption. Qed.
End OperatorsExact.

(* avg: the exact total divided by the length; exact when that quotient is
   representable *)
Lemma dec_of_Z_small : forall z, 0 <= z < 10 ^ 34 -> dec_of_Z z = DFin false z 0.
Proof.
  intros z Hz. unfold dec_of_Z. rewrite Z.abs_eq by lia.
  destruct (Z.ltb_spec z 0); [lia|].
  apply fit_exact; [lia | apply digits_le_of_lt; unfold prec34; lia | unfold emin, emax; lia].
Qed.

Theorem avg_exact : forall l ds, l <> [] ->
  Forall2 (fun v d => to_decimal v = Some d) l ds -> Forall fin ds ->
  fits34 (qsum ds / inject_Z (Z.of_nat (List.length l))) ->
  exists d, avg (VArr l) = Ok (vdec d) /\ canonical d /\
            (Qv d == qsum ds / inject_Z (Z.of_nat (List.length l)))%Q.
Proof.
  intros l ds Hne HF HD HQ.
  destruct (sum_loop_total l ds HF HD) as (s & c & e & E1 & Hc & EV).
  set (n := Z.of_nat (List.length l)) in *.
  assert (Hn : 0 < n) by (unfold n; destruct l; [contradiction | simpl List.length; lia]).
  assert (QN : (Qv (DFin false n 0) == inject_Z n)%Q) by (simpl; apply qval_e0).
  assert (NZ : ~ (Qv (DFin false n 0) == 0)%Q).
  { rewrite QN. apply inject_Z_neq0. lia. }
  assert (EQ : (Qv (DFin s c e) / Qv (DFin false n 0) == qsum ds / inject_Z n)%Q).
  { rewrite QN. simpl Qv. rewrite EV. reflexivity. }
  destruct (quo_exact (DFin s c e) (DFin false n 0) Hc ltac:(simpl; lia) NZ
              (fits34_comp _ _ (Qeq_sym _ _ EQ) HQ)) as [C1 C2].
  exists (dec_quo (DFin s c e) (DFin false n 0)). split; [|split; [exact C1 | rewrite C2; exact EQ]].
  unfold avg. destruct l as [|v l']; [contradiction|]. rewrite E1. cbn [bind].
  fold n. apply trap_fin. apply finite_fin, canonical_finite, C1.
Qed.

Corollary avg_exact_when_partial_sums_fit : forall l ds,
  l <> [] -> Z.of_nat (List.length l) < 10 ^ 34 ->
  Forall2 (fun v d => to_decimal v = Some d) l ds ->
  partial_sums_fit 0 ds ->
  fits34 (qsum ds / inject_Z (Z.of_nat (List.length l))) ->
  exists d, avg (VArr l) = Ok (vdec d) /\ canonical d /\
            (Qv d == qsum ds / inject_Z (Z.of_nat (List.length l)))%Q.
Proof.
  intros l ds Hne _ HF HP HQ. destruct (partial_sums_fit_total ds 0 fits34_zero HP) as [HD _].
  exact (avg_exact l ds Hne HF HD HQ).
Qed.

(* ------------------------------------------------------------------ *)
(* Rounding error and overflow threshold of fit                        *)
(* ------------------------------------------------------------------ *)

(* rounding the coefficient: the result, rescaled to the original exponent,
   is within half a unit of the 34th digit of c *)
Lemma round_coef_err : forall c e c1 e1, 0 < c -> round_coef c e = (c1, e1) ->
  exists j, 0 <= j /\ e1 = e + j /\ 0 < c1 /\ digits c1 <= prec34 /\
            2 * Z.abs (c1 * 10 ^ j - c) <= 10 ^ (digits c - prec34) /\
            (digits c <= prec34 -> j = 0 /\ c1 = c) /\
            (prec34 < digits c -> digits c - prec34 <= j /\
               10 ^ 33 * 10 ^ (digits c - prec34) <= c1 * 10 ^ j <= 10 ^ 34 * 10 ^ (digits c - prec34)).
Proof.
  intros c e c1 e1 Hc. unfold round_coef.
  destruct (Z.leb_spec (digits c) prec34) as [Hd|Hd].
  - intros E; inversion E; subst c1 e1. exists 0. rewrite Z.mul_1_r, Z.sub_diag. simpl Z.abs.
    assert (0 <= 10 ^ (digits c - prec34)) by (apply Z.pow_nonneg; lia).
    repeat split; try lia.
  - unfold prec34 in *. set (d := digits c) in *. set (k := d - 34).
    pose proof (digits_spec c Hc) as [L U]. fold d in L, U.
    assert (Hk : 0 < k) by (unfold k; lia).
    pose proof (drop_digits_bounds c k ltac:(lia) Hk) as [[B1 B2] B3].
    assert (Pk : 0 < 10 ^ k) by (apply pow10_pos; lia).
    assert (QL : 10 ^ 33 <= c / 10 ^ k).
    { apply Z.div_le_lower_bound; [lia|]. rewrite <- Z.pow_add_r by lia.
      replace (k + 33) with (d - 1) by (unfold k; lia). exact L. }
    assert (QU : c / 10 ^ k < 10 ^ 34).
    { apply Z.div_lt_upper_bound; [lia|]. rewrite <- Z.pow_add_r by lia.
      replace (k + 34) with d by (unfold k; lia). exact U. }
    set (q := drop_digits c k) in *. clearbody q.
    assert (P33 : 0 < 10 ^ 33) by reflexivity.
    destruct (Z.gtb_spec (digits q) 34) as [Hq|Hq]; intros E; inversion E; subst c1 e1.
    + assert (H : q = 10 ^ 34).
      { destruct (Z.eq_dec q (10 ^ 34)); [assumption|]. exfalso.
        assert (digits q <= 34) by (apply digits_le_of_lt; lia). lia. }
      exists (k + 1). rewrite H in *. change (10 ^ 34 / 10) with (10 ^ 33).
      assert (E1 : 10 ^ 33 * 10 ^ (k + 1) = 10 ^ 34 * 10 ^ k).
      { rewrite Z.pow_add_r by lia. change (10 ^ 34) with (10 ^ 33 * 10 ^ 1). ring. }
      rewrite E1. repeat split; try lia.
      apply digits_le_of_lt; [lia | reflexivity].
    + exists k. repeat split; try lia; apply Z.mul_le_mono_nonneg_r; lia.
Qed.

(* the second stage of fit in the normal range (no subnormal rounding) *)
Lemma fit_normal : forall n c e c1 e1, round_coef c e = (c1, e1) ->
  0 < c1 -> digits c1 <= prec34 -> emin <= e1 ->
  (emax < e1 /\ prec34 < digits c1 + (e1 - emax) /\ fit n c e = DInf n) \/
  (exists c' e', fit n c e = DFin n c' e' /\ canonical (DFin n c' e') /\
                 (qval n c' e' == qval n c1 e1)%Q /\
                 (e1 <= emax \/ digits c1 + (e1 - emax) <= prec34)).
Proof.
  intros n c e c1 e1 ER Hc1 Hd He. unfold fit. rewrite ER.
  destruct (Z.eqb_spec c1 0) as [|_]; [lia|].
  destruct (Z.gtb_spec e1 emax) as [Hhi|Hhi].
  - destruct (Z.leb_spec (digits c1 + (e1 - emax)) prec34) as [Hp|Hp].
    + right. exists (c1 * pow10 (e1 - emax)), emax. unfold pow10.
      assert (0 < 10 ^ (e1 - emax)) by (apply pow10_pos; lia).
      split; [reflexivity|]. split; [|split; [|right; assumption]].
      * unfold canonical. rewrite digits_mul_pow by lia.
        split; [nia|]. split; [assumption|]. unfold emin, emax; lia.
      * rewrite qval_shift by lia. replace (emax + (e1 - emax)) with e1 by lia. reflexivity.
    + left. repeat split; assumption.
  - destruct (Z.ltb_spec e1 emin); [lia|].
    right. exists c1, e1. split; [reflexivity|]. split; [|split; [reflexivity | left; assumption]].
    unfold canonical. repeat split; lia.
Qed.

(* one unit of the 34th significant digit of r *)
Definition is_ulp34 (r u : Q) : Prop :=
  exists p : Z, (inject_Z 10 ^ p <= Qabs r)%Q /\ (Qabs r < inject_Z 10 ^ (p + 1))%Q /\
                (u == inject_Z 10 ^ (p - 33))%Q.

Lemma Qabs_qval : forall n c e, 0 <= c -> (Qabs (qval n c e) == inject_Z c * inject_Z 10 ^ e)%Q.
Proof. intros. rewrite qval_false_abs by assumption. reflexivity. Qed.

Lemma qval_ulp : forall n c e, 0 < c ->
  is_ulp34 (qval n c e) (inject_Z 10 ^ (digits c + e - prec34)).
Proof.
  intros n c e Hc. exists (digits c - 1 + e).
  pose proof (digits_spec c Hc) as [L U]. pose proof (digits_pos c Hc) as Dp.
  rewrite Qabs_qval by lia. split; [|split].
  - rewrite Qpower_plus by exact ten_neq0. apply Qmult_le_compat_r; [|apply Qlt_le_weak, ten_pow_pos].
    rewrite <- Zpower_Qpower by lia. rewrite <- Zle_Qle. exact L.
  - replace (digits c - 1 + e + 1) with (digits c + e) by lia.
    rewrite Qpower_plus by exact ten_neq0. apply Qmult_lt_compat_r; [apply ten_pow_pos|].
    rewrite <- Zpower_Qpower by lia. rewrite <- Zlt_Qlt. exact U.
  - unfold prec34. replace (digits c - 1 + e - 33) with (digits c + e - 34) by lia. reflexivity.
Qed.

(* difference of two values at a common exponent *)
Lemma qval_diff_abs : forall n a b e, 0 <= a -> 0 <= b ->
  (Qabs (qval n a e - qval n b e) == inject_Z (Z.abs (a - b)) * inject_Z 10 ^ e)%Q.
Proof.
  intros n a b e Ha Hb. unfold qval.
  setoid_replace (inject_Z (sgn n a) * inject_Z 10 ^ e - inject_Z (sgn n b) * inject_Z 10 ^ e)%Q
    with (inject_Z (sgn n a - sgn n b) * inject_Z 10 ^ e)%Q
    by (unfold Z.sub; rewrite inject_Z_plus, inject_Z_opp; ring).
  rewrite Qabs_Qmult. rewrite (Qabs_pos (inject_Z 10 ^ e)) by (apply Qlt_le_weak, ten_pow_pos).
  apply Qmult_comp; [|reflexivity].
  unfold Qabs, inject_Z. simpl.
  replace (Z.abs (sgn n a - sgn n b)) with (Z.abs (a - b)) by (destruct n; unfold sgn; lia).
  reflexivity.
Qed.

(* In the normal range, fit either overflows or returns a canonical decimal
   within HALF a unit of the 34th significant digit of the exact value. *)
Theorem fit_close : forall n c e, 0 < c -> emin <= digits c + e - prec34 ->
  fit n c e = DInf n \/
  exists c' e', fit n c e = DFin n c' e' /\ canonical (DFin n c' e') /\
    (Qabs (qval n c' e' - qval n c e) <= (1 # 2) * inject_Z 10 ^ (digits c + e - prec34))%Q.
Proof.
  intros n c e Hc Hnorm.
  destruct (round_coef c e) as [c1 e1] eqn:ER.
  destruct (round_coef_err c e c1 e1 Hc ER) as (j & Hj & He1 & Hc1 & Hd1 & Herr & Hsmall & Hbig).
  assert (Hn1 : emin <= e1).
  { destruct (Z_le_gt_dec (digits c) prec34) as [Hd|Hd].
    - destruct (Hsmall Hd) as [-> ->]. unfold prec34 in *. lia.
    - destruct (Hbig ltac:(lia)) as [Hkj _]. lia. }
  destruct (fit_normal n c e c1 e1 ER Hc1 Hd1 Hn1) as [(_ & _ & HI)|(c' & e' & EF & HC & HV & _)];
    [left; exact HI | right].
  exists c', e'. split; [exact EF|]. split; [exact HC|].
  rewrite HV. subst e1. rewrite <- (qval_shift n c1 e j Hj).
  assert (P : 0 < 10 ^ j) by (apply pow10_pos; lia).
  rewrite qval_diff_abs by nia.
  destruct (Z_le_gt_dec (digits c) prec34) as [Hd|Hd].
  - destruct (Hsmall Hd) as [-> ->]. rewrite Z.mul_1_r, Z.sub_diag. simpl Z.abs.
    setoid_replace (inject_Z 0 * inject_Z 10 ^ e)%Q with 0%Q by ring.
    apply Qmult_le_0_compat; [discriminate | apply Qlt_le_weak, ten_pow_pos].
  - replace (digits c + e - prec34) with ((digits c - prec34) + e) by lia.
    rewrite Qpower_plus by exact ten_neq0. rewrite Qmult_assoc.
    apply Qmult_le_compat_r; [|apply Qlt_le_weak, ten_pow_pos].
    rewrite <- Zpower_Qpower by lia.
    apply Qmult_le_l with (z := inject_Z 2); [reflexivity|].
    setoid_replace (inject_Z 2 * ((1 # 2) * inject_Z (10 ^ (digits c - prec34))))%Q
      with (inject_Z (10 ^ (digits c - prec34))) by (simpl; field).
    rewrite <- inject_Z_mult. rewrite <- Zle_Qle. exact Herr.
Qed.

Lemma is_ulp34_comp : forall r s u, (r == s)%Q -> is_ulp34 r u -> is_ulp34 s u.
Proof.
  intros r s u E (p & H1 & H2 & H3). exists p. rewrite <- E. repeat split; assumption.
Qed.

(* the unit in the last place is determined by the value *)
Lemma is_ulp34_unique : forall r u v, is_ulp34 r u -> is_ulp34 r v -> (u == v)%Q.
Proof.
  intros r u v (p & A1 & A2 & A3) (p' & B1 & B2 & B3).
  assert (T : (1 < inject_Z 10)%Q) by reflexivity.
  assert (p < p' + 1).
  { apply (Qpower_lt_compat_l_inv (inject_Z 10)); [|exact T].
    eapply Qle_lt_trans; [exact A1 | exact B2]. }
  assert (p' < p + 1).
  { apply (Qpower_lt_compat_l_inv (inject_Z 10)); [|exact T].
    eapply Qle_lt_trans; [exact B1 | exact A2]. }
  assert (p = p') by lia. subst p'. rewrite A3, B3. reflexivity.
Qed.

(* the smallest normal magnitude: 10^(emin+33) = 1e-6143 *)
Definition normal (r : Q) : Prop := (inject_Z 10 ^ (emin + 33) <= Qabs r)%Q.

Lemma normal_digits : forall n c e, 0 < c -> normal (qval n c e) ->
  emin <= digits c + e - prec34.
Proof.
  intros n c e Hc HN. unfold normal in HN.
  destruct (qval_ulp n c e Hc) as (p & P1 & P2 & _).
  pose proof (digits_spec c Hc) as [L U]. pose proof (digits_pos c Hc) as Dp.
  assert (H : (Qabs (qval n c e) < inject_Z 10 ^ (digits c + e))%Q).
  { rewrite Qabs_qval by lia. rewrite Qpower_plus by exact ten_neq0.
    apply Qmult_lt_compat_r; [apply ten_pow_pos|].
    rewrite <- Zpower_Qpower by lia. rewrite <- Zlt_Qlt. exact U. }
  assert (emin + 33 < digits c + e).
  { apply (Qpower_lt_compat_l_inv (inject_Z 10)); [|reflexivity].
    eapply Qle_lt_trans; [exact HN | exact H]. }
  unfold prec34. lia.
Qed.

Theorem fit_close_ulp : forall n c e r, 0 <= c -> (qval n c e == r)%Q -> normal r ->
  fit n c e = DInf n \/
  (canonical (fit n c e) /\
   exists u, is_ulp34 r u /\ (Qabs (Qv (fit n c e) - r) <= (1 # 2) * u)%Q).
Proof.
  intros n c e r Hc E HN.
  assert (Hc' : 0 < c).
  { destruct (Z.eq_dec c 0) as [->|]; [|lia]. exfalso. unfold normal in HN.
    rewrite <- E, qval_zero in HN. simpl in HN.
    pose proof (ten_pow_pos (emin + 33)) as P.
    apply (Qlt_irrefl 0). eapply Qlt_le_trans; [exact P | exact HN]. }
  assert (HN' : normal (qval n c e)) by (unfold normal; rewrite E; exact HN).
  destruct (fit_close n c e Hc' (normal_digits n c e Hc' HN')) as [HI|(c' & e' & EF & HC & HB)];
    [left; exact HI | right].
  rewrite EF. split; [exact HC|].
  exists (inject_Z 10 ^ (digits c + e - prec34))%Q. split.
  - apply (is_ulp34_comp _ _ _ E). apply qval_ulp. exact Hc'.
  - simpl Qv. rewrite <- E. exact HB.
Qed.

(* + - * : overflow, or within half an ulp of the exact result *)
Definition close_to (half : bool) (d : dec) (r : Q) : Prop :=
  canonical d /\ exists u, is_ulp34 r u /\
    (Qabs (Qv d - r) <= (if half then (1 # 2) * u else u))%Q.

Theorem mul_close : forall a b, finite a -> finite b -> normal (Qv a * Qv b) ->
  (exists s, dec_mul a b = DInf s) \/ close_to true (dec_mul a b) (Qv a * Qv b).
Proof.
  intros [n1 c1 e1| |] [n2 c2 e2| |] Ha Hb HN; simpl in Ha, Hb; try contradiction.
  change (Qv (DFin n1 c1 e1)) with (qval n1 c1 e1) in *.
  change (Qv (DFin n2 c2 e2)) with (qval n2 c2 e2) in *.
  unfold dec_mul.
  destruct (fit_close_ulp (xorb n1 n2) (c1 * c2) (e1 + e2) _
             (Z.mul_nonneg_nonneg _ _ Ha Hb) (qval_mul n1 c1 e1 n2 c2 e2) HN) as [HI|HC].
  - left. eexists; exact HI.
  - right. exact HC.
Qed.

Theorem add_close : forall a b, finite a -> finite b -> normal (Qv a + Qv b) ->
  (exists s, dec_add a b = DInf s) \/ close_to true (dec_add a b) (Qv a + Qv b).
Proof.
  intros [n1 c1 e1| |] [n2 c2 e2| |] Ha Hb HN; simpl in Ha, Hb; try contradiction.
  change (Qv (DFin n1 c1 e1)) with (qval n1 c1 e1) in *.
  change (Qv (DFin n2 c2 e2)) with (qval n2 c2 e2) in *.
  pose proof (qval_add n1 c1 e1 n2 c2 e2) as HQ.
  unfold dec_add, align in *. cbv beta iota zeta in *.
  set (e := Z.min e1 e2) in *.
  set (s := sgn n1 (c1 * pow10 (e1 - e)) + sgn n2 (c2 * pow10 (e2 - e))) in *.
  destruct (Z.eqb_spec s 0) as [E0|E0].
  - exfalso. rewrite E0 in HQ. simpl in HQ. unfold normal in HN.
    rewrite <- HQ, qval_zero in HN. simpl in HN.
    pose proof (ten_pow_pos (emin + 33)) as P.
    apply (Qlt_irrefl 0). eapply Qlt_le_trans; [exact P | exact HN].
  - destruct (fit_close_ulp (s <? 0) (Z.abs s) e _ (Z.abs_nonneg s) HQ HN) as [HI|HC].
    + left. eexists; exact HI.
    + right. exact HC.
Qed.

Theorem sub_close : forall a b, finite a -> finite b -> normal (Qv a - Qv b) ->
  (exists s, dec_sub a b = DInf s) \/ close_to true (dec_sub a b) (Qv a - Qv b).
Proof.
  intros a b Ha Hb HN. unfold dec_sub.
  assert (E : (Qv a + Qv (dec_neg b) == Qv a - Qv b)%Q) by (rewrite Qv_neg; reflexivity).
  assert (HN' : normal (Qv a + Qv (dec_neg b))) by (unfold normal; rewrite E; exact HN).
  destruct (add_close a (dec_neg b) Ha (finite_neg b Hb) HN') as [HI|(HC & u & HU & HB)].
  - left. exact HI.
  - right. split; [exact HC|]. exists u. split; [exact (is_ulp34_comp _ _ _ E HU)|].
    rewrite <- E. exact HB.
Qed.

(* ------------------------------------------------------------------ *)
(* Division: within one ulp                                            *)
(* ------------------------------------------------------------------ *)

Definition sig (x : bool) : Q := if x then (- (1))%Q else 1%Q.

Lemma sgn_Q : forall x z, (inject_Z (sgn x z) == sig x * inject_Z z)%Q.
Proof. intros [] z; unfold sgn, sig; rewrite ?inject_Z_opp; ring. Qed.

Lemma Qabs_sig : forall x t, (Qabs (sig x * t) == Qabs t)%Q.
Proof.
  intros [] t; unfold sig.
  - setoid_replace (- (1) * t)%Q with (- t)%Q by ring. apply Qabs_opp.
  - setoid_replace (1 * t)%Q with t by ring. reflexivity.
Qed.

Lemma quo_num_big : forall c1 c2, 0 < c1 -> 0 < c2 ->
  10 ^ 36 * c2 < c1 * 10 ^ (Z.max 0 (prec34 + 3 + digits c2 - digits c1)).
Proof.
  intros c1 c2 Hc1 Hc2. set (k := Z.max 0 (prec34 + 3 + digits c2 - digits c1)).
  pose proof (digits_spec c1 Hc1) as [L1 U1]. pose proof (digits_spec c2 Hc2) as [L2 U2].
  pose proof (digits_pos c1 Hc1). pose proof (digits_pos c2 Hc2).
  assert (Pk : 0 < 10 ^ k) by (apply pow10_pos; unfold k; lia).
  assert (B : 10 ^ 36 * 10 ^ digits c2 <= c1 * 10 ^ k).
  { rewrite <- Z.pow_add_r by lia.
    apply Z.le_trans with (10 ^ (digits c1 - 1) * 10 ^ k); [|nia].
    rewrite <- Z.pow_add_r by (unfold k; lia). apply Z.pow_le_mono_r; [lia|].
    unfold k, prec34. lia. }
  assert (0 < 10 ^ 36) by reflexivity. nia.
Qed.

Lemma half_le : forall u : Q, (0 <= u)%Q -> ((1 # 2) * u <= u)%Q.
Proof.
  intros u Hu. setoid_replace u with (1 * u)%Q at 2 by ring.
  apply Qmult_le_compat_r; [discriminate | exact Hu].
Qed.

Lemma is_ulp34_pos : forall r u, is_ulp34 r u -> (0 < u)%Q.
Proof. intros r u (p & _ & _ & E). rewrite E. apply ten_pow_pos. Qed.

Theorem quo_close : forall a b, finite a -> finite b -> ~ (Qv b == 0)%Q ->
  normal (Qv a / Qv b) ->
  (exists s, dec_quo a b = DInf s) \/ close_to false (dec_quo a b) (Qv a / Qv b).
Proof.
  intros [n1 c1 e1| |] [n2 c2 e2| |] Ha Hb Hnz HN; simpl in Ha, Hb; try contradiction.
  change (Qv (DFin n1 c1 e1)) with (qval n1 c1 e1) in *.
  change (Qv (DFin n2 c2 e2)) with (qval n2 c2 e2) in *.
  assert (Hc2 : 0 < c2).
  { destruct (Z.eq_dec c2 0) as [->|]; [|lia]. exfalso. apply Hnz. apply qval_zero. }
  assert (Hc1 : 0 < c1).
  { destruct (Z.eq_dec c1 0) as [->|]; [|lia]. exfalso. unfold normal in HN.
    assert (Z0 : (qval n1 0 e1 / qval n2 c2 e2 == 0)%Q) by (rewrite qval_zero; unfold Qdiv; ring).
    rewrite Z0 in HN. simpl in HN. pose proof (ten_pow_pos (emin + 33)) as P.
    apply (Qlt_irrefl 0). eapply Qlt_le_trans; [exact P | exact HN]. }
  unfold dec_quo. destruct (Z.eqb_spec c2 0) as [|_]; [lia|].
  destruct (Z.eqb_spec c1 0) as [|_]; [lia|].
  pose proof (quo_num_big c1 c2 Hc1 Hc2) as BIG.
  set (k := Z.max 0 (prec34 + 3 + digits c2 - digits c1)) in *.
  assert (Hk : 0 <= k) by (unfold k; lia).
  unfold pow10. set (num := c1 * 10 ^ k) in *.
  set (x := xorb n1 n2). set (E := e1 - e2 - k).
  pose proof (qval_div n1 c1 e1 n2 c2 e2 k ltac:(lia) Hk) as QD. fold num x E in QD.
  set (V := (qval n1 c1 e1 / qval n2 c2 e2)%Q) in *.
  assert (Hnum : 0 < num) by (assert (0 < 10 ^ 36) by reflexivity; nia).
  pose proof (Z.div_mod num c2 ltac:(lia)) as DM.
  pose proof (Z.mod_pos_bound num c2 Hc2) as MB.
  assert (N2 : ~ (inject_Z c2 == 0)%Q) by (apply inject_Z_neq0; lia).
  assert (P2 : (0 < inject_Z c2)%Q) by (rewrite (Zlt_Qlt 0 c2) in Hc2; exact Hc2).
  destruct (Z.eqb_spec (num mod c2) 0) as [R0|R0].
  - (* terminating quotient: correctly rounded *)
    assert (EV : (qval x (num / c2) E == V)%Q).
    { rewrite QD. unfold qval. apply Qmult_comp; [|reflexivity].
      replace num with ((num / c2) * c2) at 2 by lia.
      rewrite sgn_mul, inject_Z_mult. field. exact N2. }
    destruct (fit_close_ulp x (num / c2) E V ltac:(apply Z.div_pos; lia) EV HN)
      as [HI|(HC & u & HU & HB)].
    + left. eexists; exact HI.
    + right. split; [exact HC|]. exists u. split; [exact HU|].
      eapply Qle_trans; [exact HB|]. apply half_le. apply Qlt_le_weak, (is_ulp34_pos _ _ HU).
  - (* non-terminating: sticky digit, then one rounding *)
    set (q := num / c2) in *. set (r := num mod c2) in *.
    assert (Hq36 : 10 ^ 36 <= q).
    { apply Z.div_le_lower_bound; lia. }
    assert (Hq : 0 < q) by (assert (0 < 10 ^ 36) by reflexivity; lia).
    pose proof (digits_spec q Hq) as [Lq Uq]. set (dq := digits q) in *.
    assert (Hdq : 37 <= dq).
    { assert (36 < dq); [|lia]. apply pow10_lt_inv; [|lia].
      destruct (Z_lt_le_dec dq 0); [|lia]. rewrite Z.pow_neg_r in Uq by lia. lia. }
    set (c' := q * 10 + 1).
    assert (Hc' : 0 < c') by (unfold c'; lia).
    assert (Dc' : digits c' = dq + 1).
    { apply digits_unique; [exact Hc'|]. replace (dq + 1 - 1) with dq by lia.
      rewrite Z.pow_add_r by lia. change (10 ^ 1) with 10.
      replace dq with (Z.succ (dq - 1)) at 1 by lia. rewrite Z.pow_succ_r by lia.
      unfold c'. lia. }
    (* rho = num / c2 lies strictly between q and q+1 *)
    set (rho := (inject_Z num / inject_Z c2)%Q).
    assert (R1 : (inject_Z q < rho)%Q).
    { unfold rho. apply Qlt_shift_div_l; [exact P2|].
      rewrite <- inject_Z_mult, <- Zlt_Qlt. lia. }
    assert (R2 : (rho < inject_Z (q + 1))%Q).
    { unfold rho. apply Qlt_shift_div_r; [exact P2|].
      rewrite <- inject_Z_mult, <- Zlt_Qlt. lia. }
    assert (EVr : (V == sig x * (rho * inject_Z 10 ^ E))%Q).
    { rewrite QD, sgn_Q. unfold rho. field. exact N2. }
    assert (Rpos : (0 < rho)%Q).
    { eapply Qlt_trans; [|exact R1]. change 0%Q with (inject_Z 0). rewrite <- Zlt_Qlt. exact Hq. }
    assert (AV : (Qabs V == rho * inject_Z 10 ^ E)%Q).
    { rewrite EVr, Qabs_sig. apply Qabs_pos.
      apply Qmult_le_0_compat; apply Qlt_le_weak; [exact Rpos | apply ten_pow_pos]. }
    (* the unit in the last place of V *)
    set (U := (inject_Z 10 ^ (dq + E - 34))%Q).
    assert (HU : is_ulp34 V U).
    { exists (dq - 1 + E). rewrite AV. split; [|split].
      - rewrite Qpower_plus by exact ten_neq0.
        apply Qmult_le_compat_r; [|apply Qlt_le_weak, ten_pow_pos].
        rewrite <- Zpower_Qpower by lia. apply Qlt_le_weak.
        eapply Qle_lt_trans; [|exact R1]. rewrite <- Zle_Qle. exact Lq.
      - replace (dq - 1 + E + 1) with (dq + E) by lia.
        rewrite Qpower_plus by exact ten_neq0.
        apply Qmult_lt_compat_r; [apply ten_pow_pos|].
        rewrite <- Zpower_Qpower by lia.
        eapply Qlt_le_trans; [exact R2|]. rewrite <- Zle_Qle. lia.
      - unfold U. replace (dq - 1 + E - 33) with (dq + E - 34) by lia. reflexivity. }
    (* normality transfers to the sticky coefficient *)
    assert (HNd : emin <= digits c' + (E - 1) - prec34).
    { assert (HL : (Qabs V < inject_Z 10 ^ (dq + E))%Q).
      { destruct HU as (p & _ & _ & _). rewrite AV.
        rewrite Qpower_plus by exact ten_neq0.
        apply Qmult_lt_compat_r; [apply ten_pow_pos|].
        rewrite <- Zpower_Qpower by lia.
        eapply Qlt_le_trans; [exact R2|]. rewrite <- Zle_Qle. lia. }
      assert (emin + 33 < dq + E).
      { apply (Qpower_lt_compat_l_inv (inject_Z 10)); [|reflexivity].
        eapply Qle_lt_trans; [exact HN | exact HL]. }
      rewrite Dc'. unfold prec34. lia. }
    destruct (fit_close x c' (E - 1) Hc' HNd) as [HI|(c'' & e'' & EF & HC & HB)].
    + left. eexists; exact HI.
    + right. rewrite EF. split; [exact HC|]. exists U. split; [exact HU|].
      simpl Qv. cbv iota.
      replace (digits c' + (E - 1) - prec34) with (dq + E - 34) in HB by (rewrite Dc'; unfold prec34; lia).
      fold U in HB.
      (* distance between the sticky value and the exact quotient *)
      assert (HW : (Qabs (qval x c' (E - 1) - V) <= (1 # 2) * U)%Q).
      { assert (EW : (qval x c' (E - 1) - V ==
                      sig x * ((inject_Z c' / inject_Z 10 - rho) * inject_Z 10 ^ E))%Q).
        { rewrite EVr. unfold qval. rewrite sgn_Q.
          replace (E - 1) with (E + - (1)) by lia.
          rewrite Qpower_plus by exact ten_neq0. change (inject_Z 10 ^ (- (1)))%Q with (/ inject_Z 10)%Q.
          field. }
        rewrite EW, Qabs_sig, Qabs_Qmult.
        rewrite (Qabs_pos (inject_Z 10 ^ E)) by (apply Qlt_le_weak, ten_pow_pos).
        apply Qle_trans with (1 * inject_Z 10 ^ E)%Q.
        - apply Qmult_le_compat_r; [|apply Qlt_le_weak, ten_pow_pos].
          apply Qabs_Qle_condition. split.
          + (* -1 <= c'/10 - rho  since rho < q+1 <= c'/10 + 1 *)
            apply Qle_trans with (inject_Z q - inject_Z (q + 1))%Q.
            * rewrite inject_Z_plus. simpl. ring_simplify. apply Qle_refl.
            * apply Qplus_le_compat.
              -- apply Qle_shift_div_l; [reflexivity|].
                 rewrite <- inject_Z_mult, <- Zle_Qle. unfold c'. lia.
              -- apply Qopp_le_compat. apply Qlt_le_weak. exact R2.
          + apply Qle_trans with (inject_Z (q + 1) - inject_Z q)%Q.
            * apply Qplus_le_compat.
              -- apply Qle_shift_div_r; [reflexivity|].
                 rewrite <- inject_Z_mult, <- Zle_Qle. unfold c'. lia.
              -- apply Qopp_le_compat. apply Qlt_le_weak. exact R1.
            * rewrite inject_Z_plus. simpl. ring_simplify. apply Qle_refl.
        - (* 10^E <= U/2 because the quotient carries at least 37 digits *)
          unfold U. replace (dq + E - 34) with ((dq - 34) + E) by lia.
          rewrite Qpower_plus by exact ten_neq0. rewrite Qmult_assoc.
          apply Qmult_le_compat_r; [|apply Qlt_le_weak, ten_pow_pos].
          rewrite <- Zpower_Qpower by lia.
          assert (10 ^ 3 <= 10 ^ (dq - 34)) by (apply Z.pow_le_mono_r; lia).
          apply Qle_trans with ((1 # 2) * inject_Z (10 ^ 3))%Q; [discriminate|].
          apply Qmult_le_l; [reflexivity|]. rewrite <- Zle_Qle. exact H. }
      setoid_replace (qval x c'' e'' - V)%Q
        with ((qval x c'' e'' - qval x c' (E - 1)) + (qval x c' (E - 1) - V))%Q by ring.
      eapply Qle_trans; [apply Qabs_triangle|].
      setoid_replace U with ((1 # 2) * U + (1 # 2) * U)%Q at 1 by (field).
      apply Qplus_le_compat; assumption.
Qed.

(* ------------------------------------------------------------------ *)
(* Overflow threshold: fit overflows exactly above (10^34 - 1/2) 10^emax *)
(* ------------------------------------------------------------------ *)

Lemma fit_inf_iff : forall n c e c1 e1, round_coef c e = (c1, e1) -> 0 < c1 ->
  (fit n c e = DInf n <-> emax < e1 /\ prec34 < digits c1 + (e1 - emax)).
Proof.
  intros n c e c1 e1 ER Hc1. unfold fit. rewrite ER.
  destruct (Z.eqb_spec c1 0) as [|_]; [lia|].
  destruct (Z.gtb_spec e1 emax) as [Hhi|Hhi].
  - destruct (Z.leb_spec (digits c1 + (e1 - emax)) prec34) as [Hp|Hp].
    + split; [discriminate | lia].
    + split; [intros _; split; assumption | intros _; reflexivity].
  - destruct (Z.ltb_spec e1 emin); [destruct (_ >? 40)|]; (split; [discriminate | lia]).
Qed.

Lemma digits_ge_of_le : forall c p, 0 <= p -> 10 ^ p <= c -> p < digits c.
Proof.
  intros c p Hp H. assert (Hc : 0 < c) by (pose proof (pow10_pos p Hp); lia).
  pose proof (digits_spec c Hc) as [_ U]. pose proof (digits_pos c Hc).
  apply pow10_lt_inv; lia.
Qed.

Lemma pow10_split : forall a b, 0 <= a -> 0 <= b -> 10 ^ (a + b) = 10 ^ a * 10 ^ b.
Proof. intros. apply Z.pow_add_r; assumption. Qed.

Definition T34 : Z := 2 * 10 ^ 34 - 1.

(* Z-level statement, both values scaled to the common exponent M *)
Lemma fit_overflow_Z : forall n c e, 0 < c ->
  let M := Z.min e emax in
  (fit n c e = DInf n -> T34 * 10 ^ (emax - M) <= 2 * c * 10 ^ (e - M)) /\
  (T34 * 10 ^ (emax - M) < 2 * c * 10 ^ (e - M) -> fit n c e = DInf n).
Proof.
  intros n c e Hc M.
  destruct (round_coef c e) as [c1 e1] eqn:ER.
  destruct (round_coef_err c e c1 e1 Hc ER) as (j & Hj & He1 & Hc1 & Hd1 & Herr & Hsmall & Hbig).
  rewrite (fit_inf_iff n c e c1 e1 ER Hc1).
  pose proof (digits_spec c Hc) as [L U]. pose proof (digits_pos c Hc) as Dp.
  set (d := digits c) in *. unfold prec34, T34 in *.
  set (X := c * 10 ^ (e - M)). set (Y := 10 ^ (emax - M)).
  assert (PY : 0 < Y) by (apply pow10_pos; unfold M; lia).
  assert (PX : 0 < 10 ^ (e - M)) by (apply pow10_pos; unfold M; lia).
  assert (P34 : 10 ^ 34 = 10000000000000000000000000000000000) by reflexivity.
  replace (2 * c * 10 ^ (e - M)) with (2 * X) by (unfold X; ring).
  destruct (Z_le_gt_dec d 34) as [Hd|Hd].
  - (* no coefficient rounding *)
    destruct (Hsmall Hd) as [-> ->]. rewrite Z.add_0_r in *. subst e1.
    assert (Hlt : c < 10 ^ 34).
    { apply Z.lt_le_trans with (10 ^ d); [exact U|]. apply Z.pow_le_mono_r; lia. }
    destruct (Z_le_gt_dec e emax) as [Hee|Hee].
    + (* e <= emax: never overflows, never above the threshold *)
      assert (EM : M = e) by (unfold M; lia).
      assert (EX : X = c) by (unfold X; rewrite EM, Z.sub_diag; ring).
      split; [lia|]. intros H. exfalso. rewrite EX in H.
      assert (1 <= Y) by lia. nia.
    + assert (EM : M = emax) by (unfold M; lia).
      assert (EY : Y = 1) by (unfold Y; rewrite EM, Z.sub_diag; reflexivity).
      rewrite EY, Z.mul_1_r. unfold X. rewrite EM.
      assert (Pk : 0 < 10 ^ (e - emax)) by (apply pow10_pos; lia).
      pose proof (digits_mul_pow c (e - emax) Hc ltac:(lia)) as DM. fold d in DM.
      split.
      * intros [_ H]. assert (34 < digits (c * 10 ^ (e - emax))) by lia.
        assert (~ c * 10 ^ (e - emax) < 10 ^ 34).
        { intro. assert (digits (c * 10 ^ (e - emax)) <= 34) by (apply digits_le_of_lt; lia). lia. }
        lia.
      * intros H. split; [lia|].
        assert (10 ^ 34 <= c * 10 ^ (e - emax)) by lia.
        apply digits_ge_of_le in H0; lia.
  - (* the coefficient is rounded to 34 digits first *)
    destruct (Hbig ltac:(lia)) as (Hkj & RL & RU). clear Hsmall Hbig.
    set (k := d - 34) in *. assert (Hk : 0 < k) by (unfold k; lia).
    assert (Pk : 0 < 10 ^ k) by (apply pow10_pos; lia).
    assert (Pj : 0 < 10 ^ j) by (apply pow10_pos; lia).
    set (R := c1 * 10 ^ j) in *.
    assert (DR : digits R = digits c1 + j) by (apply digits_mul_pow; lia).
    assert (Ld : 10 ^ 33 * 10 ^ k <= c).
    { rewrite <- Z.pow_add_r by lia. replace (33 + k) with (d - 1) by (unfold k; lia). exact L. }
    assert (Ud : c < 10 ^ 34 * 10 ^ k).
    { rewrite <- Z.pow_add_r by lia. replace (34 + k) with d by (unfold k; lia). exact U. }
    (* R is a multiple of 10^k *)
    assert (RM : R = (c1 * 10 ^ (j - k)) * 10 ^ k).
    { unfold R. rewrite <- Z.mul_assoc, <- Z.pow_add_r by lia. do 2 f_equal. lia. }
    set (m := c1 * 10 ^ (j - k)) in *.
    assert (Pjk : 0 < 10 ^ (j - k)) by (apply pow10_pos; lia).
    assert (Hm : 10 ^ 33 <= m <= 10 ^ 34) by (rewrite RM in RL, RU; nia).
    subst e1.
    destruct (Z_lt_le_dec emax (k + e)) as [Hke|Hke].
    + (* far above *)
      assert (HX : 10 ^ 34 * Y <= X).
      { destruct (Z_le_gt_dec e emax) as [Hee|Hee].
        - assert (EM : M = e) by (unfold M; lia). unfold X, Y. rewrite EM, Z.sub_diag, Z.mul_1_r.
          apply Z.le_trans with (10 ^ 33 * 10 ^ k); [|exact Ld].
          change (10 ^ 34) with (10 ^ 33 * 10 ^ 1). rewrite <- Z.mul_assoc, <- Z.pow_add_r by lia.
          apply Z.mul_le_mono_nonneg_l; [lia|]. apply Z.pow_le_mono_r; lia.
        - assert (EM : M = emax) by (unfold M; lia). unfold X, Y. rewrite EM, Z.sub_diag, Z.mul_1_r.
          assert (1 <= 10 ^ (e - emax)) by (assert (0 < 10 ^ (e - emax)) by (apply pow10_pos; lia); lia).
          assert (10 ^ 34 <= 10 ^ 33 * 10 ^ k).
          { change (10 ^ 34) with (10 ^ 33 * 10 ^ 1). apply Z.mul_le_mono_nonneg_l; [lia|].
            apply Z.pow_le_mono_r; lia. }
          nia. }
      split; [intros _; nia|]. intros _. split; [lia|].
      assert (33 + k < digits R).
      { apply digits_ge_of_le; [lia|]. rewrite Z.pow_add_r by lia. exact RL. }
      lia.
    + destruct (Z.eq_dec (k + e) emax) as [Heq|Hne].
      * (* the boundary decade: M = e, Y = 10^k, X = c *)
        assert (EM : M = e) by (unfold M; lia).
        assert (EX : X = c) by (unfold X; rewrite EM, Z.sub_diag; ring).
        assert (EY : Y = 10 ^ k) by (unfold Y; rewrite EM; f_equal; lia).
        rewrite EX, EY. fold R in Herr. fold k in Herr.
        split.
        -- intros [H1 H2].
           assert (34 + k < digits R) by lia.
           assert (~ R < 10 ^ (34 + k)).
           { intro. assert (digits R <= 34 + k) by (apply digits_le_of_lt; lia). lia. }
           rewrite Z.pow_add_r in H0 by lia. lia.
        -- intros H. assert (HR : R = 10 ^ 34 * 10 ^ k).
           { assert (10 ^ 34 - 1 < m) by (rewrite RM in Herr; nia).
             assert (m = 10 ^ 34) by lia. rewrite RM. f_equal. assumption. }
           assert (34 + k < digits R).
           { apply digits_ge_of_le; [lia|]. rewrite Z.pow_add_r by lia. lia. }
           lia.
      * (* below: no overflow, below the threshold *)
        assert (Hlt : k + e < emax) by lia.
        assert (EM : M = e) by (unfold M; lia).
        assert (EX : X = c) by (unfold X; rewrite EM, Z.sub_diag; ring).
        assert (EY : Y = 10 ^ (emax - e)) by (unfold Y; rewrite EM; reflexivity).
        assert (HY : 10 * 10 ^ k <= Y).
        { rewrite EY. change 10 with (10 ^ 1) at 1. rewrite <- Z.pow_add_r by lia.
          apply Z.pow_le_mono_r; lia. }
        rewrite EX.
        split.
        -- intros [H1 H2]. exfalso.
           assert (digits R <= 35 + k).
           { apply digits_le_of_lt; [lia|].
             replace (35 + k) with (1 + (34 + k)) by lia. rewrite !Z.pow_add_r by lia.
             change (10 ^ 1) with 10. lia. }
           lia.
        -- intros H. exfalso. nia.
Qed.

Lemma qval_le_int : forall M a e b k, M <= e -> M <= k ->
  ((qval false a e <= qval false b k)%Q <-> a * 10 ^ (e - M) <= b * 10 ^ (k - M)).
Proof.
  intros M a e b k He Hk.
  rewrite (qval_scaled M false a e), (qval_scaled M false b k) by lia.
  rewrite Qmult_le_r by apply ten_pow_pos. rewrite <- Zle_Qle. unfold scaled, sgn. reflexivity.
Qed.

Lemma qval_lt_int : forall M a e b k, M <= e -> M <= k ->
  ((qval false a e < qval false b k)%Q <-> a * 10 ^ (e - M) < b * 10 ^ (k - M)).
Proof.
  intros M a e b k He Hk.
  rewrite (qval_scaled M false a e), (qval_scaled M false b k) by lia.
  rewrite Qmult_lt_r by apply ten_pow_pos. rewrite <- Zlt_Qlt. unfold scaled, sgn. reflexivity.
Qed.

(* the largest finite decimal128 and the overflow threshold, half an ulp above it *)
Definition max_finite : Q := qval false (10 ^ 34 - 1) emax.
Definition overflow_threshold : Q := ((1 # 2) * qval false T34 emax)%Q.

Lemma qval_double : forall c e, (qval false (2 * c) e == inject_Z 2 * qval false c e)%Q.
Proof. intros. unfold qval, sgn. rewrite inject_Z_mult. ring. Qed.

Lemma half_le_iff : forall t v : Q, ((1 # 2) * t <= v <-> t <= inject_Z 2 * v)%Q.
Proof.
  intros t v. split; intros H.
  - setoid_replace t with (inject_Z 2 * ((1 # 2) * t))%Q by field.
    apply Qmult_le_l; [reflexivity | exact H].
  - setoid_replace v with ((1 # 2) * (inject_Z 2 * v))%Q by field.
    apply Qmult_le_l; [reflexivity | exact H].
Qed.

Lemma half_lt_iff : forall t v : Q, ((1 # 2) * t < v <-> t < inject_Z 2 * v)%Q.
Proof.
  intros t v. split; intros H.
  - setoid_replace t with (inject_Z 2 * ((1 # 2) * t))%Q by field.
    apply Qmult_lt_l; [reflexivity | exact H].
  - setoid_replace v with ((1 # 2) * (inject_Z 2 * v))%Q by field.
    apply Qmult_lt_l; [reflexivity | exact H].
Qed.

Lemma threshold_le_iff : forall c e,
  ((overflow_threshold <= qval false c e)%Q <->
   T34 * 10 ^ (emax - Z.min e emax) <= 2 * c * 10 ^ (e - Z.min e emax)).
Proof.
  intros c e. rewrite <- (qval_le_int (Z.min e emax) T34 emax (2 * c) e) by lia.
  rewrite qval_double. unfold overflow_threshold. apply half_le_iff.
Qed.

Lemma threshold_lt_iff : forall c e,
  ((overflow_threshold < qval false c e)%Q <->
   T34 * 10 ^ (emax - Z.min e emax) < 2 * c * 10 ^ (e - Z.min e emax)).
Proof.
  intros c e. rewrite <- (qval_lt_int (Z.min e emax) T34 emax (2 * c) e) by lia.
  rewrite qval_double. unfold overflow_threshold. apply half_lt_iff.
Qed.

(* fit overflows only at or above the threshold, and always strictly above it *)
Theorem fit_overflow_only_above : forall n c e, 0 <= c ->
  fit n c e = DInf n -> (overflow_threshold <= Qabs (qval n c e))%Q.
Proof.
  intros n c e Hc H. rewrite qval_false_abs by assumption.
  destruct (Z.eq_dec c 0) as [->|Hn].
  - exfalso. unfold fit in H. rewrite round_coef_id in H by (rewrite ?digits_nonpos; unfold prec34; lia).
    simpl in H. discriminate.
  - apply threshold_le_iff. apply (proj1 (fit_overflow_Z n c e ltac:(lia))). exact H.
Qed.

Theorem fit_overflow_above : forall n c e, 0 <= c ->
  (overflow_threshold < Qabs (qval n c e))%Q -> fit n c e = DInf n.
Proof.
  intros n c e Hc H. rewrite qval_false_abs in H by assumption.
  destruct (Z.eq_dec c 0) as [->|Hn].
  - exfalso. rewrite qval_zero in H. revert H. apply Qle_not_lt.
    unfold overflow_threshold, qval. apply Qmult_le_0_compat; [discriminate|].
    apply Qmult_le_0_compat; [discriminate | apply Qlt_le_weak, ten_pow_pos].
  - apply (proj2 (fit_overflow_Z n c e ltac:(lia))). apply threshold_lt_iff. exact H.
Qed.

Corollary fit_no_overflow : forall n c e, 0 <= c ->
  (Qabs (qval n c e) < overflow_threshold)%Q -> canonical (fit n c e).
Proof.
  intros n c e Hc H. destruct (fit_cases n c e Hc) as [HC|HI]; [exact HC|].
  exfalso. apply (Qlt_not_le _ _ H). apply fit_overflow_only_above; assumption.
Qed.

Lemma fit_overflow_above' : forall n c e r, 0 <= c -> (qval n c e == r)%Q ->
  (overflow_threshold < Qabs r)%Q -> fit n c e = DInf n.
Proof. intros n c e r Hc E H. apply fit_overflow_above; [assumption|]. rewrite E. exact H. Qed.

Lemma fit_no_overflow' : forall n c e r, 0 <= c -> (qval n c e == r)%Q ->
  (Qabs r < overflow_threshold)%Q -> canonical (fit n c e).
Proof. intros n c e r Hc E H. apply fit_no_overflow; [assumption|]. rewrite E. exact H. Qed.

Lemma threshold_pos : (0 < overflow_threshold)%Q.
Proof.
  unfold overflow_threshold, qval.
  apply Qmult_lt_0_compat; [reflexivity|]. apply Qmult_lt_0_compat; [reflexivity | apply ten_pow_pos].
Qed.

(* * + - : overflow is reported, and only overflow *)
Theorem mul_overflow : forall a b, finite a -> finite b ->
  (overflow_threshold < Qabs (Qv a * Qv b))%Q -> exists s, dec_mul a b = DInf s.
Proof.
  intros [n1 c1 e1| |] [n2 c2 e2| |] Ha Hb H; simpl in Ha, Hb; try contradiction.
  eexists. unfold dec_mul.
  apply (fit_overflow_above' _ _ _ _ (Z.mul_nonneg_nonneg _ _ Ha Hb) (qval_mul n1 c1 e1 n2 c2 e2) H).
Qed.

Theorem mul_no_overflow : forall a b, finite a -> finite b ->
  (Qabs (Qv a * Qv b) < overflow_threshold)%Q -> canonical (dec_mul a b).
Proof.
  intros [n1 c1 e1| |] [n2 c2 e2| |] Ha Hb H; simpl in Ha, Hb; try contradiction.
  unfold dec_mul.
  apply (fit_no_overflow' _ _ _ _ (Z.mul_nonneg_nonneg _ _ Ha Hb) (qval_mul n1 c1 e1 n2 c2 e2) H).
Qed.

Theorem add_overflow : forall a b, finite a -> finite b ->
  (overflow_threshold < Qabs (Qv a + Qv b))%Q -> exists s, dec_add a b = DInf s.
Proof.
  intros [n1 c1 e1| |] [n2 c2 e2| |] Ha Hb H; simpl in Ha, Hb; try contradiction.
  change (Qv (DFin n1 c1 e1)) with (qval n1 c1 e1) in *.
  change (Qv (DFin n2 c2 e2)) with (qval n2 c2 e2) in *.
  pose proof (qval_add n1 c1 e1 n2 c2 e2) as HQ.
  unfold dec_add, align in *. cbv beta iota zeta in *.
  set (e := Z.min e1 e2) in *.
  set (s := sgn n1 (c1 * pow10 (e1 - e)) + sgn n2 (c2 * pow10 (e2 - e))) in *.
  destruct (Z.eqb_spec s 0) as [E0|E0].
  - exfalso. rewrite E0 in HQ. simpl in HQ. rewrite <- HQ, qval_zero in H. simpl in H.
    apply (Qlt_irrefl 0). eapply Qlt_trans; [apply threshold_pos | exact H].
  - eexists. apply (fit_overflow_above' _ _ _ _ (Z.abs_nonneg s) HQ H).
Qed.

Theorem add_no_overflow : forall a b, finite a -> finite b ->
  (Qabs (Qv a + Qv b) < overflow_threshold)%Q -> canonical (dec_add a b).
Proof.
  intros [n1 c1 e1| |] [n2 c2 e2| |] Ha Hb H; simpl in Ha, Hb; try contradiction.
  change (Qv (DFin n1 c1 e1)) with (qval n1 c1 e1) in *.
  change (Qv (DFin n2 c2 e2)) with (qval n2 c2 e2) in *.
  pose proof (qval_add n1 c1 e1 n2 c2 e2) as HQ.
  unfold dec_add, align in *. cbv beta iota zeta in *.
  set (e := Z.min e1 e2) in *.
  set (s := sgn n1 (c1 * pow10 (e1 - e)) + sgn n2 (c2 * pow10 (e2 - e))) in *.
  destruct (Z.eqb_spec s 0) as [E0|E0].
  - unfold canonical. rewrite digits_nonpos by lia. unfold prec34, emin, emax. lia.
  - apply (fit_no_overflow' _ _ _ _ (Z.abs_nonneg s) HQ H).
Qed.

Theorem sub_overflow : forall a b, finite a -> finite b ->
  (overflow_threshold < Qabs (Qv a - Qv b))%Q -> exists s, dec_sub a b = DInf s.
Proof.
  intros a b Ha Hb H. unfold dec_sub. apply add_overflow; [assumption | apply finite_neg; assumption|].
  rewrite Qv_neg. exact H.
Qed.

Theorem sub_no_overflow : forall a b, finite a -> finite b ->
  (Qabs (Qv a - Qv b) < overflow_threshold)%Q -> canonical (dec_sub a b).
Proof.
  intros a b Ha Hb H. unfold dec_sub. apply add_no_overflow; [assumption | apply finite_neg; assumption|].
  rewrite Qv_neg. exact H.
Qed.

(* the general overflow statement for the operators: an exact result beyond
   the decimal128 range is an error, never an infinity value *)
Theorem overflow_traps : forall x y a b,
  to_float x = None \/ to_float y = None ->
  to_decimal x = Some a -> to_decimal y = Some b -> finite a -> finite b ->
  ((overflow_threshold < Qabs (Qv a * Qv b))%Q -> multiply x y = Err EInfinity) /\
  ((overflow_threshold < Qabs (Qv a + Qv b))%Q -> add x y = Err EInfinity) /\
  ((overflow_threshold < Qabs (Qv a - Qv b))%Q -> subtract x y = Err EInfinity).
Proof.
  intros x y a b HF Hx Hy Ha Hb. unfold multiply, add, subtract.
  rewrite !no_float_detour by assumption. rewrite Hx, Hy.
  split; [|split]; intros H.
  - destruct (mul_overflow a b Ha Hb H) as [s ->]. reflexivity.
  - destruct (add_overflow a b Ha Hb H) as [s ->]. reflexivity.
  - destruct (sub_overflow a b Ha Hb H) as [s ->]. reflexivity.
Qed.

(* ------------------------------------------------------------------ *)
(* E. integer division (floor) and modulo (truncated remainder)        *)
(* ------------------------------------------------------------------ *)

(* truncation toward zero *)
Definition Qtrunc (x : Q) : Z := if Qlt_le_dec x 0 then Qceiling x else Qfloor x.

Lemma Qtrunc_comp : forall x y, (x == y)%Q -> Qtrunc x = Qtrunc y.
Proof.
  intros x y E. unfold Qtrunc.
  destruct (Qlt_le_dec x 0) as [H1|H1], (Qlt_le_dec y 0) as [H2|H2].
  - apply Qceiling_comp; assumption.
  - exfalso. rewrite E in H1. apply (Qlt_not_le _ _ H1 H2).
  - exfalso. rewrite E in H1. apply (Qlt_not_le _ _ H2 H1).
  - apply Qfloor_comp; assumption.
Qed.

Lemma Qfloor_div : forall z B, 0 < B -> Qfloor (inject_Z z / inject_Z B) = z / B.
Proof.
  intros z B HB. destruct B as [|p|p]; try lia.
  rewrite <- (Qfloor_comp _ _ (Qmake_Qdiv z p)). reflexivity.
Qed.

Lemma Qceiling_div : forall z B, 0 < B -> Qceiling (inject_Z z / inject_Z B) = - ((- z) / B).
Proof.
  intros z B HB. unfold Qceiling.
  assert (E : (- (inject_Z z / inject_Z B) == inject_Z (- z) / inject_Z B)%Q).
  { rewrite inject_Z_opp. field. apply inject_Z_neq0. lia. }
  rewrite (Qfloor_comp _ _ E), Qfloor_div by assumption. reflexivity.
Qed.

Lemma Qtrunc_div : forall x A B, 0 <= A -> 0 < B ->
  Qtrunc (inject_Z (sgn x A) / inject_Z B) = sgn x (A / B).
Proof.
  intros x A B HA HB. unfold Qtrunc.
  assert (PB : (0 < inject_Z B)%Q) by (change 0%Q with (inject_Z 0); rewrite <- Zlt_Qlt; exact HB).
  destruct (Qlt_le_dec (inject_Z (sgn x A) / inject_Z B) 0) as [H|H].
  - rewrite Qceiling_div by assumption.
    destruct x; unfold sgn in *.
    + rewrite Z.opp_involutive. reflexivity.
    + exfalso. apply (Qlt_not_le _ _ H). apply Qle_shift_div_l; [exact PB|].
      rewrite Qmult_0_l. change 0%Q with (inject_Z 0). rewrite <- Zle_Qle. exact HA.
  - rewrite Qfloor_div by assumption.
    destruct x; unfold sgn in *; [|reflexivity].
    assert (A = 0).
    { destruct (Z.eq_dec A 0); [assumption|]. exfalso. apply (Qle_not_lt _ _ H).
      apply Qlt_shift_div_r; [exact PB|]. rewrite Qmult_0_l.
      change 0%Q with (inject_Z 0). rewrite <- Zlt_Qlt. lia. }
    subst A. reflexivity.
Qed.

(* the aligned integer operands of QuoRem *)
Section QuoRem.
  Variables (n1 : bool) (c1 e1 : Z) (n2 : bool) (c2 e2 : Z).
  Hypothesis Ca : canonical (DFin n1 c1 e1).
  Hypothesis Cb : canonical (DFin n2 c2 e2).
  Hypothesis Hc2 : 0 < c2.

  Let e := Z.min e1 e2.
  Let A := c1 * 10 ^ (e1 - e).
  Let B := c2 * 10 ^ (e2 - e).
  Let x := xorb n1 n2.

  Lemma qr_A_nonneg : 0 <= A.
  Proof. destruct Ca as (H & _). unfold A. apply Z.mul_nonneg_nonneg; [lia|]. apply Z.pow_nonneg; lia. Qed.

  Lemma qr_B_pos : 0 < B.
  Proof. unfold B. apply Z.mul_pos_pos; [lia|]. apply pow10_pos. unfold e; lia. Qed.

  Lemma qr_quorem : dec_quorem (DFin n1 c1 e1) (DFin n2 c2 e2) = (fit x (A / B) 0, fit n1 (A mod B) e).
  Proof.
    unfold dec_quorem. destruct (Z.eqb_spec c2 0); [lia|]. reflexivity.
  Qed.

  Lemma qr_rem_short : 0 <= A mod B < 10 ^ 34.
  Proof.
    pose proof qr_A_nonneg as HA. pose proof qr_B_pos as HB.
    pose proof (Z.mod_pos_bound A B HB) as MB. pose proof (Z.mod_le A B HA HB) as ML.
    destruct Ca as (Ha0 & Had & _), Cb as (Hb0 & Hbd & _).
    split; [lia|].
    destruct (Z_le_gt_dec e1 e2) as [H|H].
    - assert (EA : A = c1) by (unfold A, e; rewrite Z.min_l, Z.sub_diag by lia; ring).
      destruct (Z.eq_dec c1 0) as [Z0|]; [rewrite EA, Z0 in *; assert (0 < 10 ^ 34) by reflexivity; lia|].
      pose proof (digits_lt_pow c1 ltac:(lia) Had). lia.
    - assert (EB : B = c2) by (unfold B, e; rewrite Z.min_r, Z.sub_diag by lia; ring).
      pose proof (digits_lt_pow c2 Hc2 Hbd). lia.
  Qed.

  (* the remainder is always exact on canonical operands *)
  Lemma qr_rem_exact : fit n1 (A mod B) e = DFin n1 (A mod B) e.
  Proof.
    pose proof qr_rem_short as H. destruct Ca as (_ & _ & He1), Cb as (_ & _ & He2).
    apply fit_exact; [lia | apply digits_le_of_lt; unfold prec34; lia | unfold e; lia].
  Qed.

  Lemma qr_Qva : (qval n1 c1 e1 == qval n1 A e)%Q.
  Proof. unfold A. rewrite qval_shift by (unfold e; lia). replace (e + (e1 - e)) with e1 by lia. reflexivity. Qed.

  Lemma qr_Qvb : (qval n2 c2 e2 == qval n2 B e)%Q.
  Proof. unfold B. rewrite qval_shift by (unfold e; lia). replace (e + (e2 - e)) with e2 by lia. reflexivity. Qed.

  Lemma qr_ratio : (qval n1 c1 e1 / qval n2 c2 e2 == inject_Z (sgn x A) / inject_Z B)%Q.
  Proof.
    pose proof qr_B_pos as HB.
    rewrite qr_Qva, qr_Qvb. unfold qval.
    transitivity (inject_Z (sgn n1 A) / inject_Z (sgn n2 B))%Q; [|apply sgn_xorb_inj; lia].
    field. repeat split; try apply ten_pow_neq0; apply inject_Z_neq0; destruct n2; unfold sgn; lia.
  Qed.

  Lemma qr_trunc : Qtrunc (qval n1 c1 e1 / qval n2 c2 e2) = sgn x (A / B).
  Proof. rewrite (Qtrunc_comp _ _ qr_ratio). apply Qtrunc_div; [apply qr_A_nonneg | apply qr_B_pos]. Qed.

  Lemma qr_floor : Qfloor (qval n1 c1 e1 / qval n2 c2 e2) = sgn x A / B.
  Proof. rewrite (Qfloor_comp _ _ qr_ratio). apply Qfloor_div. apply qr_B_pos. Qed.

  (* value of the remainder: a - b * trunc (a / b) *)
  Lemma qr_rem_value :
    (qval n1 (A mod B) e ==
     qval n1 c1 e1 - qval n2 c2 e2 * inject_Z (Qtrunc (qval n1 c1 e1 / qval n2 c2 e2)))%Q.
  Proof.
    rewrite qr_trunc. rewrite qr_Qva at 1. rewrite qr_Qvb. unfold qval.
    pose proof qr_B_pos as HB.
    pose proof (Z.div_mod A B ltac:(lia)) as DM.
    assert (EZ : sgn n1 (A mod B) = sgn n1 A - sgn n2 B * sgn x (A / B)).
    { unfold x. destruct n1, n2; unfold sgn; simpl xorb; cbv iota; lia. }
    rewrite EZ. unfold Z.sub. rewrite inject_Z_plus, inject_Z_opp, inject_Z_mult. ring.
  Qed.
End QuoRem.

Lemma canonical_nonzero : forall n c e, canonical (DFin n c e) -> ~ (qval n c e == 0)%Q -> 0 < c.
Proof.
  intros n c e (H & _) Hnz. destruct (Z.eq_dec c 0) as [->|]; [|lia].
  exfalso. apply Hnz. apply qval_zero.
Qed.

(* modulo is the exact remainder of the division truncated toward zero; it is
   never rounded *)
Theorem modulo_exact : forall x y a b,
  to_float x = None \/ to_float y = None ->
  to_decimal x = Some a -> to_decimal y = Some b ->
  canonical a -> canonical b -> ~ (Qv b == 0)%Q ->
  exists d, modulo x y = Ok (vdec d) /\ canonical d /\
            (Qv d == Qv a - Qv b * inject_Z (Qtrunc (Qv a / Qv b)))%Q.
Proof.
  intros x y [n1 c1 e1| |] [n2 c2 e2| |] HF Hx Hy Ca Cb Hnz; simpl in Ca, Cb; try contradiction.
  change (Qv (DFin n1 c1 e1)) with (qval n1 c1 e1) in *.
  change (Qv (DFin n2 c2 e2)) with (qval n2 c2 e2) in *.
  pose proof (canonical_nonzero n2 c2 e2 Cb Hnz) as Hc2.
  rewrite no_float_detour_modulo by assumption. rewrite Hx, Hy.
  rewrite (qr_quorem n1 c1 e1 n2 c2 e2 Hc2). cbn [snd].
  rewrite (qr_rem_exact n1 c1 e1 n2 c2 e2 Ca Cb Hc2).
  pose proof (qr_rem_short n1 c1 e1 n2 c2 e2 Ca Cb Hc2) as RS.
  pose proof (qr_rem_value n1 c1 e1 n2 c2 e2 Ca Cb Hc2) as RV.
  set (r := (c1 * 10 ^ (e1 - Z.min e1 e2)) mod (c2 * 10 ^ (e2 - Z.min e1 e2))) in *.
  exists (DFin n1 r (Z.min e1 e2)). split; [reflexivity|]. split; [|exact RV].
  destruct Ca as (_ & _ & He1), Cb as (_ & _ & He2).
  unfold canonical. split; [lia|]. split; [apply digits_le_of_lt; unfold prec34; lia | lia].
Qed.

(* // is the floor of the exact quotient (also for operands of opposite signs),
   exact whenever that integer has at most 34 digits *)
Theorem integer_divide_floor : forall x y a b,
  to_float x = None \/ to_float y = None ->
  to_decimal x = Some a -> to_decimal y = Some b ->
  canonical a -> canonical b -> ~ (Qv b == 0)%Q ->
  Z.abs (Qfloor (Qv a / Qv b)) < 10 ^ 34 ->
  exists d, integer_divide x y = Ok (vdec d) /\ canonical d /\
            (Qv d == inject_Z (Qfloor (Qv a / Qv b)))%Q.
Proof.
  intros x y [n1 c1 e1| |] [n2 c2 e2| |] HF Hx Hy Ca Cb Hnz HS; simpl in Ca, Cb; try contradiction.
  change (Qv (DFin n1 c1 e1)) with (qval n1 c1 e1) in *.
  change (Qv (DFin n2 c2 e2)) with (qval n2 c2 e2) in *.
  pose proof (canonical_nonzero n2 c2 e2 Cb Hnz) as Hc2.
  rewrite no_float_detour_integer_divide by assumption. rewrite Hx, Hy.
  rewrite (qr_quorem n1 c1 e1 n2 c2 e2 Hc2).
  rewrite (qr_rem_exact n1 c1 e1 n2 c2 e2 Ca Cb Hc2).
  rewrite (qr_floor n1 c1 e1 n2 c2 e2 Cb Hc2) in *.
  pose proof (qr_A_nonneg n1 c1 e1 0 e2 Ca) as HA.
  pose proof (qr_B_pos 0 e1 c2 e2 Hc2) as HB.
  set (A := c1 * 10 ^ (e1 - Z.min e1 e2)) in *.
  set (B := c2 * 10 ^ (e2 - Z.min e1 e2)) in *.
  pose proof (Z.div_mod A B ltac:(lia)) as DM.
  pose proof (Z.mod_pos_bound A B HB) as MB.
  assert (Q0 : 0 <= A / B) by (apply Z.div_pos; lia).
  assert (P34 : 0 < 10 ^ 34) by reflexivity.
  (* the truncated quotient is short, hence stored exactly *)
  assert (HQ : A / B < 10 ^ 34).
  { destruct n1, n2; unfold sgn in HS; simpl xorb in HS; cbv iota in HS; try lia;
      (destruct (Z.eq_dec (A mod B) 0) as [R0|R0];
       [rewrite Z.div_opp_l_z in HS by lia | rewrite Z.div_opp_l_nz in HS by lia]; lia). }
  assert (FE : fit (xorb n1 n2) (A / B) 0 = DFin (xorb n1 n2) (A / B) 0).
  { apply fit_exact; [lia | apply digits_le_of_lt; unfold prec34; lia | unfold emin, emax; lia]. }
  rewrite FE.
  cbn [is_inf is_nan is_zero sign_of].
  destruct (Z.eqb_spec (A mod B) 0) as [R0|R0].
  - (* exact division *)
    cbn [negb andb].
    exists (DFin (xorb n1 n2) (A / B) 0). split; [reflexivity|]. split.
    + unfold canonical. split; [lia|]. split; [apply digits_le_of_lt; unfold prec34; lia | unfold emin, emax; lia].
    + simpl Qv. rewrite qval_e0. apply inject_Z_injective.
      destruct (xorb n1 n2); unfold sgn; [|reflexivity]. rewrite Z.div_opp_l_z by lia. reflexivity.
  - cbn [negb andb].
    destruct (Bool.eqb n1 n2) eqn:EB.
    + (* same signs: truncation is the floor *)
      cbn [negb]. apply eqb_prop in EB. subst n2. rewrite xorb_nilpotent in *.
      exists (DFin false (A / B) 0). split; [reflexivity|]. split.
      * unfold canonical. split; [lia|]. split; [apply digits_le_of_lt; unfold prec34; lia | unfold emin, emax; lia].
      * simpl Qv. rewrite qval_e0. reflexivity.
    + (* opposite signs and a remainder: one less than the truncated quotient *)
      cbn [negb].
      assert (EX : xorb n1 n2 = true) by (destruct n1, n2; simpl in *; congruence).
      rewrite EX in *. unfold sgn in HS. rewrite Z.div_opp_l_nz in HS by lia.
      assert (FS : fits34 (Qv (DFin true (A / B) 0) - Qv (DFin false 1 0))).
      { exists (- (A / B) - 1), 0. split; [lia|]. split; [unfold emin, emax; lia|].
        simpl Qv. rewrite !qval_e0. unfold sgn. simpl (inject_Z 10 ^ 0)%Q.
        unfold Z.sub. rewrite inject_Z_plus. rewrite !inject_Z_opp. ring. }
      destruct (sub_exact (DFin true (A / B) 0) (DFin false 1 0) ltac:(simpl; lia) ltac:(simpl; lia) FS)
        as [C1 C2].
      exists (dec_sub (DFin true (A / B) 0) (DFin false 1 0)). split; [reflexivity|]. split; [exact C1|].
      rewrite C2. simpl Qv. rewrite !qval_e0. unfold sgn. rewrite Z.div_opp_l_nz by lia.
      unfold Z.sub. rewrite inject_Z_plus. rewrite !inject_Z_opp. ring.
Qed.

(* for operands of equal sign, floor and truncation coincide:
   a = b * (a // b) + a % b *)
Lemma Qtrunc_nonneg : forall q, (0 <= q)%Q -> Qtrunc q = Qfloor q.
Proof.
  intros q H. unfold Qtrunc. destruct (Qlt_le_dec q 0) as [L|_]; [|reflexivity].
  exfalso. apply (Qlt_not_le _ _ L H).
Qed.

Theorem idiv_mod_same_sign : forall x y a b,
  to_float x = None \/ to_float y = None ->
  to_decimal x = Some a -> to_decimal y = Some b ->
  canonical a -> canonical b -> ~ (Qv b == 0)%Q ->
  sign_of a = sign_of b ->
  Z.abs (Qfloor (Qv a / Qv b)) < 10 ^ 34 ->
  exists q r, integer_divide x y = Ok (vdec q) /\ modulo x y = Ok (vdec r) /\
              canonical q /\ canonical r /\
              (Qv q == inject_Z (Qfloor (Qv a / Qv b)))%Q /\
              (Qv r == Qv a - Qv b * Qv q)%Q.
Proof.
  intros x y a b HF Hx Hy Ca Cb Hnz HS HB.
  destruct (integer_divide_floor x y a b HF Hx Hy Ca Cb Hnz HB) as (q & Q1 & Q2 & Q3).
  destruct (modulo_exact x y a b HF Hx Hy Ca Cb Hnz) as (r & R1 & R2 & R3).
  exists q, r. repeat split; try assumption.
  rewrite R3, Q3. rewrite Qtrunc_nonneg; [reflexivity|].
  destruct a as [n1 c1 e1| |], b as [n2 c2 e2| |]; simpl in Ca, Cb; try contradiction.
  simpl in HS. subst n2. simpl Qv.
  pose proof (canonical_nonzero n1 c2 e2 Cb Hnz) as Hc2.
  rewrite (qr_ratio n1 c1 e1 n1 c2 e2 Cb Hc2). rewrite xorb_nilpotent. unfold sgn.
  pose proof (qr_A_nonneg n1 c1 e1 0 e2 Ca) as HA.
  pose proof (qr_B_pos 0 e1 c2 e2 Hc2) as HB'.
  apply Qle_shift_div_l.
  - change 0%Q with (inject_Z 0). rewrite <- Zlt_Qlt. exact HB'.
  - rewrite Qmult_0_l. change 0%Q with (inject_Z 0). rewrite <- Zle_Qle. exact HA.
Qed.

(* FINDING: for operands of opposite signs // floors while % truncates, so the
   usual identity a = b * (a // b) + a % b fails: -7 // 2 = -4, -7 % 2 = -1,
   2 * -4 + -1 = -9. *)
Example idiv_mod_mixed_signs_inconsistent :
  integer_divide (jn "-7") (jn "2") = Ok (vdec (DFin true 4 0)) /\
  modulo (jn "-7") (jn "2") = Ok (vdec (DFin true 1 0)) /\
  (do q <- integer_divide (jn "-7") (jn "2"); do r <- modulo (jn "-7") (jn "2");
   do p <- multiply (jn "2") q; add p r) = Ok (vdec (DFin true 9 0)).
Proof. vm_compute. repeat split. Qed.

(* ------------------------------------------------------------------ *)
(* D (continued). Every decimal the library handles is canonical, an   *)
(* infinity or a NaN, and the operators preserve this; hence every Ok  *)
(* result is a canonical finite decimal.                               *)
(* ------------------------------------------------------------------ *)

Definition wf_dec (d : dec) : Prop :=
  match d with DFin _ _ _ => canonical d | _ => True end.

Lemma wf_fit : forall n c e, 0 <= c -> wf_dec (fit n c e).
Proof.
  intros n c e Hc. destruct (fit_cases n c e Hc) as [H| ->]; [|exact I].
  destruct (fit n c e); simpl in *; auto.
Qed.

Lemma wf_canonical : forall d, canonical d -> wf_dec d.
Proof. intros [] H; simpl in *; auto. Qed.

Lemma wf_fin_canonical : forall d, wf_dec d -> fin d -> canonical d.
Proof. intros [] H F; simpl in *; tauto. Qed.

Lemma wf_zero : forall n e, emin <= e <= emax -> wf_dec (DFin n 0 e).
Proof. intros. simpl. rewrite digits_nonpos by lia. unfold prec34. lia. Qed.

Lemma clamp_range : forall e, emin <= Z.max emin (Z.min emax e) <= emax.
Proof. intros. unfold emin, emax. lia. Qed.

Lemma wf_add : forall a b, wf_dec a -> wf_dec b -> wf_dec (dec_add a b).
Proof.
  intros [n1 c1 e1|s1|] [n2 c2 e2|s2|] Ha Hb; try exact I.
  - simpl in Ha, Hb. destruct Ha as (Ha & _), Hb as (Hb & _).
    unfold dec_add, align. cbv beta iota zeta.
    destruct (_ =? 0); [apply wf_zero, clamp_range | apply wf_fit, Z.abs_nonneg].
  - simpl. destruct (Bool.eqb s1 s2); exact I.
Qed.

Lemma wf_neg : forall a, wf_dec a -> wf_dec (dec_neg a).
Proof. intros [] H; simpl in *; auto. Qed.

Lemma wf_sub : forall a b, wf_dec a -> wf_dec b -> wf_dec (dec_sub a b).
Proof. intros. unfold dec_sub. apply wf_add; [assumption | apply wf_neg; assumption]. Qed.

Lemma wf_mul : forall a b, wf_dec a -> wf_dec b -> wf_dec (dec_mul a b).
Proof.
  intros [n1 c1 e1|s1|] [n2 c2 e2|s2|] Ha Hb; try exact I.
  - simpl in Ha, Hb. destruct Ha as (Ha & _), Hb as (Hb & _).
    unfold dec_mul. apply wf_fit. apply Z.mul_nonneg_nonneg; assumption.
  - simpl. destruct (c1 =? 0); exact I.
  - simpl. destruct (c2 =? 0); exact I.
Qed.

Lemma wf_quo : forall a b, wf_dec a -> wf_dec b -> wf_dec (dec_quo a b).
Proof.
  intros [n1 c1 e1|s1|] [n2 c2 e2|s2|] Ha Hb; try exact I.
  - simpl in Ha, Hb. destruct Ha as (Ha & _), Hb as (Hb & _).
    unfold dec_quo.
    destruct (Z.eqb_spec c2 0); [destruct (c1 =? 0); exact I|].
    destruct (Z.eqb_spec c1 0); [apply wf_zero, clamp_range|].
    set (k := Z.max 0 _). unfold pow10.
    assert (0 < 10 ^ k) by (apply pow10_pos; unfold k; lia).
    assert (0 <= c1 * 10 ^ k / c2) by (apply Z.div_pos; nia).
    destruct (_ =? 0); apply wf_fit; lia.
  - apply wf_zero. unfold emin, emax; lia.
Qed.

Lemma wf_quorem : forall a b, wf_dec a -> wf_dec b ->
  wf_dec (fst (dec_quorem a b)) /\ wf_dec (snd (dec_quorem a b)).
Proof.
  intros [n1 c1 e1|s1|] [n2 c2 e2|s2|] Ha Hb; try (split; exact I).
  - pose proof Ha as Ha'. simpl in Ha, Hb. destruct Ha as (Ha & _), Hb as (Hb & _).
    unfold dec_quorem.
    destruct (Z.eqb_spec c2 0); [destruct (c1 =? 0); split; exact I|].
    unfold align, pow10. cbv beta iota zeta. cbn [fst snd].
    set (e := Z.min e1 e2).
    assert (0 < 10 ^ (e1 - e)) by (apply pow10_pos; unfold e; lia).
    assert (0 < 10 ^ (e2 - e)) by (apply pow10_pos; unfold e; lia).
    assert (0 < c2 * 10 ^ (e2 - e)) by nia.
    split; apply wf_fit.
    + apply Z.div_pos; nia.
    + apply Z.mod_pos_bound. assumption.
  - cbn [dec_quorem fst snd]. split; [apply wf_zero; unfold emin, emax; lia | assumption].
Qed.

(* numbers read from text, from Go integers and from Go floats *)
Lemma take_digits_nonneg : forall s acc n a k r,
  0 <= acc -> take_digits s acc n = (a, k, r) -> 0 <= a.
Proof.
  induction s as [|b s IH]; intros acc n a k r Hacc H; simpl in H.
  - inversion H; subst; assumption.
  - destruct (is_digit b) eqn:D.
    + unfold is_digit in D. apply andb_prop in D. destruct D as [D1 _]. apply Z.leb_le in D1.
      eapply IH; [|exact H]. lia.
    + inversion H; subst; assumption.
Qed.

Lemma wf_fit_no_inf : forall n c e d, 0 <= c ->
  match fit n c e with DInf _ => None | d => Some d end = Some d -> wf_dec d.
Proof.
  intros n c e d Hc H. pose proof (wf_fit n c e Hc) as W.
  destruct (fit n c e); inversion H; subst; assumption.
Qed.


Lemma lone_point_wf : forall (neg : bool) (r1 r2 : bytes) (d : dec),
  (match r1, r2 with 46 :: _, [] => Some (DFin neg 0 0) | _, _ => None end) = Some d -> d = DFin neg 0 0.
Proof.
  intros neg r1 r2 d. destruct r1 as [|b r]; [discriminate|].
  destruct (Z.eq_dec b 46) as [->|Hb].
  - destruct r2; [intros H; inversion H; reflexivity | discriminate].
  - destruct b as [|p|p]; try discriminate.
    repeat (destruct p as [p|p|]; try discriminate). exfalso; apply Hb; reflexivity.
Qed.

Lemma parse_dec_body_wf : forall neg s d, parse_dec_body neg s = Some d -> wf_dec d.
Proof.
  intros neg s d. unfold parse_dec_body.
  destruct (_ || _); [intros H; inversion H; exact I|].
  destruct (beqb _ _); [intros H; inversion H; exact I|].
  destruct (take_digits s 0 0) as [[ip ni] r1] eqn:T1.
  assert (Hip : 0 <= ip) by (eapply take_digits_nonneg; [|exact T1]; lia).
  assert (HC : forall c nf nd r2,
    (match r1 with
     | 46 :: r => let '(fp, nfr, r') := take_digits r ip 0 in (fp, nfr, ni + nfr, r')
     | _ => (ip, 0, ni, r1)
     end) = (c, nf, nd, r2) -> 0 <= c).
  { intros c nf nd r2 E. destruct r1 as [|b r]; [inversion E; subst; assumption|].
    destruct (Z.eq_dec b 46) as [->|Hb].
    - destruct (take_digits r ip 0) as [[fp nfr] r'] eqn:T2. inversion E; subst.
      apply (take_digits_nonneg _ _ _ _ _ _ Hip T2).
    - assert (E' : (ip, 0, ni, b :: r) = (c, nf, nd, r2)).
      { rewrite <- E. destruct b as [|p|p]; try reflexivity.
        repeat (destruct p as [p|p|]; try reflexivity). exfalso; apply Hb; reflexivity. }
      inversion E'; subst; assumption. }
  destruct (match r1 with 46 :: r => _ | _ => _ end) as [[[c nf] nd] r2] eqn:EC.
  specialize (HC _ _ _ _ eq_refl).
  destruct (nd =? 0); [intros H; apply lone_point_wf in H; subst d; apply wf_zero; unfold emin, emax; lia|].
  destruct r2 as [|b r].
  - apply wf_fit_no_inf. assumption.
  - destruct (_ || _); [|discriminate].
    destruct (match r with 45 :: t => _ | 43 :: t => _ | _ => _ end) as [eneg r'].
    destruct (take_digits r' 0 0) as [[ev ne] r''].
    destruct (_ || _); [discriminate|].
    destruct (ne >? 8).
    + destruct (c =? 0); [intros H; inversion H; apply wf_zero; unfold emin, emax; lia|].
      destruct eneg; [intros H; inversion H; apply wf_zero; unfold emin, emax; lia | discriminate].
    + apply wf_fit_no_inf. assumption.
Qed.

Lemma parse_dec_wf : forall s d, parse_dec s = Some d -> wf_dec d.
Proof.
  intros s0 d. unfold parse_dec. destruct (strip_us false s0) as [s|]; [|discriminate].
  unfold parse_dec_plain. destruct s as [|b r]; [discriminate|].
  destruct (Z.eq_dec b 43) as [->|H43].
  - destruct r; [discriminate | apply parse_dec_body_wf].
  - destruct (Z.eq_dec b 45) as [->|H45].
    + destruct r; [discriminate | apply parse_dec_body_wf].
    + intros H. apply (parse_dec_body_wf false (b :: r)). rewrite <- H.
      destruct b as [|p|p]; try reflexivity.
      repeat (destruct p as [p|p|]; try reflexivity); exfalso; (apply H43; reflexivity) || (apply H45; reflexivity).
Qed.

Theorem to_decimal_wf : forall v d, to_decimal v = Some d ->
  (forall d', v = VNum (NDec d') -> wf_dec d') -> wf_dec d.
Proof.
  intros v d H HD. destruct v as [| | |[t|d'|s f|k z]| | |]; simpl in H; try discriminate.
  - apply (parse_dec_wf t). assumption.
  - inversion H; subst. apply HD. reflexivity.
  - inversion H; subst. unfold dec_of_flt. destruct f as [m e| | |]; try exact I.
    + destruct (0 <=? e); apply wf_fit; apply Z.mul_nonneg_nonneg; try apply Z.abs_nonneg;
        apply Z.pow_nonneg; lia.
    + apply wf_zero. unfold emin, emax; lia.
  - inversion H; subst. unfold dec_of_Z. apply wf_fit, Z.abs_nonneg.
Qed.

(* in particular every number of a decoded JSON document *)
Corollary json_to_decimal_wf : forall v d, json_value v = true -> to_decimal v = Some d -> wf_dec d.
Proof.
  intros v d J H. apply (to_decimal_wf v d H). intros d' ->. simpl in J. discriminate.
Qed.

(* no canonical decimal exceeds the largest finite decimal128 *)
Lemma canonical_le_max : forall d, canonical d -> (Qabs (Qv d) <= max_finite)%Q.
Proof.
  intros [n c e| |] H; simpl in H; try contradiction. destruct H as (Hc & Hd & He).
  simpl Qv. rewrite qval_false_abs by assumption. unfold max_finite.
  apply (qval_le_int e c e (10 ^ 34 - 1) emax); [lia | lia|].
  rewrite Z.sub_diag, Z.mul_1_r.
  assert (0 < 10 ^ (emax - e)) by (apply pow10_pos; lia).
  assert (c < 10 ^ 34).
  { destruct (Z.eq_dec c 0) as [->|]; [reflexivity|]. apply digits_lt_pow; [lia | assumption]. }
  nia.
Qed.

Lemma max_plus_one_below_threshold : (max_finite + 1 < overflow_threshold)%Q.
Proof.
  unfold max_finite, overflow_threshold, qval, sgn, T34.
  set (P := (inject_Z 10 ^ emax)%Q).
  assert (HP : (inject_Z 10 <= P)%Q).
  { unfold P. change (inject_Z 10) with (inject_Z 10 ^ 1)%Q at 1.
    apply Qpower_le_compat_l; [unfold emax; lia | discriminate]. }
  clearbody P.
  replace (2 * 10 ^ 34 - 1) with (2 * (10 ^ 34 - 1) + 1) by lia.
  rewrite inject_Z_plus, inject_Z_mult.
  set (m := inject_Z (10 ^ 34 - 1)). clearbody m.
  change (inject_Z 2) with 2%Q. change (inject_Z 1) with 1%Q.
  setoid_replace ((1 # 2) * ((2 * m + 1) * P))%Q with (m * P + (1 # 2) * P)%Q by field.
  apply Qplus_lt_r.
  apply Qlt_le_trans with ((1 # 2) * inject_Z 10)%Q; [reflexivity|].
  apply Qmult_le_l; [reflexivity | exact HP].
Qed.

(* subtracting one from a canonical decimal cannot overflow *)
Lemma sub_one_canonical : forall q, canonical q -> canonical (dec_sub q (DFin false 1 0)).
Proof.
  intros q Hq. apply sub_no_overflow; [apply canonical_finite; assumption | simpl; lia|].
  eapply Qle_lt_trans; [|apply max_plus_one_below_threshold].
  setoid_replace (Qv q - Qv (DFin false 1 0))%Q with (Qv q + - (1))%Q
    by (simpl Qv; rewrite qval_e0; unfold sgn; reflexivity).
  eapply Qle_trans; [apply Qabs_triangle|].
  apply Qplus_le_compat; [apply canonical_le_max; assumption | apply Qle_refl].
Qed.

(* RESULTS: an Ok result of any binary arithmetic operator on well-formed
   operands (in particular on JSON numbers), not both floats, is a canonical
   finite decimal -- never an infinity, a NaN or a binary float. *)
Section ResultsCanonical.
  Variables (x y : value) (a b : dec).
  Hypothesis HF : to_float x = None \/ to_float y = None.
  Hypothesis Hx : to_decimal x = Some a.
  Hypothesis Hy : to_decimal y = Some b.
  Hypothesis Wa : wf_dec a.
  Hypothesis Wb : wf_dec b.

  Lemma arith_result_canonical : forall fop dop v,
    (wf_dec (dop a b)) -> arith fop dop x y = Ok v ->
    exists d, v = VNum (NDec d) /\ canonical d.
  Proof.
    intros fop dop v W H. rewrite no_float_detour in H by assumption. rewrite Hx, Hy in H.
    apply trap_ok in H. destruct H as [-> F]. exists (dop a b). split; [reflexivity|].
    apply wf_fin_canonical; assumption.
  Qed.

  Theorem add_result_canonical : forall v, add x y = Ok v -> exists d, v = VNum (NDec d) /\ canonical d.
  Proof. intros v. apply arith_result_canonical. apply wf_add; assumption. Qed.
  Theorem subtract_result_canonical : forall v, subtract x y = Ok v -> exists d, v = VNum (NDec d) /\ canonical d.
  Proof. intros v. apply arith_result_canonical. apply wf_sub; assumption. Qed.
  Theorem multiply_result_canonical : forall v, multiply x y = Ok v -> exists d, v = VNum (NDec d) /\ canonical d.
  Proof. intros v. apply arith_result_canonical. apply wf_mul; assumption. Qed.
  Theorem divide_result_canonical : forall v, divide x y = Ok v -> exists d, v = VNum (NDec d) /\ canonical d.
  Proof. intros v. apply arith_result_canonical. apply wf_quo; assumption. Qed.

  Theorem modulo_result_canonical : forall v, modulo x y = Ok v -> exists d, v = VNum (NDec d) /\ canonical d.
  Proof.
    intros v H. rewrite no_float_detour_modulo in H by assumption. rewrite Hx, Hy in H.
    apply trap_ok in H. destruct H as [-> F]. eexists. split; [reflexivity|].
    apply wf_fin_canonical; [apply wf_quorem; assumption | assumption].
  Qed.

  Theorem integer_divide_result_canonical : forall v, integer_divide x y = Ok v ->
    exists d, v = VNum (NDec d) /\ canonical d.
  Proof.
    intros v H. rewrite no_float_detour_integer_divide in H by assumption. rewrite Hx, Hy in H.
    destruct (wf_quorem a b Wa Wb) as [W1 _].
    destruct (dec_quorem a b) as [q rem]. cbn [fst] in W1.
    destruct (is_inf q) eqn:I1; [discriminate|]. destruct (is_nan q) eqn:I2; [discriminate|].
    assert (Cq : canonical q).
    { apply wf_fin_canonical; [assumption|]. apply fin_not_inf_nan. auto. }
    destruct (_ && _); inversion H; eexists; (split; [reflexivity|]);
      [apply sub_one_canonical; assumption | assumption].
  Qed.
End ResultsCanonical.

(* the same, packaged for JSON documents: all six binary operators *)
Theorem results_never_inf_nan : forall op x y v,
  In op [add; subtract; multiply; divide; integer_divide; modulo] ->
  json_value x = true -> json_value y = true ->
  op x y = Ok v -> exists d, v = VNum (NDec d) /\ canonical d.
Proof.
  intros op x y v Hop Jx Jy H.
  assert (HF : to_float x = None \/ to_float y = None) by (left; apply json_value_to_float; assumption).
  assert (HD : exists a b, to_decimal x = Some a /\ to_decimal y = Some b).
  { simpl in Hop.
    destruct Hop as [<-|[<-|[<-|[<-|[<-|[<-|[]]]]]]];
      try (unfold add, subtract, multiply, divide in H; rewrite no_float_detour in H by assumption);
      try (rewrite no_float_detour_integer_divide in H by assumption);
      try (rewrite no_float_detour_modulo in H by assumption);
      destruct (to_decimal x) as [a|], (to_decimal y) as [b|]; try discriminate; eauto. }
  destruct HD as (a & b & Hx & Hy).
  pose proof (json_to_decimal_wf x a Jx Hx) as Wa.
  pose proof (json_to_decimal_wf y b Jy Hy) as Wb.
  simpl in Hop.
  destruct Hop as [<-|[<-|[<-|[<-|[<-|[<-|[]]]]]]].
  - eapply add_result_canonical; eassumption.
  - eapply subtract_result_canonical; eassumption.
  - eapply multiply_result_canonical; eassumption.
  - eapply divide_result_canonical; eassumption.
  - eapply integer_divide_result_canonical; eassumption.
  - eapply modulo_result_canonical; eassumption.
Qed.

(* ------------------------------------------------------------------ *)
(* The operators when the exact result is NOT representable: overflow  *)
(* error, or a result within one unit of the 34th significant digit    *)
(* (half a unit for add, subtract, multiply), provided the exact       *)
(* result is in the normal range |r| >= 1e-6143.                       *)
(* ------------------------------------------------------------------ *)

Section OperatorsClose.
  Variables (x y : value) (a b : dec).
  Hypothesis HF : to_float x = None \/ to_float y = None.
  Hypothesis Hx : to_decimal x = Some a.
  Hypothesis Hy : to_decimal y = Some b.
  Hypothesis Ha : finite a.
  Hypothesis Hb : finite b.

  Lemma arith_close_gen : forall fop dop h (r : Q),
    (exists s, dop a b = DInf s) \/ close_to h (dop a b) r ->
    arith fop dop x y = Err EInfinity \/
    exists d, arith fop dop x y = Ok (vdec d) /\ close_to h d r.
  Proof.
    intros fop dop h r H. rewrite no_float_detour by assumption. rewrite Hx, Hy.
    destruct H as [[s ->]|HC]; [left; reflexivity | right].
    exists (dop a b). split; [|exact HC].
    apply trap_fin. apply finite_fin, canonical_finite. exact (proj1 HC).
  Qed.

  Theorem add_op_close : normal (Qv a + Qv b) ->
    add x y = Err EInfinity \/ exists d, add x y = Ok (vdec d) /\ close_to true d (Qv a + Qv b).
  Proof. intros H. apply arith_close_gen. apply add_close; assumption. Qed.

  Theorem subtract_op_close : normal (Qv a - Qv b) ->
    subtract x y = Err EInfinity \/ exists d, subtract x y = Ok (vdec d) /\ close_to true d (Qv a - Qv b).
  Proof. intros H. apply arith_close_gen. apply sub_close; assumption. Qed.

  Theorem multiply_op_close : normal (Qv a * Qv b) ->
    multiply x y = Err EInfinity \/ exists d, multiply x y = Ok (vdec d) /\ close_to true d (Qv a * Qv b).
  Proof. intros H. apply arith_close_gen. apply mul_close; assumption. Qed.

  Theorem divide_op_close : ~ (Qv b == 0)%Q -> normal (Qv a / Qv b) ->
    divide x y = Err EInfinity \/ exists d, divide x y = Ok (vdec d) /\ close_to false d (Qv a / Qv b).
  Proof. intros H0 H. apply arith_close_gen. apply quo_close; assumption. Qed.
End OperatorsClose.

(* ------------------------------------------------------------------ *)
(* H (third part). sum and avg when the exact result is not            *)
(* representable, and the shape of their results                        *)
(* ------------------------------------------------------------------ *)

Lemma close_to_comp : forall h d r s, (r == s)%Q -> close_to h d r -> close_to h d s.
Proof.
  intros h d r s E (HC & u & HU & HB). split; [exact HC|].
  exists u. split; [exact (is_ulp34_comp _ _ _ E HU)|]. rewrite <- E. exact HB.
Qed.

(* sum when the exact total is not representable: one rounding, so overflow or
   within HALF a unit of the 34th significant digit of the exact total *)
Theorem sum_close : forall l ds,
  Forall2 (fun v d => to_decimal v = Some d) l ds -> Forall fin ds ->
  normal (qsum ds) ->
  sum (VArr l) = Err EInfinity \/
  exists d, sum (VArr l) = Ok (vdec d) /\ close_to true d (qsum ds).
Proof.
  intros l ds HF HD HN.
  destruct (sum_loop_total l ds HF HD) as (n & c & e & E1 & Hc & EV).
  unfold sum. rewrite E1. cbn [bind round_once].
  destruct (fit_close_ulp n c e _ Hc EV HN) as [HI|HC].
  - left. rewrite HI. reflexivity.
  - right. exists (fit n c e). split; [|exact HC].
    apply trap_fin. apply finite_fin, canonical_finite. exact (proj1 HC).
Qed.

(* overflow is decided by the exact total alone *)
Theorem sum_overflow : forall l ds,
  Forall2 (fun v d => to_decimal v = Some d) l ds -> Forall fin ds ->
  (overflow_threshold < Qabs (qsum ds))%Q -> sum (VArr l) = Err EInfinity.
Proof.
  intros l ds HF HD HO.
  destruct (sum_loop_total l ds HF HD) as (n & c & e & E1 & Hc & EV).
  unfold sum. rewrite E1. cbn [bind round_once].
  rewrite (fit_overflow_above' n c e _ Hc EV HO). reflexivity.
Qed.

Theorem sum_no_overflow : forall l ds,
  Forall2 (fun v d => to_decimal v = Some d) l ds -> Forall fin ds ->
  (Qabs (qsum ds) < overflow_threshold)%Q ->
  exists d, sum (VArr l) = Ok (vdec d) /\ canonical d.
Proof.
  intros l ds HF HD HO.
  destruct (sum_loop_total l ds HF HD) as (n & c & e & E1 & Hc & EV).
  pose proof (fit_no_overflow' n c e _ Hc EV HO) as HC.
  exists (fit n c e). split; [|exact HC].
  unfold sum. rewrite E1. cbn [bind round_once].
  apply trap_fin. apply finite_fin, canonical_finite, HC.
Qed.

(* avg: the exact total divided by the length, rounded once by the division:
   overflow or within ONE unit of the 34th significant digit *)
Theorem avg_close : forall l ds, l <> [] ->
  Forall2 (fun v d => to_decimal v = Some d) l ds -> Forall fin ds ->
  normal (qsum ds / inject_Z (Z.of_nat (List.length l))) ->
  avg (VArr l) = Err EInfinity \/
  exists d, avg (VArr l) = Ok (vdec d) /\
            close_to false d (qsum ds / inject_Z (Z.of_nat (List.length l))).
Proof.
  intros l ds Hne HF HD HN.
  destruct (sum_loop_total l ds HF HD) as (s & c & e & E1 & Hc & EV).
  set (n := Z.of_nat (List.length l)) in *.
  assert (Hn : 0 < n) by (unfold n; destruct l; [contradiction | simpl List.length; lia]).
  assert (QN : (Qv (DFin false n 0) == inject_Z n)%Q) by (simpl; apply qval_e0).
  assert (NZ : ~ (Qv (DFin false n 0) == 0)%Q).
  { rewrite QN. apply inject_Z_neq0. lia. }
  assert (EQ : (Qv (DFin s c e) / Qv (DFin false n 0) == qsum ds / inject_Z n)%Q).
  { rewrite QN. simpl Qv. rewrite EV. reflexivity. }
  assert (HN' : normal (Qv (DFin s c e) / Qv (DFin false n 0))).
  { unfold normal. rewrite EQ. exact HN. }
  unfold avg. destruct l as [|v l']; [contradiction|]. rewrite E1. cbn [bind]. fold n.
  destruct (quo_close (DFin s c e) (DFin false n 0) Hc ltac:(simpl; lia) NZ HN') as [[x HI]|HC].
  - left. rewrite HI. reflexivity.
  - right. exists (dec_quo (DFin s c e) (DFin false n 0)).
    split; [|exact (close_to_comp _ _ _ _ EQ HC)].
    apply trap_fin. apply finite_fin, canonical_finite. exact (proj1 HC).
Qed.

(* ---- results of sum and avg are canonical finite decimals ---- *)

Lemma dec_add_not_fin_l : forall x y, ~ fin x -> ~ fin (dec_add x y).
Proof.
  intros [n1 c1 e1|s1|] [n2 c2 e2|s2|] H; simpl in *; try tauto.
  destruct (Bool.eqb s1 s2); simpl; tauto.
Qed.

Lemma dec_add_not_fin_r : forall x y, ~ fin y -> ~ fin (dec_add x y).
Proof.
  intros [n1 c1 e1|s1|] [n2 c2 e2|s2|] H; simpl in *; try tauto.
  destruct (Bool.eqb s1 s2); simpl; tauto.
Qed.

(* once an infinity or a NaN has been met, the special accumulator stays one *)
Lemma sum_loop_special : forall l t sp r, ~ fin sp ->
  sum_loop l t sp false = Ok r -> snd r = false /\ ~ fin (snd (fst r)).
Proof.
  induction l as [|v l IH]; intros t sp r Hsp H; cbn [sum_loop] in H.
  - inversion H; subst. simpl. split; [reflexivity | exact Hsp].
  - destruct (to_decimal v) as [d|]; [|discriminate]. cbn [andb] in H.
    exact (IH _ _ _ (dec_add_not_fin_l sp d Hsp) H).
Qed.

(* inversion of the loop: either every element was finite and the total is the
   exact sum, or the special accumulator is an infinity or a NaN *)
Lemma sum_loop_inv : forall l t sp r, finite t -> sum_loop l t sp true = Ok r ->
  exists ds, Forall2 (fun v d => to_decimal v = Some d) l ds /\
    ((Forall fin ds /\ exists t', r = (t', sp, true) /\ finite t' /\ (Qv t' == Qv t + qsum ds)%Q) \/
     (snd r = false /\ ~ fin (snd (fst r)))).
Proof.
  induction l as [|v l IH]; intros t sp r Ht H; cbn [sum_loop] in H.
  - inversion H; subst. exists []. split; [constructor|]. left. split; [constructor|].
    exists t. split; [reflexivity|]. split; [exact Ht|]. simpl. ring.
  - destruct (to_decimal v) as [d|] eqn:Ev; [|discriminate]. cbn [andb] in H.
    destruct (is_fin d) eqn:Fd.
    + pose proof (is_fin_fin d Fd) as Hd.
      destruct (exact_add_value t d (finite_fin t Ht) Hd) as [HA HV].
      destruct (IH _ _ _ HA H) as (ds & F2 & [(HD & t' & -> & Ht' & E)|HS]).
      * exists (d :: ds). split; [constructor; assumption|]. left.
        split; [constructor; assumption|]. exists t'. split; [reflexivity|]. split; [exact Ht'|].
        rewrite E, HV. simpl. ring.
      * exists (d :: ds). split; [constructor; assumption|]. right. exact HS.
    + assert (Hd : ~ fin d) by (intros F; rewrite (fin_is_fin d F) in Fd; discriminate).
      pose proof (sum_loop_special _ _ _ _ (dec_add_not_fin_r sp d Hd) H) as HS.
      assert (HL : exists ds, Forall2 (fun v d => to_decimal v = Some d) l ds).
      { clear - H. revert H. generalize t (dec_add sp d) false. induction l as [|w l IH]; intros t0 s0 f0 H.
        - exists []. constructor.
        - cbn [sum_loop] in H. destruct (to_decimal w) as [dw|] eqn:Ew; [|discriminate].
          destruct (f0 && is_fin dw); destruct (IH _ _ _ H) as (ds & F2);
            exists (dw :: ds); constructor; assumption. }
      destruct HL as (ds & F2). exists (d :: ds). split; [constructor; assumption|]. right. exact HS.
Qed.

Lemma finite_zero : finite dec_zero.
Proof. unfold dec_zero. simpl. lia. Qed.

Lemma not_fin_trap : forall d v, ~ fin d -> trap d <> Ok v.
Proof. intros [n c e|n|] v H; simpl in H; [tauto | discriminate | discriminate]. Qed.

Lemma wf_quo_finite : forall a b, finite a -> finite b -> wf_dec (dec_quo a b).
Proof.
  intros [n1 c1 e1|s1|] [n2 c2 e2|s2|] Ha Hb; simpl in Ha, Hb; try contradiction.
  unfold dec_quo.
  destruct (Z.eqb_spec c2 0); [destruct (c1 =? 0); exact I|].
  destruct (Z.eqb_spec c1 0); [apply wf_zero, clamp_range|].
  set (k := Z.max 0 _). unfold pow10.
  assert (0 < 10 ^ k) by (apply pow10_pos; unfold k; lia).
  assert (0 <= c1 * 10 ^ k / c2) by (apply Z.div_pos; nia).
  destruct (_ =? 0); apply wf_fit; lia.
Qed.

(* an Ok result of sum is a canonical finite decimal, and every element was a
   finite number: never an infinity, a NaN or a binary float *)
Theorem sum_result_finite : forall l v, sum (VArr l) = Ok v ->
  exists ds d, Forall2 (fun v d => to_decimal v = Some d) l ds /\ Forall fin ds /\
               v = vdec d /\ canonical d.
Proof.
  intros l v H. unfold sum in H.
  destruct (sum_loop l dec_zero dec_zero true) as [r| | | |] eqn:E; cbn [bind] in H; try discriminate.
  destruct (sum_loop_inv _ _ _ _ finite_zero E) as (ds & F2 & [(HD & t' & -> & Ht' & _)|[S1 S2]]).
  - destruct t' as [n c e| |]; simpl in Ht'; try contradiction. cbn [round_once] in H.
    apply trap_ok in H. destruct H as [-> F].
    exists ds, (fit n c e). repeat split; try assumption.
    apply wf_fin_canonical; [apply wf_fit; exact Ht' | exact F].
  - destruct r as [[t' sp'] f']. simpl in S1, S2. subst f'.
    exfalso. exact (not_fin_trap _ _ S2 H).
Qed.

Theorem avg_result_finite : forall l v, avg (VArr l) = Ok v ->
  (l = [] /\ v = VNull) \/
  exists ds d, Forall2 (fun v d => to_decimal v = Some d) l ds /\ Forall fin ds /\
               v = vdec d /\ canonical d.
Proof.
  intros l v H. unfold avg in H. destruct l as [|w l']; [left; inversion H; auto | right].
  set (l := w :: l') in *.
  destruct (sum_loop l dec_zero dec_zero true) as [r| | | |] eqn:E; cbn [bind] in H; try discriminate.
  destruct (sum_loop_inv _ _ _ _ finite_zero E) as (ds & F2 & [(HD & t' & -> & Ht' & _)|[S1 S2]]).
  - apply trap_ok in H. destruct H as [-> F].
    eexists ds, _. repeat split; try eassumption.
    apply wf_fin_canonical; [|exact F].
    apply wf_quo_finite; [exact Ht' | simpl; lia].
  - destruct r as [[t' sp'] f']. simpl in S1, S2. subst f'.
    exfalso. exact (not_fin_trap _ _ S2 H).
Qed.

(* Go integers convert exactly *)
Lemma to_decimal_int_exact : forall k z, Z.abs z < 10 ^ 34 ->
  to_decimal (VNum (NInt k z)) = Some (DFin (z <? 0) (Z.abs z) 0) /\
  (Qv (DFin (z <? 0) (Z.abs z) 0) == inject_Z z)%Q.
Proof.
  intros k z Hz. split.
  - simpl. unfold dec_of_Z. f_equal.
    apply fit_exact; [lia | apply digits_le_of_lt; unfold prec34; lia | unfold emin, emax; lia].
  - simpl. rewrite qval_e0. unfold sgn. destruct (Z.ltb_spec z 0); apply inject_Z_injective; lia.
Qed.

(* Below the normal range the one-ulp bound does not hold (gradual underflow,
   as in IEEE 754-2008): 1e-6176 * 0.5 = 5e-6177 exactly, the result is 0. *)
Example underflow_to_zero :
  multiply (jn "1e-6176") (jn "0.5") = Ok (vdec (DFin false 0 (-6176))) /\
  multiply (jn "1e-6176") (jn "0.6") = Ok (vdec (DFin false 1 (-6176))).
Proof. vm_compute. split; reflexivity. Qed.

(* 1/3 is not representable: 34 threes, within one ulp *)
Example one_third :
  divide (jn "1") (jn "3") = Ok (vdec (DFin false 3333333333333333333333333333333333 (-34))) /\
  divide (jn "2") (jn "3") = Ok (vdec (DFin false 6666666666666666666666666666666667 (-34))) /\
  divide (jn "1") (jn "8") = Ok (vdec (DFin false 1250000000000000000000000000000000 (-34))) /\
  equal (vdec (DFin false 1250000000000000000000000000000000 (-34))) (jn "0.125") = true.
Proof. vm_compute. repeat split. Qed.

Print Assumptions no_float_detour.
Print Assumptions fit_value_exact.
Print Assumptions add_exact.
Print Assumptions mul_exact.
Print Assumptions quo_exact.
Print Assumptions quo_close.
Print Assumptions fit_overflow_only_above.
Print Assumptions overflow_traps.
Print Assumptions divide_by_zero_traps.
Print Assumptions results_never_inf_nan.
Print Assumptions integer_divide_floor.
Print Assumptions modulo_exact.
Print Assumptions idiv_mod_same_sign.
Print Assumptions floor_value.
Print Assumptions less_by_value.
Print Assumptions sum_rounds_once.
Print Assumptions sum_exact.
Print Assumptions sum_close.
Print Assumptions avg_exact.
Print Assumptions avg_close.
Print Assumptions sum_result_finite.
Print Assumptions avg_result_finite.
Print Assumptions divide_op_close.
