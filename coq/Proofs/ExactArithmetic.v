(* Property C05: arithmetic on JSON numbers is exact decimal arithmetic, never
   binary floating point.

   A. no float detour: the binary-float path of every arithmetic entry point is
      taken only when BOTH operands are Go floats;
   B. + - * on finite decimals are exact whenever the exact result fits in 34
      significant digits (value-level statement, bridging DecTheory);
   C. division is exact when the exact quotient fits;
   D. division by zero and overflow are reported as errors, results are never
      an infinity or a NaN;
   E. (see the end of the file for what is covered)
   F. unary minus, abs, floor, ceil, to_number;
   G. comparisons are comparisons of the rational values;
   H. sum is NOT exact in general (one rounding per element): a refuting
      example, and exactness when every partial sum fits.

   Values are rationals (QArith), as in DecTheory: Qv (DFin n c e) = qval n c e. *)
From Coq Require Import List ZArith Bool Lia QArith Qpower Qabs Qround String.
From JM Require Import Base.Outcome Base.Bytes Num.Dec Num.Flt Json.Value
  Model.Array Model.Compare Model.NumberFns Model.Functions Proofs.DecTheory.
Import ListNotations.
Open Scope Z_scope.

(* ------------------------------------------------------------------ *)
(* Vocabulary                                                          *)
(* ------------------------------------------------------------------ *)

(* syntactically finite: neither an infinity nor a NaN *)
Definition fin (d : dec) : Prop :=
  match d with DFin _ _ _ => True | _ => False end.

(* finite and well formed (the coefficient is a magnitude) *)
Definition finite (d : dec) : Prop :=
  match d with DFin _ c _ => 0 <= c | _ => False end.

(* canonical: what every operation of the package produces *)
Definition canonical (d : dec) : Prop :=
  match d with
  | DFin _ c e => 0 <= c /\ digits c <= prec34 /\ emin <= e <= emax
  | _ => False
  end.

(* the rational value of a finite decimal (0 on the others) *)
Definition Qv (d : dec) : Q :=
  match d with DFin n c e => qval n c e | _ => 0%Q end.

(* r is representable: r = m * 10^k, |m| < 10^34, emin <= k <= emax *)
Definition fits34 (r : Q) : Prop :=
  exists m k : Z, Z.abs m < 10 ^ 34 /\ emin <= k <= emax /\
                  (r == inject_Z m * inject_Z 10 ^ k)%Q.

Lemma finite_fin : forall d, finite d -> fin d.
Proof. intros [] H; simpl in *; auto. Qed.

Lemma canonical_finite : forall d, canonical d -> finite d.
Proof. intros [] H; simpl in *; tauto. Qed.

Lemma fits34_comp : forall r s, (r == s)%Q -> fits34 r -> fits34 s.
Proof.
  intros r s E (m & k & Hm & Hk & H). exists m, k. repeat split; try assumption; try lia.
  rewrite <- E. exact H.
Qed.

Lemma fin_not_inf_nan : forall d, fin d <-> is_inf d = false /\ is_nan d = false.
Proof. intros []; simpl; split; intros; try tauto; try (destruct H; discriminate). Qed.

(* ------------------------------------------------------------------ *)
(* A. no float detour                                                  *)
(* ------------------------------------------------------------------ *)

Lemma to_float_json : forall t, to_float (VNum (NJson t)) = None.
Proof. reflexivity. Qed.
Lemma to_float_dec : forall d, to_float (VNum (NDec d)) = None.
Proof. reflexivity. Qed.
Lemma to_float_int : forall k z, to_float (VNum (NInt k z)) = None.
Proof. reflexivity. Qed.
(* to_float is Some exactly on Go float32/float64 values *)
Lemma to_float_some : forall v f, to_float v = Some f <-> exists s, v = VNum (NFloat s f).
Proof.
  intros v f. split.
  - destruct v as [| | |[]| | |]; simpl; intros H; try discriminate. inversion H; eauto.
  - intros [s ->]. reflexivity.
Qed.
(* every document decoded from JSON text has only json.Number numbers *)
Lemma json_value_to_float : forall v, json_value v = true -> to_float v = None.
Proof. intros [| | |[]| | |]; simpl; intros; try reflexivity; discriminate. Qed.

Theorem no_float_detour : forall fop dop x y,
  to_float x = None \/ to_float y = None ->
  arith fop dop x y =
  match to_decimal x, to_decimal y with
  | Some a, Some b => trap (dop a b)
  | _, _ => Err EInvalidType
  end.
Proof.
  intros fop dop x y H. unfold arith.
  destruct (to_float x) as [xf|], (to_float y) as [yf|];
    try (destruct H; discriminate);
    destruct (to_decimal x), (to_decimal y); reflexivity.
Qed.

Theorem no_float_detour_integer_divide : forall x y,
  to_float x = None \/ to_float y = None ->
  integer_divide x y =
  match to_decimal x, to_decimal y with
  | Some xd, Some yd =>
    let '(q, rem) := dec_quorem xd yd in
    if is_inf q then Err EInfinity else if is_nan q then Err ENotANumber else
    if negb (is_zero rem) && negb (is_nan rem) && negb (Bool.eqb (sign_of rem) (sign_of yd))
    then Ok (vdec (dec_sub q (DFin false 1 0))) else Ok (vdec q)
  | _, _ => Err EInvalidType
  end.
Proof.
  intros x y H. unfold integer_divide.
  destruct (to_float x) as [xf|], (to_float y) as [yf|];
    try (destruct H; discriminate);
    destruct (to_decimal x), (to_decimal y); reflexivity.
Qed.

Theorem no_float_detour_modulo : forall x y,
  to_float x = None \/ to_float y = None ->
  modulo x y =
  match to_decimal x, to_decimal y with
  | Some a, Some b => trap (snd (dec_quorem a b))
  | _, _ => Err EInvalidType
  end.
Proof.
  intros x y H. unfold modulo.
  destruct (to_float x) as [xf|], (to_float y) as [yf|];
    try (destruct H; discriminate);
    destruct (to_decimal x), (to_decimal y); reflexivity.
Qed.

Theorem no_float_detour_num1 : forall fop dop v, to_float v = None ->
  num1 fop dop v =
  match to_decimal v with Some d => Ok (vdec (dop d)) | None => Err EInvalidType end.
Proof. intros fop dop v H. unfold num1. rewrite H. reflexivity. Qed.

Theorem no_float_detour_negate : forall v, to_float v = None ->
  negate v =
  match to_decimal v with
  | None => VNull
  | Some d => if is_zero d then vdec d else vdec (dec_neg d)
  end.
Proof. intros v H. unfold negate. rewrite H. reflexivity. Qed.

(* sum, avg, the comparisons and to_number never look at to_float at all:
   their definitions only use to_decimal (see sum_loop, cmp_op). *)

(* the only way to obtain a float result is to supply two floats *)
Theorem float_result_needs_floats : forall fop dop x y s f,
  arith fop dop x y = Ok (VNum (NFloat s f)) ->
  (exists xf, to_float x = Some xf) /\ (exists yf, to_float y = Some yf).
Proof.
  intros fop dop x y s f H.
  destruct (to_float x) as [xf|] eqn:Ex, (to_float y) as [yf|] eqn:Ey; eauto; exfalso;
  (rewrite no_float_detour in H by (rewrite ?Ex, ?Ey; auto);
   destruct (to_decimal x), (to_decimal y); try discriminate;
   unfold trap in H;
   repeat match type of H with context [if ?b then _ else _] => destruct b end; discriminate).
Qed.

(* ------------------------------------------------------------------ *)
(* G. comparison is comparison of the rational values                  *)
(* ------------------------------------------------------------------ *)

Definition Qltb (a b : Q) : bool := match (a ?= b)%Q with Lt => true | _ => false end.
Definition Qleb (a b : Q) : bool := match (a ?= b)%Q with Gt => false | _ => true end.
Definition Qeqb (a b : Q) : bool := match (a ?= b)%Q with Eq => true | _ => false end.

Lemma Qltb_iff : forall a b, Qltb a b = true <-> (a < b)%Q.
Proof. intros. unfold Qltb. rewrite Qlt_alt. destruct (a ?= b)%Q; split; congruence. Qed.
Lemma Qleb_iff : forall a b, Qleb a b = true <-> (a <= b)%Q.
Proof. intros. unfold Qleb. rewrite Qle_alt. destruct (a ?= b)%Q; split; congruence. Qed.
Lemma Qeqb_iff : forall a b, Qeqb a b = true <-> (a == b)%Q.
Proof. intros. unfold Qeqb. rewrite Qeq_alt. destruct (a ?= b)%Q; split; congruence. Qed.

Lemma dec_cmp_Qv : forall a b, fin a -> fin b ->
  dec_cmp a b = cmpres_of (Qv a ?= Qv b)%Q.
Proof.
  intros [n1 c1 e1| |] [n2 c2 e2| |] Ha Hb; simpl in Ha, Hb; try contradiction.
  apply dec_cmp_dval.
Qed.

Lemma Qcompare_flip : forall a b : Q, (b ?= a)%Q = CompOpp (a ?= b)%Q.
Proof. intros. symmetry. apply Qcompare_antisym. Qed.

Section Comparisons.
  Variables (x y : value) (a b : dec).
  Hypothesis Hx : to_decimal x = Some a.
  Hypothesis Hy : to_decimal y = Some b.
  Hypothesis Ha : fin a.
  Hypothesis Hb : fin b.

  Theorem less_by_value : less x y = VBool (Qltb (Qv a) (Qv b)).
  Proof.
    unfold less, cmp_op. rewrite Hx, Hy. unfold dec_less, Qltb.
    rewrite dec_cmp_Qv by assumption. destruct (Qv a ?= Qv b)%Q; reflexivity.
  Qed.

  Theorem less_or_equal_by_value : less_or_equal x y = VBool (Qleb (Qv a) (Qv b)).
  Proof.
    unfold less_or_equal, cmp_op. rewrite Hx, Hy. unfold dec_le, Qleb.
    rewrite dec_cmp_Qv by assumption. destruct (Qv a ?= Qv b)%Q; reflexivity.
  Qed.

  Theorem greater_by_value : greater x y = VBool (Qltb (Qv b) (Qv a)).
  Proof.
    unfold greater, cmp_op. rewrite Hx, Hy. unfold dec_greater, Qltb.
    rewrite dec_cmp_Qv by assumption. rewrite (Qcompare_flip (Qv a) (Qv b)).
    destruct (Qv a ?= Qv b)%Q; reflexivity.
  Qed.

  Theorem greater_or_equal_by_value : greater_or_equal x y = VBool (Qleb (Qv b) (Qv a)).
  Proof.
    unfold greater_or_equal, cmp_op. rewrite Hx, Hy. unfold dec_ge, Qleb.
    rewrite dec_cmp_Qv by assumption. rewrite (Qcompare_flip (Qv a) (Qv b)).
    destruct (Qv a ?= Qv b)%Q; reflexivity.
  Qed.

  (* == on two numbers *)
  Theorem equal_by_value : forall xn, x = VNum xn -> equal x y = Qeqb (Qv a) (Qv b).
  Proof.
    intros xn ->. cbn [equal]. rewrite Hx, Hy.
    assert (E : dec_equal a b = Qeqb (Qv a) (Qv b)).
    { unfold dec_equal, Qeqb. rewrite dec_cmp_Qv by assumption.
      destruct (Qv a ?= Qv b)%Q; reflexivity. }
    rewrite E.
    destruct xn as [s| | |]; try reflexivity.
    destruct y as [| | |[t| | |]| | |]; try reflexivity.
    destruct (beqb s t) eqn:Eb; [|reflexivity].
    apply beqb_eq in Eb. subst t.
    simpl in Hx, Hy. rewrite Hx in Hy. inversion Hy; subst b.
    assert (R : Qeqb (Qv a) (Qv a) = true) by (apply Qeqb_iff; reflexivity).
    rewrite R. destruct (_ && _); reflexivity.
  Qed.
End Comparisons.

Corollary less_iff : forall x y a b, to_decimal x = Some a -> to_decimal y = Some b ->
  fin a -> fin b -> (less x y = VBool true <-> (Qv a < Qv b)%Q).
Proof.
  intros. rewrite (less_by_value x y a b) by assumption. rewrite <- Qltb_iff.
  split; [intros E; inversion E; reflexivity | intros ->; reflexivity].
Qed.

Corollary less_or_equal_iff : forall x y a b, to_decimal x = Some a -> to_decimal y = Some b ->
  fin a -> fin b -> (less_or_equal x y = VBool true <-> (Qv a <= Qv b)%Q).
Proof.
  intros. rewrite (less_or_equal_by_value x y a b) by assumption. rewrite <- Qleb_iff.
  split; [intros E; inversion E; reflexivity | intros ->; reflexivity].
Qed.

(* ------------------------------------------------------------------ *)
(* H (first part). sum rounds after every element: not exact           *)
(* ------------------------------------------------------------------ *)

Definition jn (s : string) : value := VNum (NJson (bs s)).

(* 9999999999999999999999999999999999 + 0.4 + 0.4 + 0.4 - 9999999999999999999999999999999999:
   the exact sum is 1.2 (two significant digits), the library answers 0 *)
Example sum_refuted :
  sum (VArr [jn "9999999999999999999999999999999999"; jn "0.4"; jn "0.4"; jn "0.4";
             jn "-9999999999999999999999999999999999"]) = Ok (vdec (DFin false 0 0)).
Proof. vm_compute. reflexivity. Qed.

(* the operands, as the library reads them, and their exact rational sum *)
Example sum_refuted_operands :
  map to_decimal [jn "9999999999999999999999999999999999"; jn "0.4"; jn "0.4"; jn "0.4";
                  jn "-9999999999999999999999999999999999"] =
  [Some (DFin false 9999999999999999999999999999999999 0); Some (DFin false 4 (-1));
   Some (DFin false 4 (-1)); Some (DFin false 4 (-1));
   Some (DFin true 9999999999999999999999999999999999 0)].
Proof. vm_compute. reflexivity. Qed.

Example sum_refuted_exact_value :
  (Qv (DFin false 9999999999999999999999999999999999 0) + Qv (DFin false 4 (-1)) +
   Qv (DFin false 4 (-1)) + Qv (DFin false 4 (-1)) +
   Qv (DFin true 9999999999999999999999999999999999 0) == 12 # 10)%Q
  /\ fits34 (12 # 10) /\ ~ (Qv (DFin false 0 0) == 12 # 10)%Q.
Proof.
  split; [|split].
  - vm_compute. reflexivity.
  - exists 12, (-1). split; [|split]; [reflexivity | unfold emin, emax; lia | vm_compute; reflexivity].
  - vm_compute. discriminate.
Qed.

(* the same for avg: exact average 0.24, computed 0 *)
Example avg_refuted :
  avg (VArr [jn "9999999999999999999999999999999999"; jn "0.4"; jn "0.4"; jn "0.4";
             jn "-9999999999999999999999999999999999"]) = Ok (vdec (DFin false 0 0)).
Proof. vm_compute. reflexivity. Qed.

(* contrast: the textbook binary-float failure is exact here *)
Example point_one_plus_point_two :
  add (jn "0.1") (jn "0.2") = Ok (vdec (DFin false 3 (-1))) /\
  sum (VArr [jn "0.1"; jn "0.2"]) = Ok (vdec (DFin false 3 (-1))) /\
  equal (vdec (DFin false 3 (-1))) (jn "0.3") = true.
Proof. vm_compute. auto. Qed.

(* ------------------------------------------------------------------ *)
(* Integer / rational toolbox                                          *)
(* ------------------------------------------------------------------ *)

Lemma pow10_gt0 : forall k, 0 < 10 ^ k \/ k < 0.
Proof. intros. destruct (Z_lt_le_dec k 0); [right; lia | left; apply pow10_pos; lia]. Qed.

Lemma pow10_lt_inv : forall a b, 0 <= b -> 10 ^ a < 10 ^ b -> a < b.
Proof. intros a b Hb H. apply (Z.pow_lt_mono_r_iff 10); lia. Qed.

Lemma pow10_le_inv : forall a b, 0 <= b -> 10 ^ a <= 10 ^ b -> a <= b.
Proof. intros a b Hb H. apply (Z.pow_le_mono_r_iff 10); lia. Qed.

Lemma digits_le_of_lt : forall c p, 0 <= p -> c < 10 ^ p -> digits c <= p.
Proof.
  intros c p Hp H. destruct (Z_le_gt_dec c 0) as [Hc|Hc].
  - rewrite digits_nonpos by assumption. lia.
  - pose proof (digits_spec c ltac:(lia)) as [H1 _].
    assert (digits c - 1 < p) by (apply pow10_lt_inv; lia). lia.
Qed.

Lemma digits_lt_pow : forall c, 0 < c -> digits c <= prec34 -> c < 10 ^ 34.
Proof.
  intros c Hc Hd. pose proof (digits_spec c Hc) as [_ H].
  assert (10 ^ digits c <= 10 ^ 34) by (apply Z.pow_le_mono_r; unfold prec34 in Hd; lia). lia.
Qed.

Lemma qval_shift : forall n c e j, 0 <= j -> (qval n (c * 10 ^ j) e == qval n c (e + j))%Q.
Proof.
  intros n c e j Hj. unfold qval. rewrite sgn_mul, inject_Z_mult, Zpower_Qpower by lia.
  rewrite (Qpower_plus (inject_Z 10) e j) by exact ten_neq0. ring.
Qed.

Lemma qval_zero : forall n e, (qval n 0 e == 0)%Q.
Proof. intros. unfold qval. destruct n; simpl; ring. Qed.

Lemma qval_neg : forall n c e, (qval (negb n) c e == - qval n c e)%Q.
Proof.
  intros. unfold qval. replace (sgn (negb n) c) with (- sgn n c) by (destruct n; unfold sgn; simpl; lia).
  rewrite inject_Z_opp. ring.
Qed.

Lemma qval_false_abs : forall n c e, 0 <= c -> (Qabs (qval n c e) == qval false c e)%Q.
Proof.
  intros n c e Hc. unfold qval. rewrite Qabs_Qmult.
  rewrite (Qabs_pos (inject_Z 10 ^ e)) by (apply Qlt_le_weak, ten_pow_pos).
  assert (E : (Qabs (inject_Z (sgn n c)) == inject_Z (sgn false c))%Q).
  { unfold Qabs, inject_Z, sgn. simpl. destruct n; simpl; rewrite ?Z.abs_opp, Z.abs_eq by lia; reflexivity. }
  rewrite E. reflexivity.
Qed.

(* equality of rational values, read on integers at a common exponent *)
Lemma qval_eq_int : forall M c e m k, M <= e -> M <= k ->
  (qval false c e == qval false m k)%Q -> c * 10 ^ (e - M) = m * 10 ^ (k - M).
Proof.
  intros M c e m k He Hk H.
  rewrite (qval_scaled M false c e), (qval_scaled M false m k) in H by lia.
  apply Qmult_inj_r in H; [|intro Z0; pose proof (ten_pow_pos M) as P; rewrite Z0 in P; discriminate P].
  unfold scaled, sgn in H. unfold Qeq in H. simpl in H. lia.
Qed.

(* a representable magnitude, as an integer fact *)
Lemma fits34_abs : forall n c e, 0 <= c -> fits34 (qval n c e) ->
  exists m k, 0 <= m < 10 ^ 34 /\ emin <= k <= emax /\ (qval false c e == qval false m k)%Q.
Proof.
  intros n c e Hc (m & k & Hm & Hk & H).
  exists (Z.abs m), k. repeat split; try lia.
  rewrite <- (qval_false_abs n c e Hc). rewrite H. rewrite Qabs_Qmult.
  rewrite (Qabs_pos (inject_Z 10 ^ k)) by (apply Qlt_le_weak, ten_pow_pos).
  unfold qval, sgn. apply Qmult_comp; [|reflexivity].
  unfold Qabs, inject_Z. simpl. reflexivity.
Qed.

(* ------------------------------------------------------------------ *)
(* B. value-level exactness of fit                                     *)
(* ------------------------------------------------------------------ *)

Lemma drop_digits_exact : forall q k, 0 < k -> 0 <= q -> drop_digits (q * 10 ^ k) k = q.
Proof.
  intros q k Hk Hq. unfold drop_digits, pow10.
  assert (P : 0 < 10 ^ k) by (apply pow10_pos; lia).
  assert (P1 : 0 < 10 ^ (k - 1)) by (apply pow10_pos; lia).
  rewrite Z.mod_mul, Z.div_mul by lia.
  destruct (Z.gtb_spec 0 (5 * 10 ^ (k - 1))); [lia|].
  destruct (Z.eqb_spec 0 (5 * 10 ^ (k - 1))); [lia|]. reflexivity.
Qed.

(* a coefficient m * 10^j with a short m is rounded without loss, even when it
   has more than 34 digits: only zeros are dropped *)
Lemma round_coef_exact : forall c e m j, 0 < c -> 0 <= j -> 0 < m < 10 ^ 34 -> c = m * 10 ^ j ->
  exists c' j', round_coef c e = (c', e + j') /\ 0 <= j' /\ c = c' * 10 ^ j' /\
                0 < c' /\ digits c' <= prec34.
Proof.
  intros c e m j Hc Hj Hm E. unfold round_coef.
  destruct (Z.leb_spec (digits c) prec34) as [Hd|Hd].
  - exists c, 0. rewrite Z.add_0_r, Z.mul_1_r. repeat split; lia.
  - set (d := digits c) in *. set (k0 := d - prec34). unfold prec34 in *.
    pose proof (digits_spec c Hc) as [L U]. fold d in L, U.
    assert (Pj : 0 < 10 ^ j) by (apply pow10_pos; lia).
    assert (Hk0 : k0 <= j).
    { assert (H : 10 ^ (d - 1) < 10 ^ (34 + j)) by (rewrite Z.pow_add_r by lia; nia).
      apply pow10_lt_inv in H; unfold k0; lia. }
    assert (Hk1 : 0 < k0) by (unfold k0; lia).
    set (q := m * 10 ^ (j - k0)).
    assert (Pq : 0 < 10 ^ (j - k0)) by (apply pow10_pos; lia).
    assert (Pk : 0 < 10 ^ k0) by (apply pow10_pos; lia).
    assert (Ec : c = q * 10 ^ k0).
    { unfold q. rewrite <- Z.mul_assoc, <- Z.pow_add_r by lia.
      replace (j - k0 + k0) with j by lia. exact E. }
    assert (Dq : drop_digits c k0 = q) by (rewrite Ec; apply drop_digits_exact; unfold q; nia).
    rewrite Dq.
    assert (Gq : digits q = 34).
    { apply digits_unique; [unfold q; nia|].
      replace (d - 1) with (33 + k0) in L by (unfold k0; lia).
      replace d with (34 + k0) in U by (unfold k0; lia).
      rewrite Z.pow_add_r in L, U by lia. change (34 - 1) with 33. split; nia. }
    rewrite Gq. change (34 >? 34) with false. cbv iota.
    exists q, k0. repeat split; try lia; unfold q; nia.
Qed.

Lemma digits_mul_pow : forall c k, 0 < c -> 0 <= k -> digits (c * 10 ^ k) = digits c + k.
Proof.
  intros c k Hc Hk. pose proof (digits_spec c Hc) as [L U].
  pose proof (digits_pos c Hc).
  assert (P : 0 < 10 ^ k) by (apply pow10_pos; lia).
  apply digits_unique; [nia|].
  replace (digits c + k - 1) with (digits c - 1 + k) by lia.
  rewrite !Z.pow_add_r by lia. split; nia.
Qed.

(* second stage of fit: a short coefficient whose value is representable *)
Lemma fit_small : forall n c e m k, 0 < c -> digits c <= prec34 ->
  0 <= m < 10 ^ 34 -> emin <= k <= emax -> (qval false c e == qval false m k)%Q ->
  exists c' e', fit n c e = DFin n c' e' /\ 0 <= c' /\ digits c' <= prec34 /\
                emin <= e' <= emax /\ (qval n c' e' == qval n c e)%Q.
Proof.
  intros n c e m k Hc Hd Hm Hk HV. unfold fit. rewrite round_coef_id by lia.
  destruct (Z.eqb_spec c 0) as [|_]; [lia|].
  pose proof (digits_lt_pow c Hc Hd) as Hlt.
  pose proof (digits_spec c Hc) as [L U]. pose proof (digits_pos c Hc) as Dp.
  unfold prec34 in *.
  destruct (Z.gtb_spec e emax) as [Hhi|Hhi].
  - (* pad with zeros down to emax *)
    pose proof (qval_eq_int k c e m k ltac:(lia) ltac:(lia) HV) as EI.
    rewrite Z.sub_diag, Z.mul_1_r in EI.
    set (k' := e - emax) in *. unfold pow10.
    assert (Hk' : 0 < k') by (unfold k'; lia).
    assert (Pk : 0 < 10 ^ k') by (apply pow10_pos; lia).
    assert (Hsplit : c * 10 ^ (e - k) = c * 10 ^ k' * 10 ^ (emax - k)).
    { rewrite <- Z.mul_assoc, <- Z.pow_add_r by (unfold k'; lia). do 2 f_equal. unfold k'. lia. }
    assert (Pr : 0 < 10 ^ (emax - k)) by (apply pow10_pos; lia).
    assert (Hb : c * 10 ^ k' < 10 ^ 34) by nia.
    assert (Hdg : digits c + k' <= 34).
    { rewrite <- digits_mul_pow by lia. apply digits_le_of_lt; lia. }
    destruct (Z.leb_spec (digits c + k') 34); [|lia].
    exists (c * 10 ^ k'), emax. repeat split; try lia.
    + rewrite digits_mul_pow by lia. lia.
    + rewrite qval_shift by lia. replace (emax + k') with e by (unfold k'; lia). reflexivity.
  - destruct (Z.ltb_spec e emin) as [Hlo|Hlo].
    + (* value representable although the exponent is too small: trailing zeros *)
      pose proof (qval_eq_int e c e m k ltac:(lia) ltac:(lia) HV) as EI.
      rewrite Z.sub_diag, Z.mul_1_r in EI.
      set (k' := emin - e) in *.
      assert (Hk' : 0 < k') by (unfold k'; lia).
      assert (Pk : 0 < 10 ^ k') by (apply pow10_pos; lia).
      assert (Pr : 0 < 10 ^ (k - emin)) by (apply pow10_pos; lia).
      set (q := m * 10 ^ (k - emin)).
      assert (Ec : c = q * 10 ^ k').
      { unfold q. rewrite <- Z.mul_assoc, <- Z.pow_add_r by (unfold k'; lia).
        replace (k - emin + k') with (k - e) by (unfold k'; lia). exact EI. }
      assert (Hq : 0 < q) by nia.
      assert (K34 : k' < 34).
      { apply pow10_lt_inv; [lia|]. nia. }
      destruct (Z.gtb_spec k' 40); [lia|].
      assert (Dq : drop_digits c k' = q) by (rewrite Ec; apply drop_digits_exact; lia).
      rewrite Dq. exists q, emin. repeat split; try lia.
      * apply digits_le_of_lt; [lia|nia].
      * rewrite Ec, qval_shift by lia. replace (e + k') with emin by (unfold k'; lia). reflexivity.
    + exists c, e. repeat split; try lia.
Qed.

(* The value-level exactness of fit: whenever the value (-1)^n * c * 10^e is
   representable (at most 34 significant digits and an exponent in range), fit
   returns a canonical decimal of exactly that value -- also when c itself has
   more than 34 digits or e is out of range. *)
Theorem fit_value_exact : forall n c e, 0 <= c -> fits34 (qval n c e) ->
  exists c' e', fit n c e = DFin n c' e' /\ canonical (DFin n c' e') /\
                (qval n c' e' == qval n c e)%Q.
Proof.
  intros n c e Hc HF.
  destruct (Z.eq_dec c 0) as [->|Hn].
  - exists 0, (Z.max emin (Z.min emax e)). split; [|split].
    + reflexivity.
    + simpl. rewrite digits_nonpos by lia. unfold prec34, emin, emax. lia.
    + rewrite !qval_zero. reflexivity.
  - destruct (fits34_abs n c e Hc HF) as (m & k & Hm & Hk & HV).
    assert (Hc' : 0 < c) by lia.
    (* c = m' * 10^j with m' short *)
    assert (HD : exists m' j, 0 <= j /\ 0 < m' < 10 ^ 34 /\ c = m' * 10 ^ j).
    { destruct (Z_le_gt_dec e k) as [Hek|Hek].
      - pose proof (qval_eq_int e c e m k ltac:(lia) ltac:(lia) HV) as EI.
        rewrite Z.sub_diag, Z.mul_1_r in EI.
        assert (0 < 10 ^ (k - e)) by (apply pow10_pos; lia).
        exists m, (k - e). repeat split; try lia; nia.
      - pose proof (qval_eq_int k c e m k ltac:(lia) ltac:(lia) HV) as EI.
        rewrite Z.sub_diag, Z.mul_1_r in EI.
        assert (0 < 10 ^ (e - k)) by (apply pow10_pos; lia).
        exists c, 0. rewrite Z.mul_1_r. repeat split; try lia; nia. }
    destruct HD as (m' & j & Hj & Hm' & Ecm).
    destruct (round_coef_exact c e m' j Hc' Hj Hm' Ecm) as (c1 & j1 & ER & Hj1 & Ec1 & Hc1 & Hd1).
    assert (HV1 : (qval false c1 (e + j1) == qval false m k)%Q).
    { rewrite <- HV. rewrite Ec1. rewrite qval_shift by lia. reflexivity. }
    destruct (fit_small n c1 (e + j1) m k Hc1 Hd1 Hm Hk HV1) as (c' & e' & EF & P1 & P2 & P3 & P4).
    exists c', e'. split; [|split].
    + unfold fit in *. rewrite ER. rewrite round_coef_id in EF by lia. exact EF.
    + simpl. tauto.
    + rewrite P4. rewrite Ec1. rewrite qval_shift by lia. reflexivity.
Qed.

Lemma fit_value_exact' : forall n c e r, 0 <= c -> (qval n c e == r)%Q -> fits34 r ->
  canonical (fit n c e) /\ (Qv (fit n c e) == r)%Q.
Proof.
  intros n c e r Hc E HF.
  destruct (fit_value_exact n c e Hc (fits34_comp _ _ (Qeq_sym _ _ E) HF)) as (c' & e' & EF & HC & HV).
  rewrite EF. split; [exact HC|]. simpl. rewrite HV. exact E.
Qed.

Theorem mul_exact : forall a b, finite a -> finite b -> fits34 (Qv a * Qv b) ->
  canonical (dec_mul a b) /\ (Qv (dec_mul a b) == Qv a * Qv b)%Q.
Proof.
  intros [n1 c1 e1| |] [n2 c2 e2| |] Ha Hb HF; simpl in Ha, Hb; try contradiction.
  simpl. apply fit_value_exact'; [apply Z.mul_nonneg_nonneg; assumption | apply qval_mul | exact HF].
Qed.

Theorem add_exact : forall a b, finite a -> finite b -> fits34 (Qv a + Qv b) ->
  canonical (dec_add a b) /\ (Qv (dec_add a b) == Qv a + Qv b)%Q.
Proof.
  intros [n1 c1 e1| |] [n2 c2 e2| |] Ha Hb HF; simpl in Ha, Hb; try contradiction.
  pose proof (qval_add n1 c1 e1 n2 c2 e2) as HQ.
  unfold dec_add, align in *. cbv beta iota zeta in *. simpl Qv in *.
  set (e := Z.min e1 e2) in *.
  set (s := sgn n1 (c1 * pow10 (e1 - e)) + sgn n2 (c2 * pow10 (e2 - e))) in *.
  destruct (Z.eqb_spec s 0) as [E0|E0].
  - rewrite E0 in HQ. simpl in HQ. split.
    + simpl. rewrite digits_nonpos by lia. unfold prec34, emin, emax. lia.
    + simpl. rewrite qval_zero. rewrite <- HQ. rewrite qval_zero. reflexivity.
  - apply fit_value_exact'; [apply Z.abs_nonneg | exact HQ | exact HF].
Qed.

Lemma Qv_neg : forall d, (Qv (dec_neg d) == - Qv d)%Q.
Proof. intros [n c e| |]; simpl; try reflexivity. apply qval_neg. Qed.

Lemma finite_neg : forall d, finite d -> finite (dec_neg d).
Proof. intros [] H; simpl in *; auto. Qed.

Theorem sub_exact : forall a b, finite a -> finite b -> fits34 (Qv a - Qv b) ->
  canonical (dec_sub a b) /\ (Qv (dec_sub a b) == Qv a - Qv b)%Q.
Proof.
  intros a b Ha Hb HF. unfold dec_sub.
  assert (E : (Qv a + Qv (dec_neg b) == Qv a - Qv b)%Q) by (rewrite Qv_neg; reflexivity).
  destruct (add_exact a (dec_neg b) Ha (finite_neg b Hb) (fits34_comp _ _ (Qeq_sym _ _ E) HF)) as [H1 H2].
  split; [exact H1|]. rewrite H2. exact E.
Qed.
