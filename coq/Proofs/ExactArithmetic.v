(* Property C05: arithmetic on JSON numbers is exact decimal arithmetic, never
   binary floating point.

   A. no float detour: the binary-float path of every arithmetic entry point is
      taken only when BOTH operands are Go floats;
   B. + - * on finite decimals are exact whenever the exact result fits in 34
      significant digits (value-level statement, bridging DecTheory);
   C. division is exact when the exact quotient fits;
   D. division by zero and overflow are reported as errors, results are never
      an infinity or a NaN;
   E. (see the end of the file for what is covered)
   F. unary minus, abs, floor, ceil, to_number;
   G. comparisons are comparisons of the rational values;
   H. sum is NOT exact in general (one rounding per element): a refuting
      example, and exactness when every partial sum fits.

   Values are rationals (QArith), as in DecTheory: Qv (DFin n c e) = qval n c e. *)
From Coq Require Import List ZArith Bool Lia QArith Qpower Qabs Qround Qfield String.
From JM Require Import Base.Outcome Base.Bytes Num.Dec Num.Flt Json.Value
  Model.Array Model.Compare Model.NumberFns Model.Functions Proofs.DecTheory.
Import ListNotations.
Open Scope Z_scope.

(* ------------------------------------------------------------------ *)
(* Vocabulary                                                          *)
(* ------------------------------------------------------------------ *)

(* syntactically finite: neither an infinity nor a NaN *)
Definition fin (d : dec) : Prop :=
  match d with DFin _ _ _ => True | _ => False end.

(* finite and well formed (the coefficient is a magnitude) *)
Definition finite (d : dec) : Prop :=
  match d with DFin _ c _ => 0 <= c | _ => False end.

(* canonical: what every operation of the package produces *)
Definition canonical (d : dec) : Prop :=
  match d with
  | DFin _ c e => 0 <= c /\ digits c <= prec34 /\ emin <= e <= emax
  | _ => False
  end.

(* the rational value of a finite decimal (0 on the others) *)
Definition Qv (d : dec) : Q :=
  match d with DFin n c e => qval n c e | _ => 0%Q end.

(* r is representable: r = m * 10^k, |m| < 10^34, emin <= k <= emax *)
Definition fits34 (r : Q) : Prop :=
  exists m k : Z, Z.abs m < 10 ^ 34 /\ emin <= k <= emax /\
                  (r == inject_Z m * inject_Z 10 ^ k)%Q.

Lemma finite_fin : forall d, finite d -> fin d.
Proof. intros [] H; simpl in *; auto. Qed.

Lemma canonical_finite : forall d, canonical d -> finite d.
Proof. intros [] H; simpl in *; tauto. Qed.

Lemma fits34_comp : forall r s, (r == s)%Q -> fits34 r -> fits34 s.
Proof.
  intros r s E (m & k & Hm & Hk & H). exists m, k. repeat split; try assumption; try lia.
  rewrite <- E. exact H.
Qed.

Lemma fin_not_inf_nan : forall d, fin d <-> is_inf d = false /\ is_nan d = false.
Proof. intros []; simpl; split; intros; try tauto; try (destruct H; discriminate). Qed.

(* ------------------------------------------------------------------ *)
(* A. no float detour                                                  *)
(* ------------------------------------------------------------------ *)

Lemma to_float_json : forall t, to_float (VNum (NJson t)) = None.
Proof. reflexivity. Qed.
Lemma to_float_dec : forall d, to_float (VNum (NDec d)) = None.
Proof. reflexivity. Qed.
Lemma to_float_int : forall k z, to_float (VNum (NInt k z)) = None.
Proof. reflexivity. Qed.
(* to_float is Some exactly on Go float32/float64 values *)
Lemma to_float_some : forall v f, to_float v = Some f <-> exists s, v = VNum (NFloat s f).
Proof.
  intros v f. split.
  - destruct v as [| | |[]| | |]; simpl; intros H; try discriminate. inversion H; eauto.
  - intros [s ->]. reflexivity.
Qed.
(* every document decoded from JSON text has only json.Number numbers *)
Lemma json_value_to_float : forall v, json_value v = true -> to_float v = None.
Proof. intros [| | |[]| | |]; simpl; intros; try reflexivity; discriminate. Qed.

Theorem no_float_detour : forall fop dop x y,
  to_float x = None \/ to_float y = None ->
  arith fop dop x y =
  match to_decimal x, to_decimal y with
  | Some a, Some b => trap (dop a b)
  | _, _ => Err EInvalidType
  end.
Proof.
  intros fop dop x y H. unfold arith.
  destruct (to_float x) as [xf|], (to_float y) as [yf|];
    try (destruct H; discriminate);
    destruct (to_decimal x), (to_decimal y); reflexivity.
Qed.

Theorem no_float_detour_integer_divide : forall x y,
  to_float x = None \/ to_float y = None ->
  integer_divide x y =
  match to_decimal x, to_decimal y with
  | Some xd, Some yd =>
    let '(q, rem) := dec_quorem xd yd in
    if is_inf q then Err EInfinity else if is_nan q then Err ENotANumber else
    if negb (is_zero rem) && negb (is_nan rem) && negb (Bool.eqb (sign_of rem) (sign_of yd))
    then Ok (vdec (dec_sub q (DFin false 1 0))) else Ok (vdec q)
  | _, _ => Err EInvalidType
  end.
Proof.
  intros x y H. unfold integer_divide.
  destruct (to_float x) as [xf|], (to_float y) as [yf|];
    try (destruct H; discriminate);
    destruct (to_decimal x), (to_decimal y); reflexivity.
Qed.

Theorem no_float_detour_modulo : forall x y,
  to_float x = None \/ to_float y = None ->
  modulo x y =
  match to_decimal x, to_decimal y with
  | Some a, Some b => trap (snd (dec_quorem a b))
  | _, _ => Err EInvalidType
  end.
Proof.
  intros x y H. unfold modulo.
  destruct (to_float x) as [xf|], (to_float y) as [yf|];
    try (destruct H; discriminate);
    destruct (to_decimal x), (to_decimal y); reflexivity.
Qed.

Theorem no_float_detour_num1 : forall fop dop v, to_float v = None ->
  num1 fop dop v =
  match to_decimal v with Some d => Ok (vdec (dop d)) | None => Err EInvalidType end.
Proof. intros fop dop v H. unfold num1. rewrite H. reflexivity. Qed.

Theorem no_float_detour_negate : forall v, to_float v = None ->
  negate v =
  match to_decimal v with
  | None => VNull
  | Some d => if is_zero d then vdec d else vdec (dec_neg d)
  end.
Proof. intros v H. unfold negate. rewrite H. reflexivity. Qed.

(* sum, avg, the comparisons and to_number never look at to_float at all:
   their definitions only use to_decimal (see sum_loop, cmp_op). *)

(* the only way to obtain a float result is to supply two floats *)
Theorem float_result_needs_floats : forall fop dop x y s f,
  arith fop dop x y = Ok (VNum (NFloat s f)) ->
  (exists xf, to_float x = Some xf) /\ (exists yf, to_float y = Some yf).
Proof.
  intros fop dop x y s f H.
  destruct (to_float x) as [xf|] eqn:Ex, (to_float y) as [yf|] eqn:Ey; eauto; exfalso;
  (rewrite no_float_detour in H by (rewrite ?Ex, ?Ey; auto);
   destruct (to_decimal x), (to_decimal y); try discriminate;
   unfold trap in H;
   repeat match type of H with context [if ?b then _ else _] => destruct b end; discriminate).
Qed.

(* ------------------------------------------------------------------ *)
(* G. comparison is comparison of the rational values                  *)
(* ------------------------------------------------------------------ *)

Definition Qltb (a b : Q) : bool := match (a ?= b)%Q with Lt => true | _ => false end.
Definition Qleb (a b : Q) : bool := match (a ?= b)%Q with Gt => false | _ => true end.
Definition Qeqb (a b : Q) : bool := match (a ?= b)%Q with Eq => true | _ => false end.

Lemma Qltb_iff : forall a b, Qltb a b = true <-> (a < b)%Q.
Proof. intros. unfold Qltb. rewrite Qlt_alt. destruct (a ?= b)%Q; split; congruence. Qed.
Lemma Qleb_iff : forall a b, Qleb a b = true <-> (a <= b)%Q.
Proof. intros. unfold Qleb. rewrite Qle_alt. destruct (a ?= b)%Q; split; congruence. Qed.
Lemma Qeqb_iff : forall a b, Qeqb a b = true <-> (a == b)%Q.
Proof. intros. unfold Qeqb. rewrite Qeq_alt. destruct (a ?= b)%Q; split; congruence. Qed.

Lemma dec_cmp_Qv : forall a b, fin a -> fin b ->
  dec_cmp a b = cmpres_of (Qv a ?= Qv b)%Q.
Proof.
  intros [n1 c1 e1| |] [n2 c2 e2| |] Ha Hb; simpl in Ha, Hb; try contradiction.
  apply dec_cmp_dval.
Qed.

Lemma Qcompare_flip : forall a b : Q, (b ?= a)%Q = CompOpp (a ?= b)%Q.
Proof. intros. symmetry. apply Qcompare_antisym. Qed.

Section Comparisons.
  Variables (x y : value) (a b : dec).
  Hypothesis Hx : to_decimal x = Some a.
  Hypothesis Hy : to_decimal y = Some b.
  Hypothesis Ha : fin a.
  Hypothesis Hb : fin b.

  Theorem less_by_value : less x y = VBool (Qltb (Qv a) (Qv b)).
  Proof.
    unfold less, cmp_op. rewrite Hx, Hy. unfold dec_less, Qltb.
    rewrite dec_cmp_Qv by assumption. destruct (Qv a ?= Qv b)%Q; reflexivity.
  Qed.

  Theorem less_or_equal_by_value : less_or_equal x y = VBool (Qleb (Qv a) (Qv b)).
  Proof.
    unfold less_or_equal, cmp_op. rewrite Hx, Hy. unfold dec_le, Qleb.
    rewrite dec_cmp_Qv by assumption. destruct (Qv a ?= Qv b)%Q; reflexivity.
  Qed.

  Theorem greater_by_value : greater x y = VBool (Qltb (Qv b) (Qv a)).
  Proof.
    unfold greater, cmp_op. rewrite Hx, Hy. unfold dec_greater, Qltb.
    rewrite dec_cmp_Qv by assumption. rewrite (Qcompare_flip (Qv a) (Qv b)).
    destruct (Qv a ?= Qv b)%Q; reflexivity.
  Qed.

  Theorem greater_or_equal_by_value : greater_or_equal x y = VBool (Qleb (Qv b) (Qv a)).
  Proof.
    unfold greater_or_equal, cmp_op. rewrite Hx, Hy. unfold dec_ge, Qleb.
    rewrite dec_cmp_Qv by assumption. rewrite (Qcompare_flip (Qv a) (Qv b)).
    destruct (Qv a ?= Qv b)%Q; reflexivity.
  Qed.

  (* == on two numbers *)
  Theorem equal_by_value : forall xn, x = VNum xn -> equal x y = Qeqb (Qv a) (Qv b).
  Proof.
    intros xn ->. cbn [equal]. rewrite Hx, Hy.
    assert (E : dec_equal a b = Qeqb (Qv a) (Qv b)).
    { unfold dec_equal, Qeqb. rewrite dec_cmp_Qv by assumption.
      destruct (Qv a ?= Qv b)%Q; reflexivity. }
    rewrite E.
    destruct xn as [s| | |]; try reflexivity.
    destruct y as [| | |[t| | |]| | |]; try reflexivity.
    destruct (beqb s t) eqn:Eb; [|reflexivity].
    apply beqb_eq in Eb. subst t.
    simpl in Hx, Hy. rewrite Hx in Hy. inversion Hy; subst b.
    assert (R : Qeqb (Qv a) (Qv a) = true) by (apply Qeqb_iff; reflexivity).
    rewrite R. destruct (_ && _); reflexivity.
  Qed.
End Comparisons.

Corollary less_iff : forall x y a b, to_decimal x = Some a -> to_decimal y = Some b ->
  fin a -> fin b -> (less x y = VBool true <-> (Qv a < Qv b)%Q).
Proof.
  intros. rewrite (less_by_value x y a b) by assumption. rewrite <- Qltb_iff.
  split; [intros E; inversion E; reflexivity | intros ->; reflexivity].
Qed.

Corollary less_or_equal_iff : forall x y a b, to_decimal x = Some a -> to_decimal y = Some b ->
  fin a -> fin b -> (less_or_equal x y = VBool true <-> (Qv a <= Qv b)%Q).
Proof.
  intros. rewrite (less_or_equal_by_value x y a b) by assumption. rewrite <- Qleb_iff.
  split; [intros E; inversion E; reflexivity | intros ->; reflexivity].
Qed.

(* ------------------------------------------------------------------ *)
(* H (first part). sum rounds after every element: not exact           *)
(* ------------------------------------------------------------------ *)

Definition jn (s : string) : value := VNum (NJson (bs s)).

(* 9999999999999999999999999999999999 + 0.4 + 0.4 + 0.4 - 9999999999999999999999999999999999:
   the exact sum is 1.2 (two significant digits), the library answers 0 *)
Example sum_refuted :
  sum (VArr [jn "9999999999999999999999999999999999"; jn "0.4"; jn "0.4"; jn "0.4";
             jn "-9999999999999999999999999999999999"]) = Ok (vdec (DFin false 0 0)).
Proof. vm_compute. reflexivity. Qed.

(* the operands, as the library reads them, and their exact rational sum *)
Example sum_refuted_operands :
  map to_decimal [jn "9999999999999999999999999999999999"; jn "0.4"; jn "0.4"; jn "0.4";
                  jn "-9999999999999999999999999999999999"] =
  [Some (DFin false 9999999999999999999999999999999999 0); Some (DFin false 4 (-1));
   Some (DFin false 4 (-1)); Some (DFin false 4 (-1));
   Some (DFin true 9999999999999999999999999999999999 0)].
Proof. vm_compute. reflexivity. Qed.

Example sum_refuted_exact_value :
  (Qv (DFin false 9999999999999999999999999999999999 0) + Qv (DFin false 4 (-1)) +
   Qv (DFin false 4 (-1)) + Qv (DFin false 4 (-1)) +
   Qv (DFin true 9999999999999999999999999999999999 0) == 12 # 10)%Q
  /\ fits34 (12 # 10) /\ ~ (Qv (DFin false 0 0) == 12 # 10)%Q.
Proof.
  split; [|split].
  - vm_compute. reflexivity.
  - exists 12, (-1). split; [|split]; [reflexivity | unfold emin, emax; lia | vm_compute; reflexivity].
  - vm_compute. discriminate.
Qed.

(* the same for avg: exact average 0.24, computed 0 *)
Example avg_refuted :
  avg (VArr [jn "9999999999999999999999999999999999"; jn "0.4"; jn "0.4"; jn "0.4";
             jn "-9999999999999999999999999999999999"]) = Ok (vdec (DFin false 0 0)).
Proof. vm_compute. reflexivity. Qed.

(* contrast: the textbook binary-float failure is exact here *)
Example point_one_plus_point_two :
  add (jn "0.1") (jn "0.2") = Ok (vdec (DFin false 3 (-1))) /\
  sum (VArr [jn "0.1"; jn "0.2"]) = Ok (vdec (DFin false 3 (-1))) /\
  equal (vdec (DFin false 3 (-1))) (jn "0.3") = true.
Proof. vm_compute. auto. Qed.

(* ------------------------------------------------------------------ *)
(* Integer / rational toolbox                                          *)
(* ------------------------------------------------------------------ *)

Lemma pow10_gt0 : forall k, 0 < 10 ^ k \/ k < 0.
Proof. intros. destruct (Z_lt_le_dec k 0); [right; lia | left; apply pow10_pos; lia]. Qed.

Lemma pow10_lt_inv : forall a b, 0 <= b -> 10 ^ a < 10 ^ b -> a < b.
Proof. intros a b Hb H. apply (Z.pow_lt_mono_r_iff 10); lia. Qed.

Lemma pow10_le_inv : forall a b, 0 <= b -> 10 ^ a <= 10 ^ b -> a <= b.
Proof. intros a b Hb H. apply (Z.pow_le_mono_r_iff 10); lia. Qed.

Lemma digits_le_of_lt : forall c p, 0 <= p -> c < 10 ^ p -> digits c <= p.
Proof.
  intros c p Hp H. destruct (Z_le_gt_dec c 0) as [Hc|Hc].
  - rewrite digits_nonpos by assumption. lia.
  - pose proof (digits_spec c ltac:(lia)) as [H1 _].
    assert (digits c - 1 < p) by (apply pow10_lt_inv; lia). lia.
Qed.

Lemma digits_lt_pow : forall c, 0 < c -> digits c <= prec34 -> c < 10 ^ 34.
Proof.
  intros c Hc Hd. pose proof (digits_spec c Hc) as [_ H].
  assert (10 ^ digits c <= 10 ^ 34) by (apply Z.pow_le_mono_r; unfold prec34 in Hd; lia). lia.
Qed.

Lemma qval_shift : forall n c e j, 0 <= j -> (qval n (c * 10 ^ j) e == qval n c (e + j))%Q.
Proof.
  intros n c e j Hj. unfold qval. rewrite sgn_mul, inject_Z_mult, Zpower_Qpower by lia.
  rewrite (Qpower_plus (inject_Z 10) e j) by exact ten_neq0. ring.
Qed.

Lemma qval_zero : forall n e, (qval n 0 e == 0)%Q.
Proof. intros. unfold qval. destruct n; simpl; ring. Qed.

Lemma qval_neg : forall n c e, (qval (negb n) c e == - qval n c e)%Q.
Proof.
  intros. unfold qval. replace (sgn (negb n) c) with (- sgn n c) by (destruct n; unfold sgn; simpl; lia).
  rewrite inject_Z_opp. ring.
Qed.

Lemma qval_false_abs : forall n c e, 0 <= c -> (Qabs (qval n c e) == qval false c e)%Q.
Proof.
  intros n c e Hc. unfold qval. rewrite Qabs_Qmult.
  rewrite (Qabs_pos (inject_Z 10 ^ e)) by (apply Qlt_le_weak, ten_pow_pos).
  assert (E : (Qabs (inject_Z (sgn n c)) == inject_Z (sgn false c))%Q).
  { unfold Qabs, inject_Z, sgn. simpl. destruct n; simpl; rewrite ?Z.abs_opp, Z.abs_eq by lia; reflexivity. }
  rewrite E. reflexivity.
Qed.

(* equality of rational values, read on integers at a common exponent *)
Lemma qval_eq_int : forall M c e m k, M <= e -> M <= k ->
  (qval false c e == qval false m k)%Q -> c * 10 ^ (e - M) = m * 10 ^ (k - M).
Proof.
  intros M c e m k He Hk H.
  rewrite (qval_scaled M false c e), (qval_scaled M false m k) in H by lia.
  apply Qmult_inj_r in H; [|intro Z0; pose proof (ten_pow_pos M) as P; rewrite Z0 in P; discriminate P].
  unfold scaled, sgn in H. unfold Qeq in H. simpl in H. lia.
Qed.

(* a representable magnitude, as an integer fact *)
Lemma fits34_abs : forall n c e, 0 <= c -> fits34 (qval n c e) ->
  exists m k, 0 <= m < 10 ^ 34 /\ emin <= k <= emax /\ (qval false c e == qval false m k)%Q.
Proof.
  intros n c e Hc (m & k & Hm & Hk & H).
  exists (Z.abs m), k. repeat split; try lia.
  rewrite <- (qval_false_abs n c e Hc). rewrite H. rewrite Qabs_Qmult.
  rewrite (Qabs_pos (inject_Z 10 ^ k)) by (apply Qlt_le_weak, ten_pow_pos).
  unfold qval, sgn. apply Qmult_comp; [|reflexivity].
  unfold Qabs, inject_Z. simpl. reflexivity.
Qed.

(* ------------------------------------------------------------------ *)
(* B. value-level exactness of fit                                     *)
(* ------------------------------------------------------------------ *)

Lemma drop_digits_exact : forall q k, 0 < k -> 0 <= q -> drop_digits (q * 10 ^ k) k = q.
Proof.
  intros q k Hk Hq. unfold drop_digits, pow10.
  assert (P : 0 < 10 ^ k) by (apply pow10_pos; lia).
  assert (P1 : 0 < 10 ^ (k - 1)) by (apply pow10_pos; lia).
  rewrite Z.mod_mul, Z.div_mul by lia.
  destruct (Z.gtb_spec 0 (5 * 10 ^ (k - 1))); [lia|].
  destruct (Z.eqb_spec 0 (5 * 10 ^ (k - 1))); [lia|]. reflexivity.
Qed.

(* a coefficient m * 10^j with a short m is rounded without loss, even when it
   has more than 34 digits: only zeros are dropped *)
Lemma round_coef_exact : forall c e m j, 0 < c -> 0 <= j -> 0 < m < 10 ^ 34 -> c = m * 10 ^ j ->
  exists c' j', round_coef c e = (c', e + j') /\ 0 <= j' /\ c = c' * 10 ^ j' /\
                0 < c' /\ digits c' <= prec34.
Proof.
  intros c e m j Hc Hj Hm E. unfold round_coef.
  destruct (Z.leb_spec (digits c) prec34) as [Hd|Hd].
  - exists c, 0. rewrite Z.add_0_r, Z.mul_1_r. repeat split; lia.
  - set (d := digits c) in *. set (k0 := d - prec34). unfold prec34 in *.
    pose proof (digits_spec c Hc) as [L U]. fold d in L, U.
    assert (Pj : 0 < 10 ^ j) by (apply pow10_pos; lia).
    assert (Hk0 : k0 <= j).
    { assert (H : 10 ^ (d - 1) < 10 ^ (34 + j)) by (rewrite Z.pow_add_r by lia; nia).
      apply pow10_lt_inv in H; unfold k0; lia. }
    assert (Hk1 : 0 < k0) by (unfold k0; lia).
    set (q := m * 10 ^ (j - k0)).
    assert (Pq : 0 < 10 ^ (j - k0)) by (apply pow10_pos; lia).
    assert (Pk : 0 < 10 ^ k0) by (apply pow10_pos; lia).
    assert (Ec : c = q * 10 ^ k0).
    { unfold q. rewrite <- Z.mul_assoc, <- Z.pow_add_r by lia.
      replace (j - k0 + k0) with j by lia. exact E. }
    assert (Dq : drop_digits c k0 = q) by (rewrite Ec; apply drop_digits_exact; unfold q; nia).
    rewrite Dq.
    assert (Gq : digits q = 34).
    { apply digits_unique; [unfold q; nia|].
      replace (d - 1) with (33 + k0) in L by (unfold k0; lia).
      replace d with (34 + k0) in U by (unfold k0; lia).
      rewrite Z.pow_add_r in L, U by lia. change (34 - 1) with 33. split; nia. }
    rewrite Gq. change (34 >? 34) with false. cbv iota.
    exists q, k0. repeat split; try lia; unfold q; nia.
Qed.

Lemma digits_mul_pow : forall c k, 0 < c -> 0 <= k -> digits (c * 10 ^ k) = digits c + k.
Proof.
  intros c k Hc Hk. pose proof (digits_spec c Hc) as [L U].
  pose proof (digits_pos c Hc).
  assert (P : 0 < 10 ^ k) by (apply pow10_pos; lia).
  apply digits_unique; [nia|].
  replace (digits c + k - 1) with (digits c - 1 + k) by lia.
  rewrite !Z.pow_add_r by lia. split; nia.
Qed.

(* second stage of fit: a short coefficient whose value is representable *)
Lemma fit_small : forall n c e m k, 0 < c -> digits c <= prec34 ->
  0 <= m < 10 ^ 34 -> emin <= k <= emax -> (qval false c e == qval false m k)%Q ->
  exists c' e', fit n c e = DFin n c' e' /\ 0 <= c' /\ digits c' <= prec34 /\
                emin <= e' <= emax /\ (qval n c' e' == qval n c e)%Q.
Proof.
  intros n c e m k Hc Hd Hm Hk HV. unfold fit. rewrite round_coef_id by lia.
  destruct (Z.eqb_spec c 0) as [|_]; [lia|].
  pose proof (digits_lt_pow c Hc Hd) as Hlt.
  pose proof (digits_spec c Hc) as [L U]. pose proof (digits_pos c Hc) as Dp.
  unfold prec34 in *.
  destruct (Z.gtb_spec e emax) as [Hhi|Hhi].
  - (* pad with zeros down to emax *)
    pose proof (qval_eq_int k c e m k ltac:(lia) ltac:(lia) HV) as EI.
    rewrite Z.sub_diag, Z.mul_1_r in EI.
    set (k' := e - emax) in *. unfold pow10.
    assert (Hk' : 0 < k') by (unfold k'; lia).
    assert (Pk : 0 < 10 ^ k') by (apply pow10_pos; lia).
    assert (Hsplit : c * 10 ^ (e - k) = c * 10 ^ k' * 10 ^ (emax - k)).
    { rewrite <- Z.mul_assoc, <- Z.pow_add_r by (unfold k'; lia). do 2 f_equal. unfold k'. lia. }
    assert (Pr : 0 < 10 ^ (emax - k)) by (apply pow10_pos; lia).
    assert (Hb : c * 10 ^ k' < 10 ^ 34) by nia.
    assert (Hdg : digits c + k' <= 34).
    { rewrite <- digits_mul_pow by lia. apply digits_le_of_lt; lia. }
    destruct (Z.leb_spec (digits c + k') 34); [|lia].
    exists (c * 10 ^ k'), emax. repeat split; try lia.
    + rewrite digits_mul_pow by lia. lia.
    + rewrite qval_shift by lia. replace (emax + k') with e by (unfold k'; lia). reflexivity.
  - destruct (Z.ltb_spec e emin) as [Hlo|Hlo].
    + (* value representable although the exponent is too small: trailing zeros *)
      pose proof (qval_eq_int e c e m k ltac:(lia) ltac:(lia) HV) as EI.
      rewrite Z.sub_diag, Z.mul_1_r in EI.
      set (k' := emin - e) in *.
      assert (Hk' : 0 < k') by (unfold k'; lia).
      assert (Pk : 0 < 10 ^ k') by (apply pow10_pos; lia).
      assert (Pr : 0 < 10 ^ (k - emin)) by (apply pow10_pos; lia).
      set (q := m * 10 ^ (k - emin)).
      assert (Ec : c = q * 10 ^ k').
      { unfold q. rewrite <- Z.mul_assoc, <- Z.pow_add_r by (unfold k'; lia).
        replace (k - emin + k') with (k - e) by (unfold k'; lia). exact EI. }
      assert (Hq : 0 < q) by nia.
      assert (K34 : k' < 34).
      { apply pow10_lt_inv; [lia|]. nia. }
      destruct (Z.gtb_spec k' 40); [lia|].
      assert (Dq : drop_digits c k' = q) by (rewrite Ec; apply drop_digits_exact; lia).
      rewrite Dq. exists q, emin. repeat split; try lia.
      * apply digits_le_of_lt; [lia|nia].
      * rewrite Ec, qval_shift by lia. replace (e + k') with emin by (unfold k'; lia). reflexivity.
    + exists c, e. repeat split; try lia.
Qed.

(* The value-level exactness of fit: whenever the value (-1)^n * c * 10^e is
   representable (at most 34 significant digits and an exponent in range), fit
   returns a canonical decimal of exactly that value -- also when c itself has
   more than 34 digits or e is out of range. *)
Theorem fit_value_exact : forall n c e, 0 <= c -> fits34 (qval n c e) ->
  exists c' e', fit n c e = DFin n c' e' /\ canonical (DFin n c' e') /\
                (qval n c' e' == qval n c e)%Q.
Proof.
  intros n c e Hc HF.
  destruct (Z.eq_dec c 0) as [->|Hn].
  - exists 0, (Z.max emin (Z.min emax e)). split; [|split].
    + reflexivity.
    + simpl. rewrite digits_nonpos by lia. unfold prec34, emin, emax. lia.
    + rewrite !qval_zero. reflexivity.
  - destruct (fits34_abs n c e Hc HF) as (m & k & Hm & Hk & HV).
    assert (Hc' : 0 < c) by lia.
    (* c = m' * 10^j with m' short *)
    assert (HD : exists m' j, 0 <= j /\ 0 < m' < 10 ^ 34 /\ c = m' * 10 ^ j).
    { destruct (Z_le_gt_dec e k) as [Hek|Hek].
      - pose proof (qval_eq_int e c e m k ltac:(lia) ltac:(lia) HV) as EI.
        rewrite Z.sub_diag, Z.mul_1_r in EI.
        assert (0 < 10 ^ (k - e)) by (apply pow10_pos; lia).
        exists m, (k - e). repeat split; try lia; nia.
      - pose proof (qval_eq_int k c e m k ltac:(lia) ltac:(lia) HV) as EI.
        rewrite Z.sub_diag, Z.mul_1_r in EI.
        assert (0 < 10 ^ (e - k)) by (apply pow10_pos; lia).
        exists c, 0. rewrite Z.mul_1_r. repeat split; try lia; nia. }
    destruct HD as (m' & j & Hj & Hm' & Ecm).
    destruct (round_coef_exact c e m' j Hc' Hj Hm' Ecm) as (c1 & j1 & ER & Hj1 & Ec1 & Hc1 & Hd1).
    assert (HV1 : (qval false c1 (e + j1) == qval false m k)%Q).
    { rewrite <- HV. rewrite Ec1. rewrite qval_shift by lia. reflexivity. }
    destruct (fit_small n c1 (e + j1) m k Hc1 Hd1 Hm Hk HV1) as (c' & e' & EF & P1 & P2 & P3 & P4).
    exists c', e'. split; [|split].
    + unfold fit in *. rewrite ER. rewrite round_coef_id in EF by lia. exact EF.
    + simpl. tauto.
    + rewrite P4. rewrite Ec1. rewrite qval_shift by lia. reflexivity.
Qed.

Lemma fit_value_exact' : forall n c e r, 0 <= c -> (qval n c e == r)%Q -> fits34 r ->
  canonical (fit n c e) /\ (Qv (fit n c e) == r)%Q.
Proof.
  intros n c e r Hc E HF.
  destruct (fit_value_exact n c e Hc (fits34_comp _ _ (Qeq_sym _ _ E) HF)) as (c' & e' & EF & HC & HV).
  rewrite EF. split; [exact HC|]. simpl. rewrite HV. exact E.
Qed.

Theorem mul_exact : forall a b, finite a -> finite b -> fits34 (Qv a * Qv b) ->
  canonical (dec_mul a b) /\ (Qv (dec_mul a b) == Qv a * Qv b)%Q.
Proof.
  intros [n1 c1 e1| |] [n2 c2 e2| |] Ha Hb HF; simpl in Ha, Hb; try contradiction.
  simpl. apply fit_value_exact'; [apply Z.mul_nonneg_nonneg; assumption | apply qval_mul | exact HF].
Qed.

Theorem add_exact : forall a b, finite a -> finite b -> fits34 (Qv a + Qv b) ->
  canonical (dec_add a b) /\ (Qv (dec_add a b) == Qv a + Qv b)%Q.
Proof.
  intros [n1 c1 e1| |] [n2 c2 e2| |] Ha Hb HF; simpl in Ha, Hb; try contradiction.
  pose proof (qval_add n1 c1 e1 n2 c2 e2) as HQ.
  unfold dec_add, align in *. cbv beta iota zeta in *. simpl Qv in *.
  set (e := Z.min e1 e2) in *.
  set (s := sgn n1 (c1 * pow10 (e1 - e)) + sgn n2 (c2 * pow10 (e2 - e))) in *.
  destruct (Z.eqb_spec s 0) as [E0|E0].
  - rewrite E0 in HQ. simpl in HQ. split.
    + simpl. rewrite digits_nonpos by lia. unfold prec34, emin, emax. lia.
    + simpl. rewrite qval_zero. rewrite <- HQ. rewrite qval_zero. reflexivity.
  - apply fit_value_exact'; [apply Z.abs_nonneg | exact HQ | exact HF].
Qed.

Lemma Qv_neg : forall d, (Qv (dec_neg d) == - Qv d)%Q.
Proof. intros [n c e| |]; simpl; try reflexivity. apply qval_neg. Qed.

Lemma finite_neg : forall d, finite d -> finite (dec_neg d).
Proof. intros [] H; simpl in *; auto. Qed.

Theorem sub_exact : forall a b, finite a -> finite b -> fits34 (Qv a - Qv b) ->
  canonical (dec_sub a b) /\ (Qv (dec_sub a b) == Qv a - Qv b)%Q.
Proof.
  intros a b Ha Hb HF. unfold dec_sub.
  assert (E : (Qv a + Qv (dec_neg b) == Qv a - Qv b)%Q) by (rewrite Qv_neg; reflexivity).
  destruct (add_exact a (dec_neg b) Ha (finite_neg b Hb) (fits34_comp _ _ (Qeq_sym _ _ E) HF)) as [H1 H2].
  split; [exact H1|]. rewrite H2. exact E.
Qed.

(* ------------------------------------------------------------------ *)
(* General behaviour of rounding: fit returns a canonical decimal or   *)
(* an infinity, never a NaN                                            *)
(* ------------------------------------------------------------------ *)

Lemma drop_digits_bounds : forall c k, 0 <= c -> 0 < k ->
  c / 10 ^ k <= drop_digits c k <= c / 10 ^ k + 1 /\
  2 * Z.abs (drop_digits c k * 10 ^ k - c) <= 10 ^ k.
Proof.
  intros c k Hc Hk. unfold drop_digits, pow10.
  assert (P1 : 0 < 10 ^ (k - 1)) by (apply pow10_pos; lia).
  assert (EP : 10 ^ k = 10 * 10 ^ (k - 1)).
  { replace k with (Z.succ (k - 1)) at 1 by lia. apply Z.pow_succ_r. lia. }
  pose proof (Z.div_mod c (10 ^ k) ltac:(lia)) as DM.
  pose proof (Z.mod_pos_bound c (10 ^ k) ltac:(lia)) as MB.
  set (q := c / 10 ^ k) in *. set (r := c mod 10 ^ k) in *.
  destruct (Z.gtb_spec r (5 * 10 ^ (k - 1))).
  - split; [lia|]. nia.
  - destruct (Z.eqb_spec r (5 * 10 ^ (k - 1))).
    + destruct (Z.even q); (split; [lia|nia]).
    + split; [lia|]. nia.
Qed.

Lemma round_coef_wf : forall c e c' e', 0 <= c -> round_coef c e = (c', e') ->
  0 <= c' /\ digits c' <= prec34 /\ (c = 0 <-> c' = 0) /\ e <= e'.
Proof.
  intros c e c' e' Hc. unfold round_coef.
  destruct (Z.leb_spec (digits c) prec34) as [Hd|Hd].
  - intros E; inversion E; subst. repeat split; try lia.
  - unfold prec34 in *. set (d := digits c) in *. set (k := d - 34).
    assert (Hc0 : 0 < c).
    { destruct (Z.eq_dec c 0) as [->|]; [|lia]. unfold d in Hd. rewrite digits_nonpos in Hd; lia. }
    pose proof (digits_spec c Hc0) as [L U]. fold d in L, U.
    assert (Hk : 0 < k) by (unfold k; lia).
    pose proof (drop_digits_bounds c k Hc Hk) as [[B1 B2] _].
    assert (Pk : 0 < 10 ^ k) by (apply pow10_pos; lia).
    assert (QL : 10 ^ 33 <= c / 10 ^ k).
    { apply Z.div_le_lower_bound; [lia|]. rewrite <- Z.pow_add_r by lia.
      replace (k + 33) with (d - 1) by (unfold k; lia). exact L. }
    assert (QU : c / 10 ^ k < 10 ^ 34).
    { apply Z.div_lt_upper_bound; [lia|]. rewrite <- Z.pow_add_r by lia.
      replace (k + 34) with d by (unfold k; lia). exact U. }
    set (q := drop_digits c k) in *. clearbody q.
    destruct (Z.gtb_spec (digits q) 34) as [Hq|Hq]; intros E; inversion E; subst c' e'.
    + assert (H : q = 10 ^ 34).
      { destruct (Z.eq_dec q (10 ^ 34)); [assumption|]. exfalso.
        assert (digits q <= 34).
        { apply digits_le_of_lt; lia. }
        lia. }
      rewrite H. change (10 ^ 34 / 10) with (10 ^ 33).
      repeat split; try lia.
      apply digits_le_of_lt; [lia | reflexivity].
    + repeat split; try lia.
Qed.

Lemma fit_cases : forall n c e, 0 <= c -> canonical (fit n c e) \/ fit n c e = DInf n.
Proof.
  intros n c e Hc. unfold fit.
  destruct (round_coef c e) as [c1 e1] eqn:ER.
  destruct (round_coef_wf c e c1 e1 Hc ER) as (H0 & HD & _ & _).
  unfold prec34 in *.
  destruct (Z.eqb_spec c1 0) as [->|Hn].
  - left. unfold canonical. rewrite digits_nonpos by lia. unfold prec34, emin, emax. lia.
  - destruct (Z.gtb_spec e1 emax) as [Hhi|Hhi].
    + destruct (Z.leb_spec (digits c1 + (e1 - emax)) 34); [left | right; reflexivity].
      unfold canonical. unfold pow10. rewrite digits_mul_pow by lia.
      assert (0 < 10 ^ (e1 - emax)) by (apply pow10_pos; lia).
      unfold prec34, emin, emax in *. repeat split; try lia. 
    + destruct (Z.ltb_spec e1 emin) as [Hlo|Hlo]; left.
      * destruct (Z.gtb_spec (emin - e1) 40).
        -- unfold canonical. rewrite digits_nonpos by lia. unfold prec34, emin, emax. lia.
        -- pose proof (drop_digits_bounds c1 (emin - e1) H0 ltac:(lia)) as [[B1 B2] _].
           assert (P : 0 < 10 ^ (emin - e1)) by (apply pow10_pos; lia).
           assert (c1 < 10 ^ 34) by (apply digits_lt_pow; unfold prec34; lia).
           assert (c1 / 10 ^ (emin - e1) <= c1 / 10 ^ 1).
           { apply Z.div_le_compat_l; [lia|]. split; [reflexivity|].
             apply Z.pow_le_mono_r; lia. }
           assert (c1 / 10 ^ 1 < 10 ^ 33).
           { apply Z.div_lt_upper_bound; [reflexivity|]. change (10 ^ 1 * 10 ^ 33) with (10 ^ 34). lia. }
           assert (0 <= c1 / 10 ^ (emin - e1)) by (apply Z.div_pos; lia).
           unfold canonical. repeat split; try lia.
           ++ apply digits_le_of_lt; [unfold prec34; lia|]. unfold prec34.
              change (10 ^ 34) with (10 * 10 ^ 33). lia.
           ++ unfold emin, emax; lia.
      * unfold canonical. unfold prec34. repeat split; lia.
Qed.

Lemma fit_not_nan : forall n c e, is_nan (fit n c e) = false.
Proof.
  intros. unfold fit. destruct (round_coef c e) as [c1 e1].
  repeat match goal with |- context [if ?b then _ else _] => destruct b end; reflexivity.
Qed.

Lemma fit_sign : forall n c e, sign_of (fit n c e) = n.
Proof.
  intros. unfold fit. destruct (round_coef c e) as [c1 e1].
  repeat match goal with |- context [if ?b then _ else _] => destruct b end; reflexivity.
Qed.

(* ------------------------------------------------------------------ *)
(* D. errors instead of infinities and NaNs                            *)
(* ------------------------------------------------------------------ *)

Lemma trap_ok : forall d v, trap d = Ok v -> v = vdec d /\ fin d.
Proof.
  intros [n c e|n|] v; unfold trap; simpl; intros H; try discriminate.
  inversion H. split; [reflexivity | exact I].
Qed.

Lemma trap_fin : forall d, fin d -> trap d = Ok (vdec d).
Proof. intros [n c e|n|] H; simpl in H; try contradiction. reflexivity. Qed.

Lemma trap_inf : forall n, trap (DInf n) = Err EInfinity.
Proof. reflexivity. Qed.
Lemma trap_nan : trap DNaN = Err ENotANumber.
Proof. reflexivity. Qed.

(* whatever the operands, an Ok result of the decimal path is a finite decimal *)
Theorem arith_result_finite : forall fop dop x y v,
  to_float x = None \/ to_float y = None -> arith fop dop x y = Ok v ->
  exists a b, to_decimal x = Some a /\ to_decimal y = Some b /\
              v = VNum (NDec (dop a b)) /\ fin (dop a b).
Proof.
  intros fop dop x y v HF H. rewrite no_float_detour in H by assumption.
  destruct (to_decimal x) as [a|], (to_decimal y) as [b|]; try discriminate.
  apply trap_ok in H. exists a, b. tauto.
Qed.

Theorem modulo_result_finite : forall x y v,
  to_float x = None \/ to_float y = None -> modulo x y = Ok v ->
  exists d, v = VNum (NDec d) /\ fin d.
Proof.
  intros x y v HF H. rewrite no_float_detour_modulo in H by assumption.
  destruct (to_decimal x) as [a|], (to_decimal y) as [b|]; try discriminate.
  apply trap_ok in H. eexists; exact H.
Qed.

(* division by zero *)
Theorem divide_by_zero_traps : forall x y a b,
  to_float x = None \/ to_float y = None ->
  to_decimal x = Some a -> to_decimal y = Some b -> is_zero b = true ->
  divide x y = Err (if is_inf a || negb (is_zero a || is_nan a) then EInfinity else ENotANumber).
Proof.
  intros x y a b HF Ha Hb Hz. unfold divide. rewrite no_float_detour by assumption.
  rewrite Ha, Hb. destruct b as [n2 c2 e2| |]; simpl in Hz; try discriminate.
  destruct a as [n1 c1 e1|n1|]; simpl; try reflexivity.
  rewrite Hz. destruct (c1 =? 0); reflexivity.
Qed.

Corollary divide_by_zero_error : forall x y a b,
  to_float x = None \/ to_float y = None ->
  to_decimal x = Some a -> to_decimal y = Some b -> is_zero b = true ->
  divide x y = Err EInfinity \/ divide x y = Err ENotANumber.
Proof.
  intros x y a b HF Ha Hb Hz. rewrite (divide_by_zero_traps x y a b) by assumption.
  destruct (_ || _); auto.
Qed.

Theorem integer_divide_by_zero_traps : forall x y a b,
  to_float x = None \/ to_float y = None ->
  to_decimal x = Some a -> to_decimal y = Some b -> is_zero b = true ->
  integer_divide x y = Err (if is_inf a || negb (is_zero a || is_nan a) then EInfinity else ENotANumber).
Proof.
  intros x y a b HF Ha Hb Hz. rewrite no_float_detour_integer_divide by assumption.
  rewrite Ha, Hb. destruct b as [n2 c2 e2| |]; simpl in Hz; try discriminate.
  destruct a as [n1 c1 e1|n1|]; simpl; try reflexivity.
  rewrite Hz. destruct (c1 =? 0); reflexivity.
Qed.

Theorem modulo_by_zero_traps : forall x y a b,
  to_float x = None \/ to_float y = None ->
  to_decimal x = Some a -> to_decimal y = Some b -> is_zero b = true ->
  modulo x y = Err ENotANumber.
Proof.
  intros x y a b HF Ha Hb Hz. rewrite no_float_detour_modulo by assumption.
  rewrite Ha, Hb. destruct b as [n2 c2 e2| |]; simpl in Hz; try discriminate.
  destruct a as [n1 c1 e1|n1|]; simpl; try reflexivity.
  rewrite Hz. destruct (c1 =? 0); reflexivity.
Qed.

(* overflow: 9e6144 * 10 *)
Example overflow_traps_example :
  to_decimal (jn "9e6144") = Some (DFin false 9000000000000000000000000000000000 6111) /\
  multiply (jn "9e6144") (jn "10") = Err EInfinity /\
  add (jn "9e6144") (jn "9e6144") = Err EInfinity /\
  subtract (jn "-9e6144") (jn "9e6144") = Err EInfinity /\
  divide (jn "9e6144") (jn "0.1") = Err EInfinity.
Proof. vm_compute. repeat split. Qed.

(* ------------------------------------------------------------------ *)
(* F. unary operators and functions                                    *)
(* ------------------------------------------------------------------ *)

Lemma Qv_zero : forall d, is_zero d = true -> (Qv d == 0)%Q.
Proof.
  intros [n c e| |]; simpl; intros H; try reflexivity.
  apply Z.eqb_eq in H. subst c. apply qval_zero.
Qed.

(* unary minus: the value is negated, nothing is rounded (a zero operand is
   returned unchanged, which has the same value) *)
Theorem negate_value : forall v d, to_float v = None -> to_decimal v = Some d -> fin d ->
  exists d', negate v = vdec d' /\ fin d' /\ (Qv d' == - Qv d)%Q.
Proof.
  intros v d HF HD Hfin. rewrite no_float_detour_negate by assumption. rewrite HD.
  destruct (is_zero d) eqn:Z0.
  - exists d. split; [reflexivity|]. split; [assumption|].
    rewrite (Qv_zero d Z0). reflexivity.
  - exists (dec_neg d). split; [reflexivity|]. split; [|apply Qv_neg].
    destruct d; simpl in *; auto.
Qed.

(* unary plus is the identity on the syntax tree; nothing to prove. *)

Lemma Qv_abs : forall d, finite d -> (Qv (dec_abs d) == Qabs (Qv d))%Q.
Proof.
  intros [n c e| |] H; simpl in H; try contradiction. simpl.
  symmetry. apply qval_false_abs. assumption.
Qed.

Theorem abs_value : forall v d, to_float v = None -> to_decimal v = Some d -> finite d ->
  abs v = Ok (vdec (dec_abs d)) /\ finite (dec_abs d) /\ (Qv (dec_abs d) == Qabs (Qv d))%Q.
Proof.
  intros v d HF HD Hfin. unfold abs. rewrite no_float_detour_num1 by assumption. rewrite HD.
  split; [reflexivity|]. split; [|apply Qv_abs; assumption].
  destruct d; simpl in *; auto.
Qed.

(* value of a decimal with a negative exponent as a fraction *)
Lemma qval_frac : forall n c e, e < 0 ->
  (qval n c e == sgn n c # Z.to_pos (10 ^ (- e)))%Q.
Proof.
  intros n c e He. unfold qval.
  assert (P : 0 < 10 ^ (- e)) by (apply pow10_pos; lia).
  replace e with (- (- e)) at 1 by lia.
  rewrite Qpower_opp. rewrite <- Zpower_Qpower by lia.
  destruct (10 ^ (- e)) as [|p|p] eqn:E; try lia.
  simpl Z.to_pos. rewrite (Qmake_Qdiv (sgn n c) p). reflexivity.
Qed.

Lemma qval_int : forall n c e, 0 <= e -> (qval n c e == inject_Z (sgn n c * 10 ^ e))%Q.
Proof.
  intros n c e He. unfold qval. rewrite inject_Z_mult, Zpower_Qpower by lia. reflexivity.
Qed.

Lemma qval_e0 : forall n c, (qval n c 0 == inject_Z (sgn n c))%Q.
Proof. intros. rewrite qval_int by lia. rewrite Z.mul_1_r. reflexivity. Qed.

Lemma Qfloor_frac : forall a P, 0 < P -> Qfloor (a # Z.to_pos P) = a / P.
Proof. intros a P HP. unfold Qfloor. rewrite Z2Pos.id by assumption. reflexivity. Qed.

Lemma Qceiling_frac : forall a P, 0 < P -> Qceiling (a # Z.to_pos P) = - ((- a) / P).
Proof.
  intros a P HP. unfold Qceiling. unfold Qopp. simpl Qnum. simpl Qden.
  rewrite Qfloor_frac by assumption. reflexivity.
Qed.

(* floor and ceil are the mathematical floor and ceiling of the value; they
   never round (the results are integers of at most as many digits) *)
Theorem dec_floor_value : forall d, finite d ->
  finite (dec_floor d) /\ (Qv (dec_floor d) == inject_Z (Qfloor (Qv d)))%Q.
Proof.
  intros [n c e| |] H; simpl in H; try contradiction. unfold dec_floor.
  destruct (Z.leb_spec 0 e) as [He|He].
  - split; [exact H|]. simpl Qv. rewrite (Qfloor_comp _ _ (qval_int n c e He)).
    rewrite Qfloor_Z. apply qval_int. assumption.
  - assert (P : 0 < 10 ^ (- e)) by (apply pow10_pos; lia). unfold pow10.
    simpl Qv. rewrite (Qfloor_comp _ _ (qval_frac n c e He)). rewrite Qfloor_frac by assumption.
    pose proof (Z.div_mod c (10 ^ (- e)) ltac:(lia)) as DM.
    pose proof (Z.mod_pos_bound c (10 ^ (- e)) P) as MB.
    assert (Q0 : 0 <= c / 10 ^ (- e)) by (apply Z.div_pos; lia).
    destruct n.
    + destruct (Z.eqb_spec (c mod 10 ^ (- e)) 0) as [R0|R0]; simpl Qv; (split; [simpl; lia|]);
        rewrite qval_e0; unfold sgn; apply inject_Z_injective.
      * rewrite Z.div_opp_l_z by lia. reflexivity.
      * rewrite Z.div_opp_l_nz by lia. lia.
    + simpl Qv. split; [simpl; lia|]. rewrite qval_e0. reflexivity.
Qed.

Theorem dec_ceil_value : forall d, finite d ->
  finite (dec_ceil d) /\ (Qv (dec_ceil d) == inject_Z (Qceiling (Qv d)))%Q.
Proof.
  intros [n c e| |] H; simpl in H; try contradiction. unfold dec_ceil.
  destruct (Z.leb_spec 0 e) as [He|He].
  - split; [exact H|]. simpl Qv. rewrite (Qceiling_comp _ _ (qval_int n c e He)).
    rewrite Qceiling_Z. apply qval_int. assumption.
  - assert (P : 0 < 10 ^ (- e)) by (apply pow10_pos; lia). unfold pow10.
    simpl Qv. rewrite (Qceiling_comp _ _ (qval_frac n c e He)). rewrite Qceiling_frac by assumption.
    pose proof (Z.div_mod c (10 ^ (- e)) ltac:(lia)) as DM.
    pose proof (Z.mod_pos_bound c (10 ^ (- e)) P) as MB.
    assert (Q0 : 0 <= c / 10 ^ (- e)) by (apply Z.div_pos; lia).
    destruct n.
    + simpl Qv. split; [simpl; lia|]. rewrite qval_e0. unfold sgn.
      rewrite Z.opp_involutive. reflexivity.
    + destruct (Z.eqb_spec (c mod 10 ^ (- e)) 0) as [R0|R0]; simpl Qv; (split; [simpl; lia|]);
        rewrite qval_e0; unfold sgn; apply inject_Z_injective.
      * rewrite Z.div_opp_l_z by lia. lia.
      * rewrite Z.div_opp_l_nz by lia. lia.
Qed.

Theorem floor_value : forall v d, to_float v = None -> to_decimal v = Some d -> finite d ->
  floor v = Ok (vdec (dec_floor d)) /\ finite (dec_floor d) /\
  (Qv (dec_floor d) == inject_Z (Qfloor (Qv d)))%Q.
Proof.
  intros v d HF HD Hfin. unfold floor. rewrite no_float_detour_num1 by assumption. rewrite HD.
  split; [reflexivity | apply dec_floor_value; assumption].
Qed.

Theorem ceil_value : forall v d, to_float v = None -> to_decimal v = Some d -> finite d ->
  ceil v = Ok (vdec (dec_ceil d)) /\ finite (dec_ceil d) /\
  (Qv (dec_ceil d) == inject_Z (Qceiling (Qv d)))%Q.
Proof.
  intros v d HF HD Hfin. unfold ceil. rewrite no_float_detour_num1 by assumption. rewrite HD.
  split; [reflexivity | apply dec_ceil_value; assumption].
Qed.

(* to_number: a string holding a JSON number becomes the decimal that the
   same text denotes as a JSON number; numbers pass through unchanged *)
Theorem to_number_string : forall s d, json_number_ok s = true ->
  to_decimal (VNum (NJson s)) = Some d -> to_number (VStr s) = vdec d.
Proof. intros s d H1 H2. simpl in *. rewrite H1, H2. reflexivity. Qed.

Theorem to_number_number : forall n, to_number (VNum n) = VNum n.
Proof. reflexivity. Qed.

Example to_number_examples :
  to_number (VStr (bs "0.1")) = vdec (DFin false 1 (-1)) /\
  to_number (VStr (bs "-12.50e3")) = vdec (DFin true 1250 1) /\
  to_number (VStr (bs "12345678901234567890123456789012345678")) =
    vdec (DFin false 1234567890123456789012345678901235 4).
Proof. vm_compute. repeat split. Qed.

(* ------------------------------------------------------------------ *)
(* H (second part). sum is exact when every partial sum is representable *)
(* ------------------------------------------------------------------ *)

Fixpoint qsum (ds : list dec) : Q :=
  match ds with [] => 0%Q | d :: t => (Qv d + qsum t)%Q end.

(* every operand is finite and every partial sum acc + d1 + ... + di fits *)
Fixpoint partial_sums_fit (acc : Q) (ds : list dec) : Prop :=
  match ds with
  | [] => True
  | d :: t => finite d /\ fits34 (acc + Qv d) /\ partial_sums_fit (acc + Qv d) t
  end.

Lemma partial_sums_fit_comp : forall ds a a', (a == a')%Q ->
  partial_sums_fit a ds -> partial_sums_fit a' ds.
Proof.
  induction ds as [|d t IH]; intros a a' E H; [exact I|].
  destruct H as (H1 & H2 & H3).
  assert (E' : (a + Qv d == a' + Qv d)%Q) by (rewrite E; reflexivity).
  split; [exact H1|]. split; [exact (fits34_comp _ _ E' H2) | exact (IH _ _ E' H3)].
Qed.

Lemma sum_loop_exact : forall l ds r,
  Forall2 (fun v d => to_decimal v = Some d) l ds -> finite r ->
  partial_sums_fit (Qv r) ds ->
  exists d, sum_loop l r = Ok d /\ finite d /\ (Qv d == Qv r + qsum ds)%Q.
Proof.
  intros l ds r HF. revert r. induction HF as [|v d l ds Hv HF IH]; intros r Hr HP.
  - exists r. split; [reflexivity|]. split; [assumption|]. simpl. ring.
  - destruct HP as (Hd & Hfit & HP). cbn [sum_loop]. rewrite Hv.
    destruct (add_exact r d Hr Hd Hfit) as [HC HV].
    destruct (IH (dec_add r d) (canonical_finite _ HC)
                 (partial_sums_fit_comp ds _ _ (Qeq_sym _ _ HV) HP)) as (d' & E1 & E2 & E3).
    exists d'. split; [exact E1|]. split; [exact E2|].
    rewrite E3, HV. simpl. ring.
Qed.

Theorem sum_exact_when_partial_sums_fit : forall l ds,
  Forall2 (fun v d => to_decimal v = Some d) l ds ->
  partial_sums_fit 0 ds ->
  exists d, sum (VArr l) = Ok (vdec d) /\ finite d /\ (Qv d == qsum ds)%Q.
Proof.
  intros l ds HF HP.
  assert (Z0 : (0 == Qv dec_zero)%Q) by (unfold dec_zero; simpl; rewrite qval_zero; reflexivity).
  destruct (sum_loop_exact l ds dec_zero HF ltac:(simpl; lia)
              (partial_sums_fit_comp ds _ _ Z0 HP)) as (d & E1 & E2 & E3).
  exists d. split; [|split; [exact E2|]].
  - unfold sum. rewrite E1. simpl. apply trap_fin. apply finite_fin. exact E2.
  - rewrite E3, <- Z0. ring.
Qed.

(* sum never uses binary floating point, even on an array of Go floats: each
   element is converted to decimal first (sum_loop only calls to_decimal). *)
Lemma sum_loop_result : forall l r d, sum_loop l r = Ok d ->
  exists ds, Forall2 (fun v d => to_decimal v = Some d) l ds /\ d = fold_left dec_add ds r.
Proof.
  induction l as [|v l IH]; intros r d H; simpl in H.
  - inversion H. exists []. split; [constructor | reflexivity].
  - destruct (to_decimal v) as [dv|] eqn:E; [|discriminate].
    destruct (IH _ _ H) as (ds & H1 & H2).
    exists (dv :: ds). split; [constructor; assumption | exact H2].
Qed.

Theorem sum_result_finite : forall l v, sum (VArr l) = Ok v ->
  exists ds, Forall2 (fun v d => to_decimal v = Some d) l ds /\
             v = vdec (fold_left dec_add ds dec_zero) /\ fin (fold_left dec_add ds dec_zero).
Proof.
  intros l v H. unfold sum in H.
  destruct (sum_loop l dec_zero) as [d| | | |] eqn:E; simpl in H; try discriminate.
  destruct (sum_loop_result _ _ _ E) as (ds & H1 & H2). subst d.
  apply trap_ok in H. exists ds. tauto.
Qed.

(* ------------------------------------------------------------------ *)
(* C. division                                                         *)
(* ------------------------------------------------------------------ *)

Lemma qval_abs_eq : forall n c e m k, 0 <= c ->
  (qval n c e == inject_Z m * inject_Z 10 ^ k)%Q ->
  (qval false c e == qval false (Z.abs m) k)%Q.
Proof.
  intros n c e m k Hc H.
  rewrite <- (qval_false_abs n c e Hc). rewrite H. rewrite Qabs_Qmult.
  rewrite (Qabs_pos (inject_Z 10 ^ k)) by (apply Qlt_le_weak, ten_pow_pos).
  unfold qval, sgn. apply Qmult_comp; [|reflexivity].
  unfold Qabs, inject_Z. simpl. reflexivity.
Qed.

Lemma inject_Z_neq0 : forall z, z <> 0 -> ~ (inject_Z z == 0)%Q.
Proof. intros z H E. apply H. unfold Qeq in E. simpl in E. lia. Qed.

Lemma ten_pow_neq0 : forall k, ~ (inject_Z 10 ^ k == 0)%Q.
Proof. intros k E. pose proof (ten_pow_pos k) as P. rewrite E in P. discriminate P. Qed.

Lemma sgn_xorb_inj : forall n1 n2 c1 c2, c2 <> 0 ->
  (inject_Z (sgn n1 c1) / inject_Z (sgn n2 c2) == inject_Z (sgn (xorb n1 n2) c1) / inject_Z c2)%Q.
Proof.
  intros n1 n2 c1 c2 H. pose proof (inject_Z_neq0 c2 H) as N.
  destruct n1, n2; unfold sgn; simpl xorb; cbv iota; rewrite ?inject_Z_opp; field; assumption.
Qed.

(* the exact quotient, with the numerator scaled by 10^k *)
Lemma qval_div : forall n1 c1 e1 n2 c2 e2 k, c2 <> 0 -> 0 <= k ->
  (qval n1 c1 e1 / qval n2 c2 e2 ==
   inject_Z (sgn (xorb n1 n2) (c1 * 10 ^ k)) / inject_Z c2 * inject_Z 10 ^ (e1 - e2 - k))%Q.
Proof.
  intros n1 c1 e1 n2 c2 e2 k H Hk. unfold qval.
  pose proof (inject_Z_neq0 c2 H) as N.
  assert (N2 : ~ (inject_Z (sgn n2 c2) == 0)%Q) by (apply inject_Z_neq0; destruct n2; unfold sgn; lia).
  rewrite sgn_mul, inject_Z_mult, Zpower_Qpower by lia.
  replace (e1 - e2 - k) with (e1 + (- e2) + (- k)) by lia.
  rewrite !Qpower_plus by exact ten_neq0. rewrite !Qpower_opp.
  pose proof (ten_pow_neq0 e2) as T2. pose proof (ten_pow_neq0 k) as Tk.
  transitivity (inject_Z (sgn n1 c1) / inject_Z (sgn n2 c2) * (inject_Z 10 ^ e1 / inject_Z 10 ^ e2))%Q.
  - field. split; assumption.
  - rewrite sgn_xorb_inj by assumption. field. repeat split; assumption.
Qed.

Theorem quo_exact : forall a b, finite a -> finite b -> ~ (Qv b == 0)%Q ->
  fits34 (Qv a / Qv b) ->
  canonical (dec_quo a b) /\ (Qv (dec_quo a b) == Qv a / Qv b)%Q.
Proof.
  intros [n1 c1 e1| |] [n2 c2 e2| |] Ha Hb Hnz HF; simpl in Ha, Hb; try contradiction.
  change (Qv (DFin n1 c1 e1)) with (qval n1 c1 e1) in *.
  change (Qv (DFin n2 c2 e2)) with (qval n2 c2 e2) in *.
  assert (Hc2 : 0 < c2).
  { destruct (Z.eq_dec c2 0) as [->|]; [|lia]. exfalso. apply Hnz. apply qval_zero. }
  unfold dec_quo. destruct (Z.eqb_spec c2 0) as [|_]; [lia|].
  destruct (Z.eqb_spec c1 0) as [->|Hc1].
  - split.
    + unfold canonical. rewrite digits_nonpos by lia. unfold prec34, emin, emax. lia.
    + simpl Qv. rewrite !qval_zero. unfold Qdiv. ring.
  - assert (Hc1' : 0 < c1) by lia.
    set (k := Z.max 0 (prec34 + 3 + digits c2 - digits c1)).
    assert (Hk : 0 <= k) by (unfold k; lia).
    unfold pow10. set (num := c1 * 10 ^ k).
    set (x := xorb n1 n2). set (E := e1 - e2 - k).
    pose proof (qval_div n1 c1 e1 n2 c2 e2 k ltac:(lia) Hk) as QD. fold num x E in QD.
    assert (Pk : 0 < 10 ^ k) by (apply pow10_pos; lia).
    assert (Hnum : 0 < num) by (unfold num; nia).
    pose proof (Z.div_mod num c2 ltac:(lia)) as DM.
    pose proof (Z.mod_pos_bound num c2 Hc2) as MB.
    assert (N2 : ~ (inject_Z c2 == 0)%Q) by (apply inject_Z_neq0; lia).
    destruct (Z.eqb_spec (num mod c2) 0) as [R0|R0].
    + (* the division terminates: one exact rounding *)
      apply fit_value_exact'; [apply Z.div_pos; lia | | exact HF].
      rewrite QD. unfold qval. apply Qmult_comp; [|reflexivity].
      replace num with ((num / c2) * c2) at 2 by lia.
      rewrite sgn_mul, inject_Z_mult. field. exact N2.
    + (* a non-terminating (or too long) quotient is not representable *)
      exfalso. destruct (fits34_comp _ _ QD HF) as (m & j & Hm & Hj & HV).
      assert (HV2 : (qval x num E == inject_Z (m * c2) * inject_Z 10 ^ j)%Q).
      { unfold qval. rewrite inject_Z_mult.
        transitivity (inject_Z (sgn x num) / inject_Z c2 * inject_Z 10 ^ E * inject_Z c2)%Q;
          [field; exact N2|]. rewrite HV. ring. }
      apply qval_abs_eq in HV2; [|lia].
      rewrite Z.abs_mul, (Z.abs_eq c2) in HV2 by lia.
      destruct (Z_le_gt_dec E j) as [HEj|HEj].
      * pose proof (qval_eq_int E num E _ j ltac:(lia) ltac:(lia) HV2) as EI.
        rewrite Z.sub_diag, Z.mul_1_r in EI.
        apply R0. rewrite EI.
        replace (Z.abs m * c2 * 10 ^ (j - E)) with (Z.abs m * 10 ^ (j - E) * c2) by ring.
        apply Z.mod_mul. lia.
      * pose proof (qval_eq_int j num E _ j ltac:(lia) ltac:(lia) HV2) as EI.
        rewrite Z.sub_diag, Z.mul_1_r in EI.
        assert (PE : 0 < 10 ^ (E - j)) by (apply pow10_pos; lia).
        (* num >= 10^36 * c2 *)
        pose proof (digits_spec c1 Hc1') as [L1 U1]. pose proof (digits_spec c2 Hc2) as [L2 U2].
        pose proof (digits_pos c1 Hc1'). pose proof (digits_pos c2 Hc2).
        assert (B : 10 ^ 36 * 10 ^ digits c2 <= num).
        { unfold num. rewrite <- Z.pow_add_r by lia.
          apply Z.le_trans with (10 ^ (digits c1 - 1) * 10 ^ k); [|nia].
          rewrite <- Z.pow_add_r by lia. apply Z.pow_le_mono_r; [lia|].
          unfold k, prec34. lia. }
        assert (10 ^ 36 * c2 < num) by nia.
        assert (Z.abs m * c2 < 10 ^ 34 * c2) by nia.
        assert (num <= num * 10 ^ (E - j)) by nia.
        change (10 ^ 36) with (100 * 10 ^ 34) in *. nia.
Qed.

(* ------------------------------------------------------------------ *)
(* The operators, end to end                                           *)
(* ------------------------------------------------------------------ *)

Section OperatorsExact.
  Variables (x y : value) (a b : dec).
  Hypothesis HF : to_float x = None \/ to_float y = None.
  Hypothesis Hx : to_decimal x = Some a.
  Hypothesis Hy : to_decimal y = Some b.
  Hypothesis Ha : finite a.
  Hypothesis Hb : finite b.

  Lemma arith_exact_gen : forall fop dop (r : Q),
    canonical (dop a b) /\ (Qv (dop a b) == r)%Q ->
    exists d, arith fop dop x y = Ok (vdec d) /\ canonical d /\ (Qv d == r)%Q.
  Proof.
    intros fop dop r [H1 H2]. exists (dop a b). split; [|split; assumption].
    rewrite no_float_detour by assumption. rewrite Hx, Hy.
    apply trap_fin. apply finite_fin, canonical_finite, H1.
  Qed.

  Theorem add_op_exact : fits34 (Qv a + Qv b) ->
    exists d, add x y = Ok (vdec d) /\ canonical d /\ (Qv d == Qv a + Qv b)%Q.
  Proof. intros H. apply arith_exact_gen. apply add_exact; assumption. Qed.

  Theorem subtract_op_exact : fits34 (Qv a - Qv b) ->
    exists d, subtract x y = Ok (vdec d) /\ canonical d /\ (Qv d == Qv a - Qv b)%Q.
  Proof. intros H. apply arith_exact_gen. apply sub_exact; assumption. Qed.

  Theorem multiply_op_exact : fits34 (Qv a * Qv b) ->
    exists d, multiply x y = Ok (vdec d) /\ canonical d /\ (Qv d == Qv a * Qv b)%Q.
  Proof. intros H. apply arith_exact_gen. apply mul_exact; assumption. Qed.

  Theorem divide_op_exact : ~ (Qv b == 0)%Q -> fits34 (Qv a / Qv b) ->
    exists d, divide x y = Ok (vdec d) /\ canonical d /\ (Qv d == Qv a / Qv b)%Q.
  Proof. intros H0 H. apply arith_exact_gen. apply quo_exact; assumption. Qed.
End OperatorsExact.

(* avg: exact when the partial sums and the final quotient are representable *)
Lemma dec_of_Z_small : forall z, 0 <= z < 10 ^ 34 -> dec_of_Z z = DFin false z 0.
Proof.
  intros z Hz. unfold dec_of_Z. rewrite Z.abs_eq by lia.
  destruct (Z.ltb_spec z 0); [lia|].
  apply fit_exact; [lia | apply digits_le_of_lt; unfold prec34; lia | unfold emin, emax; lia].
Qed.

Theorem avg_exact_when_partial_sums_fit : forall l ds,
  l <> [] -> Z.of_nat (List.length l) < 10 ^ 34 ->
  Forall2 (fun v d => to_decimal v = Some d) l ds ->
  partial_sums_fit 0 ds ->
  fits34 (qsum ds / inject_Z (Z.of_nat (List.length l))) ->
  exists d, avg (VArr l) = Ok (vdec d) /\ canonical d /\
            (Qv d == qsum ds / inject_Z (Z.of_nat (List.length l)))%Q.
Proof.
  intros l ds Hne Hlen HF HP HQ.
  assert (Z0 : (0 == Qv dec_zero)%Q) by (unfold dec_zero; simpl; rewrite qval_zero; reflexivity).
  destruct (sum_loop_exact l ds dec_zero HF ltac:(simpl; lia)
              (partial_sums_fit_comp ds _ _ Z0 HP)) as (s & E1 & E2 & E3).
  assert (E3' : (Qv s == qsum ds)%Q) by (rewrite E3, <- Z0; ring).
  set (n := Z.of_nat (List.length l)) in *.
  assert (Hn : 0 < n) by (unfold n; destruct l; [contradiction | simpl List.length; lia]).
  assert (EN : dec_of_Z n = DFin false n 0) by (apply dec_of_Z_small; lia).
  assert (QN : (Qv (DFin false n 0) == inject_Z n)%Q) by (simpl; apply qval_e0).
  assert (NZ : ~ (Qv (DFin false n 0) == 0)%Q).
  { rewrite QN. apply inject_Z_neq0. lia. }
  assert (EQ : (Qv s / Qv (DFin false n 0) == qsum ds / inject_Z n)%Q) by (rewrite E3', QN; reflexivity).
  destruct (quo_exact s (DFin false n 0) E2 ltac:(simpl; lia) NZ
              (fits34_comp _ _ (Qeq_sym _ _ EQ) HQ)) as [C1 C2].
  exists (dec_quo s (DFin false n 0)). split; [|split; [exact C1 | rewrite C2; exact EQ]].
  unfold avg. destruct l as [|v l']; [contradiction|]. rewrite E1. cbn [bind].
  fold n. rewrite EN. apply trap_fin. apply finite_fin, canonical_finite, C1.
Qed.

(* ------------------------------------------------------------------ *)
(* Rounding error and overflow threshold of fit                        *)
(* ------------------------------------------------------------------ *)

(* rounding the coefficient: the result, rescaled to the original exponent,
   is within half a unit of the 34th digit of c *)
Lemma round_coef_err : forall c e c1 e1, 0 < c -> round_coef c e = (c1, e1) ->
  exists j, 0 <= j /\ e1 = e + j /\ 0 < c1 /\ digits c1 <= prec34 /\
            2 * Z.abs (c1 * 10 ^ j - c) <= 10 ^ (digits c - prec34) /\
            (digits c <= prec34 -> j = 0 /\ c1 = c) /\
            (prec34 < digits c -> digits c - prec34 <= j /\
               10 ^ 33 * 10 ^ (digits c - prec34) <= c1 * 10 ^ j <= 10 ^ 34 * 10 ^ (digits c - prec34)).
Proof.
  intros c e c1 e1 Hc. unfold round_coef.
  destruct (Z.leb_spec (digits c) prec34) as [Hd|Hd].
  - intros E; inversion E; subst c1 e1. exists 0. rewrite Z.mul_1_r, Z.sub_diag. simpl Z.abs.
    assert (0 <= 10 ^ (digits c - prec34)) by (apply Z.pow_nonneg; lia).
    repeat split; try lia.
  - unfold prec34 in *. set (d := digits c) in *. set (k := d - 34).
    pose proof (digits_spec c Hc) as [L U]. fold d in L, U.
    assert (Hk : 0 < k) by (unfold k; lia).
    pose proof (drop_digits_bounds c k ltac:(lia) Hk) as [[B1 B2] B3].
    assert (Pk : 0 < 10 ^ k) by (apply pow10_pos; lia).
    assert (QL : 10 ^ 33 <= c / 10 ^ k).
    { apply Z.div_le_lower_bound; [lia|]. rewrite <- Z.pow_add_r by lia.
      replace (k + 33) with (d - 1) by (unfold k; lia). exact L. }
    assert (QU : c / 10 ^ k < 10 ^ 34).
    { apply Z.div_lt_upper_bound; [lia|]. rewrite <- Z.pow_add_r by lia.
      replace (k + 34) with d by (unfold k; lia). exact U. }
    set (q := drop_digits c k) in *. clearbody q.
    assert (P33 : 0 < 10 ^ 33) by reflexivity.
    destruct (Z.gtb_spec (digits q) 34) as [Hq|Hq]; intros E; inversion E; subst c1 e1.
    + assert (H : q = 10 ^ 34).
      { destruct (Z.eq_dec q (10 ^ 34)); [assumption|]. exfalso.
        assert (digits q <= 34) by (apply digits_le_of_lt; lia). lia. }
      exists (k + 1). rewrite H in *. change (10 ^ 34 / 10) with (10 ^ 33).
      assert (E1 : 10 ^ 33 * 10 ^ (k + 1) = 10 ^ 34 * 10 ^ k).
      { rewrite Z.pow_add_r by lia. change (10 ^ 34) with (10 ^ 33 * 10 ^ 1). ring. }
      rewrite E1. repeat split; try lia.
      apply digits_le_of_lt; [lia | reflexivity].
    + exists k. repeat split; try lia; apply Z.mul_le_mono_nonneg_r; lia.
Qed.

(* the second stage of fit in the normal range (no subnormal rounding) *)
Lemma fit_normal : forall n c e c1 e1, round_coef c e = (c1, e1) ->
  0 < c1 -> digits c1 <= prec34 -> emin <= e1 ->
  (emax < e1 /\ prec34 < digits c1 + (e1 - emax) /\ fit n c e = DInf n) \/
  (exists c' e', fit n c e = DFin n c' e' /\ canonical (DFin n c' e') /\
                 (qval n c' e' == qval n c1 e1)%Q /\
                 (e1 <= emax \/ digits c1 + (e1 - emax) <= prec34)).
Proof.
  intros n c e c1 e1 ER Hc1 Hd He. unfold fit. rewrite ER.
  destruct (Z.eqb_spec c1 0) as [|_]; [lia|].
  destruct (Z.gtb_spec e1 emax) as [Hhi|Hhi].
  - destruct (Z.leb_spec (digits c1 + (e1 - emax)) prec34) as [Hp|Hp].
    + right. exists (c1 * pow10 (e1 - emax)), emax. unfold pow10.
      assert (0 < 10 ^ (e1 - emax)) by (apply pow10_pos; lia).
      split; [reflexivity|]. split; [|split; [|right; assumption]].
      * unfold canonical. rewrite digits_mul_pow by lia.
        split; [nia|]. split; [assumption|]. unfold emin, emax; lia.
      * rewrite qval_shift by lia. replace (emax + (e1 - emax)) with e1 by lia. reflexivity.
    + left. repeat split; assumption.
  - destruct (Z.ltb_spec e1 emin); [lia|].
    right. exists c1, e1. split; [reflexivity|]. split; [|split; [reflexivity | left; assumption]].
    unfold canonical. repeat split; lia.
Qed.

(* one unit of the 34th significant digit of r *)
Definition is_ulp34 (r u : Q) : Prop :=
  exists p : Z, (inject_Z 10 ^ p <= Qabs r)%Q /\ (Qabs r < inject_Z 10 ^ (p + 1))%Q /\
                (u == inject_Z 10 ^ (p - 33))%Q.

Lemma Qabs_qval : forall n c e, 0 <= c -> (Qabs (qval n c e) == inject_Z c * inject_Z 10 ^ e)%Q.
Proof. intros. rewrite qval_false_abs by assumption. reflexivity. Qed.

Lemma qval_ulp : forall n c e, 0 < c ->
  is_ulp34 (qval n c e) (inject_Z 10 ^ (digits c + e - prec34)).
Proof.
  intros n c e Hc. exists (digits c - 1 + e).
  pose proof (digits_spec c Hc) as [L U]. pose proof (digits_pos c Hc) as Dp.
  rewrite Qabs_qval by lia. split; [|split].
  - rewrite Qpower_plus by exact ten_neq0. apply Qmult_le_compat_r; [|apply Qlt_le_weak, ten_pow_pos].
    rewrite <- Zpower_Qpower by lia. rewrite <- Zle_Qle. exact L.
  - replace (digits c - 1 + e + 1) with (digits c + e) by lia.
    rewrite Qpower_plus by exact ten_neq0. apply Qmult_lt_compat_r; [apply ten_pow_pos|].
    rewrite <- Zpower_Qpower by lia. rewrite <- Zlt_Qlt. exact U.
  - unfold prec34. replace (digits c - 1 + e - 33) with (digits c + e - 34) by lia. reflexivity.
Qed.

(* difference of two values at a common exponent *)
Lemma qval_diff_abs : forall n a b e, 0 <= a -> 0 <= b ->
  (Qabs (qval n a e - qval n b e) == inject_Z (Z.abs (a - b)) * inject_Z 10 ^ e)%Q.
Proof.
  intros n a b e Ha Hb. unfold qval.
  setoid_replace (inject_Z (sgn n a) * inject_Z 10 ^ e - inject_Z (sgn n b) * inject_Z 10 ^ e)%Q
    with (inject_Z (sgn n a - sgn n b) * inject_Z 10 ^ e)%Q
    by (unfold Z.sub; rewrite inject_Z_plus, inject_Z_opp; ring).
  rewrite Qabs_Qmult. rewrite (Qabs_pos (inject_Z 10 ^ e)) by (apply Qlt_le_weak, ten_pow_pos).
  apply Qmult_comp; [|reflexivity].
  unfold Qabs, inject_Z. simpl.
  replace (Z.abs (sgn n a - sgn n b)) with (Z.abs (a - b)) by (destruct n; unfold sgn; lia).
  reflexivity.
Qed.

(* In the normal range, fit either overflows or returns a canonical decimal
   within HALF a unit of the 34th significant digit of the exact value. *)
Theorem fit_close : forall n c e, 0 < c -> emin <= digits c + e - prec34 ->
  fit n c e = DInf n \/
  exists c' e', fit n c e = DFin n c' e' /\ canonical (DFin n c' e') /\
    (Qabs (qval n c' e' - qval n c e) <= (1 # 2) * inject_Z 10 ^ (digits c + e - prec34))%Q.
Proof.
  intros n c e Hc Hnorm.
  destruct (round_coef c e) as [c1 e1] eqn:ER.
  destruct (round_coef_err c e c1 e1 Hc ER) as (j & Hj & He1 & Hc1 & Hd1 & Herr & Hsmall & Hbig).
  assert (Hn1 : emin <= e1).
  { destruct (Z_le_gt_dec (digits c) prec34) as [Hd|Hd].
    - destruct (Hsmall Hd) as [-> ->]. unfold prec34 in *. lia.
    - destruct (Hbig ltac:(lia)) as [Hkj _]. lia. }
  destruct (fit_normal n c e c1 e1 ER Hc1 Hd1 Hn1) as [(_ & _ & HI)|(c' & e' & EF & HC & HV & _)];
    [left; exact HI | right].
  exists c', e'. split; [exact EF|]. split; [exact HC|].
  rewrite HV. subst e1. rewrite <- (qval_shift n c1 e j Hj).
  assert (P : 0 < 10 ^ j) by (apply pow10_pos; lia).
  rewrite qval_diff_abs by nia.
  destruct (Z_le_gt_dec (digits c) prec34) as [Hd|Hd].
  - destruct (Hsmall Hd) as [-> ->]. rewrite Z.mul_1_r, Z.sub_diag. simpl Z.abs.
    setoid_replace (inject_Z 0 * inject_Z 10 ^ e)%Q with 0%Q by ring.
    apply Qmult_le_0_compat; [discriminate | apply Qlt_le_weak, ten_pow_pos].
  - replace (digits c + e - prec34) with ((digits c - prec34) + e) by lia.
    rewrite Qpower_plus by exact ten_neq0. rewrite Qmult_assoc.
    apply Qmult_le_compat_r; [|apply Qlt_le_weak, ten_pow_pos].
    rewrite <- Zpower_Qpower by lia.
    apply Qmult_le_l with (z := inject_Z 2); [reflexivity|].
    setoid_replace (inject_Z 2 * ((1 # 2) * inject_Z (10 ^ (digits c - prec34))))%Q
      with (inject_Z (10 ^ (digits c - prec34))) by (simpl; field).
    rewrite <- inject_Z_mult. rewrite <- Zle_Qle. exact Herr.
Qed.

Lemma is_ulp34_comp : forall r s u, (r == s)%Q -> is_ulp34 r u -> is_ulp34 s u.
Proof.
  intros r s u E (p & H1 & H2 & H3). exists p. rewrite <- E. repeat split; assumption.
Qed.

(* the unit in the last place is determined by the value *)
Lemma is_ulp34_unique : forall r u v, is_ulp34 r u -> is_ulp34 r v -> (u == v)%Q.
Proof.
  intros r u v (p & A1 & A2 & A3) (p' & B1 & B2 & B3).
  assert (T : (1 < inject_Z 10)%Q) by reflexivity.
  assert (p < p' + 1).
  { apply (Qpower_lt_compat_l_inv (inject_Z 10)); [|exact T].
    eapply Qle_lt_trans; [exact A1 | exact B2]. }
  assert (p' < p + 1).
  { apply (Qpower_lt_compat_l_inv (inject_Z 10)); [|exact T].
    eapply Qle_lt_trans; [exact B1 | exact A2]. }
  assert (p = p') by lia. subst p'. rewrite A3, B3. reflexivity.
Qed.

(* the smallest normal magnitude: 10^(emin+33) = 1e-6143 *)
Definition normal (r : Q) : Prop := (inject_Z 10 ^ (emin + 33) <= Qabs r)%Q.

Lemma normal_digits : forall n c e, 0 < c -> normal (qval n c e) ->
  emin <= digits c + e - prec34.
Proof.
  intros n c e Hc HN. unfold normal in HN.
  destruct (qval_ulp n c e Hc) as (p & P1 & P2 & _).
  pose proof (digits_spec c Hc) as [L U]. pose proof (digits_pos c Hc) as Dp.
  assert (H : (Qabs (qval n c e) < inject_Z 10 ^ (digits c + e))%Q).
  { rewrite Qabs_qval by lia. rewrite Qpower_plus by exact ten_neq0.
    apply Qmult_lt_compat_r; [apply ten_pow_pos|].
    rewrite <- Zpower_Qpower by lia. rewrite <- Zlt_Qlt. exact U. }
  assert (emin + 33 < digits c + e).
  { apply (Qpower_lt_compat_l_inv (inject_Z 10)); [|reflexivity].
    eapply Qle_lt_trans; [exact HN | exact H]. }
  unfold prec34. lia.
Qed.

Theorem fit_close_ulp : forall n c e r, 0 <= c -> (qval n c e == r)%Q -> normal r ->
  fit n c e = DInf n \/
  (canonical (fit n c e) /\
   exists u, is_ulp34 r u /\ (Qabs (Qv (fit n c e) - r) <= (1 # 2) * u)%Q).
Proof.
  intros n c e r Hc E HN.
  assert (Hc' : 0 < c).
  { destruct (Z.eq_dec c 0) as [->|]; [|lia]. exfalso. unfold normal in HN.
    rewrite <- E, qval_zero in HN. simpl in HN.
    pose proof (ten_pow_pos (emin + 33)) as P.
    apply (Qlt_irrefl 0). eapply Qlt_le_trans; [exact P | exact HN]. }
  assert (HN' : normal (qval n c e)) by (unfold normal; rewrite E; exact HN).
  destruct (fit_close n c e Hc' (normal_digits n c e Hc' HN')) as [HI|(c' & e' & EF & HC & HB)];
    [left; exact HI | right].
  rewrite EF. split; [exact HC|].
  exists (inject_Z 10 ^ (digits c + e - prec34))%Q. split.
  - apply (is_ulp34_comp _ _ _ E). apply qval_ulp. exact Hc'.
  - simpl Qv. rewrite <- E. exact HB.
Qed.

(* + - * : overflow, or within half an ulp of the exact result *)
Definition close_to (half : bool) (d : dec) (r : Q) : Prop :=
  canonical d /\ exists u, is_ulp34 r u /\
    (Qabs (Qv d - r) <= (if half then (1 # 2) * u else u))%Q.

Theorem mul_close : forall a b, finite a -> finite b -> normal (Qv a * Qv b) ->
  (exists s, dec_mul a b = DInf s) \/ close_to true (dec_mul a b) (Qv a * Qv b).
Proof.
  intros [n1 c1 e1| |] [n2 c2 e2| |] Ha Hb HN; simpl in Ha, Hb; try contradiction.
  change (Qv (DFin n1 c1 e1)) with (qval n1 c1 e1) in *.
  change (Qv (DFin n2 c2 e2)) with (qval n2 c2 e2) in *.
  unfold dec_mul.
  destruct (fit_close_ulp (xorb n1 n2) (c1 * c2) (e1 + e2) _
             (Z.mul_nonneg_nonneg _ _ Ha Hb) (qval_mul n1 c1 e1 n2 c2 e2) HN) as [HI|HC].
  - left. eexists; exact HI.
  - right. exact HC.
Qed.

Theorem add_close : forall a b, finite a -> finite b -> normal (Qv a + Qv b) ->
  (exists s, dec_add a b = DInf s) \/ close_to true (dec_add a b) (Qv a + Qv b).
Proof.
  intros [n1 c1 e1| |] [n2 c2 e2| |] Ha Hb HN; simpl in Ha, Hb; try contradiction.
  change (Qv (DFin n1 c1 e1)) with (qval n1 c1 e1) in *.
  change (Qv (DFin n2 c2 e2)) with (qval n2 c2 e2) in *.
  pose proof (qval_add n1 c1 e1 n2 c2 e2) as HQ.
  unfold dec_add, align in *. cbv beta iota zeta in *.
  set (e := Z.min e1 e2) in *.
  set (s := sgn n1 (c1 * pow10 (e1 - e)) + sgn n2 (c2 * pow10 (e2 - e))) in *.
  destruct (Z.eqb_spec s 0) as [E0|E0].
  - exfalso. rewrite E0 in HQ. simpl in HQ. unfold normal in HN.
    rewrite <- HQ, qval_zero in HN. simpl in HN.
    pose proof (ten_pow_pos (emin + 33)) as P.
    apply (Qlt_irrefl 0). eapply Qlt_le_trans; [exact P | exact HN].
  - destruct (fit_close_ulp (s <? 0) (Z.abs s) e _ (Z.abs_nonneg s) HQ HN) as [HI|HC].
    + left. eexists; exact HI.
    + right. exact HC.
Qed.

Theorem sub_close : forall a b, finite a -> finite b -> normal (Qv a - Qv b) ->
  (exists s, dec_sub a b = DInf s) \/ close_to true (dec_sub a b) (Qv a - Qv b).
Proof.
  intros a b Ha Hb HN. unfold dec_sub.
  assert (E : (Qv a + Qv (dec_neg b) == Qv a - Qv b)%Q) by (rewrite Qv_neg; reflexivity).
  assert (HN' : normal (Qv a + Qv (dec_neg b))) by (unfold normal; rewrite E; exact HN).
  destruct (add_close a (dec_neg b) Ha (finite_neg b Hb) HN') as [HI|(HC & u & HU & HB)].
  - left. exact HI.
  - right. split; [exact HC|]. exists u. split; [exact (is_ulp34_comp _ _ _ E HU)|].
    rewrite <- E. exact HB.
Qed.

(* ------------------------------------------------------------------ *)
(* Division: within one ulp                                            *)
(* ------------------------------------------------------------------ *)

Definition sig (x : bool) : Q := if x then (- (1))%Q else 1%Q.

Lemma sgn_Q : forall x z, (inject_Z (sgn x z) == sig x * inject_Z z)%Q.
Proof. intros [] z; unfold sgn, sig; rewrite ?inject_Z_opp; ring. Qed.

Lemma Qabs_sig : forall x t, (Qabs (sig x * t) == Qabs t)%Q.
Proof.
  intros [] t; unfold sig.
  - setoid_replace (- (1) * t)%Q with (- t)%Q by ring. apply Qabs_opp.
  - setoid_replace (1 * t)%Q with t by ring. reflexivity.
Qed.

Lemma quo_num_big : forall c1 c2, 0 < c1 -> 0 < c2 ->
  10 ^ 36 * c2 < c1 * 10 ^ (Z.max 0 (prec34 + 3 + digits c2 - digits c1)).
Proof.
  intros c1 c2 Hc1 Hc2. set (k := Z.max 0 (prec34 + 3 + digits c2 - digits c1)).
  pose proof (digits_spec c1 Hc1) as [L1 U1]. pose proof (digits_spec c2 Hc2) as [L2 U2].
  pose proof (digits_pos c1 Hc1). pose proof (digits_pos c2 Hc2).
  assert (Pk : 0 < 10 ^ k) by (apply pow10_pos; unfold k; lia).
  assert (B : 10 ^ 36 * 10 ^ digits c2 <= c1 * 10 ^ k).
  { rewrite <- Z.pow_add_r by lia.
    apply Z.le_trans with (10 ^ (digits c1 - 1) * 10 ^ k); [|nia].
    rewrite <- Z.pow_add_r by (unfold k; lia). apply Z.pow_le_mono_r; [lia|].
    unfold k, prec34. lia. }
  assert (0 < 10 ^ 36) by reflexivity. nia.
Qed.

Lemma half_le : forall u : Q, (0 <= u)%Q -> ((1 # 2) * u <= u)%Q.
Proof.
  intros u Hu. setoid_replace u with (1 * u)%Q at 2 by ring.
  apply Qmult_le_compat_r; [discriminate | exact Hu].
Qed.

Lemma is_ulp34_pos : forall r u, is_ulp34 r u -> (0 < u)%Q.
Proof. intros r u (p & _ & _ & E). rewrite E. apply ten_pow_pos. Qed.

Theorem quo_close : forall a b, finite a -> finite b -> ~ (Qv b == 0)%Q ->
  normal (Qv a / Qv b) ->
  (exists s, dec_quo a b = DInf s) \/ close_to false (dec_quo a b) (Qv a / Qv b).
Proof.
  intros [n1 c1 e1| |] [n2 c2 e2| |] Ha Hb Hnz HN; simpl in Ha, Hb; try contradiction.
  change (Qv (DFin n1 c1 e1)) with (qval n1 c1 e1) in *.
  change (Qv (DFin n2 c2 e2)) with (qval n2 c2 e2) in *.
  assert (Hc2 : 0 < c2).
  { destruct (Z.eq_dec c2 0) as [->|]; [|lia]. exfalso. apply Hnz. apply qval_zero. }
  assert (Hc1 : 0 < c1).
  { destruct (Z.eq_dec c1 0) as [->|]; [|lia]. exfalso. unfold normal in HN.
    assert (Z0 : (qval n1 0 e1 / qval n2 c2 e2 == 0)%Q) by (rewrite qval_zero; unfold Qdiv; ring).
    rewrite Z0 in HN. simpl in HN. pose proof (ten_pow_pos (emin + 33)) as P.
    apply (Qlt_irrefl 0). eapply Qlt_le_trans; [exact P | exact HN]. }
  unfold dec_quo. destruct (Z.eqb_spec c2 0) as [|_]; [lia|].
  destruct (Z.eqb_spec c1 0) as [|_]; [lia|].
  pose proof (quo_num_big c1 c2 Hc1 Hc2) as BIG.
  set (k := Z.max 0 (prec34 + 3 + digits c2 - digits c1)) in *.
  assert (Hk : 0 <= k) by (unfold k; lia).
  unfold pow10. set (num := c1 * 10 ^ k) in *.
  set (x := xorb n1 n2). set (E := e1 - e2 - k).
  pose proof (qval_div n1 c1 e1 n2 c2 e2 k ltac:(lia) Hk) as QD. fold num x E in QD.
  set (V := (qval n1 c1 e1 / qval n2 c2 e2)%Q) in *.
  assert (Hnum : 0 < num) by (assert (0 < 10 ^ 36) by reflexivity; nia).
  pose proof (Z.div_mod num c2 ltac:(lia)) as DM.
  pose proof (Z.mod_pos_bound num c2 Hc2) as MB.
  assert (N2 : ~ (inject_Z c2 == 0)%Q) by (apply inject_Z_neq0; lia).
  assert (P2 : (0 < inject_Z c2)%Q) by (rewrite (Zlt_Qlt 0 c2) in Hc2; exact Hc2).
  destruct (Z.eqb_spec (num mod c2) 0) as [R0|R0].
  - (* terminating quotient: correctly rounded *)
    assert (EV : (qval x (num / c2) E == V)%Q).
    { rewrite QD. unfold qval. apply Qmult_comp; [|reflexivity].
      replace num with ((num / c2) * c2) at 2 by lia.
      rewrite sgn_mul, inject_Z_mult. field. exact N2. }
    destruct (fit_close_ulp x (num / c2) E V ltac:(apply Z.div_pos; lia) EV HN)
      as [HI|(HC & u & HU & HB)].
    + left. eexists; exact HI.
    + right. split; [exact HC|]. exists u. split; [exact HU|].
      eapply Qle_trans; [exact HB|]. apply half_le. apply Qlt_le_weak, (is_ulp34_pos _ _ HU).
  - (* non-terminating: sticky digit, then one rounding *)
    set (q := num / c2) in *. set (r := num mod c2) in *.
    assert (Hq36 : 10 ^ 36 <= q).
    { apply Z.div_le_lower_bound; lia. }
    assert (Hq : 0 < q) by (assert (0 < 10 ^ 36) by reflexivity; lia).
    pose proof (digits_spec q Hq) as [Lq Uq]. set (dq := digits q) in *.
    assert (Hdq : 37 <= dq).
    { assert (36 < dq); [|lia]. apply pow10_lt_inv; [|lia].
      destruct (Z_lt_le_dec dq 0); [|lia]. rewrite Z.pow_neg_r in Uq by lia. lia. }
    set (c' := q * 10 + 1).
    assert (Hc' : 0 < c') by (unfold c'; lia).
    assert (Dc' : digits c' = dq + 1).
    { apply digits_unique; [exact Hc'|]. replace (dq + 1 - 1) with dq by lia.
      rewrite Z.pow_add_r by lia. change (10 ^ 1) with 10.
      replace dq with (Z.succ (dq - 1)) at 1 by lia. rewrite Z.pow_succ_r by lia.
      unfold c'. lia. }
    (* rho = num / c2 lies strictly between q and q+1 *)
    set (rho := (inject_Z num / inject_Z c2)%Q).
    assert (R1 : (inject_Z q < rho)%Q).
    { unfold rho. apply Qlt_shift_div_l; [exact P2|].
      rewrite <- inject_Z_mult, <- Zlt_Qlt. lia. }
    assert (R2 : (rho < inject_Z (q + 1))%Q).
    { unfold rho. apply Qlt_shift_div_r; [exact P2|].
      rewrite <- inject_Z_mult, <- Zlt_Qlt. lia. }
    assert (EVr : (V == sig x * (rho * inject_Z 10 ^ E))%Q).
    { rewrite QD, sgn_Q. unfold rho. field. exact N2. }
    assert (Rpos : (0 < rho)%Q).
    { eapply Qlt_trans; [|exact R1]. change 0%Q with (inject_Z 0). rewrite <- Zlt_Qlt. exact Hq. }
    assert (AV : (Qabs V == rho * inject_Z 10 ^ E)%Q).
    { rewrite EVr, Qabs_sig. apply Qabs_pos.
      apply Qmult_le_0_compat; apply Qlt_le_weak; [exact Rpos | apply ten_pow_pos]. }
    (* the unit in the last place of V *)
    set (U := (inject_Z 10 ^ (dq + E - 34))%Q).
    assert (HU : is_ulp34 V U).
    { exists (dq - 1 + E). rewrite AV. split; [|split].
      - rewrite Qpower_plus by exact ten_neq0.
        apply Qmult_le_compat_r; [|apply Qlt_le_weak, ten_pow_pos].
        rewrite <- Zpower_Qpower by lia. apply Qlt_le_weak.
        eapply Qle_lt_trans; [|exact R1]. rewrite <- Zle_Qle. exact Lq.
      - replace (dq - 1 + E + 1) with (dq + E) by lia.
        rewrite Qpower_plus by exact ten_neq0.
        apply Qmult_lt_compat_r; [apply ten_pow_pos|].
        rewrite <- Zpower_Qpower by lia.
        eapply Qlt_le_trans; [exact R2|]. rewrite <- Zle_Qle. lia.
      - unfold U. replace (dq - 1 + E - 33) with (dq + E - 34) by lia. reflexivity. }
    (* normality transfers to the sticky coefficient *)
    assert (HNd : emin <= digits c' + (E - 1) - prec34).
    { assert (HL : (Qabs V < inject_Z 10 ^ (dq + E))%Q).
      { destruct HU as (p & _ & _ & _). rewrite AV.
        rewrite Qpower_plus by exact ten_neq0.
        apply Qmult_lt_compat_r; [apply ten_pow_pos|].
        rewrite <- Zpower_Qpower by lia.
        eapply Qlt_le_trans; [exact R2|]. rewrite <- Zle_Qle. lia. }
      assert (emin + 33 < dq + E).
      { apply (Qpower_lt_compat_l_inv (inject_Z 10)); [|reflexivity].
        eapply Qle_lt_trans; [exact HN | exact HL]. }
      rewrite Dc'. unfold prec34. lia. }
    destruct (fit_close x c' (E - 1) Hc' HNd) as [HI|(c'' & e'' & EF & HC & HB)].
    + left. eexists; exact HI.
    + right. rewrite EF. split; [exact HC|]. exists U. split; [exact HU|].
      simpl Qv. cbv iota.
      replace (digits c' + (E - 1) - prec34) with (dq + E - 34) in HB by (rewrite Dc'; unfold prec34; lia).
      fold U in HB.
      (* distance between the sticky value and the exact quotient *)
      assert (HW : (Qabs (qval x c' (E - 1) - V) <= (1 # 2) * U)%Q).
      { assert (EW : (qval x c' (E - 1) - V ==
                      sig x * ((inject_Z c' / inject_Z 10 - rho) * inject_Z 10 ^ E))%Q).
        { rewrite EVr. unfold qval. rewrite sgn_Q.
          replace (E - 1) with (E + - (1)) by lia.
          rewrite Qpower_plus by exact ten_neq0. change (inject_Z 10 ^ (- (1)))%Q with (/ inject_Z 10)%Q.
          field. }
        rewrite EW, Qabs_sig, Qabs_Qmult.
        rewrite (Qabs_pos (inject_Z 10 ^ E)) by (apply Qlt_le_weak, ten_pow_pos).
        apply Qle_trans with (1 * inject_Z 10 ^ E)%Q.
        - apply Qmult_le_compat_r; [|apply Qlt_le_weak, ten_pow_pos].
          apply Qabs_Qle_condition. split.
          + (* -1 <= c'/10 - rho  since rho < q+1 <= c'/10 + 1 *)
            apply Qle_trans with (inject_Z q - inject_Z (q + 1))%Q.
            * rewrite inject_Z_plus. simpl. ring_simplify. apply Qle_refl.
            * apply Qplus_le_compat.
              -- apply Qle_shift_div_l; [reflexivity|].
                 rewrite <- inject_Z_mult, <- Zle_Qle. unfold c'. lia.
              -- apply Qopp_le_compat. apply Qlt_le_weak. exact R2.
          + apply Qle_trans with (inject_Z (q + 1) - inject_Z q)%Q.
            * apply Qplus_le_compat.
              -- apply Qle_shift_div_r; [reflexivity|].
                 rewrite <- inject_Z_mult, <- Zle_Qle. unfold c'. lia.
              -- apply Qopp_le_compat. apply Qlt_le_weak. exact R1.
            * rewrite inject_Z_plus. simpl. ring_simplify. apply Qle_refl.
        - (* 10^E <= U/2 because the quotient carries at least 37 digits *)
          unfold U. replace (dq + E - 34) with ((dq - 34) + E) by lia.
          rewrite Qpower_plus by exact ten_neq0. rewrite Qmult_assoc.
          apply Qmult_le_compat_r; [|apply Qlt_le_weak, ten_pow_pos].
          rewrite <- Zpower_Qpower by lia.
          assert (10 ^ 3 <= 10 ^ (dq - 34)) by (apply Z.pow_le_mono_r; lia).
          apply Qle_trans with ((1 # 2) * inject_Z (10 ^ 3))%Q; [discriminate|].
          apply Qmult_le_l; [reflexivity|]. rewrite <- Zle_Qle. exact H. }
      setoid_replace (qval x c'' e'' - V)%Q
        with ((qval x c'' e'' - qval x c' (E - 1)) + (qval x c' (E - 1) - V))%Q by ring.
      eapply Qle_trans; [apply Qabs_triangle|].
      setoid_replace U with ((1 # 2) * U + (1 # 2) * U)%Q at 1 by (field).
      apply Qplus_le_compat; assumption.
Qed.
