(* C15: evaluation does not depend on the layout of Go maps.

   Go maps have no order.  The model (Json/Value.v) represents an object as an
   association list with unique keys and takes the LIST order wherever the Go
   code ranges over a map.  This file proves that this choice is harmless.

   - [veq]  "the same Go value up to map layout": objects have unique keys on
     both sides and denote related maps ([forall k, orel veq (assoc k m)
     (assoc k m')]), in any list order.  [veq_obj_intro]/[veq_obj_elim]: this
     is the formulation "same size + every member of m is found in m'".
     [veq_refl] (on wf_value), [veq_sym], [veq_trans]; [veq v v] holds exactly
     when v is well formed ([veq_wf_iff]); [veq_obj_perm].
   - [oeq]  outcomes: both Ok with [veq] values, or both an error (WHICH error
     may vary), or the same other outcome.
   - [eval_layout_independent]: for an expression that does not enumerate an
     object ([no_enum]) and whose literal maps are maps ([static_maps_wf]),
     [veq] inputs (root, current node, environment) give [oeq] outcomes.
     Covered: every node constructor and every built-in except
     NObjectValues(Current), NProjectObject(Current), keys, values, items
     (they enumerate) and to_string.
   - to_string ([jprint_veq], [eval_layout_independent_to_string]): the printed
     text is the same (keys are sorted), but when one member cannot be printed
     the model's failure depends on the layout (Err or Unmodelled,
     [to_string_layout_dependent]); [oeq_lax] relates those two.
   - the enumerating constructs give permutations of each other:
     [keys_enum], [values_enum], [items_enum], [object_values_enum],
     [keys_permutation], [project_object_enum].
   - parse-time maps: [assoc_set_last_wins], [assoc_set_other],
     [assoc_set_nodup], [assoc_fold_set].

   Why [veq] insists on unique keys: without it [equal], [length] and
   to_string are NOT invariant (they visit shadowed entries), so the relation
   would not be preserved; with it, [veq v v'] implies both are well formed and
   the theorem also shows that evaluation keeps keys unique
   ([eval_wf_value]).  The price is [static_maps_wf]: object/array literals in
   the expression are wf_value and multi-select-hash keys are distinct (the
   parser builds both with assoc_set); [static_maps_wf_needed].  *)
From Coq Require Import List ZArith Bool Lia Permutation Arith.
From JM Require Import Base.Outcome Base.Bytes Base.GoInt Base.Utf8 Num.Dec Num.Flt
  Json.Value Json.JsonPrint
  Model.Ast Model.Compare Model.NumberFns Model.Slice Model.StringFns Model.Array Model.Functions
  Model.Eval Proofs.EqualTheory Proofs.Scoping.
Import ListNotations.
Open Scope Z_scope.

(* ================================================================== *)
(* 1. association lists as maps                                         *)
(* ================================================================== *)

Lemma assoc_set_last_wins : forall {A} k (v : A) m, assoc k (assoc_set k v m) = Some v.
Proof.
  intros A k v m. induction m as [|[k' v'] r IH]; cbn [assoc_set assoc].
  - rewrite beqb_refl. reflexivity.
  - destruct (beqb k k') eqn:E; cbn [assoc]; [rewrite beqb_refl; reflexivity|].
    rewrite E. exact IH.
Qed.

Lemma assoc_set_other : forall {A} k k' (v : A) m, k <> k' -> assoc k (assoc_set k' v m) = assoc k m.
Proof.
  intros A k k' v m N. induction m as [|[k0 v0] r IH]; cbn [assoc_set assoc].
  - apply beqb_false in N. rewrite N. reflexivity.
  - destruct (beqb k' k0) eqn:E; cbn [assoc].
    + apply beqb_eq in E. subst k0. apply beqb_false in N. rewrite N. reflexivity.
    + rewrite IH. reflexivity.
Qed.

Lemma assoc_set_nodup : forall {A} k (v : A) m, nodup_keys m = true -> nodup_keys (assoc_set k v m) = true.
Proof.
  intros A k v m. induction m as [|[k' v'] r IH]; cbn [assoc_set nodup_keys assoc]; [reflexivity|].
  destruct (assoc k' r) eqn:E; [discriminate|]. intros N.
  destruct (beqb k k') eqn:B; cbn [nodup_keys].
  - apply beqb_eq in B. subst k'. rewrite E. exact N.
  - rewrite assoc_set_other; [rewrite E; apply IH; exact N|].
    intros ->. rewrite beqb_refl in B. discriminate.
Qed.

(* the map denoted by a sequence of insertions: the last binding of a key wins,
   whatever the order in which OTHER keys were inserted *)
Lemma assoc_fold_set : forall {A} k (m acc : list (bytes * A)), nodup_keys m = true ->
  assoc k (fold_left (fun acc kv => assoc_set (fst kv) (snd kv) acc) m acc) =
  match assoc k m with Some v => Some v | None => assoc k acc end.
Proof.
  intros A k m. induction m as [|[k0 v0] r IH]; intros acc N; cbn [fold_left assoc fst snd]; [reflexivity|].
  cbn [nodup_keys] in N. destruct (assoc k0 r) eqn:E; [discriminate|].
  rewrite (IH _ N). destruct (beqb k k0) eqn:B.
  - apply beqb_eq in B. subst k0. rewrite E. apply assoc_set_last_wins.
  - destruct (assoc k r); [reflexivity|]. apply assoc_set_other. apply beqb_false. exact B.
Qed.

Lemma fold_set_nodup : forall {A} (m acc : list (bytes * A)), nodup_keys acc = true ->
  nodup_keys (fold_left (fun acc kv => assoc_set (fst kv) (snd kv) acc) m acc) = true.
Proof.
  intros A m. induction m as [|[k0 v0] r IH]; intros acc N; cbn [fold_left]; [exact N|].
  apply IH. apply assoc_set_nodup. exact N.
Qed.

Lemma nodup_keys_fst : forall {A B} (m : list (bytes * A)) (m' : list (bytes * B)),
  map fst m = map fst m' -> nodup_keys m = nodup_keys m'.
Proof.
  intros A B m m' E.
  destruct (nodup_keys m) eqn:N, (nodup_keys m') eqn:N'; try reflexivity.
  - apply nodup_keys_NoDup in N. rewrite E in N. apply nodup_keys_NoDup in N. congruence.
  - apply nodup_keys_NoDup in N'. rewrite <- E in N'. apply nodup_keys_NoDup in N'. congruence.
Qed.

Fixpoint remove_key {A} (k : bytes) (m : list (bytes * A)) : list (bytes * A) :=
  match m with
  | [] => []
  | (k', v) :: r => if beqb k k' then r else (k', v) :: remove_key k r
  end.

Lemma assoc_remove_key : forall {A} k0 k (m : list (bytes * A)), nodup_keys m = true ->
  assoc k0 (remove_key k m) = if beqb k0 k then None else assoc k0 m.
Proof.
  intros A k0 k m. induction m as [|[k' v] r IH]; cbn [remove_key nodup_keys assoc].
  - destruct (beqb k0 k); reflexivity.
  - destruct (assoc k' r) eqn:E; [discriminate|]. intros N.
    destruct (beqb k k') eqn:B.
    + apply beqb_eq in B. subst k'. destruct (beqb k0 k) eqn:B0; [|reflexivity].
      apply beqb_eq in B0. subst k0. exact E.
    + cbn [assoc]. destruct (beqb k0 k') eqn:B1.
      * apply beqb_eq in B1. subst k'. rewrite beqb_sym, B. reflexivity.
      * apply IH. exact N.
Qed.

Lemma remove_key_nodup : forall {A} k (m : list (bytes * A)), nodup_keys m = true ->
  nodup_keys (remove_key k m) = true.
Proof.
  intros A k m. induction m as [|[k' v] r IH]; cbn [remove_key nodup_keys]; [reflexivity|].
  destruct (assoc k' r) eqn:E; [discriminate|]. intros N.
  destruct (beqb k k'); [exact N|]. cbn [nodup_keys].
  rewrite (assoc_remove_key _ _ _ N), E. destruct (beqb k' k); apply IH; exact N.
Qed.

Lemma remove_key_perm : forall {A} k (v : A) m, assoc k m = Some v ->
  Permutation m ((k, v) :: remove_key k m).
Proof.
  intros A k v m. induction m as [|[k' v'] r IH]; cbn [assoc remove_key]; [discriminate|].
  destruct (beqb k k') eqn:B.
  - apply beqb_eq in B. subst k'. intros H. injection H as ->. apply Permutation_refl.
  - intros H. eapply perm_trans; [apply perm_skip, IH, H|]. apply perm_swap.
Qed.

Inductive orel {A B} (R : A -> B -> Prop) : option A -> option B -> Prop :=
| orel_none : orel R None None
| orel_some a b : R a b -> orel R (Some a) (Some b).

(* two association lists denote related maps *)
Definition mrel {A B} (R : A -> B -> Prop) (m : list (bytes * A)) (m' : list (bytes * B)) : Prop :=
  forall k, orel R (assoc k m) (assoc k m').
(* two association lists are related entry by entry, in the same order *)
Definition kvrel {A B} (R : A -> B -> Prop) (a : bytes * A) (b : bytes * B) : Prop :=
  fst a = fst b /\ R (snd a) (snd b).

Lemma kvrel_mrel : forall {A B} (R : A -> B -> Prop) m m', Forall2 (kvrel R) m m' -> mrel R m m'.
Proof.
  intros A B R m m' H k. induction H as [|[k1 a] [k2 b] r r' [E Hab] H IH]; cbn [assoc]; [constructor|].
  cbn [fst snd] in E, Hab. subst k2. destruct (beqb k k1); [constructor; exact Hab|exact IH].
Qed.

(* related maps with unique keys are the same list up to a permutation *)
Lemma mrel_perm : forall {A B} (R : A -> B -> Prop) m m',
  nodup_keys m = true -> nodup_keys m' = true -> mrel R m m' ->
  exists m'', Permutation m' m'' /\ Forall2 (kvrel R) m m''.
Proof.
  intros A B R m. induction m as [|[k v] r IH]; intros m' N N' H.
  - destruct m' as [|[k v] r'].
    + exists []. split; constructor.
    + specialize (H k). cbn [assoc] in H. rewrite beqb_refl in H. inversion H.
  - pose proof (H k) as Hk. cbn [assoc] in Hk. rewrite beqb_refl in Hk.
    inversion Hk as [|a v' Hv Ea Eb]. subst a. symmetry in Eb.
    cbn [nodup_keys] in N. destruct (assoc k r) eqn:E; [discriminate|].
    destruct (IH (remove_key k m') N (remove_key_nodup k m' N')) as (m2 & P & F).
    + intros k0. rewrite (assoc_remove_key _ _ _ N'). destruct (beqb k0 k) eqn:Bk.
      * apply beqb_eq in Bk. subst k0. rewrite E. constructor.
      * specialize (H k0). cbn [assoc] in H. rewrite Bk in H. exact H.
    + exists ((k, v') :: m2). split.
      * eapply perm_trans; [apply remove_key_perm; exact Eb|]. apply perm_skip. exact P.
      * constructor; [split; [reflexivity|exact Hv]|exact F].
Qed.

Lemma Forall2_len : forall {A B} (R : A -> B -> Prop) l l', Forall2 R l l' -> length l = length l'.
Proof. induction 1; cbn [length]; congruence. Qed.

Lemma mrel_length : forall {A B} (R : A -> B -> Prop) m m',
  nodup_keys m = true -> nodup_keys m' = true -> mrel R m m' -> length m = length m'.
Proof.
  intros A B R m m' N N' H. destruct (mrel_perm R m m' N N' H) as (m2 & P & F).
  rewrite (Permutation_length P). eapply Forall2_len; exact F.
Qed.

Lemma mrel_assoc_set : forall {A B} (R : A -> B -> Prop) m m' k v v',
  mrel R m m' -> R v v' -> mrel R (assoc_set k v m) (assoc_set k v' m').
Proof.
  intros A B R m m' k v v' H Hv k0. destruct (beqb k0 k) eqn:E.
  - apply beqb_eq in E. subst k0. rewrite !assoc_set_last_wins. constructor. exact Hv.
  - apply beqb_false in E. rewrite !assoc_set_other by exact E. apply H.
Qed.

(* ================================================================== *)
(* 2. the same value up to map layout                                   *)
(* ================================================================== *)

Inductive veq : value -> value -> Prop :=
| veq_null : veq VNull VNull
| veq_bool b : veq (VBool b) (VBool b)
| veq_str s : veq (VStr s) (VStr s)
| veq_num n : veq (VNum n) (VNum n)
| veq_foreign t : veq (VForeign t) (VForeign t)
| veq_arr l l' : Forall2 veq l l' -> veq (VArr l) (VArr l')
| veq_obj m m' : nodup_keys m = true -> nodup_keys m' = true ->
    (forall k, orel veq (assoc k m) (assoc k m')) -> veq (VObj m) (VObj m').

Lemma Forall_assoc : forall {A} (P : A -> Prop) (m : list (bytes * A)) k v,
  Forall (fun kv => P (snd kv)) m -> assoc k m = Some v -> P v.
Proof.
  intros A P m k v F H. apply assoc_in in H. rewrite Forall_forall in F. apply (F (k, v) H).
Qed.

Theorem veq_refl : forall v, wf_value v = true -> veq v v.
Proof.
  induction v as [| | | |l IH|m IH|] using value_ind'; intros W; try constructor.
  - apply wf_arr in W. induction IH as [|x r Hx Hr IHr]; constructor.
    + apply Hx. exact (Forall_inv W).
    + apply IHr. exact (Forall_inv_tail W).
  - apply wf_obj in W. apply W.
  - apply wf_obj in W. apply W.
  - apply wf_obj in W as [_ W]. intros k. destruct (assoc k m) as [x|] eqn:E; constructor.
    apply (Forall_assoc (fun x => wf_value x = true -> veq x x) _ _ _ IH E). apply (Forall_assoc (fun x => wf_value x = true) _ _ _ W E).
Qed.

Theorem veq_sym : forall v v', veq v v' -> veq v' v.
Proof.
  induction v as [| | | |l IH|m IH|] using value_ind'; intros v' H; inversion H; subst; try constructor; try assumption.
  - match goal with HF : Forall2 veq l _ |- _ => induction HF as [|x y r r' Hxy F IHF] end; constructor.
    + apply (Forall_inv IH). exact Hxy.
    + apply IHF; [exact (Forall_inv_tail IH)|]. constructor. exact F.
  - intros k. match goal with Hm : forall k, orel veq _ _ |- _ => specialize (Hm k); inversion Hm as [|a b Hab Ea Eb] end;
      constructor. symmetry in Ea. apply (Forall_assoc (fun v => forall v', veq v v' -> veq v' v) _ _ _ IH Ea). exact Hab.
Qed.

Theorem veq_trans : forall v1 v2 v3, veq v1 v2 -> veq v2 v3 -> veq v1 v3.
Proof.
  induction v1 as [| | | |l IH|m IH|] using value_ind'; intros v2 v3 H1 H2; inversion H1; subst;
    inversion H2; subst; try constructor; try assumption.
  - clear H1 H2. match goal with F : Forall2 veq l _ |- _ => rename F into F1 end.
    match goal with F : Forall2 veq _ ?l3 |- Forall2 veq l ?l3 => rename F into F2; revert l3 F2 end.
    induction F1 as [|x y r r' Hxy F1 IHF]; intros l3 F2; inversion F2; subst; constructor.
    + eapply (Forall_inv IH); eassumption.
    + apply IHF; [exact (Forall_inv_tail IH)|assumption].
  - intros k.
    repeat match goal with Hm : forall k, orel veq _ _ |- _ => specialize (Hm k) end.
    match goal with
    | Ha : orel veq (assoc k m) ?o, Hb : orel veq ?o _ |- _ =>
      inversion Ha as [|a b Hab Ea Eb]; rewrite <- ?Eb in Hb; inversion Hb as [|b' c Hbc Eb' Ec]; subst;
        try congruence; constructor
    end.
    symmetry in Ea. eapply (Forall_assoc (fun v1 => forall v2 v3, veq v1 v2 -> veq v2 v3 -> veq v1 v3) _ _ _ IH Ea); [exact Hab|]. congruence.
Qed.

(* related values are well formed: [veq] is an equivalence exactly on wf_value *)
Lemma veq_wf_l : forall v v', veq v v' -> wf_value v = true.
Proof.
  induction v as [| | | |l IH|m IH|] using value_ind'; intros v' H; inversion H; subst; try reflexivity.
  - apply wf_arr. match goal with HF : Forall2 veq l _ |- _ => induction HF as [|x y r r' Hxy F IHF] end; constructor.
    + eapply (Forall_inv IH); exact Hxy.
    + apply IHF; [exact (Forall_inv_tail IH)|]. constructor. exact F.
  - apply wf_obj. split; [assumption|]. apply Forall_forall. intros [k x] Hin.
    match goal with N : nodup_keys m = true |- _ => pose proof (in_assoc k x m N Hin) as E end.
    match goal with Hm : forall k, orel veq _ _ |- _ => specialize (Hm k); rewrite E in Hm; inversion Hm; subst end.
    eapply (Forall_assoc (fun v => forall v', veq v v' -> wf_value v = true) _ _ _ IH E). eassumption.
Qed.
Lemma veq_wf_r : forall v v', veq v v' -> wf_value v' = true.
Proof. intros v v' H. apply veq_sym in H. eapply veq_wf_l; exact H. Qed.
Lemma veq_wf_iff : forall v, veq v v <-> wf_value v = true.
Proof. intros v; split; [apply veq_wf_l|apply veq_refl]. Qed.

(* the formulation with one inclusion and equal sizes is equivalent *)
Lemma mrel_of_incl : forall {A B} (R : A -> B -> Prop) m m',
  nodup_keys m = true -> nodup_keys m' = true -> length m = length m' ->
  (forall k v, assoc k m = Some v -> exists v', assoc k m' = Some v' /\ R v v') -> mrel R m m'.
Proof.
  intros A B R m. induction m as [|[k v] r IH]; intros m' N N' L H k0.
  - destruct m'; [constructor|discriminate].
  - destruct (H k v) as (v' & Ev' & Hv); [cbn [assoc]; rewrite beqb_refl; reflexivity|].
    cbn [nodup_keys] in N. destruct (assoc k r) eqn:E; [discriminate|].
    assert (IH' : mrel R r (remove_key k m')).
    { apply IH; [exact N|apply remove_key_nodup; exact N'| |].
      - pose proof (Permutation_length (remove_key_perm _ _ _ Ev')) as PL. cbn [length] in L, PL. lia.
      - intros k1 v1 E1. rewrite (assoc_remove_key _ _ _ N').
        destruct (beqb k1 k) eqn:Bk; [apply beqb_eq in Bk; congruence|].
        apply H. cbn [assoc]. rewrite Bk. exact E1. }
    cbn [assoc]. destruct (beqb k0 k) eqn:Bk.
    + apply beqb_eq in Bk. subst k0. rewrite Ev'. constructor. exact Hv.
    + specialize (IH' k0). rewrite (assoc_remove_key _ _ _ N'), Bk in IH'. exact IH'.
Qed.

Lemma veq_obj_intro : forall m m', nodup_keys m = true -> nodup_keys m' = true -> length m = length m' ->
  (forall k v, assoc k m = Some v -> exists v', assoc k m' = Some v' /\ veq v v') -> veq (VObj m) (VObj m').
Proof. intros m m' N N' L H. constructor; try assumption. apply mrel_of_incl; assumption. Qed.

Lemma veq_obj_elim : forall m m', veq (VObj m) (VObj m') ->
  nodup_keys m = true /\ nodup_keys m' = true /\ length m = length m' /\
  (forall k v, assoc k m = Some v -> exists v', assoc k m' = Some v' /\ veq v v').
Proof.
  intros m m' H. inversion H as [| | | | | |? ? N N' Hm]; subst. repeat split; try assumption.
  - eapply mrel_length; eassumption.
  - intros k v E. specialize (Hm k). rewrite E in Hm. inversion Hm; subst. eauto.
Qed.

(* a permutation of the members is the same value *)
Lemma veq_obj_perm : forall m m', wf_value (VObj m) = true -> Permutation m m' -> veq (VObj m) (VObj m').
Proof.
  intros m m' W P. pose proof W as W0. apply wf_obj in W as [N W].
  assert (N' : nodup_keys m' = true).
  { apply nodup_keys_NoDup. eapply Permutation_NoDup; [apply Permutation_map; exact P|].
    apply nodup_keys_NoDup; exact N. }
  constructor; try assumption. intros k. destruct (assoc k m) as [x|] eqn:E.
  - rewrite (in_assoc k x m' N' (Permutation_in _ P (assoc_in _ _ _ E))). constructor.
    apply veq_refl. apply (Forall_assoc (fun x => wf_value x = true) _ _ _ W E).
  - destruct (assoc k m') as [x|] eqn:E'; [|constructor].
    apply assoc_in in E'. apply (Permutation_in _ (Permutation_sym P)) in E'.
    rewrite (in_assoc k x m N E') in E. discriminate.
Qed.

(* ================================================================== *)
(* 3. outcomes                                                          *)
(* ================================================================== *)

(* [lax = false]: the relation of the main theorem.  [lax = true] additionally
   relates an error with "the model does not determine the result"; it is only
   needed for to_string of an object (section 5, [to_string_layout_dependent]). *)
Definition orelO (lax : bool) {A B} (R : A -> B -> Prop) (o : outcome A) (o' : outcome B) : Prop :=
  match o, o' with
  | Ok a, Ok b => R a b
  | Err _, Err _ => True
  | Panic p, Panic q => p = q
  | OutOfFuel, OutOfFuel => True
  | Unmodelled, Unmodelled => True
  | Err _, Unmodelled | Unmodelled, Err _ => lax = true
  | _, _ => False
  end.

Section Layout.
Variable lax : bool.
Notation orelL := (orelO lax).
Notation oeqL := (orelO lax veq).

Lemma orelO_bind : forall {A A' B B'} (RA : A -> A' -> Prop) (RB : B -> B' -> Prop) o o' f f',
  orelL RA o o' -> (forall a a', RA a a' -> orelL RB (f a) (f' a')) -> orelL RB (bind o f) (bind o' f').
Proof. intros A A' B B' RA RB o o' f f' H Hf. destruct o, o'; cbn in *; try contradiction; auto. Qed.

Lemma orelO_eq_refl : forall {A} (o : outcome A), orelL eq o o.
Proof. destruct o; cbn; auto. Qed.

Lemma orelO_of_eq : forall {A} (o o' : outcome A), o = o' -> orelL eq o o'.
Proof. intros A o o' <-. apply orelO_eq_refl. Qed.

Lemma orelO_bind_same : forall {A B B'} (RB : B -> B' -> Prop) (o : outcome A) f f',
  (forall a, orelL RB (f a) (f' a)) -> orelL RB (bind o f) (bind o f').
Proof.
  intros A B B' RB o f f' H. eapply orelO_bind; [apply orelO_eq_refl|]. intros a a' <-. apply H.
Qed.

Lemma orelO_mono : forall {A B} (R R' : A -> B -> Prop) o o',
  (forall a b, R a b -> R' a b) -> orelL R o o' -> orelL R' o o'.
Proof. intros A B R R' o o' H. destruct o, o'; cbn; auto. Qed.

(* ---- lists ---- *)
Section F2.
  Context {A B : Type} (R : A -> B -> Prop).
  Lemma F2_rev : forall l l', Forall2 R l l' -> Forall2 R (rev l) (rev l').
  Proof. induction 1; cbn [rev]; [constructor|]. apply Forall2_app; [assumption|repeat constructor; assumption]. Qed.
  Lemma F2_firstn : forall n l l', Forall2 R l l' -> Forall2 R (firstn n l) (firstn n l').
  Proof. induction n; intros l l' H; [constructor|]. destruct H; cbn [firstn]; constructor; auto. Qed.
  Lemma F2_skipn : forall n l l', Forall2 R l l' -> Forall2 R (skipn n l) (skipn n l').
  Proof. induction n; intros l l' H; [exact H|]. destruct H; cbn [skipn]; [constructor|auto]. Qed.
  Lemma F2_nth : forall n l l' d d', Forall2 R l l' -> R d d' -> R (nth n l d) (nth n l' d').
  Proof. induction n; intros l l' d d' H Hd; destruct H; cbn [nth]; auto. Qed.
  Lemma F2_nth_error : forall n l l', Forall2 R l l' -> orel R (nth_error l n) (nth_error l' n).
  Proof. induction n; intros l l' H; destruct H; cbn [nth_error]; try constructor; auto. Qed.
  Lemma F2_filter : forall p p' l l', (forall a b, R a b -> p a = p' b) -> Forall2 R l l' ->
    Forall2 R (filter p l) (filter p' l').
  Proof.
    intros p p' l l' Hp. induction 1 as [|a b r r' Hab H IH]; cbn [filter]; [constructor|].
    rewrite (Hp a b Hab). destruct (p' b); [constructor|]; assumption.
  Qed.
  Lemma F2_flat_map : forall {C D} (S : C -> D -> Prop) f f' l l',
    (forall a b, R a b -> Forall2 S (f a) (f' b)) -> Forall2 R l l' -> Forall2 S (flat_map f l) (flat_map f' l').
  Proof.
    intros C D S f f' l l' Hf. induction 1; cbn [flat_map]; [constructor|]. apply Forall2_app; auto.
  Qed.
  Lemma F2_map : forall {C D} (S : C -> D -> Prop) f f' l l',
    (forall a b, R a b -> S (f a) (f' b)) -> Forall2 R l l' -> Forall2 S (map f l) (map f' l').
  Proof. intros C D S f f' l l' Hf. induction 1; cbn [map]; constructor; auto. Qed.
End F2.

Lemma F2_combine : forall {A B C D} (R : A -> B -> Prop) (S : C -> D -> Prop) l l' k k',
  Forall2 R l l' -> Forall2 S k k' ->
  Forall2 (fun p q => R (fst p) (fst q) /\ S (snd p) (snd q)) (combine l k) (combine l' k').
Proof.
  intros A B C D R S l l' k k' H. revert k k'. induction H; intros k k' Hk; cbn [combine]; [constructor|].
  destruct Hk; constructor; auto.
Qed.

Lemma F2_eq : forall {A} (l l' : list A), Forall2 eq l l' -> l = l'.
Proof. induction 1; congruence. Qed.
Lemma F2_refl : forall {A} (R : A -> A -> Prop) l, (forall a, R a a) -> Forall2 R l l.
Proof. intros A R l H. induction l; constructor; auto. Qed.

Lemma zlen_F2 : forall {A B} (R : A -> B -> Prop) l l', Forall2 R l l' -> zlen l = zlen l'.
Proof. intros A B R l l' H. unfold zlen. rewrite (Forall2_len R l l' H). reflexivity. Qed.

(* ================================================================== *)
(* 4. helpers that do not call back into the evaluator                  *)
(* ================================================================== *)

(* a function that does not look inside arrays and objects *)
Lemma veq_scalar : forall {T} (f : value -> T) v v', veq v v' ->
  (forall l l', f (VArr l) = f (VArr l')) -> (forall m m', f (VObj m) = f (VObj m')) -> f v = f v'.
Proof. intros T f v v' H Ha Ho. inversion H; auto. Qed.

Lemma str_arg_veq : forall v v', veq v v' -> str_arg v = str_arg v'.
Proof. intros v v' H. apply (veq_scalar str_arg _ _ H); reflexivity. Qed.
Lemma to_decimal_veq : forall v v', veq v v' -> to_decimal v = to_decimal v'.
Proof. intros v v' H. apply (veq_scalar to_decimal _ _ H); reflexivity. Qed.
Lemma to_float_veq : forall v v', veq v v' -> to_float v = to_float v'.
Proof. intros v v' H. apply (veq_scalar to_float _ _ H); reflexivity. Qed.
Lemma to_int_veq : forall v v', veq v v' -> to_int v = to_int v'.
Proof. intros v v' H. apply (veq_scalar to_int _ _ H); reflexivity. Qed.
Lemma int_arg_veq : forall v v', veq v v' -> int_arg v = int_arg v'.
Proof. intros v v' H. apply (veq_scalar int_arg _ _ H); reflexivity. Qed.
Lemma is_number_veq : forall v v', veq v v' -> is_number v = is_number v'.
Proof. intros v v' H. apply (veq_scalar is_number _ _ H); reflexivity. Qed.
Lemma is_null_veq : forall v v', veq v v' -> Array.is_null v = Array.is_null v'.
Proof. intros v v' H. apply (veq_scalar Array.is_null _ _ H); reflexivity. Qed.

Lemma veq_map_str : forall l, veq (VArr (map VStr l)) (VArr (map VStr l)).
Proof. intros l. constructor. induction l; cbn [map]; constructor; [constructor|assumption]. Qed.

Lemma is_true_veq : forall v v', veq v v' -> is_true v = is_true v'.
Proof.
  intros v v' H. inversion H as [| | | | |l l' F|m m' N N' Hm]; subst; try reflexivity.
  - destruct F; reflexivity.
  - pose proof (mrel_length veq m m' N N' Hm) as L. destruct m, m'; try discriminate; reflexivity.
Qed.

Ltac veq_leaf := first [assumption | apply veq_map_str | solve [repeat constructor]].
(* both sides are the same computation, up to related leaves *)
Ltac same :=
  repeat first
    [ apply orelO_bind_same; intros ?
    | match goal with
      | |- orelO _ _ (match ?x with _ => _ end) (match ?x with _ => _ end) => destruct x
      end ];
  cbn [orelO]; try exact I; try reflexivity; try veq_leaf.

(* ---- numbers ---- *)
Lemma arith_veq : forall fop dop x x' y y', veq x x' -> veq y y' ->
  oeqL (arith fop dop x y) (arith fop dop x' y').
Proof.
  intros fop dop x x' y y' Hx Hy. unfold arith, ftrap, trap.
  rewrite (to_float_veq _ _ Hx), (to_float_veq _ _ Hy), (to_decimal_veq _ _ Hx), (to_decimal_veq _ _ Hy).
  same.
Qed.
Lemma integer_divide_veq : forall x x' y y', veq x x' -> veq y y' ->
  oeqL (integer_divide x y) (integer_divide x' y').
Proof.
  intros x x' y y' Hx Hy. unfold integer_divide, ftrap.
  rewrite (to_float_veq _ _ Hx), (to_float_veq _ _ Hy), (to_decimal_veq _ _ Hx), (to_decimal_veq _ _ Hy).
  same.
Qed.
Lemma modulo_veq : forall x x' y y', veq x x' -> veq y y' -> oeqL (modulo x y) (modulo x' y').
Proof.
  intros x x' y y' Hx Hy. unfold modulo, ftrap, trap.
  rewrite (to_float_veq _ _ Hx), (to_float_veq _ _ Hy), (to_decimal_veq _ _ Hx), (to_decimal_veq _ _ Hy).
  same.
Qed.
Lemma num1_veq : forall fop dop x x', veq x x' -> oeqL (num1 fop dop x) (num1 fop dop x').
Proof.
  intros fop dop x x' Hx. unfold num1. rewrite (to_float_veq _ _ Hx), (to_decimal_veq _ _ Hx). same.
Qed.
Lemma negate_veq : forall x x', veq x x' -> veq (negate x) (negate x').
Proof.
  intros x x' Hx. unfold negate. rewrite (to_float_veq _ _ Hx), (to_decimal_veq _ _ Hx).
  repeat match goal with |- veq (match ?c with _ => _ end) _ => destruct c end; constructor.
Qed.
Lemma cmp_op_veq : forall f x x' y y', veq x x' -> veq y y' -> veq (cmp_op f x y) (cmp_op f x' y').
Proof.
  intros f x x' y y' Hx Hy. unfold cmp_op. rewrite (to_decimal_veq _ _ Hx), (to_decimal_veq _ _ Hy).
  repeat match goal with |- veq (match ?c with _ => _ end) _ => destruct c end; constructor.
Qed.

Lemma sum_loop_veq : forall l l', Forall2 veq l l' ->
  forall total special finite, sum_loop l total special finite = sum_loop l' total special finite.
Proof.
  induction 1 as [|a b l l' Hab H IH]; intros total special finite; cbn [sum_loop]; [reflexivity|].
  rewrite (to_decimal_veq _ _ Hab). destruct (to_decimal b) as [d|]; [|reflexivity].
  cbv zeta. destruct (finite && is_fin d); apply IH.
Qed.
Lemma sum_veq : forall x x', veq x x' -> oeqL (sum x) (sum x').
Proof.
  intros x x' H. inversion H as [| | | | |l l' F|]; subst; cbn [sum]; try exact I.
  rewrite (sum_loop_veq _ _ F). unfold trap. same.
Qed.
Lemma avg_veq : forall x x', veq x x' -> oeqL (avg x) (avg x').
Proof.
  intros x x' H. inversion H as [| | | | |l l' F|]; subst; cbn [avg]; try exact I.
  pose proof (Forall2_len _ _ _ F) as L. pose proof (sum_loop_veq _ _ F) as S.
  destruct F as [|a b l l' Hab F]; [constructor|]. rewrite S, L. unfold trap. same.
Qed.

(* ---- equality: == takes the same branch on related values ---- *)
Lemma bool_eq_iff : forall a b : bool, (a = true <-> b = true) -> a = b.
Proof. intros [] [] [H1 H2]; try reflexivity; [symmetry; apply H1; reflexivity|apply H2; reflexivity]. Qed.

Theorem equal_veq : forall x x' y y', veq x x' -> veq y y' -> equal x y = equal x' y'.
Proof.
  induction x as [| | |n|l IH|m IH|] using value_ind'; intros x' y y' Hx Hy;
    inversion Hx as [| | | | |? a' Fl|? a' Na Na' Ha]; subst.
  - inversion Hy; reflexivity.
  - inversion Hy; reflexivity.
  - inversion Hy; reflexivity.
  - cbn [equal]. rewrite (to_decimal_veq _ _ Hy). destruct n; inversion Hy; reflexivity.
  - inversion Hy as [| | | | |c c' Fc|]; subst; try reflexivity.
    rewrite !equal_arr. clear Hx Hy. revert c c' Fc. induction Fl as [|a b r r' Hab Fl IHl]; intros c c' Fc.
    + destruct Fc; reflexivity.
    + destruct Fc as [|u v c c' Huv Fc]; cbn [arr_eq]; [reflexivity|].
      rewrite (Forall_inv IH _ _ _ Hab Huv). f_equal. apply IHl; [exact (Forall_inv_tail IH)|exact Fc].
  - inversion Hy as [| | | | | |c c' Nc Nc' Hc]; subst; try reflexivity.
    rewrite !equal_obj.
    rewrite (mrel_length veq m a' Na Na' Ha), (mrel_length veq c c' Nc Nc' Hc). f_equal.
    apply bool_eq_iff. rewrite !obj_sub_spec. split.
    + intros H k u' Hin. pose proof (in_assoc _ _ _ Na' Hin) as E'.
      pose proof (Ha k) as Hk. rewrite E' in Hk. inversion Hk as [|u u0 Hu Eu Eu0]; subst. symmetry in Eu.
      destruct (H k u (assoc_in _ _ _ Eu)) as (v & Ev & Huv).
      pose proof (Hc k) as Hck. rewrite Ev in Hck. inversion Hck as [|v0 v' Hv Ev0 Ev']; subst.
      exists v'. split; [reflexivity|].
      rewrite <- (Forall_assoc (fun x => forall x' y y', veq x x' -> veq y y' -> equal x y = equal x' y')
                    _ _ _ IH Eu _ _ _ Hu Hv). exact Huv.
    + intros H k u Hin. pose proof (in_assoc _ _ _ Na Hin) as E.
      pose proof (Ha k) as Hk. rewrite E in Hk. inversion Hk as [|u0 u' Hu Eu0 Eu']; subst. symmetry in Eu'.
      destruct (H k u' (assoc_in _ _ _ Eu')) as (v' & Ev' & Huv).
      pose proof (Hc k) as Hck. rewrite Ev' in Hck. inversion Hck as [|v v0 Hv Ev Ev0]; subst.
      exists v. split; [reflexivity|].
      rewrite (Forall_assoc (fun x => forall x' y y', veq x x' -> veq y y' -> equal x y = equal x' y')
                    _ _ _ IH E _ _ _ Hu Hv). exact Huv.
  - inversion Hy; reflexivity.
Qed.

(* ---- maps under construction ---- *)
Definition mwf (m m' : list (bytes * value)) : Prop :=
  nodup_keys m = true /\ nodup_keys m' = true /\ mrel veq m m'.
Lemma mwf_nil : mwf [] [].
Proof. repeat split. intros k. constructor. Qed.
Lemma mwf_veq : forall m m', mwf m m' -> veq (VObj m) (VObj m').
Proof. intros m m' (N & N' & H). constructor; assumption. Qed.
Lemma mwf_set : forall m m' k v v', mwf m m' -> veq v v' -> mwf (assoc_set k v m) (assoc_set k v' m').
Proof.
  intros m m' k v v' (N & N' & H) Hv. repeat split; try (apply assoc_set_nodup; assumption).
  apply mrel_assoc_set; assumption.
Qed.
Lemma veq_mwf : forall m m', veq (VObj m) (VObj m') -> mwf m m'.
Proof. intros m m' H. inversion H; subst. repeat split; assumption. Qed.

(* ---- arrays ---- *)
Lemma veq_arr_inv : forall l v', veq (VArr l) v' -> exists l', v' = VArr l' /\ Forall2 veq l l'.
Proof. intros l v' H. inversion H; subst. eauto. Qed.

Lemma all_strings_veq : forall l l', Forall2 veq l l' -> all_strings l = all_strings l'.
Proof.
  induction 1 as [|a b l l' Hab H IH]; [reflexivity|]. inversion Hab; subst; cbn [all_strings]; try reflexivity.
  rewrite IH. reflexivity.
Qed.
Lemma all_decimals_veq : forall l l', Forall2 veq l l' -> all_decimals l = all_decimals l'.
Proof.
  induction 1 as [|a b l l' Hab H IH]; [reflexivity|]. cbn [all_decimals].
  rewrite (to_decimal_veq _ _ Hab), IH. reflexivity.
Qed.
Lemma all_decimals_len : forall l ds, all_decimals l = Some ds -> length ds = length l.
Proof.
  induction l as [|v r IH]; intros ds H; cbn [all_decimals] in H.
  - injection H as <-. reflexivity.
  - destruct (to_decimal v); [|discriminate]. destruct (all_decimals r) as [ds0|]; [|discriminate].
    injection H as <-. cbn [length]. rewrite (IH ds0 eq_refl). reflexivity.
Qed.

Section SortRel.
  Context {A B : Type} (R : A -> B -> Prop) (le : A -> A -> bool) (le' : B -> B -> bool).
  Hypothesis Hle : forall a b a' b', R a a' -> R b b' -> le a b = le' a' b'.
  Lemma insert_after_rel : forall x x' l l', R x x' -> Forall2 R l l' ->
    Forall2 R (insert_after le x l) (insert_after le' x' l').
  Proof.
    intros x x' l l' Hx. induction 1 as [|a b r r' Hab H IH]; cbn [insert_after]; [repeat constructor; exact Hx|].
    rewrite (Hle _ _ _ _ Hab Hx). destruct (le' b x'); repeat constructor; assumption.
  Qed.
  Lemma stable_sort_rel : forall l l', Forall2 R l l' -> Forall2 R (stable_sort le l) (stable_sort le' l').
  Proof.
    unfold stable_sort. intros l l' H.
    assert (G : forall acc acc', Forall2 R acc acc' ->
                Forall2 R (fold_left (fun acc x => insert_after le x acc) l acc)
                          (fold_left (fun acc x => insert_after le' x acc) l' acc')).
    { induction H as [|a b r r' Hab H IH]; intros acc acc' Hacc; cbn [fold_left]; [exact Hacc|].
      apply IH. apply insert_after_rel; assumption. }
    apply G. constructor.
  Qed.
End SortRel.

Definition prel {K} (p q : value * K) : Prop := veq (fst p) (fst q) /\ snd p = snd q.
Lemma prel_combine : forall {K} l l' (ks : list K), Forall2 veq l l' -> Forall2 prel (combine l ks) (combine l' ks).
Proof. intros K l l' ks H. apply (F2_combine veq eq); [exact H|apply F2_refl; reflexivity]. Qed.
Lemma prel_sorted : forall {K} (le : K -> K -> bool) l l' (ks : list K), Forall2 veq l l' ->
  Forall2 veq (map fst (stable_sort (fun x y => le (snd x) (snd y)) (combine l ks)))
              (map fst (stable_sort (fun x y => le (snd x) (snd y)) (combine l' ks))).
Proof.
  intros K le l l' ks H. apply (F2_map prel veq); [intros a b Hab; apply Hab|].
  apply (stable_sort_rel prel); [|apply prel_combine; exact H].
  intros a b a' b' [_ E1] [_ E2]. rewrite E1, E2. reflexivity.
Qed.

Lemma sort_array_veq : forall x x', veq x x' -> oeqL (sort_array x) (sort_array x').
Proof.
  intros x x' H. inversion H as [| | | | |l l' F|]; subst; cbn [sort_array]; try exact I.
  pose proof (all_strings_veq _ _ F) as ES. pose proof (all_decimals_veq _ _ F) as ED.
  destruct F as [|a b l l' Hab F]; [constructor; constructor|].
  assert (D : oeqL match all_decimals (a :: l) with
                   | Some ds => Ok (VArr (map fst (stable_sort (fun x y => dec_leb (snd x) (snd y)) (combine (a :: l) ds))))
                   | None => Err EInvalidType end
                   match all_decimals (b :: l') with
                   | Some ds => Ok (VArr (map fst (stable_sort (fun x y => dec_leb (snd x) (snd y)) (combine (b :: l') ds))))
                   | None => Err EInvalidType end).
  { rewrite ED. destruct (all_decimals (b :: l')); [|exact I]. cbn [orelO]. constructor.
    apply prel_sorted. constructor; assumption. }
  inversion Hab; subst; try exact D.
  rewrite ES. destruct (all_strings (VStr s :: l')); [|exact I]. cbn [orelO]. apply veq_map_str.
Qed.

Lemma extreme_str_veq : forall gt l l', Forall2 veq l l' -> forall best, extreme_str gt best l = extreme_str gt best l'.
Proof.
  intros gt. induction 1 as [|a b l l' Hab H IH]; intros best; [reflexivity|].
  inversion Hab; subst; cbn [extreme_str]; try reflexivity. apply IH.
Qed.
Lemma extreme_dec_veq : forall gt l l', Forall2 veq l l' -> forall best, extreme_dec gt best l = extreme_dec gt best l'.
Proof.
  intros gt. induction 1 as [|a b l l' Hab H IH]; intros best; [reflexivity|]. cbn [extreme_dec].
  rewrite (to_decimal_veq _ _ Hab). destruct (to_decimal b); [apply IH|reflexivity].
Qed.
Lemma array_extreme_veq : forall gt x x', veq x x' -> oeqL (array_extreme gt x) (array_extreme gt x').
Proof.
  intros gt x x' H. inversion H as [| | | | |l l' F|]; subst; cbn [array_extreme]; try exact I.
  destruct F as [|a b l l' Hab F]; [constructor|].
  inversion Hab; subst; cbn [array_extreme to_decimal]; try exact I;
    rewrite ?(extreme_str_veq gt _ _ F); same; rewrite ?(extreme_dec_veq gt _ _ F); same.
Qed.

Lemma length_veq : forall x x', veq x x' -> oeqL (length_ x) (length_ x').
Proof.
  intros x x' H. inversion H as [| | | | |l l' F|m m' N N' Hm]; subst; cbn [length_]; try exact I; same.
  - rewrite (zlen_F2 _ _ _ F). constructor.
  - unfold zlen. rewrite (mrel_length veq m m' N N' Hm). constructor.
Qed.
Lemma lower_veq : forall x x', veq x x' -> oeqL (lower x) (lower x').
Proof. intros x x' H. inversion H; subst; cbn [lower]; try exact I. same. Qed.
Lemma upper_veq : forall x x', veq x x' -> oeqL (upper x) (upper x').
Proof. intros x x' H. inversion H; subst; cbn [upper]; try exact I. same. Qed.
Lemma reverse_veq : forall x x', veq x x' -> oeqL (reverse x) (reverse x').
Proof.
  intros x x' H. inversion H; subst; cbn [reverse orelO]; try exact I; constructor. apply F2_rev. assumption.
Qed.
Lemma to_array_veq : forall x x', veq x x' -> veq (to_array x) (to_array x').
Proof. intros x x' H. inversion H; subst; cbn [to_array]; try exact H; repeat constructor; assumption. Qed.
Lemma to_number_veq : forall x x', veq x x' -> veq (to_number x) (to_number x').
Proof.
  intros x x' H. inversion H; subst; cbn [to_number]; try constructor.
  repeat match goal with |- veq (match ?c with _ => _ end) _ => destruct c end; constructor.
Qed.
Lemma type_name_veq : forall x x', veq x x' -> oeqL (type_name x) (type_name x').
Proof. intros x x' H. inversion H; subst; cbn [type_name orelO]; try exact I; constructor. Qed.

Lemma existsb_equal_veq : forall l l' y y', Forall2 veq l l' -> veq y y' ->
  existsb (fun xi => equal xi y) l = existsb (fun xi => equal xi y') l'.
Proof.
  intros l l' y y' F Hy. induction F as [|a b l l' Hab F IH]; cbn [existsb]; [reflexivity|].
  rewrite (equal_veq _ _ _ _ Hab Hy), IH. reflexivity.
Qed.
Lemma contains_veq : forall x x' y y', veq x x' -> veq y y' -> oeqL (contains x y) (contains x' y').
Proof.
  intros x x' y y' Hx Hy. inversion Hx as [| | | | |l l' F|]; subst; cbn [contains]; try exact I.
  - inversion Hy; subst; cbn [orelO]; constructor.
  - cbn [orelO]. rewrite (existsb_equal_veq _ _ _ _ F Hy). constructor.
Qed.

Lemma join_loop_veq : forall s l l', Forall2 veq l l' -> join_loop s l = join_loop s l'.
Proof.
  intros s. induction 1 as [|a b l l' Hab H IH]; [reflexivity|]. cbn [join_loop].
  rewrite (str_arg_veq _ _ Hab), IH. reflexivity.
Qed.
Lemma join_veq : forall x x' y y', veq x x' -> veq y y' -> oeqL (join x y) (join x' y').
Proof.
  intros x x' y y' Hx Hy. inversion Hy as [| | | | |l l' F|]; subst; cbn [join]; try exact I.
  rewrite (str_arg_veq _ _ Hx). destruct F as [|a b l l' Hab F]; [same|].
  rewrite (str_arg_veq _ _ Hab). apply orelO_bind_same. intros s.
  rewrite (join_loop_veq s _ _ F). same.
Qed.

Lemma from_items_loop_veq : forall l l', Forall2 veq l l' -> forall acc acc', mwf acc acc' ->
  orelL mwf (from_items_loop l acc) (from_items_loop l' acc').
Proof.
  induction 1 as [|a b l l' Hab H IH]; intros acc acc' Hacc; [exact Hacc|].
  inversion Hab as [| | | | |ia ia' F|]; subst; cbn [from_items_loop]; try exact I.
  destruct F as [|k k' ia ia' Hk F]; [exact I|]. destruct F as [|x x' ia ia' Hx F]; [exact I|].
  destruct F; [|exact I].
  inversion Hk; subst; try exact I. apply IH. apply mwf_set; assumption.
Qed.
Lemma forallb_is_arr_veq : forall l l', Forall2 veq l l' -> forallb is_arr l = forallb is_arr l'.
Proof.
  induction 1 as [|a b l l' Hab _ IH]; [reflexivity|]. cbn [forallb]. rewrite IH. f_equal.
  inversion Hab; reflexivity.
Qed.
Lemma from_items_veq : forall x x', veq x x' -> oeqL (from_items x) (from_items x').
Proof.
  intros x x' H. inversion H as [| | | | |l l' F|]; subst; cbn [from_items]; try exact I.
  rewrite (forallb_is_arr_veq _ _ F). destruct (forallb is_arr l'); [|exact I].
  eapply orelO_bind; [apply from_items_loop_veq; [exact F|apply mwf_nil]|].
  intros m m' Hm. apply mwf_veq. exact Hm.
Qed.

Lemma drop_nulls_veq : forall l l', Forall2 veq l l' -> Forall2 veq (drop_nulls l) (drop_nulls l').
Proof.
  intros l l' F. unfold drop_nulls. apply (F2_filter veq); [|exact F].
  intros a b Hab. rewrite (is_null_veq _ _ Hab). reflexivity.
Qed.
Lemma flatten_veq : forall x x', veq x x' -> veq (flatten x) (flatten x').
Proof.
  intros x x' H. inversion H as [| | | | |l l' F|]; subst; cbn [flatten]; try constructor.
  apply (F2_flat_map veq veq); [|exact F].
  intros a b Hab. inversion Hab; subst; try (repeat constructor; assumption).
  apply drop_nulls_veq. assumption.
Qed.
Lemma prune_array_veq : forall x x', veq x x' -> veq (prune_array x) (prune_array x').
Proof.
  intros x x' H. inversion H as [| | | | |l l' F|]; subst; cbn [prune_array]; try constructor.
  apply drop_nulls_veq. exact F.
Qed.
Lemma index_veq : forall x x' i, veq x x' -> veq (index x i) (index x' i).
Proof.
  intros x x' i H. inversion H as [| | | | |l l' F|]; subst; cbn [index]; try constructor.
  rewrite (zlen_F2 _ _ _ F).
  repeat match goal with |- veq (if ?c then _ else _) _ => destruct c end; try constructor;
    apply F2_nth; try assumption; constructor.
Qed.

Lemma sub_veq : forall l l' i j, Forall2 veq l l' -> orelL (Forall2 veq) (sub l i j) (sub l' i j).
Proof.
  intros l l' i j F. unfold sub. rewrite (zlen_F2 _ _ _ F).
  destruct ((0 <=? i) && (i <=? j) && (j <=? zlen l')); cbn [orelO]; [|reflexivity].
  apply F2_firstn, F2_skipn, F.
Qed.
Lemma slice_veq : forall x x' a b, veq x x' -> oeqL (slice x a b) (slice x' a b).
Proof.
  intros x x' a b H. inversion H as [| | | | |l l' F|]; subst; cbn [slice]; try (cbn [orelO]; constructor).
  - same.
  - rewrite (zlen_F2 _ _ _ F). destruct (norm1 (zlen l') a b false); [repeat constructor|].
    eapply orelO_bind; [apply sub_veq; exact F|]. intros r r' Hr. constructor. exact Hr.
Qed.
Lemma at_veq : forall l l' j, Forall2 veq l l' -> oeqL (at_ l j) (at_ l' j).
Proof.
  intros l l' j F. unfold at_. rewrite (zlen_F2 _ _ _ F).
  destruct ((0 <=? j) && (j <? zlen l')); [|reflexivity].
  destruct (F2_nth_error veq (Z.to_nat j) _ _ F); [reflexivity|assumption].
Qed.
Lemma pick_veq : forall l l' k j step, Forall2 veq l l' -> orelL (Forall2 veq) (pick l k j step) (pick l' k j step).
Proof.
  intros l l' k. induction k as [|k IH]; intros j step F; cbn [pick]; [constructor|].
  eapply orelO_bind; [apply at_veq; exact F|]. intros a a' Ha.
  eapply orelO_bind; [apply IH; exact F|]. intros r r' Hr. constructor; assumption.
Qed.
Lemma slice_step_veq : forall x x' a b c, veq x x' -> oeqL (slice_step x a b c) (slice_step x' a b c).
Proof.
  intros x x' a b c H. inversion H as [| | | | |l l' F|]; subst; cbn [slice_step]; try (cbn [orelO]; constructor).
  - same.
  - rewrite (zlen_F2 _ _ _ F). destruct (norm_step (zlen l') a b c) as [[i n]|]; [|repeat constructor].
    destruct (c =? 0); [reflexivity|]. destruct ((n <? 0) || (n >? MaxInt)); [reflexivity|].
    eapply orelO_bind; [apply pick_veq; exact F|]. intros r r' Hr. constructor. exact Hr.
Qed.

(* ================================================================== *)
(* 5. to_string: json.Marshal sorts the keys                            *)
(* ================================================================== *)

Lemma bcmp_opp : forall a b, bcmp b a = CompOpp (bcmp a b).
Proof.
  induction a as [|x a IH]; destruct b as [|y b]; cbn [bcmp CompOpp]; try reflexivity.
  rewrite (Z.compare_antisym x y). destruct (x ?= y); cbn [CompOpp]; auto.
Qed.
Lemma bcmp_Eq : forall a b, bcmp a b = Eq -> a = b.
Proof.
  induction a as [|x a IH]; destruct b as [|y b]; cbn [bcmp]; try discriminate; [reflexivity|].
  destruct (x ?= y) eqn:E; try discriminate. apply Z.compare_eq in E. intros H. rewrite (IH b H), E. reflexivity.
Qed.
Lemma bcmp_Lt_trans : forall a b c, bcmp a b = Lt -> bcmp b c = Lt -> bcmp a c = Lt.
Proof.
  induction a as [|x a IH]; destruct b as [|y b], c as [|z c]; cbn [bcmp]; try discriminate; try reflexivity.
  destruct (x ?= y) eqn:E1, (y ?= z) eqn:E2; intros H1 H2; try discriminate;
    try apply Z.compare_eq in E1; try apply Z.compare_eq in E2;
    try (apply Z.compare_lt_iff in E1); try (apply Z.compare_lt_iff in E2); subst.
  - rewrite Z.compare_refl. eapply IH; eassumption.
  - apply Z.compare_lt_iff in E2. rewrite E2. reflexivity.
  - apply Z.compare_lt_iff in E1. rewrite E1. reflexivity.
  - pose proof (Z.lt_trans x y z E1 E2) as L. unfold Z.lt in L. rewrite L. reflexivity.
Qed.
Lemma bltb_trans : forall a b c, bltb a b = true -> bltb b c = true -> bltb a c = true.
Proof.
  unfold bltb. intros a b c H1 H2.
  destruct (bcmp a b) eqn:E1; try discriminate. destruct (bcmp b c) eqn:E2; try discriminate.
  rewrite (bcmp_Lt_trans _ _ _ E1 E2). reflexivity.
Qed.
Lemma bltb_total : forall a b, a <> b -> bltb b a = negb (bltb a b).
Proof.
  unfold bltb. intros a b N. rewrite (bcmp_opp a b). destruct (bcmp a b) eqn:E; try reflexivity.
  apply bcmp_Eq in E. contradiction.
Qed.

Lemma insert_kv_comm : forall {A} (a b : bytes * A) l, fst a <> fst b ->
  insert_kv a (insert_kv b l) = insert_kv b (insert_kv a l).
Proof.
  intros A a b l N. pose proof (bltb_total _ _ N) as T.
  induction l as [|x r IH]; cbn [insert_kv].
  - rewrite T. destruct (bltb (fst a) (fst b)); reflexivity.
  - destruct (bltb (fst b) (fst x)) eqn:Bx, (bltb (fst a) (fst x)) eqn:Ax; cbn [insert_kv];
      rewrite ?Ax, ?Bx, ?T.
    + destruct (bltb (fst a) (fst b)); reflexivity.
    + destruct (bltb (fst a) (fst b)) eqn:AB; cbn [negb]; [|reflexivity].
      rewrite (bltb_trans _ _ _ AB Bx) in Ax. discriminate.
    + destruct (bltb (fst a) (fst b)) eqn:AB; cbn [negb]; [reflexivity|].
      assert (BA : bltb (fst b) (fst a) = true) by (rewrite T; reflexivity).
      rewrite (bltb_trans _ _ _ BA Ax) in Bx. discriminate.
    + rewrite IH. reflexivity.
Qed.

Lemma sort_kv_perm : forall {A} (l l' : list (bytes * A)), Permutation l l' -> NoDup (map fst l) ->
  sort_kv l = sort_kv l'.
Proof.
  intros A l l' P. unfold sort_kv. induction P as [|x l l' P IH|x y l|l1 l2 l3 P1 IH1 P2 IH2]; intros N.
  - reflexivity.
  - cbn [fold_right]. rewrite IH; [reflexivity|]. inversion N; assumption.
  - cbn [fold_right]. apply insert_kv_comm. cbn [map] in N. inversion N as [|? ? Hn _]; subst.
    intros E. apply Hn. left. symmetry. exact E.
  - rewrite IH1 by exact N. apply IH2. eapply Permutation_NoDup; [apply Permutation_map; exact P1|exact N].
Qed.

Definition jarr_loop : list value -> outcome (list bytes) :=
  fix go l := match l with
              | [] => Ok []
              | x :: r => do p <- jprint x; do ps <- go r; Ok (p :: ps)
              end.
Definition jobj_loop : list (bytes * value) -> outcome (list (bytes * bytes)) :=
  fix go l := match l with
              | [] => Ok []
              | (k, x) :: r => do p <- jprint x; do ps <- go r; Ok ((k, p) :: ps)
              end.
Lemma jprint_arr : forall l, jprint (VArr l) =
  do parts <- jarr_loop l; Ok (91 :: intercalate [44] parts ++ [93]).
Proof. reflexivity. Qed.
Lemma jprint_obj : forall m, jprint (VObj m) =
  do parts <- jobj_loop m;
  Ok (123 :: intercalate [44] (map (fun kp => jquote (fst kp) ++ 58 :: snd kp) (sort_kv parts)) ++ [125]).
Proof. reflexivity. Qed.

(* printing never panics and needs no fuel *)
Definition soft {A} (o : outcome A) : Prop :=
  match o with Ok _ | Err _ | Unmodelled => True | _ => False end.
Lemma soft_bind : forall {A B} (o : outcome A) (f : A -> outcome B),
  soft o -> (forall a, soft (f a)) -> soft (bind o f).
Proof. intros A B o f H Hf. destruct o; cbn in *; auto. Qed.
Lemma jprint_soft : forall v, soft (jprint v).
Proof.
  induction v as [|b|s|n|l IH|m IH|t] using value_ind'; try exact I.
  - destruct b; exact I.
  - cbn [jprint]. unfold jnum. repeat match goal with |- soft (match ?c with _ => _ end) => destruct c end; exact I.
  - rewrite jprint_arr. apply soft_bind; [|intros; exact I].
    induction IH as [|x r Hx Hr IHr]; [exact I|]. cbn [jarr_loop]. fold (jarr_loop r).
    apply soft_bind; [exact Hx|intros]. apply soft_bind; [exact IHr|intros; exact I].
  - rewrite jprint_obj. apply soft_bind; [|intros; exact I].
    induction IH as [|[k x] r Hx Hr IHr]; [exact I|]. cbn [jobj_loop]. fold (jobj_loop r).
    apply soft_bind; [exact Hx|intros]. apply soft_bind; [exact IHr|intros; exact I].
Qed.

Lemma jobj_loop_keys : forall m parts, jobj_loop m = Ok parts -> map fst parts = map fst m.
Proof.
  induction m as [|[k x] r IH]; intros parts H.
  - injection H as <-. reflexivity.
  - cbn [jobj_loop] in H. fold (jobj_loop r) in H. destruct (jprint x); try discriminate. cbn [bind] in H.
    destruct (jobj_loop r) as [ps| | | |]; try discriminate. injection H as <-.
    cbn [map fst]. rewrite (IH ps eq_refl). reflexivity.
Qed.

Lemma orelO_trans : forall {A} (R : A -> A -> Prop) (o1 o2 o3 : outcome A), lax = true ->
  (forall a b c, R a b -> R b c -> R a c) -> orelL R o1 o2 -> orelL R o2 o3 -> orelL R o1 o3.
Proof.
  intros A R o1 o2 o3 L T. destruct o1, o2, o3; cbn; intros; try contradiction; try congruence; eauto.
Qed.

(* members printed in another order: the same parts in another order, or a
   failure on both sides (possibly a different one) *)
Lemma jobj_loop_perm : forall m m', lax = true -> Permutation m m' ->
  orelL (@Permutation _) (jobj_loop m) (jobj_loop m').
Proof.
  intros m m' L P. induction P as [|[k x] l l' P IH|[k x] [k' y] l|l1 l2 l3 P1 IH1 P2 IH2].
  - constructor.
  - cbn [jobj_loop]. fold (jobj_loop l) (jobj_loop l'). apply orelO_bind_same. intros p.
    eapply orelO_bind; [exact IH|]. intros a a' Ha. apply perm_skip. exact Ha.
  - cbn [jobj_loop]. fold (jobj_loop l).
    pose proof (jprint_soft x) as Sx. pose proof (jprint_soft y) as Sy.
    destruct (jprint x), (jprint y); cbn in Sx, Sy; try contradiction; cbn [bind orelO]; auto;
      destruct (jobj_loop l); cbn [bind orelO]; auto. apply perm_swap.
  - eapply orelO_trans; [exact L|apply perm_trans|exact IH1|exact IH2].
Qed.

(* (a definition, so that [subst] leaves the hypothesis alone) *)
Definition is_lax : Prop := lax = true.

Theorem jprint_veq : is_lax -> forall v v', veq v v' -> orelL eq (jprint v) (jprint v').
Proof.
  intros L. induction v as [| | | |l IH|m IH|] using value_ind'; intros v' H;
    inversion H as [| | | | |? l' F|? m' N N' Hm]; subst; try apply orelO_eq_refl.
  - rewrite !jprint_arr. eapply orelO_bind with (RA := eq); [|intros a a' <-; reflexivity].
    clear H. induction F as [|x y r r' Hxy F IHF]; [reflexivity|].
    cbn [jarr_loop]. fold (jarr_loop r) (jarr_loop r').
    eapply orelO_bind; [apply (Forall_inv IH); exact Hxy|]. intros p p' <-.
    eapply orelO_bind; [apply IHF; exact (Forall_inv_tail IH)|]. intros ps ps' <-. reflexivity.
  - rewrite !jprint_obj.
    destruct (mrel_perm veq m m' N N' Hm) as (m2 & P & F).
    assert (S1 : orelL eq (jobj_loop m) (jobj_loop m2)).
    { clear P H Hm N. induction F as [|[k x] [k2 y] r r' [Ek Hxy] F IHF]; [reflexivity|].
      cbn [fst snd] in Ek, Hxy. subst k2. cbn [jobj_loop]. fold (jobj_loop r) (jobj_loop r').
      eapply orelO_bind; [apply (Forall_inv IH); exact Hxy|]. intros p p' <-.
      eapply orelO_bind; [apply IHF; exact (Forall_inv_tail IH)|]. intros ps ps' <-. reflexivity. }
    pose proof (jobj_loop_perm m2 m' L (Permutation_sym P)) as S2.
    pose proof (jobj_loop_keys m) as K1.
    destruct (jobj_loop m) as [p1| | | |], (jobj_loop m2) as [p2| | | |]; cbn [orelO] in S1; try contradiction;
      destruct (jobj_loop m') as [p3| | | |]; cbn [orelO] in S2; try contradiction; cbn [bind orelO]; auto; try congruence.
    subst p2. rewrite (sort_kv_perm p1 p3 S2); [reflexivity|].
    rewrite (K1 p1 eq_refl). apply nodup_keys_NoDup. exact N.
Qed.

Lemma to_string_veq : is_lax -> forall v v', veq v v' -> oeqL (to_string v) (to_string v').
Proof.
  intros L v v' H. unfold to_string.
  assert (G : oeqL (do s <- jprint v; Ok (VStr s)) (do s <- jprint v'; Ok (VStr s))).
  { eapply orelO_bind; [apply jprint_veq; [exact L|exact H]|]. intros s s' <-. constructor. }
  inversion H; subst; try exact G. constructor.
Qed.

(* ================================================================== *)
(* 6. the built-in functions                                            *)
(* ================================================================== *)

(* string functions only look at strings and integers *)
Ltac scalar_args :=
  repeat match goal with
         | H : veq ?a ?b |- _ =>
           progress (rewrite ?(str_arg_veq _ _ H), ?(int_arg_veq _ _ H), ?(to_int_veq _ _ H), ?(to_decimal_veq _ _ H))
         end.

Lemma pad_veq : forall left a a' b b' c c', veq a a' -> veq b b' -> orel veq c c' ->
  oeqL (pad left a b c) (pad left a' b' c').
Proof.
  intros left a a' b b' c c' Ha Hb Hc. unfold pad.
  assert (E : match c with Some pv => str_arg pv | None => Ok [32] end =
              match c' with Some pv => str_arg pv | None => Ok [32] end).
  { destruct Hc as [|x y Hxy]; [reflexivity|apply str_arg_veq; exact Hxy]. }
  rewrite E. scalar_args. same.
Qed.

Lemma call2_veq : forall f a a' b b', veq a a' -> veq b b' -> oeqL (call2 f a b) (call2 f a' b').
Proof.
  intros f a a' b b' Ha Hb. destruct f; cbn [call2];
    try (apply contains_veq; assumption); try (apply join_veq; assumption);
    try (apply pad_veq; [assumption|assumption|constructor]);
    unfold ends_with, starts_with, find_first, find_last, split, trim, trim_left, trim_right;
    scalar_args; same.
Qed.
Lemma call3_veq : forall f a a' b b' c c', veq a a' -> veq b b' -> veq c c' ->
  oeqL (call3 f a b c) (call3 f a' b' c').
Proof.
  intros f a a' b b' c c' Ha Hb Hc. destruct f; cbn [call3];
    try (apply pad_veq; [assumption|assumption|constructor; assumption]);
    unfold find_from, replace, split_count; scalar_args; same.
Qed.
Lemma call4_veq : forall f a a' b b' c c' d d', veq a a' -> veq b b' -> veq c c' -> veq d d' ->
  oeqL (call4 f a b c d) (call4 f a' b' c' d').
Proof.
  intros f a a' b b' c c' d d' Ha Hb Hc Hd. destruct f; cbn [call4];
    unfold find_between, replace_count; scalar_args; same.
Qed.

(* functions of one argument: keys/values/items enumerate a map; to_string of
   an object is deterministic only up to WHICH failure is reported *)
Definition fn1_ok (f : fn1) : bool :=
  match f with FItems | FKeys | FValues => false | FToString => lax | _ => true end.

Lemma call1_veq : forall f a a', fn1_ok f = true -> veq a a' -> oeqL (call1 f a) (call1 f a').
Proof.
  intros f a a' Hf Ha. destruct f; cbn [call1 fn1_ok] in *; try discriminate;
    try (apply num1_veq; assumption);
    try (unfold trim_space, trim_space_left, trim_space_right; scalar_args; same; fail).
  - apply avg_veq; assumption.
  - apply from_items_veq; assumption.
  - apply length_veq; assumption.
  - apply lower_veq; assumption.
  - apply array_extreme_veq; assumption.
  - apply array_extreme_veq; assumption.
  - apply reverse_veq; assumption.
  - apply sort_array_veq; assumption.
  - apply sum_veq; assumption.
  - apply to_array_veq; assumption.
  - apply to_number_veq; assumption.
  - apply to_string_veq; assumption.
  - apply type_name_veq; assumption.
  - apply upper_veq; assumption.
Qed.

Lemma binop_veq : forall op a a' b b', veq a a' -> veq b b' -> oeqL (binop_eval op a b) (binop_eval op a' b').
Proof.
  intros op a a' b b' Ha Hb. destruct op; cbn [binop_eval];
    try (apply arith_veq; assumption); try (apply integer_divide_veq; assumption);
    try (apply modulo_veq; assumption); try (apply cmp_op_veq; assumption);
    cbn [orelO]; rewrite (equal_veq _ _ _ _ Ha Hb); constructor.
Qed.

(* ================================================================== *)
(* 7. helpers that call back into the evaluator                         *)
(* ================================================================== *)

Section Callbacks.
  Variables ev ev' : value -> outcome value.
  Hypothesis Hev : forall v v', veq v v' -> oeqL (ev v) (ev' v').

  Lemma project_list_veq : forall l l', Forall2 veq l l' ->
    orelL (Forall2 veq) (project_list ev l) (project_list ev' l').
  Proof.
    induction 1 as [|a b l l' Hab H IH]; cbn [project_list]; [constructor|].
    eapply orelO_bind; [apply Hev; exact Hab|]. intros p p' Hp.
    eapply orelO_bind; [exact IH|]. intros ps ps' Hps. cbn [orelO].
    rewrite (is_null_veq _ _ Hp). destruct (Array.is_null p'); [|constructor]; assumption.
  Qed.
  Lemma project_array_veq : forall x x', veq x x' -> oeqL (project_array ev x) (project_array ev' x').
  Proof.
    intros x x' H. inversion H as [| | | | |l l' F|]; subst; cbn [project_array orelO]; try constructor.
    eapply orelO_bind; [apply project_list_veq; exact F|]. intros r r' Hr. constructor. exact Hr.
  Qed.
  Lemma flatten_and_project_veq : forall x x', veq x x' ->
    oeqL (flatten_and_project ev x) (flatten_and_project ev' x').
  Proof.
    intros x x' H. inversion H as [| | | | |l l' F|]; subst; cbn [flatten_and_project orelO]; try constructor.
    eapply orelO_bind; [apply project_list_veq|intros r r' Hr; constructor; exact Hr].
    apply (F2_flat_map veq veq); [|exact F].
    intros a b Hab. inversion Hab; subst; repeat constructor; assumption.
  Qed.
  Lemma mapM_veq : forall l l', Forall2 veq l l' -> orelL (Forall2 veq) (mapM ev l) (mapM ev' l').
  Proof.
    induction 1 as [|a b l l' Hab H IH]; cbn [mapM]; [constructor|].
    eapply orelO_bind; [apply Hev; exact Hab|]. intros p p' Hp.
    eapply orelO_bind; [exact IH|]. intros ps ps' Hps. constructor; assumption.
  Qed.
  Lemma map_array_veq : forall x x', veq x x' -> oeqL (map_array ev x) (map_array ev' x').
  Proof.
    intros x x' H. inversion H as [| | | | |l l' F|]; subst; cbn [map_array orelO]; try exact I.
    eapply orelO_bind; [apply mapM_veq; exact F|]. intros r r' Hr. constructor. exact Hr.
  Qed.
  Lemma filter_list_veq : forall l l', Forall2 veq l l' ->
    orelL (Forall2 veq) (filter_list ev l) (filter_list ev' l').
  Proof.
    induction 1 as [|a b l l' Hab H IH]; cbn [filter_list]; [constructor|].
    eapply orelO_bind; [apply Hev; exact Hab|]. intros p p' Hp.
    eapply orelO_bind; [exact IH|]. intros ps ps' Hps. cbn [orelO].
    rewrite (is_null_veq _ _ Hab), (is_true_veq _ _ Hp).
    destruct (negb (Array.is_null b) && is_true p'); [constructor|]; assumption.
  Qed.
  Lemma filter_array_veq : forall x x', veq x x' -> oeqL (filter_array ev x) (filter_array ev' x').
  Proof.
    intros x x' H. inversion H as [| | | | |l l' F|]; subst; cbn [filter_array orelO]; try constructor.
    eapply orelO_bind; [apply filter_list_veq; exact F|]. intros r r' Hr. constructor. exact Hr.
  Qed.

  (* sort_by / max_by / min_by / group_by *)
  Lemma str_keys_veq : forall l l', Forall2 veq l l' -> orelL eq (str_keys ev l) (str_keys ev' l').
  Proof.
    induction 1 as [|a b l l' Hab H IH]; cbn [str_keys]; [reflexivity|].
    eapply orelO_bind; [apply Hev; exact Hab|]. intros k k' Hk.
    inversion Hk; subst; try exact I.
    eapply orelO_bind; [exact IH|]. intros ks ks' <-. reflexivity.
  Qed.
  Lemma num_keys_veq : forall l l', Forall2 veq l l' -> orelL eq (num_keys ev l) (num_keys ev' l').
  Proof.
    induction 1 as [|a b l l' Hab H IH]; cbn [num_keys]; [reflexivity|].
    eapply orelO_bind; [apply Hev; exact Hab|]. intros k k' Hk.
    rewrite (to_decimal_veq _ _ Hk). destruct (to_decimal k'); [|exact I].
    eapply orelO_bind; [exact IH|]. intros ks ks' <-. reflexivity.
  Qed.
  Lemma keys_for_veq : forall a a' l l', veq a a' -> Forall2 veq l l' ->
    orelL eq (keys_for ev a l) (keys_for ev' a' l').
  Proof.
    intros a a' l l' Ha F. unfold keys_for.
    eapply orelO_bind; [apply Hev; exact Ha|]. intros k k' Hk.
    assert (G : orelL eq
                  match to_decimal k with None => Err EInvalidType
                  | Some d => do ks <- num_keys ev l; Ok (KNum (d :: ks)) end
                  match to_decimal k' with None => Err EInvalidType
                  | Some d => do ks <- num_keys ev' l'; Ok (KNum (d :: ks)) end).
    { rewrite (to_decimal_veq _ _ Hk). destruct (to_decimal k'); [|exact I].
      eapply orelO_bind; [apply num_keys_veq; exact F|]. intros ks ks' <-. reflexivity. }
    inversion Hk; subst; try exact G.
    eapply orelO_bind; [apply str_keys_veq; exact F|]. intros ks ks' <-. reflexivity.
  Qed.

  Lemma sort_array_by_veq : forall x x', veq x x' -> oeqL (sort_array_by ev x) (sort_array_by ev' x').
  Proof.
    intros x x' H. inversion H as [| | | | |l l' F|]; subst; cbn [sort_array_by]; try exact I.
    destruct F as [|a b l l' Hab F]; [constructor; constructor|].
    eapply orelO_bind; [apply keys_for_veq; eassumption|]. intros ks ks' <-.
    destruct ks; cbn [orelO]; constructor; apply prel_sorted; constructor; assumption.
  Qed.

  Lemma best_by_veq : forall {K} (better : K -> K -> bool) l l', Forall2 prel l l' ->
    forall bv bv' bk, veq bv bv' -> veq (best_by better bv bk l) (best_by better bv' bk l').
  Proof.
    intros K better. induction 1 as [|[v k] [v' k'] l l' [Hv Hk] H IH]; intros bv bv' bk Hb; [exact Hb|].
    cbn [fst snd] in Hv, Hk. subst k'. cbn [best_by]. destruct (better k bk); apply IH; assumption.
  Qed.
  Lemma array_extreme_by_veq : forall gt x x', veq x x' ->
    oeqL (array_extreme_by ev gt x) (array_extreme_by ev' gt x').
  Proof.
    intros gt x x' H. inversion H as [| | | | |l l' F|]; subst; cbn [array_extreme_by]; try exact I.
    destruct F as [|a b l l' Hab F]; [constructor|].
    eapply orelO_bind; [apply keys_for_veq; eassumption|]. intros ks ks' <-.
    destruct ks as [[|k0 ss]|[|k0 ds]]; cbn [orelO]; try reflexivity;
      apply best_by_veq; try assumption; apply prel_combine; exact F.
  Qed.

  Lemma group_loop_veq : forall l l', Forall2 veq l l' -> forall acc acc', mwf acc acc' ->
    orelL mwf (group_loop ev l acc) (group_loop ev' l' acc').
  Proof.
    induction 1 as [|a b l l' Hab H IH]; intros acc acc' Hacc; cbn [group_loop]; [exact Hacc|].
    eapply orelO_bind; [apply Hev; exact Hab|]. intros k k' Hk.
    inversion Hk; subst; try exact I. apply IH. apply mwf_set; [exact Hacc|].
    constructor. apply Forall2_app; [|repeat constructor; exact Hab].
    destruct Hacc as (_ & _ & Hm). destruct (Hm s) as [|g g' Hg]; [constructor|].
    inversion Hg; subst; try constructor. assumption.
  Qed.
  Lemma group_by_veq : forall x x', veq x x' -> oeqL (group_by ev x) (group_by ev' x').
  Proof.
    intros x x' H. inversion H as [| | | | |l l' F|]; subst; cbn [group_by]; try exact I.
    destruct F as [|a b l l' Hab F]; [constructor|].
    eapply orelO_bind; [apply group_loop_veq; [constructor; eassumption|apply mwf_nil]|].
    intros m m' Hm. apply mwf_veq. exact Hm.
  Qed.

  Variables ev2 ev2' : value -> outcome value.
  Hypothesis Hev2 : forall v v', veq v v' -> oeqL (ev2 v) (ev2' v').
  Lemma filter_project_list_veq : forall l l', Forall2 veq l l' ->
    orelL (Forall2 veq) (filter_project_list ev ev2 l) (filter_project_list ev' ev2' l').
  Proof.
    induction 1 as [|a b l l' Hab H IH]; cbn [filter_project_list]; [constructor|].
    eapply orelO_bind; [apply Hev; exact Hab|]. intros f f' Hf.
    rewrite (is_true_veq _ _ Hf). destruct (is_true f'); [|exact IH].
    eapply orelO_bind; [apply Hev2; exact Hab|]. intros p p' Hp.
    eapply orelO_bind; [exact IH|]. intros ps ps' Hps. cbn [orelO].
    rewrite (is_null_veq _ _ Hp). destruct (Array.is_null p'); [|constructor]; assumption.
  Qed.
  Lemma filter_and_project_veq : forall x x', veq x x' ->
    oeqL (filter_and_project ev ev2 x) (filter_and_project ev' ev2' x').
  Proof.
    intros x x' H. inversion H as [| | | | |l l' F|]; subst; cbn [filter_and_project orelO]; try constructor.
    eapply orelO_bind; [apply filter_project_list_veq; exact F|]. intros r r' Hr. constructor. exact Hr.
  Qed.
End Callbacks.

(* ================================================================== *)
(* 8. the evaluator                                                     *)
(* ================================================================== *)

(* environments: frame by frame, each frame as a map *)
Definition env_veq (vars vars' : env) : Prop := Forall2 (mrel veq) vars vars'.

Lemma env_get_veq : forall name vars vars', env_veq vars vars' ->
  orel veq (env_get name vars) (env_get name vars').
Proof.
  intros name vars vars' H. induction H as [|f f' r r' Hf H IH]; cbn [env_get]; [constructor|].
  destruct (Hf name) as [|a b Hab]; [exact IH|constructor; exact Hab].
Qed.

Lemma field_veq : forall name x x', veq x x' -> veq (field name x) (field name x').
Proof.
  intros name x x' H. inversion H as [| | | | | |m m' N N' Hm]; subst; cbn [field]; try constructor.
  destruct (Hm name); [constructor|assumption].
Qed.

Lemma veq_single : forall k y y', veq y y' -> veq (VObj [(k, y)]) (VObj [(k, y')]).
Proof.
  intros k y y' H. constructor; try reflexivity.
  apply (kvrel_mrel veq). repeat constructor. exact H.
Qed.

Lemma mwf_fold : forall m m' acc acc', veq (VObj m) (VObj m') -> mwf acc acc' ->
  mwf (fold_left (fun acc kv => assoc_set (fst kv) (snd kv) acc) m acc)
      (fold_left (fun acc kv => assoc_set (fst kv) (snd kv) acc) m' acc').
Proof.
  intros m m' acc acc' H (Na & Na' & Hacc). apply veq_mwf in H as (N & N' & Hm).
  repeat split; try (apply fold_set_nodup; assumption).
  intros k. rewrite !assoc_fold_set by assumption. destruct (Hm k); [apply Hacc|constructor; assumption].
Qed.

(* the inner loops of eval over argument lists, named *)
Definition nmerge_loop (ev : node -> outcome value) : list node -> list (bytes * value) -> outcome value :=
  fix go l acc := match l with
                  | [] => Ok (VObj acc)
                  | a :: r =>
                    do x <- ev a;
                    match x with
                    | VObj m => go r (fold_left (fun acc kv => assoc_set (fst kv) (snd kv) acc) m acc)
                    | _ => Err EInvalidType
                    end
                  end.
Definition nnotnull_loop (ev : node -> outcome value) : list node -> outcome value :=
  fix go l := match l with
              | [] => Ok VNull
              | a :: r => do x <- ev a; if Array.is_null x then go r else Ok x
              end.
Definition nzip_loop (ev : node -> outcome value) : list node -> outcome (list (list value)) :=
  fix go l := match l with
              | [] => Ok []
              | a :: r =>
                do x <- ev a;
                match x with
                | VArr c => do cs <- go r; Ok (c :: cs)
                | _ => Err EInvalidType
                end
              end.

Lemma eval_merge : forall root args cur vars,
  eval root (NCallVar FMerge args) cur vars = nmerge_loop (fun a => eval root a cur vars) args [].
Proof. reflexivity. Qed.
Lemma eval_not_null : forall root args cur vars,
  eval root (NCallVar FNotNull args) cur vars = nnotnull_loop (fun a => eval root a cur vars) args.
Proof. reflexivity. Qed.
Lemma eval_zip : forall root args cur vars,
  eval root (NCallVar FZip args) cur vars =
  do cols <- nzip_loop (fun a => eval root a cur vars) args;
  let count := fold_left (fun m c => Z.min m (zlen c)) cols MaxInt in
  if count >? 4611686018427387904 then Panic PMakeLen else
  Ok (VArr (zip_rows (Z.to_nat count) 0 cols)).
Proof. reflexivity. Qed.

Section Loops.
  Variables ev ev' : node -> outcome value.

  Lemma nmerge_loop_veq : forall l, (forall c, In c l -> oeqL (ev c) (ev' c)) ->
    forall acc acc', mwf acc acc' -> oeqL (nmerge_loop ev l acc) (nmerge_loop ev' l acc').
  Proof.
    induction l as [|a r IH]; intros H acc acc' Hacc; cbn [nmerge_loop].
    - apply mwf_veq. exact Hacc.
    - fold (nmerge_loop ev r) (nmerge_loop ev' r).
      eapply orelO_bind; [apply H; left; reflexivity|]. intros x x' Hx.
      inversion Hx; subst; try exact I.
      apply IH; [intros c Hc; apply H; right; exact Hc|]. apply mwf_fold; assumption.
  Qed.
  Lemma nnotnull_loop_veq : forall l, (forall c, In c l -> oeqL (ev c) (ev' c)) ->
    oeqL (nnotnull_loop ev l) (nnotnull_loop ev' l).
  Proof.
    induction l as [|a r IH]; intros H; cbn [nnotnull_loop]; [constructor|].
    fold (nnotnull_loop ev r) (nnotnull_loop ev' r).
    eapply orelO_bind; [apply H; left; reflexivity|]. intros x x' Hx.
    rewrite (is_null_veq _ _ Hx). destruct (Array.is_null x'); [|exact Hx].
    apply IH. intros c Hc; apply H; right; exact Hc.
  Qed.
  Lemma nzip_loop_veq : forall l, (forall c, In c l -> oeqL (ev c) (ev' c)) ->
    orelL (Forall2 (Forall2 veq)) (nzip_loop ev l) (nzip_loop ev' l).
  Proof.
    induction l as [|a r IH]; intros H; cbn [nzip_loop]; [constructor|].
    fold (nzip_loop ev r) (nzip_loop ev' r).
    eapply orelO_bind; [apply H; left; reflexivity|]. intros x x' Hx.
    inversion Hx; subst; try exact I.
    eapply orelO_bind; [apply IH; intros c Hc; apply H; right; exact Hc|].
    intros cs cs' Hcs. constructor; assumption.
  Qed.
  Lemma nlist_loop_veq : forall l, (forall c, In c l -> oeqL (ev c) (ev' c)) ->
    orelL (Forall2 veq) (nlist_loop ev l) (nlist_loop ev' l).
  Proof.
    induction l as [|a r IH]; intros H; cbn [nlist_loop]; [constructor|].
    fold (nlist_loop ev r) (nlist_loop ev' r).
    eapply orelO_bind; [apply H; left; reflexivity|]. intros x x' Hx.
    eapply orelO_bind; [apply IH; intros c Hc; apply H; right; exact Hc|].
    intros cs cs' Hcs. constructor; assumption.
  Qed.
  (* the result has the keys of the binding list, in order, on both sides *)
  Definition frame_rel (bs : list (bytes * node)) (fr fr' : list (bytes * value)) : Prop :=
    map fst fr = map fst bs /\ map fst fr' = map fst bs /\ Forall2 (kvrel veq) fr fr'.
  Lemma define_loop_veq : forall bs, (forall c, In c (map snd bs) -> oeqL (ev c) (ev' c)) ->
    orelL (frame_rel bs) (define_loop ev bs) (define_loop ev' bs).
  Proof.
    induction bs as [|[k a] r IH]; intros H; cbn [define_loop]; [repeat split; constructor|].
    fold (define_loop ev r) (define_loop ev' r).
    eapply orelO_bind; [apply H; left; reflexivity|]. intros x x' Hx.
    eapply orelO_bind; [apply IH; intros c Hc; apply H; right; exact Hc|].
    intros fr fr' (E & E' & F). repeat split; cbn [map fst]; try congruence.
    constructor; [split; [reflexivity|exact Hx]|exact F].
  Qed.
End Loops.

Lemma frame_rel_veq : forall bs fr fr', nodup_keys bs = true -> frame_rel bs fr fr' -> veq (VObj fr) (VObj fr').
Proof.
  intros bs fr fr' N (E & E' & F). constructor.
  - rewrite (nodup_keys_fst _ _ E). exact N.
  - rewrite (nodup_keys_fst _ _ E'). exact N.
  - apply kvrel_mrel. exact F.
Qed.

Lemma zip_count_veq : forall cols cols', Forall2 (Forall2 veq) cols cols' -> forall m0,
  fold_left (fun m c => Z.min m (zlen c)) cols m0 = fold_left (fun m c => Z.min m (zlen c)) cols' m0.
Proof.
  induction 1 as [|c c' r r' Hc H IH]; intros m0; cbn [fold_left]; [reflexivity|].
  rewrite (zlen_F2 _ _ _ Hc). apply IH.
Qed.
Lemma zip_rows_veq : forall cols cols', Forall2 (Forall2 veq) cols cols' -> forall k i,
  Forall2 veq (zip_rows k i cols) (zip_rows k i cols').
Proof.
  intros cols cols' H. induction k as [|k IH]; intros i; cbn [zip_rows]; constructor; [|apply IH].
  constructor. apply (F2_map (Forall2 veq) veq); [|exact H].
  intros c c' Hc. apply F2_nth; [exact Hc|constructor].
Qed.

(* ---- the syntactic side conditions ---- *)
Fixpoint node_all (p : node -> bool) (n : node) : bool :=
  p n &&
  match n with
  | NCall1 _ c | NNot c | NNegate c | NAssertNumber c | NFilterCurrent c | NFlatten c
  | NFlattenAndProjectCurrent c | NIndex c _ | NObjectValues c | NProjectArrayCurrent c
  | NProjectObjectCurrent c | NPruneArray c | NSelectArraySingleCurrent c
  | NSelectObjectSingleCurrent _ c | NSlice c _ _ | NSliceStep c _ _ _ => node_all p c
  | NCall2 _ a b | NCallBy _ a b | NMap a b | NBin _ a b | NAnd a b | NOr a b | NFilter a b
  | NFilterAndProjectCurrent a b | NFlattenAndProject a b | NPipe a b | NProjectArray a b
  | NProjectObject a b | NSelectArraySingle a b | NSelectObjectSingle a _ b => node_all p a && node_all p b
  | NCall3 _ a b c | NFilterAndProject a b c => node_all p a && node_all p b && node_all p c
  | NCall4 _ a b c d => node_all p a && node_all p b && node_all p c && node_all p d
  | NCallVar _ l | NSelectArrayCurrent l => forallb (node_all p) l
  | NSelectArray c l => node_all p c && forallb (node_all p) l
  | NSelectObjectCurrent m => forallb (fun kv => node_all p (snd kv)) m
  | NSelectObject c m => node_all p c && forallb (fun kv => node_all p (snd kv)) m
  | NDefine bs child => node_all p child && forallb (fun kv => node_all p (snd kv)) bs
  | _ => true
  end.

Lemma forallb_snd_Forall : forall {K} (q : node -> bool) (m : list (K * node)),
  forallb (fun kv => q (snd kv)) m = true -> Forall (fun c => q c = true) (map snd m).
Proof.
  intros K q m H. rewrite forallb_forall in H. apply Forall_forall. intros c Hc.
  apply in_map_iff in Hc as (kv & <- & Hin). apply H. exact Hin.
Qed.
Lemma forallb_Forall' : forall (q : node -> bool) l, forallb q l = true -> Forall (fun c => q c = true) l.
Proof. intros q l H. rewrite forallb_forall in H. apply Forall_forall. exact H. Qed.

Lemma node_all_children : forall p n, node_all p n = true ->
  p n = true /\ Forall (fun c => node_all p c = true) (nchildren n).
Proof.
  intros p n H.
  destruct n; cbn [node_all nchildren] in *;
    repeat match goal with H : _ && _ = true |- _ => apply andb_true_iff in H as [? ?] end;
    (split; [assumption|]); repeat (apply Forall_cons; [assumption|]);
    try apply Forall_nil; try (apply forallb_Forall'; assumption); try (apply forallb_snd_Forall; assumption).
Qed.

(* the node itself enumerates the members of an object *)
Definition enumerates (n : node) : bool :=
  match n with
  | NObjectValues _ | NObjectValuesCurrent | NProjectObject _ _ | NProjectObjectCurrent _ => true
  | NCall1 f _ => negb (fn1_ok f)
  | _ => false
  end.
Definition no_enum_gen (n : node) : bool := node_all (fun n => negb (enumerates n)) n.

(* the maps written in the expression are maps: literals are well-formed
   values, the keys of a multi-select hash are distinct (the parser builds
   both with assoc_set) *)
Definition static_ok (n : node) : bool :=
  match n with
  | NLitArr l => wf_value (VArr l)
  | NLitObj m => wf_value (VObj m)
  | NSelectObject _ fields | NSelectObjectCurrent fields => nodup_keys fields
  | _ => true
  end.
Definition static_maps_wf (n : node) : bool := node_all static_ok n.

Section Main.
  Variables root root' : value.
  Hypothesis Hroot : veq root root'.

  Ltac child_tac Hc := apply Hc; [cbn [In]; tauto|assumption|assumption].
  Ltac ev_child Hc :=
    match goal with
    | |- orelO _ _ (bind (eval _ ?c _ _) _) (bind (eval _ ?c _ _) _) =>
      eapply orelO_bind; [child_tac Hc|intros ? ? ?]
    | |- orelO _ _ (eval _ ?c _ _) (eval _ ?c _ _) => child_tac Hc
    end.
  Ltac callback Hc := intros ? ? ?; child_tac Hc.

  Theorem eval_layout_gen : forall n,
    no_enum_gen n = true -> static_maps_wf n = true ->
    forall cur cur' vars vars', veq cur cur' -> env_veq vars vars' ->
    oeqL (eval root n cur vars) (eval root' n cur' vars').
  Proof.
    intros n. induction n as [n IH] using node_ind'. intros HE HW cur cur' vars vars' Hcur Hvars.
    destruct (node_all_children _ _ HE) as [HEn HEc]. destruct (node_all_children _ _ HW) as [HWn HWc].
    assert (Hc : forall c, In c (nchildren n) -> forall x x' vs vs', veq x x' -> env_veq vs vs' ->
                 oeqL (eval root c x vs) (eval root' c x' vs')).
    { intros c Hin. rewrite Forall_forall in IH, HEc, HWc. apply IH; auto. }
    clear IH HEc HWc HE HW.
    destruct n; cbn [nchildren] in Hc; cbn [enumerates static_ok negb] in HEn, HWn; try discriminate;
      try rewrite !eval_define; try rewrite !eval_select_array; try rewrite !eval_select_array_current;
      try rewrite !eval_select_object; try rewrite !eval_select_object_current;
      cbn [eval]; repeat ev_child Hc.
    all: try (solve [ first
      [ apply call2_veq | apply call3_veq | apply call4_veq | apply binop_veq
      | apply slice_veq | apply slice_step_veq ]; assumption ]).
    all: try (solve [ cbn [orelO]; first
      [ apply negate_veq | apply flatten_veq | apply index_veq | apply prune_array_veq | apply field_veq
      | apply veq_single | apply veq_refl ]; assumption ]).
    all: try (solve [ first
      [ apply map_array_veq | apply filter_array_veq | apply flatten_and_project_veq | apply project_array_veq ];
      [callback Hc|assumption] ]).
    all: try (solve [ apply filter_and_project_veq; [callback Hc|callback Hc|assumption] ]).
    all: try (solve [ cbn [orelO]; repeat constructor; assumption ]).
    all: repeat match goal with
                | H : veq ?a ?b |- context [Array.is_null ?a] => rewrite (is_null_veq _ _ H)
                | H : veq ?a ?b |- context [is_true ?a] => rewrite (is_true_veq _ _ H)
                | H : veq ?a ?b |- context [is_number ?a] => rewrite (is_number_veq _ _ H)
                end.
    - (* NCall1 *) rewrite negb_involutive in HEn. apply call1_veq; assumption.
    - (* NCallBy *)
      destruct f; [apply group_by_veq|apply array_extreme_by_veq|apply array_extreme_by_veq|apply sort_array_by_veq];
        try assumption; callback Hc.
    - (* NCallVar *)
      destruct f.
      + apply (nmerge_loop_veq (fun a => eval root a cur vars) (fun a => eval root' a cur' vars'));
          [intros c Hin; apply Hc; assumption|apply mwf_nil].
      + apply (nnotnull_loop_veq (fun a => eval root a cur vars) (fun a => eval root' a cur' vars')).
        intros c Hin; apply Hc; assumption.
      + eapply orelO_bind;
          [apply (nzip_loop_veq (fun a => eval root a cur vars) (fun a => eval root' a cur' vars'));
           intros c Hin; apply Hc; assumption|].
        intros cols cols' Hcols. cbv zeta. rewrite (zip_count_veq _ _ Hcols).
        destruct (_ >? _); [reflexivity|]. constructor. apply zip_rows_veq. exact Hcols.
    - (* NAnd *) destruct (negb (is_true a')); [assumption|child_tac Hc].
    - (* NOr *) destruct (is_true a'); [assumption|child_tac Hc].
    - (* NNot *) constructor.
    - (* NAssertNumber *) destruct (is_number a'); [assumption|constructor].
    - (* NVariable *) destruct (env_get_veq name _ _ Hvars); [exact I|assumption].
    - (* NDefine *)
      eapply orelO_bind;
        [apply define_loop_veq; intros c Hin; apply Hc; [right; exact Hin|assumption|assumption]|].
      intros fr fr' (E & E' & F). apply Hc; [left; reflexivity|assumption|].
      constructor; [apply kvrel_mrel; exact F|assumption].
    - (* NProjectArray *)
      match goal with H : veq a a' |- _ => inversion H; subst end;
        try (apply project_array_veq; [callback Hc|assumption]).
      destruct (is_slice_node n1); [child_tac Hc|apply project_array_veq; [callback Hc|assumption]].
    - (* NSelectArray *)
      destruct (Array.is_null a'); [constructor|].
      eapply orelO_bind;
        [apply nlist_loop_veq; intros c Hin; apply Hc; [right; exact Hin|assumption|assumption]|].
      intros r r' Hr. constructor. exact Hr.
    - (* NSelectArrayCurrent *)
      destruct (Array.is_null cur'); [constructor|].
      eapply orelO_bind; [apply nlist_loop_veq; intros c Hin; apply Hc; assumption|].
      intros r r' Hr. constructor. exact Hr.
    - (* NSelectArraySingle *)
      destruct (Array.is_null a'); [constructor|]. ev_child Hc. repeat constructor; assumption.
    - (* NSelectObject *)
      destruct (Array.is_null a'); [constructor|].
      eapply orelO_bind;
        [apply define_loop_veq; intros c Hin; apply Hc; [right; exact Hin|assumption|assumption]|].
      intros r r' Hr. eapply frame_rel_veq; eassumption.
    - (* NSelectObjectCurrent *)
      destruct (Array.is_null cur'); [constructor|].
      eapply orelO_bind; [apply define_loop_veq; intros c Hin; apply Hc; assumption|].
      intros r r' Hr. eapply frame_rel_veq; eassumption.
    - (* NSelectObjectSingle *)
      destruct (Array.is_null a'); [constructor|]. ev_child Hc. apply veq_single. assumption.
  Qed.
End Main.

End Layout.

(* ================================================================== *)
(* 9. enumerating the members of an object                              *)
(* ================================================================== *)

(* l' is l in another order, member by member up to map layout *)
Definition perm_veq (l l' : list value) : Prop := exists l2, Permutation l' l2 /\ Forall2 veq l l2.

(* results of the enumerating constructs: arrays in another order (or null) *)
Inductive enum_rel : value -> value -> Prop :=
| enum_arr l l' : perm_veq l l' -> enum_rel (VArr l) (VArr l')
| enum_null : enum_rel VNull VNull.

(* every failure is related to every failure: with several failing members
   the enumeration order decides which one is reported, also in Go *)
Definition oweak {A B} (R : A -> B -> Prop) (o : outcome A) (o' : outcome B) : Prop :=
  match o, o' with
  | Ok a, Ok b => R a b
  | Ok _, _ | _, Ok _ => False
  | _, _ => True
  end.

Lemma perm_veq_map : forall (g : bytes * value -> value) m m',
  (forall a b, kvrel veq a b -> veq (g a) (g b)) -> veq (VObj m) (VObj m') ->
  perm_veq (map g m) (map g m').
Proof.
  intros g m m' Hg H. apply veq_mwf in H as (N & N' & Hm).
  destruct (mrel_perm veq m m' N N' Hm) as (m2 & P & F).
  exists (map g m2). split; [apply Permutation_map; exact P|].
  apply (F2_map (kvrel veq) veq); assumption.
Qed.

Lemma Permutation_filter' : forall {A} (p : A -> bool) l l', Permutation l l' -> Permutation (filter p l) (filter p l').
Proof.
  intros A p l l' P. induction P as [|x l l' P IH|x y l|l1 l2 l3 P1 IH1 P2 IH2]; cbn [filter].
  - constructor.
  - destruct (p x); [apply perm_skip|]; exact IH.
  - destruct (p x), (p y); try apply perm_swap; apply Permutation_refl.
  - eapply perm_trans; eassumption.
Qed.

Lemma perm_veq_filter : forall p l l', (forall a b, veq a b -> p a = p b) -> perm_veq l l' ->
  perm_veq (filter p l) (filter p l').
Proof.
  intros p l l' Hp (l2 & P & F). exists (filter p l2). split; [apply Permutation_filter'; exact P|].
  apply (F2_filter veq); assumption.
Qed.

Theorem values_enum : forall lax x x', veq x x' -> orelO lax enum_rel (values x) (values x').
Proof.
  intros lax x x' H. inversion H; subst; cbn [values orelO]; try exact I. constructor.
  apply (perm_veq_map snd); [intros a b [_ Hab]; exact Hab|exact H].
Qed.
Theorem keys_enum : forall lax x x', veq x x' -> orelO lax enum_rel (keys x) (keys x').
Proof.
  intros lax x x' H. inversion H; subst; cbn [keys orelO]; try exact I. constructor.
  apply (perm_veq_map (fun kv => VStr (fst kv))); [intros a b [E _]; rewrite E; constructor|exact H].
Qed.
Theorem items_enum : forall lax x x', veq x x' -> orelO lax enum_rel (items x) (items x').
Proof.
  intros lax x x' H. inversion H; subst; cbn [items orelO]; try exact I. constructor.
  apply (perm_veq_map (fun kv => VArr [VStr (fst kv); snd kv])); [|exact H].
  intros a b [E Hab]. rewrite E. repeat constructor. exact Hab.
Qed.
Theorem object_values_enum : forall x x', veq x x' -> enum_rel (object_values x) (object_values x').
Proof.
  intros x x' H. inversion H; subst; cbn [object_values]; try constructor.
  apply perm_veq_filter; [intros a b Hab; inversion Hab; reflexivity|].
  apply (perm_veq_map snd); [intros a b [_ Hab]; exact Hab|exact H].
Qed.
(* the names are exactly a permutation *)
Corollary keys_permutation : forall m m', veq (VObj m) (VObj m') -> Permutation (map fst m) (map fst m').
Proof.
  intros m m' H. apply veq_mwf in H as (N & N' & Hm).
  destruct (mrel_perm veq m m' N N' Hm) as (m2 & P & F).
  assert (E : map fst m = map fst m2).
  { clear P N N' Hm. induction F as [|a b r r' Hab F IH]; cbn [map]; [reflexivity|]. destruct Hab as [E _]. rewrite E, IH. reflexivity. }
  rewrite E. apply Permutation_sym, Permutation_map, P.
Qed.

Lemma oweak_trans : forall {A} (R : A -> A -> Prop) (o1 o2 o3 : outcome A),
  (forall a b c, R a b -> R b c -> R a c) -> oweak R o1 o2 -> oweak R o2 o3 -> oweak R o1 o3.
Proof. intros A R o1 o2 o3 T. destruct o1, o2, o3; cbn; intros; try contradiction; eauto. Qed.

Lemma project_list_perm : forall f l l', Permutation l l' ->
  oweak (@Permutation value) (project_list f l) (project_list f l').
Proof.
  intros f l l' P. induction P as [|x l l' P IH|x y l|l1 l2 l3 P1 IH1 P2 IH2]; cbn [project_list].
  - constructor.
  - destruct (f x); cbn [bind oweak]; auto.
    destruct (project_list f l), (project_list f l'); cbn [bind oweak] in *; auto.
    destruct (Array.is_null a); [|apply perm_skip]; exact IH.
  - destruct (f x) as [p| | | |], (f y) as [q| | | |]; cbn [bind oweak]; auto;
      destruct (project_list f l); cbn [bind oweak]; auto.
    destruct (Array.is_null p), (Array.is_null q); try apply perm_swap; apply Permutation_refl.
  - eapply oweak_trans; [apply perm_trans|exact IH1|exact IH2].
Qed.

(* object projection: when the callback respects map layout, two layouts of
   the object give the same elements in another order, or fail both *)
Theorem project_object_enum : forall lax ev ev',
  (forall v v', veq v v' -> orelO lax veq (ev v) (ev' v')) ->
  forall x x', veq x x' -> oweak enum_rel (project_object ev x) (project_object ev' x').
Proof.
  intros lax ev ev' Hev x x' H. inversion H as [| | | | | |m m' N N' Hm]; subst; cbn [project_object oweak];
    try constructor.
  destruct (mrel_perm veq m m' N N' Hm) as (m2 & P & F).
  assert (S1 : orelO lax (Forall2 veq) (project_list ev (map snd m)) (project_list ev' (map snd m2))).
  { apply (project_list_veq lax ev ev' Hev). apply (F2_map (kvrel veq) veq); [|exact F].
    intros a b [_ Hab]. exact Hab. }
  pose proof (project_list_perm ev' _ _ (Permutation_map snd P)) as S2.
  destruct (project_list ev (map snd m)) as [r1| | | |], (project_list ev' (map snd m2)) as [r2| | | |];
    cbn [orelO] in S1; try contradiction;
    destruct (project_list ev' (map snd m')) as [r3| | | |]; cbn [oweak] in S2; try contradiction;
    cbn [bind oweak]; auto.
  constructor. exists r2. split; assumption.
Qed.

(* the exclusions of [no_enum] are necessary: two layouts of one object *)
Definition two_a : list (bytes * value) := [([97], VBool true); ([98], VBool false)].
Definition two_b : list (bytes * value) := [([98], VBool false); ([97], VBool true)].
Lemma two_veq : veq (VObj two_a) (VObj two_b).
Proof. apply veq_obj_perm; [reflexivity|apply perm_swap]. Qed.

(* ================================================================== *)
(* 10. the theorems                                                     *)
(* ================================================================== *)

(* outcomes: both Ok with the same value up to map layout, or both an error
   (any two errors), or the same other outcome *)
Definition oeq (o o' : outcome value) : Prop :=
  match o, o' with
  | Ok a, Ok b => veq a b
  | Err _, Err _ => True
  | Panic p, Panic q => p = q
  | OutOfFuel, OutOfFuel => True
  | Unmodelled, Unmodelled => True
  | _, _ => False
  end.
(* the same, except that an error and "not determined by the model" are related *)
Definition oeq_lax (o o' : outcome value) : Prop :=
  match o, o' with
  | Ok a, Ok b => veq a b
  | (Err _ | Unmodelled), (Err _ | Unmodelled) => True
  | Panic p, Panic q => p = q
  | OutOfFuel, OutOfFuel => True
  | _, _ => False
  end.

Lemma oeq_orelO : forall o o', orelO false veq o o' -> oeq o o'.
Proof. intros o o'. destruct o, o'; cbn; auto; discriminate. Qed.
Lemma oeq_lax_orelO : forall o o', orelO true veq o o' -> oeq_lax o o'.
Proof. intros o o'. destruct o, o'; cbn; auto. Qed.

(* no construct whose result order depends on map order.  to_string is
   excluded here (see [to_string_layout_dependent]) and allowed in
   [no_enum_lax] *)
Definition no_enum : node -> bool := no_enum_gen false.
Definition no_enum_lax : node -> bool := no_enum_gen true.

Theorem eval_layout_independent : forall n root root' cur cur' vars vars',
  no_enum n = true -> static_maps_wf n = true ->
  veq root root' -> veq cur cur' -> env_veq vars vars' ->
  oeq (eval root n cur vars) (eval root' n cur' vars').
Proof.
  intros n root root' cur cur' vars vars' HE HW Hr Hc Hv. apply oeq_orelO.
  apply eval_layout_gen; assumption.
Qed.

Theorem eval_layout_independent_to_string : forall n root root' cur cur' vars vars',
  no_enum_lax n = true -> static_maps_wf n = true ->
  veq root root' -> veq cur cur' -> env_veq vars vars' ->
  oeq_lax (eval root n cur vars) (eval root' n cur' vars').
Proof.
  intros n root root' cur cur' vars vars' HE HW Hr Hc Hv. apply oeq_lax_orelO.
  apply eval_layout_gen; assumption.
Qed.

(* the entry point: two decodings of one document *)
Corollary evaluate_layout_independent : forall n data data',
  no_enum n = true -> static_maps_wf n = true -> veq data data' ->
  oeq (evaluate n data) (evaluate n data').
Proof.
  intros n data data' HE HW H. unfold evaluate.
  apply eval_layout_independent; try assumption. constructor.
Qed.

(* a by-product: such expressions keep values well formed (unique keys) *)
Corollary eval_wf_value : forall n root cur v,
  no_enum n = true -> static_maps_wf n = true ->
  wf_value root = true -> wf_value cur = true ->
  eval root n cur [] = Ok v -> wf_value v = true.
Proof.
  intros n root cur v HE HW Wr Wc E.
  pose proof (eval_layout_independent n root root cur cur [] [] HE HW (veq_refl _ Wr) (veq_refl _ Wc)
                (Forall2_nil _)) as H.
  rewrite E in H. cbn [oeq] in H. eapply veq_wf_l. exact H.
Qed.

(* environments given frame by frame with the same names in the same order *)
Lemma env_veq_pointwise : forall vars vars',
  Forall2 (Forall2 (kvrel veq)) vars vars' -> env_veq vars vars'.
Proof.
  intros vars vars' H. unfold env_veq. induction H as [|f f' r r' Hf H IH]; constructor; [|exact IH].
  apply kvrel_mrel. exact Hf.
Qed.

(* what [no_enum] accepts and rejects *)
(* what [no_enum] accepts and rejects *)
Example no_enum_accepts :
  no_enum (NCallBy FGroupBy NCurrent (NField [97])) = true /\
  no_enum (NCallVar FMerge [NCurrent; NRoot]) = true /\
  no_enum (NCall1 FFromItems NCurrent) = true /\
  no_enum (NSelectObjectCurrent [([97], NCurrent); ([98], NRoot)]) = true /\
  no_enum (NDefine [([97], NCurrent)] (NVariable [97])) = true /\
  no_enum (NBin OEq NCurrent NRoot) = true /\
  no_enum (NCall1 FLength NCurrent) = true /\
  no_enum_lax (NCall1 FToString NCurrent) = true.
Proof. repeat split; reflexivity. Qed.
Example no_enum_rejects :
  no_enum (NCall1 FKeys NCurrent) = false /\ no_enum (NCall1 FValues NCurrent) = false /\
  no_enum (NCall1 FItems NCurrent) = false /\ no_enum (NCall1 FToString NCurrent) = false /\
  no_enum NObjectValuesCurrent = false /\ no_enum (NObjectValues NCurrent) = false /\
  no_enum (NProjectObject NCurrent NCurrent) = false /\ no_enum (NProjectObjectCurrent NCurrent) = false /\
  no_enum (NPipe (NCall1 FKeys NCurrent) (NIndexCurrent 0)) = false /\
  no_enum_lax (NCall1 FKeys NCurrent) = false.
Proof. repeat split; reflexivity. Qed.

(* ---- the side conditions are necessary ---- *)
(* a literal that is not a map (the parser never builds one) is not related to itself *)
Example static_maps_wf_needed :
  let n := NLitObj [([97], VNull); ([97], VNull)] in
  no_enum n = true /\ ~ oeq (eval VNull n VNull []) (eval VNull n VNull []).
Proof. split; [reflexivity|]. cbn. intros H. inversion H; discriminate. Qed.

Example keys_layout_dependent :
  ~ oeq (eval VNull (NCall1 FKeys NCurrent) (VObj two_a) []) (eval VNull (NCall1 FKeys NCurrent) (VObj two_b) []).
Proof.
  cbn. intros H. inversion H as [| | | | |? ? F|]; subst. inversion F as [|? ? ? ? Hk]; subst. inversion Hk.
Qed.
Example object_values_layout_dependent :
  ~ oeq (eval VNull NObjectValuesCurrent (VObj two_a) []) (eval VNull NObjectValuesCurrent (VObj two_b) []).
Proof.
  cbn. intros H. inversion H as [| | | | |? ? F|]; subst. inversion F as [|? ? ? ? Hk]; subst. inversion Hk.
Qed.

(* FINDING (model, not Go): jprint prints the members in list order and sorts
   afterwards, so with one member whose text the model does not determine and
   one that fails, the layout decides between Unmodelled and Err.
   encoding/json sorts first and reports the error in both cases. *)
Definition ts_a : list (bytes * value) :=
  [([97], VNum (NDec (DFin false 1 0))); ([98], VNum (NDec (DInf false)))].
Definition ts_b : list (bytes * value) :=
  [([98], VNum (NDec (DInf false))); ([97], VNum (NDec (DFin false 1 0)))].
Example to_string_layout_dependent :
  veq (VObj ts_a) (VObj ts_b) /\
  to_string (VObj ts_a) = Unmodelled /\ to_string (VObj ts_b) = Err EStringConversion.
Proof.
  split; [apply veq_obj_perm; [reflexivity|apply perm_swap]|]. split; reflexivity.
Qed.

Print Assumptions eval_layout_independent.
Print Assumptions eval_layout_independent_to_string.
Print Assumptions project_object_enum.
Print Assumptions jprint_veq.
