(* The canonical text of a well-formed reference expression lexes to its token
   rendering: discharges the lexing hypothesis of Proofs/ParseUnparse.v.

   lex_all_f_indep     fuel above the input length never changes lex_all_f
   lex_all_step        one successful non-End step of lex_next is one item of lex_all
   LXP F s ts          "s lexes to ts in front of every continuation satisfying F"
   token lemmas        punctuation, operators (maximal munch), white space, identifiers,
                       keywords, variables, integers, the three delimited literals
   lex_unparse         lex_all (unparse e) = map ITok (toks_of 0 e) ++ [End]  for wfr e
   *_full              the corollaries of ParseUnparse.v without the lexing hypothesis

   No condition beyond wfr is needed: str_ok (valid UTF-8) makes quoted identifiers,
   raw strings and JSON literals one token each, var_ok is exactly "$" + identifier,
   call_ok confines function names to the table (all plain identifiers), and the
   printer always puts a separator byte (space ) ] } , . [ : or the end) after an
   identifier, a variable, a number or the root, so maximal munch never merges tokens. *)
From Coq Require Import List ZArith Bool Lia.
From JM Require Import Base.Outcome Base.Bytes Base.GoInt Base.Utf8 Num.Dec Json.Value Json.JsonText
  Json.JsonPrint Model.Token Model.Lexer Model.Ast Model.Literals Model.Parser
  Spec.SpecSlice Spec.RefAst Spec.RefEval Proofs.PrattOperators Spec.Unparse Spec.Unfuse
  Proofs.LiteralRoundTrip Proofs.ParseUnparse.
From JM Require Proofs.Termination.
Import ListNotations.
Open Scope Z_scope.

(* ================================================================== *)
(* 1. Fuel independence of lex_all_f, one step of lex_all              *)
(* ================================================================== *)

Lemma lex_all_f_indep : forall f1 f2 s, (List.length s < f1)%nat -> (List.length s < f2)%nat ->
  lex_all_f f1 s = lex_all_f f2 s.
Proof.
  induction f1 as [|f1 IH]; intros f2 s H1 H2; [lia|].
  destruct f2 as [|f2]; [lia|].
  rewrite !Termination.lex_all_f_S.
  destruct (lex_next s) as [[t rest]|e| | |] eqn:E; try reflexivity.
  unfold ttype_eqb. destruct (ttype_eq_dec (ttyp t) TEnd) as [Ht|Ht]; [reflexivity|].
  f_equal.
  assert (Hs : s <> []) by (intros ->; cbn in E; inversion E; subst; apply Ht; reflexivity).
  pose proof (Termination.lex_next_progress s t rest Hs E Ht) as Hp.
  apply IH; lia.
Qed.

Lemma lex_all_step s t rest : lex_next s = Ok (t, rest) -> ttyp t <> TEnd ->
  lex_all s = ITok t :: lex_all rest.
Proof.
  intros E Ht. unfold lex_all. rewrite Termination.lex_all_f_S, E.
  unfold ttype_eqb. destruct (ttype_eq_dec (ttyp t) TEnd) as [Ht'|_]; [contradiction|].
  f_equal.
  assert (Hs : s <> []) by (intros ->; cbn in E; inversion E; subst; apply Ht; reflexivity).
  pose proof (Termination.lex_next_progress s t rest Hs E Ht) as Hp.
  apply lex_all_f_indep; lia.
Qed.

Lemma lex_all_nil : lex_all [] = [ITok (Tok TEnd [])].
Proof. reflexivity. Qed.

(* white space before a token is skipped *)
Lemma lex_next_ws b s : is_ws b = true -> lex_next (b :: s) = lex_next s.
Proof.
  intros Hw.
  assert (Hb : 0 <= b < 128).
  { unfold is_ws in Hw. repeat (apply orb_true_iff in Hw as [Hw|Hw]); apply Z.eqb_eq in Hw; lia. }
  unfold lex_next at 1. cbn [List.length skip_ws]. rewrite dr_ascii by assumption. cbn [bind]. rewrite Hw.
  change (drop 1 (b :: s)) with s.
  destruct s as [|c s']; [reflexivity|]. reflexivity.
Qed.

Lemma lex_all_ws b s : is_ws b = true -> lex_all (b :: s) = lex_all s.
Proof.
  intros Hw. unfold lex_all. cbn [List.length].
  rewrite (Termination.lex_all_f_S (S (List.length s))), (lex_next_ws b s Hw), <- Termination.lex_all_f_S.
  apply lex_all_f_indep; lia.
Qed.

Lemma lex_all_sp s : lex_all (32 :: s) = lex_all s.
Proof. apply lex_all_ws. reflexivity. Qed.

(* ================================================================== *)
(* 2. "s lexes to ts in front of every continuation satisfying F"      *)
(* ================================================================== *)

Definition LXP (F : bytes -> Prop) (s : bytes) (ts : list token) : Prop :=
  forall rest, F rest -> lex_all (s ++ rest) = map ITok ts ++ lex_all rest.

Lemma LXP_app (F1 F2 : bytes -> Prop) s1 s2 ts1 ts2 :
  LXP F1 s1 ts1 -> LXP F2 s2 ts2 -> (forall rest, F2 rest -> F1 (s2 ++ rest)) ->
  LXP F2 (s1 ++ s2) (ts1 ++ ts2).
Proof.
  intros H1 H2 HF rest Hr. rewrite <- app_assoc, H1 by (apply HF, Hr).
  rewrite H2 by assumption. rewrite map_app, <- app_assoc. reflexivity.
Qed.

Lemma LXP_weaken (F1 F2 : bytes -> Prop) s ts : (forall r, F2 r -> F1 r) -> LXP F1 s ts -> LXP F2 s ts.
Proof. intros H H1 rest Hr. apply H1, H, Hr. Qed.

Lemma LXP_nil F : LXP F [] [].
Proof. intros rest _. reflexivity. Qed.

(* a continuation that cannot extend an identifier, a variable, a number or $:
   the end of the input or an ASCII byte that is not a letter, digit or underscore *)
Definition sepb (b : Z) : bool := (0 <=? b) && (b <? 128) && negb (is_alnum_ b).
Definition fol (rest : bytes) : Prop := match rest with [] => True | b :: _ => sepb b = true end.
Definition anyf (rest : bytes) : Prop := True.
(* the continuation starts with a byte satisfying P *)
Definition hdP (P : Z -> Prop) (s : bytes) : Prop := exists b t, s = b :: t /\ P b.

Notation LX := (LXP fol).
Notation LXa := (LXP anyf).

Lemma fol_app s rest : fol s -> fol rest -> fol (s ++ rest).
Proof. destruct s; cbn [app fol]; auto. Qed.

Lemma hdP_app P s rest : hdP P s -> hdP P (s ++ rest).
Proof. intros (b & t & -> & H). exists b, (t ++ rest). split; [reflexivity|assumption]. Qed.

Lemma LXa_LX s ts : LXa s ts -> LX s ts.
Proof. apply LXP_weaken. intros; exact I. Qed.

Lemma LXa_any F s ts : LXa s ts -> LXP F s ts.
Proof. apply LXP_weaken. intros; exact I. Qed.

(* s1 then s2, where s2 starts with a separator (or is empty) *)
Lemma LX_app s1 s2 ts1 ts2 : LX s1 ts1 -> LX s2 ts2 -> fol s2 -> LX (s1 ++ s2) (ts1 ++ ts2).
Proof. intros H1 H2 Hf. apply (LXP_app fol fol); auto. intros rest Hr. apply fol_app; assumption. Qed.

(* an unconditional token first *)
Lemma LXa_app F s1 s2 ts1 ts2 : LXa s1 ts1 -> LXP F s2 ts2 -> LXP F (s1 ++ s2) (ts1 ++ ts2).
Proof. intros H1 H2. apply (LXP_app anyf F); auto. intros; exact I. Qed.

(* a token with a condition on the next byte, then a text whose first byte meets it *)
Lemma LXh_app (P : Z -> Prop) F s1 s2 ts1 ts2 :
  LXP (hdP P) s1 ts1 -> LXP F s2 ts2 -> hdP P s2 -> LXP F (s1 ++ s2) (ts1 ++ ts2).
Proof. intros H1 H2 Hh. apply (LXP_app (hdP P) F); auto. intros rest _. apply hdP_app, Hh. Qed.

(* from one step of lex_next *)
Lemma LXP_tok (F : bytes -> Prop) s t :
  ttyp t <> TEnd -> (forall rest, F rest -> lex_next (s ++ rest) = Ok (t, rest)) -> LXP F s [t].
Proof. intros Ht H rest Hr. cbn [map app]. apply lex_all_step; [apply H, Hr|assumption]. Qed.

Lemma LXP_sp F s ts : LXP F s ts -> LXP F (32 :: s) ts.
Proof. intros H rest Hr. cbn [app]. rewrite lex_all_sp. apply H, Hr. Qed.

(* ================================================================== *)
(* 3. Punctuation and operators                                        *)
(* ================================================================== *)

Lemma take_app_len (e t : bytes) n : n = Z.of_nat (List.length e) -> take n (e ++ t) = e.
Proof.
  intros ->. unfold take. rewrite Nat2Z.id.
  rewrite firstn_app, Nat.sub_diag, firstn_all. cbn [firstn]. apply app_nil_r.
Qed.

Ltac lex1 := intros; unfold lex_next; rewrite lex_next_first by (try reflexivity; lia); reflexivity.

(* ---- single-byte tokens that never merge with what follows ---- *)
Lemma lex_next_modulo s : lex_next (37 :: s) = Ok (pk TModulo, s). Proof. lex1. Qed.
Lemma lex_next_oparen s : lex_next (40 :: s) = Ok (pk TOpenParen, s). Proof. lex1. Qed.
Lemma lex_next_cparen s : lex_next (41 :: s) = Ok (pk TCloseParen, s). Proof. lex1. Qed.
Lemma lex_next_asterisk s : lex_next (42 :: s) = Ok (pk TAsterisk, s). Proof. lex1. Qed.
Lemma lex_next_add s : lex_next (43 :: s) = Ok (pk TAdd, s). Proof. lex1. Qed.
Lemma lex_next_comma s : lex_next (44 :: s) = Ok (pk TComma, s). Proof. lex1. Qed.
Lemma lex_next_colon s : lex_next (58 :: s) = Ok (pk TColon, s). Proof. lex1. Qed.
Lemma lex_next_current s : lex_next (64 :: s) = Ok (pk TCurrent, s). Proof. lex1. Qed.
Lemma lex_next_csq s : lex_next (93 :: s) = Ok (pk TCloseSqBrace, s). Proof. lex1. Qed.
Lemma lex_next_obrace s : lex_next (123 :: s) = Ok (pk TOpenBrace, s). Proof. lex1. Qed.
Lemma lex_next_cbrace s : lex_next (125 :: s) = Ok (pk TCloseBrace, s). Proof. lex1. Qed.

Ltac tok1 L := apply LXP_tok; [discriminate|intros rest _; apply L].

Lemma LX_modulo : LXa [37] [pk TModulo]. Proof. tok1 lex_next_modulo. Qed.
Lemma LX_oparen : LXa [40] [pk TOpenParen]. Proof. tok1 lex_next_oparen. Qed.
Lemma LX_cparen : LXa [41] [pk TCloseParen]. Proof. tok1 lex_next_cparen. Qed.
Lemma LX_asterisk : LXa [42] [pk TAsterisk]. Proof. tok1 lex_next_asterisk. Qed.
Lemma LX_add : LXa [43] [pk TAdd]. Proof. tok1 lex_next_add. Qed.
Lemma LX_comma : LXa [44] [pk TComma]. Proof. tok1 lex_next_comma. Qed.
Lemma LX_colon : LXa [58] [pk TColon]. Proof. tok1 lex_next_colon. Qed.
Lemma LX_current : LXa [64] [pk TCurrent]. Proof. tok1 lex_next_current. Qed.
Lemma LX_csq : LXa [93] [pk TCloseSqBrace]. Proof. tok1 lex_next_csq. Qed.
Lemma LX_obrace : LXa [123] [pk TOpenBrace]. Proof. tok1 lex_next_obrace. Qed.
Lemma LX_cbrace : LXa [125] [pk TCloseBrace]. Proof. tok1 lex_next_cbrace. Qed.

(* ---- one- or two-byte operators: maximal munch ---- *)
Lemma two_yes c d s t2 t1 : 0 <= d < 128 -> two (c :: d :: s) 1 d t2 t1 = Ok (Tok t2 [c; d], s).
Proof.
  intros Hd. unfold two, next_is. change (drop 1 (c :: d :: s)) with (d :: s).
  rewrite dr_ascii by assumption. rewrite Z.eqb_refl. reflexivity.
Qed.

Lemma two_no c b s x t2 t1 : 0 <= b < 128 -> b <> x -> two (c :: b :: s) 1 x t2 t1 = Ok (Tok t1 [c], b :: s).
Proof.
  intros Hb Hx. unfold two, next_is. change (drop 1 (c :: b :: s)) with (b :: s).
  rewrite dr_ascii by assumption. destruct (Z.eqb_spec b x); [contradiction|]. reflexivity.
Qed.

Lemma lex_next_38 s : lex_next (38 :: s) = two (38 :: s) 1 38 TAnd TExpression. Proof. lex1. Qed.
Lemma lex_next_46 s : lex_next (46 :: s) = two (46 :: s) 1 42 TObjectWildcard TDot. Proof. lex1. Qed.
Lemma lex_next_47 s : lex_next (47 :: s) = two (47 :: s) 1 47 TIntegerDivide TDivide. Proof. lex1. Qed.
Lemma lex_next_60 s : lex_next (60 :: s) = two (60 :: s) 1 61 TLessOrEqual TLess. Proof. lex1. Qed.
Lemma lex_next_61 s : lex_next (61 :: s) = two (61 :: s) 1 61 TEqual TAssign. Proof. lex1. Qed.
Lemma lex_next_62 s : lex_next (62 :: s) = two (62 :: s) 1 61 TGreaterOrEqual TGreater. Proof. lex1. Qed.
Lemma lex_next_124 s : lex_next (124 :: s) = two (124 :: s) 1 124 TOr TPipe. Proof. lex1. Qed.
Lemma lex_next_33 s : lex_next (33 :: s) = two (33 :: s) 1 61 TNotEqual TNot. Proof. lex1. Qed.

(* the next byte is ASCII and differs from x *)
Definition nb (x : Z) (b : Z) : Prop := 0 <= b < 128 /\ b <> x.

Ltac tok2 L := apply LXP_tok; [discriminate|intros rest _; cbn [app]; rewrite L; apply two_yes; lia].
Ltac tok2n L := apply LXP_tok; [discriminate|
  intros rest (b & t & -> & Hb & Hx); cbn [app]; rewrite L; apply two_no; assumption].

Lemma LX_and : LXa [38; 38] [pk TAnd]. Proof. tok2 lex_next_38. Qed.
Lemma LX_objwild : LXa [46; 42] [pk TObjectWildcard]. Proof. tok2 lex_next_46. Qed.
Lemma LX_idiv : LXa [47; 47] [pk TIntegerDivide]. Proof. tok2 lex_next_47. Qed.
Lemma LX_le : LXa [60; 61] [pk TLessOrEqual]. Proof. tok2 lex_next_60. Qed.
Lemma LX_eq : LXa [61; 61] [pk TEqual]. Proof. tok2 lex_next_61. Qed.
Lemma LX_ge : LXa [62; 61] [pk TGreaterOrEqual]. Proof. tok2 lex_next_62. Qed.
Lemma LX_or : LXa [124; 124] [pk TOr]. Proof. tok2 lex_next_124. Qed.
Lemma LX_ne : LXa [33; 61] [pk TNotEqual]. Proof. tok2 lex_next_33. Qed.

Lemma LX_expref : LXP (hdP (nb 38)) [38] [pk TExpression]. Proof. tok2n lex_next_38. Qed.
Lemma LX_dot : LXP (hdP (nb 42)) [46] [pk TDot]. Proof. tok2n lex_next_46. Qed.
Lemma LX_div : LXP (hdP (nb 47)) [47] [pk TDivide]. Proof. tok2n lex_next_47. Qed.
Lemma LX_lt : LXP (hdP (nb 61)) [60] [pk TLess]. Proof. tok2n lex_next_60. Qed.
Lemma LX_assign : LXP (hdP (nb 61)) [61] [pk TAssign]. Proof. tok2n lex_next_61. Qed.
Lemma LX_gt : LXP (hdP (nb 61)) [62] [pk TGreater]. Proof. tok2n lex_next_62. Qed.
Lemma LX_pipe : LXP (hdP (nb 124)) [124] [pk TPipe]. Proof. tok2n lex_next_124. Qed.
Lemma LX_not : LXP (hdP (nb 61)) [33] [pk TNot]. Proof. tok2n lex_next_33. Qed.

(* ---- minus: an operator unless a digit follows ---- *)
Lemma lex_next_45 s : lex_next (45 :: s) =
  match dr s with
  | Ok (nr, nsz) =>
    if is_dig nr then Lexer.mk TIntegerLiteral (1 + nsz + span is_dig (drop (1 + nsz) (45 :: s))) (45 :: s)
    else Lexer.mk TSubtract 1 (45 :: s)
  | _ => Lexer.mk TSubtract 1 (45 :: s)
  end.
Proof. lex1. Qed.

Definition nodigit (b : Z) : Prop := 0 <= b < 128 /\ is_dig b = false.

Lemma LX_subtract : LXP (hdP nodigit) [45] [pk TSubtract].
Proof.
  apply LXP_tok; [discriminate|]. intros rest (b & t & -> & Hb & Hd). cbn [app].
  rewrite lex_next_45, dr_ascii by assumption. rewrite Hd. reflexivity.
Qed.

(* ---- the bracket family ---- *)
Lemma lex_next_91 s : lex_next (91 :: s) =
  match dr s with
  | Ok (nr, nsz) =>
    if nr =? 42 then
      match next_is (91 :: s) (1 + nsz) 93 with
      | Some w => Lexer.mk TArrayWildcard w (91 :: s)
      | None => Lexer.mk TOpenSqBrace 1 (91 :: s)
      end
    else if nr =? 63 then Lexer.mk TFilter (1 + nsz) (91 :: s)
    else if nr =? 93 then Lexer.mk TFlatten (1 + nsz) (91 :: s)
    else Lexer.mk TOpenSqBrace 1 (91 :: s)
  | _ => Lexer.mk TOpenSqBrace 1 (91 :: s)
  end.
Proof. lex1. Qed.

Lemma LX_arrwild : LXa [91; 42; 93] [pk TArrayWildcard].
Proof.
  apply LXP_tok; [discriminate|]. intros rest _. cbn [app].
  rewrite lex_next_91, dr_ascii by lia. cbn [Z.eqb Pos.eqb]. unfold next_is.
  change (drop (1 + 1) (91 :: 42 :: 93 :: rest)) with (93 :: rest).
  rewrite dr_ascii by lia. reflexivity.
Qed.

Lemma LX_filter : LXa [91; 63] [pk TFilter].
Proof.
  apply LXP_tok; [discriminate|]. intros rest _. cbn [app].
  rewrite lex_next_91, dr_ascii by lia. reflexivity.
Qed.

Lemma LX_flatten : LXa [91; 93] [pk TFlatten].
Proof.
  apply LXP_tok; [discriminate|]. intros rest _. cbn [app].
  rewrite lex_next_91, dr_ascii by lia. reflexivity.
Qed.

Definition osq_next (b : Z) : Prop := 0 <= b < 128 /\ b <> 42 /\ b <> 63 /\ b <> 93.

Lemma LX_osq : LXP (hdP osq_next) [91] [pk TOpenSqBrace].
Proof.
  apply LXP_tok; [discriminate|]. intros rest (b & t & -> & Hb & H1 & H2 & H3). cbn [app].
  rewrite lex_next_91, dr_ascii by assumption.
  destruct (Z.eqb_spec b 42); [contradiction|].
  destruct (Z.eqb_spec b 63); [contradiction|].
  destruct (Z.eqb_spec b 93); [contradiction|]. reflexivity.
Qed.

(* ---- binary operators as the printer writes them: a space on both sides ---- *)
Lemma hdP_cons (P : Z -> Prop) b t : P b -> hdP P (b :: t).
Proof. intros H. exists b, t. auto. Qed.

Lemma LXa_spop (P : Z -> Prop) op t : P 32 -> LXP (hdP P) op [t] -> LXa (sp op) [t].
Proof.
  intros HP H rest _. unfold sp. cbn [app]. rewrite lex_all_sp, <- app_assoc. cbn [app].
  rewrite H by (apply hdP_cons, HP). rewrite lex_all_sp. reflexivity.
Qed.

Lemma LXa_spop_a op t : LXa op [t] -> LXa (sp op) [t].
Proof.
  intros H rest _. unfold sp. cbn [app]. rewrite lex_all_sp, <- app_assoc. cbn [app].
  rewrite H by exact I. rewrite lex_all_sp. reflexivity.
Qed.

Lemma LX_cmp op : LXa (sp (cmp_text op)) [pk (cmp_ttype op)].
Proof.
  destruct op; cbn [cmp_text cmp_ttype].
  - apply LXa_spop_a, LX_eq.
  - apply LXa_spop_a, LX_ne.
  - apply (LXa_spop (nb 61)); [unfold nb; lia|apply LX_lt].
  - apply LXa_spop_a, LX_le.
  - apply (LXa_spop (nb 61)); [unfold nb; lia|apply LX_gt].
  - apply LXa_spop_a, LX_ge.
Qed.

Lemma LX_ar op : LXa (sp (ar_text op)) [pk (ar_ttype op)].
Proof.
  destruct op; cbn [ar_text ar_ttype].
  - apply LXa_spop_a, LX_add.
  - apply (LXa_spop nodigit); [unfold nodigit; split; [lia|reflexivity]|apply LX_subtract].
  - apply LXa_spop_a, LX_asterisk.
  - apply (LXa_spop (nb 47)); [unfold nb; lia|apply LX_div].
  - apply LXa_spop_a, LX_idiv.
  - apply LXa_spop_a, LX_modulo.
Qed.

Lemma LX_sp_pipe : LXa (sp [124]) [pk TPipe].
Proof. apply (LXa_spop (nb 124)); [unfold nb; lia|apply LX_pipe]. Qed.
Lemma LX_sp_or : LXa (sp [124; 124]) [pk TOr].
Proof. apply LXa_spop_a, LX_or. Qed.
Lemma LX_sp_and : LXa (sp [38; 38]) [pk TAnd].
Proof. apply LXa_spop_a, LX_and. Qed.
Lemma LX_sp_assign : LXa (sp [61]) [pk TAssign].
Proof. apply (LXa_spop (nb 61)); [unfold nb; lia|apply LX_assign]. Qed.

(* ================================================================== *)
(* 4. Identifiers, keywords, variables, the root, integers             *)
(* ================================================================== *)

Lemma is_alpha_range c : is_alpha_ c = true -> 65 <= c <= 90 \/ 97 <= c <= 122 \/ c = 95.
Proof.
  unfold is_alpha_. intros H.
  apply orb_true_iff in H as [H|H]; [apply orb_true_iff in H as [H|H]|].
  - apply andb_true_iff in H as [H1 H2]. apply Z.leb_le in H1, H2. lia.
  - apply andb_true_iff in H as [H1 H2]. apply Z.leb_le in H1, H2. lia.
  - apply Z.eqb_eq in H. lia.
Qed.

Lemma is_dig_range c : is_dig c = true -> 48 <= c <= 57.
Proof. unfold is_dig. intros H. apply andb_true_iff in H as [H1 H2]. apply Z.leb_le in H1, H2. lia. Qed.

Lemma is_dig_alpha c : is_alpha_ c = true -> is_dig c = false.
Proof.
  intros H. apply is_alpha_range in H. unfold is_dig.
  destruct (Z.leb_spec 48 c), (Z.leb_spec c 57); cbn [andb]; try reflexivity. lia.
Qed.

Lemma sepb_inv b : sepb b = true -> 0 <= b < 128 /\ is_alnum_ b = false.
Proof.
  unfold sepb. intros H. apply andb_true_iff in H as [H H3]. apply andb_true_iff in H as [H1 H2].
  apply Z.leb_le in H1. apply Z.ltb_lt in H2. apply negb_true_iff in H3. auto.
Qed.

Lemma alnum_false b : is_alnum_ b = false -> is_dig b = false /\ is_alpha_ b = false.
Proof. unfold is_alnum_. intros H. apply orb_false_iff in H. exact H. Qed.

Lemma span_app p w rest : forallb p w = true ->
  match rest with [] => True | b :: _ => p b = false end ->
  span p (w ++ rest) = Z.of_nat (List.length w).
Proof.
  intros Hw Hr. induction w as [|x w IH]; cbn [app].
  - destruct rest as [|b r]; cbn [span List.length]; [reflexivity|]. rewrite Hr. reflexivity.
  - cbn [forallb] in Hw. apply andb_true_iff in Hw as [Hx Hw]. cbn [span List.length].
    rewrite Hx, IH by assumption. lia.
Qed.

Ltac kill_eqb c :=
  repeat match goal with
  | |- context [Z.eqb c ?k] => replace (Z.eqb c k) with false by (symmetry; apply Z.eqb_neq; lia)
  end.

(* the type of a word *)
Definition word_type (v : bytes) : ttype :=
  if beqb v kw_in then TIn else if beqb v kw_let then TLet else TUnquotedIdentifier.

Lemma lex_next_word c w rest : is_alpha_ c = true -> forallb is_alnum_ w = true -> fol rest ->
  lex_next (c :: w ++ rest) = Ok (Tok (word_type (c :: w)) (c :: w), rest).
Proof.
  intros Hc Hw Hf. pose proof (is_alpha_range c Hc) as R.
  unfold lex_next. rewrite lex_next_first; [|lia|].
  2:{ unfold is_ws. kill_eqb c. reflexivity. }
  cbn [bind]. kill_eqb c. rewrite (is_dig_alpha c Hc), Hc.
  change (drop 1 (c :: w ++ rest)) with (w ++ rest).
  rewrite span_app; [|assumption|].
  2:{ destruct rest as [|b r]; [exact I|]. cbn [fol] in Hf. apply sepb_inv in Hf. tauto. }
  unfold Lexer.mk. change (c :: w ++ rest) with ((c :: w) ++ rest).
  rewrite take_app_len, drop_app by (cbn [List.length]; lia). reflexivity.
Qed.

Lemma word_type_cases v : word_type v = TIn \/ word_type v = TLet \/ word_type v = TUnquotedIdentifier.
Proof. unfold word_type. destruct (beqb v kw_in); auto. destruct (beqb v kw_let); auto. Qed.

Lemma LX_word c w : is_alpha_ c = true -> forallb is_alnum_ w = true ->
  LX (c :: w) [Tok (word_type (c :: w)) (c :: w)].
Proof.
  intros Hc Hw. apply LXP_tok.
  - cbn [ttyp]. destruct (word_type_cases (c :: w)) as [E|[E|E]]; rewrite E; discriminate.
  - intros rest Hf. apply lex_next_word; assumption.
Qed.

Lemma LX_let : LX [108; 101; 116] [pk TLet].
Proof. apply (LX_word 108 [101; 116]); reflexivity. Qed.
Lemma LX_in : LX [105; 110] [pk TIn].
Proof. apply (LX_word 105 [110]); reflexivity. Qed.

Lemma is_ident_char_alnum b : is_ident_char b = is_alnum_ b.
Proof. unfold is_ident_char, is_alnum_, is_dig. apply orb_comm. Qed.

Lemma plain_ident_inv s : plain_ident s = true ->
  exists c w, s = c :: w /\ is_alpha_ c = true /\ forallb is_alnum_ w = true /\
              word_type s = TUnquotedIdentifier.
Proof.
  destruct s as [|c w]; [discriminate|]. unfold plain_ident. intros H.
  apply andb_true_iff in H as [H H4]. apply andb_true_iff in H as [H H3]. apply andb_true_iff in H as [H1 H2].
  exists c, w. split; [reflexivity|]. split; [exact H1|]. split.
  - rewrite <- H2. clear. induction w as [|b w IH]; [reflexivity|].
    cbn [forallb]. rewrite IH, is_ident_char_alnum. reflexivity.
  - unfold word_type. apply negb_true_iff in H3, H4.
    change kw_in with [105; 110]. change kw_let with [108; 101; 116]. rewrite H4, H3. reflexivity.
Qed.

Lemma LX_plain s : plain_ident s = true -> LX s [Tok TUnquotedIdentifier s].
Proof.
  intros H. destruct (plain_ident_inv s H) as (c & w & -> & Hc & Hw & Ht).
  rewrite <- Ht. apply LX_word; assumption.
Qed.

(* ---- $ and $name ---- *)
Lemma lex_next_36 s : lex_next (36 :: s) =
  match dr s with
  | Ok (nr, nsz) =>
    if is_alpha_ nr then
      Lexer.mk TVariable (1 + nsz + span is_alnum_ (drop (1 + nsz) (36 :: s))) (36 :: s)
    else Lexer.mk TRoot 1 (36 :: s)
  | _ => Lexer.mk TRoot 1 (36 :: s)
  end.
Proof. lex1. Qed.

Lemma LX_root : LX [36] [pk TRoot].
Proof.
  apply LXP_tok; [discriminate|]. intros rest Hf. cbn [app]. rewrite lex_next_36.
  destruct rest as [|b r]; [reflexivity|]. cbn [fol] in Hf. apply sepb_inv in Hf as [Hb Ha].
  apply alnum_false in Ha as [_ Ha]. rewrite dr_ascii by assumption. rewrite Ha. reflexivity.
Qed.

Lemma var_ok_inv name : var_ok name = true ->
  exists c w, name = 36 :: c :: w /\ is_alpha_ c = true /\ forallb is_alnum_ w = true.
Proof.
  unfold var_ok. destruct name as [|d [|c w]]; try discriminate.
  - destruct d as [|p|p]; try discriminate. do 6 (destruct p as [p|p|]; try discriminate).
  - intros H. assert (d = 36).
    { destruct d as [|p|p]; try discriminate. do 6 (destruct p as [p|p|]; try discriminate). reflexivity. }
    subst d. apply andb_true_iff in H as [H1 H2]. exists c, w. auto.
Qed.

Lemma LX_var name : var_ok name = true -> LX name [Tok TVariable name].
Proof.
  intros H. destruct (var_ok_inv name H) as (c & w & -> & Hc & Hw).
  apply LXP_tok; [discriminate|]. intros rest Hf. cbn [app]. rewrite lex_next_36.
  pose proof (is_alpha_range c Hc) as R. rewrite dr_ascii by lia. rewrite Hc.
  change (drop (1 + 1) (36 :: c :: w ++ rest)) with (w ++ rest).
  rewrite span_app; [|assumption|].
  2:{ destruct rest as [|b r]; [exact I|]. cbn [fol] in Hf. apply sepb_inv in Hf. tauto. }
  unfold Lexer.mk. change (36 :: c :: w ++ rest) with ((36 :: c :: w) ++ rest).
  rewrite take_app_len, drop_app by (cbn [List.length]; lia). reflexivity.
Qed.

(* ---- integers ---- *)
Lemma digits_of_f_digits : forall fuel c acc, 0 <= c -> forallb is_dig acc = true ->
  forallb is_dig (digits_of_f fuel c acc) = true.
Proof.
  induction fuel as [|f IH]; intros c acc Hc Ha; cbn [digits_of_f]; [assumption|].
  destruct (Z.ltb_spec c 10).
  - cbn [forallb]. rewrite Ha, andb_true_r. unfold is_dig. apply andb_true_iff. split; apply Z.leb_le; lia.
  - apply IH; [apply Z.div_pos; lia|]. cbn [forallb]. rewrite Ha, andb_true_r.
    pose proof (Z.mod_pos_bound c 10 ltac:(lia)). unfold is_dig. apply andb_true_iff. split; apply Z.leb_le; lia.
Qed.

Lemma digits_of_f_length : forall fuel c acc, (List.length acc <= List.length (digits_of_f fuel c acc))%nat.
Proof.
  induction fuel as [|f IH]; intros c acc; cbn [digits_of_f]; [lia|].
  destruct (c <? 10); [cbn [List.length]; lia|].
  specialize (IH (c / 10) ((48 + c mod 10) :: acc)). cbn [List.length] in IH. lia.
Qed.

Lemma digits_of_shape c : 0 <= c -> exists d ds, digits_of c = d :: ds /\ is_dig d = true /\ forallb is_dig ds = true.
Proof.
  intros Hc. unfold digits_of. rewrite Z.abs_eq by assumption.
  pose proof (digits_of_f_digits (S (Z.to_nat (Z.log2 c))) c [] Hc eq_refl) as Hd.
  assert (Hl : (1 <= List.length (digits_of_f (S (Z.to_nat (Z.log2 c))) c []))%nat).
  { cbn [digits_of_f]. destruct (c <? 10); [cbn [List.length]; lia|].
    pose proof (digits_of_f_length (Z.to_nat (Z.log2 c)) (c / 10) [48 + c mod 10]) as H. cbn [List.length] in H. lia. }
  destruct (digits_of_f (S (Z.to_nat (Z.log2 c))) c []) as [|d ds]; [cbn in Hl; lia|].
  cbn [forallb] in Hd. apply andb_true_iff in Hd as [H1 H2]. exists d, ds. auto.
Qed.

(* a continuation that cannot extend a number *)
Definition folz (rest : bytes) : Prop := match rest with [] => True | b :: _ => is_dig b = false end.

Lemma lex_next_digits d ds rest : is_dig d = true -> forallb is_dig ds = true -> folz rest ->
  lex_next (d :: ds ++ rest) = Ok (Tok TIntegerLiteral (d :: ds), rest).
Proof.
  intros Hd Hds Hf. pose proof (is_dig_range d Hd) as R.
  unfold lex_next. rewrite lex_next_first; [|lia|].
  2:{ unfold is_ws. kill_eqb d. reflexivity. }
  cbn [bind]. kill_eqb d. rewrite Hd.
  change (drop 1 (d :: ds ++ rest)) with (ds ++ rest).
  rewrite span_app by assumption.
  unfold Lexer.mk. change (d :: ds ++ rest) with ((d :: ds) ++ rest).
  rewrite take_app_len, drop_app by (cbn [List.length]; lia). reflexivity.
Qed.

Lemma lex_next_neg_digits d ds rest : is_dig d = true -> forallb is_dig ds = true -> folz rest ->
  lex_next (45 :: d :: ds ++ rest) = Ok (Tok TIntegerLiteral (45 :: d :: ds), rest).
Proof.
  intros Hd Hds Hf. pose proof (is_dig_range d Hd) as R.
  rewrite lex_next_45, dr_ascii by lia. rewrite Hd.
  change (drop (1 + 1) (45 :: d :: ds ++ rest)) with (ds ++ rest).
  rewrite span_app by assumption.
  unfold Lexer.mk. change (45 :: d :: ds ++ rest) with ((45 :: d :: ds) ++ rest).
  rewrite take_app_len, drop_app by (cbn [List.length]; lia). reflexivity.
Qed.

Lemma LX_int z : LXP folz (Z_to_bytes z) [int_tok z].
Proof.
  apply LXP_tok; [discriminate|]. intros rest Hf. unfold int_tok, Z_to_bytes.
  destruct (Z.ltb_spec z 0).
  - destruct (digits_of_shape (- z) ltac:(lia)) as (d & ds & -> & Hd & Hds). cbn [app].
    apply lex_next_neg_digits; assumption.
  - destruct (digits_of_shape z H) as (d & ds & -> & Hd & Hds). cbn [app].
    apply lex_next_digits; assumption.
Qed.

(* the first byte of an integer: a digit or the minus sign *)
Lemma Z_to_bytes_head z : hdP (fun b => 48 <= b <= 57 \/ b = 45) (Z_to_bytes z).
Proof.
  unfold Z_to_bytes. destruct (Z.ltb_spec z 0).
  - eexists _, _. split; [reflexivity|]. lia.
  - destruct (digits_of_shape z H) as (d & ds & -> & Hd & _). apply is_dig_range in Hd.
    eexists _, _. split; [reflexivity|]. lia.
Qed.

(* ================================================================== *)
(* 5. The three delimited literals, with a continuation                *)
(* ================================================================== *)

Lemma lex_next_delimited_rest t delim body rest :
  0 <= delim < 128 -> delim <> 92 -> ebody delim body ->
  (forall s, lex_next (delim :: s) = delimited t delim (delim :: s) 1) ->
  lex_next ((delim :: body ++ [delim]) ++ rest) = Ok (Tok t (delim :: body ++ [delim]), rest).
Proof.
  intros Hd Hd92 Hb Hl. cbn [app]. rewrite Hl. unfold delimited.
  change (drop 1 (delim :: (body ++ [delim]) ++ rest)) with ((body ++ [delim]) ++ rest).
  rewrite <- app_assoc. cbn [app].
  rewrite (scan_delim_body delim Hd Hd92 body Hb) by (cbn [List.length]; rewrite app_length; lia).
  cbn [bind]. unfold Lexer.mk.
  change (delim :: body ++ delim :: rest) with ((delim :: body) ++ [delim] ++ rest).
  rewrite app_assoc.
  rewrite take_app_len, drop_app; [reflexivity| |];
    cbn [List.length]; rewrite app_length; cbn [List.length]; lia.
Qed.

Lemma LX_raw s : str_ok s = true -> LXa (39 :: rescape s ++ [39]) [raw_tok s].
Proof.
  intros H. destruct (str_ok_inv s H) as (cs & Hcs & ->).
  apply LXP_tok; [discriminate|]. intros rest _. unfold raw_tok.
  apply lex_next_delimited_rest; try lia; [apply ebody_rescape, Hcs|apply lex_next_39].
Qed.

Lemma LX_quoted s : str_ok s = true -> LXa (34 :: qescape s ++ [34]) [Tok TQuotedIdentifier (34 :: qescape s ++ [34])].
Proof.
  intros H. destruct (str_ok_inv s H) as (cs & Hcs & ->).
  apply LXP_tok; [discriminate|]. intros rest _.
  apply lex_next_delimited_rest; try lia; [apply ebody_qescape, Hcs|apply lex_next_34].
Qed.

Lemma LX_lit v : json_text_ok v = true -> LXa (96 :: btick_escape (lit_text v) ++ [96]) [lit_tok v].
Proof.
  intros H. apply LXP_tok; [discriminate|]. intros rest _. unfold lit_tok.
  apply lex_next_delimited_rest; try lia; [|apply lex_next_96].
  eapply ebody_btick_escape, jtext_lit_text, H.
Qed.

Lemma LX_ident s : str_ok s = true -> LX (show_ident s) [ident_tok s].
Proof.
  intros H. unfold show_ident, ident_tok. destruct (plain_ident s) eqn:E.
  - apply LX_plain, E.
  - apply LXa_LX, LX_quoted, H.
Qed.

(* ================================================================== *)
(* 6. Shapes of the printed text                                       *)
(* ================================================================== *)

Lemma show_q p e :
  show p e = if level e <? p then paren (show (level e) e) else show (level e) e.
Proof. destruct e; cbn [show level]; rewrite Z.ltb_irrefl; reflexivity. Qed.

Lemma LX_paren body ts : LX body ts -> LX (paren body) (wrapt ts).
Proof.
  intros H. unfold paren, wrapt.
  apply (LXa_app fol [40] (body ++ [41]) [pk TOpenParen] (ts ++ [pk TCloseParen]) LX_oparen).
  apply LX_app; [assumption|apply LXa_LX, LX_cparen|reflexivity].
Qed.

Lemma LX_q e : LX (show (level e) e) (toks_of (level e) e) -> forall p, LX (show p e) (toks_of p e).
Proof.
  intros H p. rewrite show_q, toks_of_q. destruct (level e <? p); [apply LX_paren|]; assumption.
Qed.

(* projection selectors *)
Definition ktext (k : projkind) : bytes :=
  match k with
  | PList => [91; 42; 93]
  | PSlice a b c => slice_text a b c
  | PFlatten => [91; 93]
  | PFilter cond => 91 :: 63 :: show L_PIPE cond ++ [93]
  | PValues => [46; 42]
  end.
Definition ktext0 (k : projkind) : bytes := match k with PValues => [42] | _ => ktext k end.

Lemma show_proj_cur k r : show L_PROJ (RProj k RCurrent r) = ktext0 k ++ show_rhs r.
Proof. destruct k; reflexivity. Qed.

Lemma show_proj_ncur k l r : l <> RCurrent ->
  show L_PROJ (RProj k l r) = show (lq k) l ++ ktext k ++ show_rhs r.
Proof. intros H. destruct l; try congruence; destruct k; reflexivity. Qed.

Lemma show_rhs_proj k l r : show_rhs (RProj k l r) = show_rhs l ++ ktext k ++ show_rhs r.
Proof. destruct k; reflexivity. Qed.

Lemma fol_ktext k X : fol (ktext k ++ X).
Proof. destruct k; reflexivity. Qed.

Lemma fol_show_rhs : forall r, fol (show_rhs r).
Proof.
  induction r; try exact I; try reflexivity.
  - cbn [show_rhs]. apply fol_app; [assumption|reflexivity].
  - cbn [show_rhs]. apply fol_app; [assumption|reflexivity].
  - rewrite show_rhs_proj. apply fol_app; [assumption|apply fol_ktext].
Qed.

(* ---- the first byte of a printed expression ---- *)
Definition startP (b : Z) : Prop :=
  is_alpha_ b = true \/ In b [64; 36; 34; 96; 39; 91; 123; 40; 33; 45; 43; 42].

Lemma startP_facts b : startP b -> 0 <= b < 128 /\ b <> 61 /\ b <> 38 /\ b <> 63 /\ b <> 93.
Proof.
  intros [H|H]; [apply is_alpha_range in H; lia|].
  cbn [In] in H. lia.
Qed.

Lemma assoc_In {A} k (m : list (bytes * A)) v : assoc k m = Some v -> In (k, v) m.
Proof.
  induction m as [|[k' v'] m IH]; [discriminate|]. cbn [assoc].
  destruct (beqb k k') eqn:E.
  - apply beqb_eq in E. intros H. inversion H. subst. left. reflexivity.
  - intros H. right. apply IH, H.
Qed.

Lemma function_names_plain : forallb (fun kv => plain_ident (fst kv)) function_table = true.
Proof. vm_compute. reflexivity. Qed.

Lemma call_ok_plain f args : call_ok f args = true -> plain_ident f = true.
Proof.
  unfold call_ok. destruct (assoc f function_table) as [[ap fb]|] eqn:E; [|discriminate]. intros _.
  apply assoc_In in E. pose proof function_names_plain as H. rewrite forallb_forall in H.
  apply (H _ E).
Qed.

Lemma plain_head s : plain_ident s = true -> hdP (fun b => is_alpha_ b = true) s.
Proof. intros H. destruct (plain_ident_inv s H) as (c & w & -> & Hc & _). exists c, w. auto. Qed.

Lemma hdP_impl (P Q : Z -> Prop) s : (forall b, P b -> Q b) -> hdP P s -> hdP Q s.
Proof. intros H (b & t & E & Hb). exists b, t. auto. Qed.

Lemma show_ident_head s : hdP (fun b => is_alpha_ b = true \/ b = 34) (show_ident s).
Proof.
  unfold show_ident. destruct (plain_ident s) eqn:E.
  - eapply hdP_impl; [|apply plain_head, E]. auto.
  - apply hdP_cons. auto.
Qed.

Lemma ktext0_head k X : hdP startP (ktext0 k ++ X).
Proof. destruct k; apply hdP_cons; right; cbn [In]; auto 20. Qed.

Lemma show_head : forall e, wfr e -> forall p, hdP startP (show p e).
Proof.
  assert (Hq : forall e, hdP startP (show (level e) e) -> forall p, hdP startP (show p e)).
  { intros e H p. rewrite show_q. destruct (level e <? p); [|assumption].
    apply hdP_cons. right. cbn [In]. auto 20. }
  assert (Hc : forall b t, In b [64; 36; 34; 96; 39; 91; 123; 40; 33; 45; 43; 42] -> hdP startP (b :: t)).
  { intros b t H. apply hdP_cons. right. exact H. }
  induction e; intros Hw; apply Hq; cbn [show level]; rewrite ?Z.ltb_irrefl; cbn [wfr] in Hw;
    try (apply Hc; cbn [In]; auto 20; fail).
  - (* RField *) eapply hdP_impl; [|apply show_ident_head]. intros b [H| ->]; [left; assumption|right; cbn [In]; auto].
  - (* RVar *) destruct (var_ok_inv name Hw) as (c & w & -> & _). apply Hc. cbn [In]; auto.
  - (* RSub *) apply hdP_app, IHe1, Hw.
  - (* RIndex *) apply hdP_app, IHe, Hw.
  - (* RProj *) change (hdP startP (show L_PROJ (RProj k e1 e2))).
    destruct (is_current_dec e1) as [->|Hn].
    + rewrite show_proj_cur. apply ktext0_head.
    + rewrite show_proj_ncur by assumption. apply hdP_app, IHe1, Hw.
  - apply hdP_app, IHe1, Hw.
  - apply hdP_app, IHe1, Hw.
  - apply hdP_app, IHe1, Hw.
  - apply hdP_app, IHe1, Hw.
  - destruct op; apply hdP_app, IHe1, Hw.
  - (* RCall *) destruct Hw as [Hw _]. apply hdP_app. eapply hdP_impl; [|apply plain_head, (call_ok_plain _ _ Hw)].
    intros b H; left; exact H.
  - (* RLet *) apply hdP_cons. left. reflexivity.
Qed.

(* what the grammar allows after a dot never starts with a star *)
Lemma show_head_sub r : wfr r -> sub_shape r = true -> hdP (nb 42) (show L_POST r).
Proof.
  intros Hw Hs. destruct r; try discriminate; cbn [show level]; change (L_POST <? L_POST) with false; cbv iota.
  - eapply hdP_impl; [|apply show_ident_head]. intros b [H| ->]; unfold nb; [apply is_alpha_range in H; lia|lia].
  - apply hdP_cons. unfold nb; lia.
  - apply hdP_cons. unfold nb; lia.
  - cbn [wfr] in Hw. destruct Hw as [Hw _]. apply hdP_app.
    eapply hdP_impl; [|apply plain_head, (call_ok_plain _ _ Hw)].
    intros b H. apply is_alpha_range in H. unfold nb; lia.
Qed.

(* ================================================================== *)
(* 7. Selectors, separated lists                                       *)
(* ================================================================== *)

Lemma folz_cons b t : is_dig b = false -> folz (b :: t).
Proof. intros H. exact H. Qed.

Lemma osq_int z X : hdP osq_next (Z_to_bytes z ++ X).
Proof.
  apply hdP_app. eapply hdP_impl; [|apply Z_to_bytes_head]. intros b H. cbv beta in H. unfold osq_next. lia.
Qed.

Lemma LX_index i : LXa (91 :: Z_to_bytes i ++ [93]) [pk TOpenSqBrace; int_tok i; pk TCloseSqBrace].
Proof.
  apply (LXh_app osq_next anyf [91] (Z_to_bytes i ++ [93]) [pk TOpenSqBrace] [int_tok i; pk TCloseSqBrace] LX_osq).
  - apply (LXP_app folz anyf (Z_to_bytes i) [93] [int_tok i] [pk TCloseSqBrace] (LX_int i) LX_csq).
    intros rest _. reflexivity.
  - apply osq_int.
Qed.

Lemma LX_optint a : LXP folz (opt_int a) (opt_int_tok a).
Proof. destruct a; [apply LX_int|apply LXP_nil]. Qed.

Lemma LX_slice a b c : LXa (slice_text a b c) (slice_toks a b c).
Proof.
  unfold slice_text, slice_toks.
  set (stepx := match c with Some s => 58 :: Z_to_bytes s | None => [] end).
  set (stept := match c with Some s => [pk TColon; int_tok s] | None => [] end).
  assert (H3 : LXa (stepx ++ [93]) (stept ++ [pk TCloseSqBrace])).
  { subst stepx stept. destruct c as [s|]; [|apply LX_csq].
    apply (LXa_app anyf [58] (Z_to_bytes s ++ [93]) [pk TColon] [int_tok s; pk TCloseSqBrace] LX_colon).
    apply (LXP_app folz anyf (Z_to_bytes s) [93] [int_tok s] [pk TCloseSqBrace] (LX_int s) LX_csq).
    intros rest _. reflexivity. }
  assert (H2 : LXa (opt_int b ++ stepx ++ [93]) (opt_int_tok b ++ stept ++ [pk TCloseSqBrace])).
  { apply (LXP_app folz anyf _ _ _ _ (LX_optint b) H3).
    intros rest _. subst stepx. destruct c; reflexivity. }
  assert (H1 : LXa (opt_int a ++ 58 :: opt_int b ++ stepx ++ [93])
                   (opt_int_tok a ++ pk TColon :: opt_int_tok b ++ stept ++ [pk TCloseSqBrace])).
  { apply (LXP_app folz anyf (opt_int a) (58 :: opt_int b ++ stepx ++ [93]) (opt_int_tok a)
             (pk TColon :: opt_int_tok b ++ stept ++ [pk TCloseSqBrace]) (LX_optint a)).
    - apply (LXa_app anyf [58] _ [pk TColon] _ LX_colon H2).
    - intros rest _. reflexivity. }
  apply (LXh_app osq_next anyf [91] _ [pk TOpenSqBrace] _ LX_osq H1).
  destruct a as [z|]; [apply osq_int|]. apply hdP_cons. unfold osq_next. lia.
Qed.

Lemma LX_ktext k :
  match k with PFilter c => LX (show L_PIPE c) (toks_of L_PIPE c) | _ => True end ->
  LX (ktext k) (ktoks k).
Proof.
  destruct k as [|a b c| |cond|]; intros H; cbn [ktext ktoks].
  - apply LXa_LX, LX_arrwild.
  - apply LXa_LX, LX_slice.
  - apply LXa_LX, LX_flatten.
  - apply (LXa_app fol [91; 63] (show L_PIPE cond ++ [93]) [pk TFilter] (toks_of L_PIPE cond ++ [pk TCloseSqBrace]) LX_filter).
    apply LX_app; [assumption|apply LXa_LX, LX_csq|reflexivity].
  - apply LXa_LX, LX_objwild.
Qed.

Lemma LX_ktext0 k :
  match k with PFilter c => LX (show L_PIPE c) (toks_of L_PIPE c) | _ => True end ->
  LX (ktext0 k) (ktoks0 k).
Proof.
  destruct k as [|a b c| |cond|].
  - apply (LX_ktext PList).
  - apply (LX_ktext (PSlice a b c)).
  - apply (LX_ktext PFlatten).
  - apply (LX_ktext (PFilter cond)).
  - intros _. apply LXa_LX, LX_asterisk.
Qed.

Lemma sepby_cons2 sep (a b : list token) c : sepby sep (a :: b :: c) = a ++ sep :: sepby sep (b :: c).
Proof. reflexivity. Qed.

Lemma LX_sep {A} (f : A -> bytes) (g : A -> list token) (l : list A) :
  Forall (fun a => LX (f a) (g a)) l ->
  LX (intercalate [44; 32] (map f l)) (sepby (pk TComma) (map g l)).
Proof.
  induction 1 as [|a l Ha Hl IH]; [apply LXP_nil|].
  destruct l as [|b l]; [exact Ha|].
  cbn [map] in *. rewrite intercalate_cons2, sepby_cons2.
  apply LX_app; [exact Ha| |reflexivity].
  apply (LXa_app fol [44] (32 :: intercalate [44; 32] (f b :: map f l)) [pk TComma] _ LX_comma).
  apply LXP_sp, IH.
Qed.

Lemma intercalate_hdP (P : Z -> Prop) sep (a : bytes) ys : hdP P a -> hdP P (intercalate sep (a :: ys)).
Proof.
  intros (b & r & E & Hb). destruct (intercalate_head sep a ys b r E) as (r' & ->). apply hdP_cons, Hb.
Qed.

(* the guard of the multi-select list: a space after [ when a star follows *)
Lemma star_guard (inner : bytes) :
  (match inner with 42 :: _ => 32 :: inner | _ => inner end) =
  if (match inner with b :: _ => b =? 42 | [] => false end) then 32 :: inner else inner.
Proof.
  destruct inner as [|b r]; [reflexivity|].
  destruct b as [|p|p]; try reflexivity.
  destruct p as [p|p|]; try reflexivity. destruct p as [p|p|]; try reflexivity.
  destruct p as [p|p|]; try reflexivity. destruct p as [p|p|]; try reflexivity.
  destruct p as [p|p|]; try reflexivity. destruct p as [p|p|]; reflexivity.
Qed.

(* ---- the nested recursions of show, as maps ---- *)
Lemma go_show_mlist es :
  (fix go (l : list rexpr) : list bytes := match l with [] => [] | x :: r => show L_PIPE x :: go r end) es =
  map (show L_PIPE) es.
Proof. induction es as [|x es IH]; [reflexivity|]. cbn [map]. f_equal; try exact IH. Qed.

Lemma go_toks_mlist es :
  (fix go (l : list rexpr) : list (list token) := match l with [] => [] | x :: r => toks_of L_PIPE x :: go r end) es =
  map (toks_of L_PIPE) es.
Proof. induction es as [|x es IH]; [reflexivity|]. cbn [map]. f_equal; try exact IH. Qed.

Definition hash_text (kx : bytes * rexpr) : bytes := show_ident (fst kx) ++ 58 :: 32 :: show L_PIPE (snd kx).
Definition hash_toks (kx : bytes * rexpr) : list token := ident_tok (fst kx) :: pk TColon :: toks_of L_PIPE (snd kx).

Lemma go_show_mhash kes :
  (fix go (l : list (bytes * rexpr)) : list bytes :=
     match l with [] => [] | (k, x) :: r => (show_ident k ++ 58 :: 32 :: show L_PIPE x) :: go r end) kes =
  map hash_text kes.
Proof. induction kes as [|[k x] kes IH]; [reflexivity|]. cbn [map]. f_equal; try exact IH. Qed.

Lemma go_toks_mhash kes :
  (fix go (l : list (bytes * rexpr)) : list (list token) :=
     match l with [] => [] | (k, x) :: r => (ident_tok k :: pk TColon :: toks_of L_PIPE x) :: go r end) kes =
  map hash_toks kes.
Proof. induction kes as [|[k x] kes IH]; [reflexivity|]. cbn [map]. f_equal; try exact IH. Qed.

Definition arg_text (a : rarg) : bytes :=
  match a with AExpr x => show L_PIPE x | ARef x => 38 :: show L_PIPE x end.
Definition arg_toks (a : rarg) : list token :=
  match a with AExpr x => toks_of L_PIPE x | ARef x => pk TExpression :: toks_of L_PIPE x end.

Lemma go_show_call args :
  (fix go (l : list rarg) : list bytes :=
     match l with
     | [] => []
     | AExpr x :: r => show L_PIPE x :: go r
     | ARef x :: r => (38 :: show L_PIPE x) :: go r
     end) args = map arg_text args.
Proof. induction args as [|[x|x] args IH]; [reflexivity| |]; cbn [map arg_text]; f_equal; exact IH. Qed.

Lemma go_toks_call args :
  (fix go (l : list rarg) : list (list token) :=
     match l with
     | [] => []
     | AExpr x :: r => toks_of L_PIPE x :: go r
     | ARef x :: r => (pk TExpression :: toks_of L_PIPE x) :: go r
     end) args = map arg_toks args.
Proof. induction args as [|[x|x] args IH]; [reflexivity| |]; cbn [map arg_toks]; f_equal; exact IH. Qed.

Definition bind_text (nx : bytes * rexpr) : bytes := fst nx ++ sp [61] ++ show L_PIPE (snd nx).
Definition bind_toks (nx : bytes * rexpr) : list token := Tok TVariable (fst nx) :: pk TAssign :: toks_of L_PIPE (snd nx).

Lemma go_show_let bs :
  (fix go (l : list (bytes * rexpr)) : list bytes :=
     match l with [] => [] | (n, x) :: r => (n ++ sp [61] ++ show L_PIPE x) :: go r end) bs =
  map bind_text bs.
Proof. induction bs as [|[k x] bs IH]; [reflexivity|]. cbn [map]. f_equal; try exact IH. Qed.

Lemma go_toks_let bs :
  (fix go (l : list (bytes * rexpr)) : list (list token) :=
     match l with [] => [] | (n, x) :: r => (Tok TVariable n :: pk TAssign :: toks_of L_PIPE x) :: go r end) bs =
  map bind_toks bs.
Proof. induction bs as [|[k x] bs IH]; [reflexivity|]. cbn [map]. f_equal; try exact IH. Qed.

(* ---- the printed text and the tokens of the list-carrying constructors ---- *)
Lemma show_mlist es :
  show L_POST (RMultiList es) =
  let inner := intercalate [44; 32] (map (show L_PIPE) es) in
  91 :: (if (match inner with b :: _ => b =? 42 | [] => false end) then 32 :: inner else inner) ++ [93].
Proof.
  cbn [show level]. change (L_POST <? L_POST) with false. cbv iota.
  rewrite go_show_mlist, star_guard. reflexivity.
Qed.

Lemma toks_mlist_eq es :
  toks_of L_POST (RMultiList es) =
  pk TOpenSqBrace :: sepby (pk TComma) (map (toks_of L_PIPE) es) ++ [pk TCloseSqBrace].
Proof.
  cbn [toks_of level]. change (L_POST <? L_POST) with false. cbv iota.
  rewrite go_toks_mlist. reflexivity.
Qed.

Lemma show_mhash kes :
  show L_POST (RMultiHash kes) = 123 :: intercalate [44; 32] (map hash_text kes) ++ [125].
Proof.
  cbn [show level]. change (L_POST <? L_POST) with false. cbv iota.
  rewrite go_show_mhash. reflexivity.
Qed.

Lemma toks_mhash_eq kes :
  toks_of L_POST (RMultiHash kes) = pk TOpenBrace :: sepby (pk TComma) (map hash_toks kes) ++ [pk TCloseBrace].
Proof.
  cbn [toks_of level]. change (L_POST <? L_POST) with false. cbv iota.
  rewrite go_toks_mhash. reflexivity.
Qed.

Lemma show_call f args :
  show L_POST (RCall f args) = f ++ 40 :: intercalate [44; 32] (map arg_text args) ++ [41].
Proof.
  cbn [show level]. change (L_POST <? L_POST) with false. cbv iota.
  rewrite go_show_call. reflexivity.
Qed.

Lemma toks_call_eq f args :
  toks_of L_POST (RCall f args) =
  Tok TUnquotedIdentifier f :: pk TOpenParen :: sepby (pk TComma) (map arg_toks args) ++ [pk TCloseParen].
Proof.
  cbn [toks_of level]. change (L_POST <? L_POST) with false. cbv iota.
  rewrite go_toks_call. reflexivity.
Qed.

Lemma show_let bs body :
  show L_LET (RLet bs body) =
  [108; 101; 116; 32] ++ intercalate [44; 32] (map bind_text bs) ++ [32; 105; 110; 32] ++ show L_PIPE body.
Proof.
  cbn [show level]. change (L_LET <? L_LET) with false. cbv iota.
  rewrite go_show_let. reflexivity.
Qed.

Lemma toks_let_eq bs body :
  toks_of L_LET (RLet bs body) =
  pk TLet :: sepby (pk TComma) (map bind_toks bs) ++ pk TIn :: toks_of L_PIPE body.
Proof.
  cbn [toks_of level]. change (L_LET <? L_LET) with false. cbv iota.
  rewrite go_toks_let. reflexivity.
Qed.

Lemma show_arith op l r :
  show (ar_level op) (RArith op l r) = show (ar_level op) l ++ sp (ar_text op) ++ show (ar_level op + 1) r.
Proof. destruct op; reflexivity. Qed.

Lemma toks_arith op l r :
  toks_of (ar_level op) (RArith op l r) =
  toks_of (ar_level op) l ++ [pk (ar_ttype op)] ++ toks_of (ar_level op + 1) r.
Proof. destruct op; reflexivity. Qed.

(* ================================================================== *)
(* 8. The induction                                                    *)
(* ================================================================== *)

Definition PX (e : rexpr) : Prop :=
  (wfr e -> forall p, LX (show p e) (toks_of p e)) /\
  (forall sp, rhs_ok sp e -> LX (show_rhs e) (rhs_toks e)).

Lemma startP_nb x b : x = 61 \/ x = 38 -> startP b -> nb x b.
Proof. intros Hx H. apply startP_facts in H. unfold nb. lia. Qed.

Lemma LX_binop (l r : rexpr) (ql qr : Z) op t :
  PX l -> PX r -> wfr l -> wfr r -> LXa (sp op) [t] ->
  LX (show ql l ++ sp op ++ show qr r) (toks_of ql l ++ [t] ++ toks_of qr r).
Proof.
  intros [Hl _] [Hr _] Wl Wr Hop.
  apply LX_app; [apply Hl, Wl| |reflexivity].
  apply (LXa_app fol _ _ _ _ Hop). apply Hr, Wr.
Qed.

Theorem main_PX : forall e, PX e.
Proof.
  apply rexpr_children_ind. intros e IH.
  destruct e as [| |name|v|s|name|l r|l i|k l r|es|kes|l r|l r|l r|x|op l r|op l r|x|x|f args|bs body];
    cbn [rchildren] in IH.
  - (* RCurrent *) split; [|intros sp _; apply LXP_nil].
    intros _. apply LX_q. apply LXa_LX, LX_current.
  - (* RRoot *) split; [|intros sp H; cbn [rhs_ok] in H; contradiction].
    intros _. apply LX_q. apply LX_root.
  - (* RField *) split; [|intros sp H; cbn [rhs_ok] in H; contradiction].
    intros Hw. apply LX_q. apply (LX_ident name Hw).
  - (* RLiteral *) split; [|intros sp H; cbn [rhs_ok] in H; contradiction].
    intros Hw. apply LX_q. apply LXa_LX, (LX_lit v Hw).
  - (* RRaw *) split; [|intros sp H; cbn [rhs_ok] in H; contradiction].
    intros Hw. apply LX_q. apply LXa_LX, (LX_raw s Hw).
  - (* RVar *) split; [|intros sp H; cbn [rhs_ok] in H; contradiction].
    intros Hw. apply LX_q. apply (LX_var name Hw).
  - (* RSub *)
    apply Forall_cons_iff in IH as [[IHl IHlr] IH]. apply Forall_cons_iff in IH as [[IHr _] _].
    assert (Hdot : wfr r -> sub_shape r = true ->
              LX ([46] ++ show L_POST r) ([pk TDot] ++ toks_of L_POST r)).
    { intros Hr Hs. apply (LXh_app (nb 42) fol _ _ _ _ LX_dot (IHr Hr L_POST)).
      apply show_head_sub; assumption. }
    split.
    + intros (Hl & Hs & Hr). apply LX_q.
      change (LX (show L_POST l ++ [46] ++ show L_POST r) (toks_of L_POST l ++ [pk TDot] ++ toks_of L_POST r)).
      apply LX_app; [apply IHl, Hl|apply Hdot; assumption|reflexivity].
    + intros sp (Hl & _ & Hs & Hr).
      change (LX (show_rhs l ++ [46] ++ show L_POST r) (rhs_toks l ++ [pk TDot] ++ toks_of L_POST r)).
      apply LX_app; [apply (IHlr sp), Hl|apply Hdot; assumption|reflexivity].
  - (* RIndex *)
    apply Forall_cons_iff in IH as [[IHl IHlr] _].
    split.
    + intros (Hl & _ & Hi). apply LX_q.
      change (LX (show L_POST l ++ (91 :: Z_to_bytes i ++ [93]))
                 (toks_of L_POST l ++ [pk TOpenSqBrace; int_tok i; pk TCloseSqBrace])).
      apply LX_app; [apply IHl, Hl|apply LXa_LX, LX_index|reflexivity].
    + intros sp (Hl & _ & Hi).
      change (LX (show_rhs l ++ (91 :: Z_to_bytes i ++ [93]))
                 (rhs_toks l ++ [pk TOpenSqBrace; int_tok i; pk TCloseSqBrace])).
      apply LX_app; [apply (IHlr sp), Hl|apply LXa_LX, LX_index|reflexivity].
  - (* RProj *)
    assert (IH3 : PX l /\ PX r /\ match k with PFilter c => PX c | _ => True end).
    { destruct k; repeat (apply Forall_cons_iff in IH as [? IH]); auto. }
    clear IH. destruct IH3 as ([IHl IHlr] & [_ IHr] & IHc).
    assert (Hk : match k with PFilter c => wfr c | _ => True end ->
                 match k with PFilter c => LX (show L_PIPE c) (toks_of L_PIPE c) | _ => True end).
    { destruct k; auto. intros Hc. apply IHc, Hc. }
    split.
    + intros (Hl & _ & _ & Hc & Hr). apply LX_q. change (level (RProj k l r)) with L_PROJ.
      destruct (is_current_dec l) as [->|Hn].
      * rewrite show_proj_cur, proj_toks_cur.
        apply LX_app; [apply LX_ktext0, Hk, Hc|apply (IHr _ Hr)|apply fol_show_rhs].
      * rewrite show_proj_ncur, proj_toks_ncur by assumption.
        apply LX_app; [apply IHl, Hl| |apply fol_ktext].
        apply LX_app; [apply LX_ktext, Hk, Hc|apply (IHr _ Hr)|apply fol_show_rhs].
    + intros sp (Hl & _ & _ & Hc & Hr). rewrite show_rhs_proj, rhs_toks_proj.
      apply LX_app; [apply (IHlr sp), Hl| |apply fol_ktext].
      apply LX_app; [apply LX_ktext, Hk, Hc|apply (IHr _ Hr)|apply fol_show_rhs].
  - (* RMultiList *) split; [|intros sp H; cbn [rhs_ok] in H; contradiction].
    intros Hw. apply wfr_mlist in Hw as [Hne Hall]. apply LX_q. change (level (RMultiList es)) with L_POST.
    rewrite show_mlist, toks_mlist_eq. cbv zeta.
    assert (Hin : LX (intercalate [44; 32] (map (show L_PIPE) es)) (sepby (pk TComma) (map (toks_of L_PIPE) es))).
    { apply LX_sep. rewrite Forall_forall in *. intros x Hx. apply (IH x Hx). apply Hall, Hx. }
    assert (Hh : hdP startP (intercalate [44; 32] (map (show L_PIPE) es))).
    { destruct es as [|x es']; [congruence|]. cbn [map]. apply intercalate_hdP, show_head.
      inversion Hall; assumption. }
    remember (intercalate [44; 32] (map (show L_PIPE) es)) as inner eqn:Ei. clear Ei.
    destruct Hh as (b & t & -> & Hb).
    apply (LXh_app osq_next fol [91] _ [pk TOpenSqBrace] _ LX_osq).
    + destruct (b =? 42).
      * apply LX_app; [apply LXP_sp, Hin|apply LXa_LX, LX_csq|reflexivity].
      * apply LX_app; [exact Hin|apply LXa_LX, LX_csq|reflexivity].
    + destruct (Z.eqb_spec b 42) as [->|Hn].
      * apply hdP_cons. unfold osq_next. lia.
      * apply hdP_cons. apply startP_facts in Hb. unfold osq_next. lia.
  - (* RMultiHash *) split; [|intros sp H; cbn [rhs_ok] in H; contradiction].
    intros Hw. apply wfr_mhash in Hw as (Hne & _ & Hall). apply LX_q. change (level (RMultiHash kes)) with L_POST.
    rewrite show_mhash, toks_mhash_eq.
    apply (LXa_app fol [123] _ [pk TOpenBrace] _ LX_obrace).
    apply LX_app; [|apply LXa_LX, LX_cbrace|reflexivity].
    apply LX_sep. apply -> Forall_map in IH. rewrite Forall_forall in *. intros [kk x] Hx.
    destruct (Hall _ Hx) as [Hk Hwx]. cbn [fst snd] in *. unfold hash_text, hash_toks. cbn [fst snd].
    change (LX (show_ident kk ++ [58] ++ 32 :: show L_PIPE x) ([ident_tok kk] ++ [pk TColon] ++ toks_of L_PIPE x)).
    apply LX_app; [apply LX_ident, Hk| |reflexivity].
    apply (LXa_app fol _ _ _ _ LX_colon). apply LXP_sp. apply (IH _ Hx), Hwx.
  - (* RPipe *) split; [|intros sp H; cbn [rhs_ok] in H; contradiction].
    apply Forall_cons_iff in IH as [IHl IH]. apply Forall_cons_iff in IH as [IHr _].
    intros (Hl & Hr). apply LX_q.
    apply (LX_binop l r L_PIPE L_OR [124] (pk TPipe)); auto using LX_sp_pipe.
  - (* ROr *) split; [|intros sp H; cbn [rhs_ok] in H; contradiction].
    apply Forall_cons_iff in IH as [IHl IH]. apply Forall_cons_iff in IH as [IHr _].
    intros (Hl & Hr). apply LX_q.
    apply (LX_binop l r L_OR L_AND [124; 124] (pk TOr)); auto using LX_sp_or.
  - (* RAnd *) split; [|intros sp H; cbn [rhs_ok] in H; contradiction].
    apply Forall_cons_iff in IH as [IHl IH]. apply Forall_cons_iff in IH as [IHr _].
    intros (Hl & Hr). apply LX_q.
    apply (LX_binop l r L_AND L_CMP [38; 38] (pk TAnd)); auto using LX_sp_and.
  - (* RNot *) split; [|intros sp H; cbn [rhs_ok] in H; contradiction].
    apply Forall_cons_iff in IH as [[IHx _] _].
    intros Hw. cbn [wfr] in Hw. apply LX_q.
    change (LX ([33] ++ (if is_atom x then show L_POST x else paren (show L_LET x)))
               ([pk TNot] ++ (if is_atom x then toks_of L_POST x else wrapt (toks_of L_LET x)))).
    apply (LXh_app (nb 61) fol _ _ _ _ LX_not).
    + destruct (is_atom x); [apply IHx, Hw|apply LX_paren, IHx, Hw].
    + destruct (is_atom x).
      * eapply hdP_impl; [|apply show_head, Hw]. intros b0; apply startP_nb; auto.
      * apply hdP_cons. unfold nb; lia.
  - (* RCmp *) split; [|intros sp H; cbn [rhs_ok] in H; contradiction].
    apply Forall_cons_iff in IH as [IHl IH]. apply Forall_cons_iff in IH as [IHr _].
    intros (Hl & Hr). apply LX_q.
    apply (LX_binop l r L_CMP L_ADD (cmp_text op) (pk (cmp_ttype op))); auto using LX_cmp.
  - (* RArith *) split; [|intros sp H; cbn [rhs_ok] in H; contradiction].
    apply Forall_cons_iff in IH as [IHl IH]. apply Forall_cons_iff in IH as [IHr _].
    intros (Hl & Hr). apply LX_q. change (level (RArith op l r)) with (ar_level op).
    rewrite show_arith, toks_arith.
    apply (LX_binop l r (ar_level op) (ar_level op + 1) (ar_text op) (pk (ar_ttype op))); auto using LX_ar.
  - (* RNeg *) split; [|intros sp H; cbn [rhs_ok] in H; contradiction].
    apply Forall_cons_iff in IH as [[IHx _] _].
    intros Hw. cbn [wfr] in Hw. apply LX_q.
    change (LX ([45] ++ 32 :: show L_PROJ x) ([pk TSubtract] ++ toks_of L_PROJ x)).
    apply (LXh_app nodigit fol _ _ _ _ LX_subtract).
    + apply LXP_sp, IHx, Hw.
    + apply hdP_cons. split; [lia|reflexivity].
  - (* RPos *) split; [|intros sp H; cbn [rhs_ok] in H; contradiction].
    apply Forall_cons_iff in IH as [[IHx _] _].
    intros Hw. cbn [wfr] in Hw. apply LX_q.
    change (LX ([43] ++ 32 :: show L_PROJ x) ([pk TAdd] ++ toks_of L_PROJ x)).
    apply (LXa_app fol _ _ _ _ LX_add). apply LXP_sp, IHx, Hw.
  - (* RCall *) split; [|intros sp H; cbn [rhs_ok] in H; contradiction].
    intros Hw. apply wfr_call in Hw as (Hok & Hall). apply LX_q. change (level (RCall f args)) with L_POST.
    rewrite show_call, toks_call_eq.
    change (LX (f ++ [40] ++ intercalate [44; 32] (map arg_text args) ++ [41])
               ([Tok TUnquotedIdentifier f] ++ [pk TOpenParen] ++ sepby (pk TComma) (map arg_toks args) ++ [pk TCloseParen])).
    apply LX_app; [apply LX_plain, (call_ok_plain f args Hok)| |reflexivity].
    apply (LXa_app fol _ _ _ _ LX_oparen).
    apply LX_app; [|apply LXa_LX, LX_cparen|reflexivity].
    apply LX_sep. apply -> Forall_map in IH. rewrite Forall_forall in *. intros a Ha.
    specialize (IH a Ha). specialize (Hall a Ha). destruct IH as [IHa _].
    destruct a as [x|x]; cbn [arg_expr arg_text arg_toks] in *.
    + apply IHa, Hall.
    + change (LX ([38] ++ show L_PIPE x) ([pk TExpression] ++ toks_of L_PIPE x)).
      apply (LXh_app (nb 38) fol _ _ _ _ LX_expref); [apply IHa, Hall|].
      eapply hdP_impl; [|apply show_head, Hall]. intros b0; apply startP_nb; auto.
  - (* RLet *) split; [|intros sp H; cbn [rhs_ok] in H; contradiction].
    apply Forall_cons_iff in IH as [[IHb _] IH].
    intros Hw. apply wfr_let in Hw as (Hne & _ & Hall & Hbody). apply LX_q. change (level (RLet bs body)) with L_LET.
    rewrite show_let, toks_let_eq.
    change (LX ([108; 101; 116] ++ 32 :: (intercalate [44; 32] (map bind_text bs) ++ 32 :: ([105; 110] ++ 32 :: show L_PIPE body)))
               ([pk TLet] ++ sepby (pk TComma) (map bind_toks bs) ++ [pk TIn] ++ toks_of L_PIPE body)).
    apply LX_app; [apply LX_let| |reflexivity]. apply LXP_sp.
    apply LX_app; [| |reflexivity].
    + apply LX_sep. apply -> Forall_map in IH. rewrite Forall_forall in *. intros [n x] Hx.
      destruct (Hall _ Hx) as [Hn Hwx]. cbn [fst snd] in *. unfold bind_text, bind_toks. cbn [fst snd].
      change (LX (n ++ sp [61] ++ show L_PIPE x) ([Tok TVariable n] ++ [pk TAssign] ++ toks_of L_PIPE x)).
      apply LX_app; [apply LX_var, Hn| |reflexivity].
      apply (LXa_app fol _ _ _ _ LX_sp_assign). apply (IH _ Hx), Hwx.
    + apply LXP_sp. apply LX_app; [apply LX_in|apply LXP_sp, IHb, Hbody|reflexivity].
Qed.

Theorem lex_unparse : forall e, wfr e ->
  lex_all (unparse e) = map ITok (toks_of 0 e) ++ [ITok (Tok TEnd [])].
Proof.
  intros e Hw. destruct (main_PX e) as [H _]. specialize (H Hw L_LET [] I).
  rewrite app_nil_r in H. exact H.
Qed.

(* ================================================================== *)
(* 9. The corollaries of ParseUnparse.v without the lexing hypothesis  *)
(* ================================================================== *)

From JM Require Import Model.Slice Model.Eval Proofs.EvalRefines.
From JM Require Model.Api.

Corollary parse_unparse_node_full : forall e, wfr e -> parse (unparse e) = Ok (compile_r e).
Proof. intros e Hw. apply parse_unparse_node; [assumption|apply lex_unparse, Hw]. Qed.

Corollary parse_unparse_full : forall e, wfr e ->
  exists n, parse (unparse e) = Ok n /\ unfuse n = norm e.
Proof. intros e Hw. apply parse_unparse; [assumption|apply lex_unparse, Hw]. Qed.

Corollary canonical_text_means_spec_full : forall e, wfr e ->
  exists n, parse (unparse e) = Ok n /\ unfuse n = norm e /\
    forall root cur vars,
      slices_short root e cur vars ->
      wf_node n = true -> no_step_slice n = true -> no_zip n = true ->
      eval root n cur vars = ref_eval root e cur vars.
Proof. intros e Hw. apply canonical_text_means_spec; [assumption|apply lex_unparse, Hw]. Qed.

Corollary canonical_text_means_spec_plain_full : forall e, wfr e -> plain_r e ->
  exists n, parse (unparse e) = Ok n /\
    forall root cur vars, slices_short root e cur vars -> eval root n cur vars = ref_eval root e cur vars.
Proof. intros e Hw Hp. apply canonical_text_means_spec_plain; [assumption|assumption|apply lex_unparse, Hw]. Qed.

Corollary search_canonical_text_full : forall e, wfr e -> plain_r e ->
  forall doc, slices_short doc e doc [] ->
    Api.search (unparse e) doc = Api.lift_eval (ref_search e doc).
Proof. intros e Hw Hp. apply search_canonical_text; [assumption|assumption|apply lex_unparse, Hw]. Qed.

Corollary search_canonical_text_closed_full : forall e, wfr e -> plain_r e -> closed_slices e ->
  forall doc, Api.search (unparse e) doc = Api.lift_eval (ref_search e doc).
Proof. intros e Hw Hp Hc. apply search_canonical_text_closed; [assumption|assumption|assumption|apply lex_unparse, Hw]. Qed.

(* the validation samples of ParseUnparse.v and the non-vacuity witness, now as instances *)
Example rich_lexes : lex_all (unparse rich) = map ITok (toks_of 0 rich) ++ [ITok (Tok TEnd [])].
Proof. apply lex_unparse, wfr_rich. Qed.

Example samples_lex :
  Forall (fun e => lex_all (unparse e) = map ITok (toks_of 0 e) ++ [ITok (Tok TEnd [])])
         [Samples.e1; Samples.e2; Samples.e3; Samples.e4; Samples.e5; Samples.e6; Samples.e7; Samples.e8;
          Samples.e9; Samples.e10; Samples.e11; Samples.e12; Samples.e13; Samples.e14; Samples.e15;
          Samples.e16; Samples.e17; Samples.e18; Samples.e19; Samples.e20; Samples.e21].
Proof. eapply Forall_impl; [|apply samples_wfr]. intros e. apply lex_unparse. Qed.

Print Assumptions lex_unparse.
Print Assumptions parse_unparse_full.
Print Assumptions canonical_text_means_spec_full.
Print Assumptions search_canonical_text_full.
Print Assumptions search_canonical_text_closed_full.
